(* Proofs/C01for.v — the `for` loop: structured reading vs. its lowering to labels and jumps, on the REAL statement type
   and the REAL interpreter model (Model/Interp.v exec).  Companion of Proofs/C01.v (whose [sim] is used for the loop body).

   WHAT IS HERE
   * [compile_for]: the statement list that parse_script emits for
         for <x>[, <idx>] in <e>:  <body>  endfor
     (header: values temporary, length temporary via arrayLength, jump to done when the length is falsy, index = 0, loop label,
     x = arrayGet(values, index); body; the continue label ONLY when the body has a `continue` that binds to this loop; index =
     index + 1; jumpif index < length; done label).  The body is any [sstmt] of Proofs/C01.v compiled by C01's [compile] with
     (break -> done label, continue -> continue label).
   * [FExec]: the structured big-step reading of the loop: the expression is evaluated once; the array's length is taken
     once; iteration i binds x to element i of the array AS IT IS IN THE HEAP AT THAT MOMENT, runs the body, `break` ends the
     loop, `continue` and normal completion go to the increment (for a `for` loop `continue` is right, unlike `while` - F7 -
     because the continue label sits before the increment); return / error in the body end the loop with that outcome.
     The reading also records the three bookkeeping variables (values, length, index) in the current scope, as the
     implementation does (they are ordinary variables there and a script can read them).
   * [for_sim]: whenever the structured reading ends (normally / return / error), the interpreter run on the lowered code from
     the loop's first statement reaches the statement after the done label (or returns) with the same locals and, up to the
     statement counter, the same world.  Same shape as C01's [sim] (continuation-passing [post]).
   * [fexec]/[fexec_sound]: an executable interpreter for [FExec] (so both sides can be run inside Coq).

   PREMISES of [for_sim]
   * on the LIBRARY (the lib argument of the interpreter model): [arrayLength_contract], [arrayGet_contract] (proved for Model/LibCore.v libcore below), and
     the two premises of C01 (fuel monotone, counter-blind evaluation);
   * on names: the three temporaries are pairwise distinct and none is null/true/false ([names_okb]);
   * on the body: C01's side conditions [wf true], [guard] (no `continue` inside a `while`: F7);
   * DEFINEDNESS side conditions inside the rules of [FExec]/[FLoop] (the reading is only given for such runs):
       - `arrayLength` resolves to the library function when the length is taken and `arrayGet` resolves to the library
         function at the start of every iteration (a script that rebinds these names breaks its own for loops);
       - after the body of an iteration that goes on, the three temporaries still hold array / length / index ([Inv3]):
         i.e. the body does not assign the hidden names (nor, through systemGlobalSet, overwrite them);
       - element i exists when iteration i starts (the body has not shrunk the array below the index).

   WHAT IS MISSING (named)
   * in THIS file `for` is one loop over an [sstmt] body; Proofs/C01forN.v extends it to nested loops (for-in-for) and
     sequences around them.  A `for` inside an if branch or inside a while body is covered by neither;
   * the loop expression evaluating to a NON-array value (arrayLength then fails its argument check, returns 0, logs in debug
     mode, and the loop is skipped) has no rule in [FExec];
   * a body that shrinks the array (arrayGet out of range: null plus a debug log) has no rule;
   * the syntactic sufficient condition for [Inv3] (body never assigns the hidden names) is not proved, it is a semantic
     side condition of the iteration rule. *)
From Coq Require Import Lia List Bool ZArith.
From BS Require Import Model.Base Model.Num Model.Arith Model.ExprParser Model.Script Model.Interp
                       Proofs.InterpEq Proofs.Fuel Proofs.C08 Proofs.C01 Proofs.C01b Proofs.Blind.
Import ListNotations.

Definition ARRLEN : str := U "arrayLength".
Definition ARRGET : str := U "arrayGet".
Definition int_v (i : nat) : value := VNum (NInt (Z.of_nat i)).

(* ---------------------------------------------------------------- contracts of the two library functions the lowering calls *)
Definition arrayLength_contract (lib : caller -> str -> list value -> world -> lres * world) : Prop :=
  forall cb l w elems, nth_error (w_arrs w) l = Some elems -> lib cb ARRLEN [VArr l] w = (LVal (int_v (length elems)), w).
Definition arrayGet_contract (lib : caller -> str -> list value -> world -> lres * world) : Prop :=
  forall cb l i w elems v, nth_error (w_arrs w) l = Some elems -> nth_error elems i = Some v ->
    lib cb ARRGET [VArr l; int_v i] w = (LVal v, w).

(* a `continue` that binds to the enclosing loop (what sets hasContinue of the loop's frame in the parser) *)
Fixpoint has_cont (s : sstmt) : bool :=
  match s with
  | TSeq a b => has_cont a || has_cont b
  | TIf _ a rest => has_cont a || has_cont rest
  | TElse b => has_cont b
  | TContinue => true
  | _ => false
  end.

(* ---------------------------------------------------------------- environments *)
Lemma assoc_set_same {A} k (v : A) e : assoc k (env_set k v e) = Some v.
Proof.
  induction e as [|[k' v'] t IH]; cbn [env_set assoc]; [rewrite str_eqb_refl; reflexivity|].
  destruct (str_eqb k k') eqn:E; cbn [assoc]; [rewrite str_eqb_refl; reflexivity|rewrite E; exact IH].
Qed.
Lemma assoc_set_other {A} k k' (v : A) e : k' <> k -> assoc k' (env_set k v e) = assoc k' e.
Proof.
  intros H. assert (Hf : str_eqb k' k = false).
  { destruct (str_eqb k' k) eqn:E; [apply str_eqb_eq in E; congruence|reflexivity]. }
  induction e as [|[k2 v2] t IH]; cbn [env_set assoc]; [rewrite Hf; reflexivity|].
  destruct (str_eqb k k2) eqn:E; cbn [assoc].
  - apply str_eqb_eq in E. subst k2. rewrite Hf. reflexivity.
  - destruct (str_eqb k' k2); [reflexivity|exact IH].
Qed.

Definition plainb (y : str) : bool := negb (op_is y "null") && negb (op_is y "false") && negb (op_is y "true").
Definition slook (y : str) (st : sstate) : value := lookup_var y (fst st) (snd st).
Definition assign' (y : str) (v : value) (st : sstate) : sstate := assign y v (fst st) (snd st).
Definition is_lib (name : str) (st : sstate) : Prop := lookup_fn name (fst st) false (snd st) = Some (VFun (FLib name)).

Lemma slook_same y v st : plainb y = true -> slook y (assign' y v st) = v.
Proof.
  unfold plainb. intros H. apply andb_prop in H. destruct H as [H H3]. apply andb_prop in H. destruct H as [H1 H2].
  apply negb_true_iff in H1, H2, H3. unfold slook, lookup_var. rewrite H1, H2, H3.
  destruct st as [[l|] w]; unfold assign', env_get; cbn [assign fst snd w_globals upd_globals]; rewrite assoc_set_same; reflexivity.
Qed.
Lemma slook_other y z v st : z <> y -> slook y (assign' z v st) = slook y st.
Proof.
  intros H. unfold slook, lookup_var. destruct st as [[l|] w]; unfold assign', env_get; cbn [assign fst snd w_globals upd_globals];
    rewrite (assoc_set_other z y) by (intros E; apply H; symmetry; exact E); reflexivity.
Qed.
Lemma arrs_assign y v st : w_arrs (snd (assign' y v st)) = w_arrs (snd st).
Proof. destruct st as [[l|] w]; reflexivity. Qed.
Lemma arrs_weq a b : weq a b -> w_arrs a = w_arrs b.
Proof. intros H. destruct (weq_fields _ _ H) as (_ & Ha & _). exact Ha. Qed.
Lemma slook_weq y st wm : weq (snd st) wm -> lookup_var y (fst st) (tick wm) = slook y st.
Proof. intros H. symmetry. apply lookup_var_weq. apply C01.weq_tick. exact H. Qed.
Lemma truthy_int w k : truthy w (int_v k) = match k with O => false | S _ => true end.
Proof. destruct k; reflexivity. Qed.

Definition names_okb (vals len idx : str) : bool :=
  negb (str_eqb vals len) && negb (str_eqb vals idx) && negb (str_eqb len idx) && plainb vals && plainb len && plainb idx.
Lemma str_neq a b : negb (str_eqb a b) = true -> a <> b.
Proof. intros H E. subst b. rewrite str_eqb_refl in H. discriminate. Qed.

Section For.
Variable cfg : config.
Hypothesis Hunl : c_max cfg = 0%Z.
Variable lib : caller -> str -> list value -> world -> lres * world.
Variable url_rel : str -> str -> str.
Variable lint_lines : script -> list str.
Hypothesis Hlib : lib_fuel_monotone lib.
Variable um : umode.
Variable lab : lkind -> nat -> str.
Variable labc : nat -> str.                  (* the continue label of loop n (Script.lbl L_Continue in Props/C01.v) *)

Notation Ev := (Ev cfg lib url_rel lint_lines um).
Notation Run := (Run cfg lib url_rel lint_lines um).
Notation SExec := (SExec cfg lib url_rel lint_lines um).
Notation compile := (compile lab).
Notation crest := (crest lab).
Notation post := (post cfg lib url_rel lint_lines um).
Notation eval := (eval cfg lib url_rel lint_lines).
Notation call := (call cfg lib url_rel lint_lines).

Ltac run_at H := match type of H with C01.Run _ _ _ _ _ ?code ?p ?l ?w ?r =>
  match goal with |- C01.Run _ _ _ _ _ code ?q l w r => replace q with p by lia; exact H end end.
Ltac nth_at H := match type of H with nth_error ?code ?p = ?x =>
  match goal with |- nth_error code ?q = x => replace q with p by lia; exact H end end.

(* ---------------------------------------------------------------- evaluation of the expressions the lowering writes *)
Lemma Ev_var y loc w : Ev (EVar y) loc w (OVal (lookup_var y loc w)) w.
Proof. exists 1. split; [reflexivity|discriminate]. Qed.
Lemma Ev_num k loc w : Ev (ENum k) loc w (OVal (VNum k)) w.
Proof. exists 1. split; [reflexivity|discriminate]. Qed.

Lemma eval_args_vars f loc bi : forall xs w acc,
  eval_args (eval (S f)) loc bi um (map EVar xs) w acc = (inr (rev acc ++ map (fun y => lookup_var y loc w) xs), w).
Proof.
  induction xs as [|y xs IH]; intros w acc; cbn [map eval_args]; [rewrite app_nil_r; reflexivity|].
  rewrite eval_S. cbn [eval_body]. rewrite IH. cbn [rev]. rewrite <- app_assoc. reflexivity.
Qed.

(* a call of a library function on variables, when the name resolves to the library function and the function returns *)
Lemma Ev_call name xs loc w v :
  op_is name "if" = false -> lookup_fn name loc false w = Some (VFun (FLib name)) ->
  (forall cb, lib cb name (map (fun y => lookup_var y loc w) xs) w = (LVal v, w)) ->
  Ev (ECall name (map EVar xs)) loc w (OVal v) w.
Proof.
  intros Hif Hfn Hl. exists 3. split; [|discriminate].
  rewrite eval_S. cbn [eval_body]. rewrite Hif. rewrite eval_args_vars. cbn [rev app]. rewrite Hfn.
  rewrite call_S. cbn [call_body]. rewrite Hl. reflexivity.
Qed.

Lemma Ev_inc idx loc w i : lookup_var idx loc w = int_v i ->
  Ev (EBin (U "+") (EVar idx) (ENum (NInt 1))) loc w (OVal (int_v (S i))) w.
Proof.
  intros H. exists 2. split; [|discriminate].
  rewrite eval_S. cbn [eval_body]. rewrite !eval_S. cbn [eval_body]. rewrite H.
  change (op_is (U "+") "&&") with false. change (op_is (U "+") "||") with false. cbv iota.
  unfold binop. change (op_is (U "+") "+") with true. cbv iota. unfold int_v. cbn [as_num num_add lift2 of_ares].
  rewrite Nat2Z.inj_succ. reflexivity.
Qed.

Lemma Ev_lt idx len loc w j m : lookup_var idx loc w = int_v j -> lookup_var len loc w = int_v m ->
  Ev (EBin (U "<") (EVar idx) (EVar len)) loc w (OVal (VBool (Z.of_nat j <? Z.of_nat m)%Z)) w.
Proof.
  intros H1 H2. exists 2. split; [|discriminate].
  rewrite eval_S. cbn [eval_body]. rewrite !eval_S. cbn [eval_body]. rewrite H1.
  change (op_is (U "<") "&&") with false. change (op_is (U "<") "||") with false. cbv iota.
  rewrite eval_S. cbn [eval_body]. rewrite H2.
  unfold binop.
  change (op_is (U "<") "+") with false. change (op_is (U "<") "-") with false. change (op_is (U "<") "*") with false.
  change (op_is (U "<") "/") with false. change (op_is (U "<") "==") with false. change (op_is (U "<") "!=") with false.
  change (op_is (U "<") "<=") with false. change (op_is (U "<") "<") with true. cbv iota.
  unfold relop, cmp_fuel, int_v. cbn [vcompare comparison_of_num num_compare]. reflexivity.
Qed.

(* ---------------------------------------------------------------- facts about `continue` *)
Lemma has_cont_sound s st o st' : SExec s st o st' -> has_cont s = false -> o <> SContinue.
Proof.
  induction 1; cbn [has_cont]; intros Hg; try discriminate;
    repeat match goal with H : (_ || _)%bool = false |- _ => apply orb_false_elim in H; destruct H end; auto.
Qed.

(* one-step equations of C01's lowering (by reflexivity) *)
Lemma compile_seq_eq ctx n a b :
  compile ctx n (TSeq a b) = (let '(ca, n1) := compile ctx n a in let '(cb, n2) := compile ctx n1 b in (ca ++ cb, n2)).
Proof. reflexivity. Qed.
Lemma compile_if_eq ctx n c a rest :
  compile ctx n (TIf c a rest) =
  (let '(ca, n1) := compile ctx (S n) a in
   let '(cr, n2) := crest ctx (lab KDone n) (lab KIf n) n1 rest in
   (branch_head (lab KDone n) (lab KIf n) c rest :: ca ++ cr ++ [SLabel (lab KDone n)], n2)).
Proof. reflexivity. Qed.
Lemma crest_if_eq ctx done jl n c2 a2 rest2 :
  crest ctx done jl n (TIf c2 a2 rest2) =
  (let '(ca2, n1) := compile ctx (S n) a2 in
   let '(cr2, n2) := crest ctx done (lab KIf n) n1 rest2 in
   ([SJump done None; SLabel jl] ++ branch_head done (lab KIf n) c2 rest2 :: ca2 ++ cr2, n2)).
Proof. reflexivity. Qed.
Lemma compile_else_eq ctx n b : compile ctx n (TElse b) = compile ctx n b.
Proof. reflexivity. Qed.
Lemma crest_else_eq ctx done jl n b :
  crest ctx done jl n (TElse b) = (let '(cb, n2) := compile ctx n b in ([SJump done None; SLabel jl] ++ cb, n2)).
Proof. reflexivity. Qed.

(* code that has no continue of the enclosing loop does not mention the loop's continue label *)
Lemma compile_cont_irrel : forall s, has_cont s = false ->
  (forall d c1 c2 n, compile (Some (d, c1)) n s = compile (Some (d, c2)) n s) /\
  (forall d c1 c2 done jl n, crest (Some (d, c1)) done jl n s = crest (Some (d, c2)) done jl n s).
Proof.
  induction s as [ |a IHa b' IHb|y e|e|e| | |c a IHa rest IHr|b' IHb|c b' IHb]; cbn [has_cont]; intros H;
    try (split; intros; reflexivity); try discriminate.
  - apply orb_false_elim in H. destruct H as [Ha Hb]. destruct (IHa Ha) as [Ca _]. destruct (IHb Hb) as [Cb _].
    split; [|intros; reflexivity]. intros d c1 c2 n. rewrite !compile_seq_eq. rewrite (Ca d c1 c2 n).
    destruct (compile (Some (d, c2)) n a) as [ca n1]. rewrite (Cb d c1 c2 n1). reflexivity.
  - apply orb_false_elim in H. destruct H as [Ha Hr]. destruct (IHa Ha) as [Ca _]. destruct (IHr Hr) as [_ Cr].
    split.
    + intros d c1 c2 n. rewrite !compile_if_eq. rewrite (Ca d c1 c2 (S n)).
      destruct (compile (Some (d, c2)) (S n) a) as [ca n1]. rewrite (Cr d c1 c2 (lab KDone n) (lab KIf n) n1). reflexivity.
    + intros d c1 c2 done jl n. rewrite !crest_if_eq. rewrite (Ca d c1 c2 (S n)).
      destruct (compile (Some (d, c2)) (S n) a) as [ca n1]. rewrite (Cr d c1 c2 done (lab KIf n) n1). reflexivity.
  - destruct (IHb H) as [Cb _]. split.
    + intros d c1 c2 n. rewrite !compile_else_eq. apply Cb.
    + intros d c1 c2 done jl n. rewrite !crest_else_eq. rewrite (Cb d c1 c2 n). reflexivity.
Qed.

(* PREMISES on the library *)
Hypothesis Ev_blind : forall e loc w o w' wm, Ev e loc w o w' -> weq w wm -> exists wm', Ev e loc wm o wm' /\ weq w' wm'.
Hypothesis Hlen : arrayLength_contract lib.
Hypothesis Hget : arrayGet_contract lib.

(* one assignment statement whose right-hand side is pure *)
Lemma step_assign code p y ex (st : sstate) wm v :
  nth_error code p = Some (SExpr (Some y) ex) -> weq (snd st) wm ->
  Ev ex (fst st) (tick wm) (OVal v) (tick wm) ->
  exists wm', weq (snd (assign' y v st)) wm' /\ forall r, Run code (S p) (fst (assign' y v st)) wm' r -> Run code p (fst st) wm r.
Proof.
  intros Hn Hw He. destruct (assign_weq y v (fst st) _ _ (C01.weq_tick _ _ Hw)) as [Ef Ew].
  exists (snd (assign y v (fst st) (tick wm))). split; [exact Ew|]. intros r Hr.
  eapply (run_expr cfg Hunl lib url_rel lint_lines Hlib um); [exact Hn|exact He|]. cbn beta iota.
  unfold assign' in Hr. rewrite Ef in Hr. exact Hr.
Qed.

Section Loop.
Variables (vals len idx x : str) (e : expr) (b : sstmt).

(* ---------------------------------------------------------------- the lowering, as parse_script performs it *)
Definition compile_for (n : nat) : list stmt * nat :=
  let '(cb, n1) := compile (Some (lab KDone n, labc n)) (S n) b in
  ([SExpr (Some vals) e;
    SExpr (Some len) (ECall ARRLEN [EVar vals]);
    SJump (lab KDone n) (Some (e_not (EVar len)));
    SExpr (Some idx) (ENum (NInt 0));
    SLabel (lab KLoop n);
    SExpr (Some x) (ECall ARRGET [EVar vals; EVar idx])]
   ++ cb ++
   (if has_cont b then [SLabel (labc n)] else []) ++
   [SExpr (Some idx) (EBin (U "+") (EVar idx) (ENum (NInt 1)));
    SJump (lab KLoop n) (Some (EBin (U "<") (EVar idx) (EVar len)));
    SLabel (lab KDone n)], n1).

(* ---------------------------------------------------------------- the structured reading *)
(* the three temporaries hold the array, its length as taken at the start, and the current index *)
Definition Inv3 (l m i : nat) (st : sstate) : Prop :=
  slook vals st = VArr l /\ slook len st = int_v m /\ slook idx st = int_v i.

(* iteration i: x is bound to element i of the array as it is now, then the body runs *)
Definition Iter (l i : nat) (st : sstate) (ob : sout) (st_b : sstate) : Prop :=
  exists elems v, is_lib ARRGET st /\ nth_error (w_arrs (snd st)) l = Some elems /\ nth_error elems i = Some v /\
    SExec b (assign' x v st) ob st_b.

Inductive FLoop (l m : nat) : nat -> sstate -> sout -> sstate -> Prop :=
| FL_stop i st out st_b : Iter l i st (SStop out) st_b -> FLoop l m i st (SStop out) st_b
| FL_break i st st_b : Iter l i st SBreak st_b -> FLoop l m i st SNormal st_b
| FL_next i st ob st_b o st' : Iter l i st ob st_b -> (ob = SNormal \/ ob = SContinue) -> Inv3 l m i st_b -> S i < m ->
    FLoop l m (S i) (assign' idx (int_v (S i)) st_b) o st' -> FLoop l m i st o st'
| FL_last i st ob st_b : Iter l i st ob st_b -> (ob = SNormal \/ ob = SContinue) -> Inv3 l m i st_b -> m <= S i ->
    FLoop l m i st SNormal (assign' idx (int_v (S i)) st_b).

Inductive FExec : sstate -> sout -> sstate -> Prop :=
| F_Stop loc w o w1 : Ev e loc w o w1 -> is_val o = false -> FExec (loc, w) (SStop o) (loc, w1)
| F_Empty loc w l w1 : Ev e loc w (OVal (VArr l)) w1 -> nth_error (w_arrs w1) l = Some [] ->
    is_lib ARRLEN (assign' vals (VArr l) (loc, w1)) ->
    FExec (loc, w) SNormal (assign' len (int_v 0) (assign' vals (VArr l) (loc, w1)))
| F_Loop loc w l w1 elems o st' : Ev e loc w (OVal (VArr l)) w1 -> nth_error (w_arrs w1) l = Some elems -> elems <> [] ->
    is_lib ARRLEN (assign' vals (VArr l) (loc, w1)) ->
    FLoop l (length elems) 0 (assign' idx (int_v 0) (assign' len (int_v (length elems)) (assign' vals (VArr l) (loc, w1)))) o st' ->
    FExec (loc, w) o st'.

Hypothesis Hnames : names_okb vals len idx = true.
Hypothesis Hwf : wf true b = true.
Hypothesis Hg : guard b = true.

Lemma names_facts : vals <> len /\ vals <> idx /\ len <> idx /\ plainb vals = true /\ plainb len = true /\ plainb idx = true.
Proof.
  pose proof Hnames as H. unfold names_okb in H.
  repeat match goal with H : (_ && _)%bool = true |- _ => apply andb_prop in H; destruct H end.
  repeat split; try assumption; apply str_neq; assumption.
Qed.

Lemma Inv3_next l m i st : Inv3 l m i st -> Inv3 l m (S i) (assign' idx (int_v (S i)) st).
Proof.
  destruct names_facts as (N1 & N2 & N3 & Q1 & Q2 & Q3). intros (Iv & Il & Ii). repeat split.
  - rewrite slook_other by (intros E; apply N2; symmetry; exact E). exact Iv.
  - rewrite slook_other by (intros E; apply N3; symmetry; exact E). exact Il.
  - apply slook_same. exact Q3.
Qed.

(* ---------------------------------------------------------------- the simulation, over a fixed layout *)
Section Layout.
Variables (code : list stmt) (pc n L c : nat).
Local Notation cb := (fst (compile (Some (lab KDone n, labc n)) (S n) b)).
Hypothesis HN : NoDup (labels code).
Hypothesis HL : L = length cb.
Hypothesis Hc : c = if has_cont b then 1 else 0.
Hypothesis P0 : nth_error code pc = Some (SExpr (Some vals) e).
Hypothesis P1 : nth_error code (pc + 1) = Some (SExpr (Some len) (ECall ARRLEN [EVar vals])).
Hypothesis P2 : nth_error code (pc + 2) = Some (SJump (lab KDone n) (Some (e_not (EVar len)))).
Hypothesis P3 : nth_error code (pc + 3) = Some (SExpr (Some idx) (ENum (NInt 0))).
Hypothesis P4 : nth_error code (pc + 4) = Some (SLabel (lab KLoop n)).
Hypothesis P5 : nth_error code (pc + 5) = Some (SExpr (Some x) (ECall ARRGET [EVar vals; EVar idx])).
Hypothesis Pb : code_at code (pc + 6) cb.
Hypothesis Pc : has_cont b = true -> nth_error code (pc + 6 + L) = Some (SLabel (labc n)).
Hypothesis P6 : nth_error code (pc + 6 + L + c) = Some (SExpr (Some idx) (EBin (U "+") (EVar idx) (ENum (NInt 1)))).
Hypothesis P7 : nth_error code (pc + 7 + L + c) = Some (SJump (lab KLoop n) (Some (EBin (U "<") (EVar idx) (EVar len)))).
Hypothesis P8 : nth_error code (pc + 8 + L + c) = Some (SLabel (lab KDone n)).

Local Notation bpos := (Some (pc + 8 + L + c, if has_cont b then pc + 6 + L else pc + 8 + L + c)).

(* the body, by the simulation theorem of Proofs/C01.v *)
Lemma body_step st_a ob st_b wm : SExec b st_a ob st_b -> weq (snd st_a) wm ->
  exists wm_b, weq (snd st_b) wm_b /\ post code bpos (pc + 6 + L) ob (fst st_b) wm_b (pc + 6) (fst st_a) wm.
Proof.
  intros H Hw. destruct (sim cfg Hunl lib url_rel lint_lines Hlib um lab Ev_blind _ _ _ _ H) as [HP _].
  set (cl := if has_cont b then labc n else lab KDone n).
  assert (Hcomp : compile (Some (lab KDone n, cl)) (S n) b = compile (Some (lab KDone n, labc n)) (S n) b).
  { unfold cl. destruct (has_cont b) eqn:E; [reflexivity|]. apply compile_cont_irrel. exact E. }
  destruct (HP code (Some (lab KDone n, cl)) bpos (S n) (pc + 6) wm HN) as (wm_b & Hwb & Hp).
  - cbn [cont_ok]. split; [exact P8|]. unfold cl. destruct (has_cont b) eqn:E; [apply Pc; reflexivity|exact P8].
  - exact Hwf.
  - exact Hg.
  - rewrite Hcomp. exact Pb.
  - exact Hw.
  - exists wm_b. split; [exact Hwb|]. rewrite Hcomp in Hp. rewrite <- HL in Hp. exact Hp.
Qed.

(* x = arrayGet(values, index); body *)
Lemma iter_sim l m i st ob st_b wm : Iter l i st ob st_b -> Inv3 l m i st -> weq (snd st) wm ->
  exists wm_b, weq (snd st_b) wm_b /\ post code bpos (pc + 6 + L) ob (fst st_b) wm_b (pc + 5) (fst st) wm.
Proof.
  intros (elems & v & Hfn & Harr & Hel & Hb) (Iv & Il & Ii) Hw.
  assert (He : Ev (ECall ARRGET [EVar vals; EVar idx]) (fst st) (tick wm) (OVal v) (tick wm)).
  { apply (Ev_call ARRGET [vals; idx]); [reflexivity| |].
    - rewrite <- (lookup_fn_weq _ _ _ _ _ (C01.weq_tick _ _ Hw)). exact Hfn.
    - intros cb0. cbn [map]. rewrite !(slook_weq _ _ _ Hw). rewrite Iv, Ii. apply Hget with (elems := elems); [|exact Hel].
      rewrite <- (arrs_weq _ _ (C01.weq_tick _ _ Hw)). exact Harr. }
  destruct (step_assign code (pc + 5) x _ st wm v P5 Hw He) as (wm_a & Hwa & Hra).
  destruct (body_step _ _ _ wm_a Hb Hwa) as (wm_b & Hwb & Hp).
  exists wm_b. split; [exact Hwb|]. eapply post_pre; [|exact Hp]. intros r Hr. apply Hra. run_at Hr.
Qed.

(* from the end of the body (normal completion or continue) to the increment *)
Lemma to_inc ob loc_b wm_b p l0 w0 : (ob = SNormal \/ ob = SContinue) -> (ob = SContinue -> has_cont b = true) ->
  post code bpos (pc + 6 + L) ob loc_b wm_b p l0 w0 ->
  exists wm2, weq wm_b wm2 /\ forall r, Run code (pc + 6 + L + c) loc_b wm2 r -> Run code p l0 w0 r.
Proof.
  intros Ho Hhc Hp. pose proof Hc as Hc'. destruct Ho as [-> | ->]; cbn [C01.post] in Hp.
  - destruct (has_cont b) eqn:E.
    + exists (tick wm_b). split; [apply C01.weq_tick; apply weq_refl|]. intros r Hr. apply Hp.
      eapply (run_label cfg Hunl); [apply Pc; reflexivity|]. run_at Hr.
    + exists wm_b. split; [apply weq_refl|]. intros r Hr. apply Hp. run_at Hr.
  - rewrite (Hhc eq_refl) in *. exists wm_b. split; [apply weq_refl|]. intros r Hr. apply Hp. run_at Hr.
Qed.

(* index = index + 1; jumpif index < length *)
Lemma advance l m i st_b wm_b : Inv3 l m i st_b -> weq (snd st_b) wm_b ->
  exists wm_c, weq (snd (assign' idx (int_v (S i)) st_b)) wm_c /\
    forall r, Run code (if S i <? m then pc + 5 else pc + 8 + L + c) (fst (assign' idx (int_v (S i)) st_b)) wm_c r ->
              Run code (pc + 6 + L + c) (fst st_b) wm_b r.
Proof.
  intros HI Hw. pose proof (Inv3_next _ _ _ _ HI) as (_ & Ilc & Ic). destruct HI as (Iv & Il & Ii).
  assert (He : Ev (EBin (U "+") (EVar idx) (ENum (NInt 1))) (fst st_b) (tick wm_b) (OVal (int_v (S i))) (tick wm_b)).
  { apply Ev_inc. rewrite (slook_weq _ _ _ Hw). exact Ii. }
  destruct (step_assign code (pc + 6 + L + c) idx _ st_b wm_b _ P6 Hw He) as (wm1 & Hw1 & Hr1).
  set (st_c := assign' idx (int_v (S i)) st_b) in *.
  assert (Hlt : Ev (EBin (U "<") (EVar idx) (EVar len)) (fst st_c) (tick wm1) (OVal (VBool (Z.of_nat (S i) <? Z.of_nat m)%Z)) (tick wm1)).
  { apply Ev_lt; rewrite (slook_weq _ _ _ Hw1); assumption. }
  exists (tick wm1). split; [apply C01.weq_tick; exact Hw1|]. intros r Hr. apply Hr1.
  replace (S (pc + 6 + L + c)) with (pc + 7 + L + c) by lia.
  eapply (run_jumpif cfg Hunl lib url_rel lint_lines Hlib um); [exact P7|exact Hlt|]. cbn [truthy].
  destruct (S i <? m) eqn:E.
  - apply Nat.ltb_lt in E. replace (Z.of_nat (S i) <? Z.of_nat m)%Z with true by (symmetry; apply Z.ltb_lt; lia).
    exists (pc + 4). split; [apply find_unique; [exact HN|exact P4]|]. run_at Hr.
  - apply Nat.ltb_ge in E. replace (Z.of_nat (S i) <? Z.of_nat m)%Z with false by (symmetry; apply Z.ltb_ge; lia).
    run_at Hr.
Qed.

Variable cpos : option (nat * nat).

Lemma loop_sim l m : forall i st o st', FLoop l m i st o st' -> Inv3 l m i st -> forall wm, weq (snd st) wm ->
  exists wm', weq (snd st') wm' /\ post code cpos (pc + 9 + L + c) o (fst st') wm' (pc + 5) (fst st) wm.
Proof.
  assert (Hhc : forall l i st ob st_b, Iter l i st ob st_b -> ob = SContinue -> has_cont b = true).
  { intros l0 i st ob st_b (elems & v & _ & _ & _ & Hb) ->. destruct (has_cont b) eqn:E; [reflexivity|].
    exfalso. exact (has_cont_sound _ _ _ _ Hb E eq_refl). }
  induction 1 as [i st out st_b Hit|i st st_b Hit|i st ob st_b o st' Hit Ho HI Hlt Hnext IH|i st ob st_b Hit Ho HI Hge];
    intros HI0 wm Hw.
  - destruct (iter_sim _ _ _ _ _ _ _ Hit HI0 Hw) as (wm_b & Hwb & Hp). exists wm_b. split; [exact Hwb|exact Hp].
  - destruct (iter_sim _ _ _ _ _ _ _ Hit HI0 Hw) as (wm_b & Hwb & Hp). exists wm_b. split; [exact Hwb|].
    cbn [C01.post] in *. intros r Hr. apply Hp. run_at Hr.
  - destruct (iter_sim _ _ _ _ _ _ _ Hit HI0 Hw) as (wm_b & Hwb & Hp).
    destruct (to_inc _ _ _ _ _ _ Ho (Hhc _ _ _ _ _ Hit) Hp) as (wm2 & Hw2 & Hr2).
    destruct (advance _ _ _ _ wm2 HI (weq_trans _ _ _ Hwb Hw2)) as (wm_c & Hwc & Hrc).
    apply Nat.ltb_lt in Hlt. rewrite Hlt in Hrc.
    destruct (IH (Inv3_next _ _ _ _ HI) wm_c Hwc) as (wm' & Hw' & Hp'). exists wm'. split; [exact Hw'|].
    eapply post_pre; [|exact Hp']. intros r Hr. apply Hr2. apply Hrc. exact Hr.
  - destruct (iter_sim _ _ _ _ _ _ _ Hit HI0 Hw) as (wm_b & Hwb & Hp).
    destruct (to_inc _ _ _ _ _ _ Ho (Hhc _ _ _ _ _ Hit) Hp) as (wm2 & Hw2 & Hr2).
    destruct (advance _ _ _ _ wm2 HI (weq_trans _ _ _ Hwb Hw2)) as (wm_c & Hwc & Hrc).
    apply Nat.ltb_ge in Hge. rewrite Hge in Hrc.
    exists (tick wm_c). split; [apply C01.weq_tick; exact Hwc|]. cbn [C01.post]. intros r Hr. apply Hr2. apply Hrc.
    eapply (run_label cfg Hunl); [exact P8|]. run_at Hr.
Qed.

(* values = e; length = arrayLength(values) *)
Lemma header loc w l w1 elems wm : Ev e loc w (OVal (VArr l)) w1 -> nth_error (w_arrs w1) l = Some elems ->
  is_lib ARRLEN (assign' vals (VArr l) (loc, w1)) -> weq w wm ->
  exists wm2, weq (snd (assign' len (int_v (length elems)) (assign' vals (VArr l) (loc, w1)))) wm2 /\
    forall r, Run code (pc + 2) (fst (assign' len (int_v (length elems)) (assign' vals (VArr l) (loc, w1)))) wm2 r -> Run code pc loc wm r.
Proof.
  destruct names_facts as (N1 & N2 & N3 & Q1 & Q2 & Q3). intros He Harr Hfn Hw.
  destruct (Ev_blind _ _ _ _ _ (tick wm) He (C01.weq_tick _ _ Hw)) as (wm1 & He1 & Hw1).
  destruct (assign_weq vals (VArr l) loc _ _ Hw1) as [Ef Ew].
  set (st1 := assign' vals (VArr l) (loc, w1)) in *.
  set (wm1' := snd (assign vals (VArr l) loc wm1)) in *.
  assert (Ew' : weq (snd st1) wm1') by exact Ew.
  assert (Hel : Ev (ECall ARRLEN [EVar vals]) (fst st1) (tick wm1') (OVal (int_v (length elems))) (tick wm1')).
  { apply (Ev_call ARRLEN [vals]); [reflexivity| |].
    - rewrite <- (lookup_fn_weq _ _ _ _ _ (C01.weq_tick _ _ Ew')). exact Hfn.
    - intros cb0. cbn [map]. rewrite (slook_weq _ _ _ Ew'). unfold st1. rewrite slook_same by exact Q1. apply Hlen.
      rewrite <- (arrs_weq _ _ (C01.weq_tick _ _ Ew')). unfold st1. rewrite arrs_assign. exact Harr. }
  destruct (step_assign code (pc + 1) len _ st1 wm1' _ P1 Ew' Hel) as (wm2 & Hw2 & Hr2).
  exists wm2. split; [exact Hw2|]. intros r Hr.
  eapply (run_expr cfg Hunl lib url_rel lint_lines Hlib um); [exact P0|exact He1|]. cbn beta iota.
  rewrite <- Ef. change (fst (assign vals (VArr l) loc w1)) with (fst st1). change (snd (assign vals (VArr l) loc wm1)) with wm1'.
  replace (S pc) with (pc + 1) by lia. apply Hr2. run_at Hr.
Qed.

Theorem for_core st o st' : FExec st o st' -> forall wm, weq (snd st) wm ->
  exists wm', weq (snd st') wm' /\ post code cpos (pc + 9 + L + c) o (fst st') wm' pc (fst st) wm.
Proof.
  destruct names_facts as (N1 & N2 & N3 & Q1 & Q2 & Q3).
  intros H wm Hw.
  destruct H as [loc w o w1 He Hv | loc w l w1 He Harr Hfn | loc w l w1 elems o st' He Harr Hne Hfn Hloop]; cbn [fst snd] in Hw |- *.
  - destruct (Ev_blind _ _ _ _ _ (tick wm) He (C01.weq_tick _ _ Hw)) as (wm1 & He1 & Hw1).
    exists wm1. split; [exact Hw1|]. cbn [C01.post]. eapply (run_expr_stop cfg Hunl); eassumption.
  - destruct (header _ _ _ _ _ _ He Harr Hfn Hw) as (wm2 & Hw2 & Hr2). cbn [length] in *.
    set (st2 := assign' len (int_v 0) (assign' vals (VArr l) (loc, w1))) in *.
    assert (Hl2 : slook len st2 = int_v 0) by (unfold st2; apply slook_same; exact Q2).
    exists (tick wm2). split; [apply C01.weq_tick; exact Hw2|]. cbn [C01.post]. intros r Hr. apply Hr2.
    eapply (run_jumpif cfg Hunl lib url_rel lint_lines Hlib um); [exact P2|apply Ev_not; apply Ev_var|].
    rewrite (slook_weq _ _ _ Hw2). rewrite Hl2. rewrite truthy_int. cbn [negb truthy].
    exists (pc + 8 + L + c). split; [apply find_unique; [exact HN|exact P8]|]. run_at Hr.
  - destruct (header _ _ _ _ _ _ He Harr Hfn Hw) as (wm2 & Hw2 & Hr2).
    set (st2 := assign' len (int_v (length elems)) (assign' vals (VArr l) (loc, w1))) in *.
    assert (Hl2 : slook len st2 = int_v (length elems)) by (unfold st2; apply slook_same; exact Q2).
    assert (E0 : Ev (ENum (NInt 0)) (fst st2) (tick (tick wm2)) (OVal (int_v 0)) (tick (tick wm2))) by apply Ev_num.
    destruct (step_assign code (pc + 3) idx _ st2 (tick wm2) _ P3 (C01.weq_tick _ _ Hw2) E0) as (wm3 & Hw3 & Hr3).
    set (st3 := assign' idx (int_v 0) st2) in *.
    assert (HI : Inv3 l (length elems) 0 st3).
    { unfold st3, st2. repeat split.
      - rewrite slook_other by (intros E; apply N2; symmetry; exact E). rewrite slook_other by (intros E; apply N1; symmetry; exact E).
        apply slook_same. exact Q1.
      - rewrite slook_other by (intros E; apply N3; symmetry; exact E). apply slook_same. exact Q2.
      - apply slook_same. exact Q3. }
    destruct (loop_sim _ _ _ _ _ _ Hloop HI (tick wm3) (C01.weq_tick _ _ Hw3)) as (wm' & Hw' & Hp').
    exists wm'. split; [exact Hw'|]. eapply post_pre; [|exact Hp']. intros r Hr. apply Hr2.
    eapply (run_jumpif cfg Hunl lib url_rel lint_lines Hlib um); [exact P2|apply Ev_not; apply Ev_var|].
    rewrite (slook_weq _ _ _ Hw2). rewrite Hl2. rewrite truthy_int.
    destruct elems as [|e0 et]; [congruence|]. cbn [length negb truthy].
    replace (S (pc + 2)) with (pc + 3) by lia. apply Hr3.
    replace (S (pc + 3)) with (pc + 4) by lia. eapply (run_label cfg Hunl); [exact P4|]. run_at Hr.
Qed.

End Layout.

(* layout of a compiled for *)
Lemma for_layout code pc n : code_at code pc (fst (compile_for n)) ->
  let cb := fst (compile (Some (lab KDone n, labc n)) (S n) b) in
  let L := length cb in let c := if has_cont b then 1 else 0 in
  nth_error code pc = Some (SExpr (Some vals) e) /\
  nth_error code (pc + 1) = Some (SExpr (Some len) (ECall ARRLEN [EVar vals])) /\
  nth_error code (pc + 2) = Some (SJump (lab KDone n) (Some (e_not (EVar len)))) /\
  nth_error code (pc + 3) = Some (SExpr (Some idx) (ENum (NInt 0))) /\
  nth_error code (pc + 4) = Some (SLabel (lab KLoop n)) /\
  nth_error code (pc + 5) = Some (SExpr (Some x) (ECall ARRGET [EVar vals; EVar idx])) /\
  code_at code (pc + 6) cb /\
  (has_cont b = true -> nth_error code (pc + 6 + L) = Some (SLabel (labc n))) /\
  nth_error code (pc + 6 + L + c) = Some (SExpr (Some idx) (EBin (U "+") (EVar idx) (ENum (NInt 1)))) /\
  nth_error code (pc + 7 + L + c) = Some (SJump (lab KLoop n) (Some (EBin (U "<") (EVar idx) (EVar len)))) /\
  nth_error code (pc + 8 + L + c) = Some (SLabel (lab KDone n)) /\
  length (fst (compile_for n)) = 9 + L + c.
Proof.
  cbv zeta. unfold compile_for. destruct (compile (Some (lab KDone n, labc n)) (S n) b) as [cb n1]. cbn [fst snd]. intros Hat.
  cbn [app] in Hat.
  apply code_at_cons in Hat. destruct Hat as [H0 Hat]. apply code_at_cons in Hat. destruct Hat as [H1 Hat].
  apply code_at_cons in Hat. destruct Hat as [H2 Hat]. apply code_at_cons in Hat. destruct Hat as [H3 Hat].
  apply code_at_cons in Hat. destruct Hat as [H4 Hat]. apply code_at_cons in Hat. destruct Hat as [H5 Hat].
  apply code_at_app in Hat. destruct Hat as [Hb Hat].
  replace (S (S (S (S (S (S pc)))))) with (pc + 6) in * by lia.
  destruct (has_cont b) eqn:E; cbn [app] in Hat.
  - apply code_at_cons in Hat. destruct Hat as [Hc Hat]. apply code_at_cons in Hat. destruct Hat as [H6 Hat].
    apply code_at_cons in Hat. destruct Hat as [H7 Hat]. apply code_at_cons in Hat. destruct Hat as [H8 _].
    repeat split; try assumption; try (intros _); try nth_at H1; try nth_at H2; try nth_at H3; try nth_at H4; try nth_at H5;
      try nth_at Hc; try nth_at H6; try nth_at H7; try nth_at H8.
    cbn [length app]. rewrite !app_length. cbn [length]. lia.
  - apply code_at_cons in Hat. destruct Hat as [H6 Hat].
    apply code_at_cons in Hat. destruct Hat as [H7 Hat]. apply code_at_cons in Hat. destruct Hat as [H8 _].
    repeat split; try assumption; try discriminate; try nth_at H1; try nth_at H2; try nth_at H3; try nth_at H4; try nth_at H5;
      try nth_at H6; try nth_at H7; try nth_at H8.
    cbn [length app]. rewrite !app_length. cbn [length]. lia.
Qed.

(* THE SIMULATION for one `for` loop *)
Theorem for_sim : forall st o st', FExec st o st' ->
  forall code cpos n pc wm, NoDup (labels code) -> code_at code pc (fst (compile_for n)) -> weq (snd st) wm ->
  exists wm', weq (snd st') wm' /\ post code cpos (pc + length (fst (compile_for n))) o (fst st') wm' pc (fst st) wm.
Proof.
  intros st o st' H code cpos n pc wm HN Hat Hw.
  destruct (for_layout _ _ _ Hat) as (H0 & H1 & H2 & H3 & H4 & H5 & Hb & Hc & H6 & H7 & H8 & Hlen'). cbv zeta in *.
  rewrite Hlen'.
  destruct (for_core code pc n _ _ HN eq_refl eq_refl H0 H1 H2 H3 H4 H5 Hb Hc H6 H7 H8 cpos _ _ _ H wm Hw) as (wm' & Hw' & Hp).
  exists wm'. split; [exact Hw'|].
  match goal with |- C01.post _ _ _ _ _ _ _ ?q _ _ _ _ _ _ => match type of Hp with C01.post _ _ _ _ _ _ _ ?p _ _ _ _ _ _ => replace q with p by lia end end.
  exact Hp.
Qed.

(* ---------------------------------------------------------------- labels of the lowered loop are defined once *)
Lemma compile_for_NoDup (lab_inj : forall k n k' n', lab k n = lab k' n' -> k = k' /\ n = n')
  (labc_fresh : forall k i j, lab k i <> labc j) n : NoDup (labels (fst (compile_for n))).
Proof.
  unfold compile_for. destruct (compile_labels lab lab_inj b) as [HC _].
  destruct (HC (Some (lab KDone n, labc n)) (S n)) as (Hle & Hr & Hnd).
  destruct (compile (Some (lab KDone n, labc n)) (S n) b) as [cb n1]. cbn [fst snd] in *.
  unfold labels. rewrite !flat_map_app. cbn [flat_map app].
  change (flat_map (fun i => match i with SLabel l => [l] | _ => [] end) cb) with (labels cb).
  rewrite Forall_forall in Hr.
  assert (Hcb : forall k, In (lab k n) (labels cb) -> False).
  { intros k Hin. destruct (Hr _ Hin) as (k' & i & E & Hi). apply lab_inj in E. lia. }
  assert (Hcc : In (labc n) (labels cb) -> False).
  { intros Hin. destruct (Hr _ Hin) as (k' & i & E & Hi). symmetry in E. exact (labc_fresh _ _ _ E). }
  constructor.
  - intros Hin. apply in_app_or in Hin. destruct Hin as [Hin|Hin]; [exact (Hcb _ Hin)|].
    apply in_app_or in Hin. destruct Hin as [Hin|[E|[]]].
    + destruct (has_cont b); cbn in Hin; [destruct Hin as [E|[]]; symmetry in E; exact (labc_fresh _ _ _ E)|contradiction].
    + apply lab_inj in E. destruct E as [E _]. discriminate.
  - apply NoDup_app_intro; [exact Hnd| |].
    + destruct (has_cont b); cbn [flat_map app]; repeat constructor; cbn; try tauto.
      intros [E|[]]. exact (labc_fresh _ _ _ E).
    + intros y H1 H2. apply in_app_or in H2. destruct H2 as [H2|[E|[]]].
      * destruct (has_cont b); cbn in H2; [destruct H2 as [E|[]]; subst y; exact (Hcc H1)|contradiction].
      * subst y. exact (Hcb _ H1).
Qed.

(* the loop as a whole scope: run from statement 0 *)
Theorem for_scope_sim (lab_inj : forall k n k' n', lab k n = lab k' n' -> k = k' /\ n = n')
  (labc_fresh : forall k i j, lab k i <> labc j) :
  forall loc w o loc' w', FExec (loc, w) o (loc', w') ->
  forall n wm, weq w wm ->
  exists out wm', scope_result o = Some out /\ weq w' wm' /\ Run (fst (compile_for n)) 0 loc wm (out, loc', wm').
Proof.
  intros loc w o loc' w' H n wm Hw.
  destruct (for_sim _ _ _ H (fst (compile_for n)) None n 0 wm (compile_for_NoDup lab_inj labc_fresh n) (code_at_whole _) Hw) as (wm' & Hw' & Hp).
  cbn [fst snd] in *. destruct o; cbn [C01.post] in Hp.
  - exists (OVal VNull), wm'. split; [reflexivity|split; [exact Hw'|]]. apply Hp.
    apply (run_end cfg lib url_rel lint_lines um). apply nth_error_None. cbn. lia.
  - contradiction.
  - contradiction.
  - exists o, wm'. split; [reflexivity|split; [exact Hw'|exact Hp]].
Qed.

(* ---------------------------------------------------------------- an executable interpreter for the structured reading *)
Definition is_libb (name : str) (st : sstate) : bool :=
  match lookup_fn name (fst st) false (snd st) with Some (VFun (FLib nm)) => str_eqb nm name | _ => false end.
Lemma is_libb_sound name st : is_libb name st = true -> is_lib name st.
Proof.
  unfold is_libb, is_lib. destruct (lookup_fn name (fst st) false (snd st)) as [v|]; [|discriminate].
  destruct v; try discriminate. destruct f; try discriminate. intros H. apply str_eqb_eq in H. subst. reflexivity.
Qed.

Definition inv3b (l m i : nat) (st : sstate) : bool :=
  match slook vals st, slook len st, slook idx st with
  | VArr l', VNum (NInt a), VNum (NInt c') => Nat.eqb l' l && Z.eqb a (Z.of_nat m) && Z.eqb c' (Z.of_nat i)
  | _, _, _ => false
  end.
Lemma inv3b_sound l m i st : inv3b l m i st = true -> Inv3 l m i st.
Proof.
  unfold inv3b, Inv3. destruct (slook vals st); try discriminate.
  destruct (slook len st) as [| |n1| | | | | |]; try discriminate. destruct n1; try discriminate.
  destruct (slook idx st) as [| |n2| | | | | |]; try discriminate. destruct n2; try discriminate.
  intros H. apply andb_prop in H. destruct H as [H H3]. apply andb_prop in H. destruct H as [H1 H2].
  apply Nat.eqb_eq in H1. apply Z.eqb_eq in H2, H3. subst. repeat split; reflexivity.
Qed.

Notation sexec := (sexec cfg lib url_rel lint_lines um).

Fixpoint floop (fuel l m i : nat) (st : sstate) {struct fuel} : option (sout * sstate) :=
  match fuel with
  | O => None
  | S f =>
    if is_libb ARRGET st then
      match nth_error (w_arrs (snd st)) l with
      | Some elems =>
        match nth_error elems i with
        | Some v =>
          match sexec f b (assign' x v st) with
          | Some (SStop out, st_b) => Some (SStop out, st_b)
          | Some (SBreak, st_b) => Some (SNormal, st_b)
          | Some (_, st_b) =>
            if inv3b l m i st_b then
              if S i <? m then floop f l m (S i) (assign' idx (int_v (S i)) st_b)
              else Some (SNormal, assign' idx (int_v (S i)) st_b)
            else None
          | None => None
          end
        | None => None
        end
      | None => None
      end
    else None
  end.

Definition fexec (fuel : nat) (st : sstate) : option (sout * sstate) :=
  let '(loc, w) := st in
  match eval fuel e loc false um w with
  | (OFuel, _) => None
  | (OVal (VArr l), w1) =>
    let st1 := assign' vals (VArr l) (loc, w1) in
    if is_libb ARRLEN st1 then
      match nth_error (w_arrs w1) l with
      | Some [] => Some (SNormal, assign' len (int_v 0) st1)
      | Some elems => floop fuel l (length elems) 0 (assign' idx (int_v 0) (assign' len (int_v (length elems)) st1))
      | None => None
      end
    else None
  | (OVal _, _) => None                      (* a non-array: no rule in FExec *)
  | (o, w1) => Some (SStop o, (loc, w1))
  end.

Lemma floop_sound l m : forall fuel i st o st', floop fuel l m i st = Some (o, st') -> FLoop l m i st o st'.
Proof.
  induction fuel as [|f IH]; intros i st o st' H; [discriminate|]. cbn [floop] in H.
  destruct (is_libb ARRGET st) eqn:Efn; [|discriminate]. apply is_libb_sound in Efn.
  destruct (nth_error (w_arrs (snd st)) l) as [elems|] eqn:Ea; [|discriminate].
  destruct (nth_error elems i) as [v|] eqn:Ev'; [|discriminate].
  destruct (sexec f b (assign' x v st)) as [[ob st_b]|] eqn:Eb; [|discriminate].
  apply (sexec_sound cfg lib url_rel lint_lines um) in Eb.
  assert (Hit : Iter l i st ob st_b) by (exists elems, v; auto).
  destruct ob.
  - destruct (inv3b l m i st_b) eqn:EI; [|discriminate]. apply inv3b_sound in EI.
    destruct (S i <? m) eqn:El.
    + apply Nat.ltb_lt in El. eapply FL_next; [exact Hit|left; reflexivity|exact EI|exact El|apply IH; exact H].
    + apply Nat.ltb_ge in El. injection H as <- <-. eapply FL_last; [exact Hit|left; reflexivity|exact EI|exact El].
  - injection H as <- <-. apply FL_break. exact Hit.
  - destruct (inv3b l m i st_b) eqn:EI; [|discriminate]. apply inv3b_sound in EI.
    destruct (S i <? m) eqn:El.
    + apply Nat.ltb_lt in El. eapply FL_next; [exact Hit|right; reflexivity|exact EI|exact El|apply IH; exact H].
    + apply Nat.ltb_ge in El. injection H as <- <-. eapply FL_last; [exact Hit|right; reflexivity|exact EI|exact El].
  - injection H as <- <-. apply FL_stop. exact Hit.
Qed.

Theorem fexec_sound fuel st o st' : fexec fuel st = Some (o, st') -> FExec st o st'.
Proof.
  destruct st as [loc w]. unfold fexec. destruct (eval fuel e loc false um w) as [oe w1] eqn:Ee.
  assert (HE : oe <> OFuel -> Ev e loc w oe w1) by (intros Hn; exists fuel; split; [exact Ee|exact Hn]).
  destruct oe as [v| | | | |]; try discriminate;
    try (intros H; injection H as <- <-; apply F_Stop; [apply HE; discriminate|reflexivity]).
  destruct v; try discriminate.
  destruct (is_libb ARRLEN (assign' vals (VArr l) (loc, w1))) eqn:Efn; [|discriminate]. apply is_libb_sound in Efn.
  destruct (nth_error (w_arrs w1) l) as [elems|] eqn:Ea; [|discriminate].
  destruct elems as [|e0 et].
  - intros H. injection H as <- <-. apply F_Empty; [apply HE; discriminate|exact Ea|exact Efn].
  - intros H. apply floop_sound in H. eapply F_Loop; [apply HE; discriminate|exact Ea|discriminate|exact Efn|exact H].
Qed.

End Loop.
End For.

(* ---------------------------------------------------------------- the contracts hold for the modelled library (non-vacuity) *)
From BS Require Import Model.LibCore.

Ltac eval_ops := repeat match goal with |- context [op_is ?a ?s] => let r := eval vm_compute in (op_is a s) in change (op_is a s) with r end.

Lemma libcore_arrayLength cfg : arrayLength_contract (libcore cfg).
Proof.
  intros cb l w elems H. unfold libcore, ARRLEN. eval_ops. cbn [orb]. cbv iota.
  change (validate w [A TArray] [VArr l]) with (VOk [AV (VArr l)]). cbv iota. unfold get_arr. rewrite H. reflexivity.
Qed.

Lemma libcore_arrayGet cfg : arrayGet_contract (libcore cfg).
Proof.
  intros cb l i w elems v H Hi. unfold libcore, ARRGET. eval_ops. cbn [orb]. cbv iota.
  assert (Hv : validate w [A TArray; AIndex] [VArr l; int_v i] = VOk [AV (VArr l); AV (int_v i)]).
  { unfold int_v. cbn [validate A AIndex a_last a_type a_nullable a_int a_gte0 type_ok negb not_integral andb vcons].
    unfold num_neg_p. cbn [num_compare]. destruct (Z.of_nat i ?= 0)%Z eqn:E; try reflexivity.
    exfalso. assert (Hlt : (Z.of_nat i < 0)%Z) by exact E. lia. }
  rewrite Hv. cbv iota. unfold int_v. cbn [num_to_nat].
  replace (0 <=? Z.of_nat i)%Z with true by (symmetry; apply Z.leb_le; lia). rewrite Nat2Z.id.
  unfold get_arr. rewrite H, Hi. reflexivity.
Qed.
