(* RegexShift.v — operational facts about the backtracking matcher of Model/Regex.v (the RESULT of the engine, i.e. the
   first match in priority order, not only the existence of a match):
     m_mono / m_fuel_irrel : more fuel does not change an answer that is not MFuel; two sufficient fuels give the same answer;
     m_shift               : a regex without `^` run at position d+pos (captures shifted by d) answers as at pos, shifted;
     Matches_first         : the first character of a non-empty match is accepted by one of the regex's first atoms;
     sp_skip               : greedy `\s*` in front of a continuation that fails on a space skips a whitespace prefix;
     tok_shift             : for  ^\s*B  with B `^`-free and failing on a space:
                               re_match (ws ++ text) = (re_match text) shifted by |ws|        (ws whitespace). *)
From Coq Require Import Lia.
From BS Require Import Model.Base Model.Regex Proofs.RegexFacts Proofs.RegexComplete.

Section Shift.
Variable UCL : uclass.

(* ---------- fuel ---------- *)
Definition le_res (a b : mres) : Prop := a = MFuel \/ a = b.

Lemma m_mono : forall f f' r pos rest c k k', f <= f' ->
  (forall p r' c', le_res (k p r' c') (k' p r' c')) ->
  le_res (m UCL f r pos rest c k) (m UCL f' r pos rest c k').
Proof.
  induction f as [|f IH]; intros f' r pos rest c k k' L K; [left; reflexivity|].
  destruct f' as [|f']; [lia|]. assert (L' : f <= f') by lia.
  destruct r; cbn [m].
  - apply K.
  - destruct rest as [|y t]; [right; reflexivity|]. destruct (y =? c0)%N; [apply K | right; reflexivity].
  - destruct rest as [|y t]; [right; reflexivity|]. destruct (y =? c0)%N; [right; reflexivity | apply K].
  - destruct rest as [|y t]; [right; reflexivity|]. destruct (y =? 10)%N; [right; reflexivity | apply K].
  - destruct rest as [|y t]; [right; reflexivity|]. destruct (class_match UCL neg items y); [apply K | right; reflexivity].
  - destruct (Nat.eqb pos 0); [apply K | right; reflexivity].
  - destruct rest as [|y [|z t]]; [apply K | destruct (y =? 10)%N; [apply K | right; reflexivity] | right; reflexivity].
  - apply IH; [exact L'|]. intros p r' c'. apply IH; assumption.
  - destruct (IH f' r1 pos rest c k k' L' K) as [A|A]; rewrite A; [left; reflexivity|].
    destruct (m UCL f' r1 pos rest c k'); [apply IH; assumption | right; reflexivity | right; reflexivity].
  - set (more := match mx with
                 | Some 0 => MNo
                 | _ => m UCL f r pos rest c (fun p r' c' => if Nat.eqb p pos then MNo
                           else m UCL f (RRep (pred mn) (option_map pred mx) r) p r' c' k)
                 end).
    set (more' := match mx with
                 | Some 0 => MNo
                 | _ => m UCL f' r pos rest c (fun p r' c' => if Nat.eqb p pos then MNo
                           else m UCL f' (RRep (pred mn) (option_map pred mx) r) p r' c' k')
                 end).
    assert (A : le_res more more').
    { subst more more'. destruct mx as [[|?]|]; [right; reflexivity| |];
        (apply IH; [exact L'|]; intros p r' c'; destruct (Nat.eqb p pos); [right; reflexivity|]; apply IH; assumption). }
    destruct A as [A|A]; rewrite A; [left; reflexivity|].
    destruct more'; [destruct mn; [apply K | right; reflexivity] | right; reflexivity | right; reflexivity].
  - apply IH; [exact L'|]. intros p r' c'. apply K.
  - destruct (IH f' r pos rest c (fun p _ c' => MYes p c') (fun p _ c' => MYes p c') L' (fun _ _ _ => or_intror eq_refl)) as [A|A];
      rewrite A; [left; reflexivity|].
    destruct (m UCL f' r pos rest c (fun p _ c' => MYes p c')); [right; reflexivity | apply K | right; reflexivity].
Qed.

Lemma m_fuel_irrel f f' r pos rest c k :
  rsize r * (length rest + 1) <= f -> rsize r * (length rest + 1) <= f' ->
  (forall p r' c', pos <= p -> p + length r' = pos + length rest -> k p r' c' <> MFuel) ->
  m UCL f r pos rest c k = m UCL f' r pos rest c k.
Proof.
  intros F F' K.
  pose proof (m_no_fuel UCL f r pos rest c k F K) as N1. pose proof (m_no_fuel UCL f' r pos rest c k F' K) as N2.
  destruct (Nat.le_ge_cases f f') as [L|L].
  - destruct (m_mono f f' r pos rest c k k L (fun _ _ _ => or_intror eq_refl)) as [A|A]; congruence.
  - destruct (m_mono f' f r pos rest c k k L (fun _ _ _ => or_intror eq_refl)) as [A|A]; congruence.
Qed.

Definition kfin : nat -> str -> caps -> mres := fun p _ c => MYes p c.

Lemma re_match_as_m r s G : rsize r * (length s + 1) <= G -> re_match UCL r s = m UCL G r 0 s [] kfin.
Proof.
  intros HG. unfold re_match. apply m_fuel_irrel; [unfold fuel_for; nia | exact HG | discriminate].
Qed.

(* ---------- shifting the position ---------- *)
Definition shiftc (d : nat) (c : caps) : caps := map (fun x => (fst x, (d + fst (snd x), d + snd (snd x)))) c.
Definition shiftr (d : nat) (r : mres) : mres := match r with MYes e c => MYes (d + e) (shiftc d c) | x => x end.

Fixpoint no_bol (r : regex) : bool :=
  match r with
  | RBol => false
  | RCat a b | RAlt a b => no_bol a && no_bol b
  | RRep _ _ a | RGroup _ a | RLook a => no_bol a
  | _ => true
  end.

Lemma eqb_add_l d a b : Nat.eqb (d + a) (d + b) = Nat.eqb a b.
Proof.
  destruct (Nat.eqb a b) eqn:E.
  - apply Nat.eqb_eq in E. subst. apply Nat.eqb_refl.
  - apply Nat.eqb_neq in E. apply Nat.eqb_neq. lia.
Qed.

Lemma m_shift d : forall f r pos rest c k k', no_bol r = true ->
  (forall p r' c', k' (d + p) r' (shiftc d c') = shiftr d (k p r' c')) ->
  m UCL f r (d + pos) rest (shiftc d c) k' = shiftr d (m UCL f r pos rest c k).
Proof.
  induction f as [|f IH]; intros r pos rest c k k' NB K; [reflexivity|].
  destruct r; cbn [m]; cbn [no_bol] in NB.
  - apply K.
  - destruct rest as [|y t]; [reflexivity|]. destruct (y =? c0)%N; [|reflexivity]. rewrite <- Nat.add_succ_r. apply K.
  - destruct rest as [|y t]; [reflexivity|]. destruct (y =? c0)%N; [reflexivity|]. rewrite <- Nat.add_succ_r. apply K.
  - destruct rest as [|y t]; [reflexivity|]. destruct (y =? 10)%N; [reflexivity|]. rewrite <- Nat.add_succ_r. apply K.
  - destruct rest as [|y t]; [reflexivity|]. destruct (class_match UCL neg items y); [|reflexivity]. rewrite <- Nat.add_succ_r. apply K.
  - discriminate.
  - destruct rest as [|y [|z t]]; [apply K | destruct (y =? 10)%N; [apply K | reflexivity] | reflexivity].
  - apply andb_true_iff in NB. destruct NB as [NA NB].
    apply IH; [exact NA|]. intros p r' c'. apply IH; [exact NB | exact K].
  - apply andb_true_iff in NB. destruct NB as [NA NB].
    rewrite (IH r1 pos rest c k k' NA K).
    destruct (m UCL f r1 pos rest c k); cbn [shiftr]; [apply IH; assumption | reflexivity | reflexivity].
  - set (more := match mx with
                 | Some 0 => MNo
                 | _ => m UCL f r pos rest c (fun p r' c' => if Nat.eqb p pos then MNo
                           else m UCL f (RRep (pred mn) (option_map pred mx) r) p r' c' k)
                 end).
    set (more' := match mx with
                 | Some 0 => MNo
                 | _ => m UCL f r (d + pos) rest (shiftc d c) (fun p r' c' => if Nat.eqb p (d + pos) then MNo
                           else m UCL f (RRep (pred mn) (option_map pred mx) r) p r' c' k')
                 end).
    assert (A : more' = shiftr d more).
    { subst more more'. destruct mx as [[|?]|]; [reflexivity| |];
        (apply IH; [exact NB|]; intros p r' c'; rewrite eqb_add_l; destruct (Nat.eqb p pos); [reflexivity|];
         apply IH; [exact NB | exact K]). }
    rewrite A. destruct more; cbn [shiftr]; [destruct mn; [apply K | reflexivity] | reflexivity | reflexivity].
  - apply IH; [exact NB|]. intros p r' c'. apply (K p r' (cap_set n (pos, p) c')).
  - rewrite (IH r pos rest c (fun p _ c' => MYes p c') (fun p _ c' => MYes p c') NB (fun _ _ _ => eq_refl)).
    destruct (m UCL f r pos rest c (fun p _ c' => MYes p c')); cbn [shiftr]; [reflexivity | apply K | reflexivity].
Qed.

(* ---------- first characters ---------- *)
Inductive atom := ALit (x : N) | ANotLit (x : N) | AAny | AIn (neg : bool) (items : list citem).
Definition atom_ok (a : atom) (y : N) : bool :=
  match a with
  | ALit x => (y =? x)%N
  | ANotLit x => negb (y =? x)%N
  | AAny => negb (y =? 10)%N
  | AIn neg items => class_match UCL neg items y
  end.
Fixpoint nullable (r : regex) : bool :=
  match r with
  | REps | RBol | REol | RLook _ => true
  | RLit _ | RNotLit _ | RAny | RIn _ _ => false
  | RCat a b => nullable a && nullable b
  | RAlt a b => nullable a || nullable b
  | RRep mn _ a => Nat.eqb mn 0 || nullable a
  | RGroup _ a => nullable a
  end.
Fixpoint firsts (r : regex) : list atom :=
  match r with
  | RLit x => [ALit x]
  | RNotLit x => [ANotLit x]
  | RAny => [AAny]
  | RIn neg items => [AIn neg items]
  | RCat a b => firsts a ++ (if nullable a then firsts b else [])
  | RAlt a b => firsts a ++ firsts b
  | RRep _ _ a | RGroup _ a => firsts a
  | _ => []
  end.

Lemma Matches_le s r pos p c c' : Matches UCL s r pos p c c' -> pos <= p.
Proof. induction 1; lia. Qed.

Lemma Matches_first s r pos p c c' : Matches UCL s r pos p c c' ->
  (p = pos -> nullable r = true) /\
  (p <> pos -> exists y a, nth_error s pos = Some y /\ In a (firsts r) /\ atom_ok a y = true).
Proof.
  induction 1; cbn [nullable firsts].
  - split; [reflexivity | congruence].
  - split; [lia|]. intros _. exists x, (ALit x). split; [exact H|]. split; [left; reflexivity | apply N.eqb_refl].
  - split; [lia|]. intros _. exists y, (ANotLit x). split; [exact H|]. split; [left; reflexivity | cbn; rewrite H0; reflexivity].
  - split; [lia|]. intros _. exists y, AAny. split; [exact H|]. split; [left; reflexivity | cbn; rewrite H0; reflexivity].
  - split; [lia|]. intros _. exists y, (AIn neg items). split; [exact H|]. split; [left; reflexivity | exact H0].
  - split; [reflexivity | congruence].
  - split; [reflexivity | congruence].
  - pose proof (Matches_le _ _ _ _ _ _ H). pose proof (Matches_le _ _ _ _ _ _ H0).
    destruct IHMatches1 as [N1 F1]. destruct IHMatches2 as [N2 F2]. split.
    + intros E. rewrite N1, N2 by lia. reflexivity.
    + intros NE. destruct (Nat.eq_dec mid pos) as [E|E].
      * subst mid. rewrite (N1 eq_refl). destruct (F2 NE) as (y & a0 & Hy & Ia & Ok).
        exists y, a0. split; [exact Hy|]. split; [apply in_or_app; right; exact Ia | exact Ok].
      * destruct (F1 E) as (y & a0 & Hy & Ia & Ok).
        exists y, a0. split; [exact Hy|]. split; [apply in_or_app; left; exact Ia | exact Ok].
  - destruct IHMatches as [N1 F1]. split.
    + intros E. rewrite (N1 E). reflexivity.
    + intros NE. destruct (F1 NE) as (y & a0 & Hy & Ia & Ok). exists y, a0. split; [exact Hy|]. split; [apply in_or_app; left; exact Ia | exact Ok].
  - destruct IHMatches as [N1 F1]. split.
    + intros E. rewrite (N1 E). apply orb_true_r.
    + intros NE. destruct (F1 NE) as (y & a0 & Hy & Ia & Ok). exists y, a0. split; [exact Hy|]. split; [apply in_or_app; right; exact Ia | exact Ok].
  - split; [reflexivity | congruence].
  - pose proof (Matches_le _ _ _ _ _ _ H0). pose proof (Matches_le _ _ _ _ _ _ H2).
    destruct IHMatches1 as [N1 F1]. split; [lia|]. intros _. exact (F1 H1).
  - exact IHMatches.
  - split; [reflexivity | congruence].
Qed.

(* a regex that cannot match the empty string and whose first atoms all reject y does not match at a y *)
Lemma Matches_rejects s r pos p c c' y :
  Matches UCL s r pos p c c' -> nullable r = false -> nth_error s pos = Some y ->
  (forall a, In a (firsts r) -> atom_ok a y = false) -> False.
Proof.
  intros M NU Hy Rj. destruct (Matches_first _ _ _ _ _ _ M) as [N1 F1].
  destruct (Nat.eq_dec p pos) as [E|E]; [rewrite (N1 E) in NU; discriminate|].
  destruct (F1 E) as (y' & a & Hy' & Ia & Ok). assert (y' = y) by congruence. subst y'.
  rewrite (Rj a Ia) in Ok. discriminate.
Qed.

(* ---------- greedy \s* over a whitespace prefix ---------- *)
Definition rsp : regex := RRep 0 None (RIn false [CCat CatSpace]).

Lemma m_rep_unfold f mn mx a pos rest c k :
  m UCL (S f) (RRep mn mx a) pos rest c k =
  match (match mx with
         | Some 0 => MNo
         | _ => m UCL f a pos rest c (fun p r' c' => if Nat.eqb p pos then MNo
                   else m UCL f (RRep (pred mn) (option_map pred mx) a) p r' c' k)
         end) with
  | MNo => match mn with O => k pos rest c | _ => MNo end
  | MYes e c' => MYes e c'
  | MFuel => MFuel
  end.
Proof.
  cbn [m].
  destruct (match mx with
            | Some 0 => MNo
            | _ => m UCL f a pos rest c (fun p r' c' => if Nat.eqb p pos then MNo
                      else m UCL f (RRep (pred mn) (option_map pred mx) a) p r' c' k)
            end); reflexivity.
Qed.

Lemma sp_step g pos y rest c K : is_space UCL y = true ->
  m UCL (S g) rsp pos (y :: rest) c K =
  match m UCL g rsp (S pos) rest c K with MNo => K pos (y :: rest) c | res => res end.
Proof.
  intros Hy. destruct g as [|g]; [reflexivity|].
  unfold rsp. rewrite m_rep_unfold.
  assert (E : m UCL (S g) (RIn false [CCat CatSpace]) pos (y :: rest) c
                (fun p r' c' => if Nat.eqb p pos then MNo
                   else m UCL (S g) (RRep (pred 0) (option_map pred None) (RIn false [CCat CatSpace])) p r' c' K)
              = m UCL (S g) (RRep 0 None (RIn false [CCat CatSpace])) (S pos) rest c K).
  { assert (N : Nat.eqb (S pos) pos = false) by (apply Nat.eqb_neq; lia).
    change (m UCL (S g) (RIn false [CCat CatSpace]) pos (y :: rest) c
                (fun p r' c' => if Nat.eqb p pos then MNo
                   else m UCL (S g) (RRep (pred 0) (option_map pred None) (RIn false [CCat CatSpace])) p r' c' K))
      with (if class_match UCL false [CCat CatSpace] y
            then (if Nat.eqb (S pos) pos then MNo
                  else m UCL (S g) (RRep 0 None (RIn false [CCat CatSpace])) (S pos) rest c K) else MNo).
    unfold class_match. cbn [existsb item_match cat_match]. rewrite Hy, N. reflexivity. }
  rewrite E. reflexivity.
Qed.

Lemma sp_skip text K L : forall ws g pos c,
  (forall y, In y ws -> is_space UCL y = true) -> length (ws ++ text) <= L ->
  (forall p y rest' c', is_space UCL y = true -> length (y :: rest') <= L -> K p (y :: rest') c' = MNo) ->
  m UCL (length ws + g) rsp pos (ws ++ text) c K = m UCL g rsp (pos + length ws) text c K.
Proof.
  induction ws as [|y w IH]; intros g pos c W HL HK.
  - cbn [length app]. rewrite Nat.add_0_r. reflexivity.
  - cbn [length app Nat.add]. rewrite sp_step by (apply W; left; reflexivity).
    rewrite (IH g (S pos) c).
    + replace (S pos + length w) with (pos + S (length w)) by lia.
      destruct (m UCL g rsp (pos + S (length w)) text c K); try reflexivity.
      apply HK; [apply W; left; reflexivity | exact HL].
    + intros z I. apply W. right. exact I.
    + cbn [length app] in HL. lia.
    + exact HK.
Qed.

Lemma skipn_pre {A} (pre r : list A) : skipn (length pre) (pre ++ r) = r.
Proof. induction pre as [|x pre IH]; [reflexivity | exact IH]. Qed.

(* ---------- the token shape  ^\s*B ---------- *)
Definition fails_on_space (B : regex) : Prop :=
  forall s pos p c c' y, Matches UCL s B pos p c c' -> nth_error s pos = Some y -> is_space UCL y = true -> False.

Lemma tok_shift B ws text : no_bol B = true -> fails_on_space B ->
  (forall y, In y ws -> is_space UCL y = true) ->
  re_match UCL (RCat RBol (RCat rsp B)) (ws ++ text) =
  shiftr (length ws) (re_match UCL (RCat RBol (RCat rsp B)) text).
Proof.
  intros NB FS W. set (r := RCat RBol (RCat rsp B)). set (d := length ws).
  assert (Rs : rsize r = rsize B + 5) by (unfold r, rsp; cbn [rsize]; lia).
  set (G0 := rsize r * (length (ws ++ text) + 1)). set (G := d + G0).
  assert (Lapp : length (ws ++ text) = d + length text) by apply app_length.
  rewrite (re_match_as_m r (ws ++ text) (S (S G))) by (unfold G, G0; lia).
  rewrite (re_match_as_m r text (S (S G))) by (unfold G, G0; nia).
  set (KB := fun p r' c' => m UCL G B p r' c' kfin).
  change (m UCL (S (S G)) r 0 (ws ++ text) [] kfin) with (m UCL G rsp 0 (ws ++ text) [] KB).
  change (m UCL (S (S G)) r 0 text [] kfin) with (m UCL G rsp 0 text [] KB).
  (* skip the prefix *)
  unfold G at 1. unfold d at 1.
  rewrite (sp_skip text KB (length (ws ++ text)) ws G0 0 [] W (Nat.le_refl _)).
  2:{ intros p y rest' c' Hy HL. unfold KB.
      destruct (m UCL G B p (y :: rest') c' kfin) as [|e cf|] eqn:E; [reflexivity| |].
      - exfalso. set (s := repeat 0%N p ++ y :: rest').
        assert (Lp : length (repeat 0%N p) = p) by apply repeat_length.
        assert (Sk : skipn p s = y :: rest') by (unfold s; rewrite <- Lp at 1; apply skipn_pre).
        assert (Nt : nth_error s p = Some y).
        { unfold s. rewrite nth_error_app2 by lia. rewrite Lp, Nat.sub_diag. reflexivity. }
        apply (m_sound UCL s G B p (y :: rest') c' kfin e cf) in E.
        + destruct E as (p' & c'' & M & _). exact (FS _ _ _ _ _ _ M Nt Hy).
        + unfold s. rewrite app_length, Lp. lia.
        + symmetry. exact Sk.
      - exfalso. revert E. apply m_no_fuel; [unfold G, G0; nia | discriminate]. }
  (* same fuel again *)
  rewrite (m_fuel_irrel G0 G rsp (0 + length ws) text [] KB).
  2:{ unfold G0, rsp. cbn [rsize]. nia. }
  2:{ unfold G, G0, rsp. cbn [rsize]. nia. }
  2:{ intros p r' c' Hp Hl. unfold KB. apply m_no_fuel; [unfold G, G0; nia | discriminate]. }
  (* shift *)
  fold d. replace (0 + d) with (d + 0) by lia. change (@nil (nat * (nat * nat))) with (shiftc d []) at 1.
  apply m_shift; [reflexivity|].
  intros p r' c'. unfold KB. apply m_shift; [exact NB|]. intros p2 r2 c2. reflexivity.
Qed.

(* captured text and remainder after a shifted match *)
Lemma cap_get_shiftc d n c : cap_get n (shiftc d c) = option_map (fun ab => (d + fst ab, d + snd ab)) (cap_get n c).
Proof.
  induction c as [|[k [a b]] t IH]; [reflexivity|]. cbn [shiftc map cap_get fst snd].
  destruct (Nat.eqb k n); [reflexivity | exact IH].
Qed.

Lemma skipn_pad {A} (ws text : list A) e : skipn (length ws + e) (ws ++ text) = skipn e text.
Proof. induction ws as [|x ws IH]; [reflexivity | exact IH]. Qed.

Lemma group_text_shift ws text c n :
  group_text (ws ++ text) (shiftc (length ws) c) n = group_text text c n.
Proof.
  unfold group_text. rewrite cap_get_shiftc. destruct (cap_get n c) as [[a b]|]; [|reflexivity].
  cbn [option_map fst snd]. unfold sub_list. rewrite skipn_pad.
  replace (length ws + b - (length ws + a)) with (b - a) by lia. reflexivity.
Qed.

End Shift.
