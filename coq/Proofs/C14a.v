(* Proofs/C14a.v — C14, string layer: CPython's ensure_ascii escaping is inverted by the
   RFC 8259 string reader; the escaped text is printable ASCII and is ONE string token for the
   clean-up pass. *)
From Coq Require Import Lia ZifyBool.
From BS Require Import Model.Base Model.Json.
Local Open Scope N_scope.

(* a Unicode scalar value: a code point that is not a surrogate *)
Definition scalar (c : N) : bool := (c <? 1114112) && negb ((55296 <=? c) && (c <=? 57343)).
Definition scalar_str (s : str) : bool := forallb scalar s.

Arguments hex4 : simpl never.
Arguments is_high : simpl never.
Arguments is_low : simpl never.
Arguments join_sur : simpl never.
Arguments hexdig : simpl never.
Arguments simple_esc : simpl never.

Lemma hexv_hexdig d : d < 16 -> hexv (hexdig d) = Some d.
Proof.
  intros H. unfold hexv, hexdig. destruct (d <? 10) eqn:E.
  - replace ((48 <=? 48 + d) && (48 + d <=? 57)) with true by lia. f_equal. lia.
  - replace ((48 <=? 87 + d) && (87 + d <=? 57)) with false by lia.
    replace ((97 <=? 87 + d) && (87 + d <=? 102)) with true by lia. f_equal. lia.
Qed.

Ltac Zify.zify_post_hook ::= Z.to_euclidean_division_equations.
Lemma hex4_u4 c : c < 65536 ->
  hex4 (hexdig ((c / 4096) mod 16)) (hexdig ((c / 256) mod 16)) (hexdig ((c / 16) mod 16)) (hexdig (c mod 16)) = Some c.
Proof.
  intros H. unfold hex4.
  rewrite !hexv_hexdig by (apply N.mod_upper_bound; lia).
  f_equal. lia.
Qed.

Lemma ps_plain c t : c <> 34 -> c <> 92 -> 32 <= c -> parse_string (c :: t) = consr c (parse_string t).
Proof.
  intros H1 H2 H3. simpl.
  destruct (c =? 34) eqn:E1; [lia|]. destruct (c =? 92) eqn:E2; [lia|]. destruct (c <? 32) eqn:E3; [lia|]. reflexivity.
Qed.

Lemma ps_simple e x t : e <> 117 -> simple_esc e = Some x -> parse_string (92 :: e :: t) = consr x (parse_string t).
Proof.
  intros H1 H2. simpl. destruct (e =? 117) eqn:E; [lia|]. rewrite H2. reflexivity.
Qed.

Lemma ps_u_bmp a b c d hi t3 : hex4 a b c d = Some hi -> is_high hi = false ->
  parse_string (92 :: 117 :: a :: b :: c :: d :: t3) = consr hi (parse_string t3).
Proof. intros H1 H2. simpl. rewrite H1, H2. reflexivity. Qed.

Lemma ps_u_pair a b c d e f g h hi lo t4 :
  hex4 a b c d = Some hi -> is_high hi = true -> hex4 e f g h = Some lo -> is_low lo = true ->
  parse_string (92 :: 117 :: a :: b :: c :: d :: 92 :: 117 :: e :: f :: g :: h :: t4) = consr (join_sur hi lo) (parse_string t4).
Proof. intros H1 H2 H3 H4. simpl. rewrite H1, H2, H3, H4. reflexivity. Qed.

(* one character *)
Lemma parse_esc_char c t : scalar c = true -> parse_string (esc_char c ++ t) = consr c (parse_string t).
Proof.
  intros Hs. unfold scalar in Hs. unfold esc_char.
  destruct (c =? 34) eqn:E1. { assert (c = 34) by lia; subst. reflexivity. }
  destruct (c =? 92) eqn:E2. { assert (c = 92) by lia; subst. reflexivity. }
  destruct (c =? 10) eqn:E3. { assert (c = 10) by lia; subst. reflexivity. }
  destruct (c =? 13) eqn:E4. { assert (c = 13) by lia; subst. reflexivity. }
  destruct (c =? 9) eqn:E5. { assert (c = 9) by lia; subst. reflexivity. }
  destruct (c =? 8) eqn:E6. { assert (c = 8) by lia; subst. reflexivity. }
  destruct (c =? 12) eqn:E7. { assert (c = 12) by lia; subst. reflexivity. }
  destruct ((32 <=? c) && (c <=? 126)) eqn:E8.
  { cbn [app]. apply ps_plain; lia. }
  destruct (c <? 65536) eqn:E9.
  { unfold u4. cbn [app]. apply ps_u_bmp. - apply hex4_u4; lia. - unfold is_high. lia. }
  cbv zeta. unfold u4. cbn [app].
  set (v := c - 65536).
  assert (Hv : v < 1048576) by (unfold v; lia).
  rewrite (ps_u_pair _ _ _ _ _ _ _ _ (55296 + (v / 1024) mod 1024) (56320 + v mod 1024)).
  - replace (join_sur (55296 + (v / 1024) mod 1024) (56320 + v mod 1024)) with c; [reflexivity|].
    unfold join_sur, v. lia.
  - apply hex4_u4. lia.
  - unfold is_high. lia.
  - apply hex4_u4. lia.
  - unfold is_low. lia.
Qed.

(* C14 layer 1: the string reader inverts the escaping, for every string of scalar values and
   whatever follows the closing quote *)
Lemma parse_esc_body s rest : scalar_str s = true ->
  parse_string (esc_body s ++ 34 :: rest) = Some (s, rest).
Proof.
  induction s as [|c s IH]; intros H.
  - reflexivity.
  - simpl in H. apply andb_prop in H. destruct H as [Hc Hs].
    unfold esc_body. simpl flat_map. rewrite <- app_assoc. rewrite parse_esc_char by exact Hc.
    fold (esc_body s). rewrite IH by exact Hs. reflexivity.
Qed.

(* ---- the escaped text is printable ASCII without a raw quote; a backslash only starts an escape *)
Definition printable (c : N) : bool := (32 <=? c) && (c <=? 126).

Lemma hexdig_range d : d < 16 -> (48 <= hexdig d <= 57 \/ 97 <= hexdig d <= 102).
Proof. intros H. unfold hexdig. destruct (d <? 10) eqn:E; lia. Qed.
Lemma hexdig_printable d : d < 16 -> printable (hexdig d) = true.
Proof. intros H. pose proof (hexdig_range d H). unfold printable. lia. Qed.
Lemma hexdig_ne34 d : d < 16 -> hexdig d <> 34.
Proof. intros H. pose proof (hexdig_range d H). lia. Qed.
Lemma hexdig_ne92 d : d < 16 -> hexdig d <> 92.
Proof. intros H. pose proof (hexdig_range d H). lia. Qed.
Lemma mod16 x : x mod 16 < 16.
Proof. apply N.mod_upper_bound. discriminate. Qed.

Lemma u4_printable c : forallb printable (u4 c) = true.
Proof. unfold u4. cbn [forallb]. rewrite !hexdig_printable by apply mod16. reflexivity. Qed.

Lemma esc_char_printable c : forallb printable (esc_char c) = true.
Proof.
  unfold esc_char.
  repeat match goal with |- context [if ?b then _ else _] => destruct b eqn:? end; try reflexivity.
  - simpl. rewrite andb_true_r. assumption.
  - apply u4_printable.
  - cbv zeta. rewrite forallb_app. rewrite !u4_printable. reflexivity.
Qed.

Lemma esc_body_printable s : forallb printable (esc_body s) = true.
Proof.
  induction s as [|c s IH]; [reflexivity|].
  unfold esc_body. simpl. rewrite forallb_app. rewrite esc_char_printable. exact IH.
Qed.

(* ---- for the clean-up pass the escaped body plus closing quote is exactly one string token *)
Lemma stl_plain c r : c <> 34 -> c <> 92 -> str_tok_len (c :: r) = option_map S (str_tok_len r).
Proof. intros. simpl. destruct (c =? 34) eqn:E1; [lia|]. destruct (c =? 92) eqn:E2; [lia|]. reflexivity. Qed.
Lemma stl_esc x r : x <> 10 -> str_tok_len (92 :: x :: r) = option_map (fun n => S (S n)) (str_tok_len r).
Proof. intros. simpl. destruct (x =? 10) eqn:E1; [lia|]. reflexivity. Qed.

Lemma stl_u4 c r : str_tok_len (u4 c ++ r) = option_map (fun n => (6 + n)%nat) (str_tok_len r).
Proof.
  unfold u4. cbn [app]. rewrite stl_esc by lia.
  rewrite !stl_plain by (first [apply hexdig_ne34 | apply hexdig_ne92]; apply mod16).
  destruct (str_tok_len r); reflexivity.
Qed.

Lemma stl_esc_char c r : str_tok_len (esc_char c ++ r) = option_map (fun n => (length (esc_char c) + n)%nat) (str_tok_len r).
Proof.
  unfold esc_char.
  repeat match goal with |- context [if ?b then _ else _] => destruct b eqn:? end;
    try (cbn [app length]; rewrite stl_esc by lia; destruct (str_tok_len r); reflexivity).
  - cbn [app length]. rewrite stl_plain by lia. destruct (str_tok_len r); reflexivity.
  - rewrite stl_u4. reflexivity.
  - cbv zeta. rewrite <- app_assoc. rewrite !stl_u4. rewrite app_length. unfold u4. cbn [length].
    destruct (str_tok_len r); reflexivity.
Qed.

Lemma stl_esc_body s r : str_tok_len (esc_body s ++ 34 :: r) = Some (S (length (esc_body s))).
Proof.
  induction s as [|c s IH].
  - reflexivity.
  - unfold esc_body. simpl flat_map. rewrite <- app_assoc. rewrite stl_esc_char. fold (esc_body s). rewrite IH.
    rewrite app_length. simpl. f_equal. lia.
Qed.
