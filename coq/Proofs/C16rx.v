(* Proofs/C16rx.v — the regenerated regular expressions of value.py's datetime text functions, read DIRECTLY for every
   string (no fuel, no engine): what re.match / re.sub answer through Model/Regex.v on
        _R_DATE          = ^(?P<year>\d{4})-(?P<month>\d{2})-(?P<day>\d{2})$
        _R_DATETIME      = ^\d{4}-\d{2}-\d{2}T\d{2}:\d{2}:\d{2}(?:\.\d{1,6})?(?:Z|[+-]\d{2}:\d{2})$
        _R_DATETIME_ZULU = Z$                      (.sub('+00:00', text))
        _R_DATETIME_MICROSECOND = \.(\d{6})  (.search)      _R_DATETIME_TZ_CLEANUP = ([+-]\d\d:\d\d):\d\d$  (.sub(r'\1', text))
   and the consequences for Model/CalendarRx.v:
        iso_parse_rx off_utc s = DOk (iso_parse off_utc s)                           for EVERY string s,
        iso_format_rx off_local off_utc w = iso_format off_local off_utc w           for every w, offsets below 24 h.
   Route: Proofs/RegexEval.v (engine with its fuel = the structural evaluator ev); a repeat {n,n} of a one-character
   pattern reads exactly n such characters (ev_exact), a repeat {mn,mx} in front of a continuation that refuses every
   such character reads the longest run up to mx (ev_range).
   Stated about the generated constants R_DATE, R_DATETIME, R_DATETIME_ZULU: a change of a pattern breaks the proofs. *)
From Coq Require Import ZArith List Bool Lia.
From BS Require Import Model.Base Model.Regex Model.Calendar Model.CalendarRx Gen.Unicode Gen.Regexes
  Proofs.RegexFacts Proofs.RegexComplete Proofs.RegexShift Proofs.RegexEval Proofs.NumLit.

(* ================================================================== 0.  bounded repeats of a one-character pattern *)
Fixpoint take_p (p : N -> bool) (n : nat) (s : str) : option str :=
  match n with
  | O => Some s
  | S k => match s with c :: t => if p c then take_p p k t else None | [] => None end
  end.

Lemma ev_rep_exact a p : one UC a p -> forall n fuel pos rest c k, length rest < fuel ->
  ev_rep (ev UC a) fuel n (Some n) pos rest c k = match take_p p n rest with Some r => k (n + pos) r c | None => MNo end.
Proof.
  intros O. induction n as [|n IH]; intros fuel pos rest c k L; (destruct fuel as [|f]; [lia|]); rewrite ev_rep_S.
  - reflexivity.
  - rewrite O. destruct rest as [|y t]; [reflexivity|]. cbn [take_p]. destruct (p y); [|reflexivity].
    rewrite neq_succ. cbn [pred option_map]. rewrite IH by (cbn [length] in L; lia).
    destruct (take_p p n t) as [r|]; [|reflexivity]. replace (n + S pos) with (S n + pos) by lia.
    destruct (k (S n + pos) r c); reflexivity.
Qed.

Lemma ev_exact a p : one UC a p -> forall n pos rest c k,
  ev UC (RRep n (Some n) a) pos rest c k = match take_p p n rest with Some r => k (n + pos) r c | None => MNo end.
Proof. intros O n pos rest c k. cbn [ev]. apply ev_rep_exact; [exact O | lia]. Qed.

Lemma ev_rep_range a p (k : kont) : one UC a p -> (forall q y t c', p y = true -> k q (y :: t) c' = MNo) ->
  forall mx mn fuel pos rest c, length rest < fuel -> mn <= mx ->
  ev_rep (ev UC a) fuel mn (Some mx) pos rest c k =
  if Nat.leb mn (Nat.min mx (fst (span p rest))) then
    k (Nat.min mx (fst (span p rest)) + pos) (skipn (Nat.min mx (fst (span p rest))) rest) c
  else MNo.
Proof.
  intros O R. induction mx as [|mx IH]; intros mn fuel pos rest c L M; (destruct fuel as [|f]; [lia|]); rewrite ev_rep_S.
  - assert (mn = 0) by lia. subst mn. reflexivity.
  - rewrite O. destruct rest as [|y t].
    + cbn [span fst Nat.min skipn]. destruct mn; reflexivity.
    + cbn [span]. destruct (p y) eqn:E.
      * rewrite neq_succ. cbn [pred option_map]. rewrite IH by (cbn [length] in L; lia).
        destruct (span p t) as [m r]. cbn [fst Nat.min skipn].
        replace (Nat.leb mn (S (Nat.min mx m))) with (Nat.leb (pred mn) (Nat.min mx m)) by (destruct mn; reflexivity).
        replace (Nat.min mx m + S pos) with (S (Nat.min mx m) + pos) by lia.
        rewrite (R pos y t c E).
        destruct (Nat.leb (pred mn) (Nat.min mx m)); [|destruct mn; reflexivity].
        destruct (k (S (Nat.min mx m) + pos) (skipn (Nat.min mx m) t) c); try reflexivity. destruct mn; reflexivity.
      * cbn [fst Nat.min skipn]. destruct mn; reflexivity.
Qed.

Lemma ev_range a p (k : kont) : one UC a p -> (forall q y t c', p y = true -> k q (y :: t) c' = MNo) ->
  forall mn mx pos rest c, mn <= mx ->
  ev UC (RRep mn (Some mx) a) pos rest c k =
  if Nat.leb mn (Nat.min mx (fst (span p rest))) then
    k (Nat.min mx (fst (span p rest)) + pos) (skipn (Nat.min mx (fst (span p rest))) rest) c
  else MNo.
Proof. intros O R mn mx pos rest c M. cbn [ev]. apply ev_rep_range; [exact O | exact R | lia | exact M]. Qed.

Lemma ev_litx x pos rest c k :
  ev UC (RLit x) pos rest c k = match expect x rest with Some t => k (S pos) t c | None => MNo end.
Proof. cbn [ev]. unfold expect. destruct rest as [|y t]; [reflexivity|]. destruct (y =? x)%N; reflexivity. Qed.

(* `\d` : the Unicode decimal digits *)
Definition isd (c : N) : bool := is_digit UC c.
Definition rD : regex := RIn false [CCat CatDigit].
Lemma one_D : one UC rD isd.
Proof.
  intros pos rest c k. cbn [ev rD]. destruct rest as [|y t]; [reflexivity|].
  unfold class_match. rewrite Bool.xorb_false_l. cbn [existsb item_match cat_match]. rewrite orb_false_r. reflexivity.
Qed.

(* `$` : at the end, or before one final newline *)
Definition eol_ok (s : str) : bool := match s with [] => true | [c] => (c =? 10)%N | _ => false end.
Lemma ev_eol_fin pos rest c : ev UC REol pos rest c kfin = if eol_ok rest then MYes pos c else MNo.
Proof. rewrite ev_eol. destruct rest as [|y [|z t]]; reflexivity. Qed.

(* ================================================================== 1.  _R_DATE under re.match *)
(* the strings the pattern matches: 4 digits, '-', 2 digits, '-', 2 digits, then nothing or one newline *)
Definition date_rx_shape (s : str) : bool :=
  match (do s <- take_p isd 4 s; do s <- expect C_DASH s; do s <- take_p isd 2 s; do s <- expect C_DASH s; take_p isd 2 s) with
  | Some tl => eol_ok tl
  | None => false
  end.

Definition date_caps : caps := [(3, (8, 10)); (2, (5, 7)); (1, (0, 4))]%nat.

Lemma date_regex_shape : R_DATE =
  RCat RBol (RCat (RGroup 1 (RRep 4 (Some 4) rD)) (RCat (RLit 45) (RCat (RGroup 2 (RRep 2 (Some 2) rD))
    (RCat (RLit 45) (RCat (RGroup 3 (RRep 2 (Some 2) rD)) REol))))).
Proof. reflexivity. Qed.

(* the engine's full answer: a match always ends at 10 and the groups are the character ranges 0-4, 5-7, 8-10 *)
Theorem date_regex_answer s :
  re_match UC R_DATE s = if date_rx_shape s then MYes 10 date_caps else MNo.
Proof.
  rewrite re_match_ev, date_regex_shape. unfold date_rx_shape, obind.
  rewrite ev_cat, ev_bol. cbn [Nat.eqb].
  rewrite ev_cat, ev_group, (ev_exact _ _ one_D). destruct (take_p isd 4 s) as [s1|]; [|reflexivity].
  rewrite ev_cat, ev_litx. change 45%N with C_DASH. destruct (expect C_DASH s1) as [s2|]; [|reflexivity].
  rewrite ev_cat, ev_group, (ev_exact _ _ one_D). destruct (take_p isd 2 s2) as [s3|]; [|reflexivity].
  rewrite ev_cat, ev_litx. change 45%N with C_DASH. destruct (expect C_DASH s3) as [s4|]; [|reflexivity].
  rewrite ev_cat, ev_group, (ev_exact _ _ one_D). destruct (take_p isd 2 s4) as [s5|]; [|reflexivity].
  apply ev_eol_fin.
Qed.

(* the three group texts of a match *)
Lemma date_group_texts s :
  gtext s date_caps R_DATE__year = firstn 4 s /\
  gtext s date_caps R_DATE__month = firstn 2 (skipn 5 s) /\
  gtext s date_caps R_DATE__day = firstn 2 (skipn 8 s).
Proof. repeat split. Qed.

(* ---- the direct recogniser of Model/Calendar.v reads the same strings, and int() of the group texts are its numbers *)
Lemma isd_udigit c : isd c = true -> exists d, udigit c = Some d.
Proof. intros H. apply is_digit_digit_val in H. destruct H as [d H]. exists (Z.of_N d). unfold udigit. rewrite H. reflexivity. Qed.
Lemma not_isd_udigit c : isd c = false -> udigit c = None.
Proof.
  intros H. unfold udigit. destruct (digit_val c) as [d|] eqn:E; [|reflexivity].
  assert (X : isd c = true) by (apply is_digit_digit_val; eauto). congruence.
Qed.

(* reading n digits: the direct reader succeeds exactly when the n characters are \d characters; its number is int() of them *)
Lemma take_digits_u : forall n s acc,
  match take_p isd n s with
  | Some r => exists v, take_digits udigit n s acc = Some (v, r) /\ py_int_digits (firstn n s) acc = Some v /\ r = skipn n s
  | None => take_digits udigit n s acc = None
  end.
Proof.
  induction n as [|n IH]; intros s acc.
  - cbn. eauto.
  - destruct s as [|c t]; [reflexivity|]. cbn [take_p take_digits firstn skipn py_int_digits].
    destruct (isd c) eqn:E.
    + destruct (isd_udigit c E) as [d ->]. apply IH.
    + rewrite (not_isd_udigit c E). reflexivity.
Qed.

Lemma expect_skip c s t : expect c s = Some t -> t = skipn 1 s.
Proof. unfold expect. destruct s as [|x r]; [discriminate|]. destruct (x =? c)%N; [|discriminate]. intros H; inversion H; reflexivity. Qed.

Lemma skipn_skipn {A} : forall n m (l : list A), skipn m (skipn n l) = skipn (n + m) l.
Proof. induction n as [|n IH]; intros m l; [reflexivity|]. destruct l as [|x l]; [destruct m; reflexivity|]. cbn [skipn Nat.add]. apply IH. Qed.

(* THE DATE BRANCH: no difference.  For every string, _R_DATE.match through the engine succeeds exactly when
   parse_date_form does (Unicode decimal digits and the final newline included on both sides), and int() of the
   groups year / month / day are the three numbers parse_date_form returns. *)
Theorem date_branch_agrees s :
  match re_match UC R_DATE s with
  | MYes e c => exists y m d, parse_date_form s = Some (y, m, d) /\
                  py_int_digits (gtext s c R_DATE__year) 0 = Some y /\
                  py_int_digits (gtext s c R_DATE__month) 0 = Some m /\
                  py_int_digits (gtext s c R_DATE__day) 0 = Some d
  | MNo => parse_date_form s = None
  | MFuel => False
  end.
Proof.
  rewrite date_regex_answer. unfold date_rx_shape, parse_date_form, obind.
  pose proof (take_digits_u 4 s 0) as H1. destruct (take_p isd 4 s) as [s1|]; [|rewrite H1; reflexivity].
  destruct H1 as (y & -> & Y & E1).
  destruct (expect C_DASH s1) as [s2|] eqn:X1; [|reflexivity]. apply expect_skip in X1.
  pose proof (take_digits_u 2 s2 0) as H2. destruct (take_p isd 2 s2) as [s3|]; [|rewrite H2; reflexivity].
  destruct H2 as (m & -> & M & E2).
  destruct (expect C_DASH s3) as [s4|] eqn:X2; [|reflexivity]. apply expect_skip in X2.
  pose proof (take_digits_u 2 s4 0) as H3. destruct (take_p isd 2 s4) as [s5|]; [|rewrite H3; reflexivity].
  destruct H3 as (d & -> & D & E3).
  assert (S2 : s2 = skipn 5 s) by (rewrite X1, E1, skipn_skipn; reflexivity).
  assert (S4 : s4 = skipn 8 s) by (rewrite X2, E2, S2, !skipn_skipn; reflexivity).
  destruct (date_group_texts s) as (G1 & G2 & G3).
  assert (OK : exists y0 m0 d0, Some (y, m, d) = Some (y0, m0, d0) /\
             py_int_digits (gtext s date_caps R_DATE__year) 0 = Some y0 /\
             py_int_digits (gtext s date_caps R_DATE__month) 0 = Some m0 /\
             py_int_digits (gtext s date_caps R_DATE__day) 0 = Some d0).
  { exists y, m, d. rewrite G1, G2, G3, <- S2, <- S4. auto. }
  destruct s5 as [|c [|z t]]; cbn [eol_ok]; [exact OK | | reflexivity].
  change C_NL with 10%N. destruct (c =? 10)%N; [exact OK | reflexivity].
Qed.

(* value_parse_datetime, first branch: whenever _R_DATE matches, the regex-run function returns what iso_parse returns
   (never an uncaught exception from int(): every \d character has a decimal value) *)
Theorem iso_parse_rx_date_branch (off_utc : Z -> Z) s :
  re_match UC R_DATE s <> MNo -> iso_parse_rx off_utc s = DOk (iso_parse off_utc s).
Proof.
  intros NN. pose proof (date_branch_agrees s) as H. unfold iso_parse_rx, iso_parse.
  destruct (re_match UC R_DATE s) as [|e c|]; [congruence | | contradiction].
  destruct H as (y & m & d & -> & -> & -> & ->). reflexivity.
Qed.

Lemma iso_parse_rx_other_branch (off_utc : Z -> Z) s :
  re_match UC R_DATE s = MNo ->
  parse_date_form s = None /\
  iso_parse_rx off_utc s =
    match re_match UC R_DATETIME s with
    | MFuel => DFuel
    | MNo => DOk None
    | MYes _ _ =>
      match re_sub UC R_DATETIME_ZULU (fun _ _ => U "+00:00") s with
      | None => DFuel
      | Some s' => match parse_datetime_form s' with Some (f, o) => DOk (fromiso_to_local off_utc f o) | None => DOk None end
      end
    end.
Proof.
  intros E. pose proof (date_branch_agrees s) as H. unfold iso_parse_rx. rewrite E in *. split; [exact H | reflexivity].
Qed.

(* ================================================================== 2.  _R_DATETIME under re.match *)
(* (?:Z|[+-]\d{2}:\d{2})$  : number of characters read *)
Definition zone_len (r : str) : option nat :=
  match r with
  | c :: t =>
    if (c =? C_Z)%N then (if eol_ok t then Some 1%nat else None)
    else if ((c =? C_PLUS) || (c =? C_DASH))%N then
      match (do t <- take_p isd 2 t; do t <- expect C_COLON t; take_p isd 2 t) with
      | Some tl => if eol_ok tl then Some 6%nat else None
      | None => None
      end
    else None
  | [] => None
  end.

(* (?:\.\d{1,6})? and the zone: a '.' must be followed by 1..6 digits, as many as there are (at most 6) *)
Definition frac_zone_len (r : str) : option nat :=
  match r with
  | c :: t =>
    if (c =? C_DOT)%N then
      let n := Nat.min 6 (fst (span isd t)) in
      if Nat.leb 1 n then option_map (fun z => z + S n) (zone_len (skipn n t)) else None
    else zone_len r
  | [] => None
  end.

Definition datetime_rx_len (s : str) : option nat :=
  do s <- take_p isd 4 s; do s <- expect C_DASH s; do s <- take_p isd 2 s; do s <- expect C_DASH s; do s <- take_p isd 2 s;
  do s <- expect C_T s;
  do s <- take_p isd 2 s; do s <- expect C_COLON s; do s <- take_p isd 2 s; do s <- expect C_COLON s; do s <- take_p isd 2 s;
  option_map (fun z => z + 19) (frac_zone_len s).

Definition rSG : regex := RIn false [CLit 43%N; CLit 45%N].
Definition rZONE : regex := RAlt (RLit 90) (RCat rSG (RCat (RRep 2 (Some 2) rD) (RCat (RLit 58) (RRep 2 (Some 2) rD)))).
Definition rFRAC : regex := RRep 0 (Some 1) (RCat (RLit 46) (RRep 1 (Some 6) rD)).

Lemma datetime_regex_shape : R_DATETIME =
  RCat RBol (RCat (RRep 4 (Some 4) rD) (RCat (RLit 45) (RCat (RRep 2 (Some 2) rD) (RCat (RLit 45) (RCat (RRep 2 (Some 2) rD)
    (RCat (RLit 84) (RCat (RRep 2 (Some 2) rD) (RCat (RLit 58) (RCat (RRep 2 (Some 2) rD) (RCat (RLit 58) (RCat (RRep 2 (Some 2) rD)
      (RCat rFRAC (RCat rZONE REol))))))))))))).
Proof. reflexivity. Qed.

Lemma one_SG : one UC rSG (fun y => ((y =? C_PLUS) || (y =? C_DASH))%N).
Proof.
  intros pos rest c k. cbn [ev rSG]. destruct rest as [|y t]; [reflexivity|].
  unfold class_match. rewrite Bool.xorb_false_l. cbn [existsb item_match]. rewrite orb_false_r. reflexivity.
Qed.

Definition k_zone : kont := fun p r' c' => ev UC (RCat rZONE REol) p r' c' kfin.

Lemma k_zone_is q r c : k_zone q r c = match zone_len r with Some z => MYes (z + q) c | None => MNo end.
Proof.
  unfold k_zone, rZONE. rewrite ev_cat, ev_alt. rewrite (ev_one UC _ _ (one_lit UC 90)). unfold zone_len.
  destruct r as [|y t]; [reflexivity|]. change C_Z with 90%N.
  destruct (y =? 90)%N eqn:EZ.
  - apply N.eqb_eq in EZ. subst y. rewrite ev_eol_fin. destruct (eol_ok t); reflexivity.
  - rewrite ev_cat, (ev_one UC _ _ one_SG). destruct ((y =? C_PLUS) || (y =? C_DASH))%N; [|reflexivity].
    unfold obind. rewrite ev_cat, (ev_exact _ _ one_D). destruct (take_p isd 2 t) as [t1|]; [|reflexivity].
    rewrite ev_cat, ev_litx. change 58%N with C_COLON. destruct (expect C_COLON t1) as [t2|]; [|reflexivity].
    rewrite (ev_exact _ _ one_D). destruct (take_p isd 2 t2) as [t3|]; [|reflexivity].
    rewrite ev_eol_fin. destruct (eol_ok t3); reflexivity.
Qed.

Lemma isd_not_zone y : isd y = true -> (y =? C_Z)%N = false /\ ((y =? C_PLUS) || (y =? C_DASH))%N = false /\ (y =? C_DOT)%N = false.
Proof.
  intros D. repeat split.
  - destruct (y =? C_Z)%N eqn:E; [|reflexivity]. apply N.eqb_eq in E. subst y. discriminate.
  - destruct (y =? C_PLUS)%N eqn:E; [apply N.eqb_eq in E; subst y; discriminate|].
    destruct (y =? C_DASH)%N eqn:E2; [apply N.eqb_eq in E2; subst y; discriminate|]. reflexivity.
  - destruct (y =? C_DOT)%N eqn:E; [|reflexivity]. apply N.eqb_eq in E. subst y. discriminate.
Qed.

Lemma k_zone_digit q y t c : isd y = true -> k_zone q (y :: t) c = MNo.
Proof.
  intros D. rewrite k_zone_is. unfold zone_len. destruct (isd_not_zone y D) as (-> & -> & _). reflexivity.
Qed.

Lemma frac_zone_is q r c :
  ev UC (RCat rFRAC (RCat rZONE REol)) q r c kfin = match frac_zone_len r with Some z => MYes (z + q) c | None => MNo end.
Proof.
  rewrite ev_cat. fold k_zone. unfold rFRAC. rewrite ev_opt. rewrite ev_cat, (ev_one UC _ _ (one_lit UC 46)).
  unfold frac_zone_len. destruct r as [|y t]; [rewrite k_zone_is; reflexivity|]. change C_DOT with 46%N.
  destruct (y =? 46)%N eqn:E; [|rewrite k_zone_is; reflexivity].
  apply N.eqb_eq in E. subst y.
  rewrite (ev_range rD isd (fun p r' c' => if Nat.eqb p q then MNo else k_zone p r' c') one_D).
  2:{ intros p y t' c' D. destruct (Nat.eqb p q); [reflexivity | apply k_zone_digit; exact D]. }
  2:{ lia. }
  assert (KD : k_zone q (46%N :: t) c = MNo) by (rewrite k_zone_is; reflexivity). rewrite KD.
  destruct (Nat.leb 1 (Nat.min 6 (fst (span isd t)))); [|reflexivity].
  assert (NE : Nat.eqb (Nat.min 6 (fst (span isd t)) + S q) q = false) by (apply Nat.eqb_neq; lia). rewrite NE.
  rewrite k_zone_is. destruct (zone_len (skipn (Nat.min 6 (fst (span isd t))) t)) as [z|]; cbn [option_map]; [|reflexivity].
  replace (z + (Nat.min 6 (fst (span isd t)) + S q)) with (z + S (Nat.min 6 (fst (span isd t))) + q) by lia. reflexivity.
Qed.

(* the engine's full answer on the regenerated _R_DATETIME, for every string *)
Theorem datetime_regex_answer s :
  re_match UC R_DATETIME s = match datetime_rx_len s with Some e => MYes e [] | None => MNo end.
Proof.
  rewrite re_match_ev, datetime_regex_shape. unfold datetime_rx_len, obind.
  rewrite ev_cat, ev_bol. cbn [Nat.eqb].
  rewrite ev_cat, (ev_exact _ _ one_D). destruct (take_p isd 4 s) as [s1|]; [|reflexivity].
  rewrite ev_cat, ev_litx. change 45%N with C_DASH. destruct (expect C_DASH s1) as [s2|]; [|reflexivity].
  rewrite ev_cat, (ev_exact _ _ one_D). destruct (take_p isd 2 s2) as [s3|]; [|reflexivity].
  rewrite ev_cat, ev_litx. change 45%N with C_DASH. destruct (expect C_DASH s3) as [s4|]; [|reflexivity].
  rewrite ev_cat, (ev_exact _ _ one_D). destruct (take_p isd 2 s4) as [s5|]; [|reflexivity].
  rewrite ev_cat, ev_litx. change 84%N with C_T. destruct (expect C_T s5) as [s6|]; [|reflexivity].
  rewrite ev_cat, (ev_exact _ _ one_D). destruct (take_p isd 2 s6) as [s7|]; [|reflexivity].
  rewrite ev_cat, ev_litx. change 58%N with C_COLON. destruct (expect C_COLON s7) as [s8|]; [|reflexivity].
  rewrite ev_cat, (ev_exact _ _ one_D). destruct (take_p isd 2 s8) as [s9|]; [|reflexivity].
  rewrite ev_cat, ev_litx. change 58%N with C_COLON. destruct (expect C_COLON s9) as [s10|]; [|reflexivity].
  rewrite ev_cat, (ev_exact _ _ one_D). destruct (take_p isd 2 s10) as [s11|]; [|reflexivity].
  rewrite frac_zone_is. destruct (frac_zone_len s11) as [z|]; reflexivity.
Qed.

(* ================================================================== 3.  _R_DATETIME_ZULU.sub('+00:00', text) *)
(* the direct function: a Z that ends the text (or stands before one final newline) becomes +00:00 *)
Fixpoint zulu (s : str) : str :=
  match s with
  | [] => []
  | y :: t => if (y =? C_Z)%N && eol_ok t then U "+00:00" ++ t else y :: zulu t
  end.

Lemma ev_zulu pos rest :
  ev UC R_DATETIME_ZULU pos rest [] kfin =
  match rest with y :: t => if (y =? C_Z)%N && eol_ok t then MYes (S pos) [] else MNo | [] => MNo end.
Proof.
  unfold R_DATETIME_ZULU. rewrite ev_cat, (ev_one UC _ _ (one_lit UC 90)). destruct rest as [|y t]; [reflexivity|].
  change C_Z with 90%N. destruct (y =? 90)%N; [|reflexivity]. rewrite ev_eol_fin. reflexivity.
Qed.

Lemma zulu_eol t : eol_ok t = true -> zulu t = t.
Proof.
  destruct t as [|c [|z t]]; [reflexivity | | discriminate]. cbn [eol_ok]. intros H. apply N.eqb_eq in H. subst c. reflexivity.
Qed.

Lemma sub_zulu (P : str) whole : forall f rest pos, length rest < f -> length rest <= length whole ->
  re_sub_from UC R_DATETIME_ZULU (fun _ => P) whole f pos rest =
  Some ((fix z (s : str) : str := match s with [] => [] | y :: t => if (y =? C_Z)%N && eol_ok t then P ++ t else y :: z t end) rest).
Proof.
  induction f as [|f IH]; intros rest pos Lf Lw; [lia|].
  cbn [re_sub_from]. rewrite m_at_ev by exact Lw. rewrite ev_zulu.
  destruct rest as [|y t]; [reflexivity|]. cbn [length] in Lf, Lw.
  destruct ((y =? C_Z)%N && eol_ok t) eqn:E.
  - assert (Hlt : Nat.ltb pos (S pos) = true) by (apply Nat.ltb_lt; lia). rewrite Hlt.
    replace (S pos - pos) with 1 by lia. cbn [skipn]. rewrite IH by lia. cbn [option_map]. f_equal. f_equal.
    apply andb_true_iff in E. destruct E as [_ E].
    destruct t as [|c [|z t]]; [reflexivity | | discriminate]. cbn [eol_ok] in E. apply N.eqb_eq in E. subst c. reflexivity.
  - rewrite IH by lia. reflexivity.
Qed.

Theorem zulu_sub_answer s : re_sub UC R_DATETIME_ZULU (fun _ _ => U "+00:00") s = Some (zulu s).
Proof. unfold re_sub. rewrite sub_zulu by lia. reflexivity. Qed.

(* ================================================================== 4.  iso_parse_rx = iso_parse, for every string *)
(* ---- parse_datetime_form cut into its head (19 characters), the fraction and the zone *)
Definition pdf_frac (s : str) : option (Z * str) :=
  match s with
  | c :: t =>
    if (c =? C_DOT)%N then
      let '(v, cnt, r) := frac_digits 6 t 0 0 in
      if (cnt =? 0)%Z then None else Some ((v * 10 ^ (6 - cnt))%Z, r)
    else Some (0%Z, s)
  | [] => None
  end.

Definition pdf_zone (f : dtf) (s : str) : option (dtf * Z) :=
  match s with
  | [c] => if (c =? C_Z)%N then Some (f, 0%Z) else None
  | c :: t =>
    if (c =? C_PLUS)%N || (c =? C_DASH)%N then
      do (oh, t) <- take_digits adigit 2 t 0;
      do t <- expect C_COLON t;
      do (om, t) <- take_digits adigit 2 t 0;
      match t with
      | [] => let o := (oh * 3600 + om * 60)%Z in Some (f, if (c =? C_DASH)%N then (- o)%Z else o)
      | _ => None
      end
    else None
  | [] => None
  end.

Definition pdf_tail (y mo d h mi sec : Z) (s : str) : option (dtf * Z) :=
  do (us, s) <- pdf_frac s; pdf_zone (mkf y mo d h mi sec us) s.

Lemma pdf_split s : parse_datetime_form s =
  (do (y, s) <- take_digits adigit 4 s 0;
   do s <- expect C_DASH s;
   do (mo, s) <- take_digits adigit 2 s 0;
   do s <- expect C_DASH s;
   do (d, s) <- take_digits adigit 2 s 0;
   do s <- expect C_T s;
   do (h, s) <- take_digits adigit 2 s 0;
   do s <- expect C_COLON s;
   do (mi, s) <- take_digits adigit 2 s 0;
   do s <- expect C_COLON s;
   do (sec, s) <- take_digits adigit 2 s 0;
   pdf_tail y mo d h mi sec s).
Proof. reflexivity. Qed.

(* ---- A.  the substitution does not change what parse_datetime_form reads *)
Lemma zulu_cons y t : ((y =? C_Z)%N && eol_ok t) = false -> zulu (y :: t) = y :: zulu t.
Proof. intros E. cbn [zulu]. rewrite E. reflexivity. Qed.

Lemma zulu_z t : eol_ok t = true -> zulu (C_Z :: t) = U "+00:00" ++ t.
Proof. intros E. cbn [zulu]. rewrite E. reflexivity. Qed.

Lemma zt_inv y t : ((y =? C_Z)%N && eol_ok t) = true -> y = C_Z /\ eol_ok t = true.
Proof. intros E. apply andb_true_iff in E. destruct E as [E1 E2]. apply N.eqb_eq in E1. auto. Qed.

Lemma zulu_nil s : zulu s = [] -> s = [].
Proof.
  destruct s as [|y t]; [reflexivity|]. cbn [zulu]. destruct ((y =? C_Z)%N && eol_ok t); discriminate.
Qed.

Definition zmap {A} (vr : A * str) : A * str := (fst vr, zulu (snd vr)).

Lemma zulu_take_digits : forall n s acc,
  take_digits adigit n (zulu s) acc = option_map zmap (take_digits adigit n s acc).
Proof.
  induction n as [|n IH]; intros s acc; [reflexivity|].
  destruct s as [|y t]; [reflexivity|].
  destruct ((y =? C_Z)%N && eol_ok t) eqn:E.
  - destruct (zt_inv y t E) as [-> Et]. rewrite zulu_z by exact Et. reflexivity.
  - rewrite zulu_cons by exact E. cbn [take_digits]. destruct (adigit y); [apply IH | reflexivity].
Qed.

Lemma zulu_expect c s : (C_Z =? c)%N = false -> (C_PLUS =? c)%N = false ->
  expect c (zulu s) = option_map zulu (expect c s).
Proof.
  intros NZ NP. destruct s as [|y t]; [reflexivity|].
  destruct ((y =? C_Z)%N && eol_ok t) eqn:E.
  - destruct (zt_inv y t E) as [-> Et]. rewrite zulu_z by exact Et. cbn [expect U app]. 
    change (U "+00:00" ++ t) with (C_PLUS :: U "00:00" ++ t). cbn [expect]. rewrite NZ, NP. reflexivity.
  - rewrite zulu_cons by exact E. cbn [expect]. destruct (y =? c)%N; reflexivity.
Qed.

Lemma zulu_frac_digits : forall n s acc cnt,
  frac_digits n (zulu s) acc cnt = let '(v, k, r) := frac_digits n s acc cnt in (v, k, zulu r).
Proof.
  induction n as [|n IH]; intros s acc cnt; [reflexivity|].
  destruct s as [|y t]; [reflexivity|].
  destruct ((y =? C_Z)%N && eol_ok t) eqn:E.
  - destruct (zt_inv y t E) as [-> Et]. rewrite zulu_z by exact Et. cbn [frac_digits]. 
    change (adigit C_Z) with (@None Z). cbv iota. rewrite zulu_z by exact Et. reflexivity.
  - rewrite zulu_cons by exact E. cbn [frac_digits]. destruct (adigit y); [apply IH |]. rewrite zulu_cons by exact E. reflexivity.
Qed.

Lemma zulu_pdf_frac s : pdf_frac (zulu s) = option_map zmap (pdf_frac s).
Proof.
  destruct s as [|y t]; [reflexivity|].
  destruct ((y =? C_Z)%N && eol_ok t) eqn:E.
  - destruct (zt_inv y t E) as [-> Et]. rewrite zulu_z by exact Et. unfold pdf_frac at 2. change (C_Z =? C_DOT)%N with false. cbv iota.
    unfold zmap. cbn [option_map fst snd]. rewrite zulu_z by exact Et. reflexivity.
  - rewrite zulu_cons by exact E. unfold pdf_frac. destruct (y =? C_DOT)%N.
    + rewrite zulu_frac_digits. destruct (frac_digits 6 t 0 0) as [[v k] r]. destruct (k =? 0)%Z; reflexivity.
    + unfold zmap. cbn [option_map fst snd]. rewrite zulu_cons by exact E. reflexivity.
Qed.

Lemma zulu_pdf_zone f s : pdf_zone f (zulu s) = pdf_zone f s.
Proof.
  destruct s as [|y t]; [reflexivity|].
  destruct ((y =? C_Z)%N && eol_ok t) eqn:E.
  - destruct (zt_inv y t E) as [-> Et]. rewrite zulu_z by exact Et.
    destruct t as [|c [|z t]]; [reflexivity | | discriminate]. cbn [eol_ok] in Et. apply N.eqb_eq in Et. subst c. reflexivity.
  - rewrite zulu_cons by exact E. destruct t as [|c2 t2]; [reflexivity|].
    destruct (zulu (c2 :: t2)) as [|a b] eqn:Zn; [apply zulu_nil in Zn; discriminate|].
    unfold pdf_zone. cbv iota beta. rewrite <- Zn. clear a b Zn. destruct ((y =? C_PLUS)%N || (y =? C_DASH)%N); [|reflexivity].
    rewrite zulu_take_digits. destruct (take_digits adigit 2 (c2 :: t2) 0) as [[oh t3]|]; cbn [option_map obind zmap fst snd]; [|reflexivity].
    rewrite zulu_expect by reflexivity. destruct (expect C_COLON t3) as [t4|]; cbn [option_map obind]; [|reflexivity].
    rewrite zulu_take_digits. destruct (take_digits adigit 2 t4 0) as [[om t5]|]; cbn [option_map obind zmap fst snd]; [|reflexivity].
    destruct t5 as [|a b]; [reflexivity|]. destruct (zulu (a :: b)) eqn:Zn; [apply zulu_nil in Zn; discriminate | reflexivity].
Qed.

Theorem zulu_parse_datetime_form s : parse_datetime_form (zulu s) = parse_datetime_form s.
Proof.
  rewrite !pdf_split.
  rewrite zulu_take_digits. destruct (take_digits adigit 4 s 0) as [[y s1]|]; cbn [option_map obind zmap fst snd]; [|reflexivity].
  rewrite zulu_expect by reflexivity. destruct (expect C_DASH s1) as [s2|]; cbn [option_map obind]; [|reflexivity].
  rewrite zulu_take_digits. destruct (take_digits adigit 2 s2 0) as [[mo s3]|]; cbn [option_map obind zmap fst snd]; [|reflexivity].
  rewrite zulu_expect by reflexivity. destruct (expect C_DASH s3) as [s4|]; cbn [option_map obind]; [|reflexivity].
  rewrite zulu_take_digits. destruct (take_digits adigit 2 s4 0) as [[d s5]|]; cbn [option_map obind zmap fst snd]; [|reflexivity].
  rewrite zulu_expect by reflexivity. destruct (expect C_T s5) as [s6|]; cbn [option_map obind]; [|reflexivity].
  rewrite zulu_take_digits. destruct (take_digits adigit 2 s6 0) as [[h s7]|]; cbn [option_map obind zmap fst snd]; [|reflexivity].
  rewrite zulu_expect by reflexivity. destruct (expect C_COLON s7) as [s8|]; cbn [option_map obind]; [|reflexivity].
  rewrite zulu_take_digits. destruct (take_digits adigit 2 s8 0) as [[mi s9]|]; cbn [option_map obind zmap fst snd]; [|reflexivity].
  rewrite zulu_expect by reflexivity. destruct (expect C_COLON s9) as [s10|]; cbn [option_map obind]; [|reflexivity].
  rewrite zulu_take_digits. destruct (take_digits adigit 2 s10 0) as [[sec s11]|]; cbn [option_map obind zmap fst snd]; [|reflexivity].
  unfold pdf_tail. rewrite zulu_pdf_frac. destruct (pdf_frac s11) as [[us s12]|]; cbn [option_map obind zmap fst snd]; [|reflexivity].
  apply zulu_pdf_zone.
Qed.

(* ---- B.  whatever parse_datetime_form reads is matched by _R_DATETIME *)
Lemma adigit_isd c d : adigit c = Some d -> isd c = true.
Proof.
  unfold adigit, isd, is_digit. destruct ((48 <=? c)%N && (c <=? 57)%N) eqn:E; [|discriminate]. intros _.
  apply andb_true_iff in E. destruct E as [E1 E2].
  assert (L : (c < 128)%N) by (apply N.leb_le in E2; lia).
  replace (c <? 128)%N with true by (symmetry; apply N.ltb_lt; exact L). reflexivity.
Qed.

Lemma take_digits_a : forall n s acc v r, take_digits adigit n s acc = Some (v, r) -> take_p isd n s = Some r.
Proof.
  induction n as [|n IH]; intros s acc v r H.
  - cbn in H. inversion H. reflexivity.
  - destruct s as [|c t]; [discriminate|]. cbn [take_digits] in H. cbn [take_p].
    destruct (adigit c) as [d|] eqn:A; [|discriminate]. rewrite (adigit_isd c d A). eapply IH. exact H.
Qed.

Lemma pdf_zone_some f r x : pdf_zone f r = Some x ->
  zone_len r <> None /\ match r with y :: _ => isd y = false | [] => True end.
Proof.
  destruct r as [|c [|c2 t2]]; [discriminate | |].
  - cbn [pdf_zone]. destruct (c =? C_Z)%N eqn:E; [|discriminate]. intros _. apply N.eqb_eq in E. subst c.
    split; [discriminate | reflexivity].
  - unfold pdf_zone, zone_len. destruct ((c =? C_PLUS)%N || (c =? C_DASH)%N) eqn:E; [|discriminate].
    assert (CZ : (c =? C_Z)%N = false /\ isd c = false).
    { apply orb_true_iff in E. destruct E as [E|E]; apply N.eqb_eq in E; subst c; split; reflexivity. }
    destruct CZ as [-> ND]. unfold obind.
    destruct (take_digits adigit 2 (c2 :: t2) 0) as [[oh t3]|] eqn:T1; [|discriminate]. rewrite (take_digits_a _ _ _ _ _ T1).
    destruct (expect C_COLON t3) as [t4|]; [|discriminate].
    destruct (take_digits adigit 2 t4 0) as [[om t5]|] eqn:T2; [|discriminate]. rewrite (take_digits_a _ _ _ _ _ T2).
    destruct t5; [|discriminate]. intros _. split; [discriminate | exact ND].
Qed.

Lemma frac_digits_span : forall n t acc cnt v cnt' r, frac_digits n t acc cnt = (v, cnt', r) ->
  match r with y :: _ => isd y = false | [] => True end ->
  exists k, cnt' = (cnt + Z.of_nat k)%Z /\ Nat.min n (fst (span isd t)) = k /\ r = skipn k t.
Proof.
  induction n as [|n IH]; intros t acc cnt v cnt' r H ND.
  - cbn in H. inversion H; subst. exists 0. repeat split. lia.
  - destruct t as [|y t'].
    + cbn in H. inversion H; subst. exists 0. repeat split. lia.
    + cbn [frac_digits] in H. destruct (adigit y) as [d|] eqn:A.
      * destruct (IH _ _ _ _ _ _ H ND) as (k & K1 & K2 & K3). exists (S k). cbn [span]. rewrite (adigit_isd y d A).
        destruct (span isd t') as [m q]. cbn [fst] in *. repeat split; [lia | cbn [Nat.min]; rewrite K2; reflexivity | exact K3].
      * inversion H; subst. cbn [span]. rewrite ND. exists 0. repeat split. lia.
Qed.

Lemma pdf_tail_some y mo d h mi sec s x : pdf_tail y mo d h mi sec s = Some x -> frac_zone_len s <> None.
Proof.
  unfold pdf_tail, obind. destruct (pdf_frac s) as [[us r]|] eqn:F; [|discriminate]. intros Z.
  destruct (pdf_zone_some _ _ _ Z) as [ZL ND]. unfold pdf_frac in F. unfold frac_zone_len.
  destruct s as [|c t]; [discriminate|]. destruct (c =? C_DOT)%N.
  - destruct (frac_digits 6 t 0 0) as [[v cnt] r'] eqn:FD. destruct (cnt =? 0)%Z eqn:C0; [discriminate|].
    inversion F; subst r'. destruct (frac_digits_span _ _ _ _ _ _ _ FD ND) as (k & K1 & K2 & K3).
    rewrite K2. apply Z.eqb_neq in C0. destruct k as [|k]; [lia|]. cbn [Nat.leb]. rewrite <- K3.
    destruct (zone_len r); [discriminate | congruence].
  - inversion F; subst. exact ZL.
Qed.

Theorem datetime_form_matches s x : parse_datetime_form s = Some x -> datetime_rx_len s <> None.
Proof.
  rewrite pdf_split. unfold datetime_rx_len, obind.
  destruct (take_digits adigit 4 s 0) as [[y s1]|] eqn:T1; [|discriminate]. rewrite (take_digits_a _ _ _ _ _ T1).
  destruct (expect C_DASH s1) as [s2|]; [|discriminate].
  destruct (take_digits adigit 2 s2 0) as [[mo s3]|] eqn:T2; [|discriminate]. rewrite (take_digits_a _ _ _ _ _ T2).
  destruct (expect C_DASH s3) as [s4|]; [|discriminate].
  destruct (take_digits adigit 2 s4 0) as [[d s5]|] eqn:T3; [|discriminate]. rewrite (take_digits_a _ _ _ _ _ T3).
  destruct (expect C_T s5) as [s6|]; [|discriminate].
  destruct (take_digits adigit 2 s6 0) as [[h s7]|] eqn:T4; [|discriminate]. rewrite (take_digits_a _ _ _ _ _ T4).
  destruct (expect C_COLON s7) as [s8|]; [|discriminate].
  destruct (take_digits adigit 2 s8 0) as [[mi s9]|] eqn:T5; [|discriminate]. rewrite (take_digits_a _ _ _ _ _ T5).
  destruct (expect C_COLON s9) as [s10|]; [|discriminate].
  destruct (take_digits adigit 2 s10 0) as [[sec s11]|] eqn:T6; [|discriminate]. rewrite (take_digits_a _ _ _ _ _ T6).
  intros H. apply pdf_tail_some in H. destruct (frac_zone_len s11); [discriminate | congruence].
Qed.

(* ---- the statement-by-statement regex version of value_parse_datetime IS the direct function, for EVERY string:
        never out of fuel, never an uncaught exception, same value *)
Theorem iso_parse_rx_is_iso_parse (off_utc : Z -> Z) s : iso_parse_rx off_utc s = DOk (iso_parse off_utc s).
Proof.
  destruct (re_match UC R_DATE s) as [|e c|] eqn:RD.
  - destruct (iso_parse_rx_other_branch off_utc s RD) as [PD ->]. unfold iso_parse. rewrite PD.
    rewrite datetime_regex_answer. destruct (datetime_rx_len s) as [e|] eqn:DL.
    + rewrite zulu_sub_answer, zulu_parse_datetime_form. destruct (parse_datetime_form s) as [[f o]|]; reflexivity.
    + destruct (parse_datetime_form s) as [x|] eqn:P; [|reflexivity].
      exfalso. exact (datetime_form_matches s x P DL).
  - apply iso_parse_rx_date_branch. rewrite RD. discriminate.
  - exfalso. rewrite date_regex_answer in RD. destruct (date_rx_shape s); discriminate.
Qed.

(* ================================================================== 5.  the two regexes of value_string (datetime branch) *)
(* ---- _R_DATETIME_MICROSECOND = \.(\d{6})  under re.search: the FIRST '.' that is followed by six \d characters *)
Definition six_digits (t : str) : bool := match take_p isd 6 t with Some _ => true | None => false end.

Fixpoint us_find (pos : nat) (rest : str) : option nat :=
  match rest with
  | [] => None
  | y :: t => if (y =? C_DOT)%N && six_digits t then Some pos else us_find (S pos) t
  end.

Lemma ev_us pos rest :
  ev UC R_DATETIME_MICROSECOND pos rest [] kfin =
  match rest with
  | y :: t => if (y =? C_DOT)%N && six_digits t then MYes (7 + pos) [(1%nat, (S pos, 7 + pos))] else MNo
  | [] => MNo
  end.
Proof.
  change R_DATETIME_MICROSECOND with (RCat (RLit 46) (RGroup 1 (RRep 6 (Some 6) rD))).
  rewrite ev_cat, (ev_one UC _ _ (one_lit UC 46)). destruct rest as [|y t]; [reflexivity|]. change C_DOT with 46%N.
  destruct (y =? 46)%N; [|reflexivity]. rewrite ev_group, (ev_exact _ _ one_D). unfold six_digits.
  destruct (take_p isd 6 t); reflexivity.
Qed.

Lemma search_us whole : forall rest f pos, length rest < f -> length rest <= length whole ->
  re_search_from UC R_DATETIME_MICROSECOND whole f pos rest =
  match us_find pos rest with
  | Some b => MYes (7 + b) [(0%nat, (b, 7 + b)); (1%nat, (S b, 7 + b))]
  | None => MNo
  end.
Proof.
  induction rest as [|y t IH]; intros f pos Lf Lw; (destruct f as [|f]; [lia|]); cbn [re_search_from];
    rewrite m_at_ev by exact Lw; rewrite ev_us.
  - reflexivity.
  - cbn [us_find]. destruct ((y =? C_DOT)%N && six_digits t); [reflexivity|].
    cbn [length] in Lf, Lw. destruct f as [|f']; [lia|]. apply IH; lia.
Qed.

(* the engine's full answer: where the match is (group 0) and the six digits (group 1) *)
Theorem microsecond_search_answer s :
  re_search UC R_DATETIME_MICROSECOND s =
  match us_find 0 s with
  | Some b => MYes (7 + b) [(0%nat, (b, 7 + b)); (1%nat, (S b, 7 + b))]
  | None => MNo
  end.
Proof. unfold re_search. apply search_us; lia. Qed.

(* ---- _R_DATETIME_TZ_CLEANUP = ([+-]\d\d:\d\d):\d\d$  under .sub(r'\1', text) *)
Definition sgn (y : N) : bool := ((y =? C_PLUS) || (y =? C_DASH))%N.

(* the text from here on is  [+-]dd:dd:dd  followed by nothing or one newline *)
Definition tz_at (r : str) : bool :=
  match (do r <- take_p sgn 1 r; do r <- take_p isd 2 r; do r <- expect C_COLON r; do r <- take_p isd 2 r;
         do r <- expect C_COLON r; take_p isd 2 r) with
  | Some tl => eol_ok tl
  | None => false
  end.

Fixpoint tz_cleanup (s : str) : str :=
  match s with
  | [] => []
  | y :: t => if tz_at s then firstn 6 s ++ skipn 9 s else y :: tz_cleanup t
  end.

Lemma ev_one1 a p : one UC a p -> forall pos rest c k,
  ev UC a pos rest c k = match take_p p 1 rest with Some t => k (S pos) t c | None => MNo end.
Proof. intros O pos rest c k. rewrite O. destruct rest as [|y t]; [reflexivity|]. cbn [take_p]. destruct (p y); reflexivity. Qed.

Lemma ev_DD pos rest c k :
  ev UC (RCat rD rD) pos rest c k = match take_p isd 2 rest with Some r => k (2 + pos) r c | None => MNo end.
Proof.
  rewrite ev_cat, (ev_one UC _ _ one_D). destruct rest as [|y t]; [reflexivity|]. cbn [take_p]. destruct (isd y); [|reflexivity].
  rewrite (ev_one UC _ _ one_D). destruct t as [|z t]; [reflexivity|]. destruct (isd z); reflexivity.
Qed.

Lemma ev_DD_cat X pos rest c k :
  ev UC (RCat rD (RCat rD X)) pos rest c k = match take_p isd 2 rest with Some r => ev UC X (2 + pos) r c k | None => MNo end.
Proof.
  rewrite ev_cat, (ev_one UC _ _ one_D). destruct rest as [|y t]; [reflexivity|]. cbn [take_p]. destruct (isd y); [|reflexivity].
  rewrite ev_cat, (ev_one UC _ _ one_D). destruct t as [|z t]; [reflexivity|]. destruct (isd z); reflexivity.
Qed.

Lemma tz_cleanup_regex_shape : R_DATETIME_TZ_CLEANUP =
  RCat (RGroup 1 (RCat rSG (RCat rD (RCat rD (RCat (RLit 58) (RCat rD rD)))))) (RCat (RLit 58) (RCat rD (RCat rD REol))).
Proof. reflexivity. Qed.

Lemma ev_tz pos rest :
  ev UC R_DATETIME_TZ_CLEANUP pos rest [] kfin = if tz_at rest then MYes (9 + pos) [(1%nat, (pos, 6 + pos))] else MNo.
Proof.
  rewrite tz_cleanup_regex_shape. unfold tz_at, obind.
  rewrite ev_cat, ev_group, ev_cat, (ev_one1 _ _ one_SG). fold sgn. destruct (take_p sgn 1 rest) as [r1|]; [|reflexivity].
  rewrite ev_DD_cat. destruct (take_p isd 2 r1) as [r2|]; [|reflexivity].
  rewrite ev_cat, ev_litx. change 58%N with C_COLON. destruct (expect C_COLON r2) as [r3|]; [|reflexivity].
  rewrite ev_DD. destruct (take_p isd 2 r3) as [r4|]; [|reflexivity].
  rewrite ev_cat, ev_litx. change 58%N with C_COLON. destruct (expect C_COLON r4) as [r5|]; [|reflexivity].
  rewrite ev_DD_cat. destruct (take_p isd 2 r5) as [r6|]; [|reflexivity].
  rewrite ev_eol_fin. destruct (eol_ok r6); reflexivity.
Qed.

Lemma take_p_skipn p : forall n s r, take_p p n s = Some r -> r = skipn n s.
Proof.
  induction n as [|n IH]; intros s r H; [inversion H; reflexivity|].
  destruct s as [|c t]; [discriminate|]. cbn [take_p] in H. destruct (p c); [|discriminate]. cbn [skipn]. apply IH. exact H.
Qed.

(* after a match the rest of the text is empty or one newline: nothing more to replace *)
Lemma tz_at_tail r : tz_at r = true -> eol_ok (skipn 9 r) = true.
Proof.
  unfold tz_at, obind.
  destruct (take_p sgn 1 r) as [r1|] eqn:E1; [|discriminate]. apply take_p_skipn in E1.
  destruct (take_p isd 2 r1) as [r2|] eqn:E2; [|discriminate]. apply take_p_skipn in E2.
  destruct (expect C_COLON r2) as [r3|] eqn:E3; [|discriminate]. apply expect_skip in E3.
  destruct (take_p isd 2 r3) as [r4|] eqn:E4; [|discriminate]. apply take_p_skipn in E4.
  destruct (expect C_COLON r4) as [r5|] eqn:E5; [|discriminate]. apply expect_skip in E5.
  destruct (take_p isd 2 r5) as [r6|] eqn:E6; [|discriminate]. apply take_p_skipn in E6.
  intros H. replace (skipn 9 r) with r6; [exact H|].
  rewrite E6, E5, E4, E3, E2, E1, !skipn_skipn. reflexivity.
Qed.

Lemma tz_cleanup_eol t : eol_ok t = true -> tz_cleanup t = t.
Proof.
  destruct t as [|c [|z t]]; [reflexivity | | discriminate]. cbn [eol_ok]. intros H. apply N.eqb_eq in H. subst c. reflexivity.
Qed.

Lemma sub_tz whole : forall f rest pos, length rest < f -> rest = skipn pos whole ->
  re_sub_from UC R_DATETIME_TZ_CLEANUP (fun c => gtext whole c 1) whole f pos rest = Some (tz_cleanup rest).
Proof.
  induction f as [|f IH]; intros rest pos Lf Hr; [lia|].
  assert (Lw : length rest <= length whole) by (subst rest; rewrite skipn_length; lia).
  cbn [re_sub_from]. rewrite m_at_ev by exact Lw. rewrite ev_tz.
  destruct rest as [|y t]; [reflexivity|]. cbn [tz_cleanup]. cbn [length] in Lf.
  pose proof (skipn_cons_nth whole pos y t (eq_sym Hr)) as [_ Ht].
  destruct (tz_at (y :: t)) eqn:E.
  - assert (Hlt : Nat.ltb pos (9 + pos) = true) by (apply Nat.ltb_lt; lia). rewrite Hlt.
    replace (9 + pos - pos) with 9 by lia.
    rewrite IH; [| rewrite skipn_length; cbn [length]; lia | rewrite Hr, skipn_skipn; f_equal; lia].
    cbn [option_map]. f_equal. rewrite (tz_cleanup_eol _ (tz_at_tail _ E)). f_equal.
    unfold gtext, group_text, cap_set. cbn [cap_get Nat.eqb]. unfold sub_list. rewrite <- Hr.
    replace (6 + pos - pos) with 6 by lia. reflexivity.
  - rewrite IH by (try lia; exact Ht). reflexivity.
Qed.

Theorem tz_cleanup_sub_answer s :
  re_sub UC R_DATETIME_TZ_CLEANUP (fun whole c => gtext whole c 1) s = Some (tz_cleanup s).
Proof. unfold re_sub. apply sub_tz; [lia | reflexivity]. Qed.

(* ---- value_string's two regex statements together, for EVERY text: never out of fuel, never an exception *)
Lemma us_find_some : forall rest pos b, us_find pos rest = Some b ->
  pos <= b /\ six_digits (skipn (S (b - pos)) rest) = true.
Proof.
  induction rest as [|y t IH]; intros pos b H; [discriminate|]. cbn [us_find] in H.
  destruct ((y =? C_DOT)%N && six_digits t) eqn:E.
  - inversion H; subst b. apply andb_true_iff in E. rewrite Nat.sub_diag. cbn [skipn]. split; [lia | apply E].
  - destruct (IH _ _ H) as [L S6]. split; [lia|]. replace (S (b - pos)) with (S (S (b - S pos))) by lia. exact S6.
Qed.

Lemma six_digits_int t : six_digits t = true -> exists v, py_int_digits (firstn 6 t) 0 = Some v.
Proof.
  unfold six_digits. intros H. pose proof (take_digits_u 6 t 0) as T. destruct (take_p isd 6 t); [|discriminate].
  destruct T as (v & _ & P & _). eauto.
Qed.

(* `.ffffff` -> `.mmm` at the first '.' followed by six digits *)
Definition us_to_ms (iso : str) : str :=
  match us_find 0 iso with
  | Some b =>
    match py_int_digits (firstn 6 (skipn (S b) iso)) 0 with
    | Some v => firstn b iso ++ [C_DOT] ++ pad3 (v / 1000) ++ skipn (7 + b) iso
    | None => iso
    end
  | None => iso
  end.

Theorem value_string_tail_answer iso : value_string_tail iso = DOk (tz_cleanup (us_to_ms iso)).
Proof.
  unfold value_string_tail, us_to_ms. rewrite microsecond_search_answer.
  destruct (us_find 0 iso) as [b|] eqn:F.
  - cbn [cap_get Nat.eqb]. unfold sub_list. replace (7 + b - S b) with 6 by lia.
    destruct (us_find_some _ _ _ F) as [_ S6]. rewrite Nat.sub_0_r in S6.
    destruct (six_digits_int _ S6) as [v ->]. cbn [dbind]. rewrite tz_cleanup_sub_answer. reflexivity.
  - cbn [dbind]. rewrite tz_cleanup_sub_answer. reflexivity.
Qed.

(* ================================================================== 6.  iso_format_rx = iso_format *)
(* the two rewrites of value_string applied to the text isoformat() produces give datetime_text *)
From BS Require Import Proofs.C16.
Local Open Scope Z_scope.

Definition dig (c : N) : bool := ((48 <=? c) && (c <=? 57))%N.

Lemma dig_range c : dig c = true -> (48 <= c <= 57)%N.
Proof. unfold dig. intros H. apply andb_true_iff in H. destruct H as [H1 H2]. apply N.leb_le in H1. apply N.leb_le in H2. lia. Qed.
Lemma dig_dchar k : 0 <= k <= 9 -> dig (dchar k) = true.
Proof. intros H. unfold dig, dchar. apply andb_true_iff. split; apply N.leb_le; lia. Qed.
Lemma dig_isd c : dig c = true -> isd c = true.
Proof.
  intros H. pose proof (dig_range c H) as R. unfold isd, is_digit.
  replace (c <? 128)%N with true by (symmetry; apply N.ltb_lt; lia). exact H.
Qed.
Lemma dig_nosgn c : dig c = true -> sgn c = false.
Proof.
  intros H. apply dig_range in H. unfold sgn. apply orb_false_iff. split; apply N.eqb_neq; unfold C_PLUS, C_DASH; lia.
Qed.
Lemma dig_nodot c : dig c = true -> (c =? C_DOT)%N = false.
Proof. intros H. apply dig_range in H. apply N.eqb_neq. unfold C_DOT. lia. Qed.

Lemma us_find_nodot y t pos : (y =? C_DOT)%N = false -> us_find pos (y :: t) = us_find (S pos) t.
Proof. intros H. cbn [us_find]. rewrite H. reflexivity. Qed.

Lemma us_find_hit pos u1 u2 u3 u4 u5 u6 r :
  isd u1 = true -> isd u2 = true -> isd u3 = true -> isd u4 = true -> isd u5 = true -> isd u6 = true ->
  us_find pos (C_DOT :: u1 :: u2 :: u3 :: u4 :: u5 :: u6 :: r) = Some pos.
Proof.
  intros H1 H2 H3 H4 H5 H6. cbn [us_find]. unfold six_digits. cbn [take_p]. rewrite H1, H2, H3, H4, H5, H6. reflexivity.
Qed.

Lemma tz_cleanup_nosign y t : sgn y = false -> tz_cleanup (y :: t) = y :: tz_cleanup t.
Proof. intros H. cbn [tz_cleanup]. unfold tz_at. cbn [take_p]. rewrite H. reflexivity. Qed.

Lemma tz_cleanup_dash a b c r : (c =? C_COLON)%N = false ->
  tz_cleanup (C_DASH :: a :: b :: c :: r) = C_DASH :: tz_cleanup (a :: b :: c :: r).
Proof.
  intros H. cbn [tz_cleanup]. replace (tz_at (C_DASH :: a :: b :: c :: r)) with false; [reflexivity|]. symmetry. unfold tz_at.
  change (take_p sgn 1 (C_DASH :: a :: b :: c :: r)) with (Some (a :: b :: c :: r)). cbn [obind].
  change (take_p isd 2 (a :: b :: c :: r)) with (if isd a then if isd b then Some (c :: r) else None else None).
  destruct (isd a); [|reflexivity]. destruct (isd b); [|reflexivity]. cbn [obind expect]. rewrite H. reflexivity.
Qed.

Lemma take2_isd a b r : isd a = true -> isd b = true -> take_p isd 2 (a :: b :: r) = Some r.
Proof. intros H1 H2. cbn [take_p]. rewrite H1, H2. reflexivity. Qed.
Lemma take1_sgn sg r : sgn sg = true -> take_p sgn 1 (sg :: r) = Some r.
Proof. intros H. cbn [take_p]. rewrite H. reflexivity. Qed.
Lemma expect_colon r : expect C_COLON (C_COLON :: r) = Some r.
Proof. reflexivity. Qed.

Lemma tz_cleanup_off6 sg a b c d :
  isd a = true -> isd b = true -> isd c = true -> isd d = true -> sgn a = false -> sgn b = false -> sgn c = false -> sgn d = false ->
  tz_cleanup [sg; a; b; C_COLON; c; d] = [sg; a; b; C_COLON; c; d].
Proof.
  intros Ia Ib Ic Id Sa Sb Sc Sd.
  assert (E : tz_cleanup [sg; a; b; C_COLON; c; d] = sg :: tz_cleanup [a; b; C_COLON; c; d]).
  { cbn [tz_cleanup]. replace (tz_at [sg; a; b; C_COLON; c; d]) with false; [reflexivity|]. symmetry. unfold tz_at.
    destruct (sgn sg) eqn:Ss; [|cbn [take_p]; rewrite Ss; reflexivity].
    rewrite take1_sgn by exact Ss. cbn [obind]. rewrite take2_isd by assumption. cbn [obind]. rewrite expect_colon. cbn [obind].
    rewrite take2_isd by assumption. reflexivity. }
  rewrite E. rewrite (tz_cleanup_nosign a) by exact Sa. rewrite (tz_cleanup_nosign b) by exact Sb.
  rewrite (tz_cleanup_nosign C_COLON) by reflexivity. rewrite (tz_cleanup_nosign c) by exact Sc.
  rewrite (tz_cleanup_nosign d) by exact Sd. reflexivity.
Qed.

Lemma tz_cleanup_off9 sg a b c d e g : sgn sg = true ->
  isd a = true -> isd b = true -> isd c = true -> isd d = true -> isd e = true -> isd g = true ->
  tz_cleanup [sg; a; b; C_COLON; c; d; C_COLON; e; g] = [sg; a; b; C_COLON; c; d].
Proof.
  intros Ss Ia Ib Ic Id Ie Ig. cbn [tz_cleanup].
  replace (tz_at [sg; a; b; C_COLON; c; d; C_COLON; e; g]) with true; [reflexivity|]. symmetry. unfold tz_at.
  rewrite take1_sgn by exact Ss. cbn [obind]. rewrite take2_isd by assumption. cbn [obind]. rewrite expect_colon. cbn [obind].
  rewrite take2_isd by assumption. cbn [obind]. rewrite expect_colon. cbn [obind]. rewrite take2_isd by assumption. reflexivity.
Qed.

Lemma int_pad6 v : 0 <= v < 1000000 -> py_int_digits (pad6 v) 0 = Some v.
Proof.
  intros H. unfold pad6. cbn [py_int_digits].
  rewrite (udigit_dchar (v / 100000)) by (dm; lia). rewrite (udigit_dchar (v / 10000 mod 10)) by (dm; lia).
  rewrite (udigit_dchar (v / 1000 mod 10)) by (dm; lia). rewrite (udigit_dchar (v / 100 mod 10)) by (dm; lia).
  rewrite (udigit_dchar (v / 10 mod 10)) by (dm; lia). rewrite (udigit_dchar (v mod 10)) by (dm; lia).
  f_equal. dm. lia.
Qed.

Ltac dgt := first [ reflexivity | apply dig_nosgn; assumption | apply dig_nodot; assumption | apply dig_isd; assumption ].

(* the text over abstract characters: fourteen digits of date and time, an optional six-digit fraction, the offset with
   optional seconds *)
Lemma vst_abstract Y1 Y2 Y3 Y4 M1 M2 D1 D2 h1 h2 mi1 mi2 s1 s2 u1 u2 u3 u4 u5 u6 k1 k2 k3 SG oh1 oh2 om1 om2 os1 os2 v
  (hasfrac hassec : bool) :
  forallb dig [Y1; Y2; Y3; Y4; M1; M2; D1; D2; h1; h2; mi1; mi2; s1; s2; u1; u2; u3; u4; u5; u6; k1; k2; k3;
               oh1; oh2; om1; om2; os1; os2] = true ->
  sgn SG = true -> py_int_digits [u1; u2; u3; u4; u5; u6] 0 = Some v -> pad3 (v / 1000) = [k1; k2; k3] ->
  value_string_tail
    ([Y1; Y2; Y3; Y4; C_DASH; M1; M2; C_DASH; D1; D2; C_T; h1; h2; C_COLON; mi1; mi2; C_COLON; s1; s2]
     ++ (if hasfrac then [C_DOT; u1; u2; u3; u4; u5; u6] else [])
     ++ [SG; oh1; oh2; C_COLON; om1; om2] ++ (if hassec then [C_COLON; os1; os2] else [])) =
  DOk ([Y1; Y2; Y3; Y4; C_DASH; M1; M2; C_DASH; D1; D2; C_T; h1; h2; C_COLON; mi1; mi2; C_COLON; s1; s2]
       ++ (if hasfrac then [C_DOT; k1; k2; k3] else []) ++ [SG; oh1; oh2; C_COLON; om1; om2]).
Proof.
  intros F SS PI P3. cbn [forallb] in F.
  repeat match goal with H : (_ && _)%bool = true |- _ => apply andb_true_iff in H; destruct H end.
  assert (NS : (SG =? C_DOT)%N = false).
  { unfold sgn in SS. apply orb_true_iff in SS. destruct SS as [E|E]; apply N.eqb_eq in E; subst SG; reflexivity. }
  rewrite value_string_tail_answer. f_equal. unfold us_to_ms.
  assert (OFF : forall tl, tl = [] \/ tl = [C_COLON; os1; os2] ->
            us_find 26 ([SG; oh1; oh2; C_COLON; om1; om2] ++ tl) = None /\ us_find 19 ([SG; oh1; oh2; C_COLON; om1; om2] ++ tl) = None).
  { intros tl [-> | ->]; cbn [app]; split; rewrite us_find_nodot by exact NS; repeat (rewrite us_find_nodot by dgt); reflexivity. }
  assert (TZ : tz_cleanup ([SG; oh1; oh2; C_COLON; om1; om2] ++ (if hassec then [C_COLON; os1; os2] else [])) =
               [SG; oh1; oh2; C_COLON; om1; om2]).
  { destruct hassec; cbn [app]; [apply tz_cleanup_off9 | apply tz_cleanup_off6]; first [exact SS | dgt]. }
  destruct hasfrac; cbn [app].
  - repeat (rewrite us_find_nodot by dgt). rewrite us_find_hit by dgt.
    cbn [firstn skipn Nat.add]. rewrite PI, P3. cbn [app].
    repeat first [ rewrite tz_cleanup_nosign by dgt | rewrite tz_cleanup_dash by reflexivity ].
    cbn [app] in TZ. destruct hassec; cbn [app] in *; rewrite TZ; reflexivity.
  - repeat (rewrite us_find_nodot by dgt).
    replace (us_find 19 (SG :: oh1 :: oh2 :: C_COLON :: om1 :: om2 :: (if hassec then [C_COLON; os1; os2] else []))) with (@None nat).
    2:{ symmetry. apply (OFF (if hassec then [C_COLON; os1; os2] else [])). destruct hassec; auto. }
    repeat first [ rewrite tz_cleanup_nosign by dgt | rewrite tz_cleanup_dash by reflexivity ].
    cbn [app] in TZ. destruct hassec; cbn [app] in *; rewrite TZ; reflexivity.
Qed.

Theorem value_string_tail_isoformat f o :
  0 <= f_year f < 10000 -> 0 <= f_month f < 100 -> 0 <= f_day f < 100 -> 0 <= f_hour f < 100 ->
  0 <= f_minute f < 100 -> 0 <= f_second f < 100 -> 0 <= f_us f < 1000000 -> Z.abs o < 360000 ->
  value_string_tail (py_isoformat f o) = DOk (datetime_text f o).
Proof.
  intros Ry Rmo Rd Rh Rmi Rs Rus Ro.
  pose proof (vst_abstract
    (dchar (f_year f / 1000)) (dchar (f_year f / 100 mod 10)) (dchar (f_year f / 10 mod 10)) (dchar (f_year f mod 10))
    (dchar (f_month f / 10)) (dchar (f_month f mod 10)) (dchar (f_day f / 10)) (dchar (f_day f mod 10))
    (dchar (f_hour f / 10)) (dchar (f_hour f mod 10)) (dchar (f_minute f / 10)) (dchar (f_minute f mod 10))
    (dchar (f_second f / 10)) (dchar (f_second f mod 10))
    (dchar (f_us f / 100000)) (dchar (f_us f / 10000 mod 10)) (dchar (f_us f / 1000 mod 10)) (dchar (f_us f / 100 mod 10))
    (dchar (f_us f / 10 mod 10)) (dchar (f_us f mod 10))
    (dchar (f_us f / 1000 / 100)) (dchar (f_us f / 1000 / 10 mod 10)) (dchar (f_us f / 1000 mod 10))
    (if o <? 0 then C_DASH else C_PLUS)
    (dchar (Z.abs o / 3600 / 10)) (dchar (Z.abs o / 3600 mod 10)) (dchar (Z.abs o / 60 mod 60 / 10)) (dchar (Z.abs o / 60 mod 60 mod 10))
    (dchar (Z.abs o mod 60 / 10)) (dchar (Z.abs o mod 60 mod 10))
    (f_us f) (negb (f_us f =? 0)) (negb (Z.abs o mod 60 =? 0))) as H.
  assert (A : 0 <= Z.abs o) by lia.
  lapply H; [clear H; intros H | cbn [forallb]; rewrite !dig_dchar by (dm; lia); reflexivity].
  lapply H; [clear H; intros H | destruct (o <? 0); reflexivity].
  lapply H; [clear H; intros H | exact (int_pad6 (f_us f) Rus)].
  lapply H; [clear H; intros H | reflexivity].
  unfold py_isoformat, datetime_text, date_text, time_text, offset_text, pad4, pad2, pad3, pad6. cbv zeta.
  rewrite <- !app_assoc. cbn [app].
  destruct (f_us f =? 0); destruct (Z.abs o mod 60 =? 0); cbn [negb app] in H |- *; exact H.
Qed.

(* value_string(datetime) run on the regenerated regexes = the direct function, for every value, in every zone whose
   offsets are below 24 h (Python's own bound for a UTC offset) *)
Theorem iso_format_rx_is_iso_format (off_local off_utc : Z -> Z) w :
  (forall u, Z.abs (off_utc u) < 86400) -> iso_format_rx off_local off_utc w = iso_format off_local off_utc w.
Proof.
  intros B. unfold iso_format_rx, iso_format. destruct (astimezone_naive off_local off_utc w) as [[l o]| |] eqn:E; [|reflexivity|reflexivity].
  cbn [dbind fst snd]. unfold astimezone_naive in E.
  destruct (in_range (w - off_local w * US_SEC)); [|discriminate].
  destruct (in_range (w - off_local w * US_SEC + off_utc (w - off_local w * US_SEC) * US_SEC)) eqn:L; [|discriminate].
  inversion E; subst l o. clear E. rewrite in_range_fields in L.
  pose proof L as V. rewrite valid_fields_iff in V. destruct V as [Hy [Hd [Hh [Hmi [Hs Hus]]]]].
  destruct (fields_digit_ranges _ L) as (Ry & Rmo & Rd & Rh & Rmi & Rs & _).
  apply value_string_tail_isoformat; try assumption; try lia. specialize (B (w - off_local w * US_SEC)). lia.
Qed.
