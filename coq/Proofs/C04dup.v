(* Proofs/C04dup.v — parameter binding WITHOUT the "pairwise different names" premise of Proofs/C04.v bind_args_spec:
   when a name occurs more than once in the parameter list (schema-valid; the parser accepts `function f(a, a)`), the
   LAST occurrence wins, exactly as the dict assignment in _script_function overwrites. *)
From Coq Require Import List Arith Lia Bool.
From BS Require Import Model.Base Model.Num Model.Arith Model.ExprParser Model.Script Model.Interp Proofs.InterpEq Proofs.C08 Proofs.C04.

Theorem bind_args_spec_last : forall names n ix last args w acc i p,
  nth_error names i = Some p ->
  ~ In p (skipn (S i) names) ->
  let r := bind_args names n ix last args w acc in
  exists v, env_get p (fst r) = Some v /\ binding_is (snd r) v (expected_binding n last args (ix + i)).
Proof.
  induction names as [|nm rest IH]; intros n ix last args w acc i p Hi Hlater; [destruct i; discriminate|].
  cbn zeta. cbn [bind_args].
  destruct i as [|i].
  - cbn in Hi. injection Hi as ->. replace (ix + 0)%nat with ix by lia.
    assert (Hnotin : ~ In p rest) by exact Hlater.
    assert (Hkeep : forall w' acc' v, env_get p acc' = Some v ->
              env_get p (fst (bind_args rest n (S ix) last args w' acc')) = Some v).
    { clear - Hnotin. revert Hnotin. generalize (S ix). induction rest as [|q rest IHr]; intros k Hnotin w' acc' v Hg; cbn [bind_args]; [exact Hg|].
      assert (Hq : str_eqb p q = false).
      { destruct (str_eqb p q) eqn:E; [|reflexivity]. apply str_eqb_eq in E. subst. exfalso. apply Hnotin. left. reflexivity. }
      assert (Hn' : ~ In p rest) by (intros Hin; apply Hnotin; right; exact Hin).
      destruct (Nat.ltb k (length args)); destruct (last && Nat.eqb k (n - 1))%bool; cbn [alloc_arr];
        apply IHr; try exact Hn'; rewrite env_get_set_other by exact Hq; exact Hg. }
    unfold expected_binding.
    destruct (Nat.ltb ix (length args)) eqn:Hlt; destruct (last && Nat.eqb ix (n - 1))%bool eqn:Hlast; cbn [alloc_arr].
    + eexists. split; [apply Hkeep; apply env_get_set_same|]. cbn [binding_is].
      eexists. split; [reflexivity|]. apply bind_args_heap_ext. cbn [w_arrs upd_arrs].
      rewrite nth_error_app2 by lia. rewrite PeanoNat.Nat.sub_diag. reflexivity.
    + eexists. split; [apply Hkeep; apply env_get_set_same|]. reflexivity.
    + eexists. split; [apply Hkeep; apply env_get_set_same|]. cbn [binding_is].
      eexists. split; [reflexivity|]. apply bind_args_heap_ext. cbn [w_arrs upd_arrs].
      rewrite nth_error_app2 by lia. rewrite PeanoNat.Nat.sub_diag.
      apply PeanoNat.Nat.ltb_ge in Hlt. rewrite skipn_all2 by exact Hlt. reflexivity.
    + eexists. split; [apply Hkeep; apply env_get_set_same|]. cbn [binding_is].
      apply PeanoNat.Nat.ltb_ge in Hlt. rewrite nth_overflow by exact Hlt. reflexivity.
  - cbn in Hi. replace (ix + S i)%nat with (S ix + i)%nat by lia.
    assert (Hl' : ~ In p (skipn (S i) rest)) by exact Hlater.
    destruct (Nat.ltb ix (length args)); destruct (last && Nat.eqb ix (n - 1))%bool; cbn [alloc_arr];
      apply (IH n (S ix) last args _ _ i p Hi Hl').
Qed.

(* an earlier occurrence of a repeated name is shadowed: the parameter holds what its LAST position receives *)
Example duplicate_parameter_last_wins :
  env_get (U "a") (fst (bind_args [U "a"; U "b"; U "a"] 3 0 false [VBool true; VNull; VBool false] (Build_world [] [] [] [] [] 0 []) [])) = Some (VBool false).
Proof. vm_compute. reflexivity. Qed.
