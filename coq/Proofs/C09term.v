(* Proofs/C09term.v — "so no script can run forever": under a positive statement limit the recursion of the interpreter
   model always bottoms out in a leaf, never in its fuel.

   SHAPE OF THE STATEMENT.  `exists fuel, fst (execute_script ... fuel sc w) <> OFuel` is FALSE (see cyc_always_fuel at the end
   of this file): relop / systemCompare / mathMax report the exhaustion of vcompare's OWN fuel (a cyclic or dangling heap) as
   OFuel / LFuel, for every interpreter fuel.  What is proved instead is independence of the fuel AND of the answer the tower
   gives at depth 0: the tower eval/call/exec is re-defined with its depth-0 answer as a parameter `bot` (evalB/callB/execB;
   with bot = OFuel it IS the model's tower, by reflexivity), and

       exists fuel r, forall bot fuel', fuel <= fuel' -> execute_script_bot bot fuel' sc w = r.

   A run whose recursion reaches depth 0 answers with `bot` there, so an answer that is the same for every `bot` was computed
   without ever consulting the depth-0 case: the run terminated.  (Plain "the answer settles" would be satisfied by a loop that
   answers OFuel for every fuel; this form is not.)

   The proof is generic in a family of towers (index i : I, fuel f) that satisfy the three one-step equations; nothing is
   assumed about their depth-0 case.  Measure: statements left in the budget (c_max - w_count), then the expression
   structure, then the rank of the library function. *)
From Coq Require Import Lia ZArith.
From BS Require Import Model.Base Model.Num Model.Arith Model.ExprParser Model.Script Model.Interp Proofs.InterpEq Proofs.C09.
Local Open Scope Z_scope.

(* ---- a family of runs (index i, fuel f) settles to r: from some fuel on, every member answers r ---- *)
Definition St {I A : Type} (run : I -> nat -> A) (r : A) : Prop :=
  exists f0 : nat, forall i f, (f0 <= f)%nat -> run i f = r.

(* ... and the statement counter of the answer is at least c0 *)
Definition T {I X : Type} (c0 : Z) (run : I -> nat -> X * world) : Prop :=
  exists r, St run r /\ c0 <= w_count (snd r).

Section Combinators.
Variable I : Type.

Lemma T_const {X} c0 (r : X * world) : c0 <= w_count (snd r) -> T c0 (fun (_ : I) (_ : nat) => r).
Proof. intros H. exists r. split; [exists O; reflexivity|exact H]. Qed.

Lemma T_weaken {X} c0 c1 (run : I -> nat -> X * world) : T c1 run -> c0 <= c1 -> T c0 run.
Proof. intros (r & S & M) H. exists r. split; [exact S|lia]. Qed.

Lemma T_ext {X} c0 (run g : I -> nat -> X * world) : (forall i f, run i f = g i f) -> T c0 g -> T c0 run.
Proof. intros E (r & (f0 & S) & M). exists r. split; [|exact M]. exists f0. intros i f Hf. rewrite E. apply S. exact Hf. Qed.

Lemma T_step {X} c0 (run g : I -> nat -> X * world) : (forall i f, run i (S f) = g i f) -> T c0 g -> T c0 run.
Proof.
  intros E (r & (f0 & S) & M). exists r. split; [|exact M]. exists (Datatypes.S f0). intros i [|f] Hf; [lia|].
  rewrite E. apply S. lia.
Qed.

(* sequencing: once the first run has settled to r1, the rest is a family h that no longer mentions it *)
Lemma T_bind {X Y} c1 c0 (run1 : I -> nat -> X * world) (g : I -> nat -> Y * world) :
  T c1 run1 ->
  (forall r1, c1 <= w_count (snd r1) -> exists h, (forall i f, run1 i f = r1 -> g i f = h i f) /\ T c0 h) ->
  T c0 g.
Proof.
  intros (r1 & (f1 & S1) & M1) H. destruct (H r1 M1) as (h & Hh & (r & (f2 & S2) & M2)).
  exists r. split; [|exact M2]. exists (Nat.max f1 f2). intros i f Hf. rewrite (Hh i f); [apply S2; lia|apply S1; lia].
Qed.
End Combinators.

(* induction principle of expr with the nested call-argument case *)
Section ExprInd.
  Variable P : expr -> Prop.
  Hypothesis Hnum : forall x, P (ENum x).
  Hypothesis Hstr : forall s, P (EStr s).
  Hypothesis Hvar : forall n, P (EVar n).
  Hypothesis Hcall : forall n args, (forall a, In a args -> P a) -> P (ECall n args).
  Hypothesis Hbin : forall o l r, P l -> P r -> P (EBin o l r).
  Hypothesis Hun : forall o e, P e -> P (EUn o e).
  Hypothesis Hgroup : forall e, P e -> P (EGroup e).
  Fixpoint expr_ind_in (t : expr) : P t :=
    match t with
    | ENum x => Hnum x
    | EStr s => Hstr s
    | EVar n => Hvar n
    | ECall n args =>
      Hcall n args ((fix go (l : list expr) : forall a, In a l -> P a :=
                       match l with
                       | [] => fun a H => match H with end
                       | x :: t => fun a H => match H with or_introl E => eq_ind x P (expr_ind_in x) a E | or_intror H' => go t a H' end
                       end) args)
    | EBin o l r => Hbin o l r (expr_ind_in l) (expr_ind_in r)
    | EUn o e => Hun o e (expr_ind_in e)
    | EGroup e => Hgroup e (expr_ind_in e)
    end.
End ExprInd.

Ltac sc := cbn [snd fst w_count add_fetched upd_count upd_globals upd_funs add_log] in *.
Ltac tconst := apply T_const; sc; rewrite ?count_log_if; lia.
(* bind on the sub-run [run1]: first goal = the sub-run settles; second goal = the rest, with the sub-run's answer r in place *)
Ltac bind run1 r M :=
  eapply (T_bind _ _ _ run1);
  [ | intros r M; eexists; split;
      [ let i := fresh "i" in let f := fresh "f" in let E := fresh "E" in
        intros i f E; cbv beta in E |- *; rewrite E; reflexivity
      | cbv beta ] ].

Section Term.
Variable cfg : config.
Variable lib : caller -> str -> list value -> world -> lres * world.
Variable url_rel : str -> str -> str.
Variable lint_lines : script -> list str.

(* PREMISE on the library (1): handed callbacks that terminate - settle, for every member of the family, without lowering the
   statement counter - on every call started with at least c statements counted, a library function called with at least c
   statements counted terminates likewise.  (The bound c is there because the library only ever runs callbacks later in the
   run, i.e. with at least as many statements counted.) *)
Definition lib_terminates : Prop :=
  forall (J : Type) (c : Z) (cb : J -> nat -> caller),
    (forall fv a w, c <= w_count w -> T (w_count w) (fun j f => cb j f fv a w)) ->
    forall name args w, c <= w_count w -> T (w_count w) (fun j f => lib (cb j f) name args w).

(* PREMISE on the library (2): library functions have ranks, and a library function's answer depends on its callback only
   at script functions, non-functions and library functions of LOWER rank (it never calls back a library function of its own
   or a higher rank).  Without it a library function could recurse into itself through its callback without starting a
   statement, which the statement budget cannot see. *)
Definition below (rank : str -> nat) (k : nat) (fv : value) : Prop :=
  match fv with VFun (FLib nm) => (rank nm < k)%nat | _ => True end.
Definition lib_ranked (rank : str -> nat) : Prop :=
  forall name (cb cb' : caller), (forall fv a w, below rank (rank name) fv -> cb fv a w = cb' fv a w) ->
  forall args w, lib cb name args w = lib cb' name args w.

Hypothesis Hpos : 0 < c_max cfg.
Hypothesis Hterm : lib_terminates.
Variable rank : str -> nat.
Hypothesis Hrank : lib_ranked rank.

(* ---- a family of towers: only the one-step equations are assumed, nothing about depth 0 ---- *)
Variable I : Type.
Variable ev : I -> nat -> evalT.
Variable cl : I -> nat -> callT.
Variable ex : I -> nat -> execT.
Hypothesis ev_S : forall i f e loc bi um w, ev i (S f) e loc bi um w = eval_body cfg (ev i f) (cl i f) e loc bi um w.
Hypothesis cl_S : forall i f fv a um w, cl i (S f) fv a um w = call_body lib (cl i f) (ex i f) fv a um w.
Hypothesis ex_S : forall i f code pc cache loc um w,
  ex i (S f) code pc cache loc um w = exec_body cfg url_rel lint_lines (ev i f) (ex i f) code pc cache loc um w.

(* "terminates whenever started with at least c statements counted" *)
Definition PE (c : Z) (e : expr) : Prop := forall loc bi um w, c <= w_count w -> T (w_count w) (fun i f => ev i f e loc bi um w).
Definition EVc (c : Z) : Prop := forall e, PE c e.
Definition CLc (c : Z) : Prop := forall fv a um w, c <= w_count w -> T (w_count w) (fun i f => cl i f fv a um w).
Definition EXc (c : Z) : Prop := forall code pc cache loc um w, c <= w_count w -> T (w_count w) (fun i f => ex i f code pc cache loc um w).

(* ================= expressions: structural, given that calls terminate ================= *)
Lemma eval_args_T c loc bi um : forall l, (forall a, In a l -> PE c a) ->
  forall w acc, c <= w_count w -> T (w_count w) (fun i f => eval_args (ev i f) loc bi um l w acc).
Proof.
  induction l as [|a t IH]; intros Hl w acc Hc; cbn [eval_args]; [tconst|].
  bind (fun i f => ev i f a loc bi um w) r M; [apply Hl; [left; reflexivity|exact Hc]|].
  destruct r as [o w1]. sc. destruct o; cbv beta iota; try tconst.
  eapply T_weaken; [apply IH; [intros a' Ha; apply Hl; right; exact Ha|lia]|lia].
Qed.

Ltac callcase HCL fv vs um w1 r M :=
  bind (fun i f => cl i f fv vs um w1) r M; [apply HCL; lia|];
  destruct r as [?o ?w]; sc; match goal with |- T _ (fun _ _ => match ?p with _ => _ end) => destruct p end; tconst.

Lemma ev_of_cl c : CLc c -> EVc c.
Proof.
  intros HCL e. induction e as [n|s|x|name args IH|op l r IHl IHr|op e1 IH|e1 IH] using expr_ind_in; intros loc bi um w Hc;
    (eapply T_step; [intros i f; apply ev_S|]); cbn [eval_body]; try tconst.
  - (* ECall *)
    destruct (op_is name "if").
    + cbv zeta.
      assert (Hre : forall w1 v, w_count w <= w_count w1 ->
                T (w_count w) (fun i f => match (if truthy w1 v then nth_error args 1 else nth_error args 2) with
                                          | Some re => ev i f re loc bi um w1 | None => (OVal VNull, w1) end)).
      { intros w1 v Hw. destruct (truthy w1 v);
          (match goal with |- context [nth_error args ?k] => destruct (nth_error args k) as [re|] eqn:E1 end; [|tconst]);
          (eapply T_weaken; [apply IH; [eapply nth_error_In; exact E1|lia]|lia]). }
      destruct (nth_error args 0) as [ve|] eqn:E0.
      * bind (fun i f => ev i f ve loc bi um w) r M; [apply IH; [eapply nth_error_In; exact E0|exact Hc]|].
        destruct r as [o w1]. sc. destruct o; cbv beta iota; try tconst. apply Hre. lia.
      * cbv beta iota. apply Hre. lia.
    + bind (fun i f => eval_args (ev i f) loc bi um args w []) r M; [apply (eval_args_T c); assumption|].
      destruct r as [[o|vs] w1]; sc; cbv beta iota; [tconst|].
      destruct (lookup_fn name loc bi w1) as [fv|]; [|tconst].
      destruct fv as [ |b|n|s|us|l|l|fr|id]; [tconst| | | | | | | | ].
      * callcase HCL (VBool b) vs um w1 r2 M2.
      * callcase HCL (VNum n) vs um w1 r2 M2.
      * callcase HCL (VStr s) vs um w1 r2 M2.
      * callcase HCL (VDate us) vs um w1 r2 M2.
      * callcase HCL (VArr l) vs um w1 r2 M2.
      * callcase HCL (VObj l) vs um w1 r2 M2.
      * callcase HCL (VFun fr) vs um w1 r2 M2.
      * callcase HCL (VRegex id) vs um w1 r2 M2.
  - (* EBin *)
    bind (fun i f => ev i f l loc bi um w) r1 M1; [apply IHl; exact Hc|].
    destruct r1 as [o w1]. sc. destruct o; cbv beta iota; try tconst.
    destruct (op_is op "&&"). { destruct (truthy w1 v); [eapply T_weaken; [apply IHr; lia|lia]|tconst]. }
    destruct (op_is op "||"). { destruct (truthy w1 v); [tconst|eapply T_weaken; [apply IHr; lia|lia]]. }
    bind (fun i f => ev i f r loc bi um w1) r2 M2; [apply IHr; lia|].
    destruct r2 as [o2 w2]. sc. destruct o2; tconst.
  - (* EUn *)
    bind (fun i f => ev i f e1 loc bi um w) r1 M1; [apply IH; exact Hc|].
    destruct r1 as [o w1]. sc. destruct o; tconst.
  - (* EGroup *) apply IH. exact Hc.
Qed.

(* ================= calls: script functions run their body; library functions by rank ================= *)
Lemma cl_nonlib c : EXc c -> forall fv, (forall nm, fv <> VFun (FLib nm)) ->
  forall a um w, c <= w_count w -> T (w_count w) (fun i f => cl i f fv a um w).
Proof.
  intros HEX fv Hfv a um w Hc. eapply T_step; [intros i f; apply cl_S|]. unfold call_body.
  destruct fv as [ |b|n|s|us|l|l|fr|id]; try tconst.
  destruct fr as [name|id]; [exfalso; exact (Hfv name eq_refl)|].
  destruct (nth_error (w_funs w) id) as [fd|]; [|tconst].
  assert (H0 : w_count (snd (match fd_args fd with Some names => bind_args names (length names) 0 (fd_last fd) a w [] | None => ([], w) end)) = w_count w).
  { destruct (fd_args fd); [apply count_bind_args|reflexivity]. }
  destruct (match fd_args fd with Some names => bind_args names (length names) 0 (fd_last fd) a w [] | None => ([], w) end) as [locals w1].
  sc. bind (fun i f => ex i f (fd_body fd) 0%nat [] (Some locals) um w1) r M; [apply HEX; lia|].
  destruct r as [[o l2] w2]. sc. tconst.
Qed.

Lemma cl_lib_of_T name a um w :
  T (w_count w) (fun i f => lib (fun fv' a' w' => cl i f fv' a' um w') name a w) ->
  T (w_count w) (fun i f => cl i f (VFun (FLib name)) a um w).
Proof.
  intros H. eapply T_step; [intros i f; apply cl_S|]. unfold call_body.
  bind (fun i f => lib (fun fv' a' w' => cl i f fv' a' um w') name a w) r M; [exact H|].
  destruct r as [lr w1]. sc. destruct lr; tconst.
Qed.

Lemma lib_T c : EXc c -> forall k name, (rank name < k)%nat ->
  forall a um w, c <= w_count w -> T (w_count w) (fun i f => lib (fun fv' a' w' => cl i f fv' a' um w') name a w).
Proof.
  intros HEX. induction k as [|k IHk]; intros name Hk a um w Hc; [lia|].
  (* the callback, cut off at library functions of rank >= rank name (which [lib ... name] never calls) *)
  pose (cb' := fun (i : I) (f : nat) (fv : value) (a' : list value) (w' : world) =>
                 match fv with
                 | VFun (FLib nm) => if (rank nm <? rank name)%nat then cl i f fv a' um w' else (OExc VNull [], w')
                 | _ => cl i f fv a' um w'
                 end).
  apply (T_ext _ _ _ (fun i f => lib (cb' i f) name a w)).
  { intros i f. apply Hrank. intros fv a' w' Hb. unfold cb'. destruct fv as [ |b|n|s|us|l|l|fr|id]; try reflexivity.
    destruct fr as [nm|id]; [|reflexivity]. cbn [below] in Hb. apply Nat.ltb_lt in Hb. rewrite Hb. reflexivity. }
  apply (Hterm I c cb'); [|exact Hc].
  intros fv a' w' Hc'. unfold cb'.
  destruct fv as [ |b|n|s|us|l|l|fr|id]; try (apply (cl_nonlib c HEX); [intros nm; discriminate|exact Hc']).
  destruct fr as [nm|id]; [|apply (cl_nonlib c HEX); [intros nm; discriminate|exact Hc']].
  destruct (rank nm <? rank name)%nat eqn:Hlt; [|tconst].
  apply cl_lib_of_T. apply IHk; [apply Nat.ltb_lt in Hlt; lia|exact Hc'].
Qed.

Lemma cl_of_ex c : EXc c -> CLc c.
Proof.
  intros HEX fv a um w Hc.
  destruct fv as [ |b|n|s|us|l|l|fr|id]; try (apply (cl_nonlib c HEX); [intros nm; discriminate|exact Hc]).
  destruct fr as [nm|id]; [|apply (cl_nonlib c HEX); [intros nm; discriminate|exact Hc]].
  apply cl_lib_of_T. apply (lib_T c HEX (S (rank nm))); [lia|exact Hc].
Qed.

(* ================= statements: every statement start uses up one unit of the budget ================= *)
Lemma run_incs_T c : EXc c -> forall um l w, c <= w_count w ->
  T (w_count w) (fun i f => run_incs cfg url_rel lint_lines (ex i f) um l w).
Proof.
  intros HEX um. induction l as [|[u sys] t IH]; intros w Hc; cbn [run_incs]; [tconst|].
  set (url := match sys, c_sysprefix cfg with true, Some p => url_rel p u | _, _ => if has_urlfn cfg um then apply_urlfn cfg url_rel um u else u end).
  destruct (c_fetch cfg) as [fetch|]; [|tconst].
  destruct (fetch url) as [txt|]; [|tconst].
  destruct (parse_script [txt] 1) as [sc0|pe|what|]; try tconst.
  set (w2 := if (c_debug cfg && c_haslog cfg)%bool then _ else _).
  assert (H2 : w_count w2 = w_count w).
  { subst w2. destruct (c_debug cfg && c_haslog cfg)%bool; [|reflexivity].
    destruct (lint_lines sc0); [reflexivity|]. rewrite count_fold_log. reflexivity. }
  bind (fun i f => ex i f sc0 0%nat [] None (UBase url) w2) r M; [apply HEX; lia|].
  destruct r as [[o l2] w3]. sc. destruct o; cbv beta iota; try tconst.
  eapply T_weaken; [apply IH; lia|lia].
Qed.

Lemma ex_step c : (c < c_max cfg -> EVc (c + 1) /\ EXc (c + 1)) -> EXc c.
Proof.
  intros Hnext code pc cache loc um w Hc. eapply T_step; [intros i f; apply ex_S|]. unfold exec_body.
  destruct (nth_error code pc) as [st|]; [|tconst]. cbv zeta.
  set (w0 := upd_count w (w_count w + 1)). assert (H0 : w_count w0 = w_count w + 1) by reflexivity.
  destruct ((0 <? c_max cfg) && (c_max cfg <? w_count w0))%bool eqn:Hab; [tconst|].
  assert (Hlt : c < c_max cfg).
  { apply Bool.andb_false_iff in Hab. destruct Hab as [H|H]; apply Z.ltb_ge in H; lia. }
  destruct (Hnext Hlt) as [HEV HEX]. clear Hab Hnext.
  assert (HX : forall code' pc' cache' loc' w1, w_count w0 <= w_count w1 ->
            T (w_count w) (fun i f => ex i f code' pc' cache' loc' um w1)).
  { intros. eapply T_weaken; [apply HEX; lia|lia]. }
  destruct st as [name e|label cond|re|lname|fname fargs fasync flast fbody|incs].
  - (* SExpr *)
    bind (fun i f => ev i f e loc false um w0) r M; [apply HEV; lia|].
    destruct r as [o w1]. sc. destruct o; cbv beta iota; try tconst.
    destruct name as [x|]; [destruct loc as [l|]|]; apply HX; sc; lia.
  - (* SJump *)
    assert (Hj : forall w1, w_count w0 <= w_count w1 -> T (w_count w) (fun i f =>
              match assoc label cache with
              | Some ix => ex i f code (S ix) cache loc um w1
              | None => match find_label label code with
                        | Some ix => ex i f code (S ix) ((label, ix) :: cache) loc um w1
                        | None => (ORt (msg_unknown_label label), loc, w1) end end)).
    { intros w1 Hw. destruct (assoc label cache); [apply HX; exact Hw|]. destruct (find_label label code); [apply HX; exact Hw|tconst]. }
    destruct cond as [c'|]; [|cbv beta iota; apply Hj; lia].
    bind (fun i f => ev i f c' loc false um w0) r M; [apply HEV; lia|].
    destruct r as [o w1]. sc. destruct o; cbv beta iota; try tconst.
    destruct (truthy w1 v); cbv beta iota; [apply Hj; lia|apply HX; lia].
  - (* SReturn *)
    destruct re as [e|]; [|tconst].
    bind (fun i f => ev i f e loc false um w0) r M; [apply HEV; lia|].
    destruct r as [o w1]. sc. tconst.
  - (* SLabel *) apply HX. lia.
  - (* SFunction *) apply HX. sc. lia.
  - (* SInclude *)
    bind (fun i f => run_incs cfg url_rel lint_lines (ex i f) um incs w0) r M; [apply (run_incs_T (c + 1) HEX); lia|].
    destruct r as [[o|] w1]; sc; cbv beta iota; [tconst|apply HX; lia].
Qed.

(* ================= the measure: statements left in the budget ================= *)
Lemma all_T : forall n : nat, EXc (c_max cfg - Z.of_nat n) /\ CLc (c_max cfg - Z.of_nat n) /\ EVc (c_max cfg - Z.of_nat n).
Proof.
  assert (Hall : forall c, EXc c -> EXc c /\ CLc c /\ EVc c).
  { intros c HEX. split; [exact HEX|]. split; [apply cl_of_ex; exact HEX|apply ev_of_cl, cl_of_ex; exact HEX]. }
  induction n as [|n (HX & _ & HE)]; apply Hall, ex_step.
  - intros H. lia.
  - intros _. replace (c_max cfg - Z.of_nat (S n) + 1) with (c_max cfg - Z.of_nat n) by lia. split; assumption.
Qed.

Theorem exec_terminates : forall code pc cache loc um w, T (w_count w) (fun i f => ex i f code pc cache loc um w).
Proof.
  intros. destruct (all_T (Z.to_nat (c_max cfg - w_count w))) as (HX & _ & _). apply HX. lia.
Qed.

Theorem eval_terminates : forall e loc bi um w, T (w_count w) (fun i f => ev i f e loc bi um w).
Proof.
  intros. destruct (all_T (Z.to_nat (c_max cfg - w_count w))) as (_ & _ & HE). apply HE. lia.
Qed.

Theorem call_terminates : forall fv a um w, T (w_count w) (fun i f => cl i f fv a um w).
Proof.
  intros. destruct (all_T (Z.to_nat (c_max cfg - w_count w))) as (_ & HC & _). apply HC. lia.
Qed.

End Term.

(* ================= the tower with its depth-0 answer as a parameter ================= *)
Section Bot.
Variable cfg : config.
Variable lib : caller -> str -> list value -> world -> lres * world.
Variable url_rel : str -> str -> str.
Variable lint_lines : script -> list str.
Variable bot : outcome.

(* a copy of Model/Interp.v eval/call/exec; the only change is [bot] for OFuel in the three depth-0 cases *)
Fixpoint evalB (fuel : nat) : evalT :=
  match fuel with
  | O => fun _ _ _ _ w => (bot, w)
  | S f => fun e loc bi um w =>
    eval_body cfg (fun e' loc' bi' um' w' => evalB f e' loc' bi' um' w') (fun fv' a' um' w' => callB f fv' a' um' w') e loc bi um w
  end
with callB (fuel : nat) : callT :=
  match fuel with
  | O => fun _ _ _ w => (bot, w)
  | S f => fun fv args um w =>
    call_body lib (fun fv' a' um' w' => callB f fv' a' um' w') (fun c' p' k' l' um' w' => execB f c' p' k' l' um' w') fv args um w
  end
with execB (fuel : nat) : execT :=
  match fuel with
  | O => fun _ _ _ loc _ w => (bot, loc, w)
  | S f => fun code pc cache loc um w =>
    exec_body cfg url_rel lint_lines (fun e' loc' bi' um' w' => evalB f e' loc' bi' um' w') (fun c' p' k' l' um' w' => execB f c' p' k' l' um' w')
              code pc cache loc um w
  end.

Definition execute_script_bot (fuel : nat) (sc : script) (w : world) : outcome * world :=
  let w1 := upd_count (upd_globals w (inject_library (w_globals w))) 0 in
  match execB fuel sc 0%nat [] None UHost w1 with
  | (o, _, w2) => (o, w2)
  end.
End Bot.

(* with bot = OFuel it is the model's tower (definitionally) *)
Lemma evalB_OFuel cfg lib url_rel lint_lines : evalB cfg lib url_rel lint_lines OFuel = eval cfg lib url_rel lint_lines.
Proof. reflexivity. Qed.
Lemma callB_OFuel cfg lib url_rel lint_lines : callB cfg lib url_rel lint_lines OFuel = call cfg lib url_rel lint_lines.
Proof. reflexivity. Qed.
Lemma execB_OFuel cfg lib url_rel lint_lines : execB cfg lib url_rel lint_lines OFuel = exec cfg lib url_rel lint_lines.
Proof. reflexivity. Qed.
Lemma execute_script_bot_OFuel cfg lib url_rel lint_lines :
  execute_script_bot cfg lib url_rel lint_lines OFuel = execute_script cfg lib url_rel lint_lines.
Proof. reflexivity. Qed.

Section Main.
Variable cfg : config.
Variable lib : caller -> str -> list value -> world -> lres * world.
Variable url_rel : str -> str -> str.
Variable lint_lines : script -> list str.
Hypothesis Hpos : 0 < c_max cfg.
Hypothesis Hterm : lib_terminates lib.
Variable rank : str -> nat.
Hypothesis Hrank : lib_ranked lib rank.

Notation evalB := (evalB cfg lib url_rel lint_lines).
Notation callB := (callB cfg lib url_rel lint_lines).
Notation execB := (execB cfg lib url_rel lint_lines).

(* every statement run, expression evaluation and function call terminates: from some fuel on the answer is the same
   whatever the fuel and whatever the depth-0 case of the tower answers *)
Theorem exec_terminates_bot : forall code pc cache loc um w,
  exists fuel r, forall bot fuel', (fuel <= fuel')%nat -> execB bot fuel' code pc cache loc um w = r.
Proof.
  intros.
  destruct (exec_terminates cfg lib url_rel lint_lines Hpos Hterm rank Hrank outcome
              (fun b f => evalB b f) (fun b f => callB b f) (fun b f => execB b f)
              (fun _ _ _ _ _ _ _ => eq_refl) (fun _ _ _ _ _ _ => eq_refl) (fun _ _ _ _ _ _ _ _ => eq_refl)
              code pc cache loc um w) as (r & (f0 & S) & _).
  exists f0, r. exact S.
Qed.

Theorem eval_terminates_bot : forall e loc bi um w,
  exists fuel r, forall bot fuel', (fuel <= fuel')%nat -> evalB bot fuel' e loc bi um w = r.
Proof.
  intros.
  destruct (eval_terminates cfg lib url_rel lint_lines Hpos Hterm rank Hrank outcome
              (fun b f => evalB b f) (fun b f => callB b f) (fun b f => execB b f)
              (fun _ _ _ _ _ _ _ => eq_refl) (fun _ _ _ _ _ _ => eq_refl) (fun _ _ _ _ _ _ _ _ => eq_refl)
              e loc bi um w) as (r & (f0 & S) & _).
  exists f0, r. exact S.
Qed.

Theorem call_terminates_bot : forall fv a um w,
  exists fuel r, forall bot fuel', (fuel <= fuel')%nat -> callB bot fuel' fv a um w = r.
Proof.
  intros.
  destruct (call_terminates cfg lib url_rel lint_lines Hpos Hterm rank Hrank outcome
              (fun b f => evalB b f) (fun b f => callB b f) (fun b f => execB b f)
              (fun _ _ _ _ _ _ _ => eq_refl) (fun _ _ _ _ _ _ => eq_refl) (fun _ _ _ _ _ _ _ _ => eq_refl)
              fv a um w) as (r & (f0 & S) & _).
  exists f0, r. exact S.
Qed.

(* THE CLAUSE: under a positive limit every script run terminates *)
Theorem terminates : forall sc w,
  exists fuel r, forall bot fuel', (fuel <= fuel')%nat -> execute_script_bot cfg lib url_rel lint_lines bot fuel' sc w = r.
Proof.
  intros sc w. unfold execute_script_bot. cbv zeta.
  destruct (exec_terminates_bot sc 0%nat [] None UHost (upd_count (upd_globals w (inject_library (w_globals w))) 0)) as (f0 & r & S).
  exists f0, (fst (fst r), snd r). intros bot fuel' Hf. rewrite (S bot fuel' Hf). destruct r as [[o l] w2]. reflexivity.
Qed.

(* the model's own answer (bot = OFuel) is therefore never an answer of the depth-0 case: at enough fuel it is the answer
   of every other tower too *)
Corollary answer_never_from_fuel : forall sc w,
  exists fuel, forall fuel', (fuel <= fuel')%nat -> forall bot,
    execute_script_bot cfg lib url_rel lint_lines bot fuel' sc w = execute_script cfg lib url_rel lint_lines fuel' sc w.
Proof.
  intros sc w. destruct (terminates sc w) as (f0 & r & S). exists f0. intros fuel' Hf bot.
  rewrite <- execute_script_bot_OFuel. rewrite (S bot fuel' Hf), (S OFuel fuel' Hf). reflexivity.
Qed.

(* the weaker, plain form: the answer no longer depends on the fuel *)
Corollary settles : forall sc w,
  exists fuel, forall fuel', (fuel <= fuel')%nat ->
    execute_script cfg lib url_rel lint_lines fuel' sc w = execute_script cfg lib url_rel lint_lines fuel sc w.
Proof.
  intros sc w. destruct (terminates sc w) as (f0 & r & S). exists f0. intros fuel' Hf.
  rewrite <- execute_script_bot_OFuel. rewrite (S OFuel fuel' Hf), (S OFuel f0 (le_n _)). reflexivity.
Qed.

(* the relation to "some fuel gives an answer other than OFuel" (which is false in general, cyc_always_fuel below): either
   it holds, or OFuel is the proper answer of the run - the answer of EVERY tower at enough fuel, so it was produced by a leaf
   (the deep comparison's own fuel in relop, an LFuel of a library function, the fuel of parse_script in an include), not by
   the interpreter's recursion running out *)
Corollary answers_or_declines : forall sc w,
  (exists fuel, fst (execute_script cfg lib url_rel lint_lines fuel sc w) <> OFuel) \/
  (exists fuel, forall bot fuel', (fuel <= fuel')%nat -> fst (execute_script_bot cfg lib url_rel lint_lines bot fuel' sc w) = OFuel).
Proof.
  intros sc w. destruct (terminates sc w) as (f0 & r & S).
  assert (D : fst r = OFuel \/ fst r <> OFuel) by (destruct (fst r); (left; reflexivity) || (right; discriminate)).
  destruct D as [D|D].
  - right. exists f0. intros bot fuel' Hf. rewrite (S bot fuel' Hf). exact D.
  - left. exists f0. rewrite <- execute_script_bot_OFuel. rewrite (S OFuel f0 (le_n _)). exact D.
Qed.

End Main.

(* ---- non-vacuity: the library functions of Model/LibCore.v meet both premises (they never call back) ---- *)
From BS Require Import Model.LibCore Model.Run.

Lemma libcore_terminates cfg : lib_terminates (libcore cfg).
Proof.
  intros J c cb _ name args w _.
  apply (T_ext _ _ _ (fun _ _ => libcore cfg (fun _ _ w' => (OFuel, w')) name args w)); [intros; reflexivity|].
  apply T_const. rewrite libcore_count. lia.
Qed.

Lemma libcore_ranked cfg : lib_ranked (libcore cfg) (fun _ => O).
Proof. intros name cb cb' _ args w. reflexivity. Qed.

(* (an earlier version of the model reported the comparison of a value that contains itself as OFuel; since the repair F29 the
   operator handler contains the RecursionError and the model answers null, so the cyclic-compare refutation of the designed shape
   "some fuel gives an answer other than OFuel" is gone: what remains between the theorem below and that shape is a library that
   answers LFuel by itself, e.g. the fuelled deep equality of the lifted arrayIndexOf on cyclic values) *)

(* ---- the budget at work: `L: jump L` (while true) and unbounded recursion stop with the budget error, whatever the fuel
   beyond a bound and whatever the depth-0 answer ---- *)
Definition loop_prog : script := [SLabel (U "L"); SJump (U "L") None].
Definition rec_prog : script :=
  [ SFunction (U "f") (Some []) false false [SReturn (Some (ECall (U "f") []))];
    SReturn (Some (ECall (U "f") [])) ].
Definition lim_cfg : config := mkcfg 10 false true.

Lemma loop_stops : forall bot fuel,
  let r := execute_script_bot lim_cfg (libcore lim_cfg) no_url no_lint bot (12 + fuel) loop_prog (world0 []) in
  fst r = ORt (msg_exceeded 10) /\ w_count (snd r) = 11.
Proof. intros bot fuel. vm_compute. split; reflexivity. Qed.

Lemma rec_stops : forall bot fuel,
  let r := execute_script_bot lim_cfg (libcore lim_cfg) no_url no_lint bot (40 + fuel) rec_prog (world0 []) in
  fst r = ORt (msg_exceeded 10) /\ w_count (snd r) = 11.
Proof. intros bot fuel. vm_compute. split; reflexivity. Qed.
