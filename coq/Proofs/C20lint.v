(* Proofs/C20lint.v — every shipped include script parses, is schema-valid and is lint-clean: the finite domain is the
   REGENERATED list of include texts (Gen/Includes.v), enumerated completely; parsing and linting are run by vm_compute on
   the model parser (Model/Script.v) and the model linter (Model/Lint.v, property C18's model); schema validity of a parse
   result is the theorem C07_schema (Proofs/C07schema*.v), not a computation. *)
From Coq Require Import List Bool.
From BS Require Import Model.Base Model.Num Model.ExprParser Model.Script Model.ScriptX Model.Lower Model.Lint Model.Includes Gen.Includes
                       Proofs.C07 Proofs.C07schema.

Definition include_ok (text : str) : bool :=
  match parse_script [text] 1 with
  | ROk sc => match lint_raw sc with Some [] => true | _ => false end
  | _ => false
  end.

Lemma includes_ok : forallb (fun nt => include_ok (snd nt)) gen_include_texts = true.
Proof. vm_cast_no_check (eq_refl true). Qed.

Theorem includes_valid_and_lint_clean : forall name text, In (name, text) gen_include_texts ->
  exists sc, parse_script [text] 1 = ROk sc /\ script_schema sc = true /\ lint sc = [].
Proof.
  intros name text Hin.
  pose proof (proj1 (forallb_forall _ _) includes_ok (name, text) Hin) as H. cbn [snd] in H.
  unfold include_ok in H. destruct (parse_script [text] 1) as [sc| | |] eqn:E; try discriminate.
  exists sc. split; [reflexivity|]. split; [exact (parse_script_schema_full [text] 1 sc E)|].
  unfold lint. destruct (lint_raw sc) as [[|w ws]|]; try discriminate. reflexivity.
Qed.
