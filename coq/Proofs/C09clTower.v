(* Proofs/C09clTower.v — the interpreter part of the closure simulation (see Proofs/C09clSim.v for the plan): one lemma per body
   function (eval_body / call_body / exec_body), then the induction on the fuel, then the conclusion: THE CLAUSE for the
   combined library libfull2 from every well-formed world, and the invariant at the end of the run. *)
From Coq Require Import List Lia ZArith Bool NArith.
From BS Require Import Model.Base Model.Num Model.Arith Model.ExprParser Model.Script Model.Interp Model.LibCore Model.LibCall
                       Model.LibMore Model.LibAll Model.LibPartial Gen.Library
                       Proofs.BaseFacts Proofs.InterpEq Proofs.C09 Proofs.C09term Proofs.LibAll Proofs.C09termClosure
                       Proofs.C09clInv Proofs.C09clLib Proofs.C09clSim.
Import ListNotations.

(* ---- names the interpreter itself makes function values of ---- *)
Definition name_okb (nm : str) : bool :=
  match partial_loc nm with None => forallb (fun c => (c + 1 <? enc_base)%N) nm | Some _ => false end.

Lemma name_okb_ok nm : name_okb nm = true -> forall H, fn_ok H (FLib nm).
Proof.
  unfold name_okb. intros E H. cbn. destruct (partial_loc nm); [discriminate|].
  unfold name_sane. rewrite forallb_forall in E. apply Forall_forall. intros c Hc. apply N.ltb_lt. apply E. exact Hc.
Qed.

Lemma alias_names_ok : forallb (fun p => name_okb (snd p)) gen_expr_alias = true.
Proof. vm_compute. reflexivity. Qed.
Lemma script_names_ok : forallb name_okb gen_script_functions = true.
Proof. vm_compute. reflexivity. Qed.

(* ---- values the interpreter computes ---- *)
Definition simple_val (v : value) : Prop := match v with VArr _ | VFun _ => False | _ => True end.
Definition simple_out (o : outcome) : Prop := match o with OVal v => simple_val v | OExc _ _ => False | _ => True end.
Lemma simple_val_ok H na v : simple_val v -> val_ok H na v.
Proof. destruct v; cbn; tauto. Qed.
Lemma simple_out_ok H na o : simple_out o -> out_ok H na o.
Proof. destruct o; cbn; try tauto. apply simple_val_ok. Qed.

Lemma of_ares_simple r : simple_out (of_ares r).
Proof. destruct r; exact I. Qed.
Lemma relop_simple w a b t : simple_out (relop w a b t).
Proof. unfold relop. destruct (vcompare (cmp_fuel w) w a b); exact I. Qed.
Lemma concat_simple l r b : simple_out (concat_str l r b).
Proof. destruct r; exact I. Qed.
Lemma date_add_simple d n : simple_out (date_add_ms d n).
Proof.
  unfold date_add_ms.
  repeat match goal with
         | |- context [if ?c then _ else _] => destruct c
         | |- context [match ?x with _ => _ end] => destruct x
         end; exact I.
Qed.
Lemma date_sub_simple a b : simple_out (date_sub a b).
Proof. unfold date_sub. destruct (sf_trunc _); exact I. Qed.

Lemma binop_simple op w a b : simple_out (binop op w a b).
Proof.
  unfold binop.
  repeat match goal with |- context [if op_is op ?s then _ else _] => destruct (op_is op s) end;
    try apply relop_simple;
    destruct a, b; cbn [as_num];
    first [exact I|apply of_ares_simple|apply concat_simple|apply date_add_simple|apply date_sub_simple].
Qed.

Lemma unop_simple op w v : simple_val (unop op w v).
Proof. unfold unop. destruct (op_is op "!"); [exact I|]. destruct (op_is op "-"); [|exact I]. destruct (as_num v); exact I. Qed.

Lemma lookup_var_ok H x loc w : wf H w -> loc_ok H (nA w) loc -> val_ok H (nA w) (lookup_var x loc w).
Proof.
  intros Hw Hl. unfold lookup_var. destruct (op_is x "null"); [exact I|]. destruct (op_is x "false"); [exact I|].
  destruct (op_is x "true"); [exact I|].
  destruct (match loc with Some l => env_get x l | None => None end) as [v|] eqn:E.
  - destruct loc as [l|]; [|discriminate]. eapply env_get_ok; [exact Hl|exact E].
  - destruct (env_get x (w_globals w)) as [v|] eqn:E2; [|exact I]. eapply env_get_ok; [apply wf_globals; exact Hw|exact E2].
Qed.

Lemma lookup_fn_ok H name loc bi w fv : wf H w -> loc_ok H (nA w) loc -> lookup_fn name loc bi w = Some fv -> val_ok H (nA w) fv.
Proof.
  intros Hw Hl. unfold lookup_fn.
  destruct (match loc with Some l => env_get name l | None => None end) as [v|] eqn:E.
  - intros X. injection X as <-. destruct loc as [l|]; [|discriminate]. eapply env_get_ok; [exact Hl|exact E].
  - destruct (env_get name (w_globals w)) as [v|] eqn:E2.
    + intros X. injection X as <-. eapply env_get_ok; [apply wf_globals; exact Hw|exact E2].
    + destruct bi; [|discriminate]. destruct (assoc name gen_expr_alias) as [t|] eqn:A; [|discriminate].
      intros X. injection X as <-. cbn [val_ok]. apply name_okb_ok.
      pose proof alias_names_ok as K. rewrite forallb_forall in K. apply (K (name, t)). apply assoc_In. exact A.
Qed.

Lemma nA_log_if cfg b w s : nA (log_if cfg b w s) = nA w.
Proof. unfold log_if. destruct (b && c_haslog cfg); reflexivity. Qed.
Lemma wf_log_if cfg H b w s : wf H w -> wf H (log_if cfg b w s).
Proof. unfold log_if. destruct (b && c_haslog cfg); [|auto]. apply wf_same; reflexivity. Qed.

Lemma fold_log_same {A} (f : A -> str) ws : forall w,
  w_globals (fold_left (fun acc s => add_log acc (f s)) ws w) = w_globals w /\
  w_arrs (fold_left (fun acc s => add_log acc (f s)) ws w) = w_arrs w /\
  w_objs (fold_left (fun acc s => add_log acc (f s)) ws w) = w_objs w.
Proof. induction ws as [|s t IH]; intros w; cbn [fold_left]; [auto|]. destruct (IH (add_log w (f s))) as (A1 & A2 & A3). auto. Qed.

Lemma bind_args_ok H last args n : forall names ix w acc,
  wf H w -> Forall (val_ok H (nA w)) args -> env_ok H (nA w) acc ->
  wf H (snd (bind_args names n ix last args w acc)) /\ (nA w <= nA (snd (bind_args names n ix last args w acc)))%nat /\
  env_ok H (nA (snd (bind_args names n ix last args w acc))) (fst (bind_args names n ix last args w acc)).
Proof.
  induction names as [|name rest IH]; intros ix w acc Hw Fa Fc; cbn [bind_args]; [cbn; auto|].
  assert (Al : forall xs, Forall (val_ok H (nA w)) xs ->
            let w1 := upd_arrs w (w_arrs w ++ [xs]) in
            wf H (snd (bind_args rest n (S ix) last args w1 (env_set name (VArr (length (w_arrs w))) acc))) /\
            (nA w <= nA (snd (bind_args rest n (S ix) last args w1 (env_set name (VArr (length (w_arrs w))) acc))))%nat /\
            env_ok H (nA (snd (bind_args rest n (S ix) last args w1 (env_set name (VArr (length (w_arrs w))) acc))))
                   (fst (bind_args rest n (S ix) last args w1 (env_set name (VArr (length (w_arrs w))) acc)))).
  { intros xs Fx w1. destruct (wf_alloc_arr H w xs Hw Fx) as [W V].
    assert (L : nA w1 = S (nA w)) by (unfold nA, w1; cbn; rewrite app_length; cbn; lia).
    assert (E : ext H (nA w) H (nA w1)) by (apply ext_grow; lia).
    destruct (IH (S ix) w1 (env_set name (VArr (length (w_arrs w))) acc) W) as (A1 & A2 & A3).
    - eapply vals_ok_mono; eassumption.
    - apply env_set_ok; [eapply env_ok_mono; eassumption|rewrite L; exact V].
    - split; [exact A1|]. split; [lia|exact A3]. }
  destruct (Nat.ltb ix (length args)); destruct (last && Nat.eqb ix (n - 1)); unfold alloc_arr.
  - apply Al. apply Forall_skipn'. exact Fa.
  - apply IH; [exact Hw|exact Fa|]. apply env_set_ok; [exact Fc|apply nth_ok; exact Fa].
  - apply Al. constructor.
  - apply IH; [exact Hw|exact Fa|]. apply env_set_ok; [exact Fc|exact I].
Qed.

Section Tower.
Variable poison : str.
Variable cfg : config.
Variable url_rel : str -> str -> str.
Variable lint_lines : script -> list str.

Notation R2 := (R2 poison).
Notation R3 := (R3 poison).
Notation RL := (RL poison).

Definition EvR (evT evU : evalT) : Prop :=
  forall H e loc bi um w, wf H w -> loc_ok H (nA w) loc -> R2 H w (evT e loc bi um w) (evU e loc bi um w).
Definition ClR (clT clU : callT) : Prop :=
  forall H fv a um w, wf H w -> val_ok H (nA w) fv -> Forall (val_ok H (nA w)) a -> R2 H w (clT fv a um w) (clU fv a um w).
Definition ExR (exT exU : execT) : Prop :=
  forall H code pc cache loc um w, wf H w -> loc_ok H (nA w) loc -> R3 H w (exT code pc cache loc um w) (exU code pc cache loc um w).

Lemma R2_here H w o w' : nA w' = nA w -> wf H w' -> out_ok H (nA w') o -> R2 H w (o, w') (o, w').
Proof. intros E W O. right. split; [reflexivity|]. exists H. cbn [fst snd]. rewrite E. split; [apply ext_refl|]. rewrite <- E. auto. Qed.
Lemma R3_here H w o loc w' : nA w' = nA w -> wf H w' -> out_ok H (nA w') o -> loc_ok H (nA w') loc -> R3 H w (o, loc, w') (o, loc, w').
Proof.
  intros E W O L. right. split; [reflexivity|]. exists H. cbn [fst snd]. rewrite E. split; [apply ext_refl|]. rewrite <- E. auto.
Qed.

(* ---- call arguments ---- *)
Lemma eval_args_sim evT evU loc bi um : EvR evT evU ->
  forall l H w acc, wf H w -> loc_ok H (nA w) loc -> Forall (val_ok H (nA w)) acc ->
  (exists w1, eval_args evT loc bi um l w acc = (inl (ORt poison), w1)) \/
  (eval_args evU loc bi um l w acc = eval_args evT loc bi um l w acc /\
   exists H1, ext H (nA w) H1 (nA (snd (eval_args evT loc bi um l w acc))) /\ wf H1 (snd (eval_args evT loc bi um l w acc)) /\
     match fst (eval_args evT loc bi um l w acc) with
     | inl o => out_ok H1 (nA (snd (eval_args evT loc bi um l w acc))) o
     | inr vs => Forall (val_ok H1 (nA (snd (eval_args evT loc bi um l w acc)))) vs
     end).
Proof.
  intros Hev. induction l as [|a t IH]; intros H w acc Hw Hl Fa; cbn [eval_args].
  - right. split; [reflexivity|]. exists H. cbn [fst snd]. split; [apply ext_refl|]. split; [exact Hw|apply Forall_rev; exact Fa].
  - destruct (Hev H a loc bi um w Hw Hl) as [P|[E G]].
    + left. destruct (evT a loc bi um w) as [o w1]. cbn in P. subst o. eexists. reflexivity.
    + rewrite E. destruct (evT a loc bi um w) as [o w1]. destruct G as (H1 & X1 & W1 & O1). cbn [fst snd] in *.
      destruct o; try (right; split; [reflexivity|]; exists H1; cbn [fst snd]; auto).
      destruct (IH H1 w1 (v :: acc) W1) as [[w2 P]|[E2 (H2 & X2 & W2 & O2)]].
      * eapply loc_ok_mono; eassumption.
      * constructor; [exact O1|eapply vals_ok_mono; eassumption].
      * left. eexists. exact P.
      * right. split; [exact E2|]. exists H2. split; [eapply ext_trans; eassumption|]. split; assumption.
Qed.

(* ---- eval_body ---- *)
Ltac poison_case P r := left; destruct r as [?o ?w]; cbn in P; subst; reflexivity.

Lemma eval_body_sim evT evU clT clU : EvR evT evU -> ClR clT clU -> EvR (eval_body cfg evT clT) (eval_body cfg evU clU).
Proof.
  intros Hev Hcl H e loc bi um w Hw Hl. destruct e as [n|s|x|name args|op l r|op e1|e1]; cbn [eval_body].
  - apply R2_here; [reflexivity|exact Hw|exact I].
  - apply R2_here; [reflexivity|exact Hw|exact I].
  - apply R2_here; [reflexivity|exact Hw|apply lookup_var_ok; assumption].
  - (* ECall *)
    destruct (op_is name "if").
    + (* if(...) *)
      assert (K : forall H1 w1 v, wf H1 w1 -> loc_ok H1 (nA w1) loc ->
                R2 H1 w1 (match (if truthy w1 v then nth_error args 1 else nth_error args 2) with Some re => evT re loc bi um w1 | None => (OVal VNull, w1) end)
                         (match (if truthy w1 v then nth_error args 1 else nth_error args 2) with Some re => evU re loc bi um w1 | None => (OVal VNull, w1) end)).
      { intros H1 w1 v W1 L1. destruct (if truthy w1 v then nth_error args 1 else nth_error args 2) as [re|].
        - apply Hev; assumption.
        - apply R2_here; [reflexivity|exact W1|exact I]. }
      destruct (nth_error args 0) as [ve|].
      * destruct (Hev H ve loc bi um w Hw Hl) as [P|[E G]]; [poison_case P (evT ve loc bi um w)|].
        rewrite E. destruct (evT ve loc bi um w) as [o w1]. destruct o; try (right; split; [reflexivity|exact G]).
        destruct G as (H1 & X1 & W1 & O1). cbn [fst snd] in *. eapply R2_ext; [exact X1|].
        apply K; [exact W1|eapply loc_ok_mono; eassumption].
      * apply K; assumption.
    + destruct (eval_args_sim evT evU loc bi um Hev args H w [] Hw Hl (Forall_nil _)) as [[w1 P]|[E G]].
      * left. rewrite P. reflexivity.
      * rewrite E. destruct (eval_args evT loc bi um args w []) as [[o|vs] w1]; destruct G as (H1 & X1 & W1 & O1); cbn [fst snd] in *.
        { right. split; [reflexivity|]. exists H1. cbn [fst snd]. auto. }
        eapply R2_ext; [exact X1|]. assert (L1 : loc_ok H1 (nA w1) loc) by (eapply loc_ok_mono; eassumption).
        assert (Kc : forall fv, val_ok H1 (nA w1) fv ->
                  R2 H1 w1 (match clT fv vs um w1 with (OExc ret msg, w2) => (OVal ret, log_if cfg (c_debug cfg) w2 (msg_fn_failed name msg)) | other => other end)
                           (match clU fv vs um w1 with (OExc ret msg, w2) => (OVal ret, log_if cfg (c_debug cfg) w2 (msg_fn_failed name msg)) | other => other end)).
        { intros fv Hfv. destruct (Hcl H1 fv vs um w1 W1 Hfv O1) as [P|[E2 G2]]; [poison_case P (clT fv vs um w1)|].
          rewrite E2. destruct (clT fv vs um w1) as [o w2]. destruct o; try (right; split; [reflexivity|exact G2]).
          destruct G2 as (H2 & X2 & W2 & O2). cbn [fst snd out_ok] in *. right. split; [reflexivity|].
          exists H2. cbn [fst snd out_ok]. rewrite nA_log_if. split; [exact X2|]. split; [apply wf_log_if; exact W2|exact O2]. }
        destruct (lookup_fn name loc bi w1) as [fv|] eqn:Lf.
        2:{ apply R2_here; [reflexivity|exact W1|exact I]. }
        pose proof (lookup_fn_ok H1 name loc bi w1 fv W1 L1 Lf) as Hfv.
        destruct fv; try (apply Kc; exact Hfv). apply R2_here; [reflexivity|exact W1|exact I].
  - (* EBin *)
    destruct (Hev H l loc bi um w Hw Hl) as [P|[E G]]; [poison_case P (evT l loc bi um w)|].
    rewrite E. destruct (evT l loc bi um w) as [o w1]. destruct o as [lv| | | | |]; try (right; split; [reflexivity|exact G]).
    destruct G as (H1 & X1 & W1 & O1). cbn [fst snd out_ok] in *. eapply R2_ext; [exact X1|].
    assert (L1 : loc_ok H1 (nA w1) loc) by (eapply loc_ok_mono; eassumption).
    destruct (op_is op "&&").
    { destruct (truthy w1 lv); [apply Hev; assumption|apply R2_here; [reflexivity|exact W1|exact O1]]. }
    destruct (op_is op "||").
    { destruct (truthy w1 lv); [apply R2_here; [reflexivity|exact W1|exact O1]|apply Hev; assumption]. }
    destruct (Hev H1 r loc bi um w1 W1 L1) as [P|[E2 G2]]; [poison_case P (evT r loc bi um w1)|].
    rewrite E2. destruct (evT r loc bi um w1) as [o w2]. destruct o as [rv| | | | |]; try (right; split; [reflexivity|exact G2]).
    destruct G2 as (H2 & X2 & W2 & O2). cbn [fst snd] in *. right. split; [reflexivity|]. exists H2. cbn [fst snd].
    split; [exact X2|]. split; [exact W2|]. apply simple_out_ok. apply binop_simple.
  - (* EUn *)
    destruct (Hev H e1 loc bi um w Hw Hl) as [P|[E G]]; [poison_case P (evT e1 loc bi um w)|].
    rewrite E. destruct (evT e1 loc bi um w) as [o w1]. destruct o as [v| | | | |]; try (right; split; [reflexivity|exact G]).
    destruct G as (H1 & X1 & W1 & O1). cbn [fst snd] in *. right. split; [reflexivity|]. exists H1. cbn [fst snd out_ok].
    split; [exact X1|]. split; [exact W1|]. apply simple_val_ok. apply unop_simple.
  - (* EGroup *) apply Hev; assumption.
Qed.

(* ---- call_body ---- *)
Lemma Good2_of_GoodL H w r w1 : GoodL H w (r, w1) ->
  Good2 H w (match r with
             | LVal v => (OVal v, w1) | LArgs ret msg => (OExc ret msg, w1) | LRaise msg => (OExc VNull msg, w1)
             | LRt msg => (ORt msg, w1) | LFuel => (OFuel, w1) | LOracle => (OOracle, w1) end).
Proof. intros (H1 & X & W & O). exists H1. destruct r; cbn [fst snd] in *; auto. Qed.

Lemma call_body_sim libT libU clT clU exT exU : LibSim poison libT libU -> ClR clT clU -> ExR exT exU ->
  ClR (call_body libT clT exT) (call_body libU clU exU).
Proof.
  intros Hlib Hcl Hex H fv a um w Hw Hfv Fa. unfold call_body.
  destruct fv as [ |b|n|s|us|l|l|fr|id]; try (apply R2_here; [reflexivity|exact Hw|exact I]).
  destruct fr as [name|id].
  - (* library *)
    assert (Hcb : cbR poison (fun fv' args' w' => clT fv' args' um w') (fun fv' args' w' => clU fv' args' um w')).
    { intros H1 fv1 a1 w1 W1 V1 F1. apply Hcl; assumption. }
    destruct (Hlib _ _ Hcb H name a w Hw Hfv Fa) as [P|[E G]].
    + left. destruct (libT (fun fv' args' w' => clT fv' args' um w') name a w) as [r w1]. cbn in P. subst r. reflexivity.
    + rewrite E. destruct (libT (fun fv' args' w' => clT fv' args' um w') name a w) as [r w1].
      right. split; [reflexivity|]. pose proof (Good2_of_GoodL H w r w1 G) as G2. destruct r; exact G2.
  - (* script function *)
    destruct (nth_error (w_funs w) id) as [fd|]; [|apply R2_here; [reflexivity|exact Hw|exact I]].
    assert (B : forall p, p = (match fd_args fd with Some names => bind_args names (length names) 0 (fd_last fd) a w [] | None => ([], w) end) ->
                wf H (snd p) /\ (nA w <= nA (snd p))%nat /\ env_ok H (nA (snd p)) (fst p)).
    { intros p ->. destruct (fd_args fd) as [names|].
      - apply bind_args_ok; [exact Hw|exact Fa|constructor].
      - cbn. split; [exact Hw|]. split; [lia|constructor]. }
    destruct (match fd_args fd with Some names => bind_args names (length names) 0 (fd_last fd) a w [] | None => ([], w) end) as [locals w1].
    destruct (B _ eq_refl) as (W1 & N1 & L1). cbn [fst snd] in *.
    eapply R2_ext; [apply (ext_grow H _ _ N1)|].
    destruct (Hex H (fd_body fd) 0%nat [] (Some locals) um w1 W1 L1) as [P|[E G]].
    + left. destruct (exT (fd_body fd) 0%nat [] (Some locals) um w1) as [[o l'] w2]. cbn in P. subst o. reflexivity.
    + rewrite E. destruct (exT (fd_body fd) 0%nat [] (Some locals) um w1) as [[o l'] w2].
      right. split; [reflexivity|]. destruct G as (H2 & X2 & W2 & O2 & _). exists H2. cbn [fst snd] in *. auto.
Qed.

(* ---- includes ---- *)
Definition RI (H : hid) (w : world) (rT rU : option outcome * world) : Prop :=
  fst rT = Some (ORt poison) \/
  (rU = rT /\ exists H1, ext H (nA w) H1 (nA (snd rT)) /\ wf H1 (snd rT) /\
                match fst rT with Some o => out_ok H1 (nA (snd rT)) o | None => True end).

Lemma run_incs_sim exT exU um : ExR exT exU ->
  forall l H w, wf H w -> RI H w (run_incs cfg url_rel lint_lines exT um l w) (run_incs cfg url_rel lint_lines exU um l w).
Proof.
  intros Hex. induction l as [|[u sys] t IH]; intros H w Hw; cbn [run_incs].
  - right. split; [reflexivity|]. exists H. cbn [fst snd]. split; [apply ext_refl|]. split; [exact Hw|exact I].
  - set (url := match sys, c_sysprefix cfg with true, Some p => url_rel p u | _, _ => if has_urlfn cfg um then apply_urlfn cfg url_rel um u else u end).
    assert (Here : forall o w', w_globals w' = w_globals w -> w_arrs w' = w_arrs w -> w_objs w' = w_objs w ->
              match o with Some o => out_ok H (nA w') o | None => True end -> RI H w (o, w') (o, w')).
    { intros o w' A1 A2 A3 So. right. split; [reflexivity|]. exists H. cbn [fst snd]. unfold nA. rewrite A2.
      split; [apply ext_refl|]. split; [apply (wf_same H w w' A1 A2 A3 Hw)|]. unfold nA in So. rewrite A2 in So. exact So. }
    destruct (match c_fetch cfg with Some fetch => (fetch url, add_fetched w url) | None => (None, w) end) as [text w1] eqn:Ef.
    assert (A : w_globals w1 = w_globals w /\ w_arrs w1 = w_arrs w /\ w_objs w1 = w_objs w).
    { destruct (c_fetch cfg); injection Ef as _ <-; auto. }
    destruct A as (A1 & A2 & A3).
    destruct text as [txt|]; [|apply Here; auto; exact I].
    destruct (parse_script [txt] 1) as [sc|pe|what|]; try (apply Here; auto; exact I).
    set (w2 := if c_debug cfg && c_haslog cfg then _ else w1).
    assert (A' : w_globals w2 = w_globals w /\ w_arrs w2 = w_arrs w /\ w_objs w2 = w_objs w).
    { unfold w2. destruct (c_debug cfg && c_haslog cfg); [|auto]. destruct (lint_lines sc) as [|x xs]; [auto|].
      match goal with |- context [fold_left ?f ?ws ?w0] =>
        destruct (fold_log_same (fun s => U "BareScript:     " ++ s) ws w0) as (B1 & B2 & B3) end.
      rewrite B1, B2, B3. auto. }
    clearbody w2. destruct A' as (B1 & B2 & B3).
    assert (W2 : wf H w2) by (apply (wf_same H w w2 B1 B2 B3 Hw)).
    assert (N2 : nA w2 = nA w) by (unfold nA; rewrite B2; reflexivity).
    destruct (Hex H sc 0%nat [] None (UBase url) w2 W2 I) as [P|[E G]].
    + left. destruct (exT sc 0%nat [] None (UBase url) w2) as [[o l'] w3]. cbn in P. subst o. reflexivity.
    + rewrite E. destruct (exT sc 0%nat [] None (UBase url) w2) as [[o l'] w3]. destruct G as (H3 & X3 & W3 & O3 & _).
      cbn [fst snd] in *. rewrite N2 in X3.
      assert (Stop : RI H w (Some o, w3) (Some o, w3)).
      { right. split; [reflexivity|]. exists H3. cbn [fst snd]. auto. }
      destruct o; try exact Stop.
      destruct (IH H3 w3 W3) as [P|[E2 (H4 & X4 & W4 & O4)]]; [left; exact P|].
      right. split; [exact E2|]. exists H4. split; [eapply ext_trans; eassumption|]. split; assumption.
Qed.

(* ---- exec_body ---- *)
Lemma exec_body_sim evT evU exT exU : EvR evT evU -> ExR exT exU ->
  ExR (exec_body cfg url_rel lint_lines evT exT) (exec_body cfg url_rel lint_lines evU exU).
Proof.
  intros Hev Hex H code pc cache loc um w0 Hw0 Hl0. unfold exec_body.
  destruct (nth_error code pc) as [st|]; [|apply R3_here; [reflexivity|exact Hw0|exact I|exact Hl0]].
  set (w := upd_count w0 (w_count w0 + 1)).
  assert (Hw : wf H w) by (apply (wf_same H w0 w); [reflexivity|reflexivity|reflexivity|exact Hw0]).
  assert (Hl : loc_ok H (nA w) loc) by exact Hl0.
  apply (R3_ext poison H w0 H w); [apply ext_refl|]. clearbody w. clear Hw0 Hl0 w0.
  destruct ((0 <? c_max cfg)%Z && (c_max cfg <? w_count w)%Z); [apply R3_here; [reflexivity|exact Hw|exact I|exact Hl]|].
  destruct st as [name e|label cond|oe|lbl|name args isasync lastarg body|incs].
  - (* SExpr *)
    destruct (Hev H e loc false um w Hw Hl) as [P|[E G]].
    { left. destruct (evT e loc false um w) as [o w1]. cbn in P. subst o. reflexivity. }
    rewrite E. destruct (evT e loc false um w) as [o w1]. destruct G as (H1 & X1 & W1 & O1). cbn [fst snd] in *.
    assert (L1 : loc_ok H1 (nA w1) loc) by (eapply loc_ok_mono; eassumption).
    destruct o; try (right; split; [reflexivity|]; exists H1; cbn [fst snd]; auto).
    eapply R3_ext; [exact X1|]. cbn [out_ok] in O1.
    destruct name as [x|]; [|apply Hex; assumption].
    destruct loc as [l|].
    + apply Hex; [exact W1|]. cbn. apply env_set_ok; assumption.
    + apply (R3_ext poison H1 w1 H1 (upd_globals w1 (env_set x v (w_globals w1)))); [apply ext_refl|].
      apply Hex; [|exact I]. apply wf_upd_globals; [exact W1|]. apply env_set_ok; [apply wf_globals; exact W1|exact O1].
  - (* SJump *)
    assert (K : forall H1 w1 (b : bool), wf H1 w1 -> loc_ok H1 (nA w1) loc ->
              R3 H1 w1
                (match b with
                 | false => exT code (S pc) cache loc um w1
                 | true => match assoc label cache with
                           | Some ix => exT code (S ix) cache loc um w1
                           | None => match find_label label code with
                                     | Some ix => exT code (S ix) ((label, ix) :: cache) loc um w1
                                     | None => (ORt (msg_unknown_label label), loc, w1) end end end)
                (match b with
                 | false => exU code (S pc) cache loc um w1
                 | true => match assoc label cache with
                           | Some ix => exU code (S ix) cache loc um w1
                           | None => match find_label label code with
                                     | Some ix => exU code (S ix) ((label, ix) :: cache) loc um w1
                                     | None => (ORt (msg_unknown_label label), loc, w1) end end end)).
    { intros H1 w1 b W1 L1. destruct b; [|apply Hex; assumption].
      destruct (assoc label cache); [apply Hex; assumption|].
      destruct (find_label label code); [apply Hex; assumption|apply R3_here; [reflexivity|exact W1|exact I|exact L1]]. }
    destruct cond as [c|]; [|exact (K H w true Hw Hl)].
    destruct (Hev H c loc false um w Hw Hl) as [P|[E G]].
    { left. destruct (evT c loc false um w) as [o w1]. cbn in P. subst o. reflexivity. }
    rewrite E. destruct (evT c loc false um w) as [o w1]. destruct G as (H1 & X1 & W1 & O1). cbn [fst snd] in *.
    assert (L1 : loc_ok H1 (nA w1) loc) by (eapply loc_ok_mono; eassumption).
    destruct o; try (right; split; [reflexivity|]; exists H1; cbn [fst snd]; auto).
    eapply R3_ext; [exact X1|]. exact (K H1 w1 (truthy w1 v) W1 L1).
  - (* SReturn *)
    destruct oe as [e|]; [|apply R3_here; [reflexivity|exact Hw|exact I|exact Hl]].
    destruct (Hev H e loc false um w Hw Hl) as [P|[E G]].
    { left. destruct (evT e loc false um w) as [o w1]. cbn in P. subst o. reflexivity. }
    rewrite E. destruct (evT e loc false um w) as [o w1]. destruct G as (H1 & X1 & W1 & O1). cbn [fst snd] in *.
    right. split; [reflexivity|]. exists H1. cbn [fst snd]. split; [exact X1|]. split; [exact W1|]. split; [exact O1|].
    eapply loc_ok_mono; eassumption.
  - (* SLabel *) apply Hex; assumption.
  - (* SFunction *)
    match goal with |- R3 _ _ (exT _ _ _ _ _ ?w1) _ => apply (R3_ext poison H w H w1); [apply ext_refl|]; apply Hex; [|exact Hl] end.
    apply wf_upd_globals.
    + apply (wf_same H w); [reflexivity|reflexivity|reflexivity|exact Hw].
    + apply env_set_ok; [apply wf_globals; exact Hw|exact I].
  - (* SInclude *)
    destruct (run_incs_sim exT exU um Hex incs H w Hw) as [P|[E (H1 & X1 & W1 & O1)]].
    { left. destruct (run_incs cfg url_rel lint_lines exT um incs w) as [o w1]. cbn in P. subst o. reflexivity. }
    rewrite E. destruct (run_incs cfg url_rel lint_lines exT um incs w) as [[o|] w1]; cbn [fst snd] in *.
    + right. split; [reflexivity|]. exists H1. cbn [fst snd]. split; [exact X1|]. split; [exact W1|]. split; [exact O1|].
      eapply loc_ok_mono; eassumption.
    + eapply R3_ext; [exact X1|]. apply Hex; [exact W1|eapply loc_ok_mono; eassumption].
Qed.

(* ---- the towers ---- *)
Variables libT libU : caller -> str -> list value -> world -> lres * world.
Hypothesis Hlib : LibSim poison libT libU.
Variable bot : outcome.

Theorem towers_sim : forall f,
  EvR (evalB cfg libT url_rel lint_lines (ORt poison) f) (evalB cfg libU url_rel lint_lines bot f) /\
  ClR (callB cfg libT url_rel lint_lines (ORt poison) f) (callB cfg libU url_rel lint_lines bot f) /\
  ExR (execB cfg libT url_rel lint_lines (ORt poison) f) (execB cfg libU url_rel lint_lines bot f).
Proof.
  induction f as [|f (IHe & IHc & IHx)].
  - split; [|split]; intro; intros; left; reflexivity.
  - split; [|split].
    + apply (eval_body_sim _ _ _ _ IHe IHc).
    + apply (call_body_sim _ _ _ _ _ _ Hlib IHc IHx).
    + apply (exec_body_sim _ _ _ _ IHe IHx).
Qed.

Lemma inject_library_ok H na : forall g, env_ok H na g -> env_ok H na (inject_library g).
Proof.
  unfold inject_library. pose proof script_names_ok as K. rewrite forallb_forall in K.
  revert K. generalize gen_script_functions. intros names. induction names as [|nm t IH]; intros K g Fg; cbn [fold_left]; [exact Fg|].
  apply IH; [intros x Hx; apply K; right; exact Hx|].
  destruct (env_has nm g); [exact Fg|]. apply Forall_app. split; [exact Fg|]. constructor; [|constructor].
  cbn [snd val_ok]. apply name_okb_ok. apply K. left. reflexivity.
Qed.

Theorem script_sim f sc H w : wf H w ->
  R2 H w (execute_script_bot cfg libT url_rel lint_lines (ORt poison) f sc w) (execute_script_bot cfg libU url_rel lint_lines bot f sc w).
Proof.
  intros Hw. unfold execute_script_bot. cbv zeta.
  set (w1 := upd_count (upd_globals w (inject_library (w_globals w))) 0).
  assert (W1 : wf H w1).
  { apply (wf_same H (upd_globals w (inject_library (w_globals w)))); [reflexivity|reflexivity|reflexivity|].
    apply wf_upd_globals; [exact Hw|]. apply inject_library_ok. apply wf_globals. exact Hw. }
  apply (R2_ext poison H w H w1); [apply ext_refl|].
  destruct (towers_sim f) as (_ & _ & Hx).
  destruct (Hx H sc 0%nat [] None UHost w1 W1 I) as [P|[E G]].
  - left. destruct (execB cfg libT url_rel lint_lines (ORt poison) f sc 0 [] None UHost w1) as [[o l'] w2]. cbn in P. subst o. reflexivity.
  - rewrite E. destruct (execB cfg libT url_rel lint_lines (ORt poison) f sc 0 [] None UHost w1) as [[o l'] w2].
    right. split; [reflexivity|]. destruct G as (H2 & X2 & W2 & O2 & _). exists H2. cbn [fst snd] in *. auto.
Qed.

End Tower.

(* ======================= THE CLAUSE for the combined library ======================= *)
Section Main.
Hypothesis Hseq : seq_pres.
Hypothesis Hmore : more_pres.

Theorem libfull2_run_terminates_wf cfg cfg' url_rel lint_lines : (0 < c_max cfg)%Z ->
  forall sc w, closures_wf w ->
  exists fuel r, (forall bot fuel', (fuel <= fuel')%nat ->
                    execute_script_bot cfg (libfull2 cfg') url_rel lint_lines bot fuel' sc w = r) /\
                 closures_wf (snd r).
Proof.
  intros Hpos sc w [H Hw].
  destruct (libfull2g_run_terminates cfg cfg' url_rel lint_lines Hpos sc w) as (fuel & r & Hr).
  exists fuel, r.
  set (poison := match fst r with ORt m => 0%N :: m | _ => [] end).
  assert (Np : fst r <> ORt poison).
  { unfold poison. destruct (fst r) as [v|m| | | |]; try discriminate. intros X. injection X as X.
    apply (f_equal (@length N)) in X. cbn in X. lia. }
  assert (K : forall bot fuel', (fuel <= fuel')%nat ->
            execute_script_bot cfg (libfull2 cfg') url_rel lint_lines bot fuel' sc w = r /\ Good2 H w r).
  { intros bot fuel' Hf.
    destruct (script_sim poison cfg url_rel lint_lines (libfull2g cfg') (libfull2 cfg') (libfull2_sim poison Hseq Hmore cfg') bot fuel' sc H w Hw)
      as [P|[E G]]; rewrite (Hr (ORt poison) fuel' Hf) in *; [contradiction|]. split; assumption. }
  split.
  - intros bot fuel' Hf. apply (K bot fuel' Hf).
  - destruct (K OFuel fuel (le_n _)) as [_ (H1 & _ & W1 & _)]. exists H1. exact W1.
Qed.

End Main.
