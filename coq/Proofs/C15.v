(* Proofs/C15.v — array, object and string functions obey their sequence / map / string contracts. *)
From Coq Require Import Lia ZifyBool SpecFloat.
From BS Require Import Model.Base Model.Num Model.LibVal Gen.ArgSpecs Model.LibSeq Proofs.BaseFacts.
Local Open Scope Z_scope.

(* ====================================================================== heap facts *)
Lemma hget_hset_same : forall h l c, (l < length h)%nat -> hget (hset h l c) l = Some c.
Proof. unfold hget. induction h; intros [|l] c H; simpl in *; try lia; auto. apply IHh. lia. Qed.

Lemma hget_hset_other : forall h l l' c, l <> l' -> hget (hset h l c) l' = hget h l'.
Proof. unfold hget. induction h; intros [|l] [|l'] c H; simpl in *; auto; try congruence. Qed.

Lemma hset_length : forall h l c, length (hset h l c) = length h.
Proof. induction h; intros [|l] c; simpl; auto. Qed.

Lemma hget_Some_lt : forall h l c, hget h l = Some c -> (l < length h)%nat.
Proof. unfold hget. intros. apply nth_error_Some. congruence. Qed.

Lemma hget_app_old : forall h c l, (l < length h)%nat -> hget (h ++ [c]) l = hget h l.
Proof. unfold hget. intros. apply nth_error_app1. auto. Qed.

Lemma hget_app_new : forall h c, hget (h ++ [c]) (length h) = Some c.
Proof. unfold hget. intros. rewrite nth_error_app2 by lia. rewrite Nat.sub_diag. reflexivity. Qed.

Lemma hget_fresh : forall h, hget h (length h) = None.
Proof. unfold hget. intros. apply nth_error_None. lia. Qed.

(* ====================================================================== shape of every call
   what a call can do to the heap: nothing, overwrite the cell of its FIRST argument, or allocate one cell *)
Definition first_loc (va : list varg) : option loc :=
  match va with AV (VArr l) :: _ => Some l | AV (VObj l) :: _ => Some l | _ => None end.
Definition is_fail (r : libres) : bool := match r with LOk _ => false | _ => true end.

Inductive step_shape (h : heap) (floc : option loc) (r : libres) (h' : heap) : Prop :=
| SS_same : h' = h -> step_shape h floc r h'
| SS_mut : forall l c, floc = Some l -> (l < length h)%nat -> h' = hset h l c -> is_fail r = false -> step_shape h floc r h'
| SS_alloc : forall c, h' = h ++ [c] -> (r = LOk (VArr (length h)) \/ r = LOk (VObj (length h))) -> step_shape h floc r h'.

Definition kshape (k : kfun) : Prop := forall h va r h', k h va = (r, h') -> step_shape h (first_loc va) r h'.

Ltac inv H := inversion H; subst; clear H.
Ltac break_match_hyp :=
  match goal with
  | H : context [match ?x with _ => _ end] |- _ => destruct x eqn:?
  end.
Ltac kcrush :=
  repeat first
    [ match goal with
      | H : (_, _) = (_, _) |- _ => inv H
      | H : stuck _ = (_, _) |- _ => unfold stuck in H
      | H : (let (_, _) := halloc _ _ in _) = _ |- _ => unfold halloc in H
      end
    | break_match_hyp ].

Ltac shape_done :=
  first
    [ apply SS_same; reflexivity
    | eapply SS_alloc; [reflexivity | auto]
    | eapply SS_mut; [reflexivity | eapply hget_Some_lt; eassumption | reflexivity | reflexivity] ].
Ltac kshape_tac f := unfold kshape, f; intros h va r h' H; kcrush; simpl; shape_done.

Lemma shape_arrayCopy : kshape k_arrayCopy. Proof. kshape_tac k_arrayCopy. Qed.
Lemma shape_arrayDelete : kshape k_arrayDelete. Proof. kshape_tac k_arrayDelete. Qed.
Lemma shape_arrayExtend : kshape k_arrayExtend. Proof. kshape_tac k_arrayExtend. Qed.
Lemma shape_arrayGet : kshape k_arrayGet. Proof. kshape_tac k_arrayGet. Qed.
Lemma shape_arrayIndexOf : kshape k_arrayIndexOf. Proof. kshape_tac k_arrayIndexOf. Qed.
Lemma shape_arrayLastIndexOf : kshape k_arrayLastIndexOf. Proof. kshape_tac k_arrayLastIndexOf. Qed.
Lemma shape_arrayLength : kshape k_arrayLength. Proof. kshape_tac k_arrayLength. Qed.
Lemma shape_arrayNewSize : kshape k_arrayNewSize. Proof. kshape_tac k_arrayNewSize. Qed.
Lemma shape_arrayPop : kshape k_arrayPop. Proof. kshape_tac k_arrayPop. Qed.
Lemma shape_arrayPush : kshape k_arrayPush. Proof. kshape_tac k_arrayPush. Qed.
Lemma shape_arraySet : kshape k_arraySet. Proof. kshape_tac k_arraySet. Qed.
Lemma shape_arrayShift : kshape k_arrayShift. Proof. kshape_tac k_arrayShift. Qed.
Lemma shape_arraySlice : kshape k_arraySlice. Proof. kshape_tac k_arraySlice. Qed.
Lemma shape_objectAssign : kshape k_objectAssign. Proof. kshape_tac k_objectAssign. Qed.
Lemma shape_objectCopy : kshape k_objectCopy. Proof. kshape_tac k_objectCopy. Qed.
Lemma shape_objectDelete : kshape k_objectDelete. Proof. kshape_tac k_objectDelete. Qed.
Lemma shape_objectGet : kshape k_objectGet. Proof. kshape_tac k_objectGet. Qed.
Lemma shape_objectHas : kshape k_objectHas. Proof. kshape_tac k_objectHas. Qed.
Lemma shape_objectKeys : kshape k_objectKeys. Proof. kshape_tac k_objectKeys. Qed.
Lemma shape_objectSet : kshape k_objectSet. Proof. kshape_tac k_objectSet. Qed.
Lemma shape_stringCharCodeAt : kshape k_stringCharCodeAt. Proof. kshape_tac k_stringCharCodeAt. Qed.
Lemma shape_stringEndsWith : kshape k_stringEndsWith. Proof. kshape_tac k_stringEndsWith. Qed.
Lemma shape_stringStartsWith : kshape k_stringStartsWith. Proof. kshape_tac k_stringStartsWith. Qed.
Lemma shape_stringIndexOf : kshape k_stringIndexOf. Proof. kshape_tac k_stringIndexOf. Qed.
Lemma shape_stringLastIndexOf : kshape k_stringLastIndexOf. Proof. kshape_tac k_stringLastIndexOf. Qed.
Lemma shape_stringLength : kshape k_stringLength. Proof. kshape_tac k_stringLength. Qed.
Lemma shape_stringRepeat : kshape k_stringRepeat. Proof. kshape_tac k_stringRepeat. Qed.
Lemma shape_stringReplace : kshape k_stringReplace. Proof. kshape_tac k_stringReplace. Qed.
Lemma shape_stringSlice : kshape k_stringSlice. Proof. kshape_tac k_stringSlice. Qed.
Lemma shape_stringSplit : kshape k_stringSplit. Proof. kshape_tac k_stringSplit. Qed.
Lemma shape_stringTrim : kshape k_stringTrim. Proof. kshape_tac k_stringTrim. Qed.
Lemma shape_regexEscape : kshape k_regexEscape. Proof. kshape_tac k_regexEscape. Qed.
Lemma shape_urlEncodeGen : forall f, kshape (k_urlEncodeGen f). Proof. intro f. kshape_tac k_urlEncodeGen. Qed.

Lemma lib_table_shape : Forall (fun p => kshape (snd p)) lib_table.
Proof.
  unfold lib_table. repeat (apply Forall_cons; [simpl;
    first [apply shape_arrayCopy | apply shape_arrayDelete | apply shape_arrayExtend | apply shape_arrayGet | apply shape_arrayIndexOf | apply shape_arrayLastIndexOf | apply shape_arrayLength | apply shape_arrayNewSize | apply shape_arrayPop | apply shape_arrayPush | apply shape_arraySet | apply shape_arrayShift | apply shape_arraySlice | apply shape_objectAssign | apply shape_objectCopy | apply shape_objectDelete | apply shape_objectGet | apply shape_objectHas | apply shape_objectKeys | apply shape_objectSet | apply shape_stringCharCodeAt | apply shape_stringEndsWith | apply shape_stringStartsWith | apply shape_stringIndexOf | apply shape_stringLastIndexOf | apply shape_stringLength | apply shape_stringRepeat | apply shape_stringReplace | apply shape_stringSlice | apply shape_stringSplit | apply shape_stringTrim | apply shape_regexEscape | apply shape_urlEncodeGen] |]). apply Forall_nil.
Qed.

(* ---- the value a failing call returns is the one the generated table documents ------------- *)
Definition failure_of (f : str) (args : list value) : value :=
  match assoc_spec f gen_arg_specs with Some (_, fv) => fail_value fv args | None => VNull end.

Definition kfail (name : str) (k : kfun) : Prop :=
  forall h va x h' args, k h va = (LArgsErr x, h') -> x = failure_of name args.
Ltac kfail_tac f := unfold kfail, f; intros h va x h' args H; kcrush; reflexivity.

Lemma lib_table_fail : Forall (fun p => kfail (fst p) (snd p)) lib_table.
Proof.
  unfold lib_table.
  repeat (apply Forall_cons; [simpl;
    unfold kfail; intros h va x h' args H;
    first [ progress unfold k_urlEncodeGen in H | match type of H with ?k _ _ = _ => unfold k in H end ]; kcrush; reflexivity |]).
  apply Forall_nil.
Qed.

(* ---- argument validation keeps the first (container) argument -------------------------------- *)
Definition arg_loc (args : list value) : option loc :=
  match args with VArr l :: _ => Some l | VObj l :: _ => Some l | _ => None end.

Lemma vcons_ok : forall x r va, vcons x r = VOk va -> exists t, r = VOk t /\ va = x :: t.
Proof. intros x [l| | |] va H; simpl in H; try discriminate. inv H. eauto. Qed.

Lemma validate_first : forall h specs args va l,
  args_validate h specs args = VOk va -> first_loc va = Some l -> arg_loc args = Some l.
Proof.
  intros h [|sp specs] args va l H F.
  - destruct args; simpl in H; inv H. discriminate.
  - destruct args as [|a args]; simpl in H.
    + repeat break_match_hyp; try discriminate;
        apply vcons_ok in H; destruct H as (t & _ & ->); simpl in F; try discriminate;
        match goal with d : lit |- _ => destruct d; discriminate end.
    + repeat break_match_hyp; try discriminate;
        apply vcons_ok in H; destruct H as (t & _ & ->); simpl in F; try discriminate; simpl; auto.
Qed.

Lemma validated_cases : forall f args h k r h', validated f args h k = (r, h') ->
  (h' = h /\ (r = LArgsErr (failure_of f args) \/ r = LRaise \/ r = LStuck)) \/
  (exists specs fv va, assoc_spec f gen_arg_specs = Some (specs, fv) /\ args_validate h specs args = VOk va
                       /\ k va (fail_value fv args) = (r, h')).
Proof.
  unfold validated, failure_of. intros f args h k r h' H.
  destruct (assoc_spec f gen_arg_specs) as [[specs fv]|] eqn:E.
  - destruct (args_validate h specs args) eqn:V.
    + right. eauto 10.
    + inv H. auto.
    + inv H. auto.
    + inv H. auto.
  - inv H. auto.
Qed.

(* ---- the three functions that inspect their arguments by hand ---------------------------------- *)
Lemma raw_arrayNew_shape : forall h args r h', raw_arrayNew h args = (r, h') ->
  h' = h ++ [CArr args] /\ r = LOk (VArr (length h)).
Proof. unfold raw_arrayNew, halloc. intros. inv H. auto. Qed.

Lemma raw_objectNew_shape : forall h args r h', raw_objectNew h args = (r, h') ->
  (exists kv, h' = h ++ [CObj kv] /\ r = LOk (VObj (length h))) \/ (h' = h /\ r = LArgsErr VNull).
Proof. unfold raw_objectNew, halloc. intros. break_match_hyp; inv H; eauto. Qed.

Lemma raw_stringFromCharCode_shape : forall h args r h', raw_stringFromCharCode h args = (r, h') ->
  h' = h /\ (r = LRaise \/ r = LArgsErr VNull \/ exists s, r = LOk (VStr s)).
Proof. unfold raw_stringFromCharCode. intros. repeat break_match_hyp; inv H; eauto. Qed.

Lemma assoc_raw : forall f g, assoc f raw_table = Some g ->
  (f = U "arrayNew" /\ g = raw_arrayNew) \/ (f = U "objectNew" /\ g = raw_objectNew)
  \/ (f = U "stringFromCharCode" /\ g = raw_stringFromCharCode).
Proof.
  unfold raw_table, assoc. intros f g H.
  destruct (str_eqb f (U "arrayNew")) eqn:E1; [apply str_eqb_eq in E1; inv H; auto|].
  destruct (str_eqb f (U "objectNew")) eqn:E2; [apply str_eqb_eq in E2; inv H; auto|].
  destruct (str_eqb f (U "stringFromCharCode")) eqn:E3; [apply str_eqb_eq in E3; inv H; auto|].
  discriminate.
Qed.

(* ====================================================================== the call-level theorems *)
Theorem lib_shape : forall f args h r h', lib f args h = (r, h') -> step_shape h (arg_loc args) r h'.
Proof.
  unfold lib. intros f args h r h' H.
  destruct (assoc f raw_table) as [g|] eqn:R.
  - apply assoc_raw in R. destruct R as [[-> ->]|[[-> ->]|[-> ->]]].
    + apply raw_arrayNew_shape in H. destruct H as [-> ->]. eapply SS_alloc; eauto.
    + apply raw_objectNew_shape in H. destruct H as [(kv & -> & ->)|[-> ->]]; [eapply SS_alloc; eauto | apply SS_same; auto].
    + apply raw_stringFromCharCode_shape in H. destruct H as [-> _]. apply SS_same; auto.
  - destruct (assoc f lib_table) as [k|] eqn:T.
    + apply validated_cases in H. destruct H as [[-> _]|(specs & fv & va & E & V & K)]; [apply SS_same; auto|].
      pose proof lib_table_shape as S. rewrite Forall_forall in S. specialize (S _ (assoc_In _ _ _ T)). simpl in S.
      apply S in K. destruct K as [->|l c F L -> NF|c -> R'].
      * apply SS_same; auto.
      * eapply SS_mut; eauto. eapply validate_first; eauto.
      * eapply SS_alloc; eauto.
    + inv H. apply SS_same; auto.
Qed.

(* FRAME: only the passed container's location can change; every other location keeps its cell *)
Theorem lib_frame : forall f args h r h' l, lib f args h = (r, h') ->
  (l < length h)%nat -> arg_loc args <> Some l -> hget h' l = hget h l.
Proof.
  intros f args h r h' l H L N. apply lib_shape in H. destruct H as [->|l0 c F L0 -> _|c -> _]; auto.
  - apply hget_hset_other. intro; subst; auto.
  - apply hget_app_old; auto.
Qed.

(* FRESH: a call that allocates returns the one location that was not in the heap before; nothing else moves *)
Theorem lib_alloc_fresh : forall f args h r h', lib f args h = (r, h') -> length h' <> length h ->
  (r = LOk (VArr (length h)) \/ r = LOk (VObj (length h))) /\ hget h (length h) = None
  /\ (exists c, h' = h ++ [c]) /\ forall l, (l < length h)%nat -> hget h' l = hget h l.
Proof.
  intros f args h r h' H N. apply lib_shape in H. destruct H as [->|l0 c F L0 -> _|c -> R]; try congruence.
  - rewrite hset_length in N. congruence.
  - repeat split; auto using hget_fresh; eauto. intros. apply hget_app_old; auto.
Qed.

(* FAILURE-ATOMIC: a failing call leaves the whole heap unchanged, and the value a ValueArgsError carries is the
   failure value of the table generated from library.py *)
Theorem lib_failure_atomic : forall f args h r h', lib f args h = (r, h') -> is_fail r = true -> h' = h.
Proof.
  intros f args h r h' H F. apply lib_shape in H. destruct H as [->|l0 c _ _ _ NF|c _ [->| ->]]; auto; simpl in *; congruence.
Qed.

Theorem lib_failure_value : forall f args h x h', lib f args h = (LArgsErr x, h') -> x = failure_of f args.
Proof.
  unfold lib. intros f args h x h' H.
  destruct (assoc f raw_table) as [g|] eqn:R.
  - apply assoc_raw in R. destruct R as [[-> ->]|[[-> ->]|[-> ->]]].
    + apply raw_arrayNew_shape in H. destruct H as [_ H]. discriminate.
    + apply raw_objectNew_shape in H. destruct H as [(kv & _ & H)|[_ H]]; [discriminate|]. inv H. reflexivity.
    + apply raw_stringFromCharCode_shape in H. destruct H as [_ [H|[H|[s H]]]]; try discriminate. inv H. reflexivity.
  - destruct (assoc f lib_table) as [k|] eqn:T.
    + apply validated_cases in H. destruct H as [[_ [H|[H|H]]]|(specs & fv & va & E & V & K)]; try discriminate.
      * inv H. reflexivity.
      * pose proof lib_table_fail as S. rewrite Forall_forall in S. specialize (S _ (assoc_In _ _ _ T)). simpl in S.
        eapply S; eauto.
    + discriminate.
Qed.

(* ====================================================================== regexEscape *)
Lemma N_mem_In : forall c l, N_mem c l = true <-> In c l.
Proof.
  induction l; simpl; [split; [discriminate|tauto]|].
  rewrite orb_true_iff, IHl, N.eqb_eq. split; intros [H|H]; auto.
Qed.

(* obligations on the table dumped from the interpreter (re._special_chars_map) *)
Lemma re_special_covers_meta : forallb (fun c => N_mem c gen_re_special) re_meta = true.
Proof. vm_compute. reflexivity. Qed.
Lemma re_special_not_alnum : forallb (fun c => negb (ascii_alnum c)) gen_re_special = true.
Proof. vm_compute. reflexivity. Qed.

Lemma regex_escape_cons : forall c s,
  regex_escape (c :: s) = (if N_mem c gen_re_special then [92%N; c] else [c]) ++ regex_escape s.
Proof. reflexivity. Qed.

Lemma pat_literal_escaped : forall c p, ascii_alnum c = false ->
  pat_literal (92%N :: c :: p) = option_map (cons c) (pat_literal p).
Proof. intros. cbn [pat_literal]. rewrite N.eqb_refl, H. reflexivity. Qed.
Lemma pat_literal_plain : forall c p, (c =? 92)%N = false -> N_mem c re_meta = false ->
  pat_literal (c :: p) = option_map (cons c) (pat_literal p).
Proof. intros. cbn [pat_literal]. rewrite H, H0. reflexivity. Qed.

Lemma regex_escape_literal : forall s, pat_literal (regex_escape s) = Some s.
Proof.
  induction s as [|c s IH]; [reflexivity|].
  rewrite regex_escape_cons.
  destruct (N_mem c gen_re_special) eqn:M.
  - pose proof re_special_not_alnum as A. rewrite forallb_forall in A.
    apply N_mem_In in M. apply A in M. apply negb_true_iff in M.
    change ([92%N; c] ++ regex_escape s) with (92%N :: c :: regex_escape s).
    rewrite pat_literal_escaped, IH by exact M. reflexivity.
  - pose proof re_special_covers_meta as C. rewrite forallb_forall in C.
    change ([c] ++ regex_escape s) with (c :: regex_escape s).
    rewrite pat_literal_plain, IH; [reflexivity| |].
    + destruct (c =? 92)%N eqn:E; [|reflexivity].
      apply N.eqb_eq in E. subst. assert (In 92%N re_meta) as H by (vm_compute; tauto). apply C in H. congruence.
    + destruct (N_mem c re_meta) eqn:M2; [|reflexivity].
      apply N_mem_In in M2. apply C in M2. congruence.
Qed.

(* the escaped pattern, read as a literal pattern, matches exactly s *)
Definition matches_lit (p t : str) : Prop := pat_literal p = Some t.
Theorem regex_escape_exact : forall s t, matches_lit (regex_escape s) t <-> t = s.
Proof. unfold matches_lit. intros. rewrite regex_escape_literal. split; congruence. Qed.

(* ====================================================================== URL encoding is reversible *)
Ltac Zify.zify_post_hook ::= Z.div_mod_to_equations.

Lemma Some_inj : forall {A} (a b : A), Some a = Some b -> a = b.
Proof. congruence. Qed.

Ltac nfacts c :=
  pose proof (N.div_mod c 64); pose proof (N.mod_lt c 64);
  pose proof (N.div_mod (c / 64) 64); pose proof (N.mod_lt (c / 64) 64);
  pose proof (N.div_mod (c / 4096) 64); pose proof (N.mod_lt (c / 4096) 64);
  pose proof (N.div_div c 64 64); pose proof (N.div_div c 4096 64);
  change (64 * 64)%N with 4096%N in *; change (4096 * 64)%N with 262144%N in *.

Definition scalar (c : N) : bool := ((c <? 55296) || (57343 <? c) && (c <? 1114112))%N.

Lemma utf8_enc1_scalar : forall c, scalar c = true -> exists b, utf8_enc1 c = Some b.
Proof. unfold scalar, utf8_enc1. intros c H. repeat match goal with |- context [if ?x then _ else _] => destruct x eqn:? end; eauto; lia. Qed.

Lemma utf8_enc1_bytes : forall c b, utf8_enc1 c = Some b -> Forall (fun x => x < 256)%N b.
Proof.
  unfold utf8_enc1. intros c b H.
  repeat match type of H with context [if ?x then _ else _] => destruct x eqn:? end;
    first [discriminate | apply Some_inj in H; subst b]; nfacts c; repeat (apply Forall_cons; [lia|]); apply Forall_nil.
Qed.

Lemma dec1 : forall b0 t, (b0 < 128)%N -> utf8_decode (b0 :: t) = option_map (cons b0) (utf8_decode t).
Proof. intros. cbn [utf8_decode]. replace (b0 <? 128)%N with true by lia. reflexivity. Qed.
Lemma dec2 : forall b0 b1 t, (192 <= b0 < 224)%N -> (128 <= b1 < 192)%N ->
  utf8_decode (b0 :: b1 :: t) = option_map (cons ((b0 - 192) * 64 + (b1 - 128))%N) (utf8_decode t).
Proof.
  intros. cbn [utf8_decode]. unfold cont.
  replace (b0 <? 128)%N with false by lia. replace (b0 <? 192)%N with false by lia. replace (b0 <? 224)%N with true by lia.
  replace ((128 <=? b1) && (b1 <? 192))%N with true by lia. reflexivity.
Qed.
Lemma dec3 : forall b0 b1 b2 t, (224 <= b0 < 240)%N -> (128 <= b1 < 192)%N -> (128 <= b2 < 192)%N ->
  utf8_decode (b0 :: b1 :: b2 :: t) = option_map (cons ((b0 - 224) * 4096 + (b1 - 128) * 64 + (b2 - 128))%N) (utf8_decode t).
Proof.
  intros. cbn [utf8_decode]. unfold cont.
  replace (b0 <? 128)%N with false by lia. replace (b0 <? 192)%N with false by lia. replace (b0 <? 224)%N with false by lia.
  replace (b0 <? 240)%N with true by lia.
  replace ((128 <=? b1) && (b1 <? 192))%N with true by lia. replace ((128 <=? b2) && (b2 <? 192))%N with true by lia. reflexivity.
Qed.
Lemma dec4 : forall b0 b1 b2 b3 t, (240 <= b0 < 248)%N -> (128 <= b1 < 192)%N -> (128 <= b2 < 192)%N -> (128 <= b3 < 192)%N ->
  utf8_decode (b0 :: b1 :: b2 :: b3 :: t)
  = option_map (cons ((b0 - 240) * 262144 + (b1 - 128) * 4096 + (b2 - 128) * 64 + (b3 - 128))%N) (utf8_decode t).
Proof.
  intros. cbn [utf8_decode]. unfold cont.
  replace (b0 <? 128)%N with false by lia. replace (b0 <? 192)%N with false by lia. replace (b0 <? 224)%N with false by lia.
  replace (b0 <? 240)%N with false by lia. replace (b0 <? 248)%N with true by lia.
  replace ((128 <=? b1) && (b1 <? 192))%N with true by lia. replace ((128 <=? b2) && (b2 <? 192))%N with true by lia.
  replace ((128 <=? b3) && (b3 <? 192))%N with true by lia. reflexivity.
Qed.

Lemma utf8_decode_enc1 : forall c b rest, utf8_enc1 c = Some b ->
  utf8_decode (b ++ rest) = option_map (cons c) (utf8_decode rest).
Proof.
  unfold utf8_enc1. intros c b rest H.
  repeat match type of H with context [if ?x then _ else _] => destruct x eqn:? end;
    first [discriminate | apply Some_inj in H; subst b]; nfacts c.
  - change ([c] ++ rest) with (c :: rest). apply dec1. lia.
  - change (utf8_decode ((192 + c / 64)%N :: (128 + c mod 64)%N :: rest) = option_map (cons c) (utf8_decode rest)).
    rewrite dec2 by lia. f_equal. f_equal. lia.
  - change (utf8_decode ((224 + c / 4096)%N :: (128 + (c / 64) mod 64)%N :: (128 + c mod 64)%N :: rest)
            = option_map (cons c) (utf8_decode rest)).
    rewrite dec3 by lia. f_equal. f_equal. lia.
  - change (utf8_decode ((240 + c / 262144)%N :: (128 + (c / 4096) mod 64)%N :: (128 + (c / 64) mod 64)%N :: (128 + c mod 64)%N :: rest)
            = option_map (cons c) (utf8_decode rest)).
    rewrite dec4 by lia. f_equal. f_equal. lia.
Qed.

Lemma utf8_roundtrip : forall s bs, utf8_encode s = Some bs -> utf8_decode bs = Some s /\ Forall (fun x => x < 256)%N bs.
Proof.
  induction s as [|c s IH]; simpl; intros bs H; [inv H; auto|].
  destruct (utf8_enc1 c) as [b|] eqn:E; [|discriminate]. destruct (utf8_encode s) as [r|] eqn:R; [|discriminate]. inv H.
  destruct (IH _ eq_refl) as [D F]. split.
  - rewrite (utf8_decode_enc1 _ _ _ E), D. reflexivity.
  - apply Forall_app. split; auto. eapply utf8_enc1_bytes; eauto.
Qed.

Lemma hex_val_digit : forall d, (d < 16)%N -> hex_val (hex_digit d) = Some d.
Proof.
  unfold hex_val, hex_digit. intros d H. destruct (d <? 10)%N eqn:E.
  - replace ((48 <=? 48 + d) && (48 + d <=? 57))%N with true by lia. f_equal. lia.
  - replace ((48 <=? 55 + d) && (55 + d <=? 57))%N with false by lia.
    replace ((65 <=? 55 + d) && (55 + d <=? 70))%N with true by lia. f_equal. lia.
Qed.

Lemma percent_decode_quote : forall safe bs, N_mem 37%N safe = false -> Forall (fun x => x < 256)%N bs ->
  percent_decode (flat_map (quote_byte safe) bs) = Some bs.
Proof.
  intros safe bs S F. induction F as [|b bs Hb F IH]; [reflexivity|].
  simpl flat_map. unfold quote_byte at 1. destruct (N_mem b safe) eqn:M.
  - simpl app. cbn [percent_decode]. destruct (b =? 37)%N eqn:E; [apply N.eqb_eq in E; congruence|]. rewrite IH. reflexivity.
  - pose proof (N.div_mod b 16). pose proof (N.mod_lt b 16).
    simpl app. cbn [percent_decode]. rewrite N.eqb_refl, !hex_val_digit, IH by lia. f_equal. f_equal. lia.
Qed.

(* obligation on the generated tables: '%' is never left unescaped *)
Lemma percent_not_safe : forallb (fun p => negb (N_mem 37%N (gen_url_always_safe ++ filter (fun c => c <? 128)%N (snd p)))) gen_url_safe = true.
Proof. vm_compute. reflexivity. Qed.

Theorem url_quote_reversible : forall f safe s r, url_safe_of f = Some safe -> url_quote safe s = Some r ->
  url_unquote r = Some s.
Proof.
  unfold url_safe_of, url_quote, url_unquote. intros f safe s r A Q.
  destruct (utf8_encode s) as [bs|] eqn:E; [|discriminate]. inv Q.
  destruct (utf8_roundtrip _ _ E) as [D F].
  rewrite percent_decode_quote; auto.
  pose proof percent_not_safe as P. rewrite forallb_forall in P. apply assoc_In in A. apply P in A. simpl in A.
  apply negb_true_iff in A. exact A.
Qed.

Theorem url_quote_total_on_scalars : forall safe s, forallb scalar s = true -> exists r, url_quote safe s = Some r.
Proof.
  unfold url_quote. intros safe s H.
  assert (exists bs, utf8_encode s = Some bs) as [bs ->]; [|eauto].
  induction s as [|c s IH]; simpl in *; [eauto|].
  apply andb_true_iff in H. destruct H as [Hc Hs]. destruct (utf8_enc1_scalar _ Hc) as [b ->].
  destruct (IH Hs) as [r ->]. eauto.
Qed.

(* ====================================================================== numbers: an integral number behaves as its integer
   (whichever spelling: NInt z, or any NFlt whose exact value is z) *)
Definition integral (n : num) (z : Z) : Prop := py_int n = Some z /\ num_eq (NInt z) n = true.

Lemma pow2_pos : forall e, 0 <= e -> 0 < 2 ^ e.
Proof. intros. apply Z.pow_pos_nonneg; lia. Qed.

Lemma xcmp_integral : forall z x w, xcmp (XDy z 0) x = Some Eq -> xcmp x (XDy w 0) = Some (z ?= w).
Proof.
  intros z x w H. destruct x as [|s|m ee]; simpl in H; try discriminate; [destruct s; discriminate|].
  unfold xcmp in *. f_equal. injection H as H1.
  rewrite (Z.min_comm ee 0).
  set (k := Z.min 0 ee) in *. assert (Hk : k <= 0 /\ k <= ee) by (unfold k; lia).
  replace (0 - k) with (- k) in * by lia.
  apply Z.compare_eq in H1.
  pose proof (pow2_pos (- k) ltac:(lia)) as P.
  destruct (z ?= w) eqn:C.
  - apply Z.compare_eq in C. subst. rewrite H1. apply Z.compare_refl.
  - apply Z.compare_lt_iff in C. apply Z.compare_lt_iff. rewrite <- H1. apply Z.mul_lt_mono_pos_r; auto.
  - apply Z.compare_gt_iff in C. apply Z.compare_gt_iff. rewrite <- H1. apply Z.mul_lt_mono_pos_r; auto.
Qed.

Lemma num_cmp_integral : forall n z w, integral n z -> num_cmp n (NInt w) = Some (z ?= w).
Proof.
  intros n z w [_ H]. unfold num_eq, num_cmp in *. simpl num_x in *.
  apply xcmp_integral. destruct (xcmp (XDy z 0) (num_x n)) as [[]|]; congruence.
Qed.

Lemma num_ge_integral : forall n z w, integral n z -> num_ge n (NInt w) = (w <=? z).
Proof. intros. unfold num_ge. rewrite (num_cmp_integral _ _ w H). destruct (Z.compare_spec z w); lia. Qed.
Lemma num_gt_integral : forall n z w, integral n z -> num_gt n (NInt w) = (w <? z).
Proof. intros. unfold num_gt. rewrite (num_cmp_integral _ _ w H). destruct (Z.compare_spec z w); lia. Qed.
Lemma num_lt_integral : forall n z w, integral n z -> num_lt n (NInt w) = (z <? w).
Proof. intros. unfold num_lt. rewrite (num_cmp_integral _ _ w H). destruct (Z.compare_spec z w); lia. Qed.

Lemma integral_int : forall z, integral (NInt z) z.
Proof. intros. split; [reflexivity|]. unfold num_eq, num_cmp. simpl. rewrite Z.compare_refl. reflexivity. Qed.

(* an `integer: True, gte: 0` argument (every index / count / size of the functions modelled here) *)
Definition index_spec (sp : argspec) : Prop :=
  as_integer sp = true /\ as_lt sp = None /\ as_lte sp = None /\ as_gt sp = None /\ as_gte sp = Some (LInt 0).
Lemma number_fails_index : forall sp n z, index_spec sp -> integral n z -> number_fails sp n = Some (z <? 0).
Proof.
  intros sp n z (I & A & B & C & D) H. unfold number_fails. rewrite I, A, B, C, D. destruct H as [P E]. rewrite P, E.
  simpl. rewrite (num_ge_integral n z 0 (conj P E)). f_equal. lia.
Qed.

Lemma index_guard_integral : forall n z k, integral n z ->
  index_guard (VNum n) k = if Z.of_nat k <=? z then Some None else Some (Some z).
Proof. intros n z k H. unfold index_guard. simpl. rewrite (num_ge_integral _ _ _ H). destruct H as [-> _]. reflexivity. Qed.

(* ====================================================================== refinement to the pure list / map specification
   Each theorem runs the WHOLE call (generic validation over the generated table, guards, int() conversions) and states
   the result in terms of plain list / association-list operations.  Indices are any number whose exact value is the
   integer z (`integral n z`): the int spelling and every float spelling alike. *)
Ltac open_lib name :=
  unfold lib;
  let r := eval vm_compute in (assoc name raw_table) in
  change (assoc name raw_table) with r; cbv beta iota;
  unfold validated;
  let sp := eval vm_compute in (assoc_spec name gen_arg_specs) in
  change (assoc_spec name gen_arg_specs) with sp; cbv beta iota.
Ltac table_entry name k :=
  change (assoc name lib_table) with (Some k); cbv beta iota.
Ltac validate_step := cbn [args_validate as_last as_default as_type as_nullable type_ok negb as_num vcons lit_value].
Ltac idx n z H := rewrite (number_fails_index _ n z); [ | repeat split; reflexivity | exact H ].

Lemma nth_error_in_range : forall {A} (xs : list A) z, 0 <= z < len xs -> exists v, nth_error xs (Z.to_nat z) = Some v.
Proof.
  unfold len. intros A xs z H. destruct (nth_error xs (Z.to_nat z)) eqn:E; eauto.
  apply nth_error_None in E. lia.
Qed.

Lemma py_index_in_range : forall k z, 0 <= z < Z.of_nat k -> py_index k z = Some (Z.to_nat z).
Proof. unfold py_index. intros. cbv zeta. replace (z <? 0) with false by lia. cbv iota. replace ((0 <=? z) && (z <? Z.of_nat k)) with true by lia. reflexivity. Qed.

Theorem arrayGet_spec : forall h l xs n z v, hget h l = Some (CArr xs) -> integral n z -> 0 <= z < len xs ->
  nth_error xs (Z.to_nat z) = Some v ->
  lib (U "arrayGet") [VArr l; VNum n] h = (LOk v, h).
Proof.
  intros h l xs n z v Hl Hn Hz Hv. unfold len in Hz.
  open_lib (U "arrayGet"). table_entry (U "arrayGet") k_arrayGet. validate_step. idx n z Hn.
  replace (z <? 0) with false by lia. validate_step. unfold k_arrayGet. rewrite Hl, (index_guard_integral n z _ Hn).
  replace (Z.of_nat (length xs) <=? z) with false by lia. rewrite py_index_in_range, Hv by lia. reflexivity.
Qed.

Theorem arrayGet_out_of_range : forall h l xs n z, hget h l = Some (CArr xs) -> integral n z -> (z < 0 \/ len xs <= z) ->
  lib (U "arrayGet") [VArr l; VNum n] h = (LArgsErr VNull, h).
Proof.
  intros h l xs n z Hl Hn Hz. unfold len in Hz.
  open_lib (U "arrayGet"). table_entry (U "arrayGet") k_arrayGet. validate_step. idx n z Hn.
  destruct (z <? 0) eqn:E; [reflexivity|]. validate_step. unfold k_arrayGet. rewrite Hl, (index_guard_integral n z _ Hn).
  replace (Z.of_nat (length xs) <=? z) with true by lia. reflexivity.
Qed.

Theorem arraySet_spec : forall h l xs n z v, hget h l = Some (CArr xs) -> integral n z -> 0 <= z < len xs ->
  lib (U "arraySet") [VArr l; VNum n; v] h = (LOk v, hset h l (CArr (set_nth xs (Z.to_nat z) v))).
Proof.
  intros h l xs n z v Hl Hn Hz. unfold len in Hz.
  open_lib (U "arraySet"). table_entry (U "arraySet") k_arraySet. validate_step. idx n z Hn.
  replace (z <? 0) with false by lia. validate_step. unfold k_arraySet. rewrite Hl, (index_guard_integral n z _ Hn).
  replace (Z.of_nat (length xs) <=? z) with false by lia. rewrite py_index_in_range by lia. reflexivity.
Qed.

Theorem arraySet_out_of_range : forall h l xs n z v, hget h l = Some (CArr xs) -> integral n z -> (z < 0 \/ len xs <= z) ->
  lib (U "arraySet") [VArr l; VNum n; v] h = (LArgsErr VNull, h).
Proof.
  intros h l xs n z v Hl Hn Hz. unfold len in Hz.
  open_lib (U "arraySet"). table_entry (U "arraySet") k_arraySet. validate_step. idx n z Hn.
  destruct (z <? 0) eqn:E; [reflexivity|]. validate_step. unfold k_arraySet. rewrite Hl, (index_guard_integral n z _ Hn).
  replace (Z.of_nat (length xs) <=? z) with true by lia. reflexivity.
Qed.

Theorem arrayDelete_spec : forall h l xs n z, hget h l = Some (CArr xs) -> integral n z -> 0 <= z < len xs ->
  lib (U "arrayDelete") [VArr l; VNum n] h = (LOk VNull, hset h l (CArr (remove_nth xs (Z.to_nat z)))).
Proof.
  intros h l xs n z Hl Hn Hz. unfold len in Hz.
  open_lib (U "arrayDelete"). table_entry (U "arrayDelete") k_arrayDelete. validate_step. idx n z Hn.
  replace (z <? 0) with false by lia. validate_step. unfold k_arrayDelete. rewrite Hl, (index_guard_integral n z _ Hn).
  replace (Z.of_nat (length xs) <=? z) with false by lia. rewrite py_index_in_range by lia. reflexivity.
Qed.

Theorem arrayPush_spec : forall h l xs vs, hget h l = Some (CArr xs) ->
  lib (U "arrayPush") (VArr l :: vs) h = (LOk (VArr l), hset h l (CArr (xs ++ vs))).
Proof.
  intros h l xs vs Hl.
  open_lib (U "arrayPush"). table_entry (U "arrayPush") k_arrayPush. validate_step.
  destruct vs; validate_step; unfold k_arrayPush; rewrite Hl; reflexivity.
Qed.

Theorem arrayPop_spec : forall h l ys v, hget h l = Some (CArr (ys ++ [v])) ->
  lib (U "arrayPop") [VArr l] h = (LOk v, hset h l (CArr ys)).
Proof.
  intros h l ys v Hl.
  open_lib (U "arrayPop"). table_entry (U "arrayPop") k_arrayPop. validate_step. unfold k_arrayPop. rewrite Hl.
  rewrite rev_app_distr. simpl. rewrite removelast_last. reflexivity.
Qed.

Theorem arrayPop_empty : forall h l, hget h l = Some (CArr []) -> lib (U "arrayPop") [VArr l] h = (LArgsErr VNull, h).
Proof. intros h l Hl. open_lib (U "arrayPop"). table_entry (U "arrayPop") k_arrayPop. validate_step. unfold k_arrayPop. rewrite Hl. reflexivity. Qed.

Theorem arrayShift_spec : forall h l v xs, hget h l = Some (CArr (v :: xs)) ->
  lib (U "arrayShift") [VArr l] h = (LOk v, hset h l (CArr xs)).
Proof. intros h l v xs Hl. open_lib (U "arrayShift"). table_entry (U "arrayShift") k_arrayShift. validate_step. unfold k_arrayShift. rewrite Hl. reflexivity. Qed.

(* arrayExtend(a, b), b possibly the same array as a *)
Theorem arrayExtend_spec : forall h l l2 xs ys, hget h l = Some (CArr xs) -> hget h l2 = Some (CArr ys) ->
  lib (U "arrayExtend") [VArr l; VArr l2] h = (LOk (VArr l), hset h l (CArr (xs ++ ys))).
Proof.
  intros h l l2 xs ys Hl Hl2. open_lib (U "arrayExtend"). table_entry (U "arrayExtend") k_arrayExtend. validate_step.
  unfold k_arrayExtend. rewrite Hl, Hl2. reflexivity.
Qed.

Theorem arrayLength_spec : forall h l xs, hget h l = Some (CArr xs) ->
  lib (U "arrayLength") [VArr l] h = (LOk (VNum (NInt (len xs))), h).
Proof. intros h l xs Hl. open_lib (U "arrayLength"). table_entry (U "arrayLength") k_arrayLength. validate_step. unfold k_arrayLength. rewrite Hl. reflexivity. Qed.

Theorem arrayCopy_spec : forall h l xs, hget h l = Some (CArr xs) ->
  lib (U "arrayCopy") [VArr l] h = (LOk (VArr (length h)), h ++ [CArr xs]).
Proof. intros h l xs Hl. open_lib (U "arrayCopy"). table_entry (U "arrayCopy") k_arrayCopy. validate_step. unfold k_arrayCopy. rewrite Hl. reflexivity. Qed.

Lemma py_bound_in_range : forall k z, 0 <= z <= Z.of_nat k -> py_bound k z = Z.to_nat z.
Proof. unfold py_bound. intros. cbv zeta. replace (z <? 0) with false by lia. cbv iota. replace (z <? 0) with false by lia.
  replace (Z.of_nat k <? z) with false by lia. reflexivity. Qed.

Theorem arraySlice_spec : forall h l xs n1 s n2 e, hget h l = Some (CArr xs) -> integral n1 s -> integral n2 e ->
  0 <= s <= len xs -> 0 <= e <= len xs ->
  lib (U "arraySlice") [VArr l; VNum n1; VNum n2] h
  = (LOk (VArr (length h)), h ++ [CArr (skipn (Z.to_nat s) (firstn (Z.to_nat e) xs))]).
Proof.
  intros h l xs n1 s n2 e Hl H1 H2 Hs He. unfold len in *.
  open_lib (U "arraySlice"). table_entry (U "arraySlice") k_arraySlice. validate_step. idx n1 s H1.
  replace (s <? 0) with false by lia. validate_step. idx n2 e H2. replace (e <? 0) with false by lia. validate_step.
  unfold k_arraySlice. rewrite Hl. cbn [as_num]. unfold len.
  rewrite (num_gt_integral _ _ _ H1), (num_gt_integral _ _ _ H2).
  replace (Z.of_nat (length xs) <? s) with false by lia. replace (Z.of_nat (length xs) <? e) with false by lia.
  destruct H1 as [-> _]. destruct H2 as [-> _]. unfold py_slice, halloc. rewrite !py_bound_in_range by lia. reflexivity.
Qed.

(* a slice never shares with its source, even when it covers the whole array (start and end omitted) *)
Theorem arraySlice_whole : forall h l xs, hget h l = Some (CArr xs) ->
  lib (U "arraySlice") [VArr l] h = (LOk (VArr (length h)), h ++ [CArr xs]).
Proof.
  intros h l xs Hl. open_lib (U "arraySlice"). table_entry (U "arraySlice") k_arraySlice. validate_step.
  unfold k_arraySlice. rewrite Hl. cbn [as_num vint].
  rewrite (num_gt_integral _ _ _ (integral_int 0)), (num_gt_integral _ _ _ (integral_int (len xs))). unfold len.
  replace (Z.of_nat (length xs) <? 0) with false by lia. rewrite Z.ltb_irrefl. cbn [py_int].
  unfold py_slice, halloc. rewrite !py_bound_in_range by lia. rewrite Nat2Z.id, firstn_all. reflexivity.
Qed.

(* ---- objects: association lists with distinct keys are finite maps -------------------------------------------------- *)
Lemma assoc_dict_set_same : forall kv k v, assoc k (dict_set kv k v) = Some v.
Proof.
  induction kv as [|[k' v'] kv IH]; intros k v; simpl; [rewrite str_eqb_refl; reflexivity|].
  destruct (str_eqb k k') eqn:E; simpl; rewrite E; auto.
Qed.
Lemma assoc_dict_set_other : forall kv k k' v, k' <> k -> assoc k' (dict_set kv k v) = assoc k' kv.
Proof.
  induction kv as [|[k0 v0] kv IH]; intros k k' v N; simpl.
  - apply str_eqb_neq in N. rewrite N. reflexivity.
  - destruct (str_eqb k k0) eqn:E; simpl.
    + apply str_eqb_eq in E. subst. apply str_eqb_neq in N. rewrite N. reflexivity.
    + destruct (str_eqb k' k0); auto.
Qed.
Lemma in_dict_set_keys : forall kv k v x, In x (map fst (dict_set kv k v)) -> x = k \/ In x (map fst kv).
Proof.
  induction kv as [|[k0 v0] kv IH]; intros k v x H; simpl in *.
  - destruct H; auto.
  - destruct (str_eqb k k0) eqn:E; simpl in *; [tauto|]. destruct H as [H|H]; auto. apply IH in H. tauto.
Qed.
Lemma dict_set_nodup : forall kv k v, NoDup (map fst kv) -> NoDup (map fst (dict_set kv k v)).
Proof.
  induction kv as [|[k0 v0] kv IH]; intros k v H; simpl.
  - constructor; [intros []|constructor].
  - destruct (str_eqb k k0) eqn:E; simpl; [exact H|]. inv H. constructor; auto.
    intro I. apply in_dict_set_keys in I. destruct I as [->|I]; auto. rewrite str_eqb_refl in E. discriminate.
Qed.
Lemma in_dict_del_keys : forall kv k x, In x (map fst (dict_del kv k)) -> In x (map fst kv).
Proof.
  induction kv as [|[k0 v0] kv IH]; intros k x H; simpl in *; auto.
  destruct (str_eqb k k0); simpl in *; auto. destruct H; eauto.
Qed.
Lemma dict_del_nodup : forall kv k, NoDup (map fst kv) -> NoDup (map fst (dict_del kv k)).
Proof.
  induction kv as [|[k0 v0] kv IH]; intros k H; simpl; auto.
  inv H. destruct (str_eqb k k0); simpl; auto. constructor; auto. intro I. apply in_dict_del_keys in I. auto.
Qed.
Lemma assoc_not_in : forall {A} (kv : list (str * A)) k, ~ In k (map fst kv) -> assoc k kv = None.
Proof.
  induction kv as [|[k0 v0] kv IH]; intros k H; simpl in *; auto.
  destruct (str_eqb k k0) eqn:E; [apply str_eqb_eq in E; subst; tauto|]. apply IH. tauto.
Qed.
Lemma assoc_dict_del_same : forall kv k, NoDup (map fst kv) -> assoc k (dict_del kv k) = None.
Proof.
  induction kv as [|[k0 v0] kv IH]; intros k H; simpl; auto. inv H.
  destruct (str_eqb k k0) eqn:E; simpl.
  - apply str_eqb_eq in E. subst. apply assoc_not_in. auto.
  - rewrite E. auto.
Qed.
Lemma assoc_dict_del_other : forall kv k k', k' <> k -> assoc k' (dict_del kv k) = assoc k' kv.
Proof.
  induction kv as [|[k0 v0] kv IH]; intros k k' N; simpl; auto.
  destruct (str_eqb k k0) eqn:E; simpl.
  - apply str_eqb_eq in E. subst. apply str_eqb_neq in N. rewrite N. reflexivity.
  - destruct (str_eqb k' k0); auto.
Qed.

Theorem objectGet_spec : forall h l kv k d, hget h l = Some (CObj kv) ->
  lib (U "objectGet") [VObj l; VStr k; d] h = (LOk (match assoc k kv with Some v => v | None => d end), h).
Proof. intros h l kv k d Hl. open_lib (U "objectGet"). table_entry (U "objectGet") k_objectGet. validate_step. unfold k_objectGet. rewrite Hl. reflexivity. Qed.

(* a key that is present with the value null is NOT replaced by the default *)
Theorem objectGet_present_null : forall h l kv k d, hget h l = Some (CObj kv) -> assoc k kv = Some VNull ->
  lib (U "objectGet") [VObj l; VStr k; d] h = (LOk VNull, h).
Proof. intros. rewrite (objectGet_spec _ _ _ _ _ H), H0. reflexivity. Qed.

Theorem objectSet_spec : forall h l kv k v, hget h l = Some (CObj kv) ->
  lib (U "objectSet") [VObj l; VStr k; v] h = (LOk v, hset h l (CObj (dict_set kv k v))).
Proof. intros h l kv k v Hl. open_lib (U "objectSet"). table_entry (U "objectSet") k_objectSet. validate_step. unfold k_objectSet. rewrite Hl. reflexivity. Qed.

Theorem objectHas_spec : forall h l kv k, hget h l = Some (CObj kv) ->
  lib (U "objectHas") [VObj l; VStr k] h = (LOk (VBool (match assoc k kv with Some _ => true | None => false end)), h).
Proof. intros h l kv k Hl. open_lib (U "objectHas"). table_entry (U "objectHas") k_objectHas. validate_step. unfold k_objectHas. rewrite Hl. reflexivity. Qed.

Theorem objectDelete_spec : forall h l kv k, hget h l = Some (CObj kv) ->
  lib (U "objectDelete") [VObj l; VStr k] h = (LOk VNull, hset h l (CObj (dict_del kv k))).
Proof. intros h l kv k Hl. open_lib (U "objectDelete"). table_entry (U "objectDelete") k_objectDelete. validate_step. unfold k_objectDelete. rewrite Hl. reflexivity. Qed.

Theorem objectKeys_spec : forall h l kv, hget h l = Some (CObj kv) ->
  lib (U "objectKeys") [VObj l] h = (LOk (VArr (length h)), h ++ [CArr (map (fun p => VStr (fst p)) kv)]).
Proof. intros h l kv Hl. open_lib (U "objectKeys"). table_entry (U "objectKeys") k_objectKeys. validate_step. unfold k_objectKeys. rewrite Hl. reflexivity. Qed.

Theorem objectCopy_spec : forall h l kv, hget h l = Some (CObj kv) ->
  lib (U "objectCopy") [VObj l] h = (LOk (VObj (length h)), h ++ [CObj kv]).
Proof. intros h l kv Hl. open_lib (U "objectCopy"). table_entry (U "objectCopy") k_objectCopy. validate_step. unfold k_objectCopy. rewrite Hl. reflexivity. Qed.

Theorem objectAssign_spec : forall h l l2 kv kv2, hget h l = Some (CObj kv) -> hget h l2 = Some (CObj kv2) ->
  lib (U "objectAssign") [VObj l; VObj l2] h = (LOk (VObj l), hset h l (CObj (dict_update kv kv2))).
Proof.
  intros h l l2 kv kv2 Hl Hl2. open_lib (U "objectAssign"). table_entry (U "objectAssign") k_objectAssign. validate_step.
  unfold k_objectAssign. rewrite Hl, Hl2. reflexivity.
Qed.

(* wrong-typed first argument (every type, booleans included): the documented failure value, nothing changes *)
Theorem arrayGet_wrong_type : forall h v rest, (forall l, v <> VArr l) ->
  lib (U "arrayGet") (v :: rest) h = (LArgsErr VNull, h).
Proof.
  intros h v rest N. open_lib (U "arrayGet"). table_entry (U "arrayGet") k_arrayGet. validate_step.
  destruct v; try reflexivity. exfalso. eapply N. reflexivity.
Qed.
Theorem arrayGet_wrong_index_type : forall h l v, (forall n, v <> VNum n) ->
  lib (U "arrayGet") [VArr l; v] h = (LArgsErr VNull, h).
Proof.
  intros h l v N. open_lib (U "arrayGet"). table_entry (U "arrayGet") k_arrayGet. validate_step.
  destruct v; try reflexivity. exfalso. eapply N. reflexivity.
Qed.
Theorem arrayLength_wrong_type : forall h v rest, (forall l, v <> VArr l) ->
  lib (U "arrayLength") (v :: rest) h = (LArgsErr (VNum (NInt 0)), h).
Proof.
  intros h v rest N. open_lib (U "arrayLength"). table_entry (U "arrayLength") k_arrayLength. validate_step.
  destruct v; try reflexivity. exfalso. eapply N. reflexivity.
Qed.

(* ====================================================================== what a successful validation guarantees *)
Definition from_default (sp : argspec) (v : value) : Prop := exists d, as_default sp = Some d /\ v = lit_value d.
Definition arg_conforms (sp : argspec) (a : varg) : Prop :=
  match a with
  | AL _ => as_last sp = true
  | AV v => as_last sp = false /\
      (from_default sp v \/
       match as_type sp with
       | None => True
       | Some TBoolean => exists b, v = VBool b
       | Some t => (v = VNull /\ as_nullable sp = true) \/
                   (type_ok t v = true /\ forall n, t = TNumber -> v = VNum n -> number_fails sp n = Some false)
       end)
  end.

Lemma validate_conforms : forall h specs args va,
  args_validate h specs args = VOk va -> Forall2 arg_conforms specs va.
Proof.
  induction specs as [|sp specs IH]; intros args va H.
  - destruct args; simpl in H; inv H. constructor.
  - destruct args as [|a args]; simpl in H.
    + destruct (as_last sp) eqn:L.
      * apply vcons_ok in H. destruct H as (t & H & ->). constructor; [exact L | eauto].
      * destruct (as_default sp) as [d|] eqn:D.
        { apply vcons_ok in H. destruct H as (t & H & ->). constructor; [|eauto]. split; auto. left. exists d. auto. }
        destruct (as_type sp) as [[]|] eqn:T;
          try (destruct (as_nullable sp) eqn:Nl; [|discriminate]);
          apply vcons_ok in H; destruct H as (t & H & ->); (constructor; [|eauto]); split; auto; right; rewrite T; eauto.
    + destruct (as_last sp) eqn:L.
      * apply vcons_ok in H. destruct H as (t & H & ->). constructor; [exact L | eauto].
      * destruct (as_type sp) as [ty|] eqn:T.
        2:{ apply vcons_ok in H. destruct H as (t & H & ->). constructor; [|eauto]. split; auto. right. rewrite T. exact I. }
        destruct ty;
          try (destruct (value_boolean h a) eqn:VB; [|discriminate];
               apply vcons_ok in H; destruct H as (t & H & ->); (constructor; [|eauto]); split; auto; right; rewrite T; eauto; fail);
          (destruct a;
            try (destruct (as_nullable sp) eqn:Nl; [|discriminate];
                 apply vcons_ok in H; destruct H as (t & H & ->); (constructor; [|eauto]); split; auto; right; rewrite T; left; auto; fail);
            simpl in H; try discriminate;
            try (apply vcons_ok in H; destruct H as (t & H & ->); (constructor; [|eauto]); split; auto; right; rewrite T; right;
                 split; [reflexivity | intros; discriminate]; fail)).
        (* the number case *)
        destruct (number_fails sp n) as [[]|] eqn:NF; try discriminate.
        apply vcons_ok in H. destruct H as (t & H & ->). constructor; [|eauto]. split; auto. right. rewrite T. right.
        split; [reflexivity|]. intros n0 _ E. inv E. exact NF.
Qed.

(* a PRESENT argument at a typed position survives validation only if it has that type (or is null and nullable) *)
Lemma validate_present : forall h specs args va i sp v t,
  args_validate h specs args = VOk va ->
  nth_error args i = Some v -> nth_error specs i = Some sp ->
  (forall j sp', (j <= i)%nat -> nth_error specs j = Some sp' -> as_last sp' = false) ->
  as_type sp = Some t -> t <> TBoolean ->
  (v = VNull /\ as_nullable sp = true) \/ type_ok t v = true.
Proof.
  induction specs as [|sp0 specs IH]; intros args va i sp v t H A Sp NL T NB.
  - destruct i; discriminate.
  - destruct args as [|a args]; [destruct i; discriminate|].
    assert (L0 : as_last sp0 = false) by (apply (NL O sp0); [lia|reflexivity]).
    simpl in H. rewrite L0 in H.
    destruct i as [|i]; simpl in A, Sp.
    + inv A. inv Sp. rewrite T in H. destruct t; try congruence;
        (destruct v; simpl in H; try discriminate; auto;
         destruct (as_nullable sp) eqn:Nl; [auto|discriminate]).
    + assert (exists t0, args_validate h specs args = VOk t0) as [t0 H0].
      { destruct (as_type sp0) as [ty|];
          [destruct ty; repeat break_match_hyp; try discriminate; apply vcons_ok in H; destruct H as (t0 & H & _); eauto
          | apply vcons_ok in H; destruct H as (t0 & H & _); eauto]. }
      eapply IH; eauto. intros j sp' Hj Hs. apply (NL (S j) sp'); [lia|exact Hs].
Qed.

(* WRONG TYPE, every function of the table, every typed position, every value of another type (booleans where a number is
   declared included): the call fails, nothing changes, and a ValueArgsError carries the table's failure value *)
Theorem lib_wrong_type : forall f k specs fv args h i sp v t r h',
  assoc f raw_table = None -> assoc f lib_table = Some k -> assoc_spec f gen_arg_specs = Some (specs, fv) ->
  nth_error specs i = Some sp -> as_type sp = Some t -> t <> TBoolean ->
  (forall j sp', (j <= i)%nat -> nth_error specs j = Some sp' -> as_last sp' = false) ->
  nth_error args i = Some v -> type_ok t v = false -> (v <> VNull \/ as_nullable sp = false) ->
  lib f args h = (r, h') ->
  h' = h /\ is_fail r = true /\ (forall x, r = LArgsErr x -> x = failure_of f args).
Proof.
  intros f k specs fv args h i sp v t r h' R T E S Ty NB NL A W NN H.
  assert (F : is_fail r = true).
  { destruct r; try reflexivity. exfalso. unfold lib in H. rewrite R, T in H.
    apply validated_cases in H. destruct H as [[_ [H|[H|H]]]|(specs' & fv' & va & E' & V & K)]; try discriminate.
    rewrite E in E'. inv E'.
    destruct (validate_present _ _ _ _ _ _ _ _ V A S NL Ty NB) as [[-> Nl]|Ok]; [|congruence].
    destruct NN; congruence. }
  split; [eapply lib_failure_atomic; eauto|]. split; auto.
  intros x ->. eapply lib_failure_value; eauto.
Qed.

(* non-vacuity: a boolean where arrayGet wants its index, and an object where stringSlice wants a string *)
Example lib_wrong_type_bool_index : forall h l, exists r,
  lib (U "arrayGet") [VArr l; VBool true] h = (r, h) /\ r = LArgsErr VNull.
Proof. intros. eexists. split; reflexivity. Qed.

(* ====================================================================== histories *)
Lemma lib_heap_grows : forall f args h r h', lib f args h = (r, h') -> (length h <= length h')%nat.
Proof.
  intros. apply lib_shape in H. destruct H as [->|l c _ _ -> _|c -> _]; auto.
  - rewrite hset_length. auto.
  - rewrite app_length. simpl. lia.
Qed.

(* the container a statement passes as first argument, in the environment it runs in *)
Definition op_target (e : env) (o : op) : option loc :=
  match o with
  | OCall f l => match eval_args e l with Some vs => arg_loc vs | None => None end
  | _ => None
  end.
(* the containers passed as first argument anywhere in a history *)
Fixpoint touched (ops : list op) (st : env * heap) : list loc :=
  match ops with
  | [] => []
  | o :: t => (match op_target (fst st) o with Some l => [l] | None => [] end)
              ++ (match run_op (Some st) o with Some st' => touched t st' | None => [] end)
  end.

Lemma run_op_step : forall e h o e' h', run_op (Some (e, h)) o = Some (e', h') ->
  (length h <= length h')%nat /\ (exists v, e' = e ++ [v])
  /\ forall l, (l < length h)%nat -> op_target e o <> Some l -> hget h' l = hget h l.
Proof.
  intros e h o e' h' H. destruct o as [f la|n|v]; simpl in H.
  - destruct (eval_args e la) as [vs|] eqn:E; [|discriminate].
    destruct (lib f vs h) as [r h1] eqn:L. destruct (wrapper r) as [v|]; [|discriminate]. inv H.
    split; [eapply lib_heap_grows; eauto|]. split; [eauto|].
    intros l Hl T. simpl in T. rewrite E in T. eapply lib_frame; eauto.
  - destruct (nth_error e n); inv H. eauto.
  - inv H. eauto.
Qed.

Lemma fold_run_none : forall ops, fold_left run_op ops None = None.
Proof. induction ops; simpl; auto. Qed.

(* HISTORY-FRAME: after ANY history of calls, a container that was never passed as the first argument of a call still has
   exactly its old contents (whatever aliases exist, whatever else happened), the heap only grew, and the variables were
   only appended to *)
Theorem history_frame : forall ops st st', run_ops ops st = Some st' ->
  (length (snd st) <= length (snd st'))%nat /\ (exists e2, fst st' = fst st ++ e2 /\ length e2 = length ops)
  /\ forall l, (l < length (snd st))%nat -> ~ In l (touched ops st) -> hget (snd st') l = hget (snd st) l.
Proof.
  unfold run_ops. induction ops as [|o ops IH]; intros [e h] st' H.
  - simpl in H. inv H. split; auto. split; [exists []; rewrite app_nil_r; auto|]. auto.
  - change (fold_left run_op (o :: ops) (Some (e, h))) with (fold_left run_op ops (run_op (Some (e, h)) o)) in H.
    destruct (run_op (Some (e, h)) o) as [[e1 h1]|] eqn:R; [|rewrite fold_run_none in H; discriminate].
    destruct (run_op_step _ _ _ _ _ R) as (G & (v & ->) & F).
    destruct (IH _ _ H) as (G2 & (e2 & E2 & L2) & F2). simpl in *.
    split; [lia|]. split.
    + exists (v :: e2). rewrite E2, <- app_assoc. simpl. auto.
    + intros l Hl N. rewrite R in N. rewrite F2; [apply F; auto|lia|].
      * intro T. apply N. rewrite T. simpl. auto.
      * intro I. apply N. apply in_or_app. auto.
Qed.

(* ---- strings are immutable code-point sequences: every string function leaves the heap alone or only allocates ------- *)
Theorem stringCharCodeAt_spec : forall h s n z c, integral n z -> 0 <= z < len s -> nth_error s (Z.to_nat z) = Some c ->
  lib (U "stringCharCodeAt") [VStr s; VNum n] h = (LOk (VNum (NInt (Z.of_N c))), h).
Proof.
  intros h s n z c Hn Hz Hc. unfold len in Hz.
  open_lib (U "stringCharCodeAt"). table_entry (U "stringCharCodeAt") k_stringCharCodeAt. validate_step. idx n z Hn.
  replace (z <? 0) with false by lia. validate_step. unfold k_stringCharCodeAt. rewrite (index_guard_integral n z _ Hn).
  replace (Z.of_nat (length s) <=? z) with false by lia. rewrite py_index_in_range, Hc by lia. reflexivity.
Qed.

Theorem stringSlice_spec : forall h s n1 st n2 e, integral n1 st -> integral n2 e -> 0 <= st <= len s -> 0 <= e <= len s ->
  lib (U "stringSlice") [VStr s; VNum n1; VNum n2] h = (LOk (VStr (skipn (Z.to_nat st) (firstn (Z.to_nat e) s))), h).
Proof.
  intros h s n1 st n2 e H1 H2 Hs He. unfold len in *.
  open_lib (U "stringSlice"). table_entry (U "stringSlice") k_stringSlice. validate_step. idx n1 st H1.
  replace (st <? 0) with false by lia. validate_step. idx n2 e H2. replace (e <? 0) with false by lia. validate_step.
  unfold k_stringSlice. cbn [as_num]. unfold len.
  rewrite (num_gt_integral _ _ _ H1), (num_gt_integral _ _ _ H2).
  replace (Z.of_nat (length s) <? st) with false by lia. replace (Z.of_nat (length s) <? e) with false by lia.
  destruct H1 as [-> _]. destruct H2 as [-> _]. unfold py_slice. rewrite !py_bound_in_range by lia. reflexivity.
Qed.

Theorem stringLength_spec : forall h s, lib (U "stringLength") [VStr s] h = (LOk (VNum (NInt (len s))), h).
Proof. intros. open_lib (U "stringLength"). table_entry (U "stringLength") k_stringLength. validate_step. reflexivity. Qed.

(* a float spelling of an index: 2.0 is integral with value 2 *)
Example integral_float_two : integral (NFlt (Z_to_sf 2)) 2.
Proof. split; vm_compute; reflexivity. Qed.
Example arraySet_float_index : forall h l a b c v, hget h l = Some (CArr [a; b; c]) ->
  lib (U "arraySet") [VArr l; VNum (NFlt (Z_to_sf 2)); v] h = (LOk v, hset h l (CArr [a; b; v])).
Proof. intros. rewrite (arraySet_spec h l [a; b; c] _ 2 v H integral_float_two); [reflexivity | unfold len; simpl; lia]. Qed.

(* a copy is not affected by any later history that does not pass the copy itself *)
Example copy_is_independent : forall ops e h l xs st',
  hget h l = Some (CArr xs) ->
  let h1 := h ++ [CArr xs] in
  lib (U "arrayCopy") [VArr l] h = (LOk (VArr (length h)), h1) /\
  (run_ops ops (e, h1) = Some st' -> ~ In (length h) (touched ops (e, h1)) -> hget (snd st') (length h) = Some (CArr xs)).
Proof.
  intros ops e h l xs st' Hl h1. split; [apply arrayCopy_spec; auto|].
  intros R N. destruct (history_frame _ _ _ R) as (_ & _ & F). simpl in F. rewrite F; auto.
  - unfold h1. apply hget_app_new.
  - unfold h1. rewrite app_length. simpl. lia.
Qed.

(* ====================================================================== strings: split / join / replace *)
Lemma join_with_cons : forall sep p t, t <> [] -> join_with sep (p :: t) = p ++ sep ++ join_with sep t.
Proof. intros sep p [|q t] H; [congruence|reflexivity]. Qed.

Lemma split_go_nonempty : forall sep s cur k, split_go sep s cur k <> [].
Proof.
  induction s as [|c t IH]; intros cur k; simpl; [discriminate|].
  destruct k; [destruct (str_prefix sep (c :: t)); [discriminate|apply IH] | apply IH].
Qed.

Lemma str_prefix_app : forall p s, str_prefix p s = true -> s = p ++ skipn (length p) s.
Proof.
  induction p as [|x p IH]; intros [|y s] H; simpl in *; try discriminate; auto.
  apply andb_true_iff in H. destruct H as [E H]. apply N.eqb_eq in E. subst. f_equal. apply IH, H.
Qed.

Lemma split_go_join : forall sep s cur k, sep <> [] ->
  join_with sep (split_go sep s cur k) = rev cur ++ skipn k s.
Proof.
  intros sep s cur k NE. revert cur k. induction s as [|c t IH]; intros cur k.
  - simpl. rewrite skipn_nil, app_nil_r. reflexivity.
  - destruct k as [|k]; [|simpl; apply IH].
    cbn [split_go]. destruct (str_prefix sep (c :: t)) eqn:P.
    + rewrite join_with_cons by apply split_go_nonempty. rewrite IH.
      destruct sep as [|x sep']; [congruence|].
      apply str_prefix_app in P.
      replace (length (x :: sep') - 1)%nat with (length sep') by (simpl; lia).
      change (skipn (length (x :: sep')) (c :: t)) with (skipn (length sep') t) in P.
      change (skipn 0 (c :: t)) with (c :: t). rewrite P. reflexivity.
    + rewrite IH. simpl. rewrite <- app_assoc. reflexivity.
Qed.

(* joining the pieces of a split with the separator gives the string back *)
Theorem split_join : forall s sep, sep <> [] -> join_with sep (py_split s sep) = s.
Proof. intros. unfold py_split. rewrite split_go_join by auto. reflexivity. Qed.

(* replace = split on the old text, join with the new text *)
Lemma replace_go_split : forall old new s cur k,
  rev cur ++ replace_go old new s k = join_with new (split_go old s cur k).
Proof.
  intros old new s. induction s as [|c t IH]; intros cur k.
  - simpl. apply app_nil_r.
  - destruct k as [|k]; [|simpl; apply IH].
    cbn [split_go replace_go]. destruct (str_prefix old (c :: t)) eqn:P.
    + rewrite join_with_cons by apply split_go_nonempty. rewrite <- IH. reflexivity.
    + rewrite <- IH. simpl. rewrite <- app_assoc. reflexivity.
Qed.
Theorem replace_is_split_join : forall s old new, old <> [] -> py_replace s old new = join_with new (py_split s old).
Proof.
  intros s old new NE. unfold py_replace, py_split. destruct old; [congruence|].
  rewrite <- replace_go_split. reflexivity.
Qed.

Theorem stringSplit_spec : forall h s sep, sep <> [] ->
  lib (U "stringSplit") [VStr s; VStr sep] h = (LOk (VArr (length h)), h ++ [CArr (map VStr (py_split s sep))])
  /\ join_with sep (py_split s sep) = s.
Proof.
  intros h s sep NE. split; [|apply split_join; auto].
  open_lib (U "stringSplit"). table_entry (U "stringSplit") k_stringSplit. validate_step. unfold k_stringSplit.
  destruct sep; [congruence|]. reflexivity.
Qed.
Theorem stringReplace_spec : forall h s old new, old <> [] ->
  lib (U "stringReplace") [VStr s; VStr old; VStr new] h = (LOk (VStr (join_with new (py_split s old))), h).
Proof.
  intros h s old new NE. open_lib (U "stringReplace"). table_entry (U "stringReplace") k_stringReplace. validate_step.
  unfold k_stringReplace. rewrite replace_is_split_join by auto. reflexivity.
Qed.
