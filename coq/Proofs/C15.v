(* Proofs/C15.v — array, object and string functions obey their sequence / map / string contracts. *)
From Coq Require Import Lia ZifyBool SpecFloat.
From BS Require Import Model.Base Model.Num Model.LibVal Gen.ArgSpecs Model.LibSeq Proofs.BaseFacts.
Local Open Scope Z_scope.

(* ====================================================================== heap facts *)
Lemma hget_hset_same : forall h l c, (l < length h)%nat -> hget (hset h l c) l = Some c.
Proof. unfold hget. induction h; intros [|l] c H; simpl in *; try lia; auto. apply IHh. lia. Qed.

Lemma hget_hset_other : forall h l l' c, l <> l' -> hget (hset h l c) l' = hget h l'.
Proof. unfold hget. induction h; intros [|l] [|l'] c H; simpl in *; auto; try congruence. Qed.

Lemma hset_length : forall h l c, length (hset h l c) = length h.
Proof. induction h; intros [|l] c; simpl; auto. Qed.

Lemma hget_Some_lt : forall h l c, hget h l = Some c -> (l < length h)%nat.
Proof. unfold hget. intros. apply nth_error_Some. congruence. Qed.

Lemma hget_app_old : forall h c l, (l < length h)%nat -> hget (h ++ [c]) l = hget h l.
Proof. unfold hget. intros. apply nth_error_app1. auto. Qed.

Lemma hget_app_new : forall h c, hget (h ++ [c]) (length h) = Some c.
Proof. unfold hget. intros. rewrite nth_error_app2 by lia. rewrite Nat.sub_diag. reflexivity. Qed.

Lemma hget_fresh : forall h, hget h (length h) = None.
Proof. unfold hget. intros. apply nth_error_None. lia. Qed.

(* ====================================================================== shape of every call
   what a call can do to the heap: nothing, overwrite the cell of its FIRST argument, or allocate one cell *)
Definition first_loc (va : list varg) : option loc :=
  match va with AV (VArr l) :: _ => Some l | AV (VObj l) :: _ => Some l | _ => None end.
Definition is_fail (r : libres) : bool := match r with LOk _ => false | _ => true end.

Inductive step_shape (h : heap) (floc : option loc) (r : libres) (h' : heap) : Prop :=
| SS_same : h' = h -> step_shape h floc r h'
| SS_mut : forall l c, floc = Some l -> (l < length h)%nat -> h' = hset h l c -> is_fail r = false -> step_shape h floc r h'
| SS_alloc : forall c, h' = h ++ [c] -> (r = LOk (VArr (length h)) \/ r = LOk (VObj (length h))) -> step_shape h floc r h'.

Definition kshape (k : kfun) : Prop := forall h va r h', k h va = (r, h') -> step_shape h (first_loc va) r h'.

Ltac inv H := inversion H; subst; clear H.
Ltac break_match_hyp :=
  match goal with
  | H : context [match ?x with _ => _ end] |- _ => destruct x eqn:?
  end.
Ltac kcrush :=
  repeat first
    [ match goal with
      | H : (_, _) = (_, _) |- _ => inv H
      | H : stuck _ = (_, _) |- _ => unfold stuck in H
      | H : (let (_, _) := halloc _ _ in _) = _ |- _ => unfold halloc in H
      end
    | break_match_hyp ].

Ltac shape_done :=
  first
    [ apply SS_same; reflexivity
    | eapply SS_alloc; [reflexivity | auto]
    | eapply SS_mut; [reflexivity | eapply hget_Some_lt; eassumption | reflexivity | reflexivity] ].
Ltac kshape_tac f := unfold kshape, f; intros h va r h' H; kcrush; simpl; shape_done.

Lemma shape_arrayCopy : kshape k_arrayCopy. Proof. kshape_tac k_arrayCopy. Qed.
Lemma shape_arrayDelete : kshape k_arrayDelete. Proof. kshape_tac k_arrayDelete. Qed.
Lemma shape_arrayExtend : kshape k_arrayExtend. Proof. kshape_tac k_arrayExtend. Qed.
Lemma shape_arrayGet : kshape k_arrayGet. Proof. kshape_tac k_arrayGet. Qed.
Lemma shape_arrayIndexOf : kshape k_arrayIndexOf. Proof. kshape_tac k_arrayIndexOf. Qed.
Lemma shape_arrayLastIndexOf : kshape k_arrayLastIndexOf. Proof. kshape_tac k_arrayLastIndexOf. Qed.
Lemma shape_arrayLength : kshape k_arrayLength. Proof. kshape_tac k_arrayLength. Qed.
Lemma shape_arrayNewSize : kshape k_arrayNewSize. Proof. kshape_tac k_arrayNewSize. Qed.
Lemma shape_arrayPop : kshape k_arrayPop. Proof. kshape_tac k_arrayPop. Qed.
Lemma shape_arrayPush : kshape k_arrayPush. Proof. kshape_tac k_arrayPush. Qed.
Lemma shape_arraySet : kshape k_arraySet. Proof. kshape_tac k_arraySet. Qed.
Lemma shape_arrayShift : kshape k_arrayShift. Proof. kshape_tac k_arrayShift. Qed.
Lemma shape_arraySlice : kshape k_arraySlice. Proof. kshape_tac k_arraySlice. Qed.
Lemma shape_objectAssign : kshape k_objectAssign. Proof. kshape_tac k_objectAssign. Qed.
Lemma shape_objectCopy : kshape k_objectCopy. Proof. kshape_tac k_objectCopy. Qed.
Lemma shape_objectDelete : kshape k_objectDelete. Proof. kshape_tac k_objectDelete. Qed.
Lemma shape_objectGet : kshape k_objectGet. Proof. kshape_tac k_objectGet. Qed.
Lemma shape_objectHas : kshape k_objectHas. Proof. kshape_tac k_objectHas. Qed.
Lemma shape_objectKeys : kshape k_objectKeys. Proof. kshape_tac k_objectKeys. Qed.
Lemma shape_objectSet : kshape k_objectSet. Proof. kshape_tac k_objectSet. Qed.
Lemma shape_stringCharCodeAt : kshape k_stringCharCodeAt. Proof. kshape_tac k_stringCharCodeAt. Qed.
Lemma shape_stringEndsWith : kshape k_stringEndsWith. Proof. kshape_tac k_stringEndsWith. Qed.
Lemma shape_stringStartsWith : kshape k_stringStartsWith. Proof. kshape_tac k_stringStartsWith. Qed.
Lemma shape_stringIndexOf : kshape k_stringIndexOf. Proof. kshape_tac k_stringIndexOf. Qed.
Lemma shape_stringLastIndexOf : kshape k_stringLastIndexOf. Proof. kshape_tac k_stringLastIndexOf. Qed.
Lemma shape_stringLength : kshape k_stringLength. Proof. kshape_tac k_stringLength. Qed.
Lemma shape_stringRepeat : kshape k_stringRepeat. Proof. kshape_tac k_stringRepeat. Qed.
Lemma shape_stringReplace : kshape k_stringReplace. Proof. kshape_tac k_stringReplace. Qed.
Lemma shape_stringSlice : kshape k_stringSlice. Proof. kshape_tac k_stringSlice. Qed.
Lemma shape_stringSplit : kshape k_stringSplit. Proof. kshape_tac k_stringSplit. Qed.
Lemma shape_stringTrim : kshape k_stringTrim. Proof. kshape_tac k_stringTrim. Qed.
Lemma shape_regexEscape : kshape k_regexEscape. Proof. kshape_tac k_regexEscape. Qed.
Lemma shape_urlEncodeGen : forall f, kshape (k_urlEncodeGen f). Proof. intro f. kshape_tac k_urlEncodeGen. Qed.

Lemma lib_table_shape : Forall (fun p => kshape (snd p)) lib_table.
Proof.
  unfold lib_table. repeat (apply Forall_cons; [simpl;
    first [apply shape_arrayCopy | apply shape_arrayDelete | apply shape_arrayExtend | apply shape_arrayGet | apply shape_arrayIndexOf | apply shape_arrayLastIndexOf | apply shape_arrayLength | apply shape_arrayNewSize | apply shape_arrayPop | apply shape_arrayPush | apply shape_arraySet | apply shape_arrayShift | apply shape_arraySlice | apply shape_objectAssign | apply shape_objectCopy | apply shape_objectDelete | apply shape_objectGet | apply shape_objectHas | apply shape_objectKeys | apply shape_objectSet | apply shape_stringCharCodeAt | apply shape_stringEndsWith | apply shape_stringStartsWith | apply shape_stringIndexOf | apply shape_stringLastIndexOf | apply shape_stringLength | apply shape_stringRepeat | apply shape_stringReplace | apply shape_stringSlice | apply shape_stringSplit | apply shape_stringTrim | apply shape_regexEscape | apply shape_urlEncodeGen] |]). apply Forall_nil.
Qed.

(* ---- the value a failing call returns is the one the generated table documents ------------- *)
Definition failure_of (f : str) (args : list value) : value :=
  match assoc_spec f gen_arg_specs with Some (_, fv) => fail_value fv args | None => VNull end.

Definition kfail (name : str) (k : kfun) : Prop :=
  forall h va x h' args, k h va = (LArgsErr x, h') -> x = failure_of name args.
Ltac kfail_tac f := unfold kfail, f; intros h va x h' args H; kcrush; reflexivity.

Lemma lib_table_fail : Forall (fun p => kfail (fst p) (snd p)) lib_table.
Proof.
  unfold lib_table.
  repeat (apply Forall_cons; [simpl;
    unfold kfail; intros h va x h' args H;
    first [ progress unfold k_urlEncodeGen in H | match type of H with ?k _ _ = _ => unfold k in H end ]; kcrush; reflexivity |]).
  apply Forall_nil.
Qed.

(* ---- argument validation keeps the first (container) argument -------------------------------- *)
Definition arg_loc (args : list value) : option loc :=
  match args with VArr l :: _ => Some l | VObj l :: _ => Some l | _ => None end.

Lemma vcons_ok : forall x r va, vcons x r = VOk va -> exists t, r = VOk t /\ va = x :: t.
Proof. intros x [l| | |] va H; simpl in H; try discriminate. inv H. eauto. Qed.

Lemma validate_first : forall h specs args va l,
  args_validate h specs args = VOk va -> first_loc va = Some l -> arg_loc args = Some l.
Proof.
  intros h [|sp specs] args va l H F.
  - destruct args; simpl in H; inv H. discriminate.
  - destruct args as [|a args]; simpl in H.
    + repeat break_match_hyp; try discriminate;
        apply vcons_ok in H; destruct H as (t & _ & ->); simpl in F; try discriminate;
        match goal with d : lit |- _ => destruct d; discriminate end.
    + repeat break_match_hyp; try discriminate;
        apply vcons_ok in H; destruct H as (t & _ & ->); simpl in F; try discriminate; simpl; auto.
Qed.

Lemma validated_cases : forall f args h k r h', validated f args h k = (r, h') ->
  (h' = h /\ (r = LArgsErr (failure_of f args) \/ r = LRaise \/ r = LStuck)) \/
  (exists specs fv va, assoc_spec f gen_arg_specs = Some (specs, fv) /\ args_validate h specs args = VOk va
                       /\ k va (fail_value fv args) = (r, h')).
Proof.
  unfold validated, failure_of. intros f args h k r h' H.
  destruct (assoc_spec f gen_arg_specs) as [[specs fv]|] eqn:E.
  - destruct (args_validate h specs args) eqn:V.
    + right. eauto 10.
    + inv H. auto.
    + inv H. auto.
    + inv H. auto.
  - inv H. auto.
Qed.

(* ---- the three functions that inspect their arguments by hand ---------------------------------- *)
Lemma raw_arrayNew_shape : forall h args r h', raw_arrayNew h args = (r, h') ->
  h' = h ++ [CArr args] /\ r = LOk (VArr (length h)).
Proof. unfold raw_arrayNew, halloc. intros. inv H. auto. Qed.

Lemma raw_objectNew_shape : forall h args r h', raw_objectNew h args = (r, h') ->
  (exists kv, h' = h ++ [CObj kv] /\ r = LOk (VObj (length h))) \/ (h' = h /\ r = LArgsErr VNull).
Proof. unfold raw_objectNew, halloc. intros. break_match_hyp; inv H; eauto. Qed.

Lemma raw_stringFromCharCode_shape : forall h args r h', raw_stringFromCharCode h args = (r, h') ->
  h' = h /\ (r = LRaise \/ r = LArgsErr VNull \/ exists s, r = LOk (VStr s)).
Proof. unfold raw_stringFromCharCode. intros. repeat break_match_hyp; inv H; eauto. Qed.

Lemma assoc_raw : forall f g, assoc f raw_table = Some g ->
  (f = U "arrayNew" /\ g = raw_arrayNew) \/ (f = U "objectNew" /\ g = raw_objectNew)
  \/ (f = U "stringFromCharCode" /\ g = raw_stringFromCharCode).
Proof.
  unfold raw_table, assoc. intros f g H.
  destruct (str_eqb f (U "arrayNew")) eqn:E1; [apply str_eqb_eq in E1; inv H; auto|].
  destruct (str_eqb f (U "objectNew")) eqn:E2; [apply str_eqb_eq in E2; inv H; auto|].
  destruct (str_eqb f (U "stringFromCharCode")) eqn:E3; [apply str_eqb_eq in E3; inv H; auto|].
  discriminate.
Qed.

(* ====================================================================== the call-level theorems *)
Theorem lib_shape : forall f args h r h', lib f args h = (r, h') -> step_shape h (arg_loc args) r h'.
Proof.
  unfold lib. intros f args h r h' H.
  destruct (assoc f raw_table) as [g|] eqn:R.
  - apply assoc_raw in R. destruct R as [[-> ->]|[[-> ->]|[-> ->]]].
    + apply raw_arrayNew_shape in H. destruct H as [-> ->]. eapply SS_alloc; eauto.
    + apply raw_objectNew_shape in H. destruct H as [(kv & -> & ->)|[-> ->]]; [eapply SS_alloc; eauto | apply SS_same; auto].
    + apply raw_stringFromCharCode_shape in H. destruct H as [-> _]. apply SS_same; auto.
  - destruct (assoc f lib_table) as [k|] eqn:T.
    + apply validated_cases in H. destruct H as [[-> _]|(specs & fv & va & E & V & K)]; [apply SS_same; auto|].
      pose proof lib_table_shape as S. rewrite Forall_forall in S. specialize (S _ (assoc_In _ _ _ T)). simpl in S.
      apply S in K. destruct K as [->|l c F L -> NF|c -> R'].
      * apply SS_same; auto.
      * eapply SS_mut; eauto. eapply validate_first; eauto.
      * eapply SS_alloc; eauto.
    + inv H. apply SS_same; auto.
Qed.

(* FRAME: only the passed container's location can change; every other location keeps its cell *)
Theorem lib_frame : forall f args h r h' l, lib f args h = (r, h') ->
  (l < length h)%nat -> arg_loc args <> Some l -> hget h' l = hget h l.
Proof.
  intros f args h r h' l H L N. apply lib_shape in H. destruct H as [->|l0 c F L0 -> _|c -> _]; auto.
  - apply hget_hset_other. intro; subst; auto.
  - apply hget_app_old; auto.
Qed.

(* FRESH: a call that allocates returns the one location that was not in the heap before; nothing else moves *)
Theorem lib_alloc_fresh : forall f args h r h', lib f args h = (r, h') -> length h' <> length h ->
  (r = LOk (VArr (length h)) \/ r = LOk (VObj (length h))) /\ hget h (length h) = None
  /\ (exists c, h' = h ++ [c]) /\ forall l, (l < length h)%nat -> hget h' l = hget h l.
Proof.
  intros f args h r h' H N. apply lib_shape in H. destruct H as [->|l0 c F L0 -> _|c -> R]; try congruence.
  - rewrite hset_length in N. congruence.
  - repeat split; auto using hget_fresh; eauto. intros. apply hget_app_old; auto.
Qed.

(* FAILURE-ATOMIC: a failing call leaves the whole heap unchanged, and the value a ValueArgsError carries is the
   failure value of the table generated from library.py *)
Theorem lib_failure_atomic : forall f args h r h', lib f args h = (r, h') -> is_fail r = true -> h' = h.
Proof.
  intros f args h r h' H F. apply lib_shape in H. destruct H as [->|l0 c _ _ _ NF|c _ [->| ->]]; auto; simpl in *; congruence.
Qed.

Theorem lib_failure_value : forall f args h x h', lib f args h = (LArgsErr x, h') -> x = failure_of f args.
Proof.
  unfold lib. intros f args h x h' H.
  destruct (assoc f raw_table) as [g|] eqn:R.
  - apply assoc_raw in R. destruct R as [[-> ->]|[[-> ->]|[-> ->]]].
    + apply raw_arrayNew_shape in H. destruct H as [_ H]. discriminate.
    + apply raw_objectNew_shape in H. destruct H as [(kv & _ & H)|[_ H]]; [discriminate|]. inv H. reflexivity.
    + apply raw_stringFromCharCode_shape in H. destruct H as [_ [H|[H|[s H]]]]; try discriminate. inv H. reflexivity.
  - destruct (assoc f lib_table) as [k|] eqn:T.
    + apply validated_cases in H. destruct H as [[_ [H|[H|H]]]|(specs & fv & va & E & V & K)]; try discriminate.
      * inv H. reflexivity.
      * pose proof lib_table_fail as S. rewrite Forall_forall in S. specialize (S _ (assoc_In _ _ _ T)). simpl in S.
        eapply S; eauto.
    + discriminate.
Qed.

(* ====================================================================== regexEscape *)
Lemma N_mem_In : forall c l, N_mem c l = true <-> In c l.
Proof.
  induction l; simpl; [split; [discriminate|tauto]|].
  rewrite orb_true_iff, IHl, N.eqb_eq. split; intros [H|H]; auto.
Qed.

(* obligations on the table dumped from the interpreter (re._special_chars_map) *)
Lemma re_special_covers_meta : forallb (fun c => N_mem c gen_re_special) re_meta = true.
Proof. vm_compute. reflexivity. Qed.
Lemma re_special_not_alnum : forallb (fun c => negb (ascii_alnum c)) gen_re_special = true.
Proof. vm_compute. reflexivity. Qed.

Lemma regex_escape_cons : forall c s,
  regex_escape (c :: s) = (if N_mem c gen_re_special then [92%N; c] else [c]) ++ regex_escape s.
Proof. reflexivity. Qed.

Lemma pat_literal_escaped : forall c p, ascii_alnum c = false ->
  pat_literal (92%N :: c :: p) = option_map (cons c) (pat_literal p).
Proof. intros. cbn [pat_literal]. rewrite N.eqb_refl, H. reflexivity. Qed.
Lemma pat_literal_plain : forall c p, (c =? 92)%N = false -> N_mem c re_meta = false ->
  pat_literal (c :: p) = option_map (cons c) (pat_literal p).
Proof. intros. cbn [pat_literal]. rewrite H, H0. reflexivity. Qed.

Lemma regex_escape_literal : forall s, pat_literal (regex_escape s) = Some s.
Proof.
  induction s as [|c s IH]; [reflexivity|].
  rewrite regex_escape_cons.
  destruct (N_mem c gen_re_special) eqn:M.
  - pose proof re_special_not_alnum as A. rewrite forallb_forall in A.
    apply N_mem_In in M. apply A in M. apply negb_true_iff in M.
    change ([92%N; c] ++ regex_escape s) with (92%N :: c :: regex_escape s).
    rewrite pat_literal_escaped, IH by exact M. reflexivity.
  - pose proof re_special_covers_meta as C. rewrite forallb_forall in C.
    change ([c] ++ regex_escape s) with (c :: regex_escape s).
    rewrite pat_literal_plain, IH; [reflexivity| |].
    + destruct (c =? 92)%N eqn:E; [|reflexivity].
      apply N.eqb_eq in E. subst. assert (In 92%N re_meta) as H by (vm_compute; tauto). apply C in H. congruence.
    + destruct (N_mem c re_meta) eqn:M2; [|reflexivity].
      apply N_mem_In in M2. apply C in M2. congruence.
Qed.

(* the escaped pattern, read as a literal pattern, matches exactly s *)
Definition matches_lit (p t : str) : Prop := pat_literal p = Some t.
Theorem regex_escape_exact : forall s t, matches_lit (regex_escape s) t <-> t = s.
Proof. unfold matches_lit. intros. rewrite regex_escape_literal. split; congruence. Qed.

(* ====================================================================== URL encoding is reversible *)
Ltac Zify.zify_post_hook ::= Z.div_mod_to_equations.

Lemma Some_inj : forall {A} (a b : A), Some a = Some b -> a = b.
Proof. congruence. Qed.

Ltac nfacts c :=
  pose proof (N.div_mod c 64); pose proof (N.mod_lt c 64);
  pose proof (N.div_mod (c / 64) 64); pose proof (N.mod_lt (c / 64) 64);
  pose proof (N.div_mod (c / 4096) 64); pose proof (N.mod_lt (c / 4096) 64);
  pose proof (N.div_div c 64 64); pose proof (N.div_div c 4096 64);
  change (64 * 64)%N with 4096%N in *; change (4096 * 64)%N with 262144%N in *.

Definition scalar (c : N) : bool := ((c <? 55296) || (57343 <? c) && (c <? 1114112))%N.

Lemma utf8_enc1_scalar : forall c, scalar c = true -> exists b, utf8_enc1 c = Some b.
Proof. unfold scalar, utf8_enc1. intros c H. repeat match goal with |- context [if ?x then _ else _] => destruct x eqn:? end; eauto; lia. Qed.

Lemma utf8_enc1_bytes : forall c b, utf8_enc1 c = Some b -> Forall (fun x => x < 256)%N b.
Proof.
  unfold utf8_enc1. intros c b H.
  repeat match type of H with context [if ?x then _ else _] => destruct x eqn:? end;
    first [discriminate | apply Some_inj in H; subst b]; nfacts c; repeat (apply Forall_cons; [lia|]); apply Forall_nil.
Qed.

Lemma dec1 : forall b0 t, (b0 < 128)%N -> utf8_decode (b0 :: t) = option_map (cons b0) (utf8_decode t).
Proof. intros. cbn [utf8_decode]. replace (b0 <? 128)%N with true by lia. reflexivity. Qed.
Lemma dec2 : forall b0 b1 t, (192 <= b0 < 224)%N -> (128 <= b1 < 192)%N ->
  utf8_decode (b0 :: b1 :: t) = option_map (cons ((b0 - 192) * 64 + (b1 - 128))%N) (utf8_decode t).
Proof.
  intros. cbn [utf8_decode]. unfold cont.
  replace (b0 <? 128)%N with false by lia. replace (b0 <? 192)%N with false by lia. replace (b0 <? 224)%N with true by lia.
  replace ((128 <=? b1) && (b1 <? 192))%N with true by lia. reflexivity.
Qed.
Lemma dec3 : forall b0 b1 b2 t, (224 <= b0 < 240)%N -> (128 <= b1 < 192)%N -> (128 <= b2 < 192)%N ->
  utf8_decode (b0 :: b1 :: b2 :: t) = option_map (cons ((b0 - 224) * 4096 + (b1 - 128) * 64 + (b2 - 128))%N) (utf8_decode t).
Proof.
  intros. cbn [utf8_decode]. unfold cont.
  replace (b0 <? 128)%N with false by lia. replace (b0 <? 192)%N with false by lia. replace (b0 <? 224)%N with false by lia.
  replace (b0 <? 240)%N with true by lia.
  replace ((128 <=? b1) && (b1 <? 192))%N with true by lia. replace ((128 <=? b2) && (b2 <? 192))%N with true by lia. reflexivity.
Qed.
Lemma dec4 : forall b0 b1 b2 b3 t, (240 <= b0 < 248)%N -> (128 <= b1 < 192)%N -> (128 <= b2 < 192)%N -> (128 <= b3 < 192)%N ->
  utf8_decode (b0 :: b1 :: b2 :: b3 :: t)
  = option_map (cons ((b0 - 240) * 262144 + (b1 - 128) * 4096 + (b2 - 128) * 64 + (b3 - 128))%N) (utf8_decode t).
Proof.
  intros. cbn [utf8_decode]. unfold cont.
  replace (b0 <? 128)%N with false by lia. replace (b0 <? 192)%N with false by lia. replace (b0 <? 224)%N with false by lia.
  replace (b0 <? 240)%N with false by lia. replace (b0 <? 248)%N with true by lia.
  replace ((128 <=? b1) && (b1 <? 192))%N with true by lia. replace ((128 <=? b2) && (b2 <? 192))%N with true by lia.
  replace ((128 <=? b3) && (b3 <? 192))%N with true by lia. reflexivity.
Qed.

Lemma utf8_decode_enc1 : forall c b rest, utf8_enc1 c = Some b ->
  utf8_decode (b ++ rest) = option_map (cons c) (utf8_decode rest).
Proof.
  unfold utf8_enc1. intros c b rest H.
  repeat match type of H with context [if ?x then _ else _] => destruct x eqn:? end;
    first [discriminate | apply Some_inj in H; subst b]; nfacts c.
  - change ([c] ++ rest) with (c :: rest). apply dec1. lia.
  - change (utf8_decode ((192 + c / 64)%N :: (128 + c mod 64)%N :: rest) = option_map (cons c) (utf8_decode rest)).
    rewrite dec2 by lia. f_equal. f_equal. lia.
  - change (utf8_decode ((224 + c / 4096)%N :: (128 + (c / 64) mod 64)%N :: (128 + c mod 64)%N :: rest)
            = option_map (cons c) (utf8_decode rest)).
    rewrite dec3 by lia. f_equal. f_equal. lia.
  - change (utf8_decode ((240 + c / 262144)%N :: (128 + (c / 4096) mod 64)%N :: (128 + (c / 64) mod 64)%N :: (128 + c mod 64)%N :: rest)
            = option_map (cons c) (utf8_decode rest)).
    rewrite dec4 by lia. f_equal. f_equal. lia.
Qed.

Lemma utf8_roundtrip : forall s bs, utf8_encode s = Some bs -> utf8_decode bs = Some s /\ Forall (fun x => x < 256)%N bs.
Proof.
  induction s as [|c s IH]; simpl; intros bs H; [inv H; auto|].
  destruct (utf8_enc1 c) as [b|] eqn:E; [|discriminate]. destruct (utf8_encode s) as [r|] eqn:R; [|discriminate]. inv H.
  destruct (IH _ eq_refl) as [D F]. split.
  - rewrite (utf8_decode_enc1 _ _ _ E), D. reflexivity.
  - apply Forall_app. split; auto. eapply utf8_enc1_bytes; eauto.
Qed.

Lemma hex_val_digit : forall d, (d < 16)%N -> hex_val (hex_digit d) = Some d.
Proof.
  unfold hex_val, hex_digit. intros d H. destruct (d <? 10)%N eqn:E.
  - replace ((48 <=? 48 + d) && (48 + d <=? 57))%N with true by lia. f_equal. lia.
  - replace ((48 <=? 55 + d) && (55 + d <=? 57))%N with false by lia.
    replace ((65 <=? 55 + d) && (55 + d <=? 70))%N with true by lia. f_equal. lia.
Qed.

Lemma percent_decode_quote : forall safe bs, N_mem 37%N safe = false -> Forall (fun x => x < 256)%N bs ->
  percent_decode (flat_map (quote_byte safe) bs) = Some bs.
Proof.
  intros safe bs S F. induction F as [|b bs Hb F IH]; [reflexivity|].
  simpl flat_map. unfold quote_byte at 1. destruct (N_mem b safe) eqn:M.
  - simpl app. cbn [percent_decode]. destruct (b =? 37)%N eqn:E; [apply N.eqb_eq in E; congruence|]. rewrite IH. reflexivity.
  - pose proof (N.div_mod b 16). pose proof (N.mod_lt b 16).
    simpl app. cbn [percent_decode]. rewrite N.eqb_refl, !hex_val_digit, IH by lia. f_equal. f_equal. lia.
Qed.

(* obligation on the generated tables: '%' is never left unescaped *)
Lemma percent_not_safe : forallb (fun p => negb (N_mem 37%N (gen_url_always_safe ++ filter (fun c => c <? 128)%N (snd p)))) gen_url_safe = true.
Proof. vm_compute. reflexivity. Qed.

Theorem url_quote_reversible : forall f safe s r, url_safe_of f = Some safe -> url_quote safe s = Some r ->
  url_unquote r = Some s.
Proof.
  unfold url_safe_of, url_quote, url_unquote. intros f safe s r A Q.
  destruct (utf8_encode s) as [bs|] eqn:E; [|discriminate]. inv Q.
  destruct (utf8_roundtrip _ _ E) as [D F].
  rewrite percent_decode_quote; auto.
  pose proof percent_not_safe as P. rewrite forallb_forall in P. apply assoc_In in A. apply P in A. simpl in A.
  apply negb_true_iff in A. exact A.
Qed.

Theorem url_quote_total_on_scalars : forall safe s, forallb scalar s = true -> exists r, url_quote safe s = Some r.
Proof.
  unfold url_quote. intros safe s H.
  assert (exists bs, utf8_encode s = Some bs) as [bs ->]; [|eauto].
  induction s as [|c s IH]; simpl in *; [eauto|].
  apply andb_true_iff in H. destruct H as [Hc Hs]. destruct (utf8_enc1_scalar _ Hc) as [b ->].
  destruct (IH Hs) as [r ->]. eauto.
Qed.
