(* Proofs/C14b.v — C14, well-formed values, and the clean-up pass: on the laid-out text of a
   value it copies every string token unchanged and drops exactly the all-zero fractions. *)
From Coq Require Import Lia ZifyBool.
From BS Require Import Model.Base Model.Json Proofs.C14a.
Local Open Scope N_scope.

(* ---------------------------------------------------------------- induction over nested values *)
Section JInd.
Variable P : jvalue -> Prop.
Hypothesis Hnull : P JNull.
Hypothesis Hbool : forall b, P (JBool b).
Hypothesis Hnum : forall n, P (JNum n).
Hypothesis Hstr : forall s, P (JStr s).
Hypothesis Harr : forall l, Forall P l -> P (JArr l).
Hypothesis Hobj : forall m, Forall (fun kv => P (snd kv)) m -> P (JObj m).
Fixpoint jvalue_ind' (v : jvalue) : P v :=
  match v with
  | JNull => Hnull
  | JBool b => Hbool b
  | JNum n => Hnum n
  | JStr s => Hstr s
  | JArr l => Harr l ((fix go (l : list jvalue) : Forall P l :=
                         match l with [] => Forall_nil _ | x :: t => Forall_cons x (jvalue_ind' x) (go t) end) l)
  | JObj m => Hobj m ((fix go (m : list (str * jvalue)) : Forall (fun kv => P (snd kv)) m :=
                         match m with [] => Forall_nil _ | kv :: t => Forall_cons kv (jvalue_ind' (snd kv)) (go t) end) m)
  end.
End JInd.

(* ---------------------------------------------------------------- the domain of the property *)
Definition digits (s : str) : bool := forallb is_dig s.
Definition digits1 (s : str) : bool := match s with [] => false | _ => digits s end.
(* JSON integer part: 0, or a non-zero digit followed by digits *)
Definition int_ok (s : str) : bool :=
  match s with
  | [] => false
  | c :: t => if c =? 48 then match t with [] => true | _ => false end else is_dig c && digits t
  end.
(* a number token of the JSON grammar (every CPython repr of a finite float or an int is one) *)
Definition num_ok (n : jnum) : bool :=
  int_ok (n_int n)
  && match n_frac n with None => true | Some f => digits1 f end
  && match n_exp n with None => true | Some (_, e) => digits1 e end.

(* values of the property: number tokens are JSON numbers, strings and keys are made of
   Unicode scalar values (no surrogate code points) *)
Fixpoint wf (v : jvalue) : bool :=
  match v with
  | JNum n => num_ok n
  | JStr s => scalar_str s
  | JArr l => forallb wf l
  | JObj m => forallb (fun kv => scalar_str (fst kv) && wf (snd kv)) m
  | _ => true
  end.

(* ---------------------------------------------------------------- the scanner on plain text *)
Definition plainc (c : N) : bool := negb (c =? 34) && negb (c =? 46).

Lemma scan_plain l r : forallb plainc l = true -> scan CNorm (l ++ r) = l ++ scan CNorm r.
Proof.
  induction l as [|c l IH]; intros H; [reflexivity|].
  simpl in H. apply andb_prop in H. destruct H as [Hc Hl]. unfold plainc in Hc.
  simpl. destruct (c =? 34) eqn:E1; [lia|]. destruct (c =? 46) eqn:E2; [lia|].
  rewrite IH by exact Hl. reflexivity.
Qed.

Lemma scan_plain1 c r : plainc c = true -> scan CNorm (c :: r) = c :: scan CNorm r.
Proof. intros H. apply (scan_plain [c]). simpl. rewrite H. reflexivity. Qed.

Lemma scan_copy0 r : scan (CCopy 0) r = scan CNorm r.
Proof. destruct r; reflexivity. Qed.
Lemma scan_drop0 r : scan (CDrop 0) r = scan CNorm r.
Proof. destruct r; reflexivity. Qed.
Lemma scan_copy a r : scan (CCopy (length a)) (a ++ r) = a ++ scan CNorm r.
Proof. induction a as [|c a IH]; [apply scan_copy0|]. simpl. rewrite IH. reflexivity. Qed.
Lemma scan_drop a r : scan (CDrop (length a)) (a ++ r) = scan CNorm r.
Proof. induction a as [|c a IH]; [apply scan_drop0|]. simpl. exact IH. Qed.

(* C14 clause "no character of any string or key is altered", clean-up layer: an escaped string
   token goes through the pass unchanged, whatever its contents and whatever follows it *)
Lemma scan_string s r : scan CNorm (esc_string s ++ r) = esc_string s ++ scan CNorm r.
Proof.
  unfold esc_string. cbn [app]. rewrite <- app_assoc. cbn [app].
  change (scan CNorm (34 :: esc_body s ++ 34 :: r))
    with (match str_tok_len (esc_body s ++ 34 :: r) with
          | Some n => 34 :: scan (CCopy n) (esc_body s ++ 34 :: r)
          | None => 34 :: scan CNorm (esc_body s ++ 34 :: r) end).
  rewrite stl_esc_body.
  replace (S (length (esc_body s))) with (length (esc_body s ++ [34])) by (rewrite app_length; simpl; lia).
  replace (esc_body s ++ 34 :: r) with ((esc_body s ++ [34]) ++ r) by (rewrite <- app_assoc; reflexivity).
  rewrite scan_copy. rewrite <- app_assoc. reflexivity.
Qed.

(* ---------------------------------------------------------------- number tokens *)
Lemma dig_plain c : is_dig c = true -> plainc c = true.
Proof. unfold is_dig, plainc. lia. Qed.
Lemma digits_plain ds : digits ds = true -> forallb plainc ds = true.
Proof.
  induction ds as [|c ds IH]; intros H; [reflexivity|]. simpl in *. apply andb_prop in H. destruct H.
  rewrite dig_plain by assumption. auto.
Qed.
Lemma digits1_digits s : digits1 s = true -> digits s = true.
Proof. destruct s; [discriminate|auto]. Qed.
Lemma int_ok_digits s : int_ok s = true -> digits s = true.
Proof.
  destruct s as [|c t]; [discriminate|]. simpl. destruct (c =? 48) eqn:E.
  - destruct t; [|discriminate]. intros _. simpl. assert (c = 48) by lia. subst. reflexivity.
  - intros H. exact H.
Qed.

Lemma scan_dot t : scan CNorm (46 :: t) =
  if look_ok (skipn (zeros_len t) t) then scan (CDrop (zeros_len t)) t else 46 :: scan CNorm t.
Proof. reflexivity. Qed.

Lemma look_zeros ds x : digits ds = true ->
  look_ok (skipn (zeros_len (ds ++ x)) (ds ++ x)) = if all_zero ds then look_ok (skipn (zeros_len x) x) else false.
Proof.
  induction ds as [|c ds IH]; intros H; [reflexivity|].
  simpl in H. apply andb_prop in H. destruct H as [Hc Hd].
  unfold all_zero. simpl. fold (all_zero ds). destruct (c =? 48) eqn:E.
  - simpl. apply IH. exact Hd.
  - simpl. unfold is_dig in Hc. lia.
Qed.
Lemma zeros_all ds x : all_zero ds = true -> zeros_len (ds ++ x) = (length ds + zeros_len x)%nat.
Proof.
  induction ds as [|c ds IH]; intros H; [reflexivity|].
  unfold all_zero in H. simpl in H. apply andb_prop in H. destruct H as [Hc Hd].
  simpl. rewrite Hc. rewrite IH by exact Hd. reflexivity.
Qed.
Lemma look_ok_zeros r : look_ok r = true -> zeros_len r = 0%nat.
Proof. destruct r as [|c r]; [reflexivity|]. simpl. intros H. destruct (c =? 48) eqn:E; [lia|reflexivity]. Qed.

Lemma exp_plain e : match e with None => true | Some (_, d) => digits1 d end = true -> forallb plainc (exp_text e) = true.
Proof.
  destruct e as [[sg d]|]; [|reflexivity]. intros H. apply digits1_digits in H.
  unfold exp_text. cbn [forallb]. rewrite forallb_app. rewrite (digits_plain d H).
  destruct sg; reflexivity.
Qed.

(* the pass on a number token: exactly the all-zero fraction (without exponent) is removed *)
Lemma scan_num n r : num_ok n = true -> look_ok r = true ->
  scan CNorm (num_text n ++ r) = num_text (strip_num n) ++ scan CNorm r.
Proof.
  destruct n as [neg ip fr ex]. unfold num_ok, num_text, strip_num. cbn [n_neg n_int n_frac n_exp].
  intros H Hr. apply andb_prop in H. destruct H as [H Hex]. apply andb_prop in H. destruct H as [Hip Hfr].
  apply int_ok_digits in Hip. apply digits_plain in Hip. pose proof (exp_plain ex Hex) as Hep.
  assert (Hsg : forallb plainc (if neg then [45] else []) = true) by (destruct neg; reflexivity).
  rewrite <- !app_assoc. rewrite scan_plain by exact Hsg. rewrite scan_plain by exact Hip.
  destruct fr as [f|].
  - unfold frac_text. cbn [app]. rewrite scan_dot. apply digits1_digits in Hfr.
    rewrite look_zeros by exact Hfr.
    destruct ex as [[sg e]|].
    + (* exponent follows: never stripped *)
      assert (look_ok (skipn (zeros_len (exp_text (Some (sg, e)) ++ r)) (exp_text (Some (sg, e)) ++ r)) = false) as -> by reflexivity.
      replace (if all_zero f then false else false) with false by (destruct (all_zero f); reflexivity).
      rewrite scan_plain by (apply digits_plain; exact Hfr). rewrite scan_plain by exact Hep.
      destruct (all_zero f); cbn [n_neg n_int n_frac n_exp frac_text]; rewrite <- ?app_assoc; reflexivity.
    + cbn [exp_text app]. rewrite (look_ok_zeros r Hr). cbn [skipn]. rewrite Hr.
      destruct (all_zero f) eqn:Ez.
      * rewrite zeros_all by exact Ez. rewrite (look_ok_zeros r Hr). rewrite Nat.add_0_r. rewrite scan_drop.
        cbn [n_neg n_int n_frac n_exp frac_text exp_text app]. reflexivity.
      * rewrite scan_plain by (apply digits_plain; exact Hfr).
        cbn [n_neg n_int n_frac n_exp frac_text exp_text app]. rewrite <- ?app_assoc. reflexivity.
  - cbn [frac_text app]. rewrite scan_plain by exact Hep.
    cbn [n_neg n_int n_frac n_exp frac_text app]. rewrite <- ?app_assoc. reflexivity.
Qed.

(* ---------------------------------------------------------------- layout equations *)
Lemma render_arr_cons ind lvl x t : render ind lvl (JArr (x :: t)) =
  91 :: nl ind (S lvl) ++ render ind (S lvl) x
  ++ flat_map (fun y => 44 :: nl ind (S lvl) ++ render ind (S lvl) y) t ++ nl ind lvl ++ [93].
Proof. reflexivity. Qed.
Lemma render_obj_cons ind lvl kx t : render ind lvl (JObj (kx :: t)) =
  123 :: nl ind (S lvl) ++ esc_string (fst kx) ++ colon ind ++ render ind (S lvl) (snd kx)
  ++ flat_map (fun ky => 44 :: nl ind (S lvl) ++ esc_string (fst ky) ++ colon ind ++ render ind (S lvl) (snd ky)) t
  ++ nl ind lvl ++ [125].
Proof. reflexivity. Qed.

Lemma nl_plain ind lvl : forallb plainc (nl ind lvl) = true.
Proof.
  unfold nl. destruct ind as [n|]; [|reflexivity]. cbn [forallb]. 
  induction (n * lvl)%nat; [reflexivity|]. simpl. exact IHn0.
Qed.
Lemma colon_plain ind : forallb plainc (colon ind) = true.
Proof. destruct ind; reflexivity. Qed.
Lemma look_nl ind lvl c r : look_ok [c] = true -> look_ok (nl ind lvl ++ c :: r) = true.
Proof. intros H. destruct ind; [reflexivity|exact H]. Qed.

(* ---------------------------------------------------------------- the pass on a laid-out value *)
Lemma scan_render ind v : wf v = true -> forall lvl rest, look_ok rest = true ->
  scan CNorm (render ind lvl v ++ rest) = render ind lvl (stripv v) ++ scan CNorm rest.
Proof.
  induction v as [| b | n | s | l IH | m IH] using jvalue_ind'; intros Hwf lvl rest Hr.
  - apply (scan_plain lit_null). reflexivity.
  - destruct b; [apply (scan_plain lit_true)|apply (scan_plain lit_false)]; reflexivity.
  - simpl. apply scan_num; assumption.
  - simpl. apply scan_string.
  - destruct l as [|x t].
    + apply (scan_plain [91; 93]). reflexivity.
    + cbn [stripv map]. rewrite !render_arr_cons. simpl in Hwf. apply andb_prop in Hwf. destruct Hwf as [Hx Ht].
      inversion IH as [|? ? IHx IHt]; subst.
      cbn [app]. rewrite <- !app_assoc.
      rewrite scan_plain1 by reflexivity. f_equal.
      rewrite scan_plain by apply nl_plain. f_equal.
      assert (Htail : forall tl, Forall (fun v => wf v = true -> forall lvl rest, look_ok rest = true ->
                         scan CNorm (render ind lvl v ++ rest) = render ind lvl (stripv v) ++ scan CNorm rest) tl ->
                forallb wf tl = true ->
                scan CNorm (flat_map (fun y => 44 :: nl ind (S lvl) ++ render ind (S lvl) y) tl ++ nl ind lvl ++ [93] ++ rest)
                = flat_map (fun y => 44 :: nl ind (S lvl) ++ render ind (S lvl) y) (map stripv tl) ++ nl ind lvl ++ [93] ++ scan CNorm rest
                /\ look_ok (flat_map (fun y => 44 :: nl ind (S lvl) ++ render ind (S lvl) y) tl ++ nl ind lvl ++ [93] ++ rest) = true).
      { induction tl as [|y tl IHtl]; intros HF Hw.
        - cbn [flat_map map app]. split.
          + rewrite scan_plain by apply nl_plain. cbn [app]. rewrite scan_plain1 by reflexivity. reflexivity.
          + apply look_nl. reflexivity.
        - inversion HF as [|? ? Hy HF']; subst. simpl in Hw. apply andb_prop in Hw. destruct Hw as [Hwy Hwt].
          destruct (IHtl HF' Hwt) as [E1 E2]. split; [|reflexivity].
          cbn [flat_map map app]. rewrite <- !app_assoc.
          rewrite scan_plain1 by reflexivity. f_equal.
          rewrite scan_plain by apply nl_plain. f_equal.
          rewrite (Hy Hwy) by exact E2. f_equal. exact E1. }
      destruct (Htail t IHt Ht) as [E1 E2].
      rewrite (IHx Hx) by exact E2. f_equal. exact E1.
  - destruct m as [|kx t].
    + apply (scan_plain [123; 125]). reflexivity.
    + cbn [stripv map]. rewrite !render_obj_cons. cbn [fst snd]. simpl in Hwf. apply andb_prop in Hwf. destruct Hwf as [Hx Ht].
      apply andb_prop in Hx. destruct Hx as [_ Hx].
      inversion IH as [|? ? IHx IHt]; subst.
      cbn [app]. rewrite <- !app_assoc.
      rewrite scan_plain1 by reflexivity. f_equal.
      rewrite scan_plain by apply nl_plain. f_equal.
      rewrite scan_string. f_equal. rewrite scan_plain by apply colon_plain. f_equal.
      set (item := fun ky : str * jvalue => 44 :: nl ind (S lvl) ++ esc_string (fst ky) ++ colon ind ++ render ind (S lvl) (snd ky)).
      assert (Htail : forall tl, Forall (fun kv => wf (snd kv) = true -> forall lvl rest, look_ok rest = true ->
                         scan CNorm (render ind lvl (snd kv) ++ rest) = render ind lvl (stripv (snd kv)) ++ scan CNorm rest) tl ->
                forallb (fun kv => scalar_str (fst kv) && wf (snd kv)) tl = true ->
                scan CNorm (flat_map item tl ++ nl ind lvl ++ [125] ++ rest)
                = flat_map item (map (fun kv => (fst kv, stripv (snd kv))) tl) ++ nl ind lvl ++ [125] ++ scan CNorm rest
                /\ look_ok (flat_map item tl ++ nl ind lvl ++ [125] ++ rest) = true).
      { induction tl as [|y tl IHtl]; intros HF Hw.
        - cbn [flat_map map app]. split.
          + rewrite scan_plain by apply nl_plain. cbn [app]. rewrite scan_plain1 by reflexivity. reflexivity.
          + apply look_nl. reflexivity.
        - inversion HF as [|? ? Hy HF']; subst. simpl in Hw. apply andb_prop in Hw. destruct Hw as [Hwy Hwt].
          apply andb_prop in Hwy. destruct Hwy as [_ Hwy].
          destruct (IHtl HF' Hwt) as [E1 E2]. split; [|reflexivity].
          cbn [flat_map map app]. unfold item at 1 3. cbn [fst snd app]. rewrite <- !app_assoc.
          rewrite scan_plain1 by reflexivity. f_equal.
          rewrite scan_plain by apply nl_plain. f_equal.
          rewrite scan_string. f_equal. rewrite scan_plain by apply colon_plain. f_equal.
          rewrite (Hy Hwy) by exact E2. f_equal. exact E1. }
      destruct (Htail t IHt Ht) as [E1 E2].
      rewrite (IHx Hx) by exact E2. f_equal. exact E1.
Qed.
