(* Proofs/C12simf.v — property C12: the design's FUNCTIONAL form of the simulation.
   [respell] swaps the spelling of every integral number that has another spelling (int z <-> float(z) when float(z)
   is exactly z; an integral float -> the int), recursively through argument lists and the whole heap; then
      lib f (map respell vs) (respell_heap h)   ~   lib f vs h          (results / failure / heap up to spelling)
   and float(z) IS exactly z for every |z| <= 2^53 (so every |n| < 1e15 is really respelt, not left alone). *)
From Coq Require Import Lia ZifyBool SpecFloat.
From BS Require Import Model.Base Model.Num Model.LibVal Gen.ArgSpecs Model.LibSeq Proofs.BaseFacts Proofs.FloatFacts
  Proofs.C15 Proofs.C12 Proofs.C12sim Proofs.C12simk Proofs.C12siml.
Local Open Scope Z_scope.

(* the integer a number denotes exactly, if any (decidable form of [integral]) *)
Definition int_value (n : num) : option Z :=
  match py_int n with Some z => if num_eq (NInt z) n then Some z else None | None => None end.
Lemma int_value_integral : forall n z, int_value n = Some z <-> integral n z.
Proof.
  intros n z. unfold int_value, integral. destruct (py_int n) as [w|]; [|split; [discriminate | intros [H _]; discriminate]].
  destruct (num_eq (NInt w) n) eqn:E; split.
  - intros H. injection H as <-. auto.
  - intros [H _]. exact H.
  - discriminate.
  - intros [H F]. injection H as <-. congruence.
Qed.

(* the other spelling of a number: int -> float(z) if that is exact, integral float -> int, anything else unchanged *)
Definition respell_num (n : num) : num :=
  match n with
  | NInt z => match int_value (NFlt (Z_to_sf z)) with
              | Some w => if w =? z then NFlt (Z_to_sf z) else n
              | None => n
              end
  | NFlt f => match int_value n with Some z => NInt z | None => n end
  end.
Lemma respell_num_sim : forall n, nsim n (respell_num n).
Proof.
  intros [z|f]; unfold respell_num.
  - destruct (int_value (NFlt (Z_to_sf z))) as [w|] eqn:E; [|apply nsim_refl].
    destruct (Z.eqb_spec w z) as [->|]; [|apply nsim_refl].
    apply nsim_int_float. apply int_value_integral, E.
  - destruct (int_value (NFlt f)) as [z|] eqn:E; [|apply nsim_refl].
    apply nsim_sym, nsim_int_float. apply int_value_integral, E.
Qed.

Definition respell (v : value) : value := match v with VNum n => VNum (respell_num n) | _ => v end.
Definition respell_cell (c : cell) : cell :=
  match c with CArr xs => CArr (map respell xs) | CObj kv => CObj (map (fun p => (fst p, respell (snd p))) kv) end.
Definition respell_heap (h : heap) : heap := map respell_cell h.
Definition respell_res (r : libres) : libres :=
  match r with LOk v => LOk (respell v) | LArgsErr v => LArgsErr (respell v) | _ => r end.

Lemma respell_sim : forall v, vsim v (respell v).
Proof. intros [ | |n| | | | | | ]; try apply vs_same. apply vs_num, respell_num_sim. Qed.
Lemma respell_list_sim : forall vs, Forall2 vsim vs (map respell vs).
Proof. induction vs; simpl; constructor; auto using respell_sim. Qed.
Lemma respell_cell_sim : forall c, csim c (respell_cell c).
Proof.
  intros [xs|kv]; constructor; [apply respell_list_sim|].
  induction kv as [|[k v] t IH]; simpl; constructor; auto. split; [reflexivity | apply respell_sim].
Qed.
Lemma respell_heap_sim : forall h, hsim h (respell_heap h).
Proof. induction h; simpl; constructor; auto using respell_cell_sim. Qed.
Lemma respell_res_sim : forall r, rsim r (respell_res r).
Proof. intros []; simpl; try apply rs_same; constructor; apply respell_sim. Qed.

Lemma rsim_sym : forall a b, rsim a b -> rsim b a.
Proof. intros a b []; constructor; apply vsim_sym; assumption. Qed.
Lemma rsim_trans : forall a b c, rsim a b -> rsim b c -> rsim a c.
Proof. intros a b c H G. destruct H; auto; inversion G; subst; constructor; eauto using vsim_trans. Qed.

(* the design's statement: the respelt call gives the respelt outcome, up to spelling *)
Theorem lib_respell : forall f vs h,
  let (r, h1) := lib f vs h in
  let (r', h1') := lib f (map respell vs) (respell_heap h) in
  rsim (respell_res r) r' /\ hsim (respell_heap h1) h1'.
Proof.
  intros f vs h. pose proof (lib_sim f vs (map respell vs) h (respell_heap h) (respell_list_sim vs) (respell_heap_sim h)) as [R H].
  destruct (lib f vs h) as [r h1], (lib f (map respell vs) (respell_heap h)) as [r' h1']. simpl in R, H. split.
  - eapply rsim_trans; [apply rsim_sym, respell_res_sim | exact R].
  - eapply hsim_trans; [apply hsim_sym, respell_heap_sim | exact H].
Qed.

(* ---- float(z) is exactly z up to 2^53: every |n| < 1e15 really has two spellings, and respell swaps them ---- *)
Lemma shifted_integral : forall (sx : bool) p k, 0 <= k ->
  integral (NFlt (S754_finite sx (Z.to_pos (Zpos p * 2 ^ k)) (- k))) (if sx then Zneg p else Zpos p).
Proof.
  intros sx p k Hk. assert (P : 0 < 2 ^ k) by (apply Z.pow_pos_nonneg; lia).
  assert (M : Zpos (Z.to_pos (Zpos p * 2 ^ k)) = Zpos p * 2 ^ k) by (rewrite Z2Pos.id; lia).
  split.
  - unfold py_int. rewrite M. destruct (Z.leb_spec 0 (- k)) as [L|L].
    + assert (k = 0) by lia. subst k. change (2 ^ (- 0)) with 1. rewrite !Z.mul_1_r. destruct sx; reflexivity.
    + rewrite Z.opp_involutive, Z.div_mul by lia. destruct sx; reflexivity.
  - unfold num_eq, num_cmp, num_x, xcmp.
    replace (Z.min 0 (- k)) with (- k) by lia. replace (0 - - k) with k by lia. replace (- k - - k) with 0 by lia.
    change (2 ^ 0) with 1. rewrite Z.mul_1_r.
    assert (E : (if sx then Z.neg p else Z.pos p) * 2 ^ k
                = (if sx then Z.neg (Z.to_pos (Z.pos p * 2 ^ k)) else Z.pos (Z.to_pos (Z.pos p * 2 ^ k)))).
    { destruct sx; [rewrite <- !Pos2Z.opp_pos|]; rewrite M; lia. }
    rewrite E, Z.compare_refl. reflexivity.
Qed.
Lemma Z_to_sf_small' : forall sx p, Zpos p < 2 ^ 53 ->
  let d := Zpos (digits2_pos p) in
  binary_round prec emax sx p 0 = S754_finite sx (Z.to_pos (Zpos p * 2 ^ (53 - d))) (d - 53) /\ 1 <= d <= 53.
Proof.
  intros sx p H d. assert (Hd : d <= 53) by (apply (Zdigits2_le (Zpos p) 53); lia).
  assert (1 <= d) by (unfold d; lia).
  rewrite br_exact by (fold d; lia). fold d. replace (d + 0 - 53) with (d - 53) by lia. auto.
Qed.
Theorem Z_to_sf_integral : forall z, Z.abs z <= 2 ^ 53 -> integral (NFlt (Z_to_sf z)) z.
Proof.
  intros z H. unfold Z_to_sf, binary_normalize. destruct z as [|p|p].
  - split; reflexivity.
  - destruct (Z.eq_dec (Zpos p) (2 ^ 53)) as [E|E]; [injection E as ->; split; vm_compute; reflexivity|].
    destruct (Z_to_sf_small' false p ltac:(lia)) as (-> & Hd).
    replace (Z.pos (digits2_pos p) - 53) with (- (53 - Z.pos (digits2_pos p))) by lia.
    apply (shifted_integral false). lia.
  - destruct (Z.eq_dec (Zpos p) (2 ^ 53)) as [E|E]; [injection E as ->; split; vm_compute; reflexivity|].
    destruct (Z_to_sf_small' true p ltac:(lia)) as (-> & Hd).
    replace (Z.pos (digits2_pos p) - 53) with (- (53 - Z.pos (digits2_pos p))) by lia.
    apply (shifted_integral true). lia.
Qed.
Theorem respell_num_int : forall z, Z.abs z <= 2 ^ 53 -> respell_num (NInt z) = NFlt (Z_to_sf z).
Proof.
  intros z H. unfold respell_num. rewrite (proj2 (int_value_integral _ _) (Z_to_sf_integral z H)), Z.eqb_refl. reflexivity.
Qed.
Theorem respell_num_float : forall f z, integral (NFlt f) z -> respell_num (NFlt f) = NInt z.
Proof. intros f z H. unfold respell_num. rewrite (proj2 (int_value_integral _ _) H). reflexivity. Qed.
Theorem respell_num_involutive_small : forall z, Z.abs z <= 2 ^ 53 -> respell_num (respell_num (NInt z)) = NInt z.
Proof. intros z H. rewrite (respell_num_int z H). apply respell_num_float, Z_to_sf_integral, H. Qed.
