(* the MODEL parser (Model/Script.v over the regenerated regexes) accepts the shipped include markdownUp.bare as it is in the
   tree now (text regenerated into Gen/Includes.v on every run); one file per include so that make -j runs them in parallel *)
From BS Require Import Model.Base Model.Script Model.Includes Gen.Inc_markdownUp.
Lemma parses_markdownUp : include_parses inc_markdownUp = true.
Proof. vm_cast_no_check (eq_refl true). Qed.
