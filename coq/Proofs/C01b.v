(* Proofs/C01b.v — whole-scope corollary of the simulation, and an executable structured interpreter that is sound
   for the big-step semantics (so the structured reading itself can be run, inside Coq, against the implementation). *)
From Coq Require Import Lia List Bool.
From BS Require Import Model.Base Model.Num Model.Arith Model.ExprParser Model.Script Model.Interp
                       Proofs.InterpEq Proofs.Fuel Proofs.C08 Proofs.C01.
Import ListNotations.

Section Scope.
Variable cfg : config.
Hypothesis Hunl : c_max cfg = 0%Z.
Variable lib : caller -> str -> list value -> world -> lres * world.
Variable url_rel : str -> str -> str.
Variable lint_lines : script -> list str.
Hypothesis Hlib : lib_fuel_monotone lib.
Variable um : umode.
Variable lab : lkind -> nat -> str.
Hypothesis lab_inj : forall k n k' n', lab k n = lab k' n' -> k = k' /\ n = n'.

Notation Ev := (Ev cfg lib url_rel lint_lines um).
Notation Run := (Run cfg lib url_rel lint_lines um).
Notation SExec := (SExec cfg lib url_rel lint_lines um).
Notation compile := (compile lab).

Hypothesis Ev_blind : forall e loc w o w' wm, Ev e loc w o w' -> weq w wm -> exists wm', Ev e loc wm o wm' /\ weq w' wm'.

(* what a scope (the global statement list, or a function body) returns *)
Definition scope_result (o : sout) : option outcome :=
  match o with SNormal => Some (OVal VNull) | SStop out => Some out | _ => None end.

Lemma code_at_whole code : code_at code 0 code.
Proof. exists [], []. rewrite app_nil_r. split; reflexivity. Qed.

(* the lowered code of a whole scope, run by the interpreter from statement 0 on any world that differs from the
   structured run's world at most in the statement counter, returns what the structured reading returns and leaves
   the same locals and (up to the counter) the same world: result, log, globals, heap *)
Theorem scope_sim : forall s loc w o loc' w', SExec s (loc, w) o (loc', w') ->
  wf false s = true -> guard s = true ->
  forall n wm, weq w wm ->
  exists out wm', scope_result o = Some out /\ weq w' wm' /\ Run (fst (compile None n s)) 0 loc wm (out, loc', wm').
Proof.
  intros s loc w o loc' w' H Hwf Hg n wm Hw.
  destruct (sim cfg Hunl lib url_rel lint_lines Hlib um lab Ev_blind _ _ _ _ H) as [HP _].
  destruct (HP (fst (compile None n s)) None None n 0 wm (compile_NoDup lab lab_inj None n s) I Hwf Hg (code_at_whole _) Hw) as (wm' & Hw' & Hp).
  cbn [fst snd] in *. destruct o; cbn [post] in Hp.
  - exists (OVal VNull), wm'. split; [reflexivity|split; [exact Hw'|]]. apply Hp. apply run_end. apply nth_error_None. cbn. lia.
  - contradiction.
  - contradiction.
  - exists o, wm'. split; [reflexivity|split; [exact Hw'|exact Hp]].
Qed.

(* ---- an executable structured interpreter ---- *)
Notation eval := (eval cfg lib url_rel lint_lines).

Fixpoint sexec (fuel : nat) (s : sstmt) (st : sstate) {struct fuel} : option (sout * sstate) :=
  match fuel with
  | O => None
  | S f =>
    let '(loc, w) := st in
    let ev e w0 := match eval f e loc false um w0 with (OFuel, _) => None | r => Some r end in
    match s with
    | TSkip => Some (SNormal, st)
    | TSeq a b =>
      match sexec f a st with
      | Some (SNormal, st1) => sexec f b st1
      | r => r
      end
    | TAssign x e =>
      match ev e w with
      | Some (OVal v, w1) => Some (SNormal, assign x v loc w1)
      | Some (o, w1) => Some (SStop o, (loc, w1))
      | None => None
      end
    | TExpr e =>
      match ev e w with
      | Some (OVal v, w1) => Some (SNormal, (loc, w1))
      | Some (o, w1) => Some (SStop o, (loc, w1))
      | None => None
      end
    | TReturn (Some e) => match ev e w with Some (o, w1) => Some (SStop o, (loc, w1)) | None => None end
    | TReturn None => Some (SStop (OVal VNull), st)
    | TBreak => Some (SBreak, st)
    | TContinue => Some (SContinue, st)
    | TIf c a rest =>
      match ev c w with
      | Some (OVal v, w1) => if truthy w1 v then sexec f a (loc, w1) else sexec f rest (loc, w1)
      | Some (o, w1) => Some (SStop o, (loc, w1))
      | None => None
      end
    | TElse b => sexec f b st
    | TWhile c b =>
      match ev c w with
      | Some (OVal v, w1) =>
        if truthy w1 v then
          match sexec f b (loc, w1) with
          | Some (SNormal, st2) | Some (SContinue, st2) => sexec f s st2
          | Some (SBreak, st2) => Some (SNormal, st2)
          | Some (SStop o, st2) => Some (SStop o, st2)
          | None => None
          end
        else Some (SNormal, (loc, w1))
      | Some (o, w1) => Some (SStop o, (loc, w1))
      | None => None
      end
    end
  end.

Lemma ev_sound f e loc w o w1 :
  match eval f e loc false um w with (OFuel, _) => None | r => Some r end = Some (o, w1) -> Ev e loc w o w1.
Proof.
  destruct (eval f e loc false um w) as [o' w'] eqn:E. intros H. exists f.
  destruct o'; try discriminate; injection H as <- <-; (split; [exact E|discriminate]).
Qed.

Lemma is_val_false o : (forall v, o <> OVal v) -> is_val o = false.
Proof. intros H. destruct o; try reflexivity. exfalso. eapply H. reflexivity. Qed.

Theorem sexec_sound : forall fuel s st o st', sexec fuel s st = Some (o, st') -> SExec s st o st'.
Proof.
  induction fuel as [|f IH]; intros s [loc w] o st' H; [discriminate|]. cbn [sexec] in H.
  destruct s as [ |a b|x e|e|[e|]| | |c a rest|b|c b].
  - injection H as <- <-. constructor.
  - destruct (sexec f a (loc, w)) as [[oa st1]|] eqn:Ea; [|discriminate].
    destruct oa; try (injection H as <- <-; apply E_SeqA; [apply IH; exact Ea|discriminate]).
    eapply E_SeqN; [apply IH; exact Ea|apply IH; exact H].
  - destruct (match eval f e loc false um w with (OFuel, _) => None | r => Some r end) as [[oe w1]|] eqn:Ee; [|discriminate].
    apply ev_sound in Ee. destruct oe; injection H as <- <-; try (apply E_AssignStop; [exact Ee|reflexivity]). apply E_Assign. exact Ee.
  - destruct (match eval f e loc false um w with (OFuel, _) => None | r => Some r end) as [[oe w1]|] eqn:Ee; [|discriminate].
    apply ev_sound in Ee. destruct oe; injection H as <- <-; try (apply E_ExprStop; [exact Ee|reflexivity]). eapply E_Expr. exact Ee.
  - destruct (match eval f e loc false um w with (OFuel, _) => None | r => Some r end) as [[oe w1]|] eqn:Ee; [|discriminate].
    apply ev_sound in Ee. injection H as <- <-. apply E_Return. exact Ee.
  - injection H as <- <-. constructor.
  - injection H as <- <-. constructor.
  - injection H as <- <-. constructor.
  - destruct (match eval f c loc false um w with (OFuel, _) => None | r => Some r end) as [[oe w1]|] eqn:Ee; [|discriminate].
    apply ev_sound in Ee. destruct oe; try (injection H as <- <-; apply E_IfStop; [exact Ee|reflexivity]).
    destruct (truthy w1 v) eqn:Et; [eapply E_IfT|eapply E_IfF]; eauto.
  - apply E_Else. apply IH. exact H.
  - destruct (match eval f c loc false um w with (OFuel, _) => None | r => Some r end) as [[oe w1]|] eqn:Ee; [|discriminate].
    apply ev_sound in Ee. destruct oe; try (injection H as <- <-; apply E_WhileStop; [exact Ee|reflexivity]).
    destruct (truthy w1 v) eqn:Et; [|injection H as <- <-; eapply E_WhileF; eauto].
    destruct (sexec f b (loc, w1)) as [[ob st2]|] eqn:Eb; [|discriminate]. apply IH in Eb.
    destruct ob.
    + eapply E_WhileT; [exact Ee|exact Et|exact Eb|left; reflexivity|apply IH; exact H].
    + injection H as <- <-. eapply E_WhileB; eauto.
    + eapply E_WhileT; [exact Ee|exact Et|exact Eb|right; reflexivity|apply IH; exact H].
    + injection H as <- <-. eapply E_WhileS; eauto.
Qed.

(* composition: when the structured reading of a scope terminates with a result, so does the lowered code, with the same result *)
Corollary sexec_implies_machine : forall fuel s loc w o loc' w', sexec fuel s (loc, w) = Some (o, (loc', w')) ->
  wf false s = true -> guard s = true ->
  forall n wm, weq w wm ->
  exists out wm', scope_result o = Some out /\ weq w' wm' /\ Run (fst (compile None n s)) 0 loc wm (out, loc', wm').
Proof. intros. eapply scope_sim; eauto. eapply sexec_sound. eassumption. Qed.

End Scope.
