(* Proofs/C09termLib.v — the two library premises of the termination theorem (Proofs/C09term.v) are satisfiable by a
   library function that DOES call back: `__each(array, f)` calls f(x) for each element x of the array (snapshot at the
   call), left to right, stops at and passes on the first outcome that is not a value, and refuses itself as f.
   (The modelled library LibCore.libcore never calls back, so it meets the premises trivially.) *)
From Coq Require Import Lia ZArith.
From BS Require Import Model.Base Model.Num Model.Arith Model.ExprParser Model.Script Model.Interp Model.LibCore Model.Run
                       Proofs.BaseFacts Proofs.InterpEq Proofs.C09 Proofs.C09term.
Local Open Scope Z_scope.

Definition each_name : str := U "__each".

Fixpoint each_go (cb : caller) (fv : value) (l : list value) (w : world) : lres * world :=
  match l with
  | [] => (LVal VNull, w)
  | x :: t =>
    match cb fv [x] w with
    | (OVal _, w1) => each_go cb fv t w1
    | (ORt m, w1) => (LRt m, w1)
    | (OExc _ m, w1) => (LRaise m, w1)
    | (OFuel, w1) => (LFuel, w1)
    | (_, w1) => (LOracle, w1)
    end
  end.

Definition libcb (cfg : config) (cb : caller) (name : str) (args : list value) (w : world) : lres * world :=
  if str_eqb name each_name then
    match args with
    | [VArr l; VFun (FLib nm)] =>
      if str_eqb nm each_name then (LArgs VNull (U "args"), w) else each_go cb (VFun (FLib nm)) (get_arr w l) w
    | [VArr l; VFun (FScript id)] => each_go cb (VFun (FScript id)) (get_arr w l) w
    | _ => (LArgs VNull (U "args"), w)
    end
  else libcore cfg cb name args w.

Definition rank_cb (nm : str) : nat := if str_eqb nm each_name then 1%nat else 0%nat.

Lemma each_go_ext (cb cb' : caller) fv : (forall a w, cb fv a w = cb' fv a w) ->
  forall l w, each_go cb fv l w = each_go cb' fv l w.
Proof.
  intros H. induction l as [|x t IH]; intros w; cbn [each_go]; [reflexivity|].
  rewrite H. destruct (cb' fv [x] w) as [o w1]. destruct o; try reflexivity. apply IH.
Qed.

Lemma libcb_ranked cfg : lib_ranked (libcb cfg) rank_cb.
Proof.
  intros name cb cb' H args w. unfold libcb. destruct (str_eqb name each_name) eqn:En; [|reflexivity].
  assert (Hr : rank_cb name = 1%nat) by (unfold rank_cb; rewrite En; reflexivity). rewrite Hr in H.
  destruct args as [|a0 [|a1 [|a2 rest]]]; try reflexivity; destruct a0; try reflexivity.
  destruct a1 as [ |b|n|s|us|l1|l1|fr|id]; try reflexivity. destruct fr as [nm|id].
  - destruct (str_eqb nm each_name) eqn:Enm; [reflexivity|]. apply each_go_ext. intros a' w'. apply H.
    cbn [below]. unfold rank_cb. rewrite Enm. lia.
  - apply each_go_ext. intros a' w'. apply H. exact Logic.I.
Qed.

Lemma each_go_T (J : Type) c (cb : J -> nat -> caller) :
  (forall fv a w, c <= w_count w -> T (w_count w) (fun j f => cb j f fv a w)) ->
  forall fv l w, c <= w_count w -> T (w_count w) (fun j f => each_go (cb j f) fv l w).
Proof.
  intros Hcb fv. induction l as [|x t IH]; intros w Hc; cbn [each_go]; [tconst|].
  bind (fun j f => cb j f fv [x] w) r M; [apply Hcb; exact Hc|].
  destruct r as [o w1]. sc. destruct o; cbv beta iota; try tconst.
  eapply T_weaken; [apply IH; lia|lia].
Qed.

Lemma libcb_terminates cfg : lib_terminates (libcb cfg).
Proof.
  intros J c cb Hcb name args w Hc. unfold libcb. destruct (str_eqb name each_name).
  - destruct args as [|a0 [|a1 [|a2 rest]]]; try tconst; destruct a0; try tconst;
      destruct a1 as [ |b|n|s|us|l1|l1|fr|id]; try tconst; destruct fr as [nm|id]; try tconst.
    + destruct (str_eqb nm each_name); [tconst|]. apply (each_go_T J c); assumption.
    + apply (each_go_T J c); assumption.
  - apply (libcore_terminates cfg J c cb Hcb name args w Hc).
Qed.

(* the callback at work, under maxStatements = 10:
     function g(x): systemLog('g') endfunction   __each(arrayNew(1, 2), g)             -> logs g, g; 4 statements
     function h(x): L: jump L endfunction        return __each(arrayNew(1, 2), h)      -> the budget error comes out of the library *)
Definition each_cfg : config := mkcfg 10 false true.
Definition each_world : world := upd_globals (world0 []) [(each_name, VFun (FLib each_name))].
Definition each_ok_prog : script :=
  [ SFunction (U "g") (Some [U "x"]) false false [SExpr None (ECall (U "systemLog") [EStr (U "g")])];
    SReturn (Some (ECall each_name [ECall (U "arrayNew") [ENum (NInt 1); ENum (NInt 2)]; EVar (U "g")])) ].
Definition each_loop_prog : script :=
  [ SFunction (U "h") (Some [U "x"]) false false [SLabel (U "L"); SJump (U "L") None];
    SReturn (Some (ECall each_name [ECall (U "arrayNew") [ENum (NInt 1); ENum (NInt 2)]; EVar (U "h")])) ].

Lemma each_examples : forall bot fuel,
  let r1 := execute_script_bot each_cfg (libcb each_cfg) no_url no_lint bot (20 + fuel) each_ok_prog each_world in
  let r2 := execute_script_bot each_cfg (libcb each_cfg) no_url no_lint bot (40 + fuel) each_loop_prog each_world in
  (fst r1 = OVal VNull /\ w_log (snd r1) = [U "g"; U "g"] /\ w_count (snd r1) = 4) /\
  (fst r2 = ORt (msg_exceeded 10) /\ w_count (snd r2) = 11).
Proof. intros bot fuel. vm_compute. repeat split. Qed.
