(* Proofs/C01uReal.v — the unified block language of Proofs/C01u.v with the REAL reserved names of the parser
   (__bareScriptIf/Done/Loop/Continue<N> for labels, __bareScriptValues/Length/Index<N> for the bookkeeping variables of a for),
   and the simulation as a whole-scope statement with premises on the LIBRARY only. *)
From Coq Require Import Lia List Bool ZArith.
From BS Require Import Model.Base Model.Num Model.Arith Model.ExprParser Model.Script Model.Interp Model.RunC01
                       Proofs.Fuel Proofs.C01 Proofs.C01b Proofs.Blind Proofs.C01for Proofs.C01forN Proofs.C01forReal Proofs.C01u.
Import ListNotations.

(* SOURCE trees are [unistmt] trees whose for loops carry placeholder names for the values / length temporaries and either the
   source's index variable or the empty name (no index variable, as the parser's KFor line kind has it).  [uname] gives every
   loop the names the parser gives it: the label counter runs in source order, one index per if / elif / while / for. *)
Fixpoint uname (n : nat) (s : unistmt) : unistmt * nat :=
  match s with
  | NSeq a b => let '(a', n1) := uname n a in let '(b', n2) := uname n1 b in (NSeq a' b', n2)
  | NIf c a rest => let '(a', n1) := uname (S n) a in let '(r', n2) := uname n1 rest in (NIf c a' r', n2)
  | NElse b => let '(b', n1) := uname n b in (NElse b', n1)
  | NWhile c b => let '(b', n1) := uname (S n) b in (NWhile c b', n1)
  | NFor _ _ idx x e body =>
    let '(b', n1) := uname (S n) body in
    (NFor (lbl L_Values n) (lbl L_Length n) (match idx with [] => lbl L_Index n | _ => idx end) x e b', n1)
  | _ => (s, n)
  end.

Definition ucompile_real (n : nat) (s : unistmt) : list stmt := fst (ucompile real_lab real_labc None n (fst (uname n s))).

(* naming changes neither the shape conditions nor the F7 guard *)
Lemma uname_has_cont : forall s n, uhas_cont (fst (uname n s)) = uhas_cont s.
Proof.
  induction s as [ |a IHa b IHb|x e|e|e| | |c a IHa rest IHr|b IHb|c b IHb|vals len idx x e body IHb]; intros n; cbn [uname]; try reflexivity.
  - specialize (IHa n). destruct (uname n a) as [a' n1]. specialize (IHb n1). destruct (uname n1 b) as [b' n2]. cbn [fst uhas_cont] in *. congruence.
  - specialize (IHa (S n)). destruct (uname (S n) a) as [a' n1]. specialize (IHr n1). destruct (uname n1 rest) as [r' n2]. cbn [fst uhas_cont] in *. congruence.
  - specialize (IHb n). destruct (uname n b) as [b' n1]. cbn [fst uhas_cont] in *. exact IHb.
  - destruct (uname (S n) b) as [b' n1]. reflexivity.
  - destruct (uname (S n) body) as [b' n1]. reflexivity.
Qed.

Lemma uname_guard : forall s n, uguard (fst (uname n s)) = uguard s.
Proof.
  induction s as [ |a IHa b IHb|x e|e|e| | |c a IHa rest IHr|b IHb|c b IHb|vals len idx x e body IHb]; intros n; cbn [uname]; try reflexivity.
  - specialize (IHa n). destruct (uname n a) as [a' n1]. specialize (IHb n1). destruct (uname n1 b) as [b' n2]. cbn [fst uguard] in *. congruence.
  - specialize (IHa (S n)). destruct (uname (S n) a) as [a' n1]. specialize (IHr n1). destruct (uname n1 rest) as [r' n2]. cbn [fst uguard] in *. congruence.
  - specialize (IHb n). destruct (uname n b) as [b' n1]. cbn [fst uguard] in *. exact IHb.
  - pose proof (uname_has_cont b (S n)) as Hc. specialize (IHb (S n)). destruct (uname (S n) b) as [b' n1]. cbn [fst uguard] in *. congruence.
  - specialize (IHb (S n)). destruct (uname (S n) body) as [b' n1]. cbn [fst uguard] in *. exact IHb.
Qed.

(* [uname] advances the counter exactly as the lowering does (on trees whose if chains are well-shaped) *)
Fixpoint ushape (s : unistmt) : bool :=
  match s with
  | NSeq a b => ushape a && ushape b
  | NIf _ a rest => ushape a && ushape rest && urest_ok rest
  | NElse b | NWhile _ b | NFor _ _ _ _ _ b => ushape b
  | _ => true
  end.

Lemma uname_rest_ok s n : urest_ok (fst (uname n s)) = urest_ok s.
Proof. destruct s; cbn [uname]; try reflexivity; repeat match goal with |- context [uname ?k ?t] => destruct (uname k t) end; reflexivity. Qed.

Lemma uname_counter : forall s n, ushape s = true ->
  (forall ctx, snd (ucompile real_lab real_labc ctx n (fst (uname n s))) = snd (uname n s)) /\
  (forall ctx done jl, urest_ok s = true -> snd (ucrest real_lab real_labc ctx done jl n (fst (uname n s))) = snd (uname n s)).
Proof.
  induction s as [ |a IHa b IHb|x e|e|e| | |c a IHa rest IHr|b IHb|c b IHb|vals len idx x e body IHb]; intros n Hs; cbn [uname ushape] in *;
    try (split; [intros ctx|intros ctx done jl Hro]; try discriminate Hro; reflexivity).
  - apply andb_prop in Hs. destruct Hs as [Hsa Hsb].
    split; [intros ctx|intros ctx done jl Hro; discriminate Hro].
    destruct (IHa n Hsa) as [Ha _]. specialize (Ha ctx). destruct (uname n a) as [a' n1]. destruct (IHb n1 Hsb) as [Hb _]. specialize (Hb ctx).
    destruct (uname n1 b) as [b' n2]. cbn [fst snd] in *. rewrite ucompile_seq_eq.
    destruct (ucompile real_lab real_labc ctx n a') as [ca m1]. cbn [snd] in Ha. subst m1.
    destruct (ucompile real_lab real_labc ctx n1 b') as [cb m2]. cbn [snd] in *. exact Hb.
  - apply andb_prop in Hs. destruct Hs as [Hs Hro]. apply andb_prop in Hs. destruct Hs as [Hsa Hsr].
    destruct (IHa (S n) Hsa) as [Ha _]. destruct (uname (S n) a) as [a' n1]. destruct (IHr n1 Hsr) as [_ HrQ].
    destruct (uname n1 rest) as [r' n2]. cbn [fst snd] in *.
    split; [intros ctx|intros ctx done jl _].
    + rewrite ucompile_if_eq. specialize (Ha ctx). destruct (ucompile real_lab real_labc ctx (S n) a') as [ca m1]. cbn [snd] in Ha. subst m1.
      specialize (HrQ ctx (real_lab KDone n) (real_lab KIf n) Hro). destruct (ucrest real_lab real_labc ctx (real_lab KDone n) (real_lab KIf n) n1 r') as [cr m2].
      cbn [snd] in *. exact HrQ.
    + rewrite ucrest_if_eq. specialize (Ha ctx). destruct (ucompile real_lab real_labc ctx (S n) a') as [ca m1]. cbn [snd] in Ha. subst m1.
      specialize (HrQ ctx done (real_lab KIf n) Hro). destruct (ucrest real_lab real_labc ctx done (real_lab KIf n) n1 r') as [cr m2].
      cbn [snd] in *. exact HrQ.
  - destruct (IHb n Hs) as [Hb _]. destruct (uname n b) as [b' n1]. cbn [fst snd] in *.
    split; [intros ctx|intros ctx done jl _].
    + rewrite ucompile_else_eq. apply Hb.
    + rewrite ucrest_else_eq. specialize (Hb ctx). destruct (ucompile real_lab real_labc ctx n b') as [cb m1]. exact Hb.
  - split; [intros ctx|intros ctx done jl Hro; discriminate Hro].
    destruct (IHb (S n) Hs) as [Hb _]. destruct (uname (S n) b) as [b' n1]. cbn [fst snd] in *. rewrite ucompile_while_eq.
    specialize (Hb (Some (real_lab KDone n, real_lab KLoop n))). destruct (ucompile real_lab real_labc (Some (real_lab KDone n, real_lab KLoop n)) (S n) b') as [cb m1]. exact Hb.
  - split; [intros ctx|intros ctx done jl Hro; discriminate Hro].
    destruct (IHb (S n) Hs) as [Hb _]. destruct (uname (S n) body) as [b' n1]. cbn [fst snd] in *. rewrite ucompile_for_eq.
    specialize (Hb (Some (real_lab KDone n, real_labc n))). destruct (ucompile real_lab real_labc (Some (real_lab KDone n, real_labc n)) (S n) b') as [cb m1]. exact Hb.
Qed.

(* labels of the lowered code are defined once *)
Theorem ucompile_real_NoDup ctx n s : NoDup (labels (fst (ucompile real_lab real_labc ctx n s))).
Proof. exact (ucompile_NoDup real_lab real_labc real_lab_inj' real_labc_inj real_labc_fresh ctx n s). Qed.

(* SIMULATION, one scope, the whole block-structured language; premises on the library only *)
Theorem unified_simulation : forall cfg, c_max cfg = 0%Z ->
  forall lib url_rel lint_lines, lib_fuel_monotone lib -> lib_count_blind lib ->
  arrayLength_contract lib -> arrayGet_contract lib ->
  forall um n s loc w o loc' w',
  UExec cfg lib url_rel lint_lines um (fst (uname n s)) (loc, w) o (loc', w') ->
  uwf false (fst (uname n s)) = true -> uguard s = true ->
  forall wm, weq w wm ->
  exists out wm', scope_result o = Some out /\ weq w' wm' /\
    Run cfg lib url_rel lint_lines um (ucompile_real n s) 0 loc wm (out, loc', wm').
Proof.
  intros cfg Hunl lib url_rel lint_lines Hf Hb Hl Hg um n s loc w o loc' w' H Hwf Hgd wm Hw.
  rewrite <- (uname_guard s n) in Hgd.
  exact (uscope_sim cfg Hunl lib url_rel lint_lines Hf um real_lab real_labc
           (Ev_blind_holds cfg Hunl lib url_rel lint_lines Hb um) Hl Hg _ loc w o loc' w' H Hwf Hgd n wm
           (ucompile_real_NoDup None n _) Hw).
Qed.
