(* Proofs/C10tokTrail.v — TRAILING white space of an expression:  parse_expression (t ++ ws) = parse_expression t
   for EVERY text t (also a rejected one: same message, same column) and every run ws of `\s` characters.

   rx_trail     each of the eleven token regexes answers on  s ++ ws  exactly what it answers on  s  (same end, same
                captures): eight of them END with a literal non-space character (parenthesis, comma, quote, closing bracket) — Proofs/RegexTrail.v, an
                operational lemma about the engine, no direct reading needed; the four that end inside a capture group
                (operators, identifiers, numbers) through their direct readings (Proofs/C02rx.v, C13rx.v);
   lex_trail    hence the captured text is the same and the remainder is the old remainder ++ ws;
   trail_parser the three parser functions on  s ++ ws : same value, remainder ++ ws, error remainders longer by |ws|;
   parse_expression_trail   the final `strip` ignores the run, the columns are computed from differences. *)
From Coq Require Import Lia.
From BS Require Import Model.Base Model.Num Model.Regex Model.NumText Model.ExprParser Gen.Unicode Gen.Regexes Gen.Tables
  Proofs.BaseFacts Proofs.RegexFacts Proofs.RegexComplete Proofs.RegexShift Proofs.RegexEval Proofs.NumLit Proofs.C13rx
  Proofs.C02 Proofs.C02rx Proofs.ExprFacts Proofs.ExprFuel Proofs.C10ws Proofs.C10wsExpr Proofs.C10tokLex
  Proofs.C10tokSpaced Proofs.RegexTrail.

(* ================================================================== A. regexes that end with a literal *)
Fixpoint unsnoc (r : regex) : option (regex * regex) :=
  match r with
  | RCat a b => match unsnoc b with Some (a', l) => Some (RCat a a', l) | None => Some (a, b) end
  | _ => None
  end.

Lemma ev_unsnoc : forall r A L, unsnoc r = Some (A, L) ->
  forall pos rest c k, ev UC r pos rest c k = ev UC (RCat A L) pos rest c k.
Proof.
  induction r; intros A L H pos rest cc k; cbn [unsnoc] in H; try discriminate.
  destruct (unsnoc r2) as [[a' l]|] eqn:E.
  - inversion H; subst. rewrite ev_cat.
    rewrite (ev_ext UC r1 pos rest cc _ (fun p r' c' => ev UC (RCat a' L) p r' c' k)).
    + reflexivity.
    + intros p r' c'. apply (IHr2 a' L eq_refl).
  - inversion H; subst. reflexivity.
Qed.

Lemma rx_trail_lit R A x : unsnoc R = Some (A, RLit x) -> no_look A = true -> no_eol A = true -> is_space UC x = false ->
  forall s ws, white ws -> rx R (s ++ ws) = rx R s.
Proof.
  intros H NL NE NX s ws W. unfold rx. rewrite !re_match_ev, !(ev_unsnoc R A (RLit x) H).
  apply trail_last_lit; assumption.
Qed.

(* ================================================================== B. regexes read as  skip white space, then body *)
Lemma span_white_all : forall s, snd (span_p is_space_u s) = [] -> white s.
Proof.
  induction s as [|y t IH]; intros H; [apply white_nil|]. cbn [span_p] in H. destruct (is_space_u y) eqn:S.
  - destruct (span_p is_space_u t) as [n q] eqn:E. cbn [snd] in *. intros c [<-|I]; [exact S | exact (IH H c I)].
  - discriminate.
Qed.

Lemma span_p_app_stop p : forall a c s' r, snd (span_p p a) = c :: s' ->
  span_p p (a ++ r) = (fst (span_p p a), (c :: s') ++ r).
Proof.
  induction a as [|y t IH]; intros c s' r H; [discriminate|]. cbn [app span_p] in *. destruct (p y).
  - destruct (span_p p t) as [n q] eqn:E. cbn [fst snd] in *. rewrite (IH c s' r H). reflexivity.
  - cbn [fst snd] in *. inversion H; subst. reflexivity.
Qed.

Lemma white_app a b : white a -> white b -> white (a ++ b).
Proof. intros A B c I. apply in_app_or in I. destruct I; auto. Qed.

Lemma span_stop_nsp : forall s c s', snd (span_p is_space_u s) = c :: s' -> is_space_u c = false.
Proof.
  induction s as [|y t IH]; intros c s' H; [discriminate|]. cbn [span_p] in H. destruct (is_space_u y) eqn:S.
  - destruct (span_p is_space_u t) as [n q]. cbn [snd] in H. exact (IH c s' H).
  - cbn [snd] in H. inversion H; subst. exact S.
Qed.

Lemma rx_trail_body R (body : str -> option nat) :
  (forall s, re_match UC R s = match body (snd (span_p is_space_u s)) with
                               | Some n => MYes (fst (span_p is_space_u s) + n) (cap1 (fst (span_p is_space_u s)) n)
                               | None => MNo end) ->
  body [] = None ->
  (forall c s' ws, is_space_u c = false -> white ws -> body ((c :: s') ++ ws) = body (c :: s')) ->
  forall s ws, white ws -> rx R (s ++ ws) = rx R s.
Proof.
  intros H B0 B1 s ws W. unfold rx. rewrite !H.
  destruct (snd (span_p is_space_u s)) as [|c s'] eqn:E.
  - pose proof (white_app s ws (span_white_all s E) W) as Wa. rewrite (span_white_only _ Wa). cbn [snd]. rewrite B0. reflexivity.
  - rewrite (span_p_app_stop is_space_u s c s' ws E). cbn [fst snd]. rewrite (B1 c s' ws (span_stop_nsp s c s' E) W). reflexivity.
Qed.

Lemma white_hd_space ws : white ws -> match ws with y :: _ => is_space_u y = true | [] => True end.
Proof. destruct ws as [|y u]; [intros; exact I|]. intros W. exact (proj1 (white_cons _ _ W)). Qed.

(* operators *)
Lemma is_prefix_trail : forall op s ws, forallb (fun a => negb (is_space_u a)) op = true -> white ws ->
  is_prefix op (s ++ ws) = is_prefix op s.
Proof.
  induction op as [|a op' IH]; intros s ws F W; [reflexivity|]. cbn [forallb] in F. apply andb_true_iff in F.
  destruct F as [Fa F']. apply negb_true_iff in Fa. destruct s as [|y t]; cbn [app is_prefix].
  - destruct ws as [|y u]; [reflexivity|]. cbn [is_prefix].
    rewrite (space_neq y a (proj1 (white_cons _ _ W)) Fa). reflexivity.
  - rewrite (IH t ws F' W). reflexivity.
Qed.

Lemma first_prefix_trail s ws : white ws -> first_prefix spec_ops (s ++ ws) = first_prefix spec_ops s.
Proof.
  intros W. assert (G : forall ops, forallb (forallb (fun a => negb (is_space_u a))) ops = true ->
                                    first_prefix ops (s ++ ws) = first_prefix ops s).
  { induction ops as [|op ops IH]; intros F; [reflexivity|]. cbn [forallb] in F. apply andb_true_iff in F.
    destruct F as [F1 F2]. cbn [first_prefix]. rewrite (is_prefix_trail op s ws F1 W), (IH F2). reflexivity. }
  apply G. vm_compute. reflexivity.
Qed.

(* identifiers *)
Lemma ident_body_trail c s' ws : white ws -> ident_body ((c :: s') ++ ws) = ident_body (c :: s').
Proof.
  intros W. cbn [app]. unfold ident_body. destruct (idstart c); [|reflexivity].
  rewrite (span_p_app is_word_u s' ws); [reflexivity|].
  pose proof (white_hd_space ws W) as Hd. destruct ws as [|y u]; [exact I|]. apply space_not_word. exact Hd.
Qed.

(* numbers *)
Lemma number_answer_body s : re_match UC R_EXPR_NUMBER s =
  match C13rx.lit_body (snd (span_p is_space_u s)) with
  | Some n => MYes (fst (span_p is_space_u s) + n) (cap1 (fst (span_p is_space_u s)) n)
  | None => MNo
  end.
Proof.
  rewrite number_regex_answer, lit_match_body. destruct (span_p is_space_u s) as [nsp s1]. cbn [fst snd].
  destruct (C13rx.lit_body s1); reflexivity.
Qed.

Lemma white_nhd ws : white ws -> nhd ws.
Proof.
  intros W. pose proof (white_hd_space ws W) as Hd. destruct ws as [|y u]; [exact I|].
  split; [apply space_not_digit_u; exact Hd|]. split; apply space_neq; try exact Hd; reflexivity.
Qed.

Lemma exp_len_trail s ws : white ws -> exp_len (s ++ ws) = exp_len s.
Proof.
  intros W. pose proof (white_nhd ws W) as Hn. pose proof (white_hd_space ws W) as Hd.
  rewrite !exp_len_eq. destruct s as [|y [|sg t]]; cbn [app].
  - destruct ws as [|z [|z2 r']]; try reflexivity. destruct Hn as (_ & _ & E1). rewrite E1. reflexivity.
  - destruct ws as [|z r']; [reflexivity|]. destruct (y =? 101)%N; [|reflexivity].
    rewrite (space_neq z 43 Hd eq_refl), (space_neq z 45 Hd eq_refl). reflexivity.
  - destruct (y =? 101)%N; [|reflexivity]. destruct ((sg =? 43)%N || (sg =? 45)%N); [|reflexivity].
    rewrite (span_p_app is_digit_u t ws (nhd_digit ws Hn)). destruct (span_p is_digit_u t) as [n q]. reflexivity.
Qed.

Lemma lit_body_trail c s' ws : white ws -> C13rx.lit_body ((c :: s') ++ ws) = C13rx.lit_body (c :: s').
Proof.
  intros W. pose proof (white_nhd ws W) as Hn. unfold C13rx.lit_body.
  assert (SG : sign_len ((c :: s') ++ ws) = (fst (sign_len (c :: s')), snd (sign_len (c :: s')) ++ ws)).
  { unfold sign_len. cbn [app]. destruct ((c =? 43) || (c =? 45))%N; reflexivity. }
  rewrite SG. destruct (sign_len (c :: s')) as [nsg s2]. cbn [fst snd].
  rewrite (span_p_app is_digit_u s2 ws (nhd_digit ws Hn)). destruct (span_p is_digit_u s2) as [ni s3]. cbn [fst snd].
  destruct ni as [|ni]; [reflexivity|].
  rewrite (frac_len_app s3 ws Hn). destruct (frac_len s3) as [nf s4]. cbn [fst snd].
  rewrite (exp_len_trail s4 ws W). reflexivity.
Qed.

(* ================================================================== C. all eleven *)
Lemma rx_trail R s ws : tokre R -> white ws -> rx R (s ++ ws) = rx R s.
Proof.
  intros T W. destruct T.
  - (* binary operator *)
    apply (rx_trail_body _ op_len binop_answer); [reflexivity | | exact W].
    intros c s' ws' _ W'. unfold op_len. rewrite (first_prefix_trail (c :: s') ws' W'). reflexivity.
  - (* unary operator *)
    apply (rx_trail_body _ unop_body unary_answer); [reflexivity | | exact W]. intros c s' ws' _ _. reflexivity.
  - eapply (rx_trail_lit _ _ 40); [vm_compute; reflexivity | reflexivity | reflexivity | reflexivity | exact W].
  - eapply (rx_trail_lit _ _ 44); [vm_compute; reflexivity | reflexivity | reflexivity | reflexivity | exact W].
  - eapply (rx_trail_lit _ _ 41); [vm_compute; reflexivity | reflexivity | reflexivity | reflexivity | exact W].
  - eapply (rx_trail_lit _ _ 40); [vm_compute; reflexivity | reflexivity | reflexivity | reflexivity | exact W].
  - eapply (rx_trail_lit _ _ 41); [vm_compute; reflexivity | reflexivity | reflexivity | reflexivity | exact W].
  - (* number *)
    apply (rx_trail_body _ C13rx.lit_body number_answer_body); [reflexivity | | exact W].
    intros c s' ws' _ W'. apply lit_body_trail. exact W'.
  - eapply (rx_trail_lit _ _ 39); [vm_compute; reflexivity | reflexivity | reflexivity | reflexivity | exact W].
  - eapply (rx_trail_lit _ _ 34); [vm_compute; reflexivity | reflexivity | reflexivity | reflexivity | exact W].
  - (* identifier *)
    apply (rx_trail_body _ ident_body variable_answer); [reflexivity | | exact W].
    intros c s' ws' _ W'. apply ident_body_trail. exact W'.
  - eapply (rx_trail_lit _ _ 93); [vm_compute; reflexivity | reflexivity | reflexivity | reflexivity | exact W].
Qed.

Lemma skipn_app_le {A} n (a b : list A) : n <= length a -> skipn n (a ++ b) = skipn n a ++ b.
Proof. intros L. rewrite skipn_app. replace (n - length a) with 0 by lia. reflexivity. Qed.

Lemma sub_list_app_le {A} (a b : list A) st en : st <= en <= length a -> sub_list (a ++ b) st (en - st) = sub_list a st (en - st).
Proof.
  intros L. unfold sub_list. rewrite skipn_app_le by lia. rewrite firstn_app.
  replace (en - st - length (skipn st a)) with 0 by (rewrite skipn_length; lia). cbn [firstn]. apply app_nil_r.
Qed.

Lemma lex_trail R s ws : tokre R -> white ws ->
  lex R (s ++ ws) = match lex R s with LYes g r => LYes g (r ++ ws) | LNo => LNo end.
Proof.
  intros T W. unfold lex. rewrite (rx_trail R s ws T W). destruct (rx R s) as [|e c|] eqn:E; try reflexivity.
  destruct (re_match_bounds UC s R e c E) as [Le Ci]. rewrite (skipn_app_le e s ws Le). f_equal.
  unfold grp, group_text. destruct (cap_get 1 c) as [[a b]|] eqn:G; [|reflexivity].
  rewrite (sub_list_app_le s ws a b (Ci 1 a b G)). reflexivity.
Qed.

(* ================================================================== D. the parser *)
Definition trel {A} (ws : str) (a b : pres (A * str)) : Prop :=
  match b with
  | POk (v, r) => a = POk (v, r ++ ws)
  | PErr msg n => a = PErr msg (n + length ws)
  | PHost w => a = PHost w
  | PFuel => a = PFuel
  end.

Section TrailParser.
Variable ws : str.
Hypothesis W : white ws.

Ltac lext := rewrite !(fun R s T => lex_trail R s ws T W) by constructor.

Lemma trail_parser : forall f,
  (forall s left, trel ws (parse_binary f (s ++ ws) left) (parse_binary f s left)) /\
  (forall s, trel ws (parse_unary f (s ++ ws)) (parse_unary f s)) /\
  (forall s acc, trel ws (parse_args f (s ++ ws) acc) (parse_args f s acc)).
Proof.
  induction f as [|f (IHb & IHu & IHa)]; [repeat split; intros; reflexivity|].
  assert (BT : forall le bt, trel ws (bin_tail f le (bt ++ ws)) (bin_tail f le bt)).
  { intros le bt. unfold bin_tail. rewrite (lex_trail _ bt ws tr_binop W).
    destruct (lex R_EXPR_BINARY_OP bt) as [|op rt]; [reflexivity|].
    pose proof (IHu rt) as T. destruct (parse_unary f rt) as [[re nt]|msg n|w|]; cbn [trel] in T; rewrite T; try reflexivity.
    apply IHb. }
  assert (AT : forall t acc, trel ws (args_tail f (t ++ ws) acc) (args_tail f t acc)).
  { intros t acc. unfold args_tail.
    pose proof (IHb t None) as T. destruct (parse_binary f t None) as [[a nt]|msg n|w|]; cbn [trel] in T; rewrite T; try reflexivity.
    apply IHa. }
  split; [|split].
  - intros s left. rewrite !parse_binary_lex. destruct left as [l|]; [apply BT|].
    pose proof (IHu s) as T. destruct (parse_unary f s) as [[le bt]|msg n|w|]; cbn [trel] in T; rewrite T; try reflexivity.
    apply BT.
  - intros s. rewrite !parse_unary_lex.
    rewrite (lex_trail _ s ws tr_gopen W). destruct (lex R_EXPR_GROUP_OPEN s) as [|g0 r0].
    2:{ pose proof (IHb r0 None) as T.
        destruct (parse_binary f r0 None) as [[ex nt]|msg n|w|]; cbn [trel] in T; rewrite T; try reflexivity.
        rewrite (lex_trail _ nt ws tr_gclose W). destruct (lex R_EXPR_GROUP_CLOSE nt) as [|g2 r2]; cbn [trel]; [|reflexivity].
        rewrite app_length. reflexivity. }
    rewrite (lex_trail _ s ws tr_unop W). destruct (lex R_EXPR_UNARY_OP s) as [|g1 r1].
    2:{ pose proof (IHu r1) as T. destruct (parse_unary f r1) as [[ex nt]|msg n|w|]; cbn [trel] in T; rewrite T; reflexivity. }
    rewrite (lex_trail _ s ws tr_fopen W). destruct (lex R_EXPR_FUNCTION_OPEN s) as [|g2 r2].
    2:{ pose proof (IHa r2 []) as T. destruct (parse_args f r2 []) as [[args nt]|msg n|w|]; cbn [trel] in T; rewrite T; reflexivity. }
    rewrite (lex_trail _ s ws tr_number W). destruct (lex R_EXPR_NUMBER s) as [|g3 r3].
    2:{ destruct (py_float g3); reflexivity. }
    rewrite (lex_trail _ s ws tr_string W). destruct (lex R_EXPR_STRING s) as [|g4 r4].
    2:{ destruct (unescape R_EXPR_STRING_ESCAPE g4); reflexivity. }
    rewrite (lex_trail _ s ws tr_stringd W). destruct (lex R_EXPR_STRING_DOUBLE s) as [|g5 r5].
    2:{ destruct (unescape R_EXPR_STRING_DOUBLE_ESCAPE g5); reflexivity. }
    rewrite (lex_trail _ s ws tr_variable W). destruct (lex R_EXPR_VARIABLE s) as [|g6 r6]; [|reflexivity].
    rewrite (lex_trail _ s ws tr_variable_ex W). destruct (lex R_EXPR_VARIABLE_EX s) as [|g7 r7].
    2:{ destruct (unescape R_EXPR_VARIABLE_EX_ESCAPE g7); reflexivity. }
    cbn [trel]. rewrite app_length. reflexivity.
  - intros s acc. rewrite !parse_args_lex.
    rewrite (lex_trail _ s ws tr_fclose W). destruct (lex R_EXPR_FUNCTION_CLOSE s) as [|g0 r0]; [|reflexivity].
    destruct acc as [|a0 acc0]; [apply AT|].
    rewrite (lex_trail _ s ws tr_fsep W). destruct (lex R_EXPR_FUNCTION_SEPARATOR s) as [|g1 r1]; [|apply AT].
    cbn [trel]. rewrite app_length. reflexivity.
Qed.
End TrailParser.

(* ================================================================== E. parse_expression *)
Lemma white_rev w : white w -> white (rev w).
Proof. intros W c I. apply W. apply in_rev. exact I. Qed.

Lemma rstrip_trail b ws : white ws -> rstrip (b ++ ws) = rstrip b.
Proof. intros W. unfold rstrip. rewrite rev_app_distr. rewrite (lstrip_white (rev ws) (rev b) (white_rev ws W)). reflexivity. Qed.

Lemma lstrip_cases : forall a, (lstrip a = [] /\ white a) \/ (exists w c r, a = w ++ c :: r /\ white w /\ is_space_u c = false /\ lstrip a = c :: r).
Proof.
  induction a as [|y t IH]; [left; split; [reflexivity | apply white_nil]|]. cbn [lstrip].
  change (U_space y) with (is_space_u y). destruct (is_space_u y) eqn:S.
  - destruct IH as [[E Wt]|(w & c & r & -> & Ww & C & E)].
    + left. split; [exact E|]. intros z [<-|I]; [exact S | exact (Wt z I)].
    + right. exists (y :: w), c, r. repeat split; try assumption. intros z [<-|I]; [exact S | exact (Ww z I)].
  - right. exists [], y, t. repeat split; try assumption. apply white_nil.
Qed.

Lemma strip_trail a ws : white ws -> strip (a ++ ws) = strip a.
Proof.
  intros W. destruct (lstrip_cases a) as [[E Wa]|(w & c & r & -> & Ww & C & E)].
  - rewrite (strip_white _ (white_app a ws Wa W)), (strip_white a Wa). reflexivity.
  - unfold strip. rewrite E. rewrite <- app_assoc. rewrite (lstrip_white w _ Ww). cbn [app lstrip].
    change (U_space c) with (is_space_u c). rewrite C. change (c :: r ++ ws) with ((c :: r) ++ ws). apply rstrip_trail. exact W.
Qed.

Theorem parse_expression_trail t ws : white ws -> parse_expression (t ++ ws) = parse_expression t.
Proof.
  intros W. unfold parse_expression.
  assert (LF : expr_fuel t <= expr_fuel (t ++ ws)) by (unfold expr_fuel; rewrite app_length; lia).
  pose proof (parse_binary_mono _ _ t None LF (parse_binary_enough_fuel t)) as Mo.
  destruct (trail_parser ws W (expr_fuel (t ++ ws))) as (Tb & _ & _). specialize (Tb t None). rewrite Mo in Tb.
  destruct (parse_binary (expr_fuel t) t None) as [[e nt]|msg n|w|]; cbn [trel] in Tb; rewrite Tb; try reflexivity.
  - rewrite (strip_trail nt ws W). destruct (strip nt); [reflexivity|]. rewrite !app_length. f_equal. lia.
  - rewrite app_length. f_equal. lia.
Qed.
