(* Proofs/C01forReal.v — the `for` loop of Proofs/C01for.v with the REAL reserved names of the parser
   (__bareScriptLoop<N>, __bareScriptDone<N>, __bareScriptContinue<N>, __bareScriptValues<N>, __bareScriptLength<N>,
   __bareScriptIndex<N>), the simulation as a whole-scope statement with premises on the LIBRARY only, and
   [compile_for] = what the parser model's pure lowering step (Model/Lower.v kstep) emits for  for ... endfor
   (for bodies without `continue`: the fragment that Proofs/C01c.v covers; with `continue` the equality is decided per case
   by the check, Model/RunC01for.v check_lowering_for). *)
From Coq Require Import Lia List Bool ZArith.
From BS Require Import Model.Base Model.Num Model.Arith Model.ExprParser Model.Script Model.Interp Model.Lower Model.RunC01
                       Proofs.Fuel Proofs.C01 Proofs.C01b Proofs.C01c Proofs.Blind Proofs.C07 Proofs.C01for.
Import ListNotations.

Definition real_labc (n : nat) : str := lbl L_Continue n.

Lemma real_lab_inj' : forall k n k' n', real_lab k n = real_lab k' n' -> k = k' /\ n = n'.
Proof.
  intros k n k' n' H. unfold real_lab in H.
  assert (Hin : forall k0, In (match k0 with C01.KIf => L_If | C01.KDone => L_Done | C01.KLoop => L_Loop end) LABEL_PREFIXES).
  { intros []; cbn; auto. }
  destruct (lbl_inj _ _ _ _ (Hin k) (Hin k') H) as [HP Hn]. split; [|exact Hn].
  destruct k, k'; try reflexivity; vm_compute in HP; discriminate.
Qed.

Lemma real_labc_fresh : forall k i j, real_lab k i <> real_labc j.
Proof.
  intros k i j H. unfold real_lab, real_labc in H.
  assert (Hin : In (match k with C01.KIf => L_If | C01.KDone => L_Done | C01.KLoop => L_Loop end) LABEL_PREFIXES).
  { destruct k; cbn; auto. }
  assert (Hc : In L_Continue LABEL_PREFIXES) by (cbn; auto).
  destruct (lbl_inj _ _ _ _ Hin Hc H) as [HP _]. destruct k; vm_compute in HP; discriminate.
Qed.

(* the index variable: the one the source names, else the reserved one *)
Definition for_index (n : nat) (idxo : option str) : str := match idxo with Some i => i | None => lbl L_Index n end.

Definition compile_for_real (n : nat) (x : str) (idxo : option str) (e : expr) (b : sstmt) : list stmt * nat :=
  compile_for real_lab real_labc (lbl L_Values n) (lbl L_Length n) (for_index n idxo) x e b n.

(* the reserved temporaries are fine names for every n; a user index name must not collide with them nor be null/true/false *)
Lemma reserved_names_ok n : names_okb (lbl L_Values n) (lbl L_Length n) (lbl L_Index n) = true.
Proof. reflexivity. Qed.

(* ---- [compile_for_real] is the parser's lowering ---- *)
Definition for_kinds (x : str) (idxo : option str) (e : expr) (b : sstmt) : list line_kind :=
  KFor x (match idxo with Some i => i | None => [] end) e :: kinds b ++ [KEndfor].

Lemma no_continue_has_cont s : no_continue s = true -> has_cont s = false.
Proof.
  induction s; cbn [no_continue has_cont]; intros H; try reflexivity; try discriminate;
    repeat match goal with H : (_ && _)%bool = true |- _ => apply andb_prop in H; destruct H end;
    try (apply orb_false_intro); auto.
Qed.

Theorem for_lowering_is_compile_for : forall ann i code depth fr n x idxo e b,
  idxo <> Some [] -> wf true b = true -> no_continue b = true ->
  kfold ann i (gstate code depth fr n) (for_kinds x idxo e b) =
  ROk (gstate (code ++ fst (compile_for_real n x idxo e b)) depth fr (snd (compile_for_real n x idxo e b))).
Proof.
  intros ann i code depth fr n x idxo e b Hidx Hwf Hnc. unfold for_kinds. cbn [kfold kstep]. gnorm.
  set (index := match match idxo with Some i0 => i0 | None => [] end with [] => lbl L_Index n | a :: b0 => a :: b0 end).
  assert (Eidx : index = for_index n idxo).
  { unfold index, for_index. destruct idxo as [[|a t]|]; [congruence|reflexivity|reflexivity]. }
  set (fr' := FFor (lbl L_Loop n) (lbl L_Continue n) (lbl L_Done n) index (lbl L_Values n) (lbl L_Length n) x false
                   (snd (ann i)) (fst (ann i)) :: fr).
  assert (Ectx : ctx_of fr' = Some (real_lab C01.KDone n, real_labc n)) by reflexivity.
  destruct (lower_is_compile b) as [HP _].
  rewrite (kfold_app ann (S i) _ (kinds b) [KEndfor] _ (HP ann (S i) _ depth fr' (S n) ltac:(rewrite Ectx; exact Hwf) Hnc)).
  rewrite Ectx. cbn [kfold kstep]. gnorm. unfold fr'. cbn [length Nat.leb]. gnorm.
  unfold compile_for_real, compile_for. rewrite (no_continue_has_cont _ Hnc), <- Eidx.
  destruct (C01.compile real_lab (Some (real_lab C01.KDone n, real_labc n)) (S n) b) as [cb n1]. cbn [fst snd app].
  rewrite <- !app_assoc. reflexivity.
Qed.

(* ---- the simulation, whole scope, premises on the library only ---- *)
Theorem for_simulation : forall cfg, c_max cfg = 0%Z ->
  forall lib url_rel lint_lines, lib_fuel_monotone lib -> lib_count_blind lib ->
  arrayLength_contract lib -> arrayGet_contract lib ->
  forall um n x idxo e b,
  names_okb (lbl L_Values n) (lbl L_Length n) (for_index n idxo) = true -> wf true b = true -> guard b = true ->
  forall loc w o loc' w',
  FExec cfg lib url_rel lint_lines um (lbl L_Values n) (lbl L_Length n) (for_index n idxo) x e b (loc, w) o (loc', w') ->
  forall wm, weq w wm ->
  exists out wm', scope_result o = Some out /\ weq w' wm' /\
    Run cfg lib url_rel lint_lines um (fst (compile_for_real n x idxo e b)) 0 loc wm (out, loc', wm').
Proof.
  intros cfg Hunl lib url_rel lint_lines Hf Hb Hl Hg um n x idxo e b Hn Hwf Hgd loc w o loc' w' H wm Hw.
  exact (for_scope_sim cfg Hunl lib url_rel lint_lines Hf um real_lab real_labc
           (Ev_blind_holds cfg Hunl lib url_rel lint_lines Hb um) Hl Hg _ _ _ x e b Hn Hwf Hgd real_lab_inj' real_labc_fresh
           loc w o loc' w' H n wm Hw).
Qed.

(* ================================================================ nested for loops (Proofs/C01forN.v) with the real names ==== *)
From BS Require Import Proofs.C01forN.

Lemma real_labc_inj : forall i j, real_labc i = real_labc j -> i = j.
Proof.
  intros i j H. assert (Hc : In L_Continue LABEL_PREFIXES) by (cbn; auto).
  destruct (lbl_inj _ _ _ _ Hc Hc H) as [_ E]. exact E.
Qed.

(* source-level trees: statement trees of the C01 fragment, sequencing, and for loops (the names of the temporaries are NOT part
   of the source; [annotate] gives each loop the names the parser gives it: the label counter runs in source order) *)
Inductive ustmt :=
| US (s : sstmt)
| USeq (a b : ustmt)
| UFor (x : str) (idxo : option str) (e : expr) (body : ustmt).

Fixpoint annotate (n : nat) (u : ustmt) : fstmt * nat :=
  match u with
  | US s => (FS s, snd (C01.compile real_lab None n s))
  | USeq a b => let '(fa, n1) := annotate n a in let '(fb, n2) := annotate n1 b in (FSeq fa fb, n2)
  | UFor x idxo e body =>
    let '(fb, n1) := annotate (S n) body in (FFor (lbl L_Values n) (lbl L_Length n) (for_index n idxo) x e fb, n1)
  end.

Definition compile_u (n : nat) (u : ustmt) : list stmt := fst (gcompile real_lab real_labc None n (fst (annotate n u))).

(* SIMULATION, one scope, statements with nested for loops; premises on the library only *)
Theorem nested_for_simulation : forall cfg, c_max cfg = 0%Z ->
  forall lib url_rel lint_lines, lib_fuel_monotone lib -> lib_count_blind lib ->
  arrayLength_contract lib -> arrayGet_contract lib ->
  forall um n u loc w o loc' w',
  GExec cfg lib url_rel lint_lines um (fst (annotate n u)) (loc, w) o (loc', w') ->
  gwf false (fst (annotate n u)) = true -> gguard (fst (annotate n u)) = true ->
  forall wm, weq w wm ->
  exists out wm', scope_result o = Some out /\ weq w' wm' /\
    Run cfg lib url_rel lint_lines um (compile_u n u) 0 loc wm (out, loc', wm').
Proof.
  intros cfg Hunl lib url_rel lint_lines Hf Hb Hl Hg um n u loc w o loc' w' H Hwf Hgd wm Hw.
  exact (gscope_sim cfg Hunl lib url_rel lint_lines Hf um real_lab real_labc
           (Ev_blind_holds cfg Hunl lib url_rel lint_lines Hb um) Hl Hg _ loc w o loc' w' H Hwf Hgd n wm
           (gcompile_NoDup real_lab real_labc real_lab_inj' real_labc_inj real_labc_fresh None n _) Hw).
Qed.
