(* Proofs/C10tokLex.v — the expression parser seen through its LEXER.
   lex R t          what the parser uses of one token-regex call: None, or (captured text of group 1, remainder);
   lex_white        leading white space in front of the text is invisible to every token regex (Proofs/RegexShift.v);
   parse_*_lex      parse_unary / parse_binary / parse_args written with lex only (the engine never runs out of fuel);
   lex_*            the value of lex on a text that starts with a non-space character, for each token regex, from the
                    DIRECT readings of Proofs/C02rx.v / C13rx.v (first-character tests, longest runs).
   Everything is about the regenerated constants of Gen/Regexes.v. *)
From Coq Require Import Lia.
From BS Require Import Model.Base Model.Num Model.Regex Model.NumText Model.ExprParser Gen.Unicode Gen.Regexes Gen.Tables
  Proofs.BaseFacts Proofs.RegexFacts Proofs.RegexComplete Proofs.RegexShift Proofs.RegexEval Proofs.NumLit Proofs.C13rx
  Proofs.C02 Proofs.C02rx Proofs.ExprFacts Proofs.ExprFuel Proofs.C10ws Proofs.C10wsExpr.

(* ================================================================== A. lex *)
Inductive lx := LNo | LYes (g rest : str).

Definition lex (R : regex) (t : str) : lx :=
  match rx R t with MYes e c => LYes (grp t c 1) (skipn e t) | _ => LNo end.

Lemma lex_white R B w t : R = RCat RBol (RCat rsp B) -> tok_ok B = true -> white w -> lex R (w ++ t) = lex R t.
Proof.
  intros E H W. unfold lex. rewrite (tok_rx R B w t E H W). destruct (rx R t); cbn [shiftr]; try reflexivity.
  rewrite skipn_pad, grp_shift. reflexivity.
Qed.

(* the eleven token regexes *)
Inductive tokre : regex -> Prop :=
| tr_binop : tokre R_EXPR_BINARY_OP | tr_unop : tokre R_EXPR_UNARY_OP | tr_fopen : tokre R_EXPR_FUNCTION_OPEN
| tr_fsep : tokre R_EXPR_FUNCTION_SEPARATOR | tr_fclose : tokre R_EXPR_FUNCTION_CLOSE | tr_gopen : tokre R_EXPR_GROUP_OPEN
| tr_gclose : tokre R_EXPR_GROUP_CLOSE | tr_number : tokre R_EXPR_NUMBER | tr_string : tokre R_EXPR_STRING
| tr_stringd : tokre R_EXPR_STRING_DOUBLE | tr_variable : tokre R_EXPR_VARIABLE | tr_variable_ex : tokre R_EXPR_VARIABLE_EX.

Lemma lex_ws R w t : tokre R -> white w -> lex R (w ++ t) = lex R t.
Proof. intros T W. destruct T; (eapply lex_white; [reflexivity | reflexivity | exact W]). Qed.

(* ================================================================== B. the parser written with lex *)
Lemma parse_unary_lex f text : parse_unary (S f) text =
  match lex R_EXPR_GROUP_OPEN text with
  | LYes _ r =>
      match parse_binary f r None with
      | POk (ex, nt) => match lex R_EXPR_GROUP_CLOSE nt with
                        | LNo => PErr unmatched_paren (length text)
                        | LYes _ r2 => POk (EGroup ex, r2)
                        end
      | PErr msg n => PErr msg n | PHost w => PHost w | PFuel => PFuel
      end
  | LNo =>
  match lex R_EXPR_UNARY_OP text with
  | LYes g r => match parse_unary f r with POk (ex, nt) => POk (EUn g ex, nt) | other => other end
  | LNo =>
  match lex R_EXPR_FUNCTION_OPEN text with
  | LYes g r => match parse_args f r [] with
                | POk (args, rest) => POk (ECall g args, rest)
                | PErr msg n => PErr msg n | PHost w => PHost w | PFuel => PFuel
                end
  | LNo =>
  match lex R_EXPR_NUMBER text with
  | LYes g r => match py_float g with Some x => POk (ENum (NFlt x), r) | None => PHost (U "ValueError") end
  | LNo =>
  match lex R_EXPR_STRING text with
  | LYes g r => match unescape R_EXPR_STRING_ESCAPE g with Some s => POk (EStr s, r) | None => PFuel end
  | LNo =>
  match lex R_EXPR_STRING_DOUBLE text with
  | LYes g r => match unescape R_EXPR_STRING_DOUBLE_ESCAPE g with Some s => POk (EStr s, r) | None => PFuel end
  | LNo =>
  match lex R_EXPR_VARIABLE text with
  | LYes g r => POk (EVar g, r)
  | LNo =>
  match lex R_EXPR_VARIABLE_EX text with
  | LYes g r => match unescape R_EXPR_VARIABLE_EX_ESCAPE g with Some s => POk (EVar s, r) | None => PFuel end
  | LNo => PErr syntax_error (length text)
  end end end end end end end end.
Proof.
  cbn [parse_unary]. unfold lex.
  pose proof (rx_nofuel R_EXPR_GROUP_OPEN text) as E0.
  destruct (rx R_EXPR_GROUP_OPEN text) as [|e0 c0|]; [ | | congruence].
  2:{ destruct (parse_binary f (skipn e0 text) None) as [[ex nt]|msg n|w|]; try reflexivity.
      pose proof (rx_nofuel R_EXPR_GROUP_CLOSE nt) as E1.
      destruct (rx R_EXPR_GROUP_CLOSE nt); [reflexivity | reflexivity | congruence]. }
  repeat match goal with
  | |- context [rx ?R text] =>
      let E := fresh "E" in pose proof (rx_nofuel R text) as E; destruct (rx R text); [ | try reflexivity | congruence ]
  end.
  reflexivity.
Qed.

Definition bin_tail (f : nat) (le : expr) (bt : str) : pres (expr * str) :=
  match lex R_EXPR_BINARY_OP bt with
  | LNo => POk (le, bt)
  | LYes op rt =>
      match parse_unary f rt with
      | POk (re, nt) => parse_binary f nt (Some (insert le op re))
      | PErr msg n => PErr msg n | PHost w => PHost w | PFuel => PFuel
      end
  end.

Lemma parse_binary_lex f text left : parse_binary (S f) text left =
  match (match left with Some l => POk (l, text) | None => parse_unary f text end) with
  | POk (le, bt) => bin_tail f le bt
  | PErr msg n => PErr msg n | PHost w => PHost w | PFuel => PFuel
  end.
Proof.
  cbn [parse_binary]. unfold bin_tail, lex.
  destruct (match left with Some l => POk (l, text) | None => parse_unary f text end) as [[le bt]|msg n|w|]; try reflexivity.
  pose proof (rx_nofuel R_EXPR_BINARY_OP bt) as E. destruct (rx R_EXPR_BINARY_OP bt); [reflexivity | reflexivity | congruence].
Qed.

Definition args_tail (f : nat) (t : str) (acc : list expr) : pres (list expr * str) :=
  match parse_binary f t None with
  | POk (a, next) => parse_args f next (a :: acc)
  | PErr msg n => PErr msg n | PHost w => PHost w | PFuel => PFuel
  end.

Lemma parse_args_lex f t acc : parse_args (S f) t acc =
  match lex R_EXPR_FUNCTION_CLOSE t with
  | LYes _ r => POk (rev acc, r)
  | LNo =>
      match acc with
      | [] => args_tail f t acc
      | _ :: _ => match lex R_EXPR_FUNCTION_SEPARATOR t with
                  | LNo => PErr syntax_error (length t)
                  | LYes _ r => args_tail f r acc
                  end
      end
  end.
Proof.
  cbn [parse_args]. unfold args_tail, lex.
  pose proof (rx_nofuel R_EXPR_FUNCTION_CLOSE t) as E. destruct (rx R_EXPR_FUNCTION_CLOSE t); [ | reflexivity | congruence].
  destruct acc as [|a0 acc0]; [reflexivity|].
  pose proof (rx_nofuel R_EXPR_FUNCTION_SEPARATOR t) as E2.
  destruct (rx R_EXPR_FUNCTION_SEPARATOR t); [reflexivity | reflexivity | congruence].
Qed.

(* ================================================================== C. lex on a text that starts with a non-space character *)
Lemma span_nsp c s : is_space_u c = false -> span_p is_space_u (c :: s) = (O, c :: s).
Proof. intros H. cbn [span_p]. rewrite H. reflexivity. Qed.

Lemma grp_cap1 (s : str) n : grp s (cap1 0 n) 1 = firstn n s.
Proof.
  unfold grp, group_text, cap1. cbn [cap_get Nat.eqb Nat.add]. rewrite Nat.sub_0_r. unfold sub_list. reflexivity.
Qed.

Lemma grp_nil (s : str) : grp s [] 1 = [].
Proof. reflexivity. Qed.

(* a regex whose reading is  "skip white space, then body"  with group 1 = the body *)
Lemma lex_of_body R (body : str -> option nat) :
  (forall s, re_match UC R s = match body (snd (span_p is_space_u s)) with
                               | Some n => MYes (fst (span_p is_space_u s) + n) (cap1 (fst (span_p is_space_u s)) n)
                               | None => MNo end) ->
  forall c s, is_space_u c = false ->
  lex R (c :: s) = match body (c :: s) with Some n => LYes (firstn n (c :: s)) (skipn n (c :: s)) | None => LNo end.
Proof.
  intros H c s NS. unfold lex, rx. rewrite H, (span_nsp c s NS). cbn [fst snd Nat.add].
  destruct (body (c :: s)) as [n|]; [|reflexivity]. rewrite grp_cap1. reflexivity.
Qed.

(* one-character tokens ( ) , *)
Lemma lex_lit x R : R = RCat RBol (RCat rspW (RLit x)) -> is_space UC x = false ->
  forall c s, is_space_u c = false -> lex R (c :: s) = if (c =? x)%N then LYes [] s else LNo.
Proof.
  intros -> NX c s NS. unfold lex, rx. rewrite (lit_tok_answer x NX), (span_nsp c s NS). cbn [fst snd Nat.add].
  unfold C02rx.lit_body. destruct (c =? x)%N; reflexivity.
Qed.

Lemma lex_gopen c s : is_space_u c = false -> lex R_EXPR_GROUP_OPEN (c :: s) = if (c =? 40)%N then LYes [] s else LNo.
Proof. exact (lex_lit 40 _ eq_refl eq_refl c s). Qed.
Lemma lex_gclose c s : is_space_u c = false -> lex R_EXPR_GROUP_CLOSE (c :: s) = if (c =? 41)%N then LYes [] s else LNo.
Proof. exact (lex_lit 41 _ eq_refl eq_refl c s). Qed.
Lemma lex_fclose c s : is_space_u c = false -> lex R_EXPR_FUNCTION_CLOSE (c :: s) = if (c =? 41)%N then LYes [] s else LNo.
Proof. exact (lex_lit 41 _ eq_refl eq_refl c s). Qed.
Lemma lex_fsep c s : is_space_u c = false -> lex R_EXPR_FUNCTION_SEPARATOR (c :: s) = if (c =? 44)%N then LYes [] s else LNo.
Proof. exact (lex_lit 44 _ eq_refl eq_refl c s). Qed.

Definition unopc (c : N) : bool := ((c =? 33) || (c =? 45))%N.

Lemma lex_unop c s : is_space_u c = false -> lex R_EXPR_UNARY_OP (c :: s) = if unopc c then LYes [c] s else LNo.
Proof.
  intros NS. rewrite (lex_of_body _ unop_body unary_answer c s NS). unfold unop_body, unopc.
  destruct ((c =? 33)%N || (c =? 45)%N); reflexivity.
Qed.

Lemma lex_binop c s : is_space_u c = false ->
  lex R_EXPR_BINARY_OP (c :: s) =
  match first_prefix spec_ops (c :: s) with Some op => LYes op (skipn (length op) (c :: s)) | None => LNo end.
Proof.
  intros NS. rewrite (lex_of_body _ op_len binop_answer c s NS). unfold op_len.
  destruct (first_prefix spec_ops (c :: s)) as [op|] eqn:F; [|reflexivity]. cbn [option_map].
  destruct (first_prefix_In _ _ _ F) as [_ P]. rewrite (is_prefix_firstn _ _ P). reflexivity.
Qed.

Lemma lex_variable c s : is_space_u c = false ->
  lex R_EXPR_VARIABLE (c :: s) =
  match ident_body (c :: s) with Some n => LYes (firstn n (c :: s)) (skipn n (c :: s)) | None => LNo end.
Proof. exact (lex_of_body _ ident_body variable_answer c s). Qed.

Lemma lex_number c s : is_space_u c = false ->
  lex R_EXPR_NUMBER (c :: s) =
  match C13rx.lit_body (c :: s) with Some n => LYes (firstn n (c :: s)) (skipn n (c :: s)) | None => LNo end.
Proof.
  intros NS. unfold lex, rx. rewrite number_regex_answer, lit_match_body, (span_nsp c s NS).
  destruct (C13rx.lit_body (c :: s)) as [n|]; [|reflexivity]. cbn [option_map Nat.add].
  change [(1%nat, (O, n))] with (cap1 0 n). rewrite grp_cap1. reflexivity.
Qed.

Lemma lex_fopen c s : is_space_u c = false ->
  lex R_EXPR_FUNCTION_OPEN (c :: s) =
  match call_body (c :: s) with Some (n, m) => LYes (firstn n (c :: s)) (skipn m (c :: s)) | None => LNo end.
Proof.
  intros NS. unfold lex, rx. rewrite function_open_answer, (span_nsp c s NS). cbn [fst snd Nat.add].
  destruct (call_body (c :: s)) as [[n m]|]; [|reflexivity]. rewrite grp_cap1. reflexivity.
Qed.

(* the three regexes without a direct reading start with a literal after the white space: a different first character
   means no match *)
Lemma lex_first_lit q B R : R = RCat RBol (RCat rspW (RCat (RLit q) B)) ->
  forall c s, is_space_u c = false -> (c =? q)%N = false -> lex R (c :: s) = LNo.
Proof.
  intros -> c s NS NQ. unfold lex, rx. rewrite re_match_ev, ev_cat, ev_bol. cbn [Nat.eqb]. rewrite ev_cat.
  unfold rspW. rewrite (ev_star UC _ _ (one_in UC false _)). fold cmW. cbn [star_bt]. rewrite cmW_is, NS.
  rewrite ev_cat. rewrite (ev_one UC _ _ (one_lit UC q)). rewrite NQ. reflexivity.
Qed.

Lemma lex_string_no c s : is_space_u c = false -> (c =? 39)%N = false -> lex R_EXPR_STRING (c :: s) = LNo.
Proof. exact (lex_first_lit 39 _ _ eq_refl c s). Qed.
Lemma lex_stringd_no c s : is_space_u c = false -> (c =? 34)%N = false -> lex R_EXPR_STRING_DOUBLE (c :: s) = LNo.
Proof. exact (lex_first_lit 34 _ _ eq_refl c s). Qed.
Lemma lex_variable_ex_no c s : is_space_u c = false -> (c =? 91)%N = false -> lex R_EXPR_VARIABLE_EX (c :: s) = LNo.
Proof. exact (lex_first_lit 91 _ _ eq_refl c s). Qed.

(* every token regex fails on the empty text, hence on white space *)
Lemma lex_nil R : tokre R -> lex R [] = LNo.
Proof. intros T. destruct T; vm_compute; reflexivity. Qed.

Lemma lex_white_only R w : tokre R -> white w -> lex R w = LNo.
Proof. intros T W. rewrite <- (app_nil_r w). rewrite (lex_ws R w [] T W). apply lex_nil. exact T. Qed.
