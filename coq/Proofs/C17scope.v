(* Proofs/C17scope.v — the "run in global scope" clause of C17, on the REAL interpreter model (Model/Interp.v):
   an include statement, wherever it is executed (top level or inside a script function whose locals are l), runs
   every included script as a NEW statement list from its first statement with NO locals (so, by C04, the included
   script's assignments write the globals), under the url of the included file as the new base; what the included
   script does cannot depend on the includer's locals, and the includer's locals are handed on unchanged. *)
From Coq Require Import List ZArith Bool.
From BS Require Import Model.Base Model.Num Model.Arith Model.ExprParser Model.Script Model.Interp Proofs.InterpEq.
Local Open Scope Z_scope.

Section Scope.
Variable cfg : config.
Variable lib : caller -> str -> list value -> world -> lres * world.
Variable url_rel : str -> str -> str.
Variable lint_lines : script -> list str.
Notation exec := (exec cfg lib url_rel lint_lines).
Notation run_incs := (run_incs cfg url_rel lint_lines).

(* the include statement at pc, executed with ANY locals [loc]: the includes run by [run_incs], which has no locals
   parameter at all; then the includer goes on with ITS locals unchanged, or stops with the include's outcome *)
Theorem include_statement_scope : forall f code pc cache loc um w incs,
  nth_error code pc = Some (SInclude incs) ->
  ((0 <? c_max cfg) && (c_max cfg <? w_count w + 1))%bool = false ->
  exec (S f) code pc cache loc um w =
  match run_incs (exec f) um incs (upd_count w (w_count w + 1)) with
  | (None, w1) => exec f code (S pc) cache loc um w1
  | (Some o, w1) => (o, loc, w1)
  end.
Proof.
  intros f code pc cache loc um w incs Hn Hb. rewrite exec_S. unfold exec_body. rewrite Hn.
  cbn [w_count upd_count]. rewrite Hb. reflexivity.
Qed.

(* one included file that is fetched and parses (debug lint off): its statements run from index 0, with an empty
   label cache, with locals = None, with the resolved url as the base of ITS relative includes *)
Theorem included_script_runs_in_global_scope : forall ex um u sys t w0 fetch txt sc,
  c_fetch cfg = Some fetch ->
  let url := match sys, c_sysprefix cfg with
             | true, Some p => url_rel p u
             | _, _ => if has_urlfn cfg um then apply_urlfn cfg url_rel um u else u
             end in
  fetch url = Some txt -> parse_script [txt] 1 = ROk sc -> (c_debug cfg && c_haslog cfg)%bool = false ->
  run_incs ex um ((u, sys) :: t) w0 =
  match ex sc 0%nat [] None (UBase url) (add_fetched w0 url) with
  | (OVal _, _, w3) => run_incs ex um t w3
  | (o, _, w3) => (Some o, w3)
  end.
Proof.
  intros ex um u sys t w0 fetch txt sc Hf url Ht Hp Hd. cbn [Interp.run_incs]. fold url. rewrite Hf, Ht, Hp, Hd. reflexivity.
Qed.
End Scope.
