(* PErrFacts.v — the caret of a formatted BareScriptParserError sits under the character the
   column designates, in all three elision branches (C06, clause "caret"). *)
From Coq Require Import Lia ZifyBool.
From BS Require Import Model.Base Model.ExprParser Model.Script Model.PErr Gen.PErrConst.
Local Open Scope Z_scope.

Lemma nth_error_firstn_lt {A} (l : list A) k i : (i < k)%nat -> nth_error (firstn k l) i = nth_error l i.
Proof.
  revert k i. induction l as [|x l IH]; intros k i H.
  - rewrite firstn_nil. reflexivity.
  - destruct k; [lia|]. destruct i; cbn; [reflexivity|]. apply IH. lia.
Qed.

Lemma nth_error_skipn_add {A} (l : list A) k i : nth_error (skipn k l) i = nth_error l (k + i).
Proof.
  revert l. induction k as [|k IH]; intros l; [reflexivity|].
  destruct l; cbn; [destruct i; reflexivity|]. apply IH.
Qed.

Lemma nth_error_app_r {A} (a b : list A) i : (length a <= i)%nat -> nth_error (a ++ b) i = nth_error b (i - length a).
Proof. apply nth_error_app2. Qed.

Lemma nth_error_app_l {A} (a b : list A) i : (i < length a)%nat -> nth_error (a ++ b) i = nth_error a i.
Proof. apply nth_error_app1. Qed.

Lemma nth_error_past {A} (l : list A) i : (length l <= i)%nat -> nth_error l i = None.
Proof. apply nth_error_None. Qed.

(* the general statement, for any positive window size and any markers *)
Lemma elide_with_caret mx prefix suffix line col :
  (0 < mx)%nat -> 1 <= col <= Z.of_nat (length line) + 1 ->
  let '(shown, c) := elide_with mx prefix suffix line col in
  1 <= c /\ c - 1 <= Z.of_nat (length shown) /\
  nth_error shown (Z.to_nat (c - 1)) = nth_error line (Z.to_nat (col - 1)).
Proof.
  intros Hmx Hc. unfold elide_with.
  set (n := Z.of_nat (length line)). set (m := Z.of_nat mx).
  assert (Hm2 : 0 <= m / 2 < m) by (split; [apply Z.div_pos; lia | apply Z.div_lt_upper_bound; lia]).
  destruct (n >? m) eqn:Hlong.
  2:{ split; [lia|]. split; [lia|]. reflexivity. }
  assert (Hnm : m < n) by lia.
  destruct (col - 1 - m / 2 <? 0) eqn:Hleft.
  - (* the error is in the first half window: head of the line, suffix marker *)
    split; [lia|]. rewrite app_length, firstn_length. split; [lia|].
    rewrite nth_error_app_l by (rewrite firstn_length; lia).
    apply nth_error_firstn_lt. lia.
  - destruct (col - 1 - m / 2 + m >? n) eqn:Hright.
    + (* the window would run past the end: tail of the line, prefix marker *)
      unfold py_last. destruct mx as [|mx']; [lia|]. set (mx := S mx') in *.
      assert (Hlen : length (skipn (length line - mx) line) = mx) by (rewrite skipn_length; lia).
      split; [lia|]. rewrite app_length, Hlen. split; [lia|].
      replace (Z.to_nat (col - (col - 1 - m / 2 - Z.of_nat (length prefix) - (col - 1 - m / 2 + m - n)) - 1))
        with (length prefix + (Z.to_nat (col - 1) - (length line - mx)))%nat by lia.
      rewrite nth_error_app_r by lia.
      replace (length prefix + (Z.to_nat (col - 1) - (length line - mx)) - length prefix)%nat
        with (Z.to_nat (col - 1) - (length line - mx))%nat by lia.
      rewrite nth_error_skipn_add. f_equal. lia.
    + (* a window around the error: both markers *)
      unfold py_slice.
      set (l := col - 1 - m / 2) in *.
      assert (Hsl : length (firstn (Z.to_nat (l + m) - Z.to_nat l) (skipn (Z.to_nat l) line)) = mx)
        by (rewrite firstn_length, skipn_length; lia).
      split; [lia|]. rewrite !app_length, Hsl. split; [lia|].
      replace (Z.to_nat (col - (l - Z.of_nat (length prefix)) - 1)) with (length prefix + Z.to_nat (m / 2))%nat by lia.
      rewrite nth_error_app_r by lia.
      replace (length prefix + Z.to_nat (m / 2) - length prefix)%nat with (Z.to_nat (m / 2)) by lia.
      rewrite nth_error_app_l by lia.
      rewrite nth_error_firstn_lt by lia.
      rewrite nth_error_skipn_add. f_equal. lia.
Qed.

(* obligation on the REGENERATED constant *)
Lemma gen_line_length_max_positive : (0 <? gen_line_length_max)%nat = true.
Proof. vm_compute. reflexivity. Qed.

Lemma elide_caret line col :
  1 <= col <= Z.of_nat (length line) + 1 ->
  let '(shown, c) := elide line col in
  1 <= c /\ c - 1 <= Z.of_nat (length shown) /\
  nth_error shown (Z.to_nat (c - 1)) = nth_error line (Z.to_nat (col - 1)).
Proof.
  intros H. apply elide_with_caret; [|exact H].
  pose proof gen_line_length_max_positive as P. apply Nat.ltb_lt in P. exact P.
Qed.

(* the shown text is never longer than window + both markers, and is the line itself when it fits *)
Lemma elide_short line col :
  (length line <= gen_line_length_max)%nat -> elide line col = (line, col).
Proof. intros H. unfold elide, elide_with. destruct (_ >? _) eqn:E; [lia|reflexivity]. Qed.

Lemma elide_length line col :
  (length (fst (elide line col)) <= Nat.max (length line) (gen_line_length_max + length gen_line_prefix + length gen_line_suffix))%nat.
Proof.
  unfold elide, elide_with.
  repeat match goal with |- context [if ?b then _ else _] => destruct b end; cbn [fst];
    rewrite ?app_length, ?firstn_length; unfold py_last, py_slice; try lia.
  - pose proof gen_line_length_max_positive as P. destruct gen_line_length_max eqn:G; [discriminate P|]. rewrite skipn_length. lia.
  - rewrite firstn_length. lia.
Qed.

(* the message: header line, shown line, caret line; the caret is in the column of the designated character *)
Theorem perr_message_caret msg line col lineno :
  1 <= col <= Z.of_nat (length line) + 1 ->
  exists header shown k,
    perr_message msg line col lineno = header ++ [10%N] ++ shown ++ [10%N] ++ repeat 32%N k ++ [94%N; 10%N] /\
    (k <= length shown)%nat /\
    nth_error shown k = nth_error line (Z.to_nat (col - 1)).
Proof.
  intros H. pose proof (elide_caret line col H) as E. unfold perr_message.
  destruct (elide line col) as [shown c]. destruct E as (E1 & E2 & E3).
  exists (msg ++ (match lineno with Some n => gen_perr_line_number_text ++ Z_to_str n | None => [] end) ++ [58%N]), shown, (Z.to_nat (c - 1)).
  split; [|split; [lia|exact E3]].
  unfold spaces. rewrite <- !app_assoc. reflexivity.
Qed.
