(* every shipped include parses with the model parser: the finite domain gen_include_texts enumerated completely *)
From BS Require Import Model.Base Model.Script Model.Includes Gen.Includes.
From BS Require Import Proofs.C20inc_args Proofs.C20inc_diff Proofs.C20inc_forms Proofs.C20inc_markdownUp
  Proofs.C20inc_pager Proofs.C20inc_unittest Proofs.C20inc_unittestMock.

Theorem includes_parse : forallb (fun nt => include_parses (snd nt)) gen_include_texts = true.
Proof.
  cbv [gen_include_texts forallb snd].
  rewrite parses_args, parses_diff, parses_forms, parses_markdownUp, parses_pager, parses_unittest, parses_unittestMock.
  reflexivity.
Qed.

Lemma include_names :
  map fst gen_include_texts =
  [U "args.bare"; U "diff.bare"; U "forms.bare"; U "markdownUp.bare"; U "pager.bare"; U "unittest.bare"; U "unittestMock.bare"].
Proof. reflexivity. Qed.

(* the text the Diff.v model transliterates is the one that defines diffLines *)
Example diff_bare_defines_diffLines : defined_functions inc_diff = [U "diffLines"].
Proof. vm_cast_no_check (eq_refl [U "diffLines"]). Qed.
