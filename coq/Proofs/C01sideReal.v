(* Proofs/C01sideReal.v — the extended reading of Proofs/C01side.v / C01side2.v with the REAL reserved names of the parser, as
   whole-scope statements with premises on the LIBRARY only (plus, for the reading without side conditions, the syntactic
   criterion, the start condition and the residual premise on expressions). *)
From Coq Require Import Lia List Bool ZArith.
From BS Require Import Model.Base Model.Num Model.Arith Model.ExprParser Model.Script Model.Interp Model.RunC01 Model.LibCore
                       Model.LibAll Model.LibPartial
                       Proofs.Fuel Proofs.C01 Proofs.C01b Proofs.Blind Proofs.C01for Proofs.C01forN Proofs.C01forReal Proofs.C01u Proofs.C01uReal
                       Proofs.C01side Proofs.C01side2 Proofs.LibAll Proofs.LibPartial.
Import ListNotations.

(* (b) the reading WITH the side conditions, extended by the two missing behaviours (non-array loop value, array shrunk under the
   index): the interpreter run on the lowered code ends with the same result *)
Theorem extended_simulation : forall cfg, c_max cfg = 0%Z ->
  forall lib url_rel lint_lines, lib_fuel_monotone lib -> lib_count_blind lib ->
  arrayLength_contract lib -> arrayGet_contract lib ->
  forall len_msg get_msg, arrayLength_fail_contract lib len_msg -> arrayGet_range_contract lib get_msg ->
  forall um n s loc w o loc' w',
  XExec cfg len_msg get_msg (Ev cfg lib url_rel lint_lines um) true (fst (uname n s)) (loc, w) o (loc', w') ->
  uwf false (fst (uname n s)) = true -> uguard s = true ->
  forall wm, weq w wm ->
  exists out wm', scope_result o = Some out /\ weq w' wm' /\
    Run cfg lib url_rel lint_lines um (ucompile_real n s) 0 loc wm (out, loc', wm').
Proof.
  intros cfg Hunl lib url_rel lint_lines Hf Hb Hl Hg len_msg get_msg Hlf Hgr um n s loc w o loc' w' H Hwf Hgd wm Hw.
  rewrite <- (uname_guard s n) in Hgd.
  exact (xscope_sim cfg Hunl lib url_rel lint_lines Hf um real_lab real_labc len_msg get_msg
           (Ev_blind_holds cfg Hunl lib url_rel lint_lines Hb um) Hl Hg Hlf Hgr _ loc w o loc' w' H Hwf Hgd n wm
           (ucompile_real_NoDup None n _) Hw).
Qed.

(* (a)+(b) the reading WITHOUT side conditions, over evaluations that leave the protected globals alone: under the syntactic
   criterion and the start condition *)
Theorem total_for_rules_simulation : forall cfg, c_max cfg = 0%Z ->
  forall lib url_rel lint_lines, lib_fuel_monotone lib -> lib_count_blind lib ->
  arrayLength_contract lib -> arrayGet_contract lib ->
  forall len_msg get_msg, arrayLength_fail_contract lib len_msg -> arrayGet_range_contract lib get_msg ->
  forall um n s loc w o loc' w',
  XExec cfg len_msg get_msg (EvQ cfg lib url_rel lint_lines um (Keeps (protected (fscope (loc, w)) (fst (uname n s)))))
        false (fst (uname n s)) (loc, w) o (loc', w') ->
  uwf false (fst (uname n s)) = true -> uguard s = true ->
  no_temp_assign (fst (uname n s)) = true -> no_shadow (fst (uname n s)) = true -> LibOK (loc, w) ->
  forall wm, weq w wm ->
  exists out wm', scope_result o = Some out /\ weq w' wm' /\
    Run cfg lib url_rel lint_lines um (ucompile_real n s) 0 loc wm (out, loc', wm').
Proof.
  intros cfg Hunl lib url_rel lint_lines Hf Hb Hl Hg len_msg get_msg Hlf Hgr um n s loc w o loc' w' H Hwf Hgd HT HN HL wm Hw.
  eapply extended_simulation; try eassumption.
  eapply side_conditions_automatic; eassumption.
Qed.

(* the function-scope instance, premises spelled out: the frame's locals do not bind arrayLength / arrayGet, the globals bind
   them to the library functions, and the run's expression evaluations leave those two globals alone.  Nothing is asked about the
   bookkeeping variables: they are locals of the frame. *)
Theorem total_for_rules_simulation_function_scope : forall cfg, c_max cfg = 0%Z ->
  forall lib url_rel lint_lines, lib_fuel_monotone lib -> lib_count_blind lib ->
  arrayLength_contract lib -> arrayGet_contract lib ->
  forall len_msg get_msg, arrayLength_fail_contract lib len_msg -> arrayGet_range_contract lib get_msg ->
  forall um n s l w o loc' w',
  XExec cfg len_msg get_msg (EvQ cfg lib url_rel lint_lines um (Keeps [ARRLEN; ARRGET])) false (fst (uname n s)) (Some l, w) o (loc', w') ->
  uwf false (fst (uname n s)) = true -> uguard s = true ->
  no_temp_assign (fst (uname n s)) = true -> no_shadow (fst (uname n s)) = true ->
  env_get ARRLEN l = None -> env_get ARRGET l = None ->
  env_get ARRLEN (w_globals w) = Some (VFun (FLib ARRLEN)) -> env_get ARRGET (w_globals w) = Some (VFun (FLib ARRGET)) ->
  forall wm, weq w wm ->
  exists out wm', scope_result o = Some out /\ weq w' wm' /\
    Run cfg lib url_rel lint_lines um (ucompile_real n s) 0 (Some l) wm (out, loc', wm').
Proof.
  intros cfg Hunl lib url_rel lint_lines Hf Hb Hl Hg len_msg get_msg Hlf Hgr um n s l w o loc' w' H Hwf Hgd HT HN L1 L2 G1 G2 wm Hw.
  eapply total_for_rules_simulation; try eassumption.
  split; unfold is_lib, lookup_fn; cbn [fst snd]; [rewrite L1, G1|rewrite L2, G2]; reflexivity.
Qed.

(* the two new contracts hold for the combined library the check runs *)
Lemma libfull2_arrayLength_fail cfg : arrayLength_fail_contract (libfull2 cfg) (U "args").
Proof.
  intros cb v w Hv.
  change (libfull2 cfg cb ARRLEN [v] w) with (libcore cfg cb ARRLEN [v] w).
  apply libcore_arrayLength_fail. exact Hv.
Qed.
Lemma libfull2_arrayGet_range cfg : arrayGet_range_contract (libfull2 cfg) (U "index").
Proof.
  intros cb l i w elems H Hi.
  change (libfull2 cfg cb ARRGET [VArr l; int_v i] w) with (libcore cfg cb ARRGET [VArr l; int_v i] w).
  apply (libcore_arrayGet_range cfg cb l i w elems H Hi).
Qed.

(* ---------------------------------------------------------------- a library with arrayPop, for the shrinking example *)
(* the modelled library (Model/LibCore.v) has no function that shortens an array; BareScript's arrayPop does.  For the example of
   a body that shrinks the array under the index: libcore plus arrayPop (removes and returns the last element). *)
Definition libpop (cfg : config) (cb : caller) (name : str) (args : list value) (w : world) : lres * world :=
  if op_is name "arrayPop" then
    match args with
    | [VArr l] =>
      match rev (get_arr w l) with
      | v :: r => (LVal v, set_arr w l (rev r))
      | [] => (LArgs VNull (U "empty"), w)
      end
    | _ => (LArgs VNull (U "args"), w)
    end
  else libcore cfg cb name args w.

Lemma libpop_fuel_monotone cfg : lib_fuel_monotone (libpop cfg).
Proof. intros cb1 cb2 _ name args w. left. reflexivity. Qed.

Lemma libpop_count_blind cfg : lib_count_blind (libpop cfg).
Proof.
  intros cb1 cb2 _ name args w wm Hw. rewrite (weq_repr _ _ Hw). unfold libpop.
  destruct (op_is name "arrayPop").
  - destruct args as [|a [|b t]]; try destruct a; try (split; [reflexivity|apply weq_upd]).
    change (get_arr (upd_count w (w_count wm)) l) with (get_arr w l).
    destruct (rev (get_arr w l)); split; try reflexivity; apply weq_upd.
  - rewrite libcore_blind.
    assert (E : libcore cfg cb1 name args w = libcore cfg cb2 name args w) by reflexivity. rewrite E.
    split; [reflexivity|]. cbn [snd]. apply weq_upd.
Qed.

Lemma libpop_arrayLength cfg : arrayLength_contract (libpop cfg).
Proof. intros cb l w elems H. change (libpop cfg cb ARRLEN [VArr l] w) with (libcore cfg cb ARRLEN [VArr l] w). apply libcore_arrayLength. exact H. Qed.
Lemma libpop_arrayGet cfg : arrayGet_contract (libpop cfg).
Proof.
  intros cb l i w elems v H Hi. change (libpop cfg cb ARRGET [VArr l; int_v i] w) with (libcore cfg cb ARRGET [VArr l; int_v i] w).
  apply (libcore_arrayGet cfg cb l i w elems v H Hi).
Qed.
Lemma libpop_arrayLength_fail cfg : arrayLength_fail_contract (libpop cfg) (U "args").
Proof. intros cb v w Hv. change (libpop cfg cb ARRLEN [v] w) with (libcore cfg cb ARRLEN [v] w). apply libcore_arrayLength_fail. exact Hv. Qed.
Lemma libpop_arrayGet_range cfg : arrayGet_range_contract (libpop cfg) (U "index").
Proof.
  intros cb l i w elems H Hi. change (libpop cfg cb ARRGET [VArr l; int_v i] w) with (libcore cfg cb ARRGET [VArr l; int_v i] w).
  apply (libcore_arrayGet_range cfg cb l i w elems H Hi).
Qed.
