(* Proofs/C09clSeq.v — the lifted LibSeq functions (Model/LibAll.v lift_seq) preserve the closure invariant: [seq_pres].
   The world is re-represented as LibSeq's heap (to_v / heap_of), Q.lib runs on it (Proofs/C09clSeqV.v: well-formed cells stay
   well-formed, hidden positions are not written), and the heap is read back (of_v, arr_back, obj_back): every array is
   RE-ENCODED through of_v . to_v, the hidden ones too, so what is needed of the numeral coding of function values is [fn_roundtrip]:
   a well-formed function reference comes back as itself, or as a sane non-closure library name (a closure whose location does
   not fit one code point). *)
From Coq Require Import List Lia ZArith Bool NArith.
From BS Require Import Model.Base Model.Num Model.Arith Model.ExprParser Model.Script Model.Interp Model.LibCore Model.LibCall
                       Model.LibMore Model.LibAll Model.LibPartial
                       Proofs.BaseFacts Proofs.C09termClosure Proofs.C09clInv Proofs.C09clLib Proofs.C09clSim Proofs.C09clSeqV.
Import ListNotations.

Definition fn_roundtrip : Prop :=
  forall fr, match fr with FLib nm => partial_loc nm <> None \/ name_sane nm | FScript _ => True end ->
  dec_fn (enc_fn fr) = fr \/ exists nm, dec_fn (enc_fn fr) = FLib nm /\ partial_loc nm = None /\ name_sane nm.

Lemma nth_error_skipn' {A} n : forall (l : list A) j, nth_error (skipn n l) j = nth_error l (n + j).
Proof. induction n as [|n IH]; intros l j; [reflexivity|]. destruct l; cbn; [destruct j; reflexivity|apply IH]. Qed.

Lemma filter_count_lt {A} (f : A -> bool) : forall cs j c, nth_error cs j = Some c -> f c = true ->
  (length (filter f (firstn j cs)) < length (filter f cs))%nat.
Proof.
  induction cs as [|x t IH]; intros [|j] c E Fc; cbn in E; try discriminate.
  - injection E as ->. cbn. rewrite Fc. cbn. lia.
  - cbn. destruct (f x); cbn; specialize (IH j c E Fc); lia.
Qed.

Lemma nth_error_firstn' {A} n : forall (l : list A) j, (j < n)%nat -> nth_error (firstn n l) j = nth_error l j.
Proof. induction n as [|n IH]; intros l j L; [lia|]. destruct l; [reflexivity|]. destruct j; cbn; [reflexivity|]. apply IH. lia. Qed.

Section Seq.
Hypothesis Hrt : fn_roundtrip.

Lemma fn_ok_pre H fr : fn_ok H fr -> match fr with FLib nm => partial_loc nm <> None \/ name_sane nm | FScript _ => True end.
Proof. destruct fr as [nm|id]; cbn; [|auto]. destruct (partial_loc nm); [left; discriminate|right; assumption]. Qed.

Lemma rt_ok H fr : fn_ok H fr -> fn_ok H (dec_fn (enc_fn fr)).
Proof.
  intros F. destruct (Hrt fr (fn_ok_pre H fr F)) as [->|(nm & -> & P & S)]; [exact F|]. cbn. rewrite P. exact S.
Qed.
Lemma rt_closure H fr nm l' : fn_ok H fr -> dec_fn (enc_fn fr) = FLib nm -> partial_loc nm = Some l' -> fr = FLib nm.
Proof.
  intros F E P. destruct (Hrt fr (fn_ok_pre H fr F)) as [R|(nm1 & R & P1 & _)]; [rewrite R in E; exact E|].
  rewrite R in E. injection E as <-. rewrite P1 in P. discriminate.
Qed.

Section One.
Variable H : hid.
Variable w : world.
Hypothesis Hw : wf H w.
Let na := length (w_arrs w).
Let no := length (w_objs w).
Let h0 := heap_of w.

Lemma Hlt : forall p, H p -> (p < na)%nat.
Proof. intros p Hp. apply (wf_hidden_lt H w p Hw Hp). Qed.

Notation vokV := (vokV H na no).

Lemma to_v_ok h v : val_ok H na v -> vokV h (to_v na v).
Proof.
  destruct v; cbn; auto. apply rt_ok.
Qed.

Lemma h0_length : length h0 = (na + no)%nat.
Proof. unfold h0, heap_of, heap_of2. rewrite app_length, !map_length. reflexivity. Qed.

Lemma h0_arr p xs : nth_error (w_arrs w) p = Some xs -> nth_error h0 p = Some (V.CArr (map (to_v na) xs)).
Proof.
  intros E. unfold h0, heap_of, heap_of2. rewrite nth_error_app1.
  - rewrite nth_error_map, E. reflexivity.
  - rewrite map_length. apply nth_error_Some. rewrite E. discriminate.
Qed.

Lemma StV0 : StV H na no h0.
Proof.
  pose proof Hw as (A & B & C & D). split; [rewrite h0_length; lia|]. split.
  - unfold h0, heap_of, heap_of2. apply Forall_app. split; apply Forall_map.
    + eapply Forall_impl; [|exact C]. intros xs F. cbn. apply Forall_map. eapply Forall_impl; [|exact F]. intros v. apply to_v_ok.
    + eapply Forall_impl; [|exact D]. intros kv F. cbn. apply Forall_map. eapply Forall_impl; [|exact F]. intros p. cbn. apply to_v_ok.
  - intros p Hp. destruct (A p Hp) as (f & b & bs & E & _). eexists. apply h0_arr. exact E.
Qed.

Variable h' : V.heap.
Hypothesis S' : StV H na no h'.
Hypothesis K' : kext h0 h'.
Hypothesis F' : frame H h0 h'.
Let fresh := skipn (na + no) h'.
Let na' := (na + length (filter is_carr fresh))%nat.
Notation back := (of_v na no fresh).

Lemma of_v_ok v : vokV h' v -> val_ok H na' (back v).
Proof.
  destruct v; cbn; auto.
  - intros [[A B]|[A [xs E]]].
    + unfold loc_back. destruct (Nat.ltb_spec l na); [|lia]. split; [unfold na'; lia|exact B].
    + unfold loc_back. destruct (Nat.ltb_spec l na); [lia|]. destruct (Nat.ltb_spec l (na + no)); [lia|].
      split; [|intros Hl; apply Hlt in Hl; lia].
      unfold na', count_kind. apply Nat.add_lt_mono_l.
      assert (En : nth_error fresh (l - (na + no)) = Some (V.CArr xs)).
      { unfold fresh. rewrite nth_error_skipn'. replace (na + no + (l - (na + no)))%nat with l by lia. exact E. }
      rewrite (filter_ext (fun c => Bool.eqb (is_carr c) true) is_carr) by (intros c; destruct (is_carr c); reflexivity).
      eapply filter_count_lt; [exact En|reflexivity].
Qed.

Lemma arr_back_ok c : cell_ok H na no h' c -> Forall (val_ok H na') (arr_back na no fresh c).
Proof. destruct c; cbn; [|constructor]. intros F. apply Forall_map. eapply Forall_impl; [|exact F]. intros v. apply of_v_ok. Qed.
Lemma obj_back_ok c : cell_ok H na no h' c -> env_ok H na' (obj_back na no fresh c).
Proof. destruct c; cbn; [constructor|]. intros F. apply Forall_map. eapply Forall_impl; [|exact F]. intros p. cbn. apply of_v_ok. Qed.

Lemma cells_sub (P : V.cell -> bool) l : (forall c, In c l -> In c h') -> Forall (cell_ok H na no h') (filter P l).
Proof.
  intros Sub. destruct S' as (_ & F & _). rewrite Forall_forall in F. apply Forall_forall. intros c Hc.
  apply filter_In in Hc. apply F. apply Sub. apply Hc.
Qed.
Lemma In_firstn {A} n : forall (l : list A) x, In x (firstn n l) -> In x l.
Proof. induction n as [|n IH]; intros [|y t] x; cbn; try tauto. intros [E|I]; [left; exact E|right; apply IH; exact I]. Qed.
Lemma In_skipn {A} n : forall (l : list A) x, In x (skipn n l) -> In x l.
Proof. induction n as [|n IH]; intros [|y t] x; cbn; try tauto. intros I. right. apply IH. exact I. Qed.

Let arrs' := map (arr_back na no fresh) (firstn na h') ++ map (arr_back na no fresh) (filter is_carr fresh).
Let objs' := map (obj_back na no fresh) (firstn no (skipn na h')) ++
             map (obj_back na no fresh) (filter (fun c => negb (is_carr c)) fresh).

Lemma h'_length : (na + no <= length h')%nat.
Proof. destruct S' as (L & _). exact L. Qed.

Lemma arrs'_length : length arrs' = na'.
Proof. unfold arrs', na'. rewrite app_length, !map_length, firstn_length. pose proof h'_length. lia. Qed.

Lemma wf_back : wf3 H (w_globals w) arrs' objs'.
Proof.
  pose proof Hw as (A & B & C & D). pose proof h'_length as L. destruct S' as (_ & Fc & _).
  assert (Fall : forall c, In c h' -> cell_ok H na no h' c) by (rewrite Forall_forall in Fc; exact Fc).
  unfold wf3. rewrite arrs'_length. split; [|split; [|split]].
  - (* hidden arrays *)
    intros l Hl. destruct (A l Hl) as (f & b & bs & E & O). pose proof (Hlt l Hl) as Ll.
    assert (El : nth_error arrs' l = Some (map (fun v => back (to_v na v)) (f :: b :: bs))).
    { unfold arrs'. rewrite nth_error_app1 by (rewrite map_length, firstn_length; lia).
      rewrite nth_error_map, nth_error_firstn' by exact Ll. rewrite (F' l Hl), (h0_arr l _ E). cbn [option_map arr_back].
      rewrite map_map. reflexivity. }
    cbn [map] in El. eexists _, _, _. split; [exact El|]. intros nm l' Ef P.
    assert (Vf : val_ok H na f).
    { rewrite Forall_forall in C. pose proof (C _ (nth_error_In _ _ E)) as Cf. apply Forall_cons_iff in Cf. apply Cf. }
    destruct f; cbn in Ef; try discriminate. injection Ef as Ef. cbn in Vf.
    pose proof (rt_closure H f nm l' Vf Ef P) as ->. apply (O nm l' eq_refl P).
  - eapply env_ok_mono; [|exact B]. apply ext_grow. unfold na'. fold na. lia.
  - unfold arrs'. apply Forall_app. split; apply Forall_map; apply Forall_forall; intros c Hc; apply arr_back_ok; apply Fall.
    + eapply In_firstn. exact Hc.
    + apply filter_In in Hc. eapply In_skipn. apply Hc.
  - unfold objs'. apply Forall_app. split; apply Forall_map; apply Forall_forall; intros c Hc; apply obj_back_ok; apply Fall.
    + eapply In_skipn. eapply In_firstn. exact Hc.
    + apply filter_In in Hc. eapply In_skipn. apply Hc.
Qed.
End One.

Theorem lift_seq_pres : seq_pres.
Proof.
  intros cfg H name args w Hw Hargs. unfold lift_seq.
  set (na := length (w_arrs w)). set (no := length (w_objs w)).
  assert (Fa : Forall (vokV H na no (heap_of w)) (map (to_v na) args)).
  { apply Forall_map. eapply Forall_impl; [|exact Hargs]. intros v. apply (to_v_ok H w). }
  pose proof (qlib_ok H na no (Hlt H w Hw) name (map (to_v na) args) (heap_of w) (StV0 H w Hw) Fa) as G.
  destruct (Q.lib name (map (to_v na) args) (heap_of w)) as [r h']. destruct G as (S' & K' & F' & R'). cbn [fst snd] in *.
  pose proof (wf_back H w Hw h' S' F') as W'. pose proof (arrs'_length H w h' S') as L'. cbv zeta in W', L'. fold na no in W', L'.
  set (fresh := skipn (na + no) h') in *.
  set (arrs' := map (arr_back na no fresh) (firstn na h') ++ map (arr_back na no fresh) (filter is_carr fresh)) in *.
  set (objs' := map (obj_back na no fresh) (firstn no (skipn na h')) ++ map (obj_back na no fresh) (filter (fun c => negb (is_carr c)) fresh)) in *.
  assert (Good : forall r0, lres_ok H (length arrs') r0 -> GoodL H w (r0, upd_objs (upd_arrs w arrs') objs')).
  { intros r0 R0. exists H. cbn [fst snd]. unfold nA. cbn [w_arrs upd_objs upd_arrs]. split; [apply ext_grow; fold na; lia|]. split; [exact W'|exact R0]. }
  assert (Same : forall r0, lres_ok H (nA w) r0 -> GoodL H w (r0, w)) by (intros r0 R0; apply goodL_id; assumption).
  destruct r as [v|ret| | | |].
  - apply Good. cbn. rewrite L'. apply (of_v_ok H w Hw h' v R').
  - destruct (c_debug cfg); [apply Same; exact I|]. apply Good. cbn. rewrite L'. apply (of_v_ok H w Hw h' ret R').
  - destruct (c_debug cfg); [apply Same; exact I|]. apply Good. exact I.
  - apply Same. exact I.
  - apply Same. exact I.
  - apply Same. exact I.
Qed.
End Seq.
