(* Proofs/C09termFull.v — premise (1) of the termination theorem (Proofs/C09term.v lib_terminates: handed callbacks that
   terminate, a library function terminates) holds for the library the checks run, Model/LibPartial.v libfull2, with no
   restriction: the lifted functions and LibCore never call back; arraySort makes finitely many comparator calls one after
   the other; calling a closure is one callback call.
   Premise (2) (lib_ranked) does NOT hold for it: see Proofs/C09termG.v for the generalisation and what it covers. *)
From Coq Require Import List Lia ZArith Bool.
From BS Require Import Model.Base Model.Num Model.Arith Model.ExprParser Model.Script Model.Interp Model.LibCore Model.LibCall
                       Model.LibMore Model.LibAll Model.LibPartial
                       Proofs.InterpEq Proofs.C09 Proofs.C09term Proofs.LibCall Proofs.LibAll Proofs.LibPartial.
Local Open Scope Z_scope.

Ltac tc := lazymatch goal with |- T _ (fun _ _ => ?b) =>
  apply T_const; cbn [snd fst]; rewrite ?set_arr_count; cbn [snd fst w_count]; lia end.

Lemma validate_sort_fv w args l fv :
  validate w [A TArray; AFunN] args = VOk [AV (VArr l); AV fv] -> fv <> VNull -> nth_error args 1 = Some fv.
Proof.
  intros Ev Hn. destruct args as [|x0 [|x1 rest]].
  - discriminate Ev.
  - destruct x0; try discriminate Ev. cbn in Ev. injection Ev as _ E. congruence.
  - destruct x0; try discriminate Ev.
    destruct x1; try discriminate Ev; destruct rest; try discriminate Ev; cbn in Ev;
      injection Ev as _ E; subst; try reflexivity; congruence.
Qed.

(* ---- a sort whose comparison steps terminate, terminates ---- *)
Section SortT.
Variable J : Type.
Variable c : Z.
Variable islt : J -> nat -> isltT.
Hypothesis Hislt : forall x y w, c <= w_count w -> T (w_count w) (fun j f => islt j f x y w).

Lemma run_ext_T desc : forall rest prev n w, c <= w_count w ->
  T (w_count w) (fun j f => run_ext (islt j f) desc prev rest n w).
Proof.
  induction rest as [|x t IH]; intros prev n w Hc; cbn [run_ext]; [tc|].
  bind (fun j f => islt j f x prev w) r M; [apply Hislt; exact Hc|].
  destruct r as [cr w1]. cbn [snd] in M. destruct cr as [b|r0]; cbv beta iota; [|tc].
  destruct (Bool.eqb b desc); [|tc]. eapply T_weaken; [apply IH; lia|lia].
Qed.

Lemma bsearch_T : forall fuel pivot pre l r w, c <= w_count w ->
  T (w_count w) (fun j f => bsearch (islt j f) fuel pivot pre l r w).
Proof.
  induction fuel as [|fu IH]; intros pivot pre l r w Hc; cbn [bsearch]; [tc|].
  destruct (Nat.ltb l r); [|tc].
  bind (fun j f => islt j f pivot (nth (l + Nat.div2 (r - l)) pre VNull) w) r1 M; [apply Hislt; exact Hc|].
  destruct r1 as [cr w1]. cbn [snd] in M. destruct cr as [[|]|r0]; cbv beta iota; [| |tc];
    (eapply T_weaken; [apply IH; lia|lia]).
Qed.

Lemma binsort_T : forall todo sorted w, c <= w_count w ->
  T (w_count w) (fun j f => binsort (islt j f) sorted todo w).
Proof.
  induction todo as [|pivot t IH]; intros sorted w Hc; cbn [binsort]; [tc|].
  bind (fun j f => bsearch (islt j f) (S (length sorted)) pivot sorted 0 (length sorted) w) r1 M; [apply bsearch_T; exact Hc|].
  destruct r1 as [[pos|r0] w1]; cbn [snd] in M; cbv beta iota; [|tc].
  eapply T_weaken; [apply IH; lia|lia].
Qed.

Lemma small_sort_T xs w : c <= w_count w -> T (w_count w) (fun j f => small_sort (islt j f) xs w).
Proof.
  intros Hc. unfold small_sort. destruct xs as [|x0 [|x1 rest]]; try tc.
  bind (fun j f => islt j f x1 x0 w) r1 M; [apply Hislt; exact Hc|].
  destruct r1 as [cr w1]. cbn [snd] in M. destruct cr as [desc|r0]; cbv beta iota; [|tc].
  bind (fun j f => run_ext (islt j f) desc x1 rest 2 w1) r2 M2; [apply run_ext_T; lia|].
  destruct r2 as [[n|r0] w2]; cbn [snd] in M2; cbv beta iota; [|tc].
  eapply T_weaken; [apply binsort_T; lia|lia].
Qed.
End SortT.

Section LibT.
Variable cfg : config.
Variable J : Type.
Variable c : Z.
Variable cb : J -> nat -> caller.

(* the comparison step through a comparator that terminates *)
Lemma islt_cb_T fv x y w :
  T (w_count w) (fun j f => cb j f fv [x; y] w) -> T (w_count w) (fun j f => islt_cb (cb j f) fv x y w).
Proof.
  intros H. unfold islt_cb.
  bind (fun j f => cb j f fv [x; y] w) r M; [exact H|].
  destruct r as [o w1]. cbn [snd] in M. destruct o as [v| | | | |]; try tc. destruct v; tc.
Qed.

(* arraySort, given that every comparator call it makes (comparator = its second argument, two arguments, any later world)
   terminates *)
Lemma lib_sort_T_at args w : c <= w_count w ->
  (forall fv x y w', nth_error args 1 = Some fv -> c <= w_count w' -> T (w_count w') (fun j f => cb j f fv [x; y] w')) ->
  T (w_count w) (fun j f => lib_sort cfg (cb j f) args w).
Proof.
  intros Hc Hcb. unfold lib_sort.
  destruct (validate w [A TArray; AFunN] args) as [va| |] eqn:Ev; try tc.
  destruct va as [|[a0|] va]; try tc. destruct a0 as [| | | | |l| | |]; try tc.
  destruct va as [|[fv|] va]; try tc. destruct va; try tc.
  assert (Hpure : T (w_count w) (fun (_ : J) (_ : nat) => match small_sort islt_cmp (get_arr w l) w with
     | (cur, None, w1) => (LVal (VArr l), set_arr w1 l cur) | (cur, Some r, w1) => (r, set_arr w1 l cur) end)).
  { apply T_const.
    pose proof (small_sort_Le islt_cmp (fun a b : world => w_count a <= w_count b)
                  (fun a => Z.le_refl _) (fun a b d H1 H2 => Z.le_trans _ _ _ H1 H2)) as H.
    assert (Hcmp : forall x y w0, w_count w0 <= w_count (snd (islt_cmp x y w0))).
    { intros x y w0. unfold islt_cmp. destruct (vcompare (cmp_fuel w0) w0 x y) as [[| |]|]; cbn; lia. }
    specialize (H Hcmp (get_arr w l) w).
    destruct (small_sort islt_cmp (get_arr w l) w) as [[cur s] w1]. cbn [snd] in H.
    destruct s; cbn [snd]; rewrite set_arr_count; exact H. }
  (* the second argument as validated is the second argument as given *)
  assert (Hfv : fv <> VNull -> nth_error args 1 = Some fv) by (intros Hn; exact (validate_sort_fv w args l fv Ev Hn)).
  assert (Hcall : fv <> VNull -> T (w_count w) (fun j f =>
     if Nat.leb 64 (length (get_arr w l)) then (LOracle, w) else
     match small_sort (islt_cb (cb j f) fv) (get_arr w l) (set_arr w l []) with
     | (cur, Some r, w1) => match r with LRaise _ => if c_debug cfg then (LOracle, w1) else (r, set_arr w1 l cur) | _ => (r, set_arr w1 l cur) end
     | (cur, None, w1) => if is_nil (get_arr w1 l) then (LVal (VArr l), set_arr w1 l cur)
                          else if c_debug cfg then (LOracle, w1) else (LRaise (U "list modified during sort"), set_arr w1 l cur)
     end)).
  { intros Hn. destruct (Nat.leb 64 (length (get_arr w l))); [tc|].
    bind (fun j f => small_sort (islt_cb (cb j f) fv) (get_arr w l) (set_arr w l [])) r M.
    - change (w_count w) with (w_count (set_arr w l [])).
      apply (small_sort_T J c (fun j f => islt_cb (cb j f) fv)); [|exact Hc].
      intros x y w' Hc'. apply islt_cb_T. apply Hcb; [apply Hfv; exact Hn|exact Hc'].
    - destruct r as [[cur s] w1]. cbn [snd] in M. rewrite set_arr_count in M. destruct s as [r|].
      + destruct r; try tc. destruct (c_debug cfg); tc.
      + destruct (is_nil (get_arr w1 l)); [tc|]. destruct (c_debug cfg); tc. }
  destruct fv; try (apply Hcall; discriminate). exact Hpure.
Qed.

(* calling a closure, given that the one call it makes terminates *)
Lemma partial_call_T_at l args w :
  (forall fv bound, get_arr w l = fv :: bound -> T (w_count w) (fun j f => cb j f fv (bound ++ args) w)) ->
  T (w_count w) (fun j f => lib_partial_call (cb j f) l args w).
Proof.
  intros Hcb. unfold lib_partial_call. destruct (get_arr w l) as [|fv bound]; [tc|].
  bind (fun j f => cb j f fv (bound ++ args) w) r M; [apply Hcb; reflexivity|].
  destruct r as [o w1]. cbn [snd] in M. apply T_const. rewrite snd_lres_of_outcome. exact M.
Qed.

(* the functions that never call back *)
Lemma libfull_nocb_T name args w : op_is name "arraySort" = false ->
  T (w_count w) (fun j f => libfull cfg (cb j f) name args w).
Proof.
  intros Hs.
  apply (T_ext _ _ _ (fun _ _ => libfull cfg (fun _ _ w' => (OFuel, w')) name args w)).
  { intros j f. rewrite !libfull_unfold, Hs. reflexivity. }
  apply T_const. apply libfull_monotone. intros; cbn; lia.
Qed.

Hypothesis Hcb : forall fv a w, c <= w_count w -> T (w_count w) (fun j f => cb j f fv a w).

Lemma libfull_T name args w : c <= w_count w -> T (w_count w) (fun j f => libfull cfg (cb j f) name args w).
Proof.
  intros Hc. destruct (op_is name "arraySort") eqn:Hs; [|apply libfull_nocb_T; exact Hs].
  destruct (text_override name args) eqn:Ht; [|destruct (str_mem name core_names) eqn:Hm].
  - apply (T_ext _ _ _ (fun _ _ => libmore cfg name args w)); [intros; rewrite libfull_unfold, Ht; reflexivity|].
    apply T_const. rewrite libmore_count. lia.
  - apply (T_ext _ _ _ (fun _ _ => libcore cfg (fun _ _ w' => (OFuel, w')) name args w)); [intros; rewrite libfull_unfold, Ht, Hm; reflexivity|].
    apply T_const. rewrite libcore_count. lia.
  - apply (T_ext _ _ _ (fun j f => lib_sort cfg (cb j f) args w)); [intros; rewrite libfull_unfold, Ht, Hm, Hs; reflexivity|].
    apply lib_sort_T_at; [exact Hc|]. intros fv x y w' _ Hc'. apply Hcb. exact Hc'.
Qed.

Lemma libfull2_T name args w : c <= w_count w -> T (w_count w) (fun j f => libfull2 cfg (cb j f) name args w).
Proof.
  intros Hc. unfold libfull2.
  destruct (op_is name "systemPartial"); [apply T_const; rewrite partial_new_count; lia|].
  destruct (partial_loc name) as [l|]; [|apply libfull_T; exact Hc].
  apply partial_call_T_at. intros fv bound _. apply Hcb. exact Hc.
Qed.
End LibT.

Theorem libfull_terminates cfg : lib_terminates (libfull cfg).
Proof. intros J c cb Hcb name args w Hc. apply (libfull_T cfg J c cb Hcb name args w Hc). Qed.

Theorem libfull2_terminates cfg : lib_terminates (libfull2 cfg).
Proof. intros J c cb Hcb name args w Hc. apply (libfull2_T cfg J c cb Hcb name args w Hc). Qed.
