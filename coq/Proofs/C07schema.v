(* Proofs/C07schema.v — C07, schema clause, the part that Proofs/C07.v left as the hypothesis `user_exprs_schema`:
   every expression tree returned by the expression parser of Model/ExprParser.v uses only operators of the two
   schema enums (Model/Lower.v BIN_OPS / UN_OPS).
   Route: (1) a generic inversion of the declarative match relation (Proofs/RegexFacts.v) for regexes that are a finite
   set of literal strings (`lang`), applied to the REGENERATED values Gen/Regexes.v R_EXPR_BINARY_OP / R_EXPR_UNARY_OP:
   the text of group 1 of a successful match is one of the strings of the alternation, and that finite list is inside
   the enum (vm_compute on the regex value: if parser.py's operator regexes gain an alternative that the schema enum
   does not have, `binop_lang_ok` / `unop_lang_ok` break — intended);  (2) `insert` (the precedence rotation) only
   rearranges nodes;  (3) induction on the fuel of parse_binary / parse_unary / parse_args;  (4) every line kind that
   Lower.classify returns satisfies kind_schema, so user_exprs_schema holds for EVERY program. *)
From Coq Require Import Lia.
From BS Require Import Model.Base Model.Regex Model.Num Model.ExprParser Model.Script Model.Lower
  Gen.Unicode Gen.Regexes Proofs.BaseFacts Proofs.RegexFacts Proofs.NumLit Proofs.C07eq Proofs.C07.

(* ================= 1. regexes that denote a finite set of literal strings ================= *)
Fixpoint class_lits (items : list citem) : option (list N) :=
  match items with
  | [] => Some []
  | CLit x :: t => option_map (cons x) (class_lits t)
  | _ => None
  end.

Fixpoint lang (r : regex) : option (list str) :=
  match r with
  | REps => Some [[]]
  | RLit x => Some [[x]]
  | RIn false items => option_map (map (fun x => [x])) (class_lits items)
  | RCat a b =>
    match lang a, lang b with
    | Some A, Some B => Some (flat_map (fun x => map (app x) B) A)
    | _, _ => None
    end
  | RAlt a b =>
    match lang a, lang b with
    | Some A, Some B => Some (A ++ B)
    | _, _ => None
    end
  | _ => None
  end.

Lemma class_lits_sound : forall items L y,
  class_lits items = Some L -> existsb (fun i => item_match UC i y) items = true -> In y L.
Proof.
  induction items as [|i t IH]; intros L y HL HM; [discriminate|].
  destruct i as [x| |]; cbn [class_lits] in HL; try discriminate.
  destruct (class_lits t) as [L'|]; [|discriminate]. cbn in HL. inversion HL; subst.
  cbn [existsb item_match] in HM. apply orb_true_iff in HM. destruct HM as [HM|HM].
  - apply N.eqb_eq in HM. left. symmetry. exact HM.
  - right. eapply IH; [reflexivity | exact HM].
Qed.

Lemma lang_sound s r pos p c c' :
  Matches UC s r pos p c c' -> pos <= length s -> forall L, lang r = Some L -> In (seg s pos p) L /\ c' = c.
Proof.
  induction 1; intros LE L HL; cbn [lang] in HL; try discriminate.
  - (* REps *) inversion HL; subst. rewrite seg_nil. split; [left; reflexivity | reflexivity].
  - (* RLit *) inversion HL; subst. rewrite (seg_cons s pos (S pos) x) by (assumption || lia). rewrite seg_nil.
    split; [left; reflexivity | reflexivity].
  - (* RIn *) destruct neg; [discriminate|]. destruct (class_lits items) as [Ls|] eqn:EL; [|discriminate].
    cbn in HL. inversion HL; subst. split; [|reflexivity].
    rewrite (seg_cons s pos (S pos) y) by (assumption || lia). rewrite seg_nil.
    unfold class_match in H0. rewrite Bool.xorb_false_l in H0.
    apply in_map_iff. exists y. split; [reflexivity|]. eapply class_lits_sound; eassumption.
  - (* RCat *)
    destruct (lang a) as [A|]; [|discriminate]. destruct (lang b) as [B|]; [|discriminate]. inversion HL; subst.
    pose proof (Matches_bounds _ _ _ _ _ _ _ H LE) as B1.
    destruct (IHMatches1 LE _ eq_refl) as [I1 E1].
    destruct (IHMatches2 ltac:(lia) _ eq_refl) as [I2 E2].
    pose proof (Matches_bounds _ _ _ _ _ _ _ H0 ltac:(lia)) as B2.
    split; [|congruence].
    rewrite (seg_app s pos mid p) by lia. apply in_flat_map. exists (seg s pos mid). split; [exact I1|].
    apply in_map. exact I2.
  - (* RAlt, left *)
    destruct (lang a) as [A|]; [|discriminate]. destruct (lang b) as [B|]; [|discriminate]. inversion HL; subst.
    destruct (IHMatches LE _ eq_refl) as [I1 E1]. split; [apply in_or_app; left; exact I1 | exact E1].
  - (* RAlt, right *)
    destruct (lang a) as [A|]; [|discriminate]. destruct (lang b) as [B|]; [|discriminate]. inversion HL; subst.
    destruct (IHMatches LE _ eq_refl) as [I1 E1]. split; [apply in_or_app; right; exact I1 | exact E1].
Qed.

(* the shape shared by the two operator regexes:  ^ pre ( inner )  with inner a finite set of literal strings *)
Lemma group1_lang s pre inner e c L :
  re_match UC (RCat RBol (RCat pre (RGroup 1 inner))) s = MYes e c -> lang inner = Some L -> In (grp s c 1) L.
Proof.
  intros H HL. apply re_match_sound in H.
  inversion H as [| | | | | | |? ? ? p0 ? ? c0 ? HB H1| | | | | | ]; subst; clear H.
  inversion HB; subst; clear HB.
  inversion H1 as [| | | | | | |? ? ? p1 ? ? c1 ? HS HG| | | | | | ]; subst; clear H1.
  pose proof (Matches_bounds _ _ _ _ _ _ _ HS (Nat.le_0_l _)) as B1.
  inversion HG as [| | | | | | | | | | | |? ? ? ? ? c2 HI|]; subst; clear HG.
  unfold grp, group_text. cbn [cap_get cap_set Nat.eqb]. fold (seg s p1 e).
  destruct (lang_sound _ _ _ _ _ _ HI ltac:(lia) _ HL) as [I _]. exact I.
Qed.

(* ---- the two operator regexes of parser.py, as regenerated ---- *)
Definition binop_inner : regex :=
  match R_EXPR_BINARY_OP with RCat _ (RCat _ (RGroup _ i)) => i | _ => REps end.
Definition unop_inner : regex :=
  match R_EXPR_UNARY_OP with RCat _ (RCat _ (RGroup _ i)) => i | _ => REps end.

Definition lang_within (r : regex) (enum : list str) : bool :=
  match lang r with Some L => forallb (fun x => str_mem x enum) L | None => false end.

Lemma binop_lang_ok : lang_within binop_inner BIN_OPS = true.
Proof. vm_compute. reflexivity. Qed.
Lemma unop_lang_ok : lang_within unop_inner UN_OPS = true.
Proof. vm_compute. reflexivity. Qed.

Lemma lang_within_sound r enum x L : lang_within r enum = true -> lang r = Some L -> In x L -> str_mem x enum = true.
Proof.
  unfold lang_within. intros W HL I. rewrite HL in W. rewrite forallb_forall in W. apply W. exact I.
Qed.

Theorem binary_op_group text e c : rx R_EXPR_BINARY_OP text = MYes e c -> str_mem (grp text c 1) BIN_OPS = true.
Proof.
  unfold rx. intros H.
  destruct (lang binop_inner) as [L|] eqn:HL; [|pose proof binop_lang_ok as W; unfold lang_within in W; rewrite HL in W; discriminate].
  eapply (lang_within_sound binop_inner); [exact binop_lang_ok | exact HL |].
  eapply group1_lang; [exact H | exact HL].
Qed.

Theorem unary_op_group text e c : rx R_EXPR_UNARY_OP text = MYes e c -> str_mem (grp text c 1) UN_OPS = true.
Proof.
  unfold rx. intros H.
  destruct (lang unop_inner) as [L|] eqn:HL; [|pose proof unop_lang_ok as W; unfold lang_within in W; rewrite HL in W; discriminate].
  eapply (lang_within_sound unop_inner); [exact unop_lang_ok | exact HL |].
  eapply group1_lang; [exact H | exact HL].
Qed.

(* the converse direction is not needed, but the enum is not larger than the regex either (documentation of the tie) *)
Example binop_lang_is_enum : lang binop_inner = Some BIN_OPS.
Proof. vm_compute. reflexivity. Qed.
Example unop_lang_is_enum : lang unop_inner = Some [U "!"; U "-"].
Proof. vm_compute. reflexivity. Qed.

(* ================= 2. the precedence rotation only rearranges nodes ================= *)
Lemma insert_schema o r : str_mem o BIN_OPS = true -> expr_schema r = true ->
  forall t, expr_schema t = true -> expr_schema (insert t o r) = true.
Proof.
  intros Ho Hr. induction t as [x|x|x|nm args|o' l IHl rt IHr|o' a IHa|a IHa]; intros Ht;
    try (cbn [insert expr_schema]; rewrite Ho, Hr; cbn [expr_schema] in Ht |- *; rewrite ?Ht; reflexivity).
  cbn [insert]. destruct (lower o' o).
  - cbn [expr_schema] in Ht |- *. apply andb_true_iff in Ht. destruct Ht as [Ht Hrt].
    rewrite Ht. rewrite (IHr Hrt). reflexivity.
  - cbn [expr_schema] in Ht |- *. rewrite Ho, Hr, Ht. reflexivity.
Qed.

(* ================= 3. the parser: induction on the fuel ================= *)
Definition schema_post (r : pres (expr * str)) : Prop :=
  match r with POk (e, _) => expr_schema e = true | _ => True end.
Definition schemas_post (r : pres (list expr * str)) : Prop :=
  match r with POk (l, _) => forallb expr_schema l = true | _ => True end.

Lemma forallb_rev {A} (f : A -> bool) (l : list A) : forallb f l = true -> forallb f (rev l) = true.
Proof. rewrite !forallb_forall. intros H x I. apply H. apply in_rev. exact I. Qed.

Lemma parser_schema : forall fuel,
  (forall text left, oexpr_schema left = true -> schema_post (parse_binary fuel text left)) /\
  (forall text, schema_post (parse_unary fuel text)) /\
  (forall text acc, forallb expr_schema acc = true -> schemas_post (parse_args fuel text acc)).
Proof.
  induction fuel as [|f (IHb & IHu & IHa)]; [repeat split; intros; exact I|].
  split; [|split].
  - intros text left HL. cbn [parse_binary].
    assert (Hleft : schema_post (match left with Some l => POk (l, text) | None => parse_unary f text end)).
    { destruct left; [exact HL | apply IHu]. }
    destruct (match left with Some l => POk (l, text) | None => parse_unary f text end) as [[le bt]|msg n|w|];
      cbn [schema_post] in Hleft |- *; auto.
    destruct (rx R_EXPR_BINARY_OP bt) as [|e c|] eqn:EB; cbn [schema_post]; auto.
    pose proof (IHu (skipn e bt)) as U1.
    destruct (parse_unary f (skipn e bt)) as [[re nt]|msg n|w|]; cbn [schema_post] in U1 |- *; auto.
    apply IHb. cbn [oexpr_schema]. apply insert_schema; auto. eapply binary_op_group. exact EB.
  - intros text. cbn [parse_unary].
    destruct (rx R_EXPR_GROUP_OPEN text) as [|e c|]; cbn [schema_post]; auto.
    2:{ pose proof (IHb (skipn e text) None eq_refl) as B1.
        destruct (parse_binary f (skipn e text) None) as [[ex nt]|msg n|w|]; cbn [schema_post] in B1 |- *; auto.
        destruct (rx R_EXPR_GROUP_CLOSE nt) as [|e2 c2|]; cbn [schema_post expr_schema]; auto. }
    destruct (rx R_EXPR_UNARY_OP text) as [|e c|] eqn:EU; cbn [schema_post]; auto.
    2:{ pose proof (IHu (skipn e text)) as U1.
        destruct (parse_unary f (skipn e text)) as [[ex nt]|msg n|w|]; cbn [schema_post expr_schema] in U1 |- *; auto.
        rewrite U1, (unary_op_group _ _ _ EU). reflexivity. }
    destruct (rx R_EXPR_FUNCTION_OPEN text) as [|e c|]; cbn [schema_post]; auto.
    2:{ pose proof (IHa (skipn e text) [] eq_refl) as A1.
        destruct (parse_args f (skipn e text) []) as [[args rest]|msg n|w|]; cbn [schemas_post schema_post expr_schema] in A1 |- *; auto. }
    destruct (rx R_EXPR_NUMBER text) as [|e c|]; cbn [schema_post]; auto.
    2:{ destruct (py_float (grp text c 1)); cbn [schema_post expr_schema]; auto. }
    destruct (rx R_EXPR_STRING text) as [|e c|]; cbn [schema_post]; auto.
    2:{ destruct (unescape R_EXPR_STRING_ESCAPE (grp text c 1)); cbn [schema_post expr_schema]; auto. }
    destruct (rx R_EXPR_STRING_DOUBLE text) as [|e c|]; cbn [schema_post]; auto.
    2:{ destruct (unescape R_EXPR_STRING_DOUBLE_ESCAPE (grp text c 1)); cbn [schema_post expr_schema]; auto. }
    destruct (rx R_EXPR_VARIABLE text) as [|e c|]; cbn [schema_post expr_schema]; auto.
    destruct (rx R_EXPR_VARIABLE_EX text) as [|e c|]; cbn [schema_post]; auto.
    destruct (unescape R_EXPR_VARIABLE_EX_ESCAPE (grp text c 1)); cbn [schema_post expr_schema]; auto.
  - intros text acc HA. cbn [parse_args].
    destruct (rx R_EXPR_FUNCTION_CLOSE text) as [|e c|]; cbn [schemas_post]; auto.
    2:{ apply forallb_rev. exact HA. }
    destruct (match acc with
              | [] => POk text
              | _ :: _ => match rx R_EXPR_FUNCTION_SEPARATOR text with
                          | MNo => PErr syntax_error (length text)
                          | MYes e _ => POk (skipn e text)
                          | MFuel => PFuel
                          end
              end) as [t'|msg n|w|]; cbn [schemas_post]; auto.
    pose proof (IHb t' None eq_refl) as B1.
    destruct (parse_binary f t' None) as [[a nt]|msg n|w|]; cbn [schema_post schemas_post] in B1 |- *; auto.
    apply IHa. cbn [forallb]. rewrite B1, HA. reflexivity.
Qed.

Theorem parse_expression_schema text e : parse_expression text = EOk e -> expr_schema e = true.
Proof.
  unfold parse_expression. intros H.
  destruct (parser_schema (expr_fuel text)) as (Hb & _ & _). specialize (Hb text None eq_refl).
  destruct (parse_binary (expr_fuel text) text None) as [[e' nt]|m n|w'|]; cbn [schema_post] in Hb; try discriminate.
  destruct (strip nt); [|discriminate]. inversion H; subst. exact Hb.
Qed.

Lemma stmt_expr_schema text line off lineno e : stmt_expr text line off lineno = ROk e -> expr_schema e = true.
Proof.
  unfold stmt_expr. intros H. destruct (parse_expression text) as [e'| | |] eqn:E; try discriminate.
  inversion H; subst. eapply parse_expression_schema. exact E.
Qed.

(* ================= 4. every classified line ================= *)
Ltac cls_schema H :=
  first [ discriminate H
        | injection H as <-; cbn [kind_schema oexpr_schema]; first [reflexivity | eapply stmt_expr_schema; eassumption] ].

Lemma classify_kind_schema n line k : classify n line = ROk k -> kind_schema k = true.
Proof.
  unfold classify. intros H.
  destruct (rxm R_SCRIPT_ASSIGNMENT line); [|destruct (stmt_expr _ _ _ _) eqn:E; cls_schema H|cls_schema H].
  destruct (rxm R_SCRIPT_FUNCTION_BEGIN line) as [|ep c|]; [|cls_schema H|cls_schema H].
  destruct (rxm R_SCRIPT_FUNCTION_END line); [|cls_schema H|cls_schema H].
  destruct (rxm R_SCRIPT_IF_BEGIN line); [|destruct (stmt_expr _ _ _ _) eqn:E; cls_schema H|cls_schema H].
  destruct (rxm R_SCRIPT_IF_ELSE_IF line) as [|ep c|]; [| |cls_schema H].
  2:{ injection H as <-. cbn [kind_schema].
      destruct (stmt_expr _ _ _ _) eqn:E; try reflexivity. eapply stmt_expr_schema. exact E. }
  destruct (rxm R_SCRIPT_IF_ELSE line); [|cls_schema H|cls_schema H].
  destruct (rxm R_SCRIPT_IF_END line); [|cls_schema H|cls_schema H].
  destruct (rxm R_SCRIPT_WHILE_BEGIN line); [|destruct (stmt_expr _ _ _ _) eqn:E; cls_schema H|cls_schema H].
  destruct (rxm R_SCRIPT_WHILE_END line); [|cls_schema H|cls_schema H].
  destruct (rxm R_SCRIPT_FOR_BEGIN line); [|destruct (stmt_expr _ _ _ _) eqn:E; cls_schema H|cls_schema H].
  destruct (rxm R_SCRIPT_FOR_END line); [|cls_schema H|cls_schema H].
  destruct (rxm R_SCRIPT_BREAK line); [|cls_schema H|cls_schema H].
  destruct (rxm R_SCRIPT_CONTINUE line); [|cls_schema H|cls_schema H].
  destruct (rxm R_SCRIPT_LABEL line); [|cls_schema H|cls_schema H].
  destruct (rxm R_SCRIPT_JUMP line) as [|ep c|];
    [|destruct (gtext line c R_SCRIPT_JUMP__expr); [cls_schema H|destruct (stmt_expr _ _ _ _) eqn:E; cls_schema H]|cls_schema H].
  destruct (rxm R_SCRIPT_RETURN line) as [|ep c|];
    [|destruct (gtext line c R_SCRIPT_RETURN__expr); [cls_schema H|destruct (stmt_expr _ _ _ _) eqn:E; cls_schema H]|cls_schema H].
  destruct (rxm R_SCRIPT_INCLUDE line).
  - destruct (rxm R_SCRIPT_INCLUDE_SYSTEM line); [|cls_schema H|cls_schema H].
    destruct (parse_expression line) eqn:E; try discriminate H.
    injection H as <-. cbn [kind_schema]. eapply parse_expression_schema. exact E.
  - destruct (unesc _ _); cls_schema H.
  - discriminate H.
Qed.

Theorem line_schema_always n line : line_schema n line = true.
Proof.
  unfold line_schema. destruct (classify n line) as [k| | |] eqn:E; try reflexivity.
  eapply classify_kind_schema. exact E.
Qed.

(* the hypothesis of C07_schema_partial holds for every program *)
Theorem user_exprs_schema_always chunks start : user_exprs_schema chunks start = true.
Proof. unfold user_exprs_schema. apply forallb_forall. intros il _. apply line_schema_always. Qed.

(* C07, schema clause, full *)
Theorem parse_script_schema_full chunks start code :
  parse_script chunks start = ROk code -> script_schema code = true.
Proof. intros H. eapply parse_script_schema; [exact H | apply user_exprs_schema_always]. Qed.
