(* Proofs/C16Float.v — the binary64 path of `datetime - datetime`:
     value_round_number((a - b).total_seconds() * 1000, 0)
   returns exactly n when a = b + n ms, for every |n| <= 10^15 (every pair of representable datetimes is far inside:
   |n| < 3.2 * 10^14).  Three correctly rounded operations (int/int division, *, +) then int(): each rounding has relative
   error <= 2^-53 (Proofs/FloatFacts.v, values scaled by 2^1074 so that everything is an integer), and the accumulated
   error stays below 1/2.  Z only, no real numbers, no axioms. *)
From Coq Require Import ZArith Lia Bool ZifyBool SpecFloat.
From BS Require Import Model.Base Model.Num Model.Calendar Proofs.FloatFacts.
Local Open Scope Z_scope.

Definition sub_float_of_diff (d : Z) : option Z :=
  let ts := ratio_to_sf (d <? 0) (Z.abs d) 1000000 in
  let v := SFmul prec emax ts (Z_to_sf 1000) in
  let nonneg := match SFcompare v (S754_zero false) with Some Lt => false | _ => true end in
  sf_trunc (SFadd prec emax v (if nonneg then sf_half else sf_neg_half)).

Lemma dt_sub_float_diff a b : dt_sub_float a b = sub_float_of_diff (a - b).
Proof. reflexivity. Qed.

Lemma Zeq_bool_eqb x y : Zeq_bool x y = (x =? y).
Proof. unfold Zeq_bool. rewrite Z.eqb_compare. reflexivity. Qed.

(* ---- 1. total_seconds(): microseconds / 10^6, correctly rounded *)
Lemma ratio_1e6_scaled neg a : 1 <= a < 2 ^ 63 ->
  exists m e, ratio_to_sf neg a 1000000 = S754_finite neg m e /\
    2 ^ 52 <= Zpos m < 2 ^ 53 /\ Zdigits2 a - 73 <= e <= Zdigits2 a - 71 /\
    2 ^ 53 * Z.abs (a * 2 ^ 1074 - Zpos m * 2 ^ (e + 1074) * 1000000) <= 1000000 * (Zpos m * 2 ^ (e + 1074)).
Proof.
  intros Ha. unfold ratio_to_sf. destruct (Z.eqb_spec a 0) as [E|_]; [lia|].
  destruct (Zdigits2_bounds a ltac:(lia)) as (Hd0 & Bl & Bu).
  assert (Hd : Zdigits2 a <= 63) by (apply Zdigits2_le; lia).
  set (d1 := Zdigits2 a) in *.
  unfold SFdiv_core_binary. fold d1. change (Zdigits2 1000000) with 20.
  rewrite fexp_normal by lia.
  replace (Z.min (d1 + 0 - (20 + 0) - 53) (0 - 0)) with (d1 - 73) by lia.
  replace (0 - 0 - (d1 - 73)) with (73 - d1) by lia.
  destruct (73 - d1) as [|s|s] eqn:Es; try lia.
  rewrite Z.shiftl_mul_pow2 by lia. rewrite <- Es.
  set (N := a * 2 ^ (73 - d1)).
  assert (P : 0 < 2 ^ (73 - d1)) by (apply Z.pow_pos_nonneg; lia).
  assert (BN : 2 ^ 72 <= N < 2 ^ 73).
  { unfold N. replace (2 ^ 72) with (2 ^ (d1 - 1) * 2 ^ (73 - d1)) by (rewrite <- Z.pow_add_r by lia; f_equal; lia).
    replace (2 ^ 73) with (2 ^ d1 * 2 ^ (73 - d1)) by (rewrite <- Z.pow_add_r by lia; f_equal; lia).
    split; [apply Z.mul_le_mono_nonneg_r; lia|apply Z.mul_lt_mono_pos_r; lia]. }
  assert (EQ : Z.div_eucl N 1000000 = (N / 1000000, N mod 1000000))
    by (unfold Z.div, Z.modulo; destruct (Z.div_eucl N 1000000); reflexivity).
  rewrite EQ.
  assert (L : new_location 1000000 (N mod 1000000) = loc_of N 1000000).
  { unfold new_location. change (Z.even 1000000) with true. cbv iota. unfold new_location_even, loc_of.
    rewrite Zeq_bool_eqb. reflexivity. }
  rewrite L.
  assert (Q : 2 ^ 52 <= N / 1000000 < 2 ^ 54).
  { split; [apply Z.div_le_lower_bound; lia|apply Z.div_lt_upper_bound; lia]. }
  assert (D53 : 53 <= Zdigits2 (N / 1000000)) by (apply (Zdigits2_ge _ 52); lia).
  assert (D54 : Zdigits2 (N / 1000000) <= 54) by (apply Zdigits2_le; lia).
  destruct (bra_scaled neg N 1000000 (d1 - 73)) as (m & e & E & Hm & He & Hb); try lia.
  exists m, e. repeat split; try tauto; try lia.
  replace (N * 2 ^ (d1 - 73 + 1074)) with (a * 2 ^ 1074) in Hb; [exact Hb|].
  unfold N. rewrite <- Z.mul_assoc, <- Z.pow_add_r by lia. do 2 f_equal. lia.
Qed.

(* ---- 2. * 1000 *)
Lemma Z_to_sf_1000 : Z_to_sf 1000 = S754_finite false 8796093022208000 (-43).
Proof. vm_compute. reflexivity. Qed.

Lemma mul_1000_scaled s m1 e1 : 2 ^ 52 <= Zpos m1 < 2 ^ 53 -> -1000 <= e1 <= 900 ->
  exists m e, SFmul prec emax (S754_finite s m1 e1) (Z_to_sf 1000) = S754_finite s m e /\
    2 ^ 52 <= Zpos m < 2 ^ 53 /\ e1 + 9 <= e <= e1 + 11 /\
    2 ^ 53 * Z.abs (1000 * (Zpos m1 * 2 ^ (e1 + 1074)) - Zpos m * 2 ^ (e + 1074)) <= Zpos m * 2 ^ (e + 1074).
Proof.
  intros Hm He. rewrite Z_to_sf_1000. cbn [SFmul]. rewrite xorb_false_r, Pos2Z.inj_mul.
  set (c := 8796093022208000). set (mx := Zpos m1 * c).
  assert (B : 2 ^ 104 <= mx < 2 ^ 106) by (unfold mx, c; nia).
  assert (D1 : 105 <= Zdigits2 mx) by (apply (Zdigits2_ge _ 104); lia).
  assert (D2 : Zdigits2 mx <= 106) by (apply Zdigits2_le; lia).
  destruct (bra_scaled_int s mx (e1 + -43)) as (m & e & E & Hm' & He' & Hb); try lia.
  exists m, e. repeat split; try tauto; try lia.
  replace (mx * 2 ^ (e1 + -43 + 1074)) with (1000 * (Zpos m1 * 2 ^ (e1 + 1074))) in Hb; [exact Hb|].
  unfold mx, c. replace (e1 + 1074) with (43 + (e1 + -43 + 1074)) by lia. rewrite Z.pow_add_r by lia.
  change (2 ^ 43) with 8796093022208. lia.
Qed.

(* ---- 3. + 0.5 (same sign) *)
Lemma add_half_scaled s m2 e2 : 2 ^ 52 <= Zpos m2 < 2 ^ 53 -> -900 <= e2 <= 0 ->
  exists m e, SFadd prec emax (S754_finite s m2 e2) (S754_finite s 4503599627370496 (-53)) = S754_finite s m e /\
    -1074 <= e /\
    2 ^ 53 * Z.abs (Zpos m2 * 2 ^ (e2 + 1074) + 2 ^ 1073 - Zpos m * 2 ^ (e + 1074)) <= Zpos m * 2 ^ (e + 1074).
Proof.
  intros Hm He. cbn [SFadd]. set (ez := Z.min e2 (-53)).
  assert (Hez : -900 <= ez <= -53) by (unfold ez; lia).
  pose proof (shl_align_le m2 e2 ez ltac:(unfold ez; lia)) as A1.
  pose proof (shl_align_le 4503599627370496 (-53) ez ltac:(unfold ez; lia)) as A2.
  set (a1 := fst (shl_align m2 e2 ez)) in *. set (a2 := fst (shl_align 4503599627370496 (-53) ez)) in *.
  assert (EQ : binary_normalize prec emax (cond_Zopp s (Zpos a1) + cond_Zopp s (Zpos a2)) ez false
               = binary_round prec emax s (a1 + a2) ez) by (destruct s; reflexivity).
  rewrite EQ.
  assert (P1 : 0 < 2 ^ (e2 - ez)) by (apply Z.pow_pos_nonneg; unfold ez; lia).
  assert (P2 : 0 < 2 ^ (-53 - ez)) by (apply Z.pow_pos_nonneg; lia).
  assert (L1 : 2 ^ (e2 - ez) <= 2 ^ 900) by (apply Z.pow_le_mono_r; lia).
  assert (L2 : 2 ^ (-53 - ez) <= 2 ^ 900) by (apply Z.pow_le_mono_r; lia).
  assert (S : Zpos (a1 + a2) < 2 ^ 960).
  { rewrite Pos2Z.inj_add, A1, A2. replace (2 ^ 960) with (2 ^ 60 * 2 ^ 900) by (rewrite <- Z.pow_add_r by lia; reflexivity).
    set (T := 2 ^ 900) in *. nia. }
  assert (Dg : Zpos (digits2_pos (a1 + a2)) <= 960) by (apply (Zdigits2_le (Zpos (a1 + a2))); lia).
  destruct (br_scaled s (a1 + a2) ez) as (m & e & E & Hm' & He' & Hb); try lia.
  exists m, e. repeat split; try tauto; try lia.
  replace (Zpos (a1 + a2) * 2 ^ (ez + 1074)) with (Zpos m2 * 2 ^ (e2 + 1074) + 2 ^ 1073) in Hb; [exact Hb|].
  rewrite Pos2Z.inj_add, A1, A2, Z.mul_add_distr_r, <- !Z.mul_assoc, <- !Z.pow_add_r by lia.
  replace (e2 - ez + (ez + 1074)) with (e2 + 1074) by lia. replace (-53 - ez + (ez + 1074)) with 1021 by lia.
  f_equal.
Qed.

(* ---- 4. the error analysis: three relative errors <= 2^-53 keep the sum inside [A, A+1) *)
Lemma error_budget A F1 F2 F3 : 1 <= A <= 10 ^ 15 ->
  0 <= F1 -> 0 <= F2 -> 0 <= F3 ->
  2 ^ 53 * Z.abs (1000 * A * 2 ^ 1074 - F1 * 1000000) <= 1000000 * F1 ->
  2 ^ 53 * Z.abs (1000 * F1 - F2) <= F2 ->
  2 ^ 53 * Z.abs (F2 + 2 ^ 1073 - F3) <= F3 ->
  F3 / 2 ^ 1074 = A.
Proof.
  intros HA P1 P2 P3 H1 H2 H3.
  assert (HU : 2 ^ 1074 = 2 * 2 ^ 1073) by (rewrite <- Z.pow_succ_r by lia; reflexivity).
  rewrite HU in *. set (H := 2 ^ 1073) in *.
  assert (PH : 0 < H) by (apply Z.pow_pos_nonneg; lia).
  assert (B1 : H <= A * H) by nia. assert (B2 : A * H <= 10 ^ 15 * H) by nia.
  replace (1000 * A * (2 * H)) with (2000 * (A * H)) in H1 by ring.
  set (Q := A * H) in *.
  symmetry. apply (Z.div_unique F3 (2 * H) A (F3 - 2 * Q)); [|unfold Q; ring].
  left. change (2 ^ 53) with 9007199254740992 in *. change (10 ^ 15) with 1000000000000000 in *. lia.
Qed.

Theorem sub_float_of_diff_exact n : Z.abs n <= 10 ^ 15 -> sub_float_of_diff (n * 1000) = Some n.
Proof.
  intros Hn. destruct (Z.eq_dec n 0) as [->|Hnz]; [vm_compute; reflexivity|].
  unfold sub_float_of_diff.
  set (A := Z.abs n). assert (HA : 1 <= A <= 10 ^ 15) by (unfold A; lia).
  set (s := n * 1000 <? 0).
  assert (Hs : n = if s then - A else A) by (unfold s, A; destruct (Z.ltb_spec (n * 1000) 0); lia).
  replace (Z.abs (n * 1000)) with (1000 * A) by (unfold A; lia).
  assert (Ha : 1 <= 1000 * A < 2 ^ 63) by (change (2 ^ 63) with 9223372036854775808; lia).
  destruct (ratio_1e6_scaled s (1000 * A) Ha) as (m1 & e1 & E1 & Hm1 & He1 & Hb1). rewrite E1.
  assert (Dg : 1 <= Zdigits2 (1000 * A) <= 60).
  { split; [destruct (Zdigits2_bounds (1000 * A)); lia|].
    apply Zdigits2_le; lia. }
  destruct (mul_1000_scaled s m1 e1 Hm1 ltac:(lia)) as (m2 & e2 & E2 & Hm2 & He2 & Hb2). rewrite E2.
  match goal with |- sf_trunc (SFadd _ _ _ ?h) = _ =>
    replace h with (S754_finite s 4503599627370496 (-53)) by (destruct s; reflexivity) end.
  destruct (add_half_scaled s m2 e2 Hm2 ltac:(lia)) as (m3 & e3 & E4 & He3 & Hb3). rewrite E4.
  unfold sf_trunc. rewrite trunc_scaled by lia.
  assert (P1 : 0 < 2 ^ (e1 + 1074)) by (apply Z.pow_pos_nonneg; lia).
  assert (P2 : 0 < 2 ^ (e2 + 1074)) by (apply Z.pow_pos_nonneg; lia).
  assert (P3 : 0 < 2 ^ (e3 + 1074)) by (apply Z.pow_pos_nonneg; lia).
  rewrite (error_budget A (Zpos m1 * 2 ^ (e1 + 1074)) (Zpos m2 * 2 ^ (e2 + 1074)) (Zpos m3 * 2 ^ (e3 + 1074))); try lia; try assumption.
  rewrite Hs. destruct s; reflexivity.
Qed.

(* the script-level statement *)
Theorem sub_float_exact w n w' : Z.abs n <= 10 ^ 15 -> dt_add_ms w n = DOk w' -> dt_sub_float w' w = Some n.
Proof.
  intros Hn. unfold dt_add_ms. destruct (in_range (w + n * 1000)); [|discriminate].
  intros E. injection E as <-. rewrite dt_sub_float_diff. replace (w + n * 1000 - w) with (n * 1000) by lia.
  apply sub_float_of_diff_exact. exact Hn.
Qed.

(* two representable datetimes are never further apart than that: no bound on n is needed *)
Theorem sub_float_exact_in_range w n w' : in_range w = true -> dt_add_ms w n = DOk w' -> dt_sub_float w' w = Some n.
Proof.
  intros Hw H. apply (sub_float_exact w n w'); [|exact H].
  unfold dt_add_ms in H. destruct (in_range (w + n * 1000)) eqn:R; [|discriminate].
  unfold in_range in *. apply andb_prop in Hw, R. destruct Hw as [W1 W2], R as [R1 R2].
  apply Z.leb_le in W1, W2, R1, R2.
  assert (M1 : MIN_US = -62135596800000000) by (vm_compute; reflexivity).
  assert (M2 : MAX_US = 253402300799999999) by (vm_compute; reflexivity).
  rewrite M1 in *. rewrite M2 in *. change (10 ^ 15) with 1000000000000000. lia.
Qed.

(* non-vacuity: a datetime, a non-trivial number of milliseconds (one year and 1 ms), both hypotheses hold *)
Example sub_float_nonvacuous :
  in_range 1700000000000000 = true /\ Z.abs 31536000001 <= 10 ^ 15 /\
  dt_add_ms 1700000000000000 31536000001 = DOk 1731536000001000 /\
  dt_sub_float 1731536000001000 1700000000000000 = Some 31536000001.
Proof. vm_compute. intuition congruence. Qed.

(* a bound IS needed when nothing is said about the operands: far outside the datetime range (|n| ~ 2^52 ms = 139 000 years)
   the binary64 path is off by one *)
Example sub_float_refuted_beyond_range : sub_float_of_diff (4398076898823855 * 1000) = Some 4398076898823856.
Proof. vm_compute. reflexivity. Qed.
