(* Proofs/C03gen.v — the documented operator/type table of Proofs/C03.v ([supported], written out as data) IS the
   operand-type ladder of runtime.py evaluate_expression: Gen/OpTable.v is regenerated from the source on every run
   (tools/translate_optable.py: per operator the (left, right) guards of its branch, in source order), and for every
   operator of that table and every pair of the nine value types [supported] holds exactly when some guard admits the
   pair.  A type test added to, removed from or changed in the source's ladder breaks this obligation. *)
From Coq Require Import List Bool.
From BS Require Import Model.Base Model.Num Model.Arith Model.ExprParser Model.Script Model.Interp Gen.Library Gen.OpTable
                       Proofs.InterpEq Proofs.C03.

Definition class_admits (k : gclass) (t : vtag) : bool :=
  match k, t with
  | KAny, _ => true
  | KNum, GNum | KStr, GStr | KDate, GDate => true
  | _, _ => false
  end.

Definition guards_admit (g : option (list (gclass * gclass))) (a b : vtag) : bool :=
  match g with
  | None => true
  | Some l => existsb (fun p => class_admits (fst p) a && class_admits (snd p) b) l
  end.

Definition all_tags : list vtag := [GNull; GBool; GNum; GStr; GDate; GArr; GObj; GFun; GRegex].

Lemma all_tags_complete t : In t all_tags.
Proof. destruct t; cbn; tauto. Qed.

Definition table_agrees : bool :=
  forallb (fun og => forallb (fun a => forallb (fun b => Bool.eqb (supported (fst og) a b) (guards_admit (snd og) a b)) all_tags) all_tags)
          gen_operator_guards.

Lemma table_agrees_true : table_agrees = true.
Proof. vm_compute. reflexivity. Qed.

Theorem supported_is_the_source_ladder : forall op g a b,
  In (op, g) gen_operator_guards -> supported op a b = guards_admit g a b.
Proof.
  intros op g a b Hin.
  pose proof (proj1 (forallb_forall _ _) table_agrees_true (op, g) Hin) as H1. cbn [fst snd] in H1.
  pose proof (proj1 (forallb_forall _ _) H1 a (all_tags_complete a)) as H2.
  pose proof (proj1 (forallb_forall _ _) H2 b (all_tags_complete b)) as H3.
  apply Bool.eqb_prop. exact H3.
Qed.

(* the generated table covers exactly the twelve non-short-circuit binary operators *)
Lemma generated_operators :
  map fst gen_operator_guards = [U "+"; U "-"; U "*"; U "/"; U "=="; U "!="; U "<="; U "<"; U ">="; U ">"; U "%"; U "**"].
Proof. reflexivity. Qed.
