(* Proofs/C19Csv.v — CSV typing: validate_data (render cells) = the typed table (model: Model/DataCsv.v).

   The two passes of validate_data (first-determining-cell type inference per field over ALL rows, then per-cell parsing)
   give the table back whenever every cell round-trips on its own ([cell_rt]); the cell-level facts come from C13 (numbers),
   C16 (datetimes) and computation (booleans, null); for strings [cell_rt] IS the guard "does not read as another type". *)
From Coq Require Import Lia ZifyBool SpecFloat.
From BS Require Import Model.Base Model.Num Model.Compare Model.NumText Model.Calendar Model.Data Model.DataCsv Proofs.BaseFacts.
Local Open Scope Z_scope.

Lemma tset_same k v e : assoc k (tset k v e) = Some v.
Proof.
  induction e as [|[k' v'] t IH]; cbn; [rewrite str_eqb_refl; reflexivity|].
  destruct (str_eqb k k') eqn:E; cbn; [rewrite str_eqb_refl; reflexivity|]. rewrite E. exact IH.
Qed.
Lemma tset_other k v e k2 : k2 <> k -> assoc k2 (tset k v e) = assoc k2 e.
Proof.
  intros N. induction e as [|[k' v'] t IH]; cbn.
  - assert (str_eqb k2 k = false) as -> by (apply str_eqb_neq; exact N). reflexivity.
  - destruct (str_eqb k k') eqn:E; cbn.
    + apply str_eqb_eq in E. subst k'. assert (str_eqb k2 k = false) as -> by (apply str_eqb_neq; exact N). reflexivity.
    + destruct (str_eqb k2 k'); [reflexivity|exact IH].
Qed.
Lemma final_types_assoc types f :
  assoc f (final_types types) = option_map (fun o => match o with Some t => t | None => TString end) (assoc f types).
Proof. induction types as [|[k o] t IH]; cbn; [reflexivity|]. destruct (str_eqb f k); [reflexivity|exact IH]. Qed.

Section RoundTrip.
  Variables off_utc off_local : Z -> Z.
  Variable repr : flt -> str.
  Variable ct : str -> ftype.                  (* the column types of the typed table *)
  Notation rc := (render_cell off_utc off_local repr).
  Notation vcell := (validate_cell off_utc true).
  Notation infer := (infer_str off_utc).

  Definition nondet (v : cv) : Prop := v = CNull \/ v = CStr [].

  (* a cell of a column of type t round-trips on its own *)
  Definition cell_rt (t : ftype) (v : cv) : Prop :=
    exists s, rc v = Some s /\
      vcell t (CStr s) = Some v /\
      (nondet v -> vcell TString (CStr s) = Some v) /\
      ((infer s = None /\ nondet v) \/ infer s = Some t).
  Definition row_rt (r : row) : Prop := Forall (fun kv => cell_rt (ct (fst kv)) (snd kv)) r.
  Definition table_rt (d : table) : Prop := Forall row_rt d.

  Definition Inv (types : list (str * option ftype)) (cs : list (str * cv)) : Prop :=
    (forall f ot, assoc f types = Some ot -> ot = None \/ ot = Some (ct f)) /\
    Forall (fun kv => assoc (fst kv) types = Some (Some (ct (fst kv))) \/ (nondet (snd kv) /\ assoc (fst kv) types = Some None)) cs.

  Lemma inv_step types cs f v s : Inv types cs -> cell_rt (ct f) v -> rc v = Some s ->
    Inv (infer_cell off_utc true types f (CStr s)) (cs ++ [(f, v)]).
  Proof.
    intros [A B] [s' [R [_ [_ I]]]] R2. rewrite R in R2. injection R2 as <-. unfold infer_cell.
    destruct (assoc f types) as [[t|]|] eqn:E.
    - destruct (A f _ E) as [X|X]; [discriminate|]. injection X as ->. split; [exact A|].
      apply Forall_app. split; [exact B|]. constructor; [|constructor]. left. exact E.
    - (* Some None *)
      split.
      + intros f' ot H. destruct (list_eq_dec N.eq_dec f' f) as [->|NE].
        * rewrite tset_same in H. injection H as <-. destruct I as [[I _]|I]; rewrite I; auto.
        * rewrite tset_other in H by exact NE. eapply A; eauto.
      + apply Forall_app. split.
        * eapply Forall_impl; [|exact B]. cbn. intros [f' v'] H. cbn in *.
          destruct (list_eq_dec N.eq_dec f' f) as [->|NE]; [|rewrite tset_other by exact NE; exact H].
          rewrite tset_same. destruct H as [H|[H1 H2]]; [congruence|].
          destruct I as [[I _]|I]; rewrite I; [right; auto|left; reflexivity].
        * constructor; [|constructor]. cbn. rewrite tset_same. destruct I as [[I N]|I]; rewrite I; [right; auto|left; reflexivity].
    - (* None *)
      split.
      + intros f' ot H. destruct (list_eq_dec N.eq_dec f' f) as [->|NE].
        * rewrite tset_same in H. injection H as <-. destruct I as [[I _]|I]; rewrite I; auto.
        * rewrite tset_other in H by exact NE. eapply A; eauto.
      + apply Forall_app. split.
        * eapply Forall_impl; [|exact B]. cbn. intros [f' v'] H. cbn in *.
          destruct (list_eq_dec N.eq_dec f' f) as [->|NE]; [|rewrite tset_other by exact NE; exact H].
          destruct H as [H|[_ H]]; congruence.
        * constructor; [|constructor]. cbn. rewrite tset_same. destruct I as [[I N]|I]; rewrite I; [right; auto|left; reflexivity].
  Qed.

  Lemma inv_row r : forall r' types cs, Inv types cs -> row_rt r -> render_row off_utc off_local repr r = Some r' ->
    Inv (infer_row off_utc true types r') (cs ++ r).
  Proof.
    induction r as [|[f v] t IH]; intros r' types cs H RT R; cbn in R.
    - injection R as <-. rewrite app_nil_r. exact H.
    - destruct (rc v) as [s|] eqn:E; [|discriminate]. destruct (render_row _ _ _ t) as [t'|] eqn:E2; [|discriminate].
      injection R as <-. inversion RT as [|? ? C RT']; subst. cbn in C.
      cbn [infer_row fold_left fst snd]. replace (cs ++ (f, v) :: t) with ((cs ++ [(f, v)]) ++ t) by (rewrite <- app_assoc; reflexivity).
      apply (IH t' _ _ (inv_step types cs f v s H C E) RT' eq_refl).
  Qed.

  Lemma inv_rows d : forall d' types cs, Inv types cs -> table_rt d -> render_table off_utc off_local repr d = Some d' ->
    Inv (fold_left (infer_row off_utc true) d' types) (cs ++ concat d).
  Proof.
    induction d as [|r t IH]; intros d' types cs H RT R; cbn in R.
    - injection R as <-. cbn. rewrite app_nil_r. exact H.
    - destruct (render_row _ _ _ r) as [r'|] eqn:E; [|discriminate]. destruct (render_table _ _ _ t) as [t'|] eqn:E2; [|discriminate].
      injection R as <-. inversion RT as [|? ? C RT']; subst. cbn [fold_left concat]. rewrite app_assoc.
      apply (IH t' _ _ (inv_row r r' types cs H C E) RT' eq_refl).
  Qed.

  Definition cell_final (ftypes : list (str * ftype)) (kv : str * cv) : Prop :=
    assoc (fst kv) ftypes = Some (ct (fst kv)) \/ (nondet (snd kv) /\ assoc (fst kv) ftypes = Some TString).

  Lemma validate_row_rt ftypes r : forall r', row_rt r -> Forall (cell_final ftypes) r ->
    render_row off_utc off_local repr r = Some r' -> validate_row off_utc true ftypes r' = inl r.
  Proof.
    induction r as [|[f v] t IH]; intros r' RT FT R; cbn in R.
    - injection R as <-. reflexivity.
    - destruct (rc v) as [s|] eqn:E; [|discriminate]. destruct (render_row _ _ _ t) as [t'|] eqn:E2; [|discriminate].
      injection R as <-. inversion RT as [|? ? C RT']; inversion FT as [|? ? F FT']; subst. unfold cell_final in F. cbn in C, F.
      destruct C as [s' [R1 [V1 [V2 _]]]]. rewrite E in R1. injection R1 as <-.
      cbn [validate_row]. rewrite (IH t' RT' FT' eq_refl).
      destruct F as [F|[N F]]; rewrite F; [rewrite V1|rewrite (V2 N)]; reflexivity.
  Qed.

  Lemma validate_rows_rt ftypes d : forall d', table_rt d -> Forall (cell_final ftypes) (concat d) ->
    render_table off_utc off_local repr d = Some d' -> validate_rows off_utc true ftypes d' = inl d.
  Proof.
    induction d as [|r t IH]; intros d' RT FT R; cbn in R.
    - injection R as <-. reflexivity.
    - destruct (render_row _ _ _ r) as [r'|] eqn:E; [|discriminate]. destruct (render_table _ _ _ t) as [t'|] eqn:E2; [|discriminate].
      injection R as <-. inversion RT as [|? ? C RT']; subst. cbn in FT. apply Forall_app in FT as [F1 F2].
      cbn [validate_rows]. rewrite (validate_row_rt ftypes r r' C F1 E), (IH t' RT' F2 eq_refl). reflexivity.
  Qed.

  (* THE ROUND TRIP: reading the rendered cells gives the typed table back *)
  Theorem csv_roundtrip d d' : table_rt d -> render_table off_utc off_local repr d = Some d' ->
    exists types, validate_data off_utc true d' = VOk types d /\
                  forall f t, assoc f types = Some t -> t = ct f \/ t = TString.
  Proof.
    intros RT R. unfold validate_data.
    assert (I0 : Inv [] []) by (split; [intros f ot H; discriminate|constructor]).
    pose proof (inv_rows d d' [] [] I0 RT R) as [A B]. cbn [app] in B. fold (infer_types off_utc true d') in A, B.
    set (types := infer_types off_utc true d') in *.
    assert (FT : Forall (cell_final (final_types types)) (concat d)).
    { eapply Forall_impl; [|exact B]. intros [f v] H. unfold cell_final. cbn in *. rewrite final_types_assoc.
      destruct H as [H|[N H]]; rewrite H; cbn; auto. }
    rewrite (validate_rows_rt _ d d' RT FT R). eexists. split; [reflexivity|].
    intros f t H. rewrite final_types_assoc in H. destruct (assoc f types) as [o|] eqn:E; [|discriminate]. cbn in H. injection H as <-.
    destruct (A f o E) as [->| ->]; auto.
  Qed.

  (* ---- the cells *)
  Lemma cell_rt_null t : cell_rt t CNull.
  Proof.
    exists s_null. split; [reflexivity|]. split; [destruct t; reflexivity|]. split; [reflexivity|]. left. split; [reflexivity|left; reflexivity].
  Qed.

  Lemma infer_true_false : iso_parse off_utc s_true = None /\ iso_parse off_utc s_false = None.
  Proof. split; reflexivity. Qed.

  Lemma cell_rt_bool b : cell_rt TBoolean (CBool b).
  Proof.
    exists (if b then s_true else s_false). split; [reflexivity|]. split; [destruct b; reflexivity|].
    split; [intros [H|H]; discriminate|]. right. destruct b; reflexivity.
  Qed.

  (* strings: the guard — not 'null', and either empty or not read as a datetime / boolean / number *)
  Definition str_unambiguous (s : str) : bool :=
    negb (str_eqb s s_null) && (is_empty s || match infer s with Some TString => true | _ => false end).
  Lemma cell_rt_str s : str_unambiguous s = true -> cell_rt TString (CStr s).
  Proof.
    unfold str_unambiguous. intros H. apply andb_prop in H as [H1 H2]. apply Bool.negb_true_iff in H1.
    exists s. split; [reflexivity|]. split; [unfold validate_cell; cbn [andb]; rewrite H1; reflexivity|].
    split; [intros _; unfold validate_cell; cbn [andb]; rewrite H1; reflexivity|].
    destruct s as [|c s]; [left; split; [reflexivity|right; reflexivity]|]. cbn [is_empty orb] in H2.
    right. destruct (infer (c :: s)) as [[]|]; try discriminate. reflexivity.
  Qed.
  (* the guard is needed: a string cell that reads as a number comes back as a number, 'null' as null *)
  Lemma str_guard_needed :
    validate_data off_utc true [[(U "a", CStr (U "12"))]] = VOk [(U "a", TNumber)] [[(U "a", CNum (NFlt (Z_to_sf 12)))]] /\
    validate_data off_utc true [[(U "a", CStr (U "x"))]; [(U "a", CStr s_null)]] = VOk [(U "a", TString)] [[(U "a", CStr (U "x"))]; [(U "a", CNull)]].
  Proof. split; vm_compute; reflexivity. Qed.

  (* datetimes: whenever the ISO text parses back to the same wall clock (C16_iso_roundtrip_whole_ms gives the conditions) *)
  Lemma cell_rt_date w s : iso_format off_local off_utc w = DOk s -> iso_parse off_utc s = Some w -> cell_rt TDatetime (of_wall w).
  Proof.
    intros Hf Hp. exists s. unfold of_wall.
    assert (Hs : is_empty s = false /\ str_eqb s s_null = false).
    { split.
      - destruct s; [|reflexivity]. cbn in Hp. discriminate.
      - destruct (str_eqb s s_null) eqn:E; [|reflexivity]. apply str_eqb_eq in E. subst s. cbn in Hp. discriminate. }
    destruct Hs as [Hs1 Hs2].
    split; [unfold render_cell; replace (w + EPOCH_US - EPOCH_US) with w by lia; rewrite Hf; reflexivity|].
    split; [unfold validate_cell; cbn [andb]; rewrite Hs2, Hs1; unfold parse_datetime; rewrite Hp; reflexivity|].
    split; [intros [H|H]; discriminate|]. right. unfold infer_str. rewrite Hs1, Hs2. cbn [orb]. unfold parse_datetime. rewrite Hp. reflexivity.
  Qed.

  (* numbers: whenever the text reads back as the same float and is not date-shaped / true / false / null *)
  Lemma cell_rt_num f : let s := value_string_float (repr f) in
    parse_number s = Some f -> iso_parse off_utc s = None -> is_empty s = false ->
    str_eqb s s_null = false -> str_eqb s s_true = false -> str_eqb s s_false = false -> cell_rt TNumber (CNum (NFlt f)).
  Proof.
    intros s Hn Hd H0 H1 H2 H3. exists s. split; [reflexivity|].
    split; [unfold validate_cell; cbn [andb]; rewrite H1, H0, Hn; reflexivity|].
    split; [intros [H|H]; discriminate|]. right. unfold infer_str. rewrite H0, H1. cbn [orb]. unfold parse_datetime. rewrite Hd, H2, H3. cbn [orb].
    rewrite Hn. reflexivity.
  Qed.
End RoundTrip.

(* ---- date-like text *)
(* whatever value_parse_datetime rejects is never typed datetime and never aborts: it is typed string unless it reads as a boolean / number *)
Lemma datelike_is_string off_utc s : iso_parse off_utc s = None -> parse_number s = None ->
  is_empty s = false -> str_eqb s s_null = false -> str_eqb s s_true = false -> str_eqb s s_false = false ->
  infer_str off_utc s = Some TString.
Proof. intros H1 H2 H3 H4 H5 H6. unfold infer_str, parse_datetime. rewrite H3, H4, H1, H5, H6, H2. reflexivity. Qed.

Definition datelike_samples : list str :=
  [U "2024-02-30"; U "2024-13-01"; U "2023-02-29"; U "2024-00-10"; U "0000-01-01"; U "2024-01-01T24:00:00Z"; U "2024-01-01T23:60:00Z";
   U "2024-02-30T00:00:00Z"; U "2024-01-01T00:00:00+24:00"; U "2024-06-31"].
Lemma datelike_samples_string off_utc :
  forallb (fun s => match infer_str off_utc s with Some TString => true | _ => false end) datelike_samples = true.
Proof. vm_compute. reflexivity. Qed.
(* ... and a whole parse containing them goes through; in a column ALREADY typed datetime by an earlier valid date the same cell is a
   validation error, as any other non-date text would be (mixed column) *)
Lemma datelike_table off_utc :
  validate_data off_utc true [[(U "a", CStr (U "2024-02-30")); (U "b", CStr (U "1"))]; [(U "a", CStr (U "2024-02-28")); (U "b", CStr (U ""))]] =
    VOk [(U "a", TString); (U "b", TNumber)]
        [[(U "a", CStr (U "2024-02-30")); (U "b", CNum (NFlt (Z_to_sf 1)))]; [(U "a", CStr (U "2024-02-28")); (U "b", CNull)]] /\
  validate_data off_utc true [[(U "a", CStr (U "2024-02-28"))]; [(U "a", CStr (U "2024-02-30"))]] = VErr (U "a") TDatetime (CStr (U "2024-02-30")).
Proof. split; vm_compute; reflexivity. Qed.
