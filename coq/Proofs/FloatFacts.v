(* Proofs/FloatFacts.v — facts about the standard library's SpecFloat rounding at binary64, proved in Z only
   (no real numbers, hence no axioms):  what [shr] computes, the half-ulp bound of [binary_round_aux] /
   [binary_round] on the normal range, exactness on 53-bit mantissas, and a relative-error form on values
   scaled by 2^1074 ([sfZ]) in which an error analysis is linear integer arithmetic. *)
From Coq Require Import ZArith Lia Bool ZifyBool SpecFloat.
From BS Require Import Model.Base Model.Num.
Local Open Scope Z_scope.

(* ------------------------------------------------------------------ number of binary digits *)
Lemma digits2_pos_bounds p : 2 ^ (Zpos (digits2_pos p) - 1) <= Zpos p < 2 ^ Zpos (digits2_pos p).
Proof.
  induction p as [p IH|p IH|]; cbn [digits2_pos]; [| |cbn; lia].
  all: rewrite Pos2Z.inj_succ; replace (Z.succ (Zpos (digits2_pos p)) - 1) with (Zpos (digits2_pos p)) by lia;
    rewrite Z.pow_succ_r by lia;
    assert (E : 2 ^ Zpos (digits2_pos p) = 2 * 2 ^ (Zpos (digits2_pos p) - 1))
      by (rewrite <- Z.pow_succ_r by lia; f_equal; lia);
    lia.
Qed.

Lemma Zdigits2_bounds x : 0 < x -> 0 < Zdigits2 x /\ 2 ^ (Zdigits2 x - 1) <= x < 2 ^ Zdigits2 x.
Proof. destruct x as [|p|p]; try lia. intros _. cbn [Zdigits2]. split; [lia|apply digits2_pos_bounds]. Qed.

Lemma Zdigits2_le x k : 0 < x -> 0 <= k -> x < 2 ^ k -> Zdigits2 x <= k.
Proof.
  intros Hx Hk H. destruct (Zdigits2_bounds x Hx) as (Hd & Hl & _).
  destruct (Z_le_gt_dec (Zdigits2 x) k) as [L|G]; [exact L|].
  assert (2 ^ k <= 2 ^ (Zdigits2 x - 1)) by (apply Z.pow_le_mono_r; lia). lia.
Qed.

Lemma Zdigits2_ge x k : 0 <= k -> 2 ^ k <= x -> k + 1 <= Zdigits2 x.
Proof.
  intros Hk H. assert (Hx : 0 < x) by (assert (0 < 2 ^ k) by (apply Z.pow_pos_nonneg; lia); lia).
  destruct (Zdigits2_bounds x Hx) as (Hd & _ & Hu).
  destruct (Z_le_gt_dec (k + 1) (Zdigits2 x)) as [L|G]; [exact L|].
  assert (2 ^ Zdigits2 x <= 2 ^ k) by (apply Z.pow_le_mono_r; lia). lia.
Qed.

Lemma Zdigits2_unique x d : 0 < d -> 2 ^ (d - 1) <= x < 2 ^ d -> Zdigits2 x = d.
Proof.
  intros Hd [Hl Hu].
  assert (Hx : 0 < x) by (assert (0 < 2 ^ (d - 1)) by (apply Z.pow_pos_nonneg; lia); lia).
  pose proof (Zdigits2_le x d Hx ltac:(lia) Hu). pose proof (Zdigits2_ge x (d - 1) ltac:(lia) Hl). lia.
Qed.

(* ------------------------------------------------------------------ shifting right with round and sticky bits *)
Lemma shr_1_nonneg m r s : 0 <= m -> shr_1 (Build_shr_record m r s) = Build_shr_record (m / 2) (Z.odd m) (r || s).
Proof. intros H. rewrite <- Z.div2_div. destruct m as [|[p|p|]|p]; try reflexivity; lia. Qed.

(* the location of N/D between the integers N/D and N/D+1 *)
Definition loc_of (N D : Z) : location :=
  if N mod D =? 0 then loc_Exact else loc_Inexact (2 * (N mod D) ?= D).

(* [mrs] is the integer part of N/D with its round bit and sticky bit *)
Definition repr (N D : Z) (mrs : shr_record) : Prop :=
  shr_m mrs = N / D /\ shr_r mrs = (D <=? 2 * (N mod D)) /\
  shr_s mrs = negb ((N mod D =? 0) || (2 * (N mod D) =? D)).

Lemma repr_init N D : 0 <= N -> 0 < D -> repr N D (shr_record_of_loc (N / D) (loc_of N D)).
Proof.
  intros HN HD. unfold loc_of, repr. pose proof (Z.mod_pos_bound N D HD) as Hr. set (r := N mod D) in *.
  destruct (Z.eqb_spec r 0) as [E|E].
  - cbn [shr_record_of_loc shr_m shr_r shr_s]. repeat split; lia.
  - destruct (Z.compare_spec (2 * r) D); cbn [shr_record_of_loc shr_m shr_r shr_s]; repeat split; lia.
Qed.

Lemma repr_exact m : 0 <= m -> repr m 1 (Build_shr_record m false false).
Proof. intros H. unfold repr. cbn. rewrite Z.div_1_r, Z.mod_1_r. repeat split. Qed.

Lemma repr_step N D mrs : 0 <= N -> 0 < D -> repr N D mrs -> repr N (D * 2) (shr_1 mrs).
Proof.
  intros HN HD. destruct mrs as [m r s]. unfold repr. cbn [shr_m shr_r shr_s]. intros (Hm & Hr & Hs).
  assert (0 <= m) by (subst m; apply Z.div_pos; lia).
  rewrite shr_1_nonneg by assumption. cbn [shr_m shr_r shr_s].
  rewrite Z.rem_mul_r by lia. rewrite <- Z.div_div by lia. rewrite <- Hm.
  rewrite Zmod_odd. pose proof (Z.mod_pos_bound N D HD). set (q := N mod D) in *.
  destruct (Z.odd m); repeat split; lia.
Qed.

Lemma pow2_xI q : 0 <= q -> 2 ^ (2 * q + 1) = 2 * (2 ^ q * 2 ^ q).
Proof. intros H. replace (2 * q + 1) with (1 + q + q) by lia. rewrite !Z.pow_add_r by lia. lia. Qed.
Lemma pow2_xO q : 0 <= q -> 2 ^ (2 * q) = 2 ^ q * 2 ^ q.
Proof. intros H. replace (2 * q) with (q + q) by lia. rewrite !Z.pow_add_r by lia. lia. Qed.

Lemma iter_pos_repr N : 0 <= N -> forall p D mrs, 0 < D -> repr N D mrs ->
  repr N (D * 2 ^ Zpos p) (SpecFloat.iter_pos shr_1 p mrs).
Proof.
  intros HN. induction p as [p IH|p IH|]; intros D mrs HD R; cbn [SpecFloat.iter_pos].
  - assert (P : 0 < 2 ^ Zpos p) by (apply Z.pow_pos_nonneg; lia).
    rewrite (Pos2Z.inj_xI p), pow2_xI by lia.
    replace (D * (2 * (2 ^ Zpos p * 2 ^ Zpos p))) with (D * 2 * 2 ^ Zpos p * 2 ^ Zpos p) by lia.
    apply IH; [nia|]. apply IH; [lia|]. apply repr_step; auto.
  - assert (P : 0 < 2 ^ Zpos p) by (apply Z.pow_pos_nonneg; lia).
    rewrite (Pos2Z.inj_xO p), pow2_xO by lia.
    replace (D * (2 ^ Zpos p * 2 ^ Zpos p)) with (D * 2 ^ Zpos p * 2 ^ Zpos p) by lia.
    apply IH; [nia|]. apply IH; auto.
  - change (2 ^ 1) with 2. apply repr_step; auto.
Qed.

Lemma shr_repr N D mrs e n : 0 <= N -> 0 < D -> 0 <= n -> repr N D mrs ->
  exists mrs', shr mrs e n = (mrs', e + n) /\ repr N (D * 2 ^ n) mrs'.
Proof.
  intros HN HD Hn R. destruct n as [|p|p]; [| |lia]; cbn [shr].
  - exists mrs. rewrite Z.add_0_r, Z.mul_1_r. auto.
  - eexists. split; [reflexivity|]. apply iter_pos_repr; auto.
Qed.

Lemma rne_repr N D mrs : 0 <= N -> 0 < D -> repr N D mrs ->
  let m1 := round_nearest_even (shr_m mrs) (loc_of_shr_record mrs) in
  N / D <= m1 <= N / D + 1 /\ 2 * Z.abs (N - m1 * D) <= D.
Proof.
  intros HN HD. destruct mrs as [m r s]. unfold repr. cbn [shr_m shr_r shr_s]. intros (Hm & Hr & Hs).
  pose proof (Z.mod_pos_bound N D HD). pose proof (Z.div_mod N D ltac:(lia)) as E.
  set (q := N mod D) in *. rewrite <- Hm in *. clear Hm.
  destruct r, s; cbn [loc_of_shr_record round_nearest_even]; try destruct (Z.even m); split; lia.
Qed.

(* ------------------------------------------------------------------ binary_round_aux on the normal range *)
Lemma fexp_normal d : -1074 <= d - 53 -> fexp prec emax d = d - 53.
Proof. unfold fexp, emin, prec, emax. lia. Qed.

Lemma bra_phase2 (sx : bool) m1 e1 : 2 ^ 52 <= m1 <= 2 ^ 53 -> -1074 <= e1 -> e1 + 1 <= 971 ->
  (let '(mrs'', e'') := shr_fexp prec emax m1 e1 loc_Exact in
   match shr_m mrs'' with
   | Z0 => S754_zero sx
   | Zpos m => if Zle_bool e'' (emax - prec) then S754_finite sx m e'' else S754_infinity sx
   | _ => S754_nan
   end) = if m1 <? 2 ^ 53 then S754_finite sx (Z.to_pos m1) e1 else S754_finite sx (Z.to_pos (2 ^ 52)) (e1 + 1).
Proof.
  intros Hm He1 He2. unfold shr_fexp. destruct (Z.ltb_spec m1 (2 ^ 53)) as [L|G].
  - rewrite (Zdigits2_unique m1 53) by lia. rewrite fexp_normal by lia.
    replace (53 + e1 - 53 - e1) with 0 by lia. cbn [shr shr_record_of_loc shr_m].
    destruct m1 as [|p|p]; try lia. cbn [Z.to_pos].
    replace (Zle_bool e1 (emax - prec)) with true; [reflexivity|]. symmetry. apply Z.leb_le. unfold emax, prec. lia.
  - assert (m1 = 2 ^ 53) by lia. subst m1. change (Zdigits2 (2 ^ 53)) with 54. rewrite fexp_normal by lia.
    replace (54 + e1 - 53 - e1) with 1 by lia. cbn.
    replace (e1 + 1 <=? 971) with true; [reflexivity|]. symmetry. apply Z.leb_le. lia.
Qed.

(* the half-ulp bound, in units of 2^ex:  the exact value is N/D * 2^ex *)
Lemma bra_spec sx N D ex : 0 <= N -> 0 < D -> 53 <= Zdigits2 (N / D) ->
  let n := Zdigits2 (N / D) - 53 in
  -1074 <= ex + n -> ex + n + 1 <= 971 ->
  exists m e, binary_round_aux prec emax sx (N / D) ex (loc_of N D) = S754_finite sx m e /\
    2 ^ 52 <= Zpos m < 2 ^ 53 /\ ex + n <= e <= ex + n + 1 /\
    2 * Z.abs (N - Zpos m * 2 ^ (e - ex) * D) <= D * 2 ^ (e - ex).
Proof.
  intros HN HD Hdig n Hlo Hhi. unfold binary_round_aux.
  assert (Hq0 : 0 <= N / D) by (apply Z.div_pos; lia).
  assert (Hq : 0 < N / D) by (destruct (N / D); cbn in Hdig; lia).
  destruct (Zdigits2_bounds (N / D) Hq) as (_ & Bl & Bu). fold n in Bl, Bu.
  replace (Zdigits2 (N / D)) with (53 + n) in Bl, Bu by (unfold n; lia).
  assert (Hn : 0 <= n) by (unfold n; lia).
  assert (P : 0 < 2 ^ n) by (apply Z.pow_pos_nonneg; lia).
  unfold shr_fexp at 1. rewrite fexp_normal by (fold n; lia).
  replace (Zdigits2 (N / D) + ex - 53 - ex) with n by (unfold n; lia).
  destruct (shr_repr N D (shr_record_of_loc (N / D) (loc_of N D)) ex n HN HD Hn (repr_init N D HN HD)) as (mrs' & E1 & R1).
  rewrite E1.
  assert (HD' : 0 < D * 2 ^ n) by nia.
  destruct (rne_repr N (D * 2 ^ n) mrs' HN HD' R1) as (Hm1 & Hb).
  set (m1 := round_nearest_even (shr_m mrs') (loc_of_shr_record mrs')) in *.
  assert (Q : 2 ^ 52 <= N / (D * 2 ^ n) < 2 ^ 53).
  { rewrite <- Z.div_div by lia. split.
    - apply Z.div_le_lower_bound; [lia|]. replace (53 + n - 1) with (n + 52) in Bl by lia.
      rewrite Z.pow_add_r in Bl by lia. lia.
    - apply Z.div_lt_upper_bound; [lia|]. rewrite Z.pow_add_r in Bu by lia. lia. }
  rewrite (bra_phase2 sx m1 (ex + n)) by lia.
  destruct (Z.ltb_spec m1 (2 ^ 53)) as [L|G].
  - exists (Z.to_pos m1), (ex + n). rewrite Z2Pos.id by lia.
    replace (ex + n - ex) with n by lia. repeat split; try lia;
    replace (N - m1 * 2 ^ n * D) with (N - m1 * (D * 2 ^ n)) by lia; lia.
  - assert (m1 = 2 ^ 53) by lia. exists (Z.to_pos (2 ^ 52)), (ex + n + 1). rewrite Z2Pos.id by lia.
    replace (ex + n + 1 - ex) with (1 + n) by lia. rewrite Z.pow_add_r by lia. change (2 ^ 1) with 2.
    repeat split; try lia;
    replace (N - 2 ^ 52 * (2 * 2 ^ n) * D) with (N - m1 * (D * 2 ^ n)) by (subst m1; lia); lia.
Qed.

(* ------------------------------------------------------------------ values scaled by 2^1074 *)
(* |f| * 2^1074 : an integer for every binary64 number *)
Definition sfZ (f : flt) : Z := match f with S754_finite _ m e => Zpos m * 2 ^ (e + 1074) | _ => 0 end.

Lemma bra_scaled sx N D ex : 0 <= N -> 0 < D -> 53 <= Zdigits2 (N / D) -> -1074 <= ex ->
  let n := Zdigits2 (N / D) - 53 in
  ex + n + 1 <= 971 ->
  exists m e, binary_round_aux prec emax sx (N / D) ex (loc_of N D) = S754_finite sx m e /\
    2 ^ 52 <= Zpos m < 2 ^ 53 /\ ex + n <= e <= ex + n + 1 /\
    2 ^ 53 * Z.abs (N * 2 ^ (ex + 1074) - Zpos m * 2 ^ (e + 1074) * D) <= D * (Zpos m * 2 ^ (e + 1074)).
Proof.
  intros HN HD Hdig Hex n Hhi.
  destruct (bra_spec sx N D ex HN HD Hdig ltac:(fold n; lia) Hhi) as (m & e & E & Hm & He & Hb). fold n in He.
  exists m, e. repeat split; try tauto; try lia.
  set (T := 2 ^ (ex + 1074)). set (K := 2 ^ (e - ex)) in *.
  assert (PT : 0 < T) by (apply Z.pow_pos_nonneg; lia).
  assert (PK : 0 < K) by (apply Z.pow_pos_nonneg; lia).
  replace (2 ^ (e + 1074)) with (K * T) by (unfold K, T; rewrite <- Z.pow_add_r by lia; f_equal; lia).
  replace (N * T - Z.pos m * (K * T) * D) with ((N - Z.pos m * K * D) * T) by ring.
  rewrite Z.abs_mul, (Z.abs_eq T) by lia.
  set (X := Z.abs (N - Z.pos m * K * D)) in *.
  assert (H1 : 2 * X * T <= D * K * T) by (apply Z.mul_le_mono_nonneg_r; lia).
  apply Z.le_trans with (D * (2 ^ 52 * (K * T))); [lia|].
  apply Z.mul_le_mono_nonneg_l; [lia|]. apply Z.mul_le_mono_nonneg_r; nia.
Qed.

Lemma loc_of_1 N : loc_of N 1 = loc_Exact.
Proof. unfold loc_of. rewrite Z.mod_1_r. reflexivity. Qed.

(* an integer mantissa (location exact): the exact value is mx * 2^ex *)
Lemma bra_scaled_int sx mx ex : 53 <= Zdigits2 mx -> 0 <= mx -> -1074 <= ex ->
  let n := Zdigits2 mx - 53 in
  ex + n + 1 <= 971 ->
  exists m e, binary_round_aux prec emax sx mx ex loc_Exact = S754_finite sx m e /\
    2 ^ 52 <= Zpos m < 2 ^ 53 /\ ex + n <= e <= ex + n + 1 /\
    2 ^ 53 * Z.abs (mx * 2 ^ (ex + 1074) - Zpos m * 2 ^ (e + 1074)) <= Zpos m * 2 ^ (e + 1074).
Proof.
  intros Hdig Hmx Hex n Hhi.
  pose proof (bra_scaled sx mx 1 ex Hmx ltac:(lia)) as H. rewrite Z.div_1_r, loc_of_1 in H.
  destruct (H Hdig Hex Hhi) as (m & e & E & Hm & He & Hb). exists m, e. repeat split; try tauto; try lia.
Qed.

(* a 53-bit mantissa is not rounded at all *)
Lemma bra_exact sx p ex : Zdigits2 (Zpos p) = 53 -> -1074 <= ex <= 971 ->
  binary_round_aux prec emax sx (Zpos p) ex loc_Exact = S754_finite sx p ex.
Proof.
  intros Hd He. unfold binary_round_aux, shr_fexp. rewrite Hd, fexp_normal by lia.
  replace (53 + ex - 53 - ex) with 0 by lia. cbn [shr shr_record_of_loc shr_m loc_of_shr_record round_nearest_even].
  rewrite Hd, fexp_normal by lia. replace (53 + ex - 53 - ex) with 0 by lia. cbn [shr shr_m].
  replace (Zle_bool ex (emax - prec)) with true; [reflexivity|]. symmetry. apply Z.leb_le. unfold emax, prec. lia.
Qed.

(* ------------------------------------------------------------------ binary_round / binary_normalize *)
Lemma shift_pos_pow k p : Zpos (shift_pos k p) = Zpos p * 2 ^ Zpos k.
Proof. rewrite shift_pos_correct. change (Zpower_pos 2 k) with (2 ^ Zpos k). lia. Qed.

Lemma shl_align_le p ex ez : ez <= ex -> Zpos (fst (shl_align p ex ez)) = Zpos p * 2 ^ (ex - ez).
Proof.
  intros H. unfold shl_align. destruct (ez - ex) as [|k|k] eqn:E; cbn [fst]; try lia.
  - replace (ex - ez) with 0 by lia. lia.
  - rewrite shift_pos_pow. f_equal. f_equal. lia.
Qed.

(* fewer than 54 bits: the mantissa is only shifted left *)
Lemma br_exact sx p ex : let d := Zpos (digits2_pos p) in
  d <= 53 -> -1074 <= d + ex - 53 <= 971 ->
  binary_round prec emax sx p ex = S754_finite sx (Z.to_pos (Zpos p * 2 ^ (53 - d))) (d + ex - 53).
Proof.
  intros d Hd He. unfold binary_round. fold d. rewrite fexp_normal by lia. unfold shl_align.
  pose proof (digits2_pos_bounds p) as B. fold d in B.
  destruct (d + ex - 53 - ex) as [|k|k] eqn:E; try lia.
  - assert (d = 53) by lia. replace (53 - d) with 0 by lia. rewrite Z.mul_1_r. cbn [Z.to_pos].
    replace (d + ex - 53) with ex by lia. apply bra_exact; [cbn [Zdigits2]; fold d; lia|lia].
  - assert (Hk : Zpos k = 53 - d) by lia. rewrite <- Hk, <- shift_pos_pow. cbn [Z.to_pos].
    apply bra_exact; [|lia]. apply Zdigits2_unique; [lia|]. rewrite shift_pos_pow, Hk.
    assert (P : 0 < 2 ^ (53 - d)) by (apply Z.pow_pos_nonneg; lia).
    replace (2 ^ (53 - 1)) with (2 ^ (d - 1) * 2 ^ (53 - d)) by (rewrite <- Z.pow_add_r by lia; f_equal; lia).
    replace (2 ^ 53) with (2 ^ d * 2 ^ (53 - d)) by (rewrite <- Z.pow_add_r by lia; f_equal; lia).
    split; [apply Z.mul_le_mono_nonneg_r; lia|apply Z.mul_lt_mono_pos_r; lia].
Qed.

Lemma br_scaled sx p ex : let d := Zpos (digits2_pos p) in
  -1074 <= ex -> -1074 <= d + ex - 53 -> d + ex - 52 <= 971 ->
  exists m e, binary_round prec emax sx p ex = S754_finite sx m e /\
    2 ^ 52 <= Zpos m < 2 ^ 53 /\ d + ex - 53 <= e <= d + ex - 52 /\
    2 ^ 53 * Z.abs (Zpos p * 2 ^ (ex + 1074) - Zpos m * 2 ^ (e + 1074)) <= Zpos m * 2 ^ (e + 1074).
Proof.
  intros d Hex Hlo Hhi. pose proof (digits2_pos_bounds p) as B. fold d in B.
  destruct (Z_le_gt_dec d 53) as [L|G].
  - rewrite (br_exact sx p ex) by (fold d; lia). fold d.
    assert (P : 0 < 2 ^ (53 - d)) by (apply Z.pow_pos_nonneg; lia).
    exists (Z.to_pos (Zpos p * 2 ^ (53 - d))), (d + ex - 53). rewrite Z2Pos.id by lia.
    assert (V : Zpos p * 2 ^ (53 - d) * 2 ^ (d + ex - 53 + 1074) = Zpos p * 2 ^ (ex + 1074)).
    { rewrite <- Z.mul_assoc, <- Z.pow_add_r by lia. do 2 f_equal. lia. }
    rewrite V, Z.sub_diag. cbn [Z.abs].
    assert (0 < 2 ^ (ex + 1074)) by (apply Z.pow_pos_nonneg; lia).
    repeat split; try lia.
    + replace (2 ^ 52) with (2 ^ (d - 1) * 2 ^ (53 - d)) by (rewrite <- Z.pow_add_r by lia; f_equal; lia).
      apply Z.mul_le_mono_nonneg_r; lia.
    + replace (2 ^ 53) with (2 ^ d * 2 ^ (53 - d)) by (rewrite <- Z.pow_add_r by lia; f_equal; lia).
      apply Z.mul_lt_mono_pos_r; lia.
  - unfold binary_round. fold d. rewrite fexp_normal by lia. unfold shl_align.
    destruct (d + ex - 53 - ex) as [|k|k] eqn:E; try lia.
    destruct (bra_scaled_int sx (Zpos p) ex) as (m & e & E1 & Hm & He & Hb);
      cbn [Zdigits2]; fold d; try lia.
    exists m, e. cbn [Zdigits2] in He. fold d in He. repeat split; try tauto; try lia.
Qed.

(* ------------------------------------------------------------------ the integer part *)
Lemma trunc_scaled m e : -1074 <= e ->
  (if 0 <=? e then Zpos m * 2 ^ e else Zpos m / 2 ^ (- e)) = (Zpos m * 2 ^ (e + 1074)) / 2 ^ 1074.
Proof.
  intros He. destruct (Z.leb_spec 0 e) as [L|L].
  - rewrite Z.pow_add_r by lia. rewrite Z.mul_assoc. symmetry. apply Z.div_mul.
    apply Z.pow_nonzero; lia.
  - assert (P1 : 0 < 2 ^ (e + 1074)) by (apply Z.pow_pos_nonneg; lia).
    assert (P2 : 0 < 2 ^ (- e)) by (apply Z.pow_pos_nonneg; lia).
    replace (2 ^ 1074) with (2 ^ (- e) * 2 ^ (e + 1074)) by (rewrite <- Z.pow_add_r by lia; f_equal; lia).
    rewrite Z.div_mul_cancel_r by lia. reflexivity.
Qed.
