(* Proofs/C01forN.v — NESTED for loops and sequences around them.  Extends Proofs/C01for.v (one loop over an [sstmt] body) to
   the statement language

       fstmt ::= FS s                          any statement tree s of Proofs/C01.v (if / elif / else, while, break, continue, ...)
               | FSeq a b                      sequencing
               | FFor vals len idx x e body    for x[, idx] in e: body endfor   with body an fstmt (so for-in-for, to any depth)

   (vals / len / idx are the names of the loop's three bookkeeping variables: the structured reading records them in the scope, as
   the implementation does; for the parser's lowering they are __bareScriptValues<n>, __bareScriptLength<n> and the source's index
   name or __bareScriptIndex<n>, n the loop's label index.)  `break` / `continue` inside a loop body (outside any while) bind to
   the innermost enclosing for.  NOT in this language: a `for` inside an if branch or inside a while body (that needs `for` inside
   [sstmt] itself).

   [gcompile]: the lowering (C01's [compile] on the FS leaves; [for_code] = the statement list of Proofs/C01for.v around the
   compiled body).  [GExec]/[GLoop]: the structured big-step reading (rules of Proofs/C01for.v, with the body an fstmt).
   [gsim]: the simulation, same shape as C01's [sim]; [gexec]/[gexec_sound]: executable reading.
   Premises and definedness side conditions: as in Proofs/C01for.v, per loop. *)
From Coq Require Import Lia List Bool ZArith.
From BS Require Import Model.Base Model.Num Model.Arith Model.ExprParser Model.Script Model.Interp
                       Proofs.BaseFacts Proofs.InterpEq Proofs.Fuel Proofs.C08 Proofs.C01 Proofs.C01b Proofs.Blind Proofs.C01for.
Import ListNotations.

Inductive fstmt :=
| FS (s : sstmt)
| FSeq (a b : fstmt)
| FFor (vals len idx x : str) (e : expr) (body : fstmt).

(* a `continue` that binds to the enclosing loop *)
Fixpoint ghas_cont (f : fstmt) : bool :=
  match f with FS s => has_cont s | FSeq a b => ghas_cont a || ghas_cont b | FFor _ _ _ _ _ _ => false end.
Fixpoint gwf (inloop : bool) (f : fstmt) : bool :=
  match f with
  | FS s => wf inloop s
  | FSeq a b => gwf inloop a && gwf inloop b
  | FFor vals len idx _ _ body => names_okb vals len idx && gwf true body
  end.
Fixpoint gguard (f : fstmt) : bool :=
  match f with FS s => guard s | FSeq a b => gguard a && gguard b | FFor _ _ _ _ _ body => gguard body end.

Definition IterPre (arr i : nat) (st : sstate) (v : value) : Prop :=
  exists elems, is_lib ARRGET st /\ nth_error (w_arrs (snd st)) arr = Some elems /\ nth_error elems i = Some v.

Section ForN.
Variable cfg : config.
Hypothesis Hunl : c_max cfg = 0%Z.
Variable lib : caller -> str -> list value -> world -> lres * world.
Variable url_rel : str -> str -> str.
Variable lint_lines : script -> list str.
Hypothesis Hlib : lib_fuel_monotone lib.
Variable um : umode.
Variable lab : lkind -> nat -> str.
Variable labc : nat -> str.

Notation Ev := (Ev cfg lib url_rel lint_lines um).
Notation Run := (Run cfg lib url_rel lint_lines um).
Notation SExec := (SExec cfg lib url_rel lint_lines um).
Notation compile := (compile lab).
Notation post := (post cfg lib url_rel lint_lines um).
Notation eval := (eval cfg lib url_rel lint_lines).
Notation sexec := (sexec cfg lib url_rel lint_lines um).

Ltac run_at H := match type of H with C01.Run _ _ _ _ _ ?code ?p ?l ?w ?r =>
  match goal with |- C01.Run _ _ _ _ _ code ?q l w r => replace q with p by lia; exact H end end.
Ltac nth_at H := match type of H with nth_error ?code ?p = ?x =>
  match goal with |- nth_error code ?q = x => replace q with p by lia; exact H end end.

(* ---------------------------------------------------------------- the lowering *)
Definition for_code (n : nat) (vals len idx x : str) (e : expr) (cb : list stmt) (hc : bool) : list stmt :=
  [SExpr (Some vals) e;
   SExpr (Some len) (ECall ARRLEN [EVar vals]);
   SJump (lab KDone n) (Some (e_not (EVar len)));
   SExpr (Some idx) (ENum (NInt 0));
   SLabel (lab KLoop n);
   SExpr (Some x) (ECall ARRGET [EVar vals; EVar idx])]
  ++ cb ++
  (if hc then [SLabel (labc n)] else []) ++
  [SExpr (Some idx) (EBin (U "+") (EVar idx) (ENum (NInt 1)));
   SJump (lab KLoop n) (Some (EBin (U "<") (EVar idx) (EVar len)));
   SLabel (lab KDone n)].

Fixpoint gcompile (ctx : option (str * str)) (n : nat) (f : fstmt) : list stmt * nat :=
  match f with
  | FS s => compile ctx n s
  | FSeq a b => let '(ca, n1) := gcompile ctx n a in let '(cb, n2) := gcompile ctx n1 b in (ca ++ cb, n2)
  | FFor vals len idx x e body =>
    let '(cb, n1) := gcompile (Some (lab KDone n, labc n)) (S n) body in
    (for_code n vals len idx x e cb (ghas_cont body), n1)
  end.

(* one loop over an [sstmt] body: exactly Proofs/C01for.v compile_for *)
Lemma gcompile_single vals len idx x e b n ctx :
  gcompile ctx n (FFor vals len idx x e (FS b)) = compile_for lab labc vals len idx x e b n.
Proof. reflexivity. Qed.

(* ---------------------------------------------------------------- the structured reading *)
Inductive GExec : fstmt -> sstate -> sout -> sstate -> Prop :=
| G_S s st o st' : SExec s st o st' -> GExec (FS s) st o st'
| G_SeqN a b st st1 o st2 : GExec a st SNormal st1 -> GExec b st1 o st2 -> GExec (FSeq a b) st o st2
| G_SeqA a b st o st1 : GExec a st o st1 -> o <> SNormal -> GExec (FSeq a b) st o st1
| G_ForStop vals len idx x e body loc w o w1 : Ev e loc w o w1 -> is_val o = false ->
    GExec (FFor vals len idx x e body) (loc, w) (SStop o) (loc, w1)
| G_ForEmpty vals len idx x e body loc w l w1 : Ev e loc w (OVal (VArr l)) w1 -> nth_error (w_arrs w1) l = Some [] ->
    is_lib ARRLEN (assign' vals (VArr l) (loc, w1)) ->
    GExec (FFor vals len idx x e body) (loc, w) SNormal (assign' len (int_v 0) (assign' vals (VArr l) (loc, w1)))
| G_ForLoop vals len idx x e body loc w l w1 elems o st' :
    Ev e loc w (OVal (VArr l)) w1 -> nth_error (w_arrs w1) l = Some elems -> elems <> [] ->
    is_lib ARRLEN (assign' vals (VArr l) (loc, w1)) ->
    GLoop vals len idx x body l (length elems) 0
          (assign' idx (int_v 0) (assign' len (int_v (length elems)) (assign' vals (VArr l) (loc, w1)))) o st' ->
    GExec (FFor vals len idx x e body) (loc, w) o st'
with GLoop : str -> str -> str -> str -> fstmt -> nat -> nat -> nat -> sstate -> sout -> sstate -> Prop :=
| GL_stop vals len idx x body arr m i st v out st_b : IterPre arr i st v -> GExec body (assign' x v st) (SStop out) st_b ->
    GLoop vals len idx x body arr m i st (SStop out) st_b
| GL_break vals len idx x body arr m i st v st_b : IterPre arr i st v -> GExec body (assign' x v st) SBreak st_b ->
    GLoop vals len idx x body arr m i st SNormal st_b
| GL_next vals len idx x body arr m i st v ob st_b o st' : IterPre arr i st v -> GExec body (assign' x v st) ob st_b ->
    (ob = SNormal \/ ob = SContinue) -> Inv3 vals len idx arr m i st_b -> S i < m ->
    GLoop vals len idx x body arr m (S i) (assign' idx (int_v (S i)) st_b) o st' ->
    GLoop vals len idx x body arr m i st o st'
| GL_last vals len idx x body arr m i st v ob st_b : IterPre arr i st v -> GExec body (assign' x v st) ob st_b ->
    (ob = SNormal \/ ob = SContinue) -> Inv3 vals len idx arr m i st_b -> m <= S i ->
    GLoop vals len idx x body arr m i st SNormal (assign' idx (int_v (S i)) st_b).

Scheme GExec_mut := Minimality for GExec Sort Prop
  with GLoop_mut := Minimality for GLoop Sort Prop.
Combined Scheme G_both from GExec_mut, GLoop_mut.

(* one loop over an [sstmt] body: the reading of Proofs/C01for.v *)
Lemma FLoop_GLoop vals len idx x b l m : forall i st o st',
  FLoop cfg lib url_rel lint_lines um vals len idx x b l m i st o st' -> GLoop vals len idx x (FS b) l m i st o st'.
Proof.
  induction 1 as [i st out st_b (el & v & H1 & H2 & H3 & H4)|i st st_b (el & v & H1 & H2 & H3 & H4)
                  |i st ob st_b o st' (el & v & H1 & H2 & H3 & H4) Ho HI Hlt _ IH|i st ob st_b (el & v & H1 & H2 & H3 & H4) Ho HI Hge].
  - eapply GL_stop; [exists el; eauto|apply G_S; exact H4].
  - eapply GL_break; [exists el; eauto|apply G_S; exact H4].
  - eapply GL_next; [exists el; eauto|apply G_S; exact H4|exact Ho|exact HI|exact Hlt|exact IH].
  - eapply GL_last; [exists el; eauto|apply G_S; exact H4|exact Ho|exact HI|exact Hge].
Qed.
Lemma FExec_GExec vals len idx x e b st o st' :
  FExec cfg lib url_rel lint_lines um vals len idx x e b st o st' -> GExec (FFor vals len idx x e (FS b)) st o st'.
Proof.
  intros [loc w o' w1 He Hv|loc w l w1 He Ha Hf|loc w l w1 elems o' st2 He Ha Hne Hf Hl].
  - apply G_ForStop; assumption.
  - apply G_ForEmpty; assumption.
  - eapply G_ForLoop; eauto. apply FLoop_GLoop. exact Hl.
Qed.

(* ---------------------------------------------------------------- facts about `continue` *)
Lemma ghas_cont_sound :
  (forall f st o st', GExec f st o st' -> ghas_cont f = false -> o <> SContinue) /\
  (forall vals len idx x body arr m i st o st', GLoop vals len idx x body arr m i st o st' -> o <> SContinue).
Proof.
  apply G_both; intros; cbn [ghas_cont] in *; try discriminate; auto;
    repeat match goal with H : (_ || _)%bool = false |- _ => apply orb_false_elim in H; destruct H end; auto.
  eapply has_cont_sound; eassumption.
Qed.

Lemma gcompile_cont_irrel : forall f, ghas_cont f = false ->
  forall d c1 c2 n, gcompile (Some (d, c1)) n f = gcompile (Some (d, c2)) n f.
Proof.
  induction f as [s|a IHa b IHb|vals len idx x e body _]; cbn [ghas_cont]; intros H d c1 c2 n.
  - cbn [gcompile]. apply compile_cont_irrel. exact H.
  - apply orb_false_elim in H. destruct H as [Ha Hb]. cbn [gcompile]. rewrite (IHa Ha d c1 c2 n).
    destruct (gcompile (Some (d, c2)) n a) as [ca n1]. rewrite (IHb Hb d c1 c2 n1). reflexivity.
  - reflexivity.
Qed.

(* PREMISES on the library *)
Hypothesis Ev_blind : forall e loc w o w' wm, Ev e loc w o w' -> weq w wm -> exists wm', Ev e loc wm o wm' /\ weq w' wm'.
Hypothesis Hlen : arrayLength_contract lib.
Hypothesis Hget : arrayGet_contract lib.

(* ---------------------------------------------------------------- one loop over a fixed layout, the body's code abstract *)
Section Layout.
Variables (vals len idx x : str) (e : expr).
Hypothesis Hnames : names_okb vals len idx = true.
Variables (code : list stmt) (pc n L c : nat) (hc : bool).
Hypothesis HN : NoDup (labels code).
Hypothesis Hc : c = if hc then 1 else 0.
Hypothesis P0 : nth_error code pc = Some (SExpr (Some vals) e).
Hypothesis P1 : nth_error code (pc + 1) = Some (SExpr (Some len) (ECall ARRLEN [EVar vals])).
Hypothesis P2 : nth_error code (pc + 2) = Some (SJump (lab KDone n) (Some (e_not (EVar len)))).
Hypothesis P3 : nth_error code (pc + 3) = Some (SExpr (Some idx) (ENum (NInt 0))).
Hypothesis P4 : nth_error code (pc + 4) = Some (SLabel (lab KLoop n)).
Hypothesis P5 : nth_error code (pc + 5) = Some (SExpr (Some x) (ECall ARRGET [EVar vals; EVar idx])).
Hypothesis Pc : hc = true -> nth_error code (pc + 6 + L) = Some (SLabel (labc n)).
Hypothesis P6 : nth_error code (pc + 6 + L + c) = Some (SExpr (Some idx) (EBin (U "+") (EVar idx) (ENum (NInt 1)))).
Hypothesis P7 : nth_error code (pc + 7 + L + c) = Some (SJump (lab KLoop n) (Some (EBin (U "<") (EVar idx) (EVar len)))).
Hypothesis P8 : nth_error code (pc + 8 + L + c) = Some (SLabel (lab KDone n)).

Local Notation bpos := (Some (pc + 8 + L + c, if hc then pc + 6 + L else pc + 8 + L + c)).

(* the body's simulation, for one execution of the body *)
Definition BodySim (st_a : sstate) (ob : sout) (st_b : sstate) : Prop :=
  forall wm, weq (snd st_a) wm ->
  exists wm_b, weq (snd st_b) wm_b /\ post code bpos (pc + 6 + L) ob (fst st_b) wm_b (pc + 6) (fst st_a) wm.

Lemma iter_g arr m i st v ob st_b wm : IterPre arr i st v -> BodySim (assign' x v st) ob st_b ->
  Inv3 vals len idx arr m i st -> weq (snd st) wm ->
  exists wm_b, weq (snd st_b) wm_b /\ post code bpos (pc + 6 + L) ob (fst st_b) wm_b (pc + 5) (fst st) wm.
Proof.
  intros (elems & Hfn & Harr & Hel) HB (Iv & Il & Ii) Hw.
  assert (He : Ev (ECall ARRGET [EVar vals; EVar idx]) (fst st) (tick wm) (OVal v) (tick wm)).
  { apply (Ev_call cfg lib url_rel lint_lines um ARRGET [vals; idx]); [reflexivity| |].
    - rewrite <- (lookup_fn_weq _ _ _ _ _ (C01.weq_tick _ _ Hw)). exact Hfn.
    - intros cb0. cbn [map]. rewrite !(slook_weq _ _ _ Hw). rewrite Iv, Ii. apply Hget with (elems := elems); [|exact Hel].
      rewrite <- (arrs_weq _ _ (C01.weq_tick _ _ Hw)). exact Harr. }
  destruct (step_assign cfg Hunl lib url_rel lint_lines Hlib um code (pc + 5) x _ st wm v P5 Hw He) as (wm_a & Hwa & Hra).
  destruct (HB wm_a Hwa) as (wm_b & Hwb & Hp).
  exists wm_b. split; [exact Hwb|]. eapply post_pre; [|exact Hp]. intros r Hr. apply Hra. run_at Hr.
Qed.

Lemma to_inc_g ob loc_b wm_b p l0 w0 : (ob = SNormal \/ ob = SContinue) -> (ob = SContinue -> hc = true) ->
  post code bpos (pc + 6 + L) ob loc_b wm_b p l0 w0 ->
  exists wm2, weq wm_b wm2 /\ forall r, Run code (pc + 6 + L + c) loc_b wm2 r -> Run code p l0 w0 r.
Proof.
  intros Ho Hhc Hp. pose proof Hc as Hc'. destruct Ho as [-> | ->]; cbn [C01.post] in Hp.
  - destruct hc eqn:E.
    + exists (tick wm_b). split; [apply C01.weq_tick; apply weq_refl|]. intros r Hr. apply Hp.
      eapply (run_label cfg Hunl); [apply Pc; reflexivity|]. run_at Hr.
    + exists wm_b. split; [apply weq_refl|]. intros r Hr. apply Hp. run_at Hr.
  - rewrite (Hhc eq_refl) in *. exists wm_b. split; [apply weq_refl|]. intros r Hr. apply Hp. run_at Hr.
Qed.

Lemma advance_g arr m i st_b wm_b : Inv3 vals len idx arr m i st_b -> weq (snd st_b) wm_b ->
  exists wm_c, weq (snd (assign' idx (int_v (S i)) st_b)) wm_c /\
    forall r, Run code (if S i <? m then pc + 5 else pc + 8 + L + c) (fst (assign' idx (int_v (S i)) st_b)) wm_c r ->
              Run code (pc + 6 + L + c) (fst st_b) wm_b r.
Proof.
  intros HI Hw. pose proof (Inv3_next _ _ _ Hnames _ _ _ _ HI) as (_ & Ilc & Ic). destruct HI as (Iv & Il & Ii).
  assert (He : Ev (EBin (U "+") (EVar idx) (ENum (NInt 1))) (fst st_b) (tick wm_b) (OVal (int_v (S i))) (tick wm_b)).
  { apply Ev_inc. rewrite (slook_weq _ _ _ Hw). exact Ii. }
  destruct (step_assign cfg Hunl lib url_rel lint_lines Hlib um code (pc + 6 + L + c) idx _ st_b wm_b _ P6 Hw He) as (wm1 & Hw1 & Hr1).
  set (st_c := assign' idx (int_v (S i)) st_b) in *.
  assert (Hlt : Ev (EBin (U "<") (EVar idx) (EVar len)) (fst st_c) (tick wm1) (OVal (VBool (Z.of_nat (S i) <? Z.of_nat m)%Z)) (tick wm1)).
  { apply Ev_lt; rewrite (slook_weq _ _ _ Hw1); assumption. }
  exists (tick wm1). split; [apply C01.weq_tick; exact Hw1|]. intros r Hr. apply Hr1.
  replace (S (pc + 6 + L + c)) with (pc + 7 + L + c) by lia.
  eapply (run_jumpif cfg Hunl lib url_rel lint_lines Hlib um); [exact P7|exact Hlt|]. cbn [truthy].
  destruct (S i <? m) eqn:E.
  - apply Nat.ltb_lt in E. replace (Z.of_nat (S i) <? Z.of_nat m)%Z with true by (symmetry; apply Z.ltb_lt; lia).
    exists (pc + 4). split; [apply find_unique; [exact HN|exact P4]|]. run_at Hr.
  - apply Nat.ltb_ge in E. replace (Z.of_nat (S i) <? Z.of_nat m)%Z with false by (symmetry; apply Z.ltb_ge; lia).
    run_at Hr.
Qed.

Variable cpos : option (nat * nat).

(* what the loop from iteration i on does on the machine *)
Definition LoopSim (arr m i : nat) (st : sstate) (o : sout) (st' : sstate) : Prop :=
  Inv3 vals len idx arr m i st -> forall wm, weq (snd st) wm ->
  exists wm', weq (snd st') wm' /\ post code cpos (pc + 9 + L + c) o (fst st') wm' (pc + 5) (fst st) wm.

Lemma loop_stop arr m i st v out st_b : IterPre arr i st v -> BodySim (assign' x v st) (SStop out) st_b ->
  LoopSim arr m i st (SStop out) st_b.
Proof.
  intros Hit HB HI0 wm Hw. destruct (iter_g _ _ _ _ _ _ _ _ Hit HB HI0 Hw) as (wm_b & Hwb & Hp).
  exists wm_b. split; [exact Hwb|exact Hp].
Qed.
Lemma loop_break arr m i st v st_b : IterPre arr i st v -> BodySim (assign' x v st) SBreak st_b ->
  LoopSim arr m i st SNormal st_b.
Proof.
  intros Hit HB HI0 wm Hw. destruct (iter_g _ _ _ _ _ _ _ _ Hit HB HI0 Hw) as (wm_b & Hwb & Hp).
  exists wm_b. split; [exact Hwb|]. cbn [C01.post] in *. intros r Hr. apply Hp. run_at Hr.
Qed.
Lemma loop_next arr m i st v ob st_b o st' : IterPre arr i st v -> BodySim (assign' x v st) ob st_b ->
  (ob = SNormal \/ ob = SContinue) -> (ob = SContinue -> hc = true) -> Inv3 vals len idx arr m i st_b -> S i < m ->
  LoopSim arr m (S i) (assign' idx (int_v (S i)) st_b) o st' -> LoopSim arr m i st o st'.
Proof.
  intros Hit HB Ho Hhc HI Hlt IH HI0 wm Hw. destruct (iter_g _ _ _ _ _ _ _ _ Hit HB HI0 Hw) as (wm_b & Hwb & Hp).
  destruct (to_inc_g _ _ _ _ _ _ Ho Hhc Hp) as (wm2 & Hw2 & Hr2).
  destruct (advance_g _ _ _ _ wm2 HI (weq_trans _ _ _ Hwb Hw2)) as (wm_c & Hwc & Hrc).
  apply Nat.ltb_lt in Hlt. rewrite Hlt in Hrc.
  destruct (IH (Inv3_next _ _ _ Hnames _ _ _ _ HI) wm_c Hwc) as (wm' & Hw' & Hp'). exists wm'. split; [exact Hw'|].
  eapply post_pre; [|exact Hp']. intros r Hr. apply Hr2. apply Hrc. exact Hr.
Qed.
Lemma loop_last arr m i st v ob st_b : IterPre arr i st v -> BodySim (assign' x v st) ob st_b ->
  (ob = SNormal \/ ob = SContinue) -> (ob = SContinue -> hc = true) -> Inv3 vals len idx arr m i st_b -> m <= S i ->
  LoopSim arr m i st SNormal (assign' idx (int_v (S i)) st_b).
Proof.
  intros Hit HB Ho Hhc HI Hge HI0 wm Hw. destruct (iter_g _ _ _ _ _ _ _ _ Hit HB HI0 Hw) as (wm_b & Hwb & Hp).
  destruct (to_inc_g _ _ _ _ _ _ Ho Hhc Hp) as (wm2 & Hw2 & Hr2).
  destruct (advance_g _ _ _ _ wm2 HI (weq_trans _ _ _ Hwb Hw2)) as (wm_c & Hwc & Hrc).
  apply Nat.ltb_ge in Hge. rewrite Hge in Hrc.
  exists (tick wm_c). split; [apply C01.weq_tick; exact Hwc|]. cbn [C01.post]. intros r Hr. apply Hr2. apply Hrc.
  eapply (run_label cfg Hunl); [exact P8|]. run_at Hr.
Qed.

(* the header, then the loop *)
Lemma head_stop loc w o w1 wm : Ev e loc w o w1 -> is_val o = false -> weq w wm ->
  exists wm', weq w1 wm' /\ Run code pc loc wm (o, loc, wm').
Proof.
  intros He Hv Hw. destruct (Ev_blind _ _ _ _ _ (tick wm) He (C01.weq_tick _ _ Hw)) as (wm1 & He1 & Hw1).
  exists wm1. split; [exact Hw1|]. eapply (run_expr_stop cfg Hunl); eassumption.
Qed.

Lemma head_g loc w l w1 elems wm : Ev e loc w (OVal (VArr l)) w1 -> nth_error (w_arrs w1) l = Some elems ->
  is_lib ARRLEN (assign' vals (VArr l) (loc, w1)) -> weq w wm ->
  exists wm2, weq (snd (assign' len (int_v (length elems)) (assign' vals (VArr l) (loc, w1)))) wm2 /\
    forall r, Run code (pc + 2) (fst (assign' len (int_v (length elems)) (assign' vals (VArr l) (loc, w1)))) wm2 r -> Run code pc loc wm r.
Proof.
  exact (header cfg Hunl lib url_rel lint_lines Hlib um lab labc Ev_blind Hlen vals len idx e TSkip Hnames code pc n 0 0 eq_refl eq_refl P0 P1
           loc w l w1 elems wm).
Qed.

Lemma head_empty loc w l w1 wm : Ev e loc w (OVal (VArr l)) w1 -> nth_error (w_arrs w1) l = Some [] ->
  is_lib ARRLEN (assign' vals (VArr l) (loc, w1)) -> weq w wm ->
  exists wm', weq (snd (assign' len (int_v 0) (assign' vals (VArr l) (loc, w1)))) wm' /\
    forall r, Run code (pc + 9 + L + c) (fst (assign' len (int_v 0) (assign' vals (VArr l) (loc, w1)))) wm' r -> Run code pc loc wm r.
Proof.
  destruct (names_facts _ _ _ Hnames) as (N1 & N2 & N3 & Q1 & Q2 & Q3). intros He Harr Hfn Hw.
  destruct (head_g _ _ _ _ _ _ He Harr Hfn Hw) as (wm2 & Hw2 & Hr2). cbn [length] in *.
  set (st2 := assign' len (int_v 0) (assign' vals (VArr l) (loc, w1))) in *.
  assert (Hl2 : slook len st2 = int_v 0) by (unfold st2; apply slook_same; exact Q2).
  exists (tick wm2). split; [apply C01.weq_tick; exact Hw2|]. intros r Hr. apply Hr2.
  eapply (run_jumpif cfg Hunl lib url_rel lint_lines Hlib um); [exact P2|apply Ev_not; apply Ev_var|].
  rewrite (slook_weq _ _ _ Hw2). rewrite Hl2. rewrite truthy_int. cbn [negb truthy].
  exists (pc + 8 + L + c). split; [apply find_unique; [exact HN|exact P8]|]. run_at Hr.
Qed.

Lemma head_loop loc w l w1 elems wm : Ev e loc w (OVal (VArr l)) w1 -> nth_error (w_arrs w1) l = Some elems -> elems <> [] ->
  is_lib ARRLEN (assign' vals (VArr l) (loc, w1)) -> weq w wm ->
  let st3 := assign' idx (int_v 0) (assign' len (int_v (length elems)) (assign' vals (VArr l) (loc, w1))) in
  Inv3 vals len idx l (length elems) 0 st3 /\
  exists wm3, weq (snd st3) wm3 /\ forall r, Run code (pc + 5) (fst st3) wm3 r -> Run code pc loc wm r.
Proof.
  destruct (names_facts _ _ _ Hnames) as (N1 & N2 & N3 & Q1 & Q2 & Q3). intros He Harr Hne Hfn Hw. cbv zeta.
  destruct (head_g _ _ _ _ _ _ He Harr Hfn Hw) as (wm2 & Hw2 & Hr2).
  set (st2 := assign' len (int_v (length elems)) (assign' vals (VArr l) (loc, w1))) in *.
  assert (Hl2 : slook len st2 = int_v (length elems)) by (unfold st2; apply slook_same; exact Q2).
  assert (E0 : Ev (ENum (NInt 0)) (fst st2) (tick (tick wm2)) (OVal (int_v 0)) (tick (tick wm2))) by apply Ev_num.
  destruct (step_assign cfg Hunl lib url_rel lint_lines Hlib um code (pc + 3) idx _ st2 (tick wm2) _ P3 (C01.weq_tick _ _ Hw2) E0) as (wm3 & Hw3 & Hr3).
  split.
  - unfold st2. repeat split.
    + rewrite slook_other by (intros E; apply N2; symmetry; exact E). rewrite slook_other by (intros E; apply N1; symmetry; exact E).
      apply slook_same. exact Q1.
    + rewrite slook_other by (intros E; apply N3; symmetry; exact E). apply slook_same. exact Q2.
    + apply slook_same. exact Q3.
  - exists (tick wm3). split; [apply C01.weq_tick; exact Hw3|]. intros r Hr. apply Hr2.
    eapply (run_jumpif cfg Hunl lib url_rel lint_lines Hlib um); [exact P2|apply Ev_not; apply Ev_var|].
    rewrite (slook_weq _ _ _ Hw2). rewrite Hl2. rewrite truthy_int.
    destruct elems as [|e0 et]; [congruence|]. cbn [length negb truthy].
    replace (S (pc + 2)) with (pc + 3) by lia. apply Hr3.
    replace (S (pc + 3)) with (pc + 4) by lia. eapply (run_label cfg Hunl); [exact P4|]. run_at Hr.
Qed.

End Layout.

(* layout of a compiled for *)
Lemma for_layout_g code pc n vals len idx x e cb hc : code_at code pc (for_code n vals len idx x e cb hc) ->
  let L := length cb in let c := if hc then 1 else 0 in
  nth_error code pc = Some (SExpr (Some vals) e) /\
  nth_error code (pc + 1) = Some (SExpr (Some len) (ECall ARRLEN [EVar vals])) /\
  nth_error code (pc + 2) = Some (SJump (lab KDone n) (Some (e_not (EVar len)))) /\
  nth_error code (pc + 3) = Some (SExpr (Some idx) (ENum (NInt 0))) /\
  nth_error code (pc + 4) = Some (SLabel (lab KLoop n)) /\
  nth_error code (pc + 5) = Some (SExpr (Some x) (ECall ARRGET [EVar vals; EVar idx])) /\
  code_at code (pc + 6) cb /\
  (hc = true -> nth_error code (pc + 6 + L) = Some (SLabel (labc n))) /\
  nth_error code (pc + 6 + L + c) = Some (SExpr (Some idx) (EBin (U "+") (EVar idx) (ENum (NInt 1)))) /\
  nth_error code (pc + 7 + L + c) = Some (SJump (lab KLoop n) (Some (EBin (U "<") (EVar idx) (EVar len)))) /\
  nth_error code (pc + 8 + L + c) = Some (SLabel (lab KDone n)) /\
  length (for_code n vals len idx x e cb hc) = 9 + L + c.
Proof.
  cbv zeta. unfold for_code. intros Hat. cbn [app] in Hat.
  apply code_at_cons in Hat. destruct Hat as [H0 Hat]. apply code_at_cons in Hat. destruct Hat as [H1 Hat].
  apply code_at_cons in Hat. destruct Hat as [H2 Hat]. apply code_at_cons in Hat. destruct Hat as [H3 Hat].
  apply code_at_cons in Hat. destruct Hat as [H4 Hat]. apply code_at_cons in Hat. destruct Hat as [H5 Hat].
  apply code_at_app in Hat. destruct Hat as [Hb Hat].
  replace (S (S (S (S (S (S pc)))))) with (pc + 6) in * by lia.
  destruct hc eqn:E; cbn [app] in Hat.
  - apply code_at_cons in Hat. destruct Hat as [Hc Hat]. apply code_at_cons in Hat. destruct Hat as [H6 Hat].
    apply code_at_cons in Hat. destruct Hat as [H7 Hat]. apply code_at_cons in Hat. destruct Hat as [H8 _].
    repeat split; try assumption; try (intros _); try nth_at H1; try nth_at H2; try nth_at H3; try nth_at H4; try nth_at H5;
      try nth_at Hc; try nth_at H6; try nth_at H7; try nth_at H8.
    cbn [length app]. rewrite !app_length. cbn [length]. lia.
  - apply code_at_cons in Hat. destruct Hat as [H6 Hat].
    apply code_at_cons in Hat. destruct Hat as [H7 Hat]. apply code_at_cons in Hat. destruct Hat as [H8 _].
    repeat split; try assumption; try discriminate; try nth_at H1; try nth_at H2; try nth_at H3; try nth_at H4; try nth_at H5;
      try nth_at H6; try nth_at H7; try nth_at H8.
    cbn [length app]. rewrite !app_length. cbn [length]. lia.
Qed.

(* ---------------------------------------------------------------- the simulation *)
Definition PG (f : fstmt) (st : sstate) (o : sout) (st' : sstate) : Prop :=
  forall code ctx cpos n pc wm, NoDup (labels code) -> cont_ok code ctx cpos -> gwf (is_some ctx) f = true -> gguard f = true ->
    code_at code pc (fst (gcompile ctx n f)) -> weq (snd st) wm ->
    exists wm', weq (snd st') wm' /\ post code cpos (pc + length (fst (gcompile ctx n f))) o (fst st') wm' pc (fst st) wm.

Definition PLoop (vals len idx x : str) (body : fstmt) (arr m i : nat) (st : sstate) (o : sout) (st' : sstate) : Prop :=
  forall code cpos n pc e wm, NoDup (labels code) -> names_okb vals len idx = true -> gwf true body = true -> gguard body = true ->
    code_at code pc (for_code n vals len idx x e (fst (gcompile (Some (lab KDone n, labc n)) (S n) body)) (ghas_cont body)) ->
    Inv3 vals len idx arr m i st -> weq (snd st) wm ->
    exists wm', weq (snd st') wm' /\
      post code cpos (pc + 9 + length (fst (gcompile (Some (lab KDone n, labc n)) (S n) body)) + (if ghas_cont body then 1 else 0))
           o (fst st') wm' (pc + 5) (fst st) wm.

(* the body's simulation at the body's position, from the induction hypothesis of the body *)
Lemma body_sim_of_PG body st_a ob st_b code n pc :
  PG body st_a ob st_b -> NoDup (labels code) -> gwf true body = true -> gguard body = true ->
  let cb := fst (gcompile (Some (lab KDone n, labc n)) (S n) body) in
  let L := length cb in let c := if ghas_cont body then 1 else 0 in
  code_at code (pc + 6) cb ->
  (ghas_cont body = true -> nth_error code (pc + 6 + L) = Some (SLabel (labc n))) ->
  nth_error code (pc + 8 + L + c) = Some (SLabel (lab KDone n)) ->
  BodySim code pc L c (ghas_cont body) st_a ob st_b.
Proof.
  cbv zeta. intros HP HN Hwf Hg Pb Pc P8 wm Hw.
  set (cl := if ghas_cont body then labc n else lab KDone n).
  assert (Hcomp : gcompile (Some (lab KDone n, cl)) (S n) body = gcompile (Some (lab KDone n, labc n)) (S n) body).
  { unfold cl. destruct (ghas_cont body) eqn:E; [reflexivity|]. apply gcompile_cont_irrel. exact E. }
  destruct (HP code (Some (lab KDone n, cl))
              (Some (pc + 8 + length (fst (gcompile (Some (lab KDone n, labc n)) (S n) body)) + (if ghas_cont body then 1 else 0),
                     if ghas_cont body then pc + 6 + length (fst (gcompile (Some (lab KDone n, labc n)) (S n) body))
                     else pc + 8 + length (fst (gcompile (Some (lab KDone n, labc n)) (S n) body)) + (if ghas_cont body then 1 else 0)))
              (S n) (pc + 6) wm HN) as (wm_b & Hwb & Hp).
  - cbn [cont_ok]. split; [exact P8|]. unfold cl. destruct (ghas_cont body) eqn:E; [apply Pc; reflexivity|exact P8].
  - exact Hwf.
  - exact Hg.
  - rewrite Hcomp. exact Pb.
  - exact Hw.
  - exists wm_b. split; [exact Hwb|]. rewrite Hcomp in Hp. exact Hp.
Qed.

Theorem gsim_both :
  (forall f st o st', GExec f st o st' -> PG f st o st') /\
  (forall vals len idx x body arr m i st o st', GLoop vals len idx x body arr m i st o st' -> PLoop vals len idx x body arr m i st o st').
Proof.
  assert (Hhc : forall body st_a ob st_b, GExec body st_a ob st_b -> ob = SContinue -> ghas_cont body = true).
  { intros body st_a ob st_b Hb ->. destruct (ghas_cont body) eqn:E; [reflexivity|].
    exfalso. exact (proj1 ghas_cont_sound _ _ _ _ Hb E eq_refl). }
  apply G_both.
  - (* FS *) intros s st o st' H code ctx cpos n pc wm HN Hc Hwf Hg Hat Hw. cbn [gwf gguard gcompile] in *.
    destruct (sim cfg Hunl lib url_rel lint_lines Hlib um lab Ev_blind _ _ _ _ H) as [HP _]. apply HP; assumption.
  - (* FSeq, normal *) intros a b st st1 o st2 _ IHa _ IHb code ctx cpos n pc wm HN Hc Hwf Hg Hat Hw. cbn [gwf gguard gcompile] in *.
    apply andb_prop in Hwf. destruct Hwf as [Hwa Hwb]. apply andb_prop in Hg. destruct Hg as [Hga Hgb].
    specialize (IHa code ctx cpos n pc wm HN Hc Hwa Hga).
    destruct (gcompile ctx n a) as [ca n1]. cbn [fst snd] in *.
    specialize (IHb code ctx cpos n1 (pc + length ca)).
    destruct (gcompile ctx n1 b) as [cb n2]. cbn [fst snd] in *.
    apply code_at_app in Hat. destruct Hat as [Hata Hatb].
    destruct (IHa Hata Hw) as (wm1 & Hw1 & Hp1). cbn [C01.post] in Hp1.
    destruct (IHb wm1 HN Hc Hwb Hgb Hatb Hw1) as (wm2 & Hw2 & Hp2).
    exists wm2. split; [exact Hw2|]. rewrite app_length. rewrite PeanoNat.Nat.add_assoc.
    eapply post_pre; [exact Hp1|exact Hp2].
  - (* FSeq, abrupt *) intros a b st o st1 _ IHa Hno code ctx cpos n pc wm HN Hc Hwf Hg Hat Hw. cbn [gwf gguard gcompile] in *.
    apply andb_prop in Hwf. destruct Hwf as [Hwa Hwb]. apply andb_prop in Hg. destruct Hg as [Hga Hgb].
    specialize (IHa code ctx cpos n pc wm HN Hc Hwa Hga).
    destruct (gcompile ctx n a) as [ca n1]. cbn [fst snd] in *. destruct (gcompile ctx n1 b) as [cb n2]. cbn [fst snd] in *.
    apply code_at_app in Hat. destruct Hat as [Hata _].
    destruct (IHa Hata Hw) as (wm1 & Hw1 & Hp1). exists wm1. split; [exact Hw1|].
    eapply post_end_irrel; [exact Hno|exact Hp1].
  - (* FFor, the expression stops *)
    intros vals len idx x e body loc w o w1 He Hv code ctx cpos n pc wm HN Hc Hwf Hg Hat Hw. cbn [gwf gguard gcompile fst snd] in *.
    destruct (gcompile (Some (lab KDone n, labc n)) (S n) body) as [cb n1]. cbn [fst snd] in *.
    destruct (for_layout_g _ _ _ _ _ _ _ _ _ _ Hat) as (H0 & _).
    destruct (head_stop vals e code pc H0 loc w o w1 wm He Hv Hw) as (wm' & Hw' & Hr). exists wm'. split; [exact Hw'|exact Hr].
  - (* FFor, empty array *)
    intros vals len idx x e body loc w l w1 He Harr Hfn code ctx cpos n pc wm HN Hc Hwf Hg Hat Hw. cbn [gwf gguard gcompile fst snd] in *.
    apply andb_prop in Hwf. destruct Hwf as [Hnm Hwb].
    destruct (gcompile (Some (lab KDone n, labc n)) (S n) body) as [cb n1]. cbn [fst snd] in *.
    destruct (for_layout_g _ _ _ _ _ _ _ _ _ _ Hat) as (H0 & H1 & H2 & H3 & H4 & H5 & Hb & Hcc & H6 & H7 & H8 & Hlen'). cbv zeta in *.
    rewrite Hlen'.
    destruct (head_empty vals len idx e Hnm code pc n (length cb) _ (ghas_cont body) HN eq_refl H0 H1 H2 H8 loc w l w1 wm He Harr Hfn Hw)
      as (wm' & Hw' & Hr).
    exists wm'. split; [exact Hw'|]. cbn [C01.post]. intros r Hr'. apply Hr. run_at Hr'.
  - (* FFor, the loop *)
    intros vals len idx x e body loc w l w1 elems o st' He Harr Hne Hfn _ IH code ctx cpos n pc wm HN Hc Hwf Hg Hat Hw.
    cbn [gwf gguard gcompile fst snd] in *. apply andb_prop in Hwf. destruct Hwf as [Hnm Hwb].
    specialize (IH code cpos n pc e).
    destruct (gcompile (Some (lab KDone n, labc n)) (S n) body) as [cb n1]. cbn [fst snd] in *.
    destruct (for_layout_g _ _ _ _ _ _ _ _ _ _ Hat) as (H0 & H1 & H2 & H3 & H4 & H5 & Hb & Hcc & H6 & H7 & H8 & Hlen'). cbv zeta in *.
    rewrite Hlen'.
    destruct (head_loop vals len idx e Hnm code pc n _ (ghas_cont body) eq_refl H0 H1 H2 H3 H4 loc w l w1 elems wm He Harr Hne Hfn Hw) as (HI & wm3 & Hw3 & Hr3).
    destruct (IH wm3 HN Hnm Hwb Hg Hat HI Hw3) as (wm' & Hw' & Hp').
    exists wm'. split; [exact Hw'|].
    match goal with |- C01.post _ _ _ _ _ _ _ ?q _ _ _ _ _ _ => match type of Hp' with C01.post _ _ _ _ _ _ _ ?p _ _ _ _ _ _ => replace q with p by lia end end.
    eapply post_pre; [|exact Hp']. exact Hr3.
  - (* loop: the body stops *)
    intros vals len idx x body arr m i st v out st_b Hit Hb IHb code cpos n pc e wm HN Hnm Hwb Hg Hat HI Hw.
    destruct (for_layout_g _ _ _ _ _ _ _ _ _ _ Hat) as (H0 & H1 & H2 & H3 & H4 & H5 & Hb' & Hcc & H6 & H7 & H8 & Hlen'). cbv zeta in *.
    refine (loop_stop vals len idx x code pc _ _ (ghas_cont body) eq_refl H5 cpos arr m i st v out st_b Hit _ HI wm Hw).
    apply (body_sim_of_PG body _ _ _ code n pc IHb HN Hwb Hg Hb' Hcc H8).
  - (* loop: the body breaks *)
    intros vals len idx x body arr m i st v st_b Hit Hb IHb code cpos n pc e wm HN Hnm Hwb Hg Hat HI Hw.
    destruct (for_layout_g _ _ _ _ _ _ _ _ _ _ Hat) as (H0 & H1 & H2 & H3 & H4 & H5 & Hb' & Hcc & H6 & H7 & H8 & Hlen'). cbv zeta in *.
    refine (loop_break vals len idx x code pc _ _ (ghas_cont body) eq_refl H5 cpos arr m i st v st_b Hit _ HI wm Hw).
    apply (body_sim_of_PG body _ _ _ code n pc IHb HN Hwb Hg Hb' Hcc H8).
  - (* loop: next iteration *)
    intros vals len idx x body arr m i st v ob st_b o st' Hit Hb IHb Ho HI' Hlt _ IHl code cpos n pc e wm HN Hnm Hwb Hg Hat HI Hw.
    destruct (for_layout_g _ _ _ _ _ _ _ _ _ _ Hat) as (H0 & H1 & H2 & H3 & H4 & H5 & Hb' & Hcc & H6 & H7 & H8 & Hlen'). cbv zeta in *.
    refine (loop_next vals len idx x Hnm code pc n _ _ (ghas_cont body) HN eq_refl H4 H5 Hcc H6 H7 cpos arr m i st v ob st_b o st' Hit
              _ Ho (Hhc _ _ _ _ Hb) HI' Hlt _ HI wm Hw).
    + apply (body_sim_of_PG body _ _ _ code n pc IHb HN Hwb Hg Hb' Hcc H8).
    + intros HIn wmn Hwn. exact (IHl code cpos n pc e wmn HN Hnm Hwb Hg Hat HIn Hwn).
  - (* loop: last iteration *)
    intros vals len idx x body arr m i st v ob st_b Hit Hb IHb Ho HI' Hge code cpos n pc e wm HN Hnm Hwb Hg Hat HI Hw.
    destruct (for_layout_g _ _ _ _ _ _ _ _ _ _ Hat) as (H0 & H1 & H2 & H3 & H4 & H5 & Hb' & Hcc & H6 & H7 & H8 & Hlen'). cbv zeta in *.
    refine (loop_last vals len idx x Hnm code pc n _ _ (ghas_cont body) HN eq_refl H4 H5 Hcc H6 H7 H8 cpos arr m i st v ob st_b Hit
              _ Ho (Hhc _ _ _ _ Hb) HI' Hge HI wm Hw).
    apply (body_sim_of_PG body _ _ _ code n pc IHb HN Hwb Hg Hb' Hcc H8).
Qed.

(* THE SIMULATION for statements with nested for loops, at any position of a statement list with unique labels *)
Theorem gsim : forall f st o st', GExec f st o st' -> PG f st o st'.
Proof. exact (proj1 gsim_both). Qed.

(* the whole scope: run from statement 0 *)
Theorem gscope_sim : forall f loc w o loc' w', GExec f (loc, w) o (loc', w') ->
  gwf false f = true -> gguard f = true ->
  forall n wm, NoDup (labels (fst (gcompile None n f))) -> weq w wm ->
  exists out wm', scope_result o = Some out /\ weq w' wm' /\ Run (fst (gcompile None n f)) 0 loc wm (out, loc', wm').
Proof.
  intros f loc w o loc' w' H Hwf Hg n wm HN Hw.
  destruct (gsim _ _ _ _ H (fst (gcompile None n f)) None None n 0 wm HN I Hwf Hg (code_at_whole _) Hw) as (wm' & Hw' & Hp).
  cbn [fst snd] in *. destruct o; cbn [C01.post] in Hp.
  - exists (OVal VNull), wm'. split; [reflexivity|split; [exact Hw'|]]. apply Hp.
    apply (run_end cfg lib url_rel lint_lines um). apply nth_error_None. cbn. lia.
  - contradiction.
  - contradiction.
  - exists o, wm'. split; [reflexivity|split; [exact Hw'|exact Hp]].
Qed.

(* ---------------------------------------------------------------- labels of the lowered code are defined once *)
Section Labels.
Hypothesis lab_inj : forall k n k' n', lab k n = lab k' n' -> k = k' /\ n = n'.
Hypothesis labc_inj : forall i j, labc i = labc j -> i = j.
Hypothesis labc_fresh : forall k i j, lab k i <> labc j.

Definition in_range2 (n n' : nat) (l : str) : Prop :=
  (exists k i, l = lab k i /\ n <= i < n') \/ (exists i, l = labc i /\ n <= i < n').

Lemma in_range2_lab k i n n' : n <= i < n' -> in_range2 n n' (lab k i).
Proof. intros H. left. exists k, i. split; [reflexivity|exact H]. Qed.
Lemma in_range2_labc i n n' : n <= i < n' -> in_range2 n n' (labc i).
Proof. intros H. right. exists i. split; [reflexivity|exact H]. Qed.
Lemma in_range2_mono a b a' b' l : in_range2 a b l -> a' <= a -> b <= b' -> in_range2 a' b' l.
Proof.
  intros [(k & i & -> & Hi)|(i & -> & Hi)] H1 H2; [left; exists k, i|right; exists i]; (split; [reflexivity|lia]).
Qed.
Lemma range2_disjoint a b c l : in_range2 a b l -> in_range2 b c l -> False.
Proof.
  intros [(k & i & -> & Hi)|(i & -> & Hi)] [(k' & i' & E & Hi')|(i' & E & Hi')].
  - apply lab_inj in E. lia.
  - exact (labc_fresh _ _ _ E).
  - symmetry in E. exact (labc_fresh _ _ _ E).
  - apply labc_inj in E. lia.
Qed.

Lemma glabels : forall f ctx n, n <= snd (gcompile ctx n f) /\
  Forall (in_range2 n (snd (gcompile ctx n f))) (labels (fst (gcompile ctx n f))) /\ NoDup (labels (fst (gcompile ctx n f))).
Proof.
  induction f as [s|a IHa b IHb|vals len idx x e body IH]; intros ctx n; cbn [gcompile].
  - destruct (compile_labels lab lab_inj s) as [HC _]. destruct (HC ctx n) as (H1 & H2 & H3).
    split; [exact H1|split; [|exact H3]]. eapply Forall_impl; [|exact H2]. intros l (k & i & -> & Hi). apply in_range2_lab. exact Hi.
  - destruct (IHa ctx n) as (Ha1 & Ha2 & Ha3). destruct (gcompile ctx n a) as [ca n1]. cbn [fst snd] in *.
    destruct (IHb ctx n1) as (Hb1 & Hb2 & Hb3). destruct (gcompile ctx n1 b) as [cb n2]. cbn [fst snd] in *.
    rewrite labels_app. rewrite Forall_forall in Ha2, Hb2. repeat split; [lia| |].
    + apply Forall_app. split; apply Forall_forall; intros l Hl;
        [eapply in_range2_mono; [apply Ha2; exact Hl|lia|lia]|eapply in_range2_mono; [apply Hb2; exact Hl|lia|lia]].
    + apply NoDup_app_intro; [exact Ha3|exact Hb3|]. intros y H1 H2. exact (range2_disjoint _ _ _ _ (Ha2 _ H1) (Hb2 _ H2)).
  - destruct (IH (Some (lab KDone n, labc n)) (S n)) as (Hle & Hr & Hnd).
    destruct (gcompile (Some (lab KDone n, labc n)) (S n) body) as [cb n1]. cbn [fst snd] in *.
    unfold for_code, labels. rewrite !flat_map_app. cbn [flat_map app].
    change (flat_map (fun i => match i with SLabel l => [l] | _ => [] end) cb) with (labels cb).
    rewrite Forall_forall in Hr.
    assert (Hcb : forall k, In (lab k n) (labels cb) -> False).
    { intros k Hin. destruct (Hr _ Hin) as [(k' & i & E & Hi)|(i & E & Hi)]; [apply lab_inj in E; lia|exact (labc_fresh _ _ _ E)]. }
    assert (Hcc : In (labc n) (labels cb) -> False).
    { intros Hin. destruct (Hr _ Hin) as [(k' & i & E & Hi)|(i & E & Hi)]; [symmetry in E; exact (labc_fresh _ _ _ E)|apply labc_inj in E; lia]. }
    repeat split; [lia| |].
    + constructor; [apply in_range2_lab; lia|]. apply Forall_app. split.
      * apply Forall_forall. intros l Hl. eapply in_range2_mono; [apply Hr; exact Hl|lia|lia].
      * apply Forall_app. split.
        -- destruct (ghas_cont body); cbn [flat_map app]; [constructor; [apply in_range2_labc; lia|constructor]|constructor].
        -- constructor; [apply in_range2_lab; lia|constructor].
    + constructor.
      * intros Hin. apply in_app_or in Hin. destruct Hin as [Hin|Hin]; [exact (Hcb _ Hin)|].
        apply in_app_or in Hin. destruct Hin as [Hin|[E|[]]].
        -- destruct (ghas_cont body); cbn in Hin; [destruct Hin as [E|[]]; symmetry in E; exact (labc_fresh _ _ _ E)|contradiction].
        -- apply lab_inj in E. destruct E as [E _]. discriminate.
      * apply NoDup_app_intro; [exact Hnd| |].
        -- destruct (ghas_cont body); cbn [flat_map app]; repeat constructor; cbn; try tauto.
           intros [E|[]]. exact (labc_fresh _ _ _ E).
        -- intros y H1 H2. apply in_app_or in H2. destruct H2 as [H2|[E|[]]].
           ++ destruct (ghas_cont body); cbn in H2; [destruct H2 as [E|[]]; subst y; exact (Hcc H1)|contradiction].
           ++ subst y. exact (Hcb _ H1).
Qed.

Corollary gcompile_NoDup ctx n f : NoDup (labels (fst (gcompile ctx n f))).
Proof. apply glabels. Qed.
End Labels.

(* ---------------------------------------------------------------- an executable interpreter for the structured reading *)
Fixpoint gexec (fuel : nat) (f : fstmt) (st : sstate) {struct fuel} : option (sout * sstate) :=
  match fuel with
  | O => None
  | S k =>
    match f with
    | FS s => sexec k s st
    | FSeq a b => match gexec k a st with Some (SNormal, st1) => gexec k b st1 | r => r end
    | FFor vals len idx x e body =>
      let '(loc, w) := st in
      match eval k e loc false um w with
      | (OFuel, _) => None
      | (OVal (VArr l), w1) =>
        let st1 := assign' vals (VArr l) (loc, w1) in
        if is_libb ARRLEN st1 then
          match nth_error (w_arrs w1) l with
          | Some [] => Some (SNormal, assign' len (int_v 0) st1)
          | Some elems => gloop k vals len idx x body l (length elems) 0 (assign' idx (int_v 0) (assign' len (int_v (length elems)) st1))
          | None => None
          end
        else None
      | (OVal _, _) => None                  (* a non-array: no rule in GExec *)
      | (o, w1) => Some (SStop o, (loc, w1))
      end
    end
  end
with gloop (fuel : nat) (vals len idx x : str) (body : fstmt) (l m i : nat) (st : sstate) {struct fuel} : option (sout * sstate) :=
  match fuel with
  | O => None
  | S k =>
    if is_libb ARRGET st then
      match nth_error (w_arrs (snd st)) l with
      | Some elems =>
        match nth_error elems i with
        | Some v =>
          match gexec k body (assign' x v st) with
          | Some (SStop out, st_b) => Some (SStop out, st_b)
          | Some (SBreak, st_b) => Some (SNormal, st_b)
          | Some (_, st_b) =>
            if inv3b vals len idx l m i st_b then
              if S i <? m then gloop k vals len idx x body l m (S i) (assign' idx (int_v (S i)) st_b)
              else Some (SNormal, assign' idx (int_v (S i)) st_b)
            else None
          | None => None
          end
        | None => None
        end
      | None => None
      end
    else None
  end.

Theorem gexec_sound_both : forall fuel,
  (forall f st o st', gexec fuel f st = Some (o, st') -> GExec f st o st') /\
  (forall vals len idx x body l m i st o st', gloop fuel vals len idx x body l m i st = Some (o, st') -> GLoop vals len idx x body l m i st o st').
Proof.
  induction fuel as [|k [IHe IHl]]; [split; intros; discriminate|]. split.
  - intros f st o st' H. cbn [gexec] in H. destruct f as [s|a b|vals len idx x e body].
    + apply G_S. eapply (sexec_sound cfg lib url_rel lint_lines um). exact H.
    + destruct (gexec k a st) as [[oa st1]|] eqn:Ea; [|discriminate].
      destruct oa; try (injection H as <- <-; apply G_SeqA; [apply IHe; exact Ea|discriminate]).
      eapply G_SeqN; [apply IHe; exact Ea|apply IHe; exact H].
    + destruct st as [loc w]. destruct (eval k e loc false um w) as [oe w1] eqn:Ee.
      assert (HE : oe <> OFuel -> Ev e loc w oe w1) by (intros Hn; exists k; split; [exact Ee|exact Hn]).
      destruct oe as [v| | | | |]; try discriminate;
        try (injection H as <- <-; apply G_ForStop; [apply HE; discriminate|reflexivity]).
      destruct v; try discriminate.
      destruct (is_libb ARRLEN (assign' vals (VArr l) (loc, w1))) eqn:Efn; [|discriminate]. apply is_libb_sound in Efn.
      destruct (nth_error (w_arrs w1) l) as [elems|] eqn:Ea; [|discriminate].
      destruct elems as [|e0 et].
      * injection H as <- <-. apply G_ForEmpty; [apply HE; discriminate|exact Ea|exact Efn].
      * apply IHl in H. eapply G_ForLoop; [apply HE; discriminate|exact Ea|discriminate|exact Efn|exact H].
  - intros vals len idx x body l m i st o st' H. cbn [gloop] in H.
    destruct (is_libb ARRGET st) eqn:Efn; [|discriminate]. apply is_libb_sound in Efn.
    destruct (nth_error (w_arrs (snd st)) l) as [elems|] eqn:Ea; [|discriminate].
    destruct (nth_error elems i) as [v|] eqn:Ev'; [|discriminate].
    destruct (gexec k body (assign' x v st)) as [[ob st_b]|] eqn:Eb; [|discriminate].
    apply IHe in Eb.
    assert (Hit : IterPre l i st v) by (exists elems; auto).
    destruct ob.
    + destruct (inv3b vals len idx l m i st_b) eqn:EI; [|discriminate]. apply inv3b_sound in EI.
      destruct (S i <? m) eqn:El.
      * apply Nat.ltb_lt in El. eapply GL_next; [exact Hit|exact Eb|left; reflexivity|exact EI|exact El|apply IHl; exact H].
      * apply Nat.ltb_ge in El. injection H as <- <-. eapply GL_last; [exact Hit|exact Eb|left; reflexivity|exact EI|exact El].
    + injection H as <- <-. eapply GL_break; [exact Hit|exact Eb].
    + destruct (inv3b vals len idx l m i st_b) eqn:EI; [|discriminate]. apply inv3b_sound in EI.
      destruct (S i <? m) eqn:El.
      * apply Nat.ltb_lt in El. eapply GL_next; [exact Hit|exact Eb|right; reflexivity|exact EI|exact El|apply IHl; exact H].
      * apply Nat.ltb_ge in El. injection H as <- <-. eapply GL_last; [exact Hit|exact Eb|right; reflexivity|exact EI|exact El].
    + injection H as <- <-. eapply GL_stop; [exact Hit|exact Eb].
Qed.

Theorem gexec_sound : forall fuel f st o st', gexec fuel f st = Some (o, st') -> GExec f st o st'.
Proof. intros fuel. exact (proj1 (gexec_sound_both fuel)). Qed.

End ForN.

(* labels defined once, as a decidable check (for concrete code) *)
Fixpoint nodup_strb (l : list str) : bool :=
  match l with [] => true | a :: t => negb (str_mem a t) && nodup_strb t end.
Lemma nodup_strb_sound l : nodup_strb l = true -> NoDup l.
Proof.
  induction l as [|a t IH]; cbn [nodup_strb]; intros H; [constructor|].
  apply andb_prop in H. destruct H as [H1 H2]. constructor; [|apply IH; exact H2].
  intros Hin. apply BaseFacts.str_mem_In in Hin. rewrite Hin in H1. discriminate.
Qed.
