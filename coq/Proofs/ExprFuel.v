(* Proofs/ExprFuel.v — FUEL SUFFICIENCY of the expression parser model:
       forall text, parse_expression text <> EFuel.
   parse_expression runs parse_binary on fuel 2*|text|+4.  The fuel of Model/ExprParser.v bounds the recursion DEPTH
   (every sub-call receives the predecessor).  The measure: with n = |text|,
       parse_unary             needs 2n+1
       parse_binary, left=None needs 2n+2      (one level to call parse_unary on the same text)
       parse_binary, left=Some needs 2n+1      (every round reads an operator: >= 1 character)
       parse_args, acc = []    needs 2n+3      (one level to call parse_binary None on the same text)
       parse_args, acc <> []   needs 2n+1      (every round reads a separator: >= 1 character)
   because `(` and a unary operator read >= 1 character and `name(` reads >= 2 (minlen of the REGENERATED regexes, computed),
   and remainders never grow (Proofs/ExprFacts.v parser_len).  "((((" of length n needs 2n+2, so the bound is tight up to 2.
   The other sources of PFuel — the regex engine answering MFuel, re.sub running out — are closed by
   Proofs/RegexComplete.v (re_match_no_fuel) and re_sub_some below. *)
From Coq Require Import Lia.
From BS Require Import Model.Base Model.Regex Model.Num Model.ExprParser Gen.Unicode Gen.Regexes
  Proofs.RegexFacts Proofs.RegexComplete Proofs.ExprFacts.

(* ---- least number of characters a match of r reads ---- *)
Fixpoint minlen (r : regex) : nat :=
  match r with
  | REps | RBol | REol | RLook _ => 0
  | RLit _ | RNotLit _ | RAny | RIn _ _ => 1
  | RCat a b => minlen a + minlen b
  | RAlt a b => Nat.min (minlen a) (minlen b)
  | RRep mn _ a => mn * minlen a
  | RGroup _ a => minlen a
  end.

Lemma Matches_minlen UCL s r pos p c c' : Matches UCL s r pos p c c' -> pos + minlen r <= p.
Proof.
  induction 1; cbn [minlen] in *; try lia.
  destruct mn; cbn [pred] in *; nia.
Qed.

Lemma re_match_minlen UCL r s e c : re_match UCL r s = MYes e c -> minlen r <= e <= length s.
Proof.
  intros H. pose proof (re_match_bounds UCL s r e c H) as [B _].
  apply re_match_sound in H. apply Matches_minlen in H. lia.
Qed.

(* ---- re.sub never runs out (the model's None) ---- *)
Lemma re_sub_from_some UCL r repl whole : forall fuel pos rest, length rest <= length whole ->
  re_sub_from UCL r repl whole fuel pos rest <> None.
Proof.
  induction fuel as [|f IH]; intros pos rest L; cbn [re_sub_from]; [discriminate|].
  assert (NF : m UCL (fuel_for r whole) r pos rest [] (fun p _ c => MYes p c) <> MFuel).
  { apply m_no_fuel; [unfold fuel_for; nia | discriminate]. }
  assert (T : match rest with [] => Some [] | y :: t => option_map (cons y) (re_sub_from UCL r repl whole f (S pos) t) end <> None).
  { destruct rest as [|y t]; [discriminate|]. cbn [length] in L.
    pose proof (IH (S pos) t ltac:(lia)) as I. destruct (re_sub_from UCL r repl whole f (S pos) t); [discriminate | congruence]. }
  destruct (m UCL (fuel_for r whole) r pos rest [] (fun p _ c => MYes p c)) as [|p c|]; [exact T | | congruence].
  destruct (Nat.ltb pos p); [|exact T].
  assert (L2 : length (skipn (p - pos) rest) <= length whole) by (rewrite skipn_length; lia).
  pose proof (IH p (skipn (p - pos) rest) L2) as I.
  destruct (re_sub_from UCL r repl whole f p (skipn (p - pos) rest)); [discriminate | congruence].
Qed.

Lemma re_sub_some UCL r repl s : re_sub UCL r repl s <> None.
Proof. unfold re_sub. apply re_sub_from_some. lia. Qed.

Lemma unescape_some r s : unescape r s <> None.
Proof. apply re_sub_some. Qed.

Lemma rx_nofuel r s : rx r s <> MFuel.
Proof. apply re_match_no_fuel. Qed.

Lemma rx_min r s e c : rx r s = MYes e c -> minlen r <= e <= length s.
Proof. apply re_match_minlen. Qed.

(* the characters read by the structural tokens, COMPUTED on the regenerated regexes *)
Lemma min_binary_op : minlen R_EXPR_BINARY_OP = 1. Proof. reflexivity. Qed.
Lemma min_unary_op : minlen R_EXPR_UNARY_OP = 1. Proof. reflexivity. Qed.
Lemma min_group_open : minlen R_EXPR_GROUP_OPEN = 1. Proof. reflexivity. Qed.
Lemma min_function_open : minlen R_EXPR_FUNCTION_OPEN = 3. Proof. reflexivity. Qed.
Lemma min_function_separator : minlen R_EXPR_FUNCTION_SEPARATOR = 1. Proof. reflexivity. Qed.

Lemma skipn_len_sub {A} e (l : list A) : length (skipn e l) = length l - e.
Proof. apply skipn_length. Qed.

(* ---- the measure ---- *)
Definition need_binary (left : option expr) (text : str) : nat :=
  match left with None => 2 * length text + 2 | Some _ => 2 * length text + 1 end.
Definition need_args (acc : list expr) (text : str) : nat :=
  match acc with [] => 2 * length text + 3 | _ :: _ => 2 * length text + 1 end.

Lemma parser_fuel : forall fuel,
  (forall text left, need_binary left text <= fuel -> parse_binary fuel text left <> PFuel) /\
  (forall text, 2 * length text + 1 <= fuel -> parse_unary fuel text <> PFuel) /\
  (forall text acc, need_args acc text <= fuel -> parse_args fuel text acc <> PFuel).
Proof.
  induction fuel as [|f (IHb & IHu & IHa)].
  { repeat split; intros; [destruct left; cbn in *; lia | lia | destruct acc; cbn in *; lia]. }
  destruct (parser_len f) as (Lb & Lu & La).
  split; [|split].
  - (* parse_binary *)
    intros text left F. cbn [parse_binary].
    assert (Hleft : match (match left with Some l => POk (l, text) | None => parse_unary f text end) with
                    | POk (_, bt) => length bt <= length text
                    | PFuel => False
                    | _ => True end).
    { destruct left as [l|]; [cbn; lia|]. cbn [need_binary] in F.
      pose proof (IHu text ltac:(lia)) as U0. pose proof (Lu text) as U1.
      destruct (parse_unary f text) as [[le bt]|msg n|w|]; cbn [len_post] in U1; auto. }
    destruct (match left with Some l => POk (l, text) | None => parse_unary f text end) as [[le bt]|msg n|w|];
      try discriminate; [|contradiction].
    pose proof (rx_nofuel R_EXPR_BINARY_OP bt) as NF.
    destruct (rx R_EXPR_BINARY_OP bt) as [|e c|] eqn:E; [discriminate| |congruence].
    apply rx_min in E. rewrite min_binary_op in E.
    assert (F2 : 2 * length text + 1 <= S f) by (destruct left; cbn [need_binary] in F; lia).
    pose proof (skipn_len_sub e bt) as SL.
    pose proof (IHu (skipn e bt) ltac:(lia)) as U0. pose proof (Lu (skipn e bt)) as U1.
    destruct (parse_unary f (skipn e bt)) as [[re nt]|msg n|w|]; cbn [len_post] in U1; try discriminate; [|contradiction].
    apply IHb. cbn [need_binary]. lia.
  - (* parse_unary *)
    intros text F. cbn [parse_unary].
    pose proof (rx_nofuel R_EXPR_GROUP_OPEN text) as NF1.
    destruct (rx R_EXPR_GROUP_OPEN text) as [|e c|] eqn:E1; [| |congruence].
    2:{ apply rx_min in E1. rewrite min_group_open in E1. pose proof (skipn_len_sub e text) as SL.
        pose proof (IHb (skipn e text) None ltac:(cbn [need_binary]; lia)) as B0.
        destruct (parse_binary f (skipn e text) None) as [[ex nt]|msg n|w|]; try discriminate; [|contradiction].
        pose proof (rx_nofuel R_EXPR_GROUP_CLOSE nt) as NF.
        destruct (rx R_EXPR_GROUP_CLOSE nt); [discriminate | discriminate | congruence]. }
    pose proof (rx_nofuel R_EXPR_UNARY_OP text) as NF2.
    destruct (rx R_EXPR_UNARY_OP text) as [|e c|] eqn:E2; [| |congruence].
    2:{ apply rx_min in E2. rewrite min_unary_op in E2. pose proof (skipn_len_sub e text) as SL.
        pose proof (IHu (skipn e text) ltac:(lia)) as U0.
        destruct (parse_unary f (skipn e text)) as [[ex nt]|msg n|w|]; try discriminate; contradiction. }
    pose proof (rx_nofuel R_EXPR_FUNCTION_OPEN text) as NF3.
    destruct (rx R_EXPR_FUNCTION_OPEN text) as [|e c|] eqn:E3; [| |congruence].
    2:{ apply rx_min in E3. rewrite min_function_open in E3. pose proof (skipn_len_sub e text) as SL.
        pose proof (IHa (skipn e text) [] ltac:(cbn [need_args]; lia)) as A0.
        destruct (parse_args f (skipn e text) []) as [[args rest]|msg n|w|]; try discriminate; contradiction. }
    pose proof (rx_nofuel R_EXPR_NUMBER text) as NF4.
    destruct (rx R_EXPR_NUMBER text) as [|e c|]; [| |congruence].
    2:{ destruct (py_float (grp text c 1)); discriminate. }
    pose proof (rx_nofuel R_EXPR_STRING text) as NF5.
    destruct (rx R_EXPR_STRING text) as [|e c|]; [| |congruence].
    2:{ pose proof (unescape_some R_EXPR_STRING_ESCAPE (grp text c 1)) as S0.
        destruct (unescape R_EXPR_STRING_ESCAPE (grp text c 1)); [discriminate | congruence]. }
    pose proof (rx_nofuel R_EXPR_STRING_DOUBLE text) as NF6.
    destruct (rx R_EXPR_STRING_DOUBLE text) as [|e c|]; [| |congruence].
    2:{ pose proof (unescape_some R_EXPR_STRING_DOUBLE_ESCAPE (grp text c 1)) as S0.
        destruct (unescape R_EXPR_STRING_DOUBLE_ESCAPE (grp text c 1)); [discriminate | congruence]. }
    pose proof (rx_nofuel R_EXPR_VARIABLE text) as NF7.
    destruct (rx R_EXPR_VARIABLE text) as [|e c|]; [| discriminate |congruence].
    pose proof (rx_nofuel R_EXPR_VARIABLE_EX text) as NF8.
    destruct (rx R_EXPR_VARIABLE_EX text) as [|e c|]; [discriminate | |congruence].
    pose proof (unescape_some R_EXPR_VARIABLE_EX_ESCAPE (grp text c 1)) as S0.
    destruct (unescape R_EXPR_VARIABLE_EX_ESCAPE (grp text c 1)); [discriminate | congruence].
  - (* parse_args *)
    intros text acc F. cbn [parse_args].
    pose proof (rx_nofuel R_EXPR_FUNCTION_CLOSE text) as NF1.
    destruct (rx R_EXPR_FUNCTION_CLOSE text) as [|e c|]; [|discriminate|congruence].
    assert (Hsep : match (match acc with
                | [] => POk text
                | _ :: _ => match rx R_EXPR_FUNCTION_SEPARATOR text with
                            | MNo => PErr syntax_error (length text)
                            | MYes e _ => POk (skipn e text)
                            | MFuel => PFuel
                            end
                end) with
              | POk t' => 2 * length t' + 2 <= f
              | PFuel => False
              | _ => True end).
    { destruct acc as [|a0 acc]; cbn [need_args] in F; [lia|].
      pose proof (rx_nofuel R_EXPR_FUNCTION_SEPARATOR text) as NF.
      destruct (rx R_EXPR_FUNCTION_SEPARATOR text) as [|e c|] eqn:E; [exact I | | congruence].
      apply rx_min in E. rewrite min_function_separator in E. rewrite skipn_len_sub. lia. }
    destruct (match acc with [] => POk text | _ :: _ => _ end) as [t'|msg n|w|]; try discriminate; [|contradiction].
    pose proof (IHb t' None ltac:(cbn [need_binary]; lia)) as B0. pose proof (Lb t' None) as B1.
    destruct (parse_binary f t' None) as [[a nt]|msg n|w|]; cbn [len_post] in B1; try discriminate; [|contradiction].
    apply IHa. cbn [need_args]. lia.
Qed.

Theorem parse_binary_enough_fuel text : parse_binary (expr_fuel text) text None <> PFuel.
Proof. destruct (parser_fuel (expr_fuel text)) as (Hb & _ & _). apply Hb. unfold expr_fuel, need_binary. lia. Qed.

(* THE THEOREM: the model's fuel always suffices *)
Theorem parse_expression_no_fuel text : parse_expression text <> EFuel.
Proof.
  unfold parse_expression. pose proof (parse_binary_enough_fuel text) as H.
  destruct (parse_binary (expr_fuel text) text None) as [[e nt]|m n|w|]; try discriminate; [|contradiction].
  destruct (strip nt); discriminate.
Qed.

(* with Proofs/Total.v (no host exception): parse_expression always returns a tree or a parser error *)
