(* Proofs/C15aeq.v — C15: the model's fuelled comparison `veq` REFINES the abstract deep equality `aeq` (Proofs/C15spec2.v)
   whenever it answers; `aeq` is deterministic; on a well-formed ACYCLIC heap `veq` with the model's fuel always answers. *)
From Coq Require Import Lia.
From BS Require Import Model.Base Model.Num Model.LibVal Model.LibSeq Proofs.BaseFacts Proofs.C15 Proofs.C15spec Proofs.C15hist
  Proofs.C15spec2.

(* ====================================================================== one unfolding of veq *)
Fixpoint all2_with (cmp : value -> value -> option bool) (xs ys : list value) : option bool :=
  match xs, ys with
  | [], [] => Some true
  | x :: xs', y :: ys' => match cmp x y with Some true => all2_with cmp xs' ys' | r => r end
  | _, _ => Some false
  end.
Fixpoint all2kv_with (cmp : value -> value -> option bool) (xs ys : list (str * value)) : option bool :=
  match xs, ys with
  | [], [] => Some true
  | (k1, x) :: xs', (k2, y) :: ys' =>
      if str_eqb k1 k2 then match cmp x y with Some true => all2kv_with cmp xs' ys' | r => r end else Some false
  | _, _ => Some false
  end.
Definition veq_step (cmp : value -> value -> option bool) (h : heap) (a b : value) : option bool :=
  match a, b with
  | VNull, VNull => Some true
  | VBool b1, VBool b2 => Some (Bool.eqb b1 b2)
  | VNum n1, VNum n2 => Some (num_eq n1 n2)
  | VStr s1, VStr s2 => Some (str_eqb s1 s2)
  | VDate d1, VDate d2 => Some (d1 =? d2)%Z
  | VFun _, VFun _ | VRegex _, VRegex _ => Some true
  | VArr l1, VArr l2 =>
      match hget h l1, hget h l2 with Some (CArr xs), Some (CArr ys) => all2_with cmp xs ys | _, _ => None end
  | VObj l1, VObj l2 =>
      match hget h l1, hget h l2 with
      | Some (CObj xs), Some (CObj ys) => all2kv_with cmp (sort_keys xs) (sort_keys ys)
      | _, _ => None
      end
  | _, _ => Some false
  end.

Lemma veq_S : forall f h a b, veq (S f) h a b = veq_step (veq f h) h a b.
Proof.
  intros f h a b. destruct a, b; try reflexivity.
  - simpl. destruct (hget h l) as [[xs|kv]|]; try reflexivity. destruct (hget h l0) as [[ys|kv]|]; try reflexivity.
    revert ys. induction xs as [|x xs IH]; intros [|y ys]; try reflexivity.
    simpl. destruct (veq f h x y) as [[]|]; try reflexivity. apply IH.
  - simpl. destruct (hget h l) as [[xs|kv]|]; try reflexivity. destruct (hget h l0) as [[ys|kv2]|]; try reflexivity.
    generalize (sort_keys kv2). generalize (sort_keys kv). clear kv kv2.
    induction l1 as [|[k1 x] xs IH]; intros [|[k2 y] ys]; try reflexivity.
    simpl. destruct (str_eqb k1 k2); [|reflexivity]. destruct (veq f h x y) as [[]|]; try reflexivity. apply IH.
Qed.

(* ====================================================================== veq refines aeq *)
Lemma all2_with_sound : forall (cmp : value -> value -> option bool) m,
  (forall x y r, cmp x y = Some r -> aeq m x y r) ->
  forall xs ys r, all2_with cmp xs ys = Some r -> aeq_seq m xs ys r.
Proof.
  intros cmp m C. induction xs as [|x xs IH]; intros [|y ys] r H; simpl in H; try (inv H; constructor; fail).
  destruct (cmp x y) as [[]|] eqn:E; try discriminate.
  - apply aeqs_same; [apply C; exact E | apply IH; exact H].
  - inv H. apply aeqs_diff. apply C. exact E.
Qed.
Lemma all2kv_with_sound : forall (cmp : value -> value -> option bool) m,
  (forall x y r, cmp x y = Some r -> aeq m x y r) ->
  forall xs ys r, all2kv_with cmp xs ys = Some r -> aeq_map m xs ys r.
Proof.
  intros cmp m C. induction xs as [|[k1 x] xs IH]; intros [|[k2 y] ys] r H; simpl in H; try (inv H; constructor; fail).
  destruct (str_eqb k1 k2) eqn:K; [|inv H; apply aeqm_key; exact K].
  destruct (cmp x y) as [[]|] eqn:E; try discriminate.
  - apply aeqm_same; [exact K | apply C; exact E | apply IH; exact H].
  - inv H. apply aeqm_diff; [exact K | apply C; exact E].
Qed.

Theorem veq_sound : forall f h a b r, veq f h a b = Some r -> aeq (abs h) a b r.
Proof.
  induction f as [|f IH]; intros h a b r H; [discriminate|].
  rewrite veq_S in H. destruct a, b; simpl in H; try (inv H; first [apply aeq_kind; reflexivity | constructor]; fail).
  - destruct (hget h l) as [[xs|kv]|] eqn:E1; try discriminate. destruct (hget h l0) as [[ys|kv]|] eqn:E2; try discriminate.
    eapply aeq_arr; [rewrite alookup_abs, E1; reflexivity | rewrite alookup_abs, E2; reflexivity |].
    eapply all2_with_sound; [|exact H]. intros; apply IH; assumption.
  - destruct (hget h l) as [[xs|kv]|] eqn:E1; try discriminate. destruct (hget h l0) as [[ys|kv2]|] eqn:E2; try discriminate.
    eapply aeq_obj; [rewrite alookup_abs, E1; reflexivity | rewrite alookup_abs, E2; reflexivity |].
    eapply all2kv_with_sound; [|exact H]. intros; apply IH; assumption.
Qed.

(* ====================================================================== aeq is deterministic *)
Scheme aeq_mind := Minimality for aeq Sort Prop
  with aeq_seq_mind := Minimality for aeq_seq Sort Prop
  with aeq_map_mind := Minimality for aeq_map Sort Prop.
Combined Scheme aeq_mutind from aeq_mind, aeq_seq_mind, aeq_map_mind.

Ltac use_ih :=
  match goal with
  | IH : forall r' : bool, aeq ?m ?x ?y r' -> _ = r', H : aeq ?m ?x ?y _ |- _ => apply IH in H
  | IH : forall r' : bool, aeq_seq ?m ?x ?y r' -> _ = r', H : aeq_seq ?m ?x ?y _ |- _ => apply IH in H
  | IH : forall r' : bool, aeq_map ?m ?x ?y r' -> _ = r', H : aeq_map ?m ?x ?y _ |- _ => apply IH in H
  end.
Ltac use_ih_seq := match goal with
  | IH : forall r' : bool, aeq_seq ?m ?x ?y r' -> _ = r', H : aeq_seq ?m ?x ?y _ |- _ => apply IH in H end.
Ltac use_ih_map := match goal with
  | IH : forall r' : bool, aeq_map ?m ?x ?y r' -> _ = r', H : aeq_map ?m ?x ?y _ |- _ => apply IH in H end.
Lemma aeq_det_all : forall m,
  (forall a b r, aeq m a b r -> forall r', aeq m a b r' -> r = r')
  /\ (forall xs ys r, aeq_seq m xs ys r -> forall r', aeq_seq m xs ys r' -> r = r')
  /\ (forall xs ys r, aeq_map m xs ys r -> forall r', aeq_map m xs ys r' -> r = r').
Proof.
  intros m. apply aeq_mutind.
  - intros a b K r' H'. inv H'; simpl in K; try discriminate; reflexivity.
  - intros r' H'. inv H'; [simpl in *; discriminate | reflexivity].
  - intros b1 b2 r' H'. inv H'; [simpl in *; discriminate | reflexivity].
  - intros n1 n2 r' H'. inv H'; [simpl in *; discriminate | reflexivity].
  - intros s1 s2 r' H'. inv H'; [simpl in *; discriminate | reflexivity].
  - intros d1 d2 r' H'. inv H'; [simpl in *; discriminate | reflexivity].
  - intros f1 f2 r' H'. inv H'; [simpl in *; discriminate | reflexivity].
  - intros r1 r2 r' H'. inv H'; [simpl in *; discriminate | reflexivity].
  - intros l1 l2 xs ys r L1 L2 S IHs r' H'. inv H'; [simpl in *; discriminate|].
    rewrite L1 in *. rewrite L2 in *. repeat match goal with E : Some _ = Some _ |- _ => inv E end. use_ih. assumption.
  - intros l1 l2 xs ys r L1 L2 S IHs r' H'. inv H'; [simpl in *; discriminate|].
    rewrite L1 in *. rewrite L2 in *. repeat match goal with E : Some _ = Some _ |- _ => inv E end. use_ih. assumption.
  - intros r' H'. inv H'. reflexivity.
  - intros y ys r' H'. inv H'. reflexivity.
  - intros x xs r' H'. inv H'. reflexivity.
  - intros x y xs ys A IHa r' H'. inv H'; [reflexivity|]. use_ih. discriminate.
  - intros x y xs ys r A IHa S IHs r' H'. inv H'; [use_ih; discriminate|]. use_ih_seq. assumption.
  - intros r' H'. inv H'. reflexivity.
  - intros y ys r' H'. inv H'. reflexivity.
  - intros x xs r' H'. inv H'. reflexivity.
  - intros k1 k2 x y xs ys K r' H'. inv H'; try reflexivity. congruence.
  - intros k1 k2 x y xs ys K A IHa r' H'. inv H'; try reflexivity. use_ih. discriminate.
  - intros k1 k2 x y xs ys r K A IHa S IHs r' H'. inv H'; [congruence | use_ih; discriminate |]. 
    use_ih_map. assumption.
Qed.
Theorem aeq_det : forall m a b r r', aeq m a b r -> aeq m a b r' -> r = r'.
Proof. intros m a b r r' H1 H2. destruct (aeq_det_all m) as (D & _ & _). eapply D; eauto. Qed.

(* ====================================================================== on a well-formed acyclic heap veq always answers *)
(* `fin h d v`: v unfolds completely (no dangling reference) within nesting depth d *)
Inductive fin (h : heap) : nat -> value -> Prop :=
| fin_scalar : forall d v, vloc v = None -> fin h d v
| fin_arr : forall d l xs, hget h l = Some (CArr xs) -> (forall x, In x xs -> fin h d x) -> fin h (S d) (VArr l)
| fin_obj : forall d l kv, hget h l = Some (CObj kv) -> (forall p, In p kv -> fin h d (snd p)) -> fin h (S d) (VObj l).

Lemma all2_with_total : forall (cmp : value -> value -> option bool) xs ys,
  (forall x y, In x xs -> In y ys -> cmp x y <> None) -> all2_with cmp xs ys <> None.
Proof.
  induction xs as [|x xs IH]; intros [|y ys] H; simpl; try discriminate.
  destruct (cmp x y) as [[]|] eqn:E; try discriminate.
  - apply IH. intros; apply H; right; assumption.
  - exfalso. apply (H x y); [left; reflexivity | left; reflexivity | exact E].
Qed.
Lemma all2kv_with_total : forall (cmp : value -> value -> option bool) xs ys,
  (forall p q, In p xs -> In q ys -> cmp (snd p) (snd q) <> None) -> all2kv_with cmp xs ys <> None.
Proof.
  induction xs as [|[k1 x] xs IH]; intros [|[k2 y] ys] H; simpl; try discriminate.
  destruct (str_eqb k1 k2); [|discriminate].
  destruct (cmp x y) as [[]|] eqn:E; try discriminate.
  - apply IH. intros; apply H; right; assumption.
  - exfalso. apply (H (k1, x) (k2, y)); [left; reflexivity | left; reflexivity | exact E].
Qed.
Lemma insert_key_In : forall {A} (kv p : str * A) l, In p (insert_key kv l) -> p = kv \/ In p l.
Proof.
  induction l as [|x l IH]; simpl; intros H.
  - destruct H as [<-|[]]; auto.
  - destruct (str_compare (fst kv) (fst x)); simpl in H; try (destruct H as [<-|H]; auto; fail).
    destruct H as [<-|H]; auto. apply IH in H. tauto.
Qed.
Lemma sort_keys_In : forall {A} (l : list (str * A)) p, In p (sort_keys l) -> In p l.
Proof.
  unfold sort_keys. induction l as [|x l IH]; simpl; intros p H; [exact H|].
  apply insert_key_In in H. destruct H as [->|H]; auto.
Qed.

Theorem veq_total : forall f h d a b, d < f -> fin h d a -> fin h d b -> veq f h a b <> None.
Proof.
  induction f as [|f IH]; intros h d a b L Fa Fb; [lia|].
  rewrite veq_S. destruct a, b; simpl; try discriminate.
  - inv Fa; [discriminate|]. inv Fb; [discriminate|].
    match goal with A : hget h l = _, B : hget h l0 = _ |- _ => rewrite A, B end.
    apply all2_with_total. intros x y Ix Iy. apply (IH h d0); [lia | auto | auto].
  - inv Fa; [discriminate|]. inv Fb; [discriminate|].
    match goal with A : hget h l = _, B : hget h l0 = _ |- _ => rewrite A, B end.
    apply all2kv_with_total. intros p q Ip Iq. apply sort_keys_In in Ip. apply sort_keys_In in Iq.
    apply (IH h d0); [lia | auto | auto].
Qed.

(* rank-acyclic + well-formed => every well-formed value unfolds within depth (number of cells) *)
Lemma fin_of_rank : forall h rank,
  (forall l c x l', hget h l = Some c -> In x (cell_values c) -> vloc x = Some l' -> rank l' < rank l) ->
  heap_ok h = true ->
  forall n p v, NoDup p -> (forall q, In q p -> q < length h) -> length h - length p <= n ->
  (forall l, vloc v = Some l -> forall q, In q p -> rank l < rank q) -> val_ok h v = true -> fin h n v.
Proof.
  intros h rank R W. unfold heap_ok in W. rewrite forallb_forall in W.
  assert (Step : forall n p l c, NoDup p -> (forall q, In q p -> q < length h) -> length h - length p <= n ->
            (forall q, In q p -> rank l < rank q) -> hget h l = Some c ->
            exists n', n = S n' /\ NoDup (l :: p) /\ (forall q, In q (l :: p) -> q < length h) /\ length h - length (l :: p) <= n'
                       /\ cell_ok h c = true).
  { intros n p l c ND B Ln Rk G.
    assert (Ll : l < length h) by (eapply hget_Some_lt; eauto).
    assert (ND' : NoDup (l :: p)). { constructor; [|exact ND]. intro I. specialize (Rk l I). lia. }
    assert (B' : forall q, In q (l :: p) -> q < length h) by (intros q [<-|I]; auto).
    assert (Len : length (l :: p) <= length h).
    { rewrite <- (seq_length (length h) 0). apply NoDup_incl_length; [exact ND'|]. intros q I. apply in_seq. specialize (B' q I). lia. }
    simpl in Len. destruct n as [|n']; [exfalso; unfold loc in *; lia|]. exists n'. repeat split; auto; [simpl; unfold loc in *; lia|].
    apply W. unfold hget in G. eapply nth_error_In; eauto. }
  induction n as [|n IH]; intros p v ND B Ln Rk V.
  - destruct v; try (apply fin_scalar; reflexivity); simpl in V;
      destruct (hget h l) as [c|] eqn:G; try discriminate;
      destruct (Step 0 p l c ND B Ln (Rk l eq_refl) G) as (n' & E & _); discriminate.
  - destruct v; try (apply fin_scalar; reflexivity); simpl in V.
    + destruct (hget h l) as [[xs|kv]|] eqn:G; try discriminate.
      destruct (Step (S n) p l _ ND B Ln (Rk l eq_refl) G) as (n' & E & ND' & B' & Ln' & C). inv E.
      eapply fin_arr; [exact G|]. intros x Ix. apply (IH (l :: p)); auto.
      * intros l' Vl q [<-|Iq]; [eapply R; eauto | ].
        assert (rank l' < rank l) by (eapply R; eauto). specialize (Rk l eq_refl q Iq). lia.
      * simpl in C. rewrite forallb_forall in C. auto.
    + destruct (hget h l) as [[xs|kv]|] eqn:G; try discriminate.
      destruct (Step (S n) p l _ ND B Ln (Rk l eq_refl) G) as (n' & E & ND' & B' & Ln' & C). inv E.
      eapply fin_obj; [exact G|]. intros x Ix. apply (IH (l :: p)); auto.
      * intros l' Vl q [<-|Iq]; [eapply R; eauto; simpl; apply in_map; exact Ix | ].
        assert (rank l' < rank l) by (eapply R; eauto; simpl; apply in_map; exact Ix). specialize (Rk l eq_refl q Iq). lia.
      * simpl in C. rewrite forallb_forall in C. auto.
Qed.

Theorem acyclic_fin : forall h v, heap_ok h = true -> acyclic h -> val_ok h v = true -> fin h (length h) v.
Proof.
  intros h v W [rank R] V. apply (fin_of_rank h rank R W (length h) [] v); auto.
  - constructor.
  - intros q [].
  - simpl. lia.
  - intros l _ q [].
Qed.

(* the model's fuel is enough *)
Theorem veq_acyclic_answers : forall h a b, heap_ok h = true -> acyclic h -> val_ok h a = true -> val_ok h b = true ->
  veq (compare_fuel h) h a b <> None.
Proof.
  intros h a b W A Va Vb. apply (veq_total _ h (length h)); [unfold compare_fuel; nia | apply acyclic_fin; auto | apply acyclic_fin; auto].
Qed.
