(* Proofs/C10classifyTrail.v — TRAILING white space of a statement line does not change its classification:

     classify_trail :  white ws -> nolf ws -> nolf line -> indent_kind_all k = true ->
                       classify n line = ROk k  ->  classify n (line ++ ws) = ROk k

   for EVERY statement kind (indent_kind_all excludes only a KElif whose condition does not parse: that kind carries the
   parser's error record, which quotes the line).  nolf = no LF character: `.` does not read LF, so  `x = 1` ++ LF ++ ` `
   is not an assignment; the lines parse_script produces never contain LF (C10_lines_have_no_lf).

   Ingredients: the fifteen regexes  X \s*$  (RegexTrail2.stmt_regex_trail_groups: same captures), jump (same captures),
   assignment and return (C10stmtTrail: the expr group grows by the run, and parse_expression ignores a trailing run:
   C10tokTrail.parse_expression_trail), and — because `x =` is not an assignment but `x =  ` is one — the fact that a line
   that classifies successfully does not end with `=` (classify_ok_noeq: the tail regexes end with another character;
   an expression that ends with `=` does not parse, C10parseNoeq.parse_ok_noeq). *)
From Coq Require Import Lia.
From BS Require Import Model.Base Model.Regex Model.Num Model.ExprParser Model.Script Model.Lower Gen.Unicode Gen.Regexes
  Proofs.RegexFacts Proofs.RegexComplete Proofs.RegexShift Proofs.RegexEval Proofs.C10ws Proofs.C10wsExpr Proofs.C10wsIndent
  Proofs.C10wsIndent2 Proofs.RegexTrail Proofs.C10tokTrail Proofs.RegexTrail2 Proofs.RegexTrail3 Proofs.C10stmtTrail
  Proofs.C10parseNoeq.

(* ---------- cutting a derivation ---------- *)
Lemma Matches_cut_at : forall n R A T, cut_at n R = Some (A, T) -> forall s pos p c c',
  Matches UC s R pos p c c' -> exists mid cm, Matches UC s A pos mid c cm /\ Matches UC s T mid p cm c'.
Proof.
  induction n as [|n IH]; intros R A T H s pos p c c' M; destruct R; cbn [cut_at] in H; try discriminate.
  - inversion H; subst. inversion M; subst. eauto.
  - destruct (cut_at n R2) as [[a' t]|] eqn:E; [|discriminate]. inversion H; subst. inversion M; subst.
    match goal with M2 : Matches _ _ R2 _ _ _ _ |- _ => destruct (IH R2 a' T E _ _ _ _ _ M2) as (mid2 & cm2 & X1 & X2) end.
    exists mid2, cm2. split; [eapply M_Cat; eassumption | exact X2].
Qed.

Lemma nolf_nth s p : nolf s -> nth_error s p <> Some 10%N.
Proof.
  intros NL H. apply nth_error_In in H. unfold nolf in NL. rewrite forallb_forall in NL. specialize (NL _ H). discriminate.
Qed.

(* the expr group of a matched assignment runs to the end of the line *)
Lemma assign_group2 line e c : rxm R_SCRIPT_ASSIGNMENT line = MYes e c -> nolf line ->
  exists st, cap_get 2 c = Some (st, length line) /\ st < length line.
Proof.
  intros H NL. unfold rxm in H. apply re_match_sound in H.
  assert (C : exists A, cut_at 5 R_SCRIPT_ASSIGNMENT = Some (A, E_assign)) by (eexists; reflexivity).
  destruct C as (A & C). destruct (Matches_cut_at 5 _ _ _ C _ _ _ _ _ H) as (mid & cm & _ & MT).
  unfold E_assign in MT. inversion MT; subst.
  match goal with M1 : Matches _ _ (RGroup _ _) _ _ _ _, M2 : Matches _ _ REol _ _ _ _ |- _ =>
    inversion M1; subst; inversion M2; subst end.
  match goal with M3 : Matches _ _ (RRep 1 None RAny) _ _ _ _ |- _ => pose proof (Matches_nullable _ _ _ _ _ _ M3 eq_refl) as LT end.
  match goal with E : _ = length line \/ _ |- _ => destruct E as [->|[_ E2]]; [|exfalso; exact (nolf_nth _ _ NL E2)] end.
  eexists. split; [reflexivity | exact LT].
Qed.

(* ---------- captured texts ---------- *)
Lemma gtext_to_end s c g st : cap_get g c = Some (st, length s) -> gtext s c g = skipn st s.
Proof.
  intros H. unfold gtext, group_text. rewrite H. unfold sub_list. apply firstn_all2. rewrite skipn_length. lia.
Qed.

Lemma gtext_to_end_app s ws c g st : cap_get g c = Some (st, length s + length ws) -> gtext (s ++ ws) c g = skipn st (s ++ ws).
Proof. intros H. apply gtext_to_end. rewrite app_length. exact H. Qed.

Lemma gtext_same line ws ca cb g : cap_get g ca = cap_get g cb -> caps_in (length line) cb ->
  gtext (line ++ ws) ca g = gtext line cb g.
Proof.
  intros E Ci. unfold gtext, group_text. rewrite E. destruct (cap_get g cb) as [[a b]|] eqn:G; [|reflexivity].
  rewrite (sub_list_app_le2 line ws a b (Ci g a b G)). reflexivity.
Qed.

Lemma sim_groups R line ws : sim (rxm R (line ++ ws)) (rxm R line) ->
  match rxm R line with
  | MNo => rxm R (line ++ ws) = MNo
  | MYes _ c => exists e', rxm R (line ++ ws) = MYes e' c /\ forall g, gtext (line ++ ws) c g = gtext line c g
  | MFuel => False
  end.
Proof.
  intros S. unfold rxm in *. destruct (re_match UC R line) as [|e c|] eqn:E.
  - destruct (re_match UC R (line ++ ws)); cbn [sim] in S; [reflexivity | contradiction | contradiction].
  - destruct (re_match UC R (line ++ ws)) as [|e' c'|]; cbn [sim] in S; try contradiction. subst c'.
    exists e'. split; [reflexivity|]. intros g. apply gtext_same; [reflexivity|].
    exact (proj2 (re_match_bounds UC line R e c E)).
  - destruct (re_match UC R (line ++ ws)); cbn [sim] in S; contradiction.
Qed.

(* ---------- lines that end with `=` ---------- *)
Definition tail61 (R : regex) : bool := ends_eol R && forallb (fun a => negb (atom_ok UC a 61%N)) (lasts R).

Lemma tail61_noeq R line e c : tail61 R = true -> rxm R line = MYes e c -> noeq_end line.
Proof. unfold tail61. intros T H. apply andb_true_iff in T. destruct T as [T1 T2]. exact (noeq_of_match R line e c H T1 T2). Qed.

Lemma t61_function_begin : tail61 R_SCRIPT_FUNCTION_BEGIN = true. Proof. vm_compute. reflexivity. Qed.
Lemma t61_function_end : tail61 R_SCRIPT_FUNCTION_END = true. Proof. vm_compute. reflexivity. Qed.
Lemma t61_if_begin : tail61 R_SCRIPT_IF_BEGIN = true. Proof. vm_compute. reflexivity. Qed.
Lemma t61_if_else_if : tail61 R_SCRIPT_IF_ELSE_IF = true. Proof. vm_compute. reflexivity. Qed.
Lemma t61_if_else : tail61 R_SCRIPT_IF_ELSE = true. Proof. vm_compute. reflexivity. Qed.
Lemma t61_if_end : tail61 R_SCRIPT_IF_END = true. Proof. vm_compute. reflexivity. Qed.
Lemma t61_while_begin : tail61 R_SCRIPT_WHILE_BEGIN = true. Proof. vm_compute. reflexivity. Qed.
Lemma t61_while_end : tail61 R_SCRIPT_WHILE_END = true. Proof. vm_compute. reflexivity. Qed.
Lemma t61_for_begin : tail61 R_SCRIPT_FOR_BEGIN = true. Proof. vm_compute. reflexivity. Qed.
Lemma t61_for_end : tail61 R_SCRIPT_FOR_END = true. Proof. vm_compute. reflexivity. Qed.
Lemma t61_break : tail61 R_SCRIPT_BREAK = true. Proof. vm_compute. reflexivity. Qed.
Lemma t61_continue : tail61 R_SCRIPT_CONTINUE = true. Proof. vm_compute. reflexivity. Qed.
Lemma t61_label : tail61 R_SCRIPT_LABEL = true. Proof. vm_compute. reflexivity. Qed.
Lemma t61_jump : tail61 R_SCRIPT_JUMP = true. Proof. vm_compute. reflexivity. Qed.
Lemma t61_include : tail61 R_SCRIPT_INCLUDE = true. Proof. vm_compute. reflexivity. Qed.
Lemma t61_include_system : tail61 R_SCRIPT_INCLUDE_SYSTEM = true. Proof. vm_compute. reflexivity. Qed.

Lemma stmt_expr_parse ex l o n e : stmt_expr ex l o n = ROk e -> parse_expression ex = EOk e.
Proof. unfold stmt_expr. destruct (parse_expression ex); intros H; try discriminate H. inversion H; reflexivity. Qed.

Lemma white_nil' : white []. Proof. intros c []. Qed.

Theorem classify_ok_noeq n line k : nolf line -> classify n line = ROk k -> noeq_end line.
Proof.
  intros NL. unfold classify.
  destruct (rxm R_SCRIPT_ASSIGNMENT line) as [|e c|] eqn:EA; [| |discriminate].
  2:{ destruct (assign_group2 line e c EA NL) as (st & G2 & Lt). change R_SCRIPT_ASSIGNMENT__expr with 2.
      rewrite (gtext_to_end line c 2 st G2).
      destruct (stmt_expr _ line _ n) as [ex| | |] eqn:E; intros H; try discriminate H.
      apply stmt_expr_parse in E. apply parse_ok_noeq in E.
      rewrite <- (firstn_skipn st line). apply noeq_end_suffix; [exact E|].
      intros Z. pose proof (f_equal (@length N) Z) as LZ. rewrite skipn_length in LZ. cbn [length] in LZ. lia. }
  destruct (rxm R_SCRIPT_FUNCTION_BEGIN line) as [|e c|] eqn:E1; [|intros _; exact (tail61_noeq _ _ _ _ t61_function_begin E1)|discriminate].
  destruct (rxm R_SCRIPT_FUNCTION_END line) as [|e c|] eqn:E2; [|intros _; exact (tail61_noeq _ _ _ _ t61_function_end E2)|discriminate].
  destruct (rxm R_SCRIPT_IF_BEGIN line) as [|e c|] eqn:E3; [|intros _; exact (tail61_noeq _ _ _ _ t61_if_begin E3)|discriminate].
  destruct (rxm R_SCRIPT_IF_ELSE_IF line) as [|e c|] eqn:E4; [|intros _; exact (tail61_noeq _ _ _ _ t61_if_else_if E4)|discriminate].
  destruct (rxm R_SCRIPT_IF_ELSE line) as [|e c|] eqn:E5; [|intros _; exact (tail61_noeq _ _ _ _ t61_if_else E5)|discriminate].
  destruct (rxm R_SCRIPT_IF_END line) as [|e c|] eqn:E6; [|intros _; exact (tail61_noeq _ _ _ _ t61_if_end E6)|discriminate].
  destruct (rxm R_SCRIPT_WHILE_BEGIN line) as [|e c|] eqn:E7; [|intros _; exact (tail61_noeq _ _ _ _ t61_while_begin E7)|discriminate].
  destruct (rxm R_SCRIPT_WHILE_END line) as [|e c|] eqn:E8; [|intros _; exact (tail61_noeq _ _ _ _ t61_while_end E8)|discriminate].
  destruct (rxm R_SCRIPT_FOR_BEGIN line) as [|e c|] eqn:E9; [|intros _; exact (tail61_noeq _ _ _ _ t61_for_begin E9)|discriminate].
  destruct (rxm R_SCRIPT_FOR_END line) as [|e c|] eqn:E10; [|intros _; exact (tail61_noeq _ _ _ _ t61_for_end E10)|discriminate].
  destruct (rxm R_SCRIPT_BREAK line) as [|e c|] eqn:E11; [|intros _; exact (tail61_noeq _ _ _ _ t61_break E11)|discriminate].
  destruct (rxm R_SCRIPT_CONTINUE line) as [|e c|] eqn:E12; [|intros _; exact (tail61_noeq _ _ _ _ t61_continue E12)|discriminate].
  destruct (rxm R_SCRIPT_LABEL line) as [|e c|] eqn:E13; [|intros _; exact (tail61_noeq _ _ _ _ t61_label E13)|discriminate].
  destruct (rxm R_SCRIPT_JUMP line) as [|e c|] eqn:E14; [|intros _; exact (tail61_noeq _ _ _ _ t61_jump E14)|discriminate].
  (* return *)
  pose proof (return_trail line [] white_nil' eq_refl NL) as RR. rewrite app_nil_r in RR.
  destruct (rxm R_SCRIPT_RETURN line) as [|e c|] eqn:E15; [| |discriminate].
  2:{ cbn [RelR] in RR. destruct RR as [[_ NQ]|(c0 & st & _ & Ec & Lt)]; [intros _; exact NQ|].
      assert (G2 : cap_get 2 c = Some (st, length line)) by (rewrite Ec; reflexivity).
      change R_SCRIPT_RETURN__expr with 2. rewrite (gtext_to_end line c 2 st G2).
      destruct (skipn st line) as [|x r] eqn:Esk.
      { pose proof (f_equal (@length N) Esk) as LZ. rewrite skipn_length in LZ. cbn [length] in LZ. lia. }
      destruct (stmt_expr _ line _ n) as [ex| | |] eqn:E; intros H; try discriminate H.
      apply stmt_expr_parse in E. apply parse_ok_noeq in E.
      rewrite <- (firstn_skipn st line), Esk. apply noeq_end_suffix; [exact E | discriminate]. }
  clear RR.
  destruct (rxm R_SCRIPT_INCLUDE line) as [|e c|] eqn:E16; [|intros _; exact (tail61_noeq _ _ _ _ t61_include E16)|discriminate].
  destruct (rxm R_SCRIPT_INCLUDE_SYSTEM line) as [|e c|] eqn:E17; [|intros _; exact (tail61_noeq _ _ _ _ t61_include_system E17)|discriminate].
  destruct (parse_expression line) as [ex| | |] eqn:E; intros H; try discriminate H.
  exact (parse_ok_noeq line ex E).
Qed.

(* ---------- the theorem ---------- *)
Ltac tail_step R T W line ws :=
  let S := fresh "S" in let e := fresh "e" in let c := fresh "c" in let e' := fresh "e'" in let G := fresh "G" in
  pose proof (stmt_regex_trail_groups R line ws T W) as S;
  destruct (rxm R line) as [|e c|];
  [rewrite S; clear S | destruct S as (e' & -> & G) | contradiction].

Theorem classify_trail n line ws k : white ws -> nolf ws -> nolf line -> indent_kind_all k = true ->
  classify n line = ROk k -> classify n (line ++ ws) = ROk k.
Proof.
  intros W NLw NL IK H0. pose proof (classify_ok_noeq n line k NL H0) as NQ. revert H0. unfold classify.
  (* assignment *)
  pose proof (assign_trail line ws W NLw NL NQ) as RA.
  pose proof (fun e c => assign_group2 line e c) as AG.
  pose proof (fun e c => re_match_bounds UC line R_SCRIPT_ASSIGNMENT e c) as AB. fold (rxm R_SCRIPT_ASSIGNMENT line) in AB.
  destruct (rxm R_SCRIPT_ASSIGNMENT line) as [|e c|], (rxm R_SCRIPT_ASSIGNMENT (line ++ ws)) as [|e' c'|];
    cbn [RelA] in RA; try contradiction.
  2:{ destruct RA as (c0 & sa & sb & -> & Ec & Lb & La & D). clear AG. specialize (AB e c eq_refl). destruct AB as [_ Ci].
      change R_SCRIPT_ASSIGNMENT__expr with 2. change R_SCRIPT_ASSIGNMENT__name with 1.
      assert (G1 : gtext (line ++ ws) (cap_set 2 (sa, length line + length ws) c0) 1 = gtext line c 1).
      { apply gtext_same; [rewrite Ec; reflexivity | exact Ci]. }
      assert (G2 : gtext line c 2 = skipn sb line) by (apply gtext_to_end; rewrite Ec; reflexivity).
      assert (G2' : gtext (line ++ ws) (cap_set 2 (sa, length line + length ws) c0) 2 = skipn sa (line ++ ws))
        by (apply gtext_to_end_app; reflexivity).
      rewrite G1, G2, G2'.
      destruct (stmt_expr (skipn sb line) line _ n) as [ex| | |] eqn:E; intros H; try discriminate H.
      pose proof (stmt_expr_parse _ _ _ _ _ E) as PE.
      destruct D as [D|[D _]]; [|exfalso; exact (parse_white_not_ok _ _ D PE)].
      rewrite D. unfold stmt_expr. rewrite (parse_expression_trail (skipn sb line) ws W), PE. exact H. }
  clear RA AG AB.
  tail_step R_SCRIPT_FUNCTION_BEGIN st_function_begin W line ws.
  2:{ rewrite !G. exact (fun H => H). }
  tail_step R_SCRIPT_FUNCTION_END st_function_end W line ws.
  2:{ exact (fun H => H). }
  tail_step R_SCRIPT_IF_BEGIN st_if_begin W line ws.
  2:{ rewrite !G. destruct (stmt_expr _ line _ n) as [ex| | |] eqn:E; intros H; try discriminate H.
      rewrite (stmt_expr_ok _ _ _ (line ++ ws) (gstart c R_SCRIPT_IF_BEGIN__expr) _ _ E). exact H. }
  tail_step R_SCRIPT_IF_ELSE_IF st_if_else_if W line ws.
  2:{ rewrite !G. intros H. injection H as <-. cbn [indent_kind_all] in IK.
      destruct (stmt_expr _ line _ n) as [ex| | |] eqn:E; try discriminate IK.
      rewrite (stmt_expr_ok _ _ _ (line ++ ws) (gstart c R_SCRIPT_IF_ELSE_IF__expr) _ _ E). reflexivity. }
  tail_step R_SCRIPT_IF_ELSE st_if_else W line ws.
  2:{ exact (fun H => H). }
  tail_step R_SCRIPT_IF_END st_if_end W line ws.
  2:{ exact (fun H => H). }
  tail_step R_SCRIPT_WHILE_BEGIN st_while_begin W line ws.
  2:{ rewrite !G. destruct (stmt_expr _ line _ n) as [ex| | |] eqn:E; intros H; try discriminate H.
      rewrite (stmt_expr_ok _ _ _ (line ++ ws) (gstart c R_SCRIPT_WHILE_BEGIN__expr) _ _ E). exact H. }
  tail_step R_SCRIPT_WHILE_END st_while_end W line ws.
  2:{ exact (fun H => H). }
  tail_step R_SCRIPT_FOR_BEGIN st_for_begin W line ws.
  2:{ rewrite !G. destruct (stmt_expr _ line _ n) as [ex| | |] eqn:E; intros H; try discriminate H.
      rewrite (stmt_expr_ok _ _ _ (line ++ ws) (gstart c R_SCRIPT_FOR_BEGIN__values) _ _ E). exact H. }
  tail_step R_SCRIPT_FOR_END st_for_end W line ws.
  2:{ exact (fun H => H). }
  tail_step R_SCRIPT_BREAK st_break W line ws.
  2:{ exact (fun H => H). }
  tail_step R_SCRIPT_CONTINUE st_continue W line ws.
  2:{ exact (fun H => H). }
  tail_step R_SCRIPT_LABEL st_label W line ws.
  2:{ rewrite !G. exact (fun H => H). }
  (* jump *)
  pose proof (sim_groups R_SCRIPT_JUMP line ws (jump_trail line ws W)) as SJ.
  destruct (rxm R_SCRIPT_JUMP line) as [|e c|]; [rewrite SJ; clear SJ | destruct SJ as (e' & -> & G) | contradiction].
  2:{ rewrite !G. destruct (gtext line c R_SCRIPT_JUMP__expr) as [|x r]; [exact (fun H => H)|].
      destruct (stmt_expr _ line _ n) as [ex| | |] eqn:E; intros H; try discriminate H.
      rewrite (stmt_expr_ok _ _ _ (line ++ ws) (length (gtext line c R_SCRIPT_JUMP__jump) - length (x :: r) - 1) _ _ E). exact H. }
  (* return *)
  pose proof (return_trail line ws W NLw NL) as RR.
  pose proof (fun e c => re_match_bounds UC line R_SCRIPT_RETURN e c) as RB. fold (rxm R_SCRIPT_RETURN line) in RB.
  destruct (rxm R_SCRIPT_RETURN line) as [|e c|], (rxm R_SCRIPT_RETURN (line ++ ws)) as [|e' c'|];
    cbn [RelR] in RR; try contradiction.
  2:{ specialize (RB e c eq_refl). destruct RB as [_ Ci].
      change R_SCRIPT_RETURN__expr with 2. change R_SCRIPT_RETURN__return with 1.
      destruct RR as [[-> _]|(c0 & st & -> & Ec & Lt)].
      - rewrite !(gtext_same line ws c c _ eq_refl Ci).
        destruct (gtext line c 2) as [|x r]; [exact (fun H => H)|].
        destruct (stmt_expr _ line _ n) as [ex| | |] eqn:E; intros H; try discriminate H.
        rewrite (stmt_expr_ok _ _ _ (line ++ ws) (length (gtext line c 1) - length (x :: r)) _ _ E). exact H.
      - assert (G2 : gtext line c 2 = skipn st line) by (apply gtext_to_end; rewrite Ec; reflexivity).
        assert (G2' : gtext (line ++ ws) (cap_set 1 (0, length line + length ws) (cap_set 2 (st, length line + length ws) c0)) 2
                      = skipn st line ++ ws).
        { rewrite (gtext_to_end_app line ws _ 2 st) by reflexivity. rewrite skipn_app. replace (st - length line) with 0 by lia. reflexivity. }
        rewrite G2, G2'. destruct (skipn st line) as [|x r] eqn:Esk.
        { pose proof (f_equal (@length N) Esk) as LZ. rewrite skipn_length in LZ. cbn [length] in LZ. lia. }
        cbn [app]. destruct (stmt_expr (x :: r) line _ n) as [ex| | |] eqn:E; intros H; try discriminate H.
        pose proof (stmt_expr_parse _ _ _ _ _ E) as PE.
        change (x :: r ++ ws) with ((x :: r) ++ ws). unfold stmt_expr. rewrite (parse_expression_trail (x :: r) ws W), PE. exact H. }
  clear RR RB.
  (* include *)
  tail_step R_SCRIPT_INCLUDE st_include W line ws.
  2:{ rewrite !G. destruct (unesc _ _); intros H; try discriminate H; exact H. }
  tail_step R_SCRIPT_INCLUDE_SYSTEM st_include_system W line ws.
  2:{ rewrite !G. exact (fun H => H). }
  rewrite (parse_expression_trail line ws W).
  destruct (parse_expression line) as [ex| | |]; intros H; try discriminate H. exact H.
Qed.

(* the same with the LF premise as in C10_lines_have_no_lf, and indentation + trailing run together *)
Lemma notin_nolf l : ~ In 10%N l -> nolf l.
Proof.
  intros NI. unfold nolf. apply forallb_forall. intros y I. unfold notLF. destruct (y =? 10)%N eqn:E; [|reflexivity].
  apply N.eqb_eq in E. subst y. contradiction.
Qed.

Theorem classify_trail_nolf n line ws k : white ws -> ~ In 10%N ws -> ~ In 10%N line -> indent_kind_all k = true ->
  classify n line = ROk k -> classify n (line ++ ws) = ROk k.
Proof. intros W N1 N2. apply classify_trail; [exact W | exact (notin_nolf _ N1) | exact (notin_nolf _ N2)]. Qed.

Theorem classify_padded n ws1 line ws2 k : white ws1 -> white ws2 -> ~ In 10%N ws1 -> ~ In 10%N ws2 -> ~ In 10%N line ->
  indent_kind_all k = true -> classify n line = ROk k -> classify n (ws1 ++ line ++ ws2) = ROk k.
Proof.
  intros W1 W2 N1 N2 NL IK H. rewrite app_assoc. apply classify_trail_nolf; [exact W2 | exact N2 | | exact IK |].
  - intros I. apply in_app_or in I. destruct I; contradiction.
  - apply classify_indent_all; assumption.
Qed.

Theorem classify_ok_noeq_nolf n line k : ~ In 10%N line -> classify n line = ROk k -> forall pre, line <> pre ++ [61%N].
Proof. intros NL H. exact (classify_ok_noeq n line k (notin_nolf _ NL) H). Qed.
