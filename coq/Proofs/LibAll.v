(* Proofs/LibAll.v — the premises the interpreter theorems put on the library (Proofs/Fuel.v lib_fuel_monotone,
   Proofs/Blind.v lib_count_blind, Proofs/C09.v lib_monotone and lib_lockstep) hold for the combined library
   Model/LibAll.v libfull: LibCore overlaid with the lifted array / object / string functions of LibSeq. *)
From Coq Require Import List ZArith Lia.
From BS Require Import Model.Base Model.Num Model.Arith Model.ExprParser Model.Script Model.Interp Model.LibCore Model.LibAll
                       Proofs.Fuel Proofs.C01 Proofs.Blind Proofs.C09.
Local Open Scope Z_scope.

(* the lifted functions do not see the statement counter and leave it alone *)
Lemma lift_seq_frame cfg name args w k :
  lift_seq cfg name args (upd_count w k) = (fst (lift_seq cfg name args w), upd_count (snd (lift_seq cfg name args w)) k).
Proof.
  unfold lift_seq. change (heap_of (upd_count w k)) with (heap_of w).
  cbn [w_arrs w_objs upd_count].
  destruct (Q.lib name (map (to_v (length (w_arrs w))) args) (heap_of w)) as [r h'].
  destruct r; try destruct (c_debug cfg); reflexivity.
Qed.

Lemma lift_seq_count cfg name args w : w_count (snd (lift_seq cfg name args w)) = w_count w.
Proof.
  unfold lift_seq.
  destruct (Q.lib name (map (to_v (length (w_arrs w))) args) (heap_of w)) as [r h'].
  destruct r; try destruct (c_debug cfg); reflexivity.
Qed.

Lemma libfull_frame cfg cb name args w k :
  libfull cfg cb name args (upd_count w k) = (fst (libfull cfg cb name args w), upd_count (snd (libfull cfg cb name args w)) k).
Proof.
  unfold libfull. destruct (str_mem name core_names); [apply libcore_blind|].
  destruct (str_mem name Q.modelled_functions); [apply lift_seq_frame|reflexivity].
Qed.

Lemma libfull_count cfg cb name args w : w_count (snd (libfull cfg cb name args w)) = w_count w.
Proof.
  unfold libfull. destruct (str_mem name core_names); [apply libcore_count|].
  destruct (str_mem name Q.modelled_functions); [apply lift_seq_count|reflexivity].
Qed.

(* no function of the combined library calls back *)
Lemma libfull_no_callback cfg cb1 cb2 name args w : libfull cfg cb1 name args w = libfull cfg cb2 name args w.
Proof. reflexivity. Qed.

Theorem libfull_fuel_monotone cfg : lib_fuel_monotone (libfull cfg).
Proof. intros cb1 cb2 _ name args w. left. apply libfull_no_callback. Qed.

Theorem libfull_monotone cfg : lib_monotone (libfull cfg).
Proof. intros cb _ name args w. rewrite libfull_count. lia. Qed.

Theorem libfull_lockstep cfg : lib_lockstep (libfull cfg) cfg.
Proof. intros cb1 cb2 _ _ name args w. left. apply libfull_no_callback. Qed.

Theorem libfull_count_blind cfg : lib_count_blind (libfull cfg).
Proof.
  intros cb1 cb2 _ name args w wm Hw. rewrite (weq_repr _ _ Hw). rewrite libfull_frame.
  rewrite (libfull_no_callback cfg cb1 cb2 name args w).
  split; [reflexivity|]. cbn [snd]. apply weq_upd.
Qed.
