(* Proofs/LibAll.v — the premises the interpreter theorems put on the library (Proofs/Fuel.v lib_fuel_monotone,
   Proofs/Blind.v lib_count_blind, Proofs/C09.v lib_monotone and lib_lockstep) hold for the combined library
   Model/LibAll.v libfull: LibCore, arraySort (which CALLS BACK: the premises are about exactly that) and the lifted
   array / object / string functions of LibSeq. *)
From Coq Require Import List ZArith Lia.
From BS Require Import Model.Base Model.Num Model.Arith Model.ExprParser Model.Script Model.Interp Model.LibCore Model.LibCall Model.LibMore Model.LibAll
                       Proofs.Fuel Proofs.C01 Proofs.Blind Proofs.C09 Proofs.LibCall.
Local Open Scope Z_scope.

(* the lifted functions do not see the statement counter and leave it alone *)
Lemma lift_seq_frame cfg name args w k :
  lift_seq cfg name args (upd_count w k) = (fst (lift_seq cfg name args w), upd_count (snd (lift_seq cfg name args w)) k).
Proof.
  unfold lift_seq. change (heap_of (upd_count w k)) with (heap_of w).
  cbn [w_arrs w_objs upd_count].
  destruct (Q.lib name (map (to_v (length (w_arrs w))) args) (heap_of w)) as [r h'].
  destruct r; try destruct (c_debug cfg); reflexivity.
Qed.

Lemma lift_seq_count cfg name args w : w_count (snd (lift_seq cfg name args w)) = w_count w.
Proof.
  unfold lift_seq.
  destruct (Q.lib name (map (to_v (length (w_arrs w))) args) (heap_of w)) as [r h'].
  destruct r; try destruct (c_debug cfg); reflexivity.
Qed.

(* ---- GENERIC: a library function that is pure (Model/LibMore.v lift_pure: it reads the two heaps and its arguments only -
   not the callback, not the statement counter - and its effect is new heaps plus appended log lines) neither sees the
   statement counter nor moves it.  The four premises follow from these two facts alone (see the libfull_* theorems). ---- *)
Lemma fold_add_log_upd lg : forall w k, fold_left add_log lg (upd_count w k) = upd_count (fold_left add_log lg w) k.
Proof. induction lg as [|s lg IH]; intros w k; [reflexivity|]. cbn [fold_left]. rewrite <- IH. reflexivity. Qed.

Lemma fold_add_log_count lg : forall w, w_count (fold_left add_log lg w) = w_count w.
Proof. induction lg as [|s lg IH]; intros w; [reflexivity|]. cbn [fold_left]. rewrite IH. reflexivity. Qed.

Lemma lift_pure_frame p name args w k :
  lift_pure p name args (upd_count w k) = (fst (lift_pure p name args w), upd_count (snd (lift_pure p name args w)) k).
Proof.
  unfold lift_pure. cbn [w_arrs w_objs upd_count].
  destruct (p name args (w_arrs w) (w_objs w)) as [r [[a o] lg]]. cbn [fst snd].
  change (upd_objs (upd_arrs (upd_count w k) a) o) with (upd_count (upd_objs (upd_arrs w a) o) k).
  rewrite fold_add_log_upd. reflexivity.
Qed.

Lemma lift_pure_count p name args w : w_count (snd (lift_pure p name args w)) = w_count w.
Proof.
  unfold lift_pure. destruct (p name args (w_arrs w) (w_objs w)) as [r [[a o] lg]]. cbn [snd].
  rewrite fold_add_log_count. reflexivity.
Qed.

Lemma libmore_frame cfg name args w k :
  libmore cfg name args (upd_count w k) = (fst (libmore cfg name args w), upd_count (snd (libmore cfg name args w)) k).
Proof. apply lift_pure_frame. Qed.
Lemma libmore_count cfg name args w : w_count (snd (libmore cfg name args w)) = w_count w.
Proof. apply lift_pure_count. Qed.

(* ---- arraySort: instances of Proofs/LibCall.v lib_sort_rel ---- *)
Lemma set_arr_count w l x : w_count (set_arr w l x) = w_count w.
Proof. reflexivity. Qed.

Lemma lib_sort_monotone cfg (cb : caller) : (forall fv a w, w_count w <= w_count (snd (cb fv a w))) ->
  forall args w, w_count w <= w_count (snd (lib_sort cfg cb args w)).
Proof.
  intros Hcb args w.
  pose (Le := fun a b : world => w_count a <= w_count b).
  assert (Le_refl : forall a, Le a a) by (intro; unfold Le; lia).
  assert (Le_trans : forall a b c, Le a b -> Le b c -> Le a c) by (unfold Le; intros; lia).
  assert (Hstep : forall f x y w0, Le w0 (snd (islt_cb cb f x y w0))).
  { intros f x y w0. unfold islt_cb, Le. specialize (Hcb f [x; y] w0). destruct (cb f [x; y] w0) as [o w1]. cbn [snd] in Hcb.
    destruct o as [v| | | | |]; try exact Hcb. destruct v; exact Hcb. }
  assert (Hcmp : forall x y w0, Le w0 (snd (islt_cmp x y w0))).
  { intros x y w0. unfold islt_cmp, Le. destruct (vcompare (cmp_fuel w0) w0 x y) as [[| |]|]; cbn; lia. }
  unfold lib_sort.
  destruct (validate w [A TArray; AFunN] args) as [va| |]; try (cbn; lia).
  destruct va as [|[a0|] va]; try (cbn; lia).
  destruct a0 as [| | | | |l| | |]; try (cbn; lia).
  destruct va as [|[f|] va]; try (cbn; lia).
  destruct va; try (cbn; lia).
  assert (Hpure : w_count w <= w_count (snd (match small_sort islt_cmp (get_arr w l) w with
     | (cur, None, w1) => (LVal (VArr l), set_arr w1 l cur) | (cur, Some r, w1) => (r, set_arr w1 l cur) end))).
  { pose proof (small_sort_Le islt_cmp Le Le_refl Le_trans Hcmp (get_arr w l) w) as H.
    destruct (small_sort islt_cmp (get_arr w l) w) as [[cur s] w1]. unfold Le in H. cbn [snd] in H.
    destruct s; cbn [snd]; rewrite set_arr_count; exact H. }
  assert (Hcall : w_count w <= w_count (snd (
     if Nat.leb 64 (length (get_arr w l)) then (LOracle, w) else
     match small_sort (islt_cb cb f) (get_arr w l) (set_arr w l []) with
     | (cur, Some r, w1) => match r with LRaise _ => if c_debug cfg then (LOracle, w1) else (r, set_arr w1 l cur) | _ => (r, set_arr w1 l cur) end
     | (cur, None, w1) => if is_nil (get_arr w1 l) then (LVal (VArr l), set_arr w1 l cur)
                          else if c_debug cfg then (LOracle, w1) else (LRaise (U "list modified during sort"), set_arr w1 l cur)
     end))).
  { destruct (Nat.leb 64 (length (get_arr w l))); [cbn; lia|].
    pose proof (small_sort_Le (islt_cb cb f) Le Le_refl Le_trans (Hstep f) (get_arr w l) (set_arr w l [])) as H.
    destruct (small_sort (islt_cb cb f) (get_arr w l) (set_arr w l [])) as [[cur s] w1]. unfold Le in H. cbn [snd] in H.
    rewrite set_arr_count in H.
    destruct s as [r|].
    - destruct r; cbn [snd]; try (rewrite set_arr_count; exact H). destruct (c_debug cfg); cbn [snd]; [exact H|rewrite set_arr_count; exact H].
    - destruct (is_nil (get_arr w1 l)); cbn [snd]; [rewrite set_arr_count; exact H|].
      destruct (c_debug cfg); cbn [snd]; [exact H|rewrite set_arr_count; exact H]. }
  destruct f; try exact Hcall. exact Hpure.
Qed.

(* a stop of the comparator call shows as the matching stop of the comparison *)
Lemma islt_cb_eq cb1 cb2 f x y w : cb1 f [x; y] w = cb2 f [x; y] w -> islt_cb cb1 f x y w = islt_cb cb2 f x y w.
Proof. unfold islt_cb. intros ->. reflexivity. Qed.

Lemma lib_sort_fuel_monotone cfg (cb1 cb2 : caller) : (forall fv a w, F2 (cb1 fv a w) (cb2 fv a w)) ->
  forall args w, FL (lib_sort cfg cb1 args w) (lib_sort cfg cb2 args w).
Proof.
  intros Hcb args w.
  pose (Dv := fun (r : lres) (_ : world) => r = LFuel).
  pose (Le := fun _ _ : world => True).
  assert (A1 : forall a, Le a a) by (intro; exact I).
  assert (A2 : forall a b c, Le a b -> Le b c -> Le a c) by (intros; exact I).
  assert (A3 : forall fv a w0, Le w0 (snd (cb2 fv a w0))) by (intros; exact I).
  assert (A4 : forall r a b, Dv r a -> Le a b -> Dv r b) by (intros r a b H _; exact H).
  assert (A5 : forall r w0 l x, Dv r w0 -> Dv r (set_arr w0 l x)) by (intros r w0 l x H; exact H).
  assert (A6 : forall r w0, Dv r w0 -> match r with LRaise _ => False | _ => True end) by (intros r w0 H; unfold Dv in H; subst r; exact I).
  assert (A7 : forall w0 wm specs a, w0 = wm -> validate w0 specs a = validate wm specs a) by (intros; subst; reflexivity).
  assert (A8 : forall w0 wm l, w0 = wm -> get_arr w0 l = get_arr wm l) by (intros; subst; reflexivity).
  assert (A9 : forall w0 wm l x, w0 = wm -> set_arr w0 l x = set_arr wm l x) by (intros; subst; reflexivity).
  assert (A10 : forall w0 wm x y, w0 = wm -> vcompare (cmp_fuel w0) w0 x y = vcompare (cmp_fuel wm) wm x y) by (intros; subst; reflexivity).
  assert (A11 : forall f x y w0 wm, w0 = wm ->
    (fst (islt_cb cb1 f x y w0) = fst (islt_cb cb2 f x y wm) /\ snd (islt_cb cb1 f x y w0) = snd (islt_cb cb2 f x y wm))
    \/ (exists r, fst (islt_cb cb1 f x y w0) = CStop r /\ Dv r (snd (islt_cb cb2 f x y wm)))).
  { intros f x y w0 wm <-. destruct (Hcb f [x; y] w0) as [E|E].
    - left. rewrite (islt_cb_eq _ _ _ _ _ _ E). split; reflexivity.
    - right. exists LFuel. split; [|reflexivity]. unfold islt_cb. destruct (cb1 f [x; y] w0) as [o w1]. cbn [fst] in E. subst o. reflexivity. }
  destruct (lib_sort_rel cfg cb1 cb2 eq Dv Le A1 A2 A3 A4 A5 A6 A7 A8 A9 A10 A11 args w w eq_refl) as [[H1 H2]|H].
  - left. destruct (lib_sort cfg cb1 args w), (lib_sort cfg cb2 args w). cbn [fst snd] in *. subst. reflexivity.
  - right. exact H.
Qed.

Lemma lib_sort_lockstep cfg (cb1 cb2 : caller) :
  (forall fv a w, Rel2 cfg (cb1 fv a w) (cb2 fv a w)) -> (forall fv a w, w_count w <= w_count (snd (cb2 fv a w))) ->
  forall args w, RelL cfg (lib_sort cfg cb1 args w) (lib_sort cfg cb2 args w).
Proof.
  intros Hcb Hm args w.
  pose (Dv := fun (r : lres) (w2 : world) => r = LRt (msg_exceeded (c_max cfg)) /\ c_max cfg < w_count w2).
  pose (Le := fun a b : world => w_count a <= w_count b).
  assert (A1 : forall a, Le a a) by (intro; unfold Le; lia).
  assert (A2 : forall a b c, Le a b -> Le b c -> Le a c) by (unfold Le; intros; lia).
  assert (A3 : forall fv a w0, Le w0 (snd (cb2 fv a w0))) by (intros; apply Hm).
  assert (A4 : forall r a b, Dv r a -> Le a b -> Dv r b) by (unfold Dv, Le; intros r a b [Hr Hc] Hab; split; [exact Hr|lia]).
  assert (A5 : forall r w0 l x, Dv r w0 -> Dv r (set_arr w0 l x)) by (intros r w0 l x H; exact H).
  assert (A6 : forall r w0, Dv r w0 -> match r with LRaise _ => False | _ => True end) by (intros r w0 [H _]; subst r; exact I).
  assert (A7 : forall w0 wm specs a, w0 = wm -> validate w0 specs a = validate wm specs a) by (intros; subst; reflexivity).
  assert (A8 : forall w0 wm l, w0 = wm -> get_arr w0 l = get_arr wm l) by (intros; subst; reflexivity).
  assert (A9 : forall w0 wm l x, w0 = wm -> set_arr w0 l x = set_arr wm l x) by (intros; subst; reflexivity).
  assert (A10 : forall w0 wm x y, w0 = wm -> vcompare (cmp_fuel w0) w0 x y = vcompare (cmp_fuel wm) wm x y) by (intros; subst; reflexivity).
  assert (A11 : forall f x y w0 wm, w0 = wm ->
    (fst (islt_cb cb1 f x y w0) = fst (islt_cb cb2 f x y wm) /\ snd (islt_cb cb1 f x y w0) = snd (islt_cb cb2 f x y wm))
    \/ (exists r, fst (islt_cb cb1 f x y w0) = CStop r /\ Dv r (snd (islt_cb cb2 f x y wm)))).
  { intros f x y w0 wm <-. destruct (Hcb f [x; y] w0) as [E|[E1 E2]].
    - left. rewrite (islt_cb_eq _ _ _ _ _ _ E). split; reflexivity.
    - right. exists (LRt (msg_exceeded (c_max cfg))). split.
      + unfold islt_cb. destruct (cb1 f [x; y] w0) as [o w1]. cbn [fst] in E1. subst o. reflexivity.
      + split; [reflexivity|]. unfold islt_cb. destruct (cb2 f [x; y] w0) as [o w2]. cbn [snd] in *.
        destruct o as [v| | | | |]; try exact E2. destruct v; exact E2. }
  destruct (lib_sort_rel cfg cb1 cb2 eq Dv Le A1 A2 A3 A4 A5 A6 A7 A8 A9 A10 A11 args w w eq_refl) as [[H1 H2]|H].
  - left. destruct (lib_sort cfg cb1 args w), (lib_sort cfg cb2 args w). cbn [fst snd] in *. subst. reflexivity.
  - right. exact H.
Qed.

Lemma weq_set_arr w wm l x : weq w wm -> weq (set_arr w l x) (set_arr wm l x).
Proof. intros H. rewrite (weq_repr _ _ H). reflexivity. Qed.

Lemma lib_sort_count_blind cfg (cb1 cb2 : caller) : (forall fv a w wm, weq w wm -> B2 (cb1 fv a w) (cb2 fv a wm)) ->
  forall args w wm, weq w wm -> BL (lib_sort cfg cb1 args w) (lib_sort cfg cb2 args wm).
Proof.
  intros Hcb args w wm Hw.
  pose (Dv := fun (_ : lres) (_ : world) => False).
  pose (Le := fun _ _ : world => True).
  assert (A1 : forall a, Le a a) by (intro; exact I).
  assert (A2 : forall a b c, Le a b -> Le b c -> Le a c) by (intros; exact I).
  assert (A3 : forall fv a w0, Le w0 (snd (cb2 fv a w0))) by (intros; exact I).
  assert (A4 : forall r a b, Dv r a -> Le a b -> Dv r b) by (intros r a b H _; exact H).
  assert (A5 : forall r w0 l x, Dv r w0 -> Dv r (set_arr w0 l x)) by (intros r w0 l x H; exact H).
  assert (A6 : forall r w0, Dv r w0 -> match r with LRaise _ => False | _ => True end) by (intros r w0 H; destruct H).
  assert (A7 : forall w0 wm0 specs a, weq w0 wm0 -> validate w0 specs a = validate wm0 specs a).
  { intros w0 wm0 specs a H0. rewrite (weq_repr _ _ H0). symmetry. apply validate_blind. }
  assert (A8 : forall w0 wm0 l, weq w0 wm0 -> get_arr w0 l = get_arr wm0 l).
  { intros w0 wm0 l H0. unfold get_arr. destruct (weq_fields _ _ H0) as (_ & Ha & _). rewrite Ha. reflexivity. }
  assert (A9 : forall w0 wm0 l x, weq w0 wm0 -> weq (set_arr w0 l x) (set_arr wm0 l x)) by (intros; apply weq_set_arr; assumption).
  assert (A10 : forall w0 wm0 x y, weq w0 wm0 -> vcompare (cmp_fuel w0) w0 x y = vcompare (cmp_fuel wm0) wm0 x y).
  { intros w0 wm0 x y H0. rewrite (weq_repr _ _ H0). change (cmp_fuel (upd_count w0 (w_count wm0))) with (cmp_fuel w0).
    symmetry. apply vcompare_blind. }
  assert (A11 : forall f x y w0 wm0, weq w0 wm0 ->
    (fst (islt_cb cb1 f x y w0) = fst (islt_cb cb2 f x y wm0) /\ weq (snd (islt_cb cb1 f x y w0)) (snd (islt_cb cb2 f x y wm0)))
    \/ (exists r, fst (islt_cb cb1 f x y w0) = CStop r /\ Dv r (snd (islt_cb cb2 f x y wm0)))).
  { intros f x y w0 wm0 H0. left. destruct (Hcb f [x; y] w0 wm0 H0) as [Ho Hw1]. unfold islt_cb.
    destruct (cb1 f [x; y] w0) as [o1 w1]. destruct (cb2 f [x; y] wm0) as [o2 w2]. cbn [fst snd] in *. subst o2.
    destruct o1 as [v| | | | |]; try (split; [reflexivity|exact Hw1]). destruct v; split; try reflexivity; exact Hw1. }
  destruct (lib_sort_rel cfg cb1 cb2 weq Dv Le A1 A2 A3 A4 A5 A6 A7 A8 A9 A10 A11 args w wm Hw) as [H|H]; [exact H|destruct H].
Qed.

(* ---- the combined library ---- *)
Lemma libfull_unfold cfg cb name args w :
  libfull cfg cb name args w =
  if text_override name args then libmore cfg name args w
  else if str_mem name core_names then libcore cfg cb name args w
  else if op_is name "arraySort" then lib_sort cfg cb args w
  else if str_mem name Q.modelled_functions then lift_seq cfg name args w
  else if str_mem name more_names then libmore cfg name args w else (LOracle, w).
Proof. reflexivity. Qed.

Theorem libfull_fuel_monotone cfg : lib_fuel_monotone (libfull cfg).
Proof.
  intros cb1 cb2 Hcb name args w. rewrite !libfull_unfold.
  destruct (text_override name args); [left; reflexivity|].
  destruct (str_mem name core_names); [left; reflexivity|].
  destruct (op_is name "arraySort"); [apply lib_sort_fuel_monotone; exact Hcb|]. left. reflexivity.
Qed.

Theorem libfull_monotone cfg : lib_monotone (libfull cfg).
Proof.
  intros cb Hcb name args w. rewrite libfull_unfold.
  destruct (text_override name args); [rewrite libmore_count; lia|].
  destruct (str_mem name core_names); [rewrite libcore_count; lia|].
  destruct (op_is name "arraySort"); [apply lib_sort_monotone; exact Hcb|].
  destruct (str_mem name Q.modelled_functions); [rewrite lift_seq_count; lia|].
  destruct (str_mem name more_names); [rewrite libmore_count; lia|cbn; lia].
Qed.

Theorem libfull_lockstep cfg : lib_lockstep (libfull cfg) cfg.
Proof.
  intros cb1 cb2 Hcb Hm name args w. rewrite !libfull_unfold.
  destruct (text_override name args); [left; reflexivity|].
  destruct (str_mem name core_names); [left; reflexivity|].
  destruct (op_is name "arraySort"); [apply lib_sort_lockstep; assumption|]. left. reflexivity.
Qed.

Theorem libfull_count_blind cfg : lib_count_blind (libfull cfg).
Proof.
  intros cb1 cb2 Hcb name args w wm Hw. rewrite !libfull_unfold.
  destruct (text_override name args).
  { rewrite (weq_repr _ _ Hw). rewrite libmore_frame. split; [reflexivity|]. cbn [snd]. apply weq_upd. }
  destruct (str_mem name core_names); [apply (libcore_count_blind cfg cb1 cb2 Hcb name args w wm Hw)|].
  destruct (op_is name "arraySort"); [apply lib_sort_count_blind; assumption|].
  rewrite (weq_repr _ _ Hw).
  destruct (str_mem name Q.modelled_functions).
  - rewrite lift_seq_frame. split; [reflexivity|]. cbn [snd]. apply weq_upd.
  - destruct (str_mem name more_names).
    + rewrite libmore_frame. split; [reflexivity|]. cbn [snd]. apply weq_upd.
    + split; [reflexivity|]. cbn [snd]. apply weq_upd.
Qed.

(* ---- the two library contracts of the `for` simulation (Proofs/C01for.v) hold for the combined library ---- *)
From BS Require Import Proofs.C01for.

Lemma libfull_arrayLength cfg : arrayLength_contract (libfull cfg).
Proof.
  intros cb l w elems H.
  change (libfull cfg cb ARRLEN [VArr l] w) with (libcore cfg cb ARRLEN [VArr l] w).
  apply libcore_arrayLength. exact H.
Qed.

Lemma libfull_arrayGet cfg : arrayGet_contract (libfull cfg).
Proof.
  intros cb l i w elems v H Hi.
  change (libfull cfg cb ARRGET [VArr l; int_v i] w) with (libcore cfg cb ARRGET [VArr l; int_v i] w).
  apply (libcore_arrayGet cfg cb l i w elems v H Hi).
Qed.
