(* Proofs/C01c.v — [compile] of Proofs/C01.v IS the lowering that the parser performs: folding the parser's pure
   lowering step [kstep] (Model/Lower.v; Proofs/C07eq.v proves  pstep = classify ; kstep) over the line kinds of a
   statement tree appends exactly [compile] of that tree to the statement list, advances the label counter to
   compile's counter and restores the frame stack.  Global scope, fragment of Proofs/C01.v without `continue`
   (the guarded fragment has none: every continue of the for-free fragment is inside a while). *)
From Coq Require Import Lia List Bool.
From BS Require Import Model.Base Model.Num Model.ExprParser Model.Script Model.Lower Model.RunC01 Proofs.C01.
Import ListNotations.

(* the logical lines of a tree, as classified line kinds *)
Fixpoint kinds (s : sstmt) : list line_kind :=
  match s with
  | TSkip => []
  | TSeq a b => kinds a ++ kinds b
  | TAssign x e => [KAssign x e]
  | TExpr e => [KExpr e]
  | TReturn e => [KReturn e]
  | TBreak => [KBreak]
  | TContinue => [KContinue]
  | TIf c a rest => Lower.KIf c :: kinds a ++ krest rest ++ [KEndif]
  | TElse b => kinds b
  | TWhile c b => KWhile c :: kinds b ++ [KEndwhile]
  end
with krest (rest : sstmt) : list line_kind :=
  match rest with
  | TIf c2 a2 rest2 => KElif (ROk c2) :: kinds a2 ++ krest rest2
  | TElse b => KElse :: kinds b
  | _ => []
  end.

(* the parser loop restricted to already classified lines (line number / text only feed error reports) *)
(* ann i = (line number, line text) of the i-th logical line: arbitrary, the lowering does not depend on them *)
Fixpoint kfold (ann : nat -> nat * str) (i : nat) (ps : pstate) (ks : list line_kind) : sres pstate :=
  match ks with
  | [] => ROk ps
  | k :: t => match kstep ps (fst (ann i)) (snd (ann i)) k with
              | ROk ps1 => kfold ann (S i) ps1 t | RErr e => RErr e | RHost w => RHost w | RFuel => RFuel end
  end.

Lemma kfold_app ann i ps k1 k2 ps1 : kfold ann i ps k1 = ROk ps1 -> kfold ann i ps (k1 ++ k2) = kfold ann (i + length k1) ps1 k2.
Proof.
  revert i ps. induction k1 as [|k t IH]; intros i ps H; cbn [app kfold length] in *.
  - injection H as ->. rewrite PeanoNat.Nat.add_0_r. reflexivity.
  - destruct (kstep ps (fst (ann i)) (snd (ann i)) k); try discriminate. rewrite (IH (S i) _ H). f_equal. lia.
Qed.

(* the innermost enclosing loop, as break/continue see it *)
Definition ctx_of (fr : list frame) : option (str * str) :=
  match find_loop fr 0 with Some (_, f) => Some (frame_done f, frame_continue f) | None => None end.

Lemma find_loop_shift fr : forall k, find_loop fr (S k) = option_map (fun kf => (S (fst kf), snd kf)) (find_loop fr k).
Proof.
  induction fr as [|f t IH]; intros k; cbn [find_loop]; [reflexivity|]. destruct (is_if_frame f); [apply IH|reflexivity].
Qed.

Lemma ctx_of_if pos jl done he l n fr : ctx_of (FIf pos jl done he l n :: fr) = ctx_of fr.
Proof. unfold ctx_of. cbn [find_loop is_if_frame]. rewrite find_loop_shift. destruct (find_loop fr 0) as [[k f]|]; reflexivity. Qed.

Definition gstate (code : list stmt) (depth : nat) (fr : list frame) (n : nat) : pstate :=
  {| ps_global := code; ps_fn := None; ps_fn_depth := depth; ps_frames := fr; ps_index := n |}.

Lemma retarget_at X jl cc Y done : retarget (length X) done (X ++ SJump jl cc :: Y) = Some (X ++ SJump done cc :: Y).
Proof. induction X as [|x X IH]; cbn [length app retarget]; [reflexivity|]. rewrite IH. destruct x; reflexivity. Qed.

(* one-step equations of the lowering (by reflexivity) *)
Lemma compile_seq lab ctx n a b :
  compile lab ctx n (TSeq a b) = (let '(ca, n1) := compile lab ctx n a in let '(cb, n2) := compile lab ctx n1 b in (ca ++ cb, n2)).
Proof. reflexivity. Qed.
Lemma compile_if lab ctx n c a rest :
  compile lab ctx n (TIf c a rest) =
  (let '(ca, n1) := compile lab ctx (S n) a in
   let '(cr, n2) := crest lab ctx (lab C01.KDone n) (lab C01.KIf n) n1 rest in
   (branch_head (lab C01.KDone n) (lab C01.KIf n) c rest :: ca ++ cr ++ [SLabel (lab C01.KDone n)], n2)).
Proof. reflexivity. Qed.
Lemma compile_while lab ctx n c b :
  compile lab ctx n (TWhile c b) =
  (let '(cb, n1) := compile lab (Some (lab C01.KDone n, lab C01.KLoop n)) (S n) b in
   ([SJump (lab C01.KDone n) (Some (e_not c)); SLabel (lab C01.KLoop n)] ++ cb ++ [SJump (lab C01.KLoop n) (Some c); SLabel (lab C01.KDone n)], n1)).
Proof. reflexivity. Qed.
Lemma crest_if lab ctx done jl n c2 a2 rest2 :
  crest lab ctx done jl n (TIf c2 a2 rest2) =
  (let '(ca2, n1) := compile lab ctx (S n) a2 in
   let '(cr2, n2) := crest lab ctx done (lab C01.KIf n) n1 rest2 in
   ([SJump done None; SLabel jl] ++ branch_head done (lab C01.KIf n) c2 rest2 :: ca2 ++ cr2, n2)).
Proof. reflexivity. Qed.
Lemma crest_else lab ctx done jl n b :
  crest lab ctx done jl n (TElse b) = (let '(cb, n2) := compile lab ctx n b in ([SJump done None; SLabel jl] ++ cb, n2)).
Proof. reflexivity. Qed.

Definition PL (s : sstmt) : Prop :=
  forall ann i code depth fr n, wf (is_some (ctx_of fr)) s = true -> no_continue s = true ->
    kfold ann i (gstate code depth fr n) (kinds s) =
    ROk (gstate (code ++ fst (compile real_lab (ctx_of fr) n s)) depth fr (snd (compile real_lab (ctx_of fr) n s))).

(* after a branch body: the pending conditional jump of that branch sits at position |X| *)
Definition RL (rest : sstmt) : Prop :=
  forall ann i X jl cc Y done depth fr m l0 n0, wf (is_some (ctx_of fr)) rest = true -> no_continue rest = true -> rest_ok rest = true ->
    kfold ann i (gstate (X ++ SJump jl cc :: Y) depth (FIf (length X) jl done false l0 n0 :: fr) m) (krest rest ++ [KEndif]) =
    ROk (gstate (X ++ SJump (match rest with TSkip => done | _ => jl end) cc :: Y ++ fst (crest real_lab (ctx_of fr) done jl m rest) ++ [SLabel done])
                depth fr (snd (crest real_lab (ctx_of fr) done jl m rest))).

Lemma emit_g code depth fr n l : emit (gstate code depth fr n) l = gstate (code ++ l) depth fr n.
Proof. reflexivity. Qed.
Lemma cur_g code depth fr n : cur_stmts (gstate code depth fr n) = code.
Proof. reflexivity. Qed.
Lemma set_stmts_g code depth fr n l : set_stmts (gstate code depth fr n) l = gstate l depth fr n.
Proof. reflexivity. Qed.
Lemma set_frames_g code depth fr n fr' : set_frames (gstate code depth fr n) fr' = gstate code depth fr' n.
Proof. reflexivity. Qed.
Lemma bump_g code depth fr n : bump (gstate code depth fr n) = gstate code depth fr (S n).
Proof. reflexivity. Qed.
Lemma floor_g code depth fr n : depth_floor (gstate code depth fr n) = 0.
Proof. reflexivity. Qed.
Lemma frames_g code depth fr n : ps_frames (gstate code depth fr n) = fr.
Proof. reflexivity. Qed.
Lemma index_g code depth fr n : ps_index (gstate code depth fr n) = n.
Proof. reflexivity. Qed.
Ltac gnorm := rewrite ?floor_g, ?frames_g, ?index_g, ?cur_g, ?emit_g, ?set_stmts_g, ?set_frames_g, ?bump_g.

Lemma lower_is_compile : forall s, PL s /\ RL s.
Proof.
  assert (Hnrl : forall s, rest_ok s = false -> RL s).
  { intros s H ann i X jl cc Y done depth fr m l0 n0 _ _ Hro. congruence. }
  induction s as [ |a [IHa _] b [IHb _]|x e|e|e| | |c a [IHa _] rest [IHr IHrr]|b [IHb _]|c b [IHb _]];
    (split; [|try (apply Hnrl; reflexivity)]).
  - (* TSkip *) intros ann i code depth fr n _ _. cbn. rewrite app_nil_r. reflexivity.
  - (* TSkip as the rest of a chain: endif retargets the pending jump *)
    intros ann i X jl cc Y done depth fr m l0 n0 _ _ _. cbn [krest app kfold kstep]. gnorm. cbn [length Nat.ltb Nat.leb].
    rewrite retarget_at. gnorm. cbn [crest fst snd app kfold]. rewrite <- app_assoc. reflexivity.
  - (* TSeq *)
    intros ann i code depth fr n Hwf Hnc. rewrite compile_seq. cbn [kinds wf no_continue] in *.
    apply andb_prop in Hwf. destruct Hwf as [Hwa Hwb]. apply andb_prop in Hnc. destruct Hnc as [Hna Hnb].
    rewrite (kfold_app _ _ _ _ _ _ (IHa ann i code depth fr n Hwa Hna)).
    destruct (compile real_lab (ctx_of fr) n a) as [ca n1]. cbn [fst snd].
    rewrite (IHb ann _ (code ++ ca) depth fr n1 Hwb Hnb).
    destruct (compile real_lab (ctx_of fr) n1 b) as [cb n2]. cbn [fst snd]. rewrite app_assoc. reflexivity.
  - intros ann i code depth fr n _ _. reflexivity.
  - intros ann i code depth fr n _ _. reflexivity.
  - intros ann i code depth fr n _ _. reflexivity.
  - (* TBreak *)
    intros ann i code depth fr n Hwf _. cbn [wf kinds compile kfold kstep] in *. unfold ctx_of in *. gnorm.
    destruct (find_loop fr 0) as [[k f]|]; [|discriminate]. cbn [Nat.ltb]. gnorm. reflexivity.
  - (* TContinue: excluded *) intros ann i code depth fr n _ Hnc. discriminate.
  - (* TIf *)
    intros ann i code depth fr n Hwf Hnc. rewrite compile_if. cbn [kinds wf no_continue] in *.
    apply andb_prop in Hwf. destruct Hwf as [Hwf Hro]. apply andb_prop in Hwf. destruct Hwf as [Hwa Hwr].
    apply andb_prop in Hnc. destruct Hnc as [Hna Hnr].
    cbn [kfold kstep]. gnorm.
    assert (Hwa' : wf (is_some (ctx_of (FIf (length code) (lbl L_If n) (lbl L_Done n) false (snd (ann i)) (fst (ann i)) :: fr))) a = true) by (rewrite ctx_of_if; exact Hwa).
    rewrite (kfold_app _ _ _ _ _ _ (IHa ann (S i) _ depth _ (S n) Hwa' Hna)). rewrite ctx_of_if.
    change (lbl L_If n) with (real_lab C01.KIf n). change (lbl L_Done n) with (real_lab C01.KDone n).
    destruct (compile real_lab (ctx_of fr) (S n) a) as [ca n1]. cbn [fst snd].
    rewrite <- app_assoc. cbn [app].
    rewrite (IHrr ann _ code (real_lab C01.KIf n) (Some (e_not c)) ca (real_lab C01.KDone n) depth fr n1 _ _ Hwr Hnr Hro).
    destruct (crest real_lab (ctx_of fr) (real_lab C01.KDone n) (real_lab C01.KIf n) n1 rest) as [cr n2]. cbn [fst snd].
    unfold branch_head. reflexivity.
  - (* TIf as the rest of a chain: elif *)
    intros ann i X jl cc Y done depth fr m l0 n0 Hwf Hnc _. cbn [krest wf no_continue] in *.
    apply andb_prop in Hwf. destruct Hwf as [Hwf Hro]. apply andb_prop in Hwf. destruct Hwf as [Hwa Hwr].
    apply andb_prop in Hnc. destruct Hnc as [Hna Hnr].
    cbn [app kfold kstep]. gnorm. cbn [length Nat.ltb Nat.leb]. gnorm.
    set (code1 := (X ++ SJump jl cc :: Y) ++ [SJump done None; SLabel jl; SJump (lbl L_If m) (Some (e_not c))]).
    assert (Hwa' : wf (is_some (ctx_of (FIf (length (X ++ SJump jl cc :: Y) + 2) (lbl L_If m) done false l0 n0 :: fr))) a = true) by (rewrite ctx_of_if; exact Hwa).
    rewrite <- app_assoc.
    rewrite (kfold_app _ _ _ _ _ _ (IHa ann (S i) _ depth _ (S m) Hwa' Hna)). rewrite ctx_of_if.
    change (lbl L_If m) with (real_lab C01.KIf m) in *.
    rewrite crest_if. destruct (compile real_lab (ctx_of fr) (S m) a) as [ca n1]. cbn [fst snd].
    set (X' := (X ++ SJump jl cc :: Y) ++ [SJump done None; SLabel jl]).
    assert (E1 : code1 ++ ca = X' ++ SJump (real_lab C01.KIf m) (Some (e_not c)) :: ca).
    { subst code1 X'. rewrite <- !app_assoc. reflexivity. }
    assert (E2 : length (X ++ SJump jl cc :: Y) + 2 = length X').
    { subst X'. rewrite (app_length (X ++ SJump jl cc :: Y)). reflexivity. }
    rewrite E1, E2.
    rewrite (IHrr ann _ X' (real_lab C01.KIf m) (Some (e_not c)) ca done depth fr n1 l0 n0 Hwr Hnr Hro).
    destruct (crest real_lab (ctx_of fr) done (real_lab C01.KIf m) n1 rest) as [cr n2]. cbn [fst snd].
    subst X'. unfold branch_head. f_equal. unfold gstate. f_equal. repeat (rewrite <- app_assoc; cbn [app]). reflexivity.
  - (* TElse *) intros ann i code depth fr n Hwf Hnc. cbn [kinds wf no_continue] in *. change (compile real_lab (ctx_of fr) n (TElse b)) with (compile real_lab (ctx_of fr) n b). apply IHb; assumption.
  - (* TElse as the rest of a chain *)
    intros ann i X jl cc Y done depth fr m l0 n0 Hwf Hnc _. cbn [krest wf no_continue] in *.
    cbn [app kfold kstep]. gnorm. cbn [length Nat.ltb Nat.leb]. gnorm.
    assert (Hwb' : wf (is_some (ctx_of (FIf (length X) jl done true l0 n0 :: fr))) b = true) by (rewrite ctx_of_if; exact Hwf).
    rewrite (kfold_app _ _ _ _ _ _ (IHb ann (S i) _ depth _ m Hwb' Hnc)). rewrite ctx_of_if.
    rewrite crest_else. destruct (compile real_lab (ctx_of fr) m b) as [cb n2]. cbn [fst snd].
    cbn [kfold kstep]. gnorm. cbn [length Nat.ltb Nat.leb]. gnorm. cbn [kfold].
    unfold gstate. f_equal. f_equal. repeat (rewrite <- app_assoc; cbn [app]). reflexivity.
  - (* TWhile *)
    intros ann i code depth fr n Hwf Hnc. rewrite compile_while. cbn [kinds wf no_continue] in *.
    cbn [kfold kstep]. gnorm.
    set (fw := FWhile (lbl L_Loop n) (lbl L_Loop n) (lbl L_Done n) c false (snd (ann i)) (fst (ann i))).
    assert (Hctx : ctx_of (fw :: fr) = Some (real_lab C01.KDone n, real_lab C01.KLoop n)) by reflexivity.
    assert (Hwb' : wf (is_some (ctx_of (fw :: fr))) b = true) by (rewrite Hctx; exact Hwf).
    rewrite (kfold_app _ _ _ _ _ _ (IHb ann (S i) _ depth _ (S n) Hwb' Hnc)). rewrite Hctx.
    destruct (compile real_lab (Some (real_lab C01.KDone n, real_lab C01.KLoop n)) (S n) b) as [cb n1]. cbn [fst snd].
    cbn [kfold kstep]. gnorm. cbn [length Nat.leb]. subst fw. cbv iota. gnorm. cbn [kfold].
    unfold gstate. f_equal. f_equal. repeat (rewrite <- app_assoc; cbn [app]). reflexivity.
Qed.

(* a whole global scope, from the parser's initial state *)
Theorem lowering_of_a_scope : forall ann s, wf false s = true -> no_continue s = true ->
  kfold ann 0 ps_init (kinds s) = ROk (gstate (fst (compile real_lab None 0 s)) 0 [] (snd (compile real_lab None 0 s))).
Proof.
  intros ann s Hwf Hnc. destruct (lower_is_compile s) as [HP _].
  exact (HP ann 0 [] 0 [] 0 Hwf Hnc).
Qed.

(* in the guarded, well-formed fragment there is no `continue` at all *)
Lemma guard_wf_no_continue : forall s, wf false s = true -> guard s = true -> no_continue s = true.
Proof.
  assert (H : forall s, (wf false s = true -> guard s = true -> no_continue s = true) /\ (wf true s = true -> guard s = true -> True)).
  { induction s; split; cbn [wf guard no_continue]; intros; auto;
      repeat match goal with H : (_ && _)%bool = true |- _ => apply andb_prop in H; destruct H end;
      repeat match goal with IH : _ /\ _ |- _ => destruct IH end; try discriminate; try (apply andb_true_intro; split); auto. }
  intros s. apply H.
Qed.
