(* Proofs/C02rx.v — what the regex engine answers on the token regexes of the expression parser, as direct functions of
   the text, for EVERY text (Proofs/RegexEval.v: engine with its fuel = the fuel-free evaluator ev), and what follows for
   C02:
     binop_answer      re_match on the regenerated _R_EXPR_BINARY_OP = skip white space, then the FIRST of the fourteen
                       operator spellings, in the pattern's alternation order, that is a prefix of the rest;
     binop_known       hence the captured operator is always one of the fourteen documented operators;
     parser_known      hence every tree returned by parse_binary / parse_unary / parse_args has documented operators only;
     parse_expression_WP_total   C02_sound WITHOUT its side condition `ops_known e`.
   Also the direct answers for the one-character tokens ( ( ) , ), the unary operators, identifiers and function-call
   openers (unary_answer, lit_tok_answer, variable_answer, function_open_answer), and the number literal (C13rx).
   All are stated about the generated constants of Gen/Regexes.v: a changed pattern breaks the proofs. *)
From Coq Require Import Lia.
From BS Require Import Model.Base Model.Num Model.Regex Model.NumText Model.ExprParser Gen.Unicode Gen.Regexes Gen.Tables
  Proofs.BaseFacts Proofs.RegexFacts Proofs.RegexComplete Proofs.RegexShift Proofs.RegexEval Proofs.NumLit Proofs.C13rx Proofs.C02.

(* ================================================================== A. sequences of literals, ordered alternatives *)
Fixpoint lit_seq (w : str) : regex :=
  match w with
  | [] => REps
  | a :: t => match t with [] => RLit a | _ => RCat (RLit a) (lit_seq t) end
  end.
Fixpoint alt_seq (ws : list str) : regex :=
  match ws with
  | [] => RIn false []
  | w :: t => match t with [] => lit_seq w | _ => RAlt (lit_seq w) (alt_seq t) end
  end.
Fixpoint is_prefix (w r : str) : bool :=
  match w, r with
  | [], _ => true
  | a :: w', y :: r' => (y =? a)%N && is_prefix w' r'
  | _ :: _, [] => false
  end.
Fixpoint first_prefix (ws : list str) (r : str) : option str :=
  match ws with
  | [] => None
  | w :: t => if is_prefix w r then Some w else first_prefix t r
  end.

Lemma ev_lit_seq : forall w p r c k,
  ev UC (lit_seq w) p r c k = if is_prefix w r then k (p + length w) (skipn (length w) r) c else MNo.
Proof.
  induction w as [|a t IH]; intros p r c k.
  - cbn [lit_seq is_prefix length skipn]. rewrite ev_eps, Nat.add_0_r. reflexivity.
  - destruct t as [|b t'].
    + cbn [lit_seq]. rewrite (ev_one UC _ _ (one_lit UC a)). destruct r as [|y r']; [reflexivity|].
      cbn [is_prefix length skipn]. rewrite andb_true_r. replace (p + 1) with (S p) by lia. reflexivity.
    + change (lit_seq (a :: b :: t')) with (RCat (RLit a) (lit_seq (b :: t'))).
      rewrite ev_cat. rewrite (ev_one UC _ _ (one_lit UC a)). destruct r as [|y r']; [reflexivity|].
      change (is_prefix (a :: b :: t') (y :: r')) with ((y =? a)%N && is_prefix (b :: t') r').
      destruct (y =? a)%N; [|reflexivity]. rewrite IH. cbn [andb].
      change (length (a :: b :: t')) with (S (length (b :: t'))). cbn [skipn].
      replace (p + S (length (b :: t'))) with (S p + length (b :: t')) by lia. reflexivity.
Qed.

Lemma ev_alt_seq (k : kont) : (forall p r c, k p r c <> MNo) -> forall ws p r c,
  ev UC (alt_seq ws) p r c k =
  match first_prefix ws r with Some w => k (p + length w) (skipn (length w) r) c | None => MNo end.
Proof.
  intros K. induction ws as [|w t IH]; intros p r c.
  - cbn [alt_seq first_prefix]. rewrite (ev_one UC _ _ (one_in UC false [])). destruct r; reflexivity.
  - destruct t as [|w2 t'].
    + cbn [alt_seq first_prefix]. rewrite ev_lit_seq. destruct (is_prefix w r); reflexivity.
    + change (alt_seq (w :: w2 :: t')) with (RAlt (lit_seq w) (alt_seq (w2 :: t'))).
      rewrite ev_alt, ev_lit_seq. change (first_prefix (w :: w2 :: t') r) with (if is_prefix w r then Some w else first_prefix (w2 :: t') r).
      destruct (is_prefix w r).
      * specialize (K (p + length w) (skipn (length w) r) c).
        destruct (k (p + length w) (skipn (length w) r) c); [congruence | reflexivity | reflexivity].
      * apply IH.
Qed.

Lemma first_prefix_In ws r w : first_prefix ws r = Some w -> In w ws /\ is_prefix w r = true.
Proof.
  induction ws as [|x t IH]; cbn [first_prefix]; [discriminate|]. destruct (is_prefix x r) eqn:E.
  - intros H. inversion H; subst. split; [left; reflexivity | exact E].
  - intros H. destruct (IH H) as [I P]. split; [right; exact I | exact P].
Qed.

Lemma is_prefix_firstn : forall w r, is_prefix w r = true -> firstn (length w) r = w.
Proof.
  induction w as [|a w IH]; intros r H; [reflexivity|]. destruct r as [|y r]; [discriminate|].
  cbn [is_prefix] in H. apply andb_true_iff in H. destruct H as [E P]. apply N.eqb_eq in E. subst y.
  cbn [length firstn]. rewrite IH by exact P. reflexivity.
Qed.

(* ================================================================== B. the token shape  ^\s*B *)
Definition rspW : regex := RRep 0 None (RIn false [CCat CatSpace]).

Lemma tok_answer_gen (B : regex) (spec : nat -> str -> mres) :
  (forall q r, ev UC B q r [] kfin = spec q r) ->
  (forall q y t, is_space_u y = true -> spec q (y :: t) = MNo) ->
  forall s, re_match UC (RCat RBol (RCat rspW B)) s = spec (fst (span_p is_space_u s)) (snd (span_p is_space_u s)).
Proof.
  intros HB HS s. rewrite re_match_ev. rewrite ev_cat, ev_bol. cbn [Nat.eqb]. rewrite ev_cat.
  unfold rspW. rewrite (ev_star UC _ _ (one_in UC false _)). fold cmW.
  (* the continuation only ever sees the empty capture table *)
  assert (G : forall rest pos, star_bt cmW (fun p r' c' => ev UC B p r' c' kfin) pos rest [] =
                               ev UC B (pos + fst (span cmW rest)) (snd (span cmW rest)) [] kfin).
  { induction rest as [|y t IH]; intros pos; cbn [star_bt span].
    - cbn [fst snd]. rewrite Nat.add_0_r. reflexivity.
    - destruct (cmW y) eqn:E.
      + rewrite IH. destruct (span cmW t) as [n r]. cbn [fst snd].
        replace (pos + S n) with (S pos + n) by lia.
        destruct (ev UC B (S pos + n) r [] kfin) eqn:Ek; try reflexivity.
        rewrite HB. apply HS. rewrite <- cmW_is. exact E.
      + cbn [fst snd]. rewrite Nat.add_0_r. reflexivity. }
  rewrite G. rewrite spanW. cbn [Nat.add]. apply HB.
Qed.

Lemma tok_answer (B : regex) (body : str -> option nat) (cf : nat -> nat -> caps) :
  (forall q r, ev UC B q r [] kfin = match body r with Some n => MYes (q + n) (cf q n) | None => MNo end) ->
  (forall y t, is_space_u y = true -> body (y :: t) = None) ->
  forall s, re_match UC (RCat RBol (RCat rspW B)) s =
    match body (snd (span_p is_space_u s)) with
    | Some n => MYes (fst (span_p is_space_u s) + n) (cf (fst (span_p is_space_u s)) n)
    | None => MNo
    end.
Proof.
  intros HB HS s.
  apply (tok_answer_gen B (fun q r => match body r with Some n => MYes (q + n) (cf q n) | None => MNo end)).
  - exact HB.
  - intros q y t S. rewrite (HS y t S). reflexivity.
Qed.

(* ================================================================== C. the binary operator token *)
Lemma binop_regex_shape : R_EXPR_BINARY_OP = RCat RBol (RCat rspW (RGroup 1 (alt_seq spec_ops))).
Proof. reflexivity. Qed.

Definition op_len (r : str) : option nat := option_map (@length N) (first_prefix spec_ops r).
Definition cap1 (a n : nat) : caps := [(1%nat, (a, a + n))].

Lemma ops_start_nonspace : forallb (fun w => match w with a :: _ => negb (is_space UC a) | [] => false end) spec_ops = true.
Proof. vm_compute. reflexivity. Qed.

Lemma first_prefix_space y t : is_space_u y = true -> first_prefix spec_ops (y :: t) = None.
Proof.
  intros S. pose proof ops_start_nonspace as H. rewrite forallb_forall in H.
  assert (G : forall ws, (forall w, In w ws -> In w spec_ops) -> first_prefix ws (y :: t) = None).
  { induction ws as [|w ws IH]; intros I; [reflexivity|]. cbn [first_prefix].
    specialize (H w (I w (or_introl eq_refl))). destruct w as [|a w']; [discriminate|].
    cbn [is_prefix]. destruct (y =? a)%N eqn:E.
    - apply N.eqb_eq in E. subst a. unfold is_space_u in S. rewrite S in H. discriminate.
    - cbn [andb]. apply IH. intros w0 I0. apply I. right. exact I0. }
  apply G. auto.
Qed.

Theorem binop_answer s :
  re_match UC R_EXPR_BINARY_OP s =
  match op_len (snd (span_p is_space_u s)) with
  | Some n => MYes (fst (span_p is_space_u s) + n) (cap1 (fst (span_p is_space_u s)) n)
  | None => MNo
  end.
Proof.
  rewrite binop_regex_shape. apply tok_answer.
  - intros q r. rewrite ev_group. rewrite ev_alt_seq by discriminate. unfold op_len.
    destruct (first_prefix spec_ops r) as [w|]; reflexivity.
  - intros y t S. unfold op_len. rewrite first_prefix_space by exact S. reflexivity.
Qed.

Lemma sub_list_span text w : is_prefix w (snd (span_p is_space_u text)) = true ->
  sub_list text (fst (span_p is_space_u text)) (length w) = w.
Proof.
  intros P. unfold sub_list. change (span_p is_space_u text) with (span is_space_u text) in *.
  rewrite <- span_skipn. apply is_prefix_firstn. exact P.
Qed.

(* the operator the parser reads is one of the fourteen *)
Theorem binop_token text e c : rx R_EXPR_BINARY_OP text = MYes e c ->
  In (grp text c 1) spec_ops /\ e = fst (span_p is_space_u text) + length (grp text c 1).
Proof.
  unfold rx. rewrite binop_answer. unfold op_len.
  destruct (first_prefix spec_ops (snd (span_p is_space_u text))) as [w|] eqn:F; [|discriminate].
  cbn [option_map]. intros H. inversion H; subst e c. clear H.
  destruct (first_prefix_In _ _ _ F) as [I P].
  assert (G : grp text (cap1 (fst (span_p is_space_u text)) (length w)) 1 = w).
  { unfold grp, group_text, cap1. cbn [cap_get Nat.eqb].
    replace (fst (span_p is_space_u text) + length w - fst (span_p is_space_u text)) with (length w) by lia.
    apply sub_list_span. exact P. }
  rewrite G. split; [exact I | reflexivity].
Qed.

Theorem binop_known text e c : rx R_EXPR_BINARY_OP text = MYes e c -> known (grp text c 1) = true.
Proof.
  intros H. destruct (binop_token text e c H) as [I _].
  pose proof (proj1 table_ops_are_the_documented_ones) as K. rewrite forallb_forall in K. apply K. exact I.
Qed.

(* ================================================================== D. every tree the parser returns has documented operators *)
Definition known_b (left : option expr) (r : pres (expr * str)) : Prop :=
  match r with POk (e, _) => (match left with Some l => ops_known l | None => True end) -> ops_known e | _ => True end.
Definition known_u (r : pres (expr * str)) : Prop := match r with POk (e, _) => ops_known e | _ => True end.
Definition known_a (acc : list expr) (r : pres (list expr * str)) : Prop :=
  match r with POk (args, _) => Forall ops_known acc -> Forall ops_known args | _ => True end.

Lemma parser_known : forall fuel,
  (forall text left, known_b left (parse_binary fuel text left)) /\
  (forall text, known_u (parse_unary fuel text)) /\
  (forall text acc, known_a acc (parse_args fuel text acc)).
Proof.
  induction fuel as [|f (IHb & IHu & IHa)]; [repeat split; intros; exact I|].
  split; [|split].
  - intros text left. cbn [parse_binary].
    assert (Hleft : match (match left with Some l => POk (l, text) | None => parse_unary f text end) with
                    | POk (le, _) => (match left with Some l => ops_known l | None => True end) -> ops_known le
                    | _ => True end).
    { destruct left as [l|]; [exact (fun K => K)|]. specialize (IHu text).
      destruct (parse_unary f text) as [[e r]| | |]; cbn in *; auto. }
    destruct (match left with Some l => POk (l, text) | None => parse_unary f text end) as [[le bt]|msg n|w|]; try exact I.
    destruct (rx R_EXPR_BINARY_OP bt) as [|e c|] eqn:Eop; try exact I.
    + exact Hleft.
    + specialize (IHu (skipn e bt)).
      destruct (parse_unary f (skipn e bt)) as [[re nt]|msg n|w|]; try exact I.
      cbn in IHu.
      specialize (IHb nt (Some (insert le (grp bt c 1) re))).
      destruct (parse_binary f nt (Some (insert le (grp bt c 1) re))) as [[res rest]|msg n|w|]; try exact I.
      cbn in IHb |- *. intros K. apply IHb. apply insert_ops_known.
      split; [apply Hleft, K|]. split; [exact (binop_known bt e c Eop) | exact IHu].
  - intros text. cbn [parse_unary].
    destruct (rx R_EXPR_GROUP_OPEN text) as [|e c|]; try exact I.
    2:{ specialize (IHb (skipn e text) None).
        destruct (parse_binary f (skipn e text) None) as [[ex nt]|msg n|w|]; try exact I.
        destruct (rx R_EXPR_GROUP_CLOSE nt) as [|e2 c2|]; try exact I.
        cbn in *. apply IHb. exact I. }
    destruct (rx R_EXPR_UNARY_OP text) as [|e c|]; try exact I.
    2:{ specialize (IHu (skipn e text)).
        destruct (parse_unary f (skipn e text)) as [[ex nt]|msg n|w|]; try exact I.
        cbn in *. exact IHu. }
    destruct (rx R_EXPR_FUNCTION_OPEN text) as [|e c|]; try exact I.
    2:{ specialize (IHa (skipn e text) []).
        destruct (parse_args f (skipn e text) []) as [[args rest]|msg n|w|]; try exact I.
        cbn [known_u known_a] in *. apply ops_known_call_Forall. apply IHa. constructor. }
    destruct (rx R_EXPR_NUMBER text) as [|e c|]; try exact I.
    2:{ destruct (py_float (grp text c 1)); cbn; auto. }
    destruct (rx R_EXPR_STRING text) as [|e c|]; try exact I.
    2:{ destruct (unescape R_EXPR_STRING_ESCAPE (grp text c 1)); cbn; auto. }
    destruct (rx R_EXPR_STRING_DOUBLE text) as [|e c|]; try exact I.
    2:{ destruct (unescape R_EXPR_STRING_DOUBLE_ESCAPE (grp text c 1)); cbn; auto. }
    destruct (rx R_EXPR_VARIABLE text) as [|e c|]; try exact I.
    destruct (rx R_EXPR_VARIABLE_EX text) as [|e c|]; try exact I.
    destruct (unescape R_EXPR_VARIABLE_EX_ESCAPE (grp text c 1)); cbn; auto.
  - intros text acc. cbn [parse_args].
    destruct (rx R_EXPR_FUNCTION_CLOSE text) as [|e c|]; try exact I.
    2:{ cbn. intros K. apply (proj2 (Forall_rev' ops_known acc)). exact K. }
    set (sep := match acc with
                | [] => POk text
                | _ :: _ => match rx R_EXPR_FUNCTION_SEPARATOR text with
                            | MNo => PErr syntax_error (length text)
                            | MYes e _ => POk (skipn e text)
                            | MFuel => PFuel
                            end
                end).
    destruct sep as [t'|msg n|w|]; try exact I.
    specialize (IHb t' None).
    destruct (parse_binary f t' None) as [[a nt]|msg n|w|]; try exact I.
    specialize (IHa nt (a :: acc)).
    destruct (parse_args f nt (a :: acc)) as [[args rest]|msg n|w|]; try exact I.
    cbn in *. intros K. apply IHa. constructor; [apply IHb; exact I | exact K].
Qed.

Theorem parse_expression_known text e : parse_expression text = EOk e -> ops_known e.
Proof.
  unfold parse_expression. intros H.
  destruct (parser_known (expr_fuel text)) as (Hb & _ & _). specialize (Hb text None).
  destruct (parse_binary (expr_fuel text) text None) as [[e' nt]|msg n|w|]; try discriminate.
  destruct (strip nt); [|discriminate]. inversion H; subst. apply Hb. exact I.
Qed.

(* C02 soundness with no side condition *)
Theorem parse_expression_WP_total text e : parse_expression text = EOk e -> WP e.
Proof. intros H. apply (parse_expression_WP text e H). exact (parse_expression_known text e H). Qed.

(* ================================================================== E. the other tokens with a direct description *)
(* E.1 one-character tokens  ^\s*X  : ( ) , *)
Definition lit_body (x : N) (r : str) : option nat :=
  match r with y :: _ => if (y =? x)%N then Some 1 else None | [] => None end.

Theorem lit_tok_answer x : is_space UC x = false -> forall s,
  re_match UC (RCat RBol (RCat rspW (RLit x))) s =
  match lit_body x (snd (span_p is_space_u s)) with
  | Some n => MYes (fst (span_p is_space_u s) + n) []
  | None => MNo
  end.
Proof.
  intros NS. apply (tok_answer (RLit x) (lit_body x) (fun _ _ => [])).
  - intros q r. rewrite (ev_one UC _ _ (one_lit UC x)). unfold lit_body. destruct r as [|y t]; [reflexivity|].
    destruct (y =? x)%N; [|reflexivity]. unfold kfin. replace (q + 1) with (S q) by lia. reflexivity.
  - intros y t S. unfold lit_body. destruct (y =? x)%N eqn:E; [|reflexivity].
    apply N.eqb_eq in E. subst y. unfold is_space_u in S. congruence.
Qed.

Theorem group_open_answer s : re_match UC R_EXPR_GROUP_OPEN s =
  match lit_body 40 (snd (span_p is_space_u s)) with Some n => MYes (fst (span_p is_space_u s) + n) [] | None => MNo end.
Proof. exact (lit_tok_answer 40 eq_refl s). Qed.
Theorem group_close_answer s : re_match UC R_EXPR_GROUP_CLOSE s =
  match lit_body 41 (snd (span_p is_space_u s)) with Some n => MYes (fst (span_p is_space_u s) + n) [] | None => MNo end.
Proof. exact (lit_tok_answer 41 eq_refl s). Qed.
Theorem function_close_answer s : re_match UC R_EXPR_FUNCTION_CLOSE s =
  match lit_body 41 (snd (span_p is_space_u s)) with Some n => MYes (fst (span_p is_space_u s) + n) [] | None => MNo end.
Proof. exact (lit_tok_answer 41 eq_refl s). Qed.
Theorem function_separator_answer s : re_match UC R_EXPR_FUNCTION_SEPARATOR s =
  match lit_body 44 (snd (span_p is_space_u s)) with Some n => MYes (fst (span_p is_space_u s) + n) [] | None => MNo end.
Proof. exact (lit_tok_answer 44 eq_refl s). Qed.

(* E.2 unary operator  ^\s*(!|-)  (sre compiles the alternation of two characters to a class) *)
Definition unop_body (r : str) : option nat :=
  match r with y :: _ => if ((y =? 33) || (y =? 45))%N then Some 1 else None | [] => None end.

Theorem unary_answer s : re_match UC R_EXPR_UNARY_OP s =
  match unop_body (snd (span_p is_space_u s)) with
  | Some n => MYes (fst (span_p is_space_u s) + n) (cap1 (fst (span_p is_space_u s)) n)
  | None => MNo
  end.
Proof.
  change R_EXPR_UNARY_OP with (RCat RBol (RCat rspW (RGroup 1 (RIn false [CLit 33%N; CLit 45%N])))).
  apply tok_answer.
  - intros q r. rewrite ev_group. rewrite (ev_one UC _ _ (one_in UC false _)). unfold unop_body.
    destruct r as [|y t]; [reflexivity|]. unfold class_match. rewrite Bool.xorb_false_l. cbn [existsb item_match].
    rewrite orb_false_r. destruct ((y =? 33)%N || (y =? 45)%N); [|reflexivity].
    unfold kfin, cap1, cap_set. replace (q + 1) with (S q) by lia. reflexivity.
  - intros y t S. unfold unop_body.
    destruct (y =? 33)%N eqn:E1; [apply N.eqb_eq in E1; subst; discriminate|].
    destruct (y =? 45)%N eqn:E2; [apply N.eqb_eq in E2; subst; discriminate|]. reflexivity.
Qed.

(* E.3 identifiers  ^\s*([A-Za-z_]\w* ) *)
Definition idstart : N -> bool := class_match UC false [CRange 65 90; CRange 97 122; CLit 95%N].
Definition cmWord : N -> bool := class_match UC false [CCat CatWord].
Definition is_word_u (c : N) : bool := is_word UC c.

Lemma cmWord_is y : cmWord y = is_word_u y.
Proof. unfold cmWord, class_match, is_word_u. rewrite Bool.xorb_false_l. cbn [existsb item_match cat_match]. rewrite orb_false_r. reflexivity. Qed.

Lemma idstart_ascii y : idstart y = true -> (65 <= y <= 90 \/ 97 <= y <= 122 \/ y = 95)%N.
Proof.
  unfold idstart, class_match. rewrite Bool.xorb_false_l. cbn [existsb item_match]. rewrite orb_false_r. intros H.
  apply orb_true_iff in H. destruct H as [H|H].
  - apply andb_true_iff in H. destruct H as [A B]. apply N.leb_le in A. apply N.leb_le in B. lia.
  - apply orb_true_iff in H. destruct H as [H|H].
    + apply andb_true_iff in H. destruct H as [A B]. apply N.leb_le in A. apply N.leb_le in B. lia.
    + apply N.eqb_eq in H. lia.
Qed.

Lemma ascii_space y : (y <? 128)%N = true -> is_space UC y = true -> (9 <= y <= 13 \/ 28 <= y <= 32)%N.
Proof.
  unfold is_space. intros L. rewrite L. intros H. apply orb_true_iff in H.
  destruct H as [H|H]; apply andb_true_iff in H; destruct H as [A B]; apply N.leb_le in A; apply N.leb_le in B; lia.
Qed.

Lemma idstart_not_space y : is_space_u y = true -> idstart y = false.
Proof.
  intros S. destruct (idstart y) eqn:E; [|reflexivity]. exfalso. apply idstart_ascii in E.
  assert (L : (y <? 128)%N = true) by (apply N.ltb_lt; lia).
  pose proof (ascii_space y L S). lia.
Qed.

Definition ident_body (r : str) : option nat :=
  match r with y :: t => if idstart y then Some (S (fst (span_p is_word_u t))) else None | [] => None end.

Theorem variable_answer s : re_match UC R_EXPR_VARIABLE s =
  match ident_body (snd (span_p is_space_u s)) with
  | Some n => MYes (fst (span_p is_space_u s) + n) (cap1 (fst (span_p is_space_u s)) n)
  | None => MNo
  end.
Proof.
  change R_EXPR_VARIABLE with
    (RCat RBol (RCat rspW (RGroup 1 (RCat (RIn false [CRange 65 90; CRange 97 122; CLit 95%N]) (RRep 0 None (RIn false [CCat CatWord])))))).
  apply tok_answer.
  - intros q r. rewrite ev_group, ev_cat. rewrite (ev_one UC _ _ (one_in UC false _)). fold idstart. unfold ident_body.
    destruct r as [|y t]; [reflexivity|]. destruct (idstart y); [|reflexivity].
    rewrite (ev_star UC _ _ (one_in UC false _)). fold cmWord.
    rewrite star_bt_longest by (left; discriminate).
    change (span_p is_word_u t) with (span is_word_u t). rewrite <- (span_ext cmWord is_word_u cmWord_is).
    unfold kfin, cap1, cap_set. replace (S q + fst (span cmWord t)) with (q + S (fst (span cmWord t))) by lia. reflexivity.
  - intros y t S. unfold ident_body. rewrite (idstart_not_space y S). reflexivity.
Qed.

(* E.4 function call opener  ^\s*([A-Za-z_]\w+)\s*\(  : the name is the longest run of word characters (at least two
       characters), then white space, then the parenthesis; backing off inside the name never helps *)
Lemma word_space_disjoint : ranges_disjoint gen_uword_ranges gen_uspace_ranges = true.
Proof. vm_compute. reflexivity. Qed.

Lemma word_not_space y : is_word_u y = true -> is_space_u y = false.
Proof.
  unfold is_word_u, is_space_u, is_word, is_space. destruct (y <? 128)%N eqn:L.
  - intros H. apply N.ltb_lt in L.
    destruct ((9 <=? y)%N && (y <=? 13)%N || (28 <=? y)%N && (y <=? 32)%N) eqn:E; [|reflexivity]. exfalso.
    apply orb_true_iff in E.
    assert (Sp : (9 <= y <= 13 \/ 28 <= y <= 32)%N).
    { destruct E as [E|E]; apply andb_true_iff in E; destruct E as [A B]; apply N.leb_le in A; apply N.leb_le in B; lia. }
    apply orb_true_iff in H. destruct H as [H|H]; [|apply N.eqb_eq in H; lia].
    apply orb_true_iff in H. destruct H as [H|H]; [|apply andb_true_iff in H; destruct H as [A B]; apply N.leb_le in A; apply N.leb_le in B; lia].
    apply orb_true_iff in H. destruct H as [H|H]; apply andb_true_iff in H; destruct H as [A B]; apply N.leb_le in A; apply N.leb_le in B; lia.
  - cbn [u_word u_space UC]. intros H. destruct (in_ranges gen_uspace_ranges y) eqn:E; [|reflexivity]. exfalso.
    exact (ranges_disjoint_sound _ _ y word_space_disjoint H E).
Qed.

Definition paren_after_space (r : str) : option nat :=      (* \s*\(  : number of characters read *)
  match snd (span_p is_space_u r) with
  | y :: _ => if (y =? 40)%N then Some (S (fst (span_p is_space_u r))) else None
  | [] => None
  end.

Definition call_body (r : str) : option (nat * nat) :=       (* (length of the name, length of the whole token) *)
  match r with
  | y :: y2 :: t2 =>
      if idstart y && is_word_u y2 then
        let n := S (S (fst (span_p is_word_u t2))) in
        option_map (fun m => (n, n + m)) (paren_after_space (snd (span_p is_word_u t2)))
      else None
  | _ => None
  end.

Lemma ev_paren q r c : ev UC (RCat rspW (RLit 40%N)) q r c kfin =
  match paren_after_space r with Some m => MYes (q + m) c | None => MNo end.
Proof.
  rewrite ev_cat. unfold rspW. rewrite (ev_star UC _ _ (one_in UC false _)). fold cmW.
  rewrite star_bt_longest.
  2:{ right. intros p y t c' Hy. rewrite (ev_one UC _ _ (one_lit UC 40)).
      destruct (y =? 40)%N eqn:E; [|reflexivity]. apply N.eqb_eq in E. subst y. rewrite cmW_is in Hy. discriminate. }
  rewrite (ev_one UC _ _ (one_lit UC 40)). unfold paren_after_space. rewrite spanW.
  destruct (snd (span_p is_space_u r)) as [|y t]; [reflexivity|]. destruct (y =? 40)%N; [|reflexivity].
  unfold kfin. replace (S (q + fst (span_p is_space_u r))) with (q + S (fst (span_p is_space_u r))) by lia. reflexivity.
Qed.

Lemma paren_word y t : is_word_u y = true -> paren_after_space (y :: t) = None.
Proof.
  intros W. unfold paren_after_space. change (span_p is_space_u (y :: t)) with (span is_space_u (y :: t)).
  cbn [span]. rewrite (word_not_space y W). cbn [snd].
  destruct (y =? 40)%N eqn:E; [|reflexivity]. apply N.eqb_eq in E. subst y. discriminate.
Qed.

Definition call_spec (q : nat) (r : str) : mres :=
  match call_body r with Some (n, m) => MYes (q + m) (cap1 q n) | None => MNo end.

Lemma ev_call q r :
  ev UC (RCat (RGroup 1 (RCat (RIn false [CRange 65 90; CRange 97 122; CLit 95%N]) (RRep 1 None (RIn false [CCat CatWord]))))
              (RCat rspW (RLit 40%N))) q r [] kfin = call_spec q r.
Proof.
  unfold call_spec, call_body.
  rewrite ev_cat, ev_group, ev_cat. rewrite (ev_one UC _ _ (one_in UC false _)). fold idstart.
  destruct r as [|y t]; [reflexivity|]. destruct (idstart y); [|destruct t; reflexivity].
  rewrite (ev_plus UC _ _ (one_in UC false _)). fold cmWord.
  destruct t as [|y2 t2]; [reflexivity|]. rewrite <- cmWord_is. destruct (cmWord y2); [|reflexivity]. cbn [andb].
  cbv beta. rewrite star_bt_longest.
  2:{ right. intros p z t' c' Hz. rewrite ev_paren. rewrite paren_word; [reflexivity|]. rewrite <- cmWord_is. exact Hz. }
  rewrite ev_paren. change (span_p is_word_u t2) with (span is_word_u t2).
  rewrite <- (span_ext cmWord is_word_u cmWord_is).
  destruct (paren_after_space (snd (span cmWord t2))) as [m|]; [|reflexivity]. cbn [option_map].
  unfold cap1, cap_set.
  replace (S (S q) + fst (span cmWord t2) + m) with (q + (S (S (fst (span cmWord t2))) + m)) by lia.
  replace (S (S q) + fst (span cmWord t2)) with (q + S (S (fst (span cmWord t2)))) by lia. reflexivity.
Qed.

Theorem function_open_answer s : re_match UC R_EXPR_FUNCTION_OPEN s =
  match call_body (snd (span_p is_space_u s)) with
  | Some (n, m) => MYes (fst (span_p is_space_u s) + m) (cap1 (fst (span_p is_space_u s)) n)
  | None => MNo
  end.
Proof.
  change R_EXPR_FUNCTION_OPEN with
    (RCat RBol (RCat rspW (RCat (RGroup 1 (RCat (RIn false [CRange 65 90; CRange 97 122; CLit 95%N]) (RRep 1 None (RIn false [CCat CatWord]))))
                                 (RCat rspW (RLit 40%N))))).
  apply (tok_answer_gen _ call_spec).
  - exact ev_call.
  - intros q y t S. unfold call_spec, call_body. destruct t as [|y2 t2]; [reflexivity|].
    rewrite (idstart_not_space y S). reflexivity.
Qed.

Theorem punctuation_answers s :
  let one x := match lit_body x (snd (span_p is_space_u s)) with Some n => MYes (fst (span_p is_space_u s) + n) [] | None => MNo end in
  re_match UC R_EXPR_GROUP_OPEN s = one 40%N /\ re_match UC R_EXPR_GROUP_CLOSE s = one 41%N /\
  re_match UC R_EXPR_FUNCTION_CLOSE s = one 41%N /\ re_match UC R_EXPR_FUNCTION_SEPARATOR s = one 44%N.
Proof.
  exact (conj (group_open_answer s) (conj (group_close_answer s) (conj (function_close_answer s) (function_separator_answer s)))).
Qed.

Example lexing_samples :
  op_len (U "**2") = Some 2%nat /\ op_len (U "*2") = Some 1%nat /\ op_len (U "<=") = Some 2%nat /\ op_len (U "=") = None /\
  ident_body (U "ab1 + c") = Some 3%nat /\ ident_body (U "1a") = None /\
  call_body (U "fn  (x)") = Some (2%nat, 5%nat) /\ call_body (U "f(x)") = None /\ lit_match (U " 12.5e+3x") = Some (1%nat, 8%nat).
Proof. vm_compute. repeat split; reflexivity. Qed.
