(* Proofs/C01u.v — ONE statement language for the whole block-structured part of BareScript and ONE simulation theorem:

       unistmt ::= skip | a ; b | x = e | e | return [e] | break | continue
                 | if c: a (elif c: a)* [else: b] endif | while c: b endwhile | for x[, idx] in e: b endfor

   nested arbitrarily (a for inside an if branch inside a while body inside a for ...).  Proofs/C01.v has everything but `for`
   ([sstmt]); Proofs/C01for.v / C01forN.v have `for` over such trees and for-in-for, but no `for` inside an if branch or a while
   body.  This file closes that gap by a fresh mutual induction over the unified big-step reading [UExec] / [ULoop]; the derived
   machine rules of Proofs/C01.v (run_label, run_jump, run_jumpif, ...) and the per-iteration lemmas of Proofs/C01forN.v (whose
   [BodySim] is abstract in the body) are used as lemmas.

   * [unistmt]: `NFor vals len idx x e body` carries the names of the loop's three bookkeeping variables (as [fstmt] of
     Proofs/C01forN.v does); Proofs/C01uReal.v fills in the names the parser gives them ([uname]).
   * [UExec] / [ULoop]: the structured reading.  Conventions of SExec / GExec: a while re-tests its condition before every
     iteration; a for evaluates its expression once, takes the length once, binds the value per iteration (the index variable is
     the third bookkeeping variable), `continue` goes to the increment, `break` ends the innermost loop; return / error end
     everything.
   * [ucompile] / [ucrest]: the lowering, as parse_script performs it (labels numbered in source order from one counter).
   * [usim]: whenever the structured reading ends, the interpreter run on the lowered code does what [post] says (same shape as
     C01's [sim] and C01forN's [gsim]).
   * side conditions: [uwf] (break / continue only inside loops, the rest position of an if holds endif / else / elif, names of
     the temporaries fine), [uguard] = the guard of known finding F7: no `continue` whose innermost enclosing loop is a `while`
     (a `continue` inside a `for` inside a `while` is allowed).  Definedness side conditions inside the for rules: as GExec.
   * [uexec] / [uexec_sound]: executable reading. *)
From Coq Require Import Lia List Bool ZArith.
From BS Require Import Model.Base Model.Num Model.Arith Model.ExprParser Model.Script Model.Interp
                       Proofs.BaseFacts Proofs.InterpEq Proofs.Fuel Proofs.C08 Proofs.C01 Proofs.C01b Proofs.Blind Proofs.C01for Proofs.C01forN.
Import ListNotations.

Inductive unistmt :=
| NSkip
| NSeq (a b : unistmt)
| NAssign (x : str) (e : expr)
| NExpr (e : expr)
| NReturn (e : option expr)
| NBreak
| NContinue
| NIf (c : expr) (a : unistmt) (rest : unistmt)   (* rest: NSkip = endif, NElse b = else branch, NIf .. = elif chain *)
| NElse (b : unistmt)
| NWhile (c : expr) (b : unistmt)
| NFor (vals len idx x : str) (e : expr) (body : unistmt).

Lemma unistmt_skip_dec (s : unistmt) : {s = NSkip} + {s <> NSkip}.
Proof. destruct s; [left; reflexivity|..]; right; discriminate. Qed.

(* a `continue` that binds to the enclosing loop (what sets hasContinue of the loop's frame in the parser) *)
Fixpoint uhas_cont (s : unistmt) : bool :=
  match s with
  | NSeq a b => uhas_cont a || uhas_cont b
  | NIf _ a rest => uhas_cont a || uhas_cont rest
  | NElse b => uhas_cont b
  | NContinue => true
  | _ => false
  end.

Definition urest_ok (rest : unistmt) : bool := match rest with NSkip | NElse _ | NIf _ _ _ => true | _ => false end.

(* break/continue only inside loops; the rest position of an if holds endif, else or elif; the temporaries of a for have fine names *)
Fixpoint uwf (inloop : bool) (s : unistmt) : bool :=
  match s with
  | NSeq a b => uwf inloop a && uwf inloop b
  | NIf _ a rest => uwf inloop a && uwf inloop rest && urest_ok rest
  | NElse b => uwf inloop b
  | NWhile _ b => uwf true b
  | NFor vals len idx _ _ body => names_okb vals len idx && uwf true body
  | NBreak | NContinue => inloop
  | _ => true
  end.

(* the guard of the known finding F7: no `continue` whose innermost enclosing loop is a `while` *)
Fixpoint uguard (s : unistmt) : bool :=
  match s with
  | NSeq a b => uguard a && uguard b
  | NIf _ a rest => uguard a && uguard rest
  | NElse b => uguard b
  | NWhile _ b => negb (uhas_cont b) && uguard b
  | NFor _ _ _ _ _ body => uguard body
  | _ => true
  end.

(* the fragment of Proofs/C01.v, embedded *)
Fixpoint of_sstmt (s : sstmt) : unistmt :=
  match s with
  | TSkip => NSkip
  | TSeq a b => NSeq (of_sstmt a) (of_sstmt b)
  | TAssign x e => NAssign x e
  | TExpr e => NExpr e
  | TReturn e => NReturn e
  | TBreak => NBreak
  | TContinue => NContinue
  | TIf c a rest => NIf c (of_sstmt a) (of_sstmt rest)
  | TElse b => NElse (of_sstmt b)
  | TWhile c b => NWhile c (of_sstmt b)
  end.

Section Uni.
Variable cfg : config.
Hypothesis Hunl : c_max cfg = 0%Z.
Variable lib : caller -> str -> list value -> world -> lres * world.
Variable url_rel : str -> str -> str.
Variable lint_lines : script -> list str.
Hypothesis Hlib : lib_fuel_monotone lib.
Variable um : umode.
Variable lab : lkind -> nat -> str.
Variable labc : nat -> str.

Notation Ev := (Ev cfg lib url_rel lint_lines um).
Notation Run := (Run cfg lib url_rel lint_lines um).
Notation post := (post cfg lib url_rel lint_lines um).
Notation eval := (eval cfg lib url_rel lint_lines).
Notation for_code := (for_code lab labc).

(* the derived machine rules of Proofs/C01.v, at this section's parameters *)
Local Notation rlabel := (C01.run_label cfg Hunl lib url_rel lint_lines um).
Local Notation rexpr := (C01.run_expr cfg Hunl lib url_rel lint_lines Hlib um).
Local Notation rexpr_stop := (C01.run_expr_stop cfg Hunl lib url_rel lint_lines um).
Local Notation rreturn := (C01.run_return cfg Hunl lib url_rel lint_lines um).
Local Notation rreturn_none := (C01.run_return_none cfg Hunl lib url_rel lint_lines um).
Local Notation rjump := (C01.run_jump cfg Hunl lib url_rel lint_lines um).
Local Notation rjumpif := (C01.run_jumpif cfg Hunl lib url_rel lint_lines Hlib um).
Local Notation rjumpif_stop := (C01.run_jumpif_stop cfg Hunl lib url_rel lint_lines um).

Ltac run_at H := match type of H with C01.Run _ _ _ _ _ ?code ?p ?l ?w ?r =>
  match goal with |- C01.Run _ _ _ _ _ code ?q l w r => replace q with p by lia; exact H end end.
Ltac nth_at H := match type of H with nth_error ?code ?p = ?x =>
  match goal with |- nth_error code ?q = x => replace q with p by lia; exact H end end.

(* ---------------------------------------------------------------- the structured big-step reading *)
Inductive UExec : unistmt -> sstate -> sout -> sstate -> Prop :=
| X_Skip s : UExec NSkip s SNormal s
| X_SeqN a b s s1 o s2 : UExec a s SNormal s1 -> UExec b s1 o s2 -> UExec (NSeq a b) s o s2
| X_SeqA a b s o s1 : UExec a s o s1 -> o <> SNormal -> UExec (NSeq a b) s o s1
| X_Assign x e loc w v w1 : Ev e loc w (OVal v) w1 -> UExec (NAssign x e) (loc, w) SNormal (assign x v loc w1)
| X_AssignStop x e loc w o w1 : Ev e loc w o w1 -> is_val o = false -> UExec (NAssign x e) (loc, w) (SStop o) (loc, w1)
| X_Expr e loc w v w1 : Ev e loc w (OVal v) w1 -> UExec (NExpr e) (loc, w) SNormal (loc, w1)
| X_ExprStop e loc w o w1 : Ev e loc w o w1 -> is_val o = false -> UExec (NExpr e) (loc, w) (SStop o) (loc, w1)
| X_Return e loc w o w1 : Ev e loc w o w1 -> UExec (NReturn (Some e)) (loc, w) (SStop o) (loc, w1)
| X_ReturnNone s : UExec (NReturn None) s (SStop (OVal VNull)) s
| X_Break s : UExec NBreak s SBreak s
| X_Continue s : UExec NContinue s SContinue s
(* an if chain runs exactly the first branch whose condition is truthy *)
| X_IfT c a rest loc w v w1 o s2 : Ev c loc w (OVal v) w1 -> truthy w1 v = true -> UExec a (loc, w1) o s2 -> UExec (NIf c a rest) (loc, w) o s2
| X_IfF c a rest loc w v w1 o s2 : Ev c loc w (OVal v) w1 -> truthy w1 v = false -> UExec rest (loc, w1) o s2 -> UExec (NIf c a rest) (loc, w) o s2
| X_IfStop c a rest loc w o w1 : Ev c loc w o w1 -> is_val o = false -> UExec (NIf c a rest) (loc, w) (SStop o) (loc, w1)
| X_Else b s o s1 : UExec b s o s1 -> UExec (NElse b) s o s1
(* a while condition is re-tested before every iteration; break / continue bind to the innermost loop *)
| X_WhileF c b loc w v w1 : Ev c loc w (OVal v) w1 -> truthy w1 v = false -> UExec (NWhile c b) (loc, w) SNormal (loc, w1)
| X_WhileStop c b loc w o w1 : Ev c loc w o w1 -> is_val o = false -> UExec (NWhile c b) (loc, w) (SStop o) (loc, w1)
| X_WhileT c b loc w v w1 o s2 o3 s3 : Ev c loc w (OVal v) w1 -> truthy w1 v = true -> UExec b (loc, w1) o s2 ->
    (o = SNormal \/ o = SContinue) -> UExec (NWhile c b) s2 o3 s3 -> UExec (NWhile c b) (loc, w) o3 s3
| X_WhileB c b loc w v w1 s2 : Ev c loc w (OVal v) w1 -> truthy w1 v = true -> UExec b (loc, w1) SBreak s2 ->
    UExec (NWhile c b) (loc, w) SNormal s2
| X_WhileS c b loc w v w1 o s2 : Ev c loc w (OVal v) w1 -> truthy w1 v = true -> UExec b (loc, w1) (SStop o) s2 ->
    UExec (NWhile c b) (loc, w) (SStop o) s2
(* a for evaluates its expression once and takes the length once; the three bookkeeping variables are recorded in the scope *)
| X_ForStop vals len idx x e body loc w o w1 : Ev e loc w o w1 -> is_val o = false ->
    UExec (NFor vals len idx x e body) (loc, w) (SStop o) (loc, w1)
| X_ForEmpty vals len idx x e body loc w l w1 : Ev e loc w (OVal (VArr l)) w1 -> nth_error (w_arrs w1) l = Some [] ->
    is_lib ARRLEN (assign' vals (VArr l) (loc, w1)) ->
    UExec (NFor vals len idx x e body) (loc, w) SNormal (assign' len (int_v 0) (assign' vals (VArr l) (loc, w1)))
| X_ForLoop vals len idx x e body loc w l w1 elems o st' :
    Ev e loc w (OVal (VArr l)) w1 -> nth_error (w_arrs w1) l = Some elems -> elems <> [] ->
    is_lib ARRLEN (assign' vals (VArr l) (loc, w1)) ->
    ULoop vals len idx x body l (length elems) 0
          (assign' idx (int_v 0) (assign' len (int_v (length elems)) (assign' vals (VArr l) (loc, w1)))) o st' ->
    UExec (NFor vals len idx x e body) (loc, w) o st'
(* iteration i binds x to element i of the array as it is in the heap then; continue and normal completion go to the increment *)
with ULoop : str -> str -> str -> str -> unistmt -> nat -> nat -> nat -> sstate -> sout -> sstate -> Prop :=
| XL_stop vals len idx x body arr m i st v out st_b : IterPre arr i st v -> UExec body (assign' x v st) (SStop out) st_b ->
    ULoop vals len idx x body arr m i st (SStop out) st_b
| XL_break vals len idx x body arr m i st v st_b : IterPre arr i st v -> UExec body (assign' x v st) SBreak st_b ->
    ULoop vals len idx x body arr m i st SNormal st_b
| XL_next vals len idx x body arr m i st v ob st_b o st' : IterPre arr i st v -> UExec body (assign' x v st) ob st_b ->
    (ob = SNormal \/ ob = SContinue) -> Inv3 vals len idx arr m i st_b -> S i < m ->
    ULoop vals len idx x body arr m (S i) (assign' idx (int_v (S i)) st_b) o st' ->
    ULoop vals len idx x body arr m i st o st'
| XL_last vals len idx x body arr m i st v ob st_b : IterPre arr i st v -> UExec body (assign' x v st) ob st_b ->
    (ob = SNormal \/ ob = SContinue) -> Inv3 vals len idx arr m i st_b -> m <= S i ->
    ULoop vals len idx x body arr m i st SNormal (assign' idx (int_v (S i)) st_b).

Scheme UExec_mut := Minimality for UExec Sort Prop
  with ULoop_mut := Minimality for ULoop Sort Prop.
Combined Scheme U_both from UExec_mut, ULoop_mut.

(* ---------------------------------------------------------------- the lowering, as parse_script performs it *)
Definition ubranch_head (done jl : str) (c : expr) (rest : unistmt) : stmt :=
  SJump (match rest with NSkip => done | _ => jl end) (Some (e_not c)).

(* ctx = (break label, continue label) of the innermost enclosing loop; n = the parser's label counter *)
Fixpoint ucompile (ctx : option (str * str)) (n : nat) (s : unistmt) {struct s} : list stmt * nat :=
  match s with
  | NSkip => ([], n)
  | NSeq a b => let '(ca, n1) := ucompile ctx n a in let '(cb, n2) := ucompile ctx n1 b in (ca ++ cb, n2)
  | NAssign x e => ([SExpr (Some x) e], n)
  | NExpr e => ([SExpr None e], n)
  | NReturn e => ([SReturn e], n)
  | NBreak => (match ctx with Some (brk, _) => [SJump brk None] | None => [] end, n)
  | NContinue => (match ctx with Some (_, cnt) => [SJump cnt None] | None => [] end, n)
  | NIf c a rest =>
    let done := lab KDone n in
    let jl := lab KIf n in
    let '(ca, n1) := ucompile ctx (S n) a in
    let '(cr, n2) := ucrest ctx done jl n1 rest in
    (ubranch_head done jl c rest :: ca ++ cr ++ [SLabel done], n2)
  | NElse b => ucompile ctx n b
  | NWhile c b =>
    let '(cb, n1) := ucompile (Some (lab KDone n, lab KLoop n)) (S n) b in
    ([SJump (lab KDone n) (Some (e_not c)); SLabel (lab KLoop n)] ++ cb ++ [SJump (lab KLoop n) (Some c); SLabel (lab KDone n)], n1)
  | NFor vals len idx x e body =>
    let '(cb, n1) := ucompile (Some (lab KDone n, labc n)) (S n) body in
    (for_code n vals len idx x e cb (uhas_cont body), n1)
  end
with ucrest (ctx : option (str * str)) (done jl : str) (n : nat) (rest : unistmt) {struct rest} : list stmt * nat :=
  match rest with
  | NIf c2 a2 rest2 =>
    let jl2 := lab KIf n in
    let '(ca2, n1) := ucompile ctx (S n) a2 in
    let '(cr2, n2) := ucrest ctx done jl2 n1 rest2 in
    ([SJump done None; SLabel jl] ++ ubranch_head done jl2 c2 rest2 :: ca2 ++ cr2, n2)
  | NElse b => let '(cb, n2) := ucompile ctx n b in ([SJump done None; SLabel jl] ++ cb, n2)
  | _ => ([], n)
  end.

(* on the fragment of Proofs/C01.v it is C01's [compile] *)
Lemma ubranch_head_of done jl c rest : ubranch_head done jl c (of_sstmt rest) = branch_head done jl c rest.
Proof. destruct rest; reflexivity. Qed.

(* one-step equations (by reflexivity) *)
Lemma ucompile_seq_eq ctx n a b :
  ucompile ctx n (NSeq a b) = (let '(ca, n1) := ucompile ctx n a in let '(cb, n2) := ucompile ctx n1 b in (ca ++ cb, n2)).
Proof. reflexivity. Qed.
Lemma ucompile_if_eq ctx n c a rest :
  ucompile ctx n (NIf c a rest) =
  (let '(ca, n1) := ucompile ctx (S n) a in
   let '(cr, n2) := ucrest ctx (lab KDone n) (lab KIf n) n1 rest in
   (ubranch_head (lab KDone n) (lab KIf n) c rest :: ca ++ cr ++ [SLabel (lab KDone n)], n2)).
Proof. reflexivity. Qed.
Lemma ucrest_if_eq ctx done jl n c2 a2 rest2 :
  ucrest ctx done jl n (NIf c2 a2 rest2) =
  (let '(ca2, n1) := ucompile ctx (S n) a2 in
   let '(cr2, n2) := ucrest ctx done (lab KIf n) n1 rest2 in
   ([SJump done None; SLabel jl] ++ ubranch_head done (lab KIf n) c2 rest2 :: ca2 ++ cr2, n2)).
Proof. reflexivity. Qed.
Lemma ucompile_else_eq ctx n b : ucompile ctx n (NElse b) = ucompile ctx n b.
Proof. reflexivity. Qed.
Lemma ucrest_else_eq ctx done jl n b :
  ucrest ctx done jl n (NElse b) = (let '(cb, n2) := ucompile ctx n b in ([SJump done None; SLabel jl] ++ cb, n2)).
Proof. reflexivity. Qed.
Lemma ucompile_while_eq ctx n c b :
  ucompile ctx n (NWhile c b) =
  (let '(cb, n1) := ucompile (Some (lab KDone n, lab KLoop n)) (S n) b in
   ([SJump (lab KDone n) (Some (e_not c)); SLabel (lab KLoop n)] ++ cb ++ [SJump (lab KLoop n) (Some c); SLabel (lab KDone n)], n1)).
Proof. reflexivity. Qed.
Lemma ucompile_for_eq ctx n vals len idx x e body :
  ucompile ctx n (NFor vals len idx x e body) =
  (let '(cb, n1) := ucompile (Some (lab KDone n, labc n)) (S n) body in (for_code n vals len idx x e cb (uhas_cont body), n1)).
Proof. reflexivity. Qed.
Lemma compile_while_eq ctx n c b :
  compile lab ctx n (TWhile c b) =
  (let '(cb, n1) := compile lab (Some (lab KDone n, lab KLoop n)) (S n) b in
   ([SJump (lab KDone n) (Some (e_not c)); SLabel (lab KLoop n)] ++ cb ++ [SJump (lab KLoop n) (Some c); SLabel (lab KDone n)], n1)).
Proof. reflexivity. Qed.

Lemma ucompile_of_sstmt : forall s,
  (forall ctx n, ucompile ctx n (of_sstmt s) = compile lab ctx n s) /\
  (forall ctx done jl n, ucrest ctx done jl n (of_sstmt s) = crest lab ctx done jl n s).
Proof.
  induction s as [ |a [IHa _] b [IHb _]|x e|e|e| | |c a [IHa _] rest [_ IHr]|b [IHb _]|c b [IHb _]];
    (split; [intros ctx n|intros ctx done jl n]); cbn [of_sstmt]; try reflexivity.
  - rewrite ucompile_seq_eq, compile_seq_eq. rewrite IHa. destruct (compile lab ctx n a) as [ca n1]. rewrite IHb. reflexivity.
  - rewrite ucompile_if_eq, compile_if_eq. rewrite IHa. destruct (compile lab ctx (S n) a) as [ca n1]. rewrite IHr. rewrite ubranch_head_of. reflexivity.
  - rewrite ucrest_if_eq, crest_if_eq. rewrite IHa. destruct (compile lab ctx (S n) a) as [ca n1]. rewrite IHr. rewrite ubranch_head_of. reflexivity.
  - rewrite ucompile_else_eq, compile_else_eq. apply IHb.
  - rewrite ucrest_else_eq, crest_else_eq. rewrite IHb. reflexivity.
  - rewrite ucompile_while_eq, compile_while_eq. rewrite IHb. reflexivity.
Qed.

(* ---------------------------------------------------------------- facts about `continue` *)
Lemma uhas_cont_sound :
  (forall s st o st', UExec s st o st' -> uhas_cont s = false -> o <> SContinue) /\
  (forall vals len idx x body arr m i st o st', ULoop vals len idx x body arr m i st o st' -> o <> SContinue).
Proof.
  apply U_both; intros; cbn [uhas_cont] in *; try discriminate; auto;
    repeat match goal with H : (_ || _)%bool = false |- _ => apply orb_false_elim in H; destruct H end; auto.
Qed.

(* code that has no continue of the enclosing loop does not mention the loop's continue label *)
Lemma ucompile_cont_irrel : forall s, uhas_cont s = false ->
  (forall d c1 c2 n, ucompile (Some (d, c1)) n s = ucompile (Some (d, c2)) n s) /\
  (forall d c1 c2 done jl n, ucrest (Some (d, c1)) done jl n s = ucrest (Some (d, c2)) done jl n s).
Proof.
  induction s as [ |a IHa b' IHb|y e|e|e| | |c a IHa rest IHr|b' IHb|c b' IHb|vals len idx x e body IHb]; cbn [uhas_cont]; intros H;
    try (split; intros; reflexivity); try discriminate.
  - apply orb_false_elim in H. destruct H as [Ha Hb]. destruct (IHa Ha) as [Ca _]. destruct (IHb Hb) as [Cb _].
    split; [|intros; reflexivity]. intros d c1 c2 n. rewrite !ucompile_seq_eq. rewrite (Ca d c1 c2 n).
    destruct (ucompile (Some (d, c2)) n a) as [ca n1]. rewrite (Cb d c1 c2 n1). reflexivity.
  - apply orb_false_elim in H. destruct H as [Ha Hr]. destruct (IHa Ha) as [Ca _]. destruct (IHr Hr) as [_ Cr].
    split.
    + intros d c1 c2 n. rewrite !ucompile_if_eq. rewrite (Ca d c1 c2 (S n)).
      destruct (ucompile (Some (d, c2)) (S n) a) as [ca n1]. rewrite (Cr d c1 c2 (lab KDone n) (lab KIf n) n1). reflexivity.
    + intros d c1 c2 done jl n. rewrite !ucrest_if_eq. rewrite (Ca d c1 c2 (S n)).
      destruct (ucompile (Some (d, c2)) (S n) a) as [ca n1]. rewrite (Cr d c1 c2 done (lab KIf n) n1). reflexivity.
  - destruct (IHb H) as [Cb _]. split.
    + intros d c1 c2 n. rewrite !ucompile_else_eq. apply Cb.
    + intros d c1 c2 done jl n. rewrite !ucrest_else_eq. rewrite (Cb d c1 c2 n). reflexivity.
Qed.

(* ---------------------------------------------------------------- labels of the lowered code are defined once *)
Section Labels.
Hypothesis lab_inj : forall k n k' n', lab k n = lab k' n' -> k = k' /\ n = n'.
Hypothesis labc_inj : forall i j, labc i = labc j -> i = j.
Hypothesis labc_fresh : forall k i j, lab k i <> labc j.

Local Notation R := (in_range2 lab labc).

Lemma R_lab_inv k i n n' : R n n' (lab k i) -> n <= i < n'.
Proof.
  intros [(k' & i' & E & Hi)|(i' & E & Hi)]; [apply lab_inj in E; destruct E as [_ ->]; exact Hi|exfalso; exact (labc_fresh _ _ _ E)].
Qed.
Lemma R_labc_inv i n n' : R n n' (labc i) -> n <= i < n'.
Proof.
  intros [(k' & i' & E & Hi)|(i' & E & Hi)]; [exfalso; symmetry in E; exact (labc_fresh _ _ _ E)|apply labc_inj in E; subst; exact Hi].
Qed.
Lemma R_disjoint a b c l : R a b l -> R b c l -> False.
Proof. exact (range2_disjoint lab labc lab_inj labc_inj labc_fresh a b c l). Qed.
Lemma R_mono a b a' b' l : R a b l -> a' <= a -> b <= b' -> R a' b' l.
Proof. exact (in_range2_mono lab labc a b a' b' l). Qed.

Definition ULC (s : unistmt) : Prop :=
  forall ctx n, n <= snd (ucompile ctx n s) /\ Forall (R n (snd (ucompile ctx n s))) (labels (fst (ucompile ctx n s))) /\
                NoDup (labels (fst (ucompile ctx n s))).
Definition ULR (s : unistmt) : Prop :=
  forall ctx done jl n, n <= snd (ucrest ctx done jl n s) /\
    Forall (fun l => l = jl \/ R n (snd (ucrest ctx done jl n s)) l) (labels (fst (ucrest ctx done jl n s))) /\
    ((forall l, R n (snd (ucrest ctx done jl n s)) l -> l <> jl) -> NoDup (labels (fst (ucrest ctx done jl n s)))).

Lemma ubranch_head_not_label done jl c rest l : ubranch_head done jl c rest <> SLabel l.
Proof. unfold ubranch_head. discriminate. Qed.

Lemma ucompile_labels : forall s, ULC s /\ ULR s.
Proof using lab labc lab_inj labc_inj labc_fresh.
  assert (Htriv : forall s, (forall ctx done jl n, ucrest ctx done jl n s = ([], n)) -> ULR s).
  { intros s H ctx done jl n. rewrite H. cbn. repeat split; [lia|constructor|intros _; constructor]. }
  induction s as [ |a [IHa _] b [IHb _]|x e|e|e| | |c a [IHa _] rest [IHr IHrr]|b [IHb _]|c b [IHb _]|vals len idx x e body [IHb _]];
    (split; [|try (apply Htriv; intros; reflexivity)]).
  - intros ctx n. cbn. repeat split; [lia|constructor|constructor].
  - intros ctx n. rewrite ucompile_seq_eq. destruct (IHa ctx n) as (Ha1 & Ha2 & Ha3). destruct (ucompile ctx n a) as [ca n1]. cbn [fst snd] in *.
    destruct (IHb ctx n1) as (Hb1 & Hb2 & Hb3). destruct (ucompile ctx n1 b) as [cb n2]. cbn [fst snd] in *.
    rewrite labels_app. rewrite Forall_forall in Ha2, Hb2. repeat split; [lia| |].
    + apply Forall_app. split; apply Forall_forall; intros l Hl;
        [eapply R_mono; [apply Ha2; exact Hl|lia|lia]|eapply R_mono; [apply Hb2; exact Hl|lia|lia]].
    + apply NoDup_app_intro; [exact Ha3|exact Hb3|]. intros y H1 H2. exact (R_disjoint _ _ _ _ (Ha2 _ H1) (Hb2 _ H2)).
  - intros ctx n. cbn. repeat split; [lia|constructor|constructor].
  - intros ctx n. cbn. repeat split; [lia|constructor|constructor].
  - intros ctx n. cbn. repeat split; [lia|constructor|constructor].
  - intros ctx n. cbn. destruct ctx as [[? ?]|]; cbn; repeat split; try lia; constructor.
  - intros ctx n. cbn. destruct ctx as [[? ?]|]; cbn; repeat split; try lia; constructor.
  - (* NIf, ucompile *)
    intros ctx n. rewrite ucompile_if_eq. destruct (IHa ctx (S n)) as (Ha1 & Ha2 & Ha3). destruct (ucompile ctx (S n) a) as [ca n1]. cbn [fst snd] in *.
    destruct (IHrr ctx (lab KDone n) (lab KIf n) n1) as (Hr1 & Hr2 & Hr3). destruct (ucrest ctx (lab KDone n) (lab KIf n) n1 rest) as [cr n2]. cbn [fst snd] in *.
    rewrite labels_cons_nonlabel by apply ubranch_head_not_label. rewrite !labels_app. rewrite labels_cons_label. change (labels []) with (@nil str).
    assert (Hdone : R n n2 (lab KDone n)) by (apply in_range2_lab; lia).
    assert (Hr3' : NoDup (labels cr)).
    { apply Hr3. intros l Hl E. subst l. apply R_lab_inv in Hl. lia. }
    rewrite Forall_forall in Ha2, Hr2.
    repeat split; [lia| |].
    + apply Forall_app. split; [apply Forall_forall; intros l Hl; eapply R_mono; [apply Ha2; exact Hl|lia|lia]|].
      apply Forall_app. split; [|constructor; [exact Hdone|constructor]].
      apply Forall_forall. intros l Hl. destruct (Hr2 _ Hl) as [->|Hl2]; [apply in_range2_lab; lia|eapply R_mono; [exact Hl2|lia|lia]].
    + apply NoDup_app_intro; [exact Ha3| |].
      * apply NoDup_app_intro; [exact Hr3'|repeat constructor; intros []|].
        intros y H1 [<-|[]]. destruct (Hr2 _ H1) as [E|Hl2]; [apply lab_inj in E; destruct E as [E _]; discriminate|apply R_lab_inv in Hl2; lia].
      * intros y H1 H2. pose proof (Ha2 _ H1) as Hy. apply in_app_or in H2. destruct H2 as [H2|[E|[]]].
        -- destruct (Hr2 _ H2) as [E|Hl2]; [subst y; apply R_lab_inv in Hy; lia|exact (R_disjoint _ _ _ _ Hy Hl2)].
        -- subst y. apply R_lab_inv in Hy. lia.
  - (* NIf, ucrest *)
    intros ctx done jl n. rewrite ucrest_if_eq. destruct (IHa ctx (S n)) as (Ha1 & Ha2 & Ha3). destruct (ucompile ctx (S n) a) as [ca n1]. cbn [fst snd] in *.
    destruct (IHrr ctx done (lab KIf n) n1) as (Hr1 & Hr2 & Hr3). destruct (ucrest ctx done (lab KIf n) n1 rest) as [cr n2]. cbn [fst snd] in *.
    cbn [app]. rewrite (labels_cons_nonlabel (SJump done None)) by discriminate. rewrite labels_cons_label.
    rewrite labels_cons_nonlabel by apply ubranch_head_not_label. rewrite labels_app.
    assert (Hr3' : NoDup (labels cr)).
    { apply Hr3. intros l Hl E. subst l. apply R_lab_inv in Hl. lia. }
    rewrite Forall_forall in Ha2, Hr2.
    repeat split; [lia| |].
    + constructor; [left; reflexivity|]. apply Forall_app. split.
      * apply Forall_forall. intros l Hl. right. eapply R_mono; [apply Ha2; exact Hl|lia|lia].
      * apply Forall_forall. intros l Hl. right. destruct (Hr2 _ Hl) as [->|Hl2]; [apply in_range2_lab; lia|eapply R_mono; [exact Hl2|lia|lia]].
    + intros Hjl. constructor.
      * intros Hin. apply in_app_or in Hin. destruct Hin as [Hin|Hin].
        -- apply (Hjl jl); [eapply R_mono; [apply Ha2; exact Hin|lia|lia]|reflexivity].
        -- destruct (Hr2 _ Hin) as [E|Hl2]; [apply (Hjl jl); [rewrite E; apply in_range2_lab; lia|reflexivity]|].
           apply (Hjl jl); [eapply R_mono; [exact Hl2|lia|lia]|reflexivity].
      * apply NoDup_app_intro; [exact Ha3|exact Hr3'|].
        intros y H1 H2. pose proof (Ha2 _ H1) as Hy.
        destruct (Hr2 _ H2) as [E|Hl2]; [subst y; apply R_lab_inv in Hy; lia|exact (R_disjoint _ _ _ _ Hy Hl2)].
  - (* NElse, ucompile *) intros ctx n. rewrite ucompile_else_eq. apply IHb.
  - (* NElse, ucrest *)
    intros ctx done jl n. rewrite ucrest_else_eq. destruct (IHb ctx n) as (Hb1 & Hb2 & Hb3). destruct (ucompile ctx n b) as [cb n2]. cbn [fst snd] in *.
    cbn [app]. rewrite (labels_cons_nonlabel (SJump done None)) by discriminate. rewrite labels_cons_label.
    rewrite Forall_forall in Hb2. repeat split; [lia| |].
    + constructor; [left; reflexivity|]. apply Forall_forall. intros l Hl. right. apply Hb2. exact Hl.
    + intros Hjl. constructor; [|exact Hb3]. intros Hin. apply (Hjl jl); [apply Hb2; exact Hin|reflexivity].
  - (* NWhile *)
    intros ctx n. rewrite ucompile_while_eq. destruct (IHb (Some (lab KDone n, lab KLoop n)) (S n)) as (Hb1 & Hb2 & Hb3).
    destruct (ucompile (Some (lab KDone n, lab KLoop n)) (S n) b) as [cb n1]. cbn [fst snd] in *.
    cbn [app]. rewrite (labels_cons_nonlabel (SJump (lab KDone n) (Some (e_not c)))) by discriminate. rewrite labels_cons_label.
    rewrite labels_app. rewrite (labels_cons_nonlabel (SJump (lab KLoop n) (Some c))) by discriminate. rewrite labels_cons_label.
    change (labels []) with (@nil str).
    rewrite Forall_forall in Hb2. repeat split; [lia| |].
    + constructor; [apply in_range2_lab; lia|]. apply Forall_app. split.
      * apply Forall_forall. intros l Hl. eapply R_mono; [apply Hb2; exact Hl|lia|lia].
      * constructor; [apply in_range2_lab; lia|constructor].
    + constructor.
      * intros Hin. apply in_app_or in Hin. destruct Hin as [Hin|[E|[]]].
        -- apply Hb2 in Hin. apply R_lab_inv in Hin. lia.
        -- apply lab_inj in E. destruct E as [E1 _]. discriminate.
      * apply NoDup_app_intro; [exact Hb3|repeat constructor; intros []|].
        intros y H1 [<-|[]]. apply Hb2 in H1. apply R_lab_inv in H1. lia.
  - (* NFor *)
    intros ctx n. rewrite ucompile_for_eq. destruct (IHb (Some (lab KDone n, labc n)) (S n)) as (Hle & Hr & Hnd).
    destruct (ucompile (Some (lab KDone n, labc n)) (S n) body) as [cb n1]. cbn [fst snd] in *.
    unfold C01forN.for_code, labels. rewrite !flat_map_app. cbn [flat_map app].
    change (flat_map (fun i => match i with SLabel l => [l] | _ => [] end) cb) with (labels cb).
    rewrite Forall_forall in Hr.
    assert (Hcb : forall k, In (lab k n) (labels cb) -> False).
    { intros k Hin. apply Hr in Hin. apply R_lab_inv in Hin. lia. }
    assert (Hcc : In (labc n) (labels cb) -> False).
    { intros Hin. apply Hr in Hin. apply R_labc_inv in Hin. lia. }
    repeat split; [lia| |].
    + constructor; [apply in_range2_lab; lia|]. apply Forall_app. split.
      * apply Forall_forall. intros l Hl. eapply R_mono; [apply Hr; exact Hl|lia|lia].
      * apply Forall_app. split.
        -- destruct (uhas_cont body); cbn [flat_map app]; [constructor; [apply in_range2_labc; lia|constructor]|constructor].
        -- constructor; [apply in_range2_lab; lia|constructor].
    + constructor.
      * intros Hin. apply in_app_or in Hin. destruct Hin as [Hin|Hin]; [exact (Hcb _ Hin)|].
        apply in_app_or in Hin. destruct Hin as [Hin|[E|[]]].
        -- destruct (uhas_cont body); cbn in Hin; [destruct Hin as [E|[]]; symmetry in E; exact (labc_fresh _ _ _ E)|contradiction].
        -- apply lab_inj in E. destruct E as [E _]. discriminate.
      * apply NoDup_app_intro; [exact Hnd| |].
        -- destruct (uhas_cont body); cbn [flat_map app].
           ++ constructor; [intros [E|[]]; exact (labc_fresh _ _ _ E)|]. constructor; [intros []|constructor].
           ++ constructor; [intros []|constructor].
        -- intros y H1 H2. apply in_app_or in H2. destruct H2 as [H2|[E|[]]].
           ++ destruct (uhas_cont body); cbn in H2; [destruct H2 as [E|[]]; subst y; exact (Hcc H1)|contradiction].
           ++ subst y. exact (Hcb _ H1).
Qed.

Corollary ucompile_NoDup ctx n s : NoDup (labels (fst (ucompile ctx n s))).
Proof. destruct (ucompile_labels s) as [H _]. apply H. Qed.
End Labels.

(* ---------------------------------------------------------------- the simulation *)
(* PREMISES on the library *)
Hypothesis Ev_blind : forall e loc w o w' wm, Ev e loc w o w' -> weq w wm -> exists wm', Ev e loc wm o wm' /\ weq w' wm'.
Hypothesis Hlen : arrayLength_contract lib.
Hypothesis Hget : arrayGet_contract lib.

Local Notation BodySim := (BodySim cfg lib url_rel lint_lines um).

Definition UPP (s : unistmt) (st : sstate) (o : sout) (st' : sstate) : Prop :=
  forall code ctx cpos n pc wm, NoDup (labels code) -> cont_ok code ctx cpos -> uwf (is_some ctx) s = true -> uguard s = true ->
    code_at code pc (fst (ucompile ctx n s)) -> weq (snd st) wm ->
    exists wm', weq (snd st') wm' /\ post code cpos (pc + length (fst (ucompile ctx n s))) o (fst st') wm' pc (fst st) wm.

Definition UIFB (c : expr) (a rest : unistmt) (st : sstate) (o : sout) (st' : sstate) : Prop :=
  forall code ctx cpos done jl n pc wm, NoDup (labels code) -> cont_ok code ctx cpos ->
    uwf (is_some ctx) (NIf c a rest) = true -> uguard (NIf c a rest) = true ->
    code_at code pc (ubranch_head done jl c rest :: fst (ucompile ctx (S n) a) ++ fst (ucrest ctx done jl (snd (ucompile ctx (S n) a)) rest) ++ [SLabel done]) ->
    weq (snd st) wm ->
    exists wm', weq (snd st') wm' /\
      post code cpos (pc + S (length (fst (ucompile ctx (S n) a)) + length (fst (ucrest ctx done jl (snd (ucompile ctx (S n) a)) rest)) + 1))
           o (fst st') wm' pc (fst st) wm.

Definition UQQ (s : unistmt) (st : sstate) (o : sout) (st' : sstate) : Prop :=
  forall code ctx cpos done jl n pc wm, NoDup (labels code) -> cont_ok code ctx cpos -> uwf (is_some ctx) s = true -> uguard s = true ->
    urest_ok s = true -> s <> NSkip ->
    code_at code pc (fst (ucrest ctx done jl n s) ++ [SLabel done]) -> weq (snd st) wm ->
    exists wm', weq (snd st') wm' /\ post code cpos (pc + length (fst (ucrest ctx done jl n s)) + 1) o (fst st') wm' (pc + 2) (fst st) wm.

Definition UWW (s : unistmt) (st : sstate) (o : sout) (st' : sstate) : Prop :=
  forall c b, s = NWhile c b -> forall code ctx cpos n pc wm, NoDup (labels code) -> cont_ok code ctx cpos ->
    uwf true b = true -> uhas_cont b = false -> uguard b = true ->
    code_at code pc (fst (ucompile ctx n (NWhile c b))) -> weq (snd st) wm ->
    exists wm', weq (snd st') wm' /\
      post code cpos (pc + length (fst (ucompile ctx n (NWhile c b)))) o (fst st') wm'
           (pc + 2 + length (fst (ucompile (Some (lab KDone n, lab KLoop n)) (S n) b))) (fst st) wm.

Definition UALL (s : unistmt) (st : sstate) (o : sout) (st' : sstate) : Prop :=
  UPP s st o st' /\ UQQ s st o st' /\ UWW s st o st'.

Definition UPL (vals len idx x : str) (body : unistmt) (arr m i : nat) (st : sstate) (o : sout) (st' : sstate) : Prop :=
  forall code cpos n pc e wm, NoDup (labels code) -> names_okb vals len idx = true -> uwf true body = true -> uguard body = true ->
    code_at code pc (for_code n vals len idx x e (fst (ucompile (Some (lab KDone n, labc n)) (S n) body)) (uhas_cont body)) ->
    Inv3 vals len idx arr m i st -> weq (snd st) wm ->
    exists wm', weq (snd st') wm' /\
      post code cpos (pc + 9 + length (fst (ucompile (Some (lab KDone n, labc n)) (S n) body)) + (if uhas_cont body then 1 else 0))
           o (fst st') wm' (pc + 5) (fst st) wm.

(* P and Q of an if statement follow from its body form *)
Lemma uif_PQ c a rest st o st' : UIFB c a rest st o st' -> UPP (NIf c a rest) st o st' /\ UQQ (NIf c a rest) st o st'.
Proof.
  intros HB. split.
  - intros code ctx cpos n pc wm HN Hc Hwf Hg Hat Hw. rewrite ucompile_if_eq in Hat |- *.
    specialize (HB code ctx cpos (lab KDone n) (lab KIf n) n pc wm HN Hc Hwf Hg).
    destruct (ucompile ctx (S n) a) as [ca n1]. cbn [fst snd] in *.
    destruct (ucrest ctx (lab KDone n) (lab KIf n) n1 rest) as [cr n2]. cbn [fst snd] in *.
    destruct (HB Hat Hw) as (wm' & Hw' & Hp). exists wm'. split; [exact Hw'|].
    cbn [length]. rewrite !app_length. cbn [length]. replace (pc + S (length ca + (length cr + 1))) with (pc + S (length ca + length cr + 1)) by lia. exact Hp.
  - intros code ctx cpos done jl n pc wm HN Hc Hwf Hg _ _ Hat Hw. rewrite ucrest_if_eq in Hat |- *.
    specialize (HB code ctx cpos done (lab KIf n) n (pc + 2) wm HN Hc Hwf Hg).
    destruct (ucompile ctx (S n) a) as [ca n1]. cbn [fst snd] in *.
    destruct (ucrest ctx done (lab KIf n) n1 rest) as [cr n2]. cbn [fst snd] in *.
    assert (Hat2 : code_at code (pc + 2) (ubranch_head done (lab KIf n) c rest :: ca ++ cr ++ [SLabel done])).
    { rewrite <- app_assoc in Hat. apply code_at_app in Hat. destruct Hat as [_ Hat]. cbn [length] in Hat.
      rewrite <- app_comm_cons in Hat. rewrite <- app_assoc in Hat. exact Hat. }
    destruct (HB Hat2 Hw) as (wm' & Hw' & Hp). exists wm'. split; [exact Hw'|].
    rewrite app_length. cbn [length]. rewrite app_length.
    replace (pc + (2 + S (length ca + length cr)) + 1) with (pc + 2 + S (length ca + length cr + 1)) by lia. exact Hp.
Qed.

(* shape of what follows a branch body when the chain goes on *)
Lemma ucrest_shape ctx done jl n rest : urest_ok rest = true -> rest <> NSkip ->
  exists tl, fst (ucrest ctx done jl n rest) = SJump done None :: SLabel jl :: tl.
Proof.
  intros Hro Hne. destruct rest; try discriminate Hro; [congruence| |].
  - rewrite ucrest_if_eq. destruct (ucompile ctx (S n) rest1) as [ca2 n3]. destruct (ucrest ctx done (lab KIf n) n3 rest2) as [cr2 n4]. cbn. eauto.
  - rewrite ucrest_else_eq. destruct (ucompile ctx n rest) as [cb n3]. cbn. eauto.
Qed.

(* layout of a compiled while *)
Lemma uwhile_layout code ctx n pc c b :
  code_at code pc (fst (ucompile ctx n (NWhile c b))) ->
  let cb := fst (ucompile (Some (lab KDone n, lab KLoop n)) (S n) b) in
  nth_error code pc = Some (SJump (lab KDone n) (Some (e_not c))) /\
  nth_error code (S pc) = Some (SLabel (lab KLoop n)) /\
  code_at code (pc + 2) cb /\
  nth_error code (pc + 2 + length cb) = Some (SJump (lab KLoop n) (Some c)) /\
  nth_error code (S (pc + 2 + length cb)) = Some (SLabel (lab KDone n)) /\
  length (fst (ucompile ctx n (NWhile c b))) = length cb + 4.
Proof.
  cbv zeta. rewrite ucompile_while_eq. destruct (ucompile (Some (lab KDone n, lab KLoop n)) (S n) b) as [cb n1]. cbn [fst snd]. intros Hat.
  cbn [app] in Hat. apply code_at_cons in Hat. destruct Hat as [H0 Hat]. apply code_at_cons in Hat. destruct Hat as [H1 Hat].
  apply code_at_app in Hat. destruct Hat as [Hb Hat]. apply code_at_cons in Hat. destruct Hat as [H2 Hat].
  apply code_at_cons in Hat. destruct Hat as [H3 _].
  replace (S (S pc)) with (pc + 2) in * by lia.
  repeat split; try assumption. cbn [app length]. rewrite app_length. cbn [length]. lia.
Qed.

(* the for body's simulation at the body's position, from the induction hypothesis of the body *)
Lemma body_sim_of_UPP body st_a ob st_b code n pc :
  UPP body st_a ob st_b -> NoDup (labels code) -> uwf true body = true -> uguard body = true ->
  let cb := fst (ucompile (Some (lab KDone n, labc n)) (S n) body) in
  let L := length cb in let c := if uhas_cont body then 1 else 0 in
  code_at code (pc + 6) cb ->
  (uhas_cont body = true -> nth_error code (pc + 6 + L) = Some (SLabel (labc n))) ->
  nth_error code (pc + 8 + L + c) = Some (SLabel (lab KDone n)) ->
  BodySim code pc L c (uhas_cont body) st_a ob st_b.
Proof.
  cbv zeta. intros HP HN Hwf Hg Pb Pc P8 wm Hw.
  set (cl := if uhas_cont body then labc n else lab KDone n).
  assert (Hcomp : ucompile (Some (lab KDone n, cl)) (S n) body = ucompile (Some (lab KDone n, labc n)) (S n) body).
  { unfold cl. destruct (uhas_cont body) eqn:E; [reflexivity|]. apply ucompile_cont_irrel. exact E. }
  destruct (HP code (Some (lab KDone n, cl))
              (Some (pc + 8 + length (fst (ucompile (Some (lab KDone n, labc n)) (S n) body)) + (if uhas_cont body then 1 else 0),
                     if uhas_cont body then pc + 6 + length (fst (ucompile (Some (lab KDone n, labc n)) (S n) body))
                     else pc + 8 + length (fst (ucompile (Some (lab KDone n, labc n)) (S n) body)) + (if uhas_cont body then 1 else 0)))
              (S n) (pc + 6) wm HN) as (wm_b & Hwb & Hp).
  - cbn [cont_ok]. split; [exact P8|]. unfold cl. destruct (uhas_cont body) eqn:E; [apply Pc; reflexivity|exact P8].
  - exact Hwf.
  - exact Hg.
  - rewrite Hcomp. exact Pb.
  - exact Hw.
  - exists wm_b. split; [exact Hwb|]. rewrite Hcomp in Hp. exact Hp.
Qed.

Ltac triv_Q := let Hr := fresh in intros ? ? ? ? ? ? ? ? _ _ _ _ Hr; discriminate Hr.
Ltac triv_W := let E := fresh in intros ? ? E; discriminate E.
Ltac leaf := split; [|split; [triv_Q|triv_W]].


Theorem usim_both :
  (forall s st o st', UExec s st o st' -> UALL s st o st') /\
  (forall vals len idx x body arr m i st o st', ULoop vals len idx x body arr m i st o st' -> UPL vals len idx x body arr m i st o st').
Proof.
  assert (Hhc : forall body st_a ob st_b, UExec body st_a ob st_b -> ob = SContinue -> uhas_cont body = true).
  { intros body st_a ob st_b Hb ->. destruct (uhas_cont body) eqn:E; [reflexivity|].
    exfalso. exact (proj1 uhas_cont_sound _ _ _ _ Hb E eq_refl). }
  apply U_both; unfold UALL.
  - (* Skip *)
    intros st. split; [|split; [|triv_W]].
    + intros code ctx cpos n pc wm _ _ _ _ _ Hw. exists wm. split; [exact Hw|]. cbn. rewrite PeanoNat.Nat.add_0_r. auto.
    + intros code ctx cpos done jl n pc wm _ _ _ _ _ Hne. congruence.
  - (* Seq, first part normal *)
    intros a b st st1 o st2 Ha IHa Hb IHb.
    destruct IHa as [IHa _]. destruct IHb as [IHb _]. leaf.
    intros code ctx cpos n pc wm HN Hc Hwf Hg Hat Hw. cbn [uwf uguard] in *. rewrite ucompile_seq_eq in Hat |- *.
    apply andb_prop in Hwf. destruct Hwf as [Hwa Hwb]. apply andb_prop in Hg. destruct Hg as [Hga Hgb].
    specialize (IHa code ctx cpos n pc wm HN Hc Hwa Hga).
    destruct (ucompile ctx n a) as [ca n1]. cbn [fst snd] in *.
    specialize (IHb code ctx cpos n1 (pc + length ca)).
    destruct (ucompile ctx n1 b) as [cb n2]. cbn [fst snd] in *.
    apply code_at_app in Hat. destruct Hat as [Hata Hatb].
    destruct (IHa Hata Hw) as (wm1 & Hw1 & Hp1). cbn [C01.post] in Hp1.
    destruct (IHb wm1 HN Hc Hwb Hgb Hatb Hw1) as (wm2 & Hw2 & Hp2).
    exists wm2. split; [exact Hw2|]. rewrite app_length. rewrite PeanoNat.Nat.add_assoc.
    eapply post_pre; [exact Hp1|exact Hp2].
  - (* Seq, first part abrupt *)
    intros a b st o st1 Ha IHa Hno.
    destruct IHa as [IHa _]. leaf.
    intros code ctx cpos n pc wm HN Hc Hwf Hg Hat Hw. cbn [uwf uguard] in *. rewrite ucompile_seq_eq in Hat |- *.
    apply andb_prop in Hwf. destruct Hwf as [Hwa Hwb]. apply andb_prop in Hg. destruct Hg as [Hga Hgb].
    specialize (IHa code ctx cpos n pc wm HN Hc Hwa Hga).
    destruct (ucompile ctx n a) as [ca n1]. cbn [fst snd] in *. destruct (ucompile ctx n1 b) as [cb n2]. cbn [fst snd] in *.
    apply code_at_app in Hat. destruct Hat as [Hata _].
    destruct (IHa Hata Hw) as (wm1 & Hw1 & Hp1). exists wm1. split; [exact Hw1|].
    eapply post_end_irrel; [exact Hno|exact Hp1].
  - (* Assign *)
    intros x e loc w v w1 He. leaf.
    intros code ctx cpos n pc wm _ _ _ _ Hat Hw. cbn [ucompile fst length] in *. apply code_at_cons in Hat. destruct Hat as [Hn _].
    destruct (Ev_blind _ _ _ _ _ (tick wm) He (C01.weq_tick _ _ Hw)) as (wm1 & He1 & Hw1).
    destruct (assign_weq x v loc _ _ Hw1) as [Ef Ew].
    exists (snd (assign x v loc wm1)). split; [exact Ew|]. cbn [C01.post]. rewrite Ef. cbn [fst].
    intros r Hr. eapply rexpr; [exact Hn|exact He1|]. cbn beta iota. replace (pc + 1) with (S pc) in Hr by lia. exact Hr.
  - (* Assign, evaluation stops *)
    intros x e loc w o w1 He Hv. leaf.
    intros code ctx cpos n pc wm _ _ _ _ Hat Hw. cbn [ucompile fst length] in *. apply code_at_cons in Hat. destruct Hat as [Hn _].
    destruct (Ev_blind _ _ _ _ _ (tick wm) He (C01.weq_tick _ _ Hw)) as (wm1 & He1 & Hw1).
    exists wm1. split; [exact Hw1|]. cbn [C01.post fst]. eapply rexpr_stop; eassumption.
  - (* Expr *)
    intros e loc w v w1 He. leaf.
    intros code ctx cpos n pc wm _ _ _ _ Hat Hw. cbn [ucompile fst length] in *. apply code_at_cons in Hat. destruct Hat as [Hn _].
    destruct (Ev_blind _ _ _ _ _ (tick wm) He (C01.weq_tick _ _ Hw)) as (wm1 & He1 & Hw1).
    exists wm1. split; [exact Hw1|]. cbn [C01.post fst]. intros r Hr. eapply rexpr; [exact Hn|exact He1|].
    cbn beta iota. replace (pc + 1) with (S pc) in Hr by lia. exact Hr.
  - (* Expr, evaluation stops *)
    intros e loc w o w1 He Hv. leaf.
    intros code ctx cpos n pc wm _ _ _ _ Hat Hw. cbn [ucompile fst length] in *. apply code_at_cons in Hat. destruct Hat as [Hn _].
    destruct (Ev_blind _ _ _ _ _ (tick wm) He (C01.weq_tick _ _ Hw)) as (wm1 & He1 & Hw1).
    exists wm1. split; [exact Hw1|]. cbn [C01.post fst]. eapply rexpr_stop; eassumption.
  - (* Return e *)
    intros e loc w o w1 He. leaf.
    intros code ctx cpos n pc wm _ _ _ _ Hat Hw. cbn [ucompile fst length] in *. apply code_at_cons in Hat. destruct Hat as [Hn _].
    destruct (Ev_blind _ _ _ _ _ (tick wm) He (C01.weq_tick _ _ Hw)) as (wm1 & He1 & Hw1).
    exists wm1. split; [exact Hw1|]. cbn [C01.post fst]. eapply rreturn; eassumption.
  - (* Return *)
    intros st. leaf.
    intros code ctx cpos n pc wm _ _ _ _ Hat Hw. cbn [ucompile fst length] in *. apply code_at_cons in Hat. destruct Hat as [Hn _].
    exists (tick wm). split; [apply C01.weq_tick; exact Hw|]. cbn [C01.post]. apply rreturn_none. exact Hn.
  - (* Break *)
    intros st. leaf.
    intros code ctx cpos n pc wm HN Hc Hwf _ Hat Hw. cbn [uwf] in Hwf.
    destruct ctx as [[brk cnt]|]; [|discriminate]. destruct cpos as [[ib ic]|]; [|contradiction]. destruct Hc as [Hib Hic].
    cbn [ucompile fst length] in *. apply code_at_cons in Hat. destruct Hat as [Hn _].
    exists (tick wm). split; [apply C01.weq_tick; exact Hw|]. cbn [C01.post]. intros r Hr.
    eapply rjump; [exact Hn|apply find_unique; eassumption|exact Hr].
  - (* Continue *)
    intros st. leaf.
    intros code ctx cpos n pc wm HN Hc Hwf _ Hat Hw. cbn [uwf] in Hwf.
    destruct ctx as [[brk cnt]|]; [|discriminate]. destruct cpos as [[ib ic]|]; [|contradiction]. destruct Hc as [Hib Hic].
    cbn [ucompile fst length] in *. apply code_at_cons in Hat. destruct Hat as [Hn _].
    exists (tick wm). split; [apply C01.weq_tick; exact Hw|]. cbn [C01.post]. intros r Hr.
    eapply rjump; [exact Hn|apply find_unique; eassumption|exact Hr].
  - (* If, condition truthy *)
    intros c a rest loc w v w1 o st2 He Ht Ha IHa.
    destruct IHa as [IHa _].
    assert (HB : UIFB c a rest (loc, w) o st2).
    { intros code ctx cpos done jl n pc wm HN Hc Hwf Hg Hat Hw. cbn [uwf uguard] in Hwf, Hg.
      apply andb_prop in Hwf. destruct Hwf as [Hwf Hro]. apply andb_prop in Hwf. destruct Hwf as [Hwa Hwr].
      apply andb_prop in Hg. destruct Hg as [Hga Hgr]. cbn [fst snd] in *.
      specialize (IHa code ctx cpos (S n) (S pc)).
      destruct (ucompile ctx (S n) a) as [ca n1]. cbn [fst snd] in *.
      remember (ucrest ctx done jl n1 rest) as crp eqn:Ecr. destruct crp as [cr n2]. cbn [fst snd] in *.
      apply code_at_cons in Hat. destruct Hat as [Hhead Hat]. apply code_at_app in Hat. destruct Hat as [Hata Hatr].
      destruct (Ev_blind _ _ _ _ _ (tick wm) He (C01.weq_tick _ _ Hw)) as (wm1 & He1 & Hw1).
      rewrite (truthy_weq _ _ v Hw1) in Ht.
      destruct (IHa wm1 HN Hc Hwa Hga Hata Hw1) as (wm2 & Hw2 & Hp2).
      assert (Hin : forall r, Run code (S pc) loc wm1 r -> Run code pc loc wm r).
      { intros r Hr. unfold ubranch_head in Hhead. eapply rjumpif; [exact Hhead|apply Ev_not; exact He1|].
        rewrite Ht. cbn [negb truthy]. exact Hr. }
      (* after the taken branch: to the end of the chain *)
      assert (Hout : forall loc2 r, Run code (pc + S (length ca + length cr + 1)) loc2 (tick wm2) r -> Run code (S pc + length ca) loc2 wm2 r).
      { intros loc2 r Hr. destruct (unistmt_skip_dec rest) as [Hs|Hne].
        - (* endif *) subst rest. cbn [ucrest] in Ecr. injection Ecr as -> ->. cbn [app length] in *.
          apply code_at_cons in Hatr. destruct Hatr as [Hd _].
          eapply rlabel; [exact Hd|]. run_at Hr.
        - (* elif / else: jump over the rest of the chain *)
          destruct (ucrest_shape ctx done jl n1 rest Hro Hne) as (tl & Etl). rewrite <- Ecr in Etl. cbn [fst] in Etl.
          destruct (rest_layout _ _ _ _ _ _ Etl Hatr) as (Hj & _ & Hd).
          eapply rjump; [exact Hj|apply find_unique; [exact HN|exact Hd]|].
          run_at Hr. }
      destruct o.
      - exists (tick wm2). split; [apply C01.weq_tick; exact Hw2|]. cbn [C01.post] in *. intros r Hr. apply Hin. apply Hp2. apply Hout. exact Hr.
      - exists wm2. split; [exact Hw2|]. eapply post_pre; [exact Hin|]. eapply post_end_irrel; [discriminate|exact Hp2].
      - exists wm2. split; [exact Hw2|]. eapply post_pre; [exact Hin|]. eapply post_end_irrel; [discriminate|exact Hp2].
      - exists wm2. split; [exact Hw2|]. eapply post_pre; [exact Hin|]. eapply post_end_irrel; [discriminate|exact Hp2]. }
    destruct (uif_PQ _ _ _ _ _ _ HB) as [HP HQ]. split; [exact HP|split; [exact HQ|triv_W]].
  - (* If, condition falsy: the rest of the chain *)
    intros c a rest loc w v w1 o st2 He Ht Hr IHr.
    destruct IHr as (IHrP & IHrQ & _).
    assert (HB : UIFB c a rest (loc, w) o st2).
    { intros code ctx cpos done jl n pc wm HN Hc Hwf Hg Hat Hw. cbn [uwf uguard] in Hwf, Hg.
      apply andb_prop in Hwf. destruct Hwf as [Hwf Hro]. apply andb_prop in Hwf. destruct Hwf as [Hwa Hwr].
      apply andb_prop in Hg. destruct Hg as [Hga Hgr]. cbn [fst snd] in *.
      destruct (ucompile ctx (S n) a) as [ca n1]. cbn [fst snd] in *.
      specialize (IHrQ code ctx cpos done jl n1 (S pc + length ca)).
      remember (ucrest ctx done jl n1 rest) as crp eqn:Ecr. destruct crp as [cr n2]. cbn [fst snd] in *.
      apply code_at_cons in Hat. destruct Hat as [Hhead Hat]. apply code_at_app in Hat. destruct Hat as [Hata Hatr].
      destruct (Ev_blind _ _ _ _ _ (tick wm) He (C01.weq_tick _ _ Hw)) as (wm1 & He1 & Hw1).
      rewrite (truthy_weq _ _ v Hw1) in Ht.
      destruct (unistmt_skip_dec rest) as [Hs|Hne].
      - (* endif: the retargeted jump goes to the done label *)
        subst rest. inversion Hr; subst. cbn [ucrest] in Ecr. injection Ecr as -> ->. cbn [app length] in *.
        apply code_at_cons in Hatr. destruct Hatr as [Hd _].
        exists wm1. split; [exact Hw1|]. cbn [C01.post fst]. intros r Hr'.
        unfold ubranch_head in Hhead. eapply rjumpif; [exact Hhead|apply Ev_not; exact He1|].
        rewrite Ht. cbn [negb truthy]. eexists; split; [apply find_unique; [exact HN|exact Hd]|].
        run_at Hr'.
      - (* elif / else: the jump goes to this branch's If label, right before the rest of the chain *)
        destruct (IHrQ wm1 HN Hc Hwr Hgr Hro Hne Hatr Hw1) as (wm2 & Hw2 & Hp2).
        exists wm2. split; [exact Hw2|].
        replace (pc + S (length ca + length cr + 1)) with (S pc + length ca + length cr + 1) by lia.
        eapply post_pre; [|exact Hp2]. intros r Hr'.
        destruct (ucrest_shape ctx done jl n1 rest Hro Hne) as (tl & Etl). rewrite <- Ecr in Etl. cbn [fst] in Etl.
        destruct (rest_layout _ _ _ _ _ _ Etl Hatr) as (_ & Hl & _).
        assert (Hh : nth_error code pc = Some (SJump jl (Some (e_not c)))).
        { unfold ubranch_head in Hhead. destruct rest; try exact Hhead. congruence. }
        eapply rjumpif; [exact Hh|apply Ev_not; exact He1|].
        rewrite Ht. cbn [negb truthy]. eexists; split; [apply find_unique; [exact HN|exact Hl]|].
        run_at Hr'. }
    destruct (uif_PQ _ _ _ _ _ _ HB) as [HP HQ]. split; [exact HP|split; [exact HQ|triv_W]].
  - (* If, the condition's evaluation stops *)
    intros c a rest loc w o w1 He Hv.
    assert (HB : UIFB c a rest (loc, w) (SStop o) (loc, w1)).
    { intros code ctx cpos done jl n pc wm HN Hc Hwf Hg Hat Hw. cbn [fst snd] in *.
      apply code_at_cons in Hat. destruct Hat as [Hhead _].
      destruct (Ev_blind _ _ _ _ _ (tick wm) He (C01.weq_tick _ _ Hw)) as (wm1 & He1 & Hw1).
      exists wm1. split; [exact Hw1|]. cbn [C01.post]. unfold ubranch_head in Hhead.
      eapply rjumpif_stop; [exact Hhead|apply Ev_not_stop; eassumption|exact Hv]. }
    destruct (uif_PQ _ _ _ _ _ _ HB) as [HP HQ]. split; [exact HP|split; [exact HQ|triv_W]].
  - (* Else *)
    intros b st o st1 Hb IHb.
    destruct IHb as [IHb _]. split; [|split; [|triv_W]].
    + intros code ctx cpos n pc wm HN Hc Hwf Hg Hat Hw. cbn [uwf uguard] in *. rewrite ucompile_else_eq in Hat |- *. apply IHb; assumption.
    + intros code ctx cpos done jl n pc wm HN Hc Hwf Hg _ _ Hat Hw. cbn [uwf uguard] in *. rewrite ucrest_else_eq in Hat |- *.
      specialize (IHb code ctx cpos n (pc + 2) wm HN Hc Hwf Hg).
      destruct (ucompile ctx n b) as [cb n2]. cbn [fst snd] in *.
      rewrite <- app_assoc in Hat. apply code_at_app in Hat. destruct Hat as [_ Hat]. cbn [length] in Hat.
      apply code_at_app in Hat. destruct Hat as [Hatb Hd]. apply code_at_cons in Hd. destruct Hd as [Hd _].
      destruct (IHb Hatb Hw) as (wm1 & Hw1 & Hp1).
      destruct (sout_normal_dec o) as [->|Hno].
      * exists (tick wm1). split; [apply C01.weq_tick; exact Hw1|]. cbn [C01.post] in *. intros r Hr. apply Hp1.
        eapply rlabel; [exact Hd|]. rewrite app_length in Hr. cbn [length] in Hr.
        run_at Hr.
      * exists wm1. split; [exact Hw1|]. eapply post_end_irrel; [exact Hno|exact Hp1].
  - (* While, condition falsy *)
    intros c b loc w v w1 He Ht.
    assert (HW : UWW (NWhile c b) (loc, w) SNormal (loc, w1) /\ UPP (NWhile c b) (loc, w) SNormal (loc, w1)).
    { split.
      - intros c' b' E code ctx cpos n pc wm HN Hc Hwb Hnc Hgb Hat Hw. injection E as <- <-.
        destruct (uwhile_layout _ _ _ _ _ _ Hat) as (H0 & H1 & Hb & H2 & H3 & Hlen'). cbn zeta in *.
        destruct (Ev_blind _ _ _ _ _ (tick wm) He (C01.weq_tick _ _ Hw)) as (wm1 & He1 & Hw1).
        rewrite (truthy_weq _ _ v Hw1) in Ht. cbn [fst snd].
        exists (tick wm1). split; [apply C01.weq_tick; exact Hw1|]. cbn [C01.post]. intros r Hr.
        eapply rjumpif; [exact H2|exact He1|]. rewrite Ht.
        eapply rlabel; [exact H3|].
        rewrite Hlen' in Hr. run_at Hr.
      - intros code ctx cpos n pc wm HN Hc Hwf Hg Hat Hw. cbn [uwf uguard] in Hwf, Hg.
        destruct (uwhile_layout _ _ _ _ _ _ Hat) as (H0 & H1 & Hb & H2 & H3 & Hlen'). cbn zeta in *.
        destruct (Ev_blind _ _ _ _ _ (tick wm) He (C01.weq_tick _ _ Hw)) as (wm1 & He1 & Hw1).
        rewrite (truthy_weq _ _ v Hw1) in Ht. cbn [fst snd].
        exists wm1. split; [exact Hw1|]. cbn [C01.post]. intros r Hr.
        eapply rjumpif; [exact H0|apply Ev_not; exact He1|]. rewrite Ht. cbn [negb truthy].
        eexists; split; [apply find_unique; [exact HN|exact H3]|].
        rewrite Hlen' in Hr. run_at Hr. }
    destruct HW as [HW HP]. split; [exact HP|split; [triv_Q|exact HW]].
  - (* While, the condition's evaluation stops *)
    intros c b loc w o w1 He Hv.
    split; [|split; [triv_Q|]].
    + intros code ctx cpos n pc wm HN Hc Hwf Hg Hat Hw.
      destruct (uwhile_layout _ _ _ _ _ _ Hat) as (H0 & _). cbn zeta in *.
      destruct (Ev_blind _ _ _ _ _ (tick wm) He (C01.weq_tick _ _ Hw)) as (wm1 & He1 & Hw1).
      exists wm1. split; [exact Hw1|]. cbn [C01.post fst]. eapply rjumpif_stop; [exact H0|apply Ev_not_stop; eassumption|exact Hv].
    + intros c' b' E code ctx cpos n pc wm HN Hc Hwb Hnc Hgb Hat Hw. injection E as <- <-.
      destruct (uwhile_layout _ _ _ _ _ _ Hat) as (_ & _ & _ & H2 & _). cbn zeta in *.
      destruct (Ev_blind _ _ _ _ _ (tick wm) He (C01.weq_tick _ _ Hw)) as (wm1 & He1 & Hw1).
      exists wm1. split; [exact Hw1|]. cbn [C01.post fst]. eapply rjumpif_stop; eassumption.
  - (* While, one more iteration *)
    intros c b loc w v w1 o st2 o3 st3 He Ht Hb IHb Ho Hwh IHw.
    destruct IHb as [IHb _]. destruct IHw as (_ & _ & IHw).
    assert (Hcore : forall code ctx cpos n pc wm1, NoDup (labels code) -> uwf true b = true -> uhas_cont b = false -> uguard b = true ->
              code_at code pc (fst (ucompile ctx n (NWhile c b))) -> weq w1 wm1 -> cont_ok code ctx cpos ->
              exists wm', weq (snd st3) wm' /\ post code cpos (pc + length (fst (ucompile ctx n (NWhile c b)))) o3 (fst st3) wm' (pc + 2) loc wm1).
    { intros code ctx cpos n pc wm1 HN Hwb Hnc Hgb Hat Hw1 Hc.
      destruct (uwhile_layout _ _ _ _ _ _ Hat) as (H0 & H1 & Hatb & H2 & H3 & Hlen'). cbn zeta in *.
      assert (Hcb : cont_ok code (Some (lab KDone n, lab KLoop n)) (Some (S (pc + 2 + length (fst (ucompile (Some (lab KDone n, lab KLoop n)) (S n) b))), S pc))).
      { split; assumption. }
      destruct (IHb code _ _ (S n) (pc + 2) wm1 HN Hcb Hwb Hgb Hatb Hw1) as (wm2 & Hw2 & Hp2).
      assert (Hoc : o = SNormal).
      { destruct Ho as [->| ->]; [reflexivity|]. exfalso. exact (proj1 uhas_cont_sound _ _ _ _ Hb Hnc eq_refl). }
      subst o. cbn [C01.post] in Hp2.
      destruct (IHw c b eq_refl code ctx cpos n pc wm2 HN Hc Hwb Hnc Hgb Hat Hw2) as (wm3 & Hw3 & Hp3).
      exists wm3. split; [exact Hw3|]. eapply post_pre; [exact Hp2|exact Hp3]. }
    split; [|split; [triv_Q|]].
    + intros code ctx cpos n pc wm HN Hc Hwf Hg Hat Hw. cbn [uwf uguard] in Hwf, Hg. apply andb_prop in Hg. destruct Hg as [Hnc Hgb].
      apply negb_true_iff in Hnc.
      destruct (uwhile_layout _ _ _ _ _ _ Hat) as (H0 & H1 & _). cbn zeta in *.
      destruct (Ev_blind _ _ _ _ _ (tick wm) He (C01.weq_tick _ _ Hw)) as (wm1 & He1 & Hw1).
      rewrite (truthy_weq _ _ v Hw1) in Ht.
      destruct (Hcore code ctx cpos n pc (tick wm1) HN Hwf Hnc Hgb Hat (C01.weq_tick _ _ Hw1) Hc) as (wm3 & Hw3 & Hp3).
      exists wm3. split; [exact Hw3|]. cbn [fst snd] in *. eapply post_pre; [|exact Hp3]. intros r Hr.
      eapply rjumpif; [exact H0|apply Ev_not; exact He1|]. rewrite Ht. cbn [negb truthy].
      eapply rlabel; [exact H1|]. run_at Hr.
    + intros c' b' E code ctx cpos n pc wm HN Hc Hwb Hnc Hgb Hat Hw. injection E as <- <-.
      destruct (uwhile_layout _ _ _ _ _ _ Hat) as (_ & H1 & _ & H2 & _). cbn zeta in *.
      destruct (Ev_blind _ _ _ _ _ (tick wm) He (C01.weq_tick _ _ Hw)) as (wm1 & He1 & Hw1).
      rewrite (truthy_weq _ _ v Hw1) in Ht.
      destruct (Hcore code ctx cpos n pc wm1 HN Hwb Hnc Hgb Hat Hw1 Hc) as (wm3 & Hw3 & Hp3).
      exists wm3. split; [exact Hw3|]. cbn [fst snd] in *. eapply post_pre; [|exact Hp3]. intros r Hr.
      eapply rjumpif; [exact H2|exact He1|]. rewrite Ht. eexists; split; [apply find_unique; [exact HN|exact H1]|].
      run_at Hr.
  - (* While, the body breaks *)
    intros c b loc w v w1 st2 He Ht Hb IHb.
    destruct IHb as [IHb _].
    assert (Hcore : forall code ctx n pc wm1, NoDup (labels code) -> uwf true b = true -> uguard b = true ->
              code_at code pc (fst (ucompile ctx n (NWhile c b))) -> weq w1 wm1 ->
              exists wm', weq (snd st2) wm' /\ forall r, Run code (pc + length (fst (ucompile ctx n (NWhile c b)))) (fst st2) wm' r -> Run code (pc + 2) loc wm1 r).
    { intros code ctx n pc wm1 HN Hwb Hgb Hat Hw1.
      destruct (uwhile_layout _ _ _ _ _ _ Hat) as (H0 & H1 & Hatb & H2 & H3 & Hlen'). cbn zeta in *.
      assert (Hcb : cont_ok code (Some (lab KDone n, lab KLoop n)) (Some (S (pc + 2 + length (fst (ucompile (Some (lab KDone n, lab KLoop n)) (S n) b))), S pc))).
      { split; assumption. }
      destruct (IHb code _ _ (S n) (pc + 2) wm1 HN Hcb Hwb Hgb Hatb Hw1) as (wm2 & Hw2 & Hp2). cbn [C01.post] in Hp2.
      exists wm2. split; [exact Hw2|]. intros r Hr. apply Hp2. rewrite Hlen' in Hr.
      run_at Hr. }
    split; [|split; [triv_Q|]].
    + intros code ctx cpos n pc wm HN Hc Hwf Hg Hat Hw. cbn [uwf uguard] in Hwf, Hg. apply andb_prop in Hg. destruct Hg as [Hnc Hgb].
      destruct (uwhile_layout _ _ _ _ _ _ Hat) as (H0 & H1 & _). cbn zeta in *.
      destruct (Ev_blind _ _ _ _ _ (tick wm) He (C01.weq_tick _ _ Hw)) as (wm1 & He1 & Hw1).
      rewrite (truthy_weq _ _ v Hw1) in Ht.
      destruct (Hcore code ctx n pc (tick wm1) HN Hwf Hgb Hat (C01.weq_tick _ _ Hw1)) as (wm3 & Hw3 & Hp3).
      exists wm3. split; [exact Hw3|]. cbn [C01.post fst snd] in *. intros r Hr.
      eapply rjumpif; [exact H0|apply Ev_not; exact He1|]. rewrite Ht. cbn [negb truthy].
      eapply rlabel; [exact H1|]. replace (S (S pc)) with (pc + 2) by lia. apply Hp3. exact Hr.
    + intros c' b' E code ctx cpos n pc wm HN Hc Hwb Hnc Hgb Hat Hw. injection E as <- <-.
      destruct (uwhile_layout _ _ _ _ _ _ Hat) as (_ & H1 & _ & H2 & _). cbn zeta in *.
      destruct (Ev_blind _ _ _ _ _ (tick wm) He (C01.weq_tick _ _ Hw)) as (wm1 & He1 & Hw1).
      rewrite (truthy_weq _ _ v Hw1) in Ht.
      destruct (Hcore code ctx n pc wm1 HN Hwb Hgb Hat Hw1) as (wm3 & Hw3 & Hp3).
      exists wm3. split; [exact Hw3|]. cbn [C01.post fst snd] in *. intros r Hr.
      eapply rjumpif; [exact H2|exact He1|]. rewrite Ht. eexists; split; [apply find_unique; [exact HN|exact H1]|].
      replace (S (S pc)) with (pc + 2) by lia. apply Hp3. exact Hr.
  - (* While, the body stops (return / error) *)
    intros c b loc w v w1 o st2 He Ht Hb IHb.
    destruct IHb as [IHb _].
    assert (Hcore : forall code ctx n pc wm1, NoDup (labels code) -> uwf true b = true -> uguard b = true ->
              code_at code pc (fst (ucompile ctx n (NWhile c b))) -> weq w1 wm1 ->
              exists wm', weq (snd st2) wm' /\ Run code (pc + 2) loc wm1 (o, fst st2, wm')).
    { intros code ctx n pc wm1 HN Hwb Hgb Hat Hw1.
      destruct (uwhile_layout _ _ _ _ _ _ Hat) as (H0 & H1 & Hatb & H2 & H3 & Hlen'). cbn zeta in *.
      assert (Hcb : cont_ok code (Some (lab KDone n, lab KLoop n)) (Some (S (pc + 2 + length (fst (ucompile (Some (lab KDone n, lab KLoop n)) (S n) b))), S pc))).
      { split; assumption. }
      destruct (IHb code _ _ (S n) (pc + 2) wm1 HN Hcb Hwb Hgb Hatb Hw1) as (wm2 & Hw2 & Hp2). cbn [C01.post] in Hp2.
      exists wm2. split; [exact Hw2|exact Hp2]. }
    split; [|split; [triv_Q|]].
    + intros code ctx cpos n pc wm HN Hc Hwf Hg Hat Hw. cbn [uwf uguard] in Hwf, Hg. apply andb_prop in Hg. destruct Hg as [Hnc Hgb].
      destruct (uwhile_layout _ _ _ _ _ _ Hat) as (H0 & H1 & _). cbn zeta in *.
      destruct (Ev_blind _ _ _ _ _ (tick wm) He (C01.weq_tick _ _ Hw)) as (wm1 & He1 & Hw1).
      rewrite (truthy_weq _ _ v Hw1) in Ht.
      destruct (Hcore code ctx n pc (tick wm1) HN Hwf Hgb Hat (C01.weq_tick _ _ Hw1)) as (wm3 & Hw3 & Hp3).
      exists wm3. split; [exact Hw3|]. cbn [C01.post fst snd] in *.
      eapply rjumpif; [exact H0|apply Ev_not; exact He1|]. rewrite Ht. cbn [negb truthy].
      eapply rlabel; [exact H1|]. run_at Hp3.
    + intros c' b' E code ctx cpos n pc wm HN Hc Hwb Hnc Hgb Hat Hw. injection E as <- <-.
      destruct (uwhile_layout _ _ _ _ _ _ Hat) as (_ & H1 & _ & H2 & _). cbn zeta in *.
      destruct (Ev_blind _ _ _ _ _ (tick wm) He (C01.weq_tick _ _ Hw)) as (wm1 & He1 & Hw1).
      rewrite (truthy_weq _ _ v Hw1) in Ht.
      destruct (Hcore code ctx n pc wm1 HN Hwb Hgb Hat Hw1) as (wm3 & Hw3 & Hp3).
      exists wm3. split; [exact Hw3|]. cbn [C01.post fst snd] in *.
      eapply rjumpif; [exact H2|exact He1|]. rewrite Ht. eexists; split; [apply find_unique; [exact HN|exact H1]|].
      run_at Hp3.
  - (* For, the expression stops *)
    intros vals len idx x e body loc w o w1 He Hv. leaf.
    intros code ctx cpos n pc wm HN Hc Hwf Hg Hat Hw. cbn [uwf uguard fst snd] in *. rewrite ucompile_for_eq in Hat |- *.
    destruct (ucompile (Some (lab KDone n, labc n)) (S n) body) as [cb n1]. cbn [fst snd] in *.
    destruct (for_layout_g lab labc _ _ _ _ _ _ _ _ _ _ Hat) as (H0 & _).
    destruct (head_stop cfg Hunl lib url_rel lint_lines um Ev_blind vals e code pc H0 loc w o w1 wm He Hv Hw) as (wm' & Hw' & Hr).
    exists wm'. split; [exact Hw'|exact Hr].
  - (* For, empty array *)
    intros vals len idx x e body loc w l w1 He Harr Hfn. leaf.
    intros code ctx cpos n pc wm HN Hc Hwf Hg Hat Hw. cbn [uwf uguard fst snd] in *. rewrite ucompile_for_eq in Hat |- *.
    apply andb_prop in Hwf. destruct Hwf as [Hnm Hwb].
    destruct (ucompile (Some (lab KDone n, labc n)) (S n) body) as [cb n1]. cbn [fst snd] in *.
    destruct (for_layout_g lab labc _ _ _ _ _ _ _ _ _ _ Hat) as (H0 & H1 & H2 & H3 & H4 & H5 & Hb & Hcc & H6 & H7 & H8 & Hlen'). cbv zeta in *.
    rewrite Hlen'.
    destruct (head_empty cfg Hunl lib url_rel lint_lines Hlib um lab labc Ev_blind Hlen vals len idx e Hnm code pc n (length cb) _ (uhas_cont body)
                HN eq_refl H0 H1 H2 H8 loc w l w1 wm He Harr Hfn Hw) as (wm' & Hw' & Hr).
    exists wm'. split; [exact Hw'|]. cbn [C01.post]. intros r Hr'. apply Hr. run_at Hr'.
  - (* For, the loop *)
    intros vals len idx x e body loc w l w1 elems o st' He Harr Hne Hfn _ IH. leaf.
    intros code ctx cpos n pc wm HN Hc Hwf Hg Hat Hw.
    cbn [uwf uguard fst snd] in *. rewrite ucompile_for_eq in Hat |- *. apply andb_prop in Hwf. destruct Hwf as [Hnm Hwb].
    specialize (IH code cpos n pc e).
    destruct (ucompile (Some (lab KDone n, labc n)) (S n) body) as [cb n1]. cbn [fst snd] in *.
    destruct (for_layout_g lab labc _ _ _ _ _ _ _ _ _ _ Hat) as (H0 & H1 & H2 & H3 & H4 & H5 & Hb & Hcc & H6 & H7 & H8 & Hlen'). cbv zeta in *.
    rewrite Hlen'.
    destruct (head_loop cfg Hunl lib url_rel lint_lines Hlib um lab labc Ev_blind Hlen vals len idx e Hnm code pc n _ (uhas_cont body) eq_refl
                H0 H1 H2 H3 H4 loc w l w1 elems wm He Harr Hne Hfn Hw) as (HI & wm3 & Hw3 & Hr3).
    destruct (IH wm3 HN Hnm Hwb Hg Hat HI Hw3) as (wm' & Hw' & Hp').
    exists wm'. split; [exact Hw'|].
    match goal with |- C01.post _ _ _ _ _ _ _ ?q _ _ _ _ _ _ => match type of Hp' with C01.post _ _ _ _ _ _ _ ?p _ _ _ _ _ _ => replace q with p by lia end end.
    eapply post_pre; [|exact Hp']. exact Hr3.
  - (* loop: the body stops *)
    intros vals len idx x body arr m i st v out st_b Hit Hb IHb code cpos n pc e wm HN Hnm Hwb Hg Hat HI Hw.
    destruct IHb as [IHb _].
    destruct (for_layout_g lab labc _ _ _ _ _ _ _ _ _ _ Hat) as (H0 & H1 & H2 & H3 & H4 & H5 & Hb' & Hcc & H6 & H7 & H8 & Hlen'). cbv zeta in *.
    refine (loop_stop cfg Hunl lib url_rel lint_lines Hlib um Hget vals len idx x code pc _ _ (uhas_cont body) eq_refl H5 cpos arr m i st v out st_b Hit _ HI wm Hw).
    apply (body_sim_of_UPP body _ _ _ code n pc IHb HN Hwb Hg Hb' Hcc H8).
  - (* loop: the body breaks *)
    intros vals len idx x body arr m i st v st_b Hit Hb IHb code cpos n pc e wm HN Hnm Hwb Hg Hat HI Hw.
    destruct IHb as [IHb _].
    destruct (for_layout_g lab labc _ _ _ _ _ _ _ _ _ _ Hat) as (H0 & H1 & H2 & H3 & H4 & H5 & Hb' & Hcc & H6 & H7 & H8 & Hlen'). cbv zeta in *.
    refine (loop_break cfg Hunl lib url_rel lint_lines Hlib um Hget vals len idx x code pc _ _ (uhas_cont body) eq_refl H5 cpos arr m i st v st_b Hit _ HI wm Hw).
    apply (body_sim_of_UPP body _ _ _ code n pc IHb HN Hwb Hg Hb' Hcc H8).
  - (* loop: next iteration *)
    intros vals len idx x body arr m i st v ob st_b o st' Hit Hb IHb Ho HI' Hlt _ IHl code cpos n pc e wm HN Hnm Hwb Hg Hat HI Hw.
    destruct IHb as [IHb _].
    destruct (for_layout_g lab labc _ _ _ _ _ _ _ _ _ _ Hat) as (H0 & H1 & H2 & H3 & H4 & H5 & Hb' & Hcc & H6 & H7 & H8 & Hlen'). cbv zeta in *.
    refine (loop_next cfg Hunl lib url_rel lint_lines Hlib um lab labc Hget vals len idx x Hnm code pc n _ _ (uhas_cont body) HN eq_refl H4 H5 Hcc H6 H7
              cpos arr m i st v ob st_b o st' Hit _ Ho (Hhc _ _ _ _ Hb) HI' Hlt _ HI wm Hw).
    + apply (body_sim_of_UPP body _ _ _ code n pc IHb HN Hwb Hg Hb' Hcc H8).
    + intros HIn wmn Hwn. exact (IHl code cpos n pc e wmn HN Hnm Hwb Hg Hat HIn Hwn).
  - (* loop: last iteration *)
    intros vals len idx x body arr m i st v ob st_b Hit Hb IHb Ho HI' Hge code cpos n pc e wm HN Hnm Hwb Hg Hat HI Hw.
    destruct IHb as [IHb _].
    destruct (for_layout_g lab labc _ _ _ _ _ _ _ _ _ _ Hat) as (H0 & H1 & H2 & H3 & H4 & H5 & Hb' & Hcc & H6 & H7 & H8 & Hlen'). cbv zeta in *.
    refine (loop_last cfg Hunl lib url_rel lint_lines Hlib um lab labc Hget vals len idx x Hnm code pc n _ _ (uhas_cont body) HN eq_refl H4 H5 Hcc H6 H7 H8
              cpos arr m i st v ob st_b Hit _ Ho (Hhc _ _ _ _ Hb) HI' Hge HI wm Hw).
    apply (body_sim_of_UPP body _ _ _ code n pc IHb HN Hwb Hg Hb' Hcc H8).
Qed.

(* THE SIMULATION for the whole block-structured language, at any position of a statement list with unique labels *)
Theorem usim : forall s st o st', UExec s st o st' -> UPP s st o st'.
Proof. intros s st o st' H. exact (proj1 (proj1 usim_both s st o st' H)). Qed.

(* the whole scope: run from statement 0 *)
Theorem uscope_sim : forall s loc w o loc' w', UExec s (loc, w) o (loc', w') ->
  uwf false s = true -> uguard s = true ->
  forall n wm, NoDup (labels (fst (ucompile None n s))) -> weq w wm ->
  exists out wm', scope_result o = Some out /\ weq w' wm' /\ Run (fst (ucompile None n s)) 0 loc wm (out, loc', wm').
Proof.
  intros s loc w o loc' w' H Hwf Hg n wm HN Hw.
  destruct (usim _ _ _ _ H (fst (ucompile None n s)) None None n 0 wm HN I Hwf Hg (code_at_whole _) Hw) as (wm' & Hw' & Hp).
  cbn [fst snd] in *. destruct o; cbn [C01.post] in Hp.
  - exists (OVal VNull), wm'. split; [reflexivity|split; [exact Hw'|]]. apply Hp.
    apply (run_end cfg lib url_rel lint_lines um). apply nth_error_None. cbn. lia.
  - contradiction.
  - contradiction.
  - exists o, wm'. split; [reflexivity|split; [exact Hw'|exact Hp]].
Qed.


(* ---------------------------------------------------------------- an executable interpreter for the structured reading *)
Fixpoint uexec (fuel : nat) (s : unistmt) (st : sstate) {struct fuel} : option (sout * sstate) :=
  match fuel with
  | O => None
  | S f =>
    let '(loc, w) := st in
    let ev e w0 := match eval f e loc false um w0 with (OFuel, _) => None | r => Some r end in
    match s with
    | NSkip => Some (SNormal, st)
    | NSeq a b =>
      match uexec f a st with
      | Some (SNormal, st1) => uexec f b st1
      | r => r
      end
    | NAssign x e =>
      match ev e w with
      | Some (OVal v, w1) => Some (SNormal, assign x v loc w1)
      | Some (o, w1) => Some (SStop o, (loc, w1))
      | None => None
      end
    | NExpr e =>
      match ev e w with
      | Some (OVal v, w1) => Some (SNormal, (loc, w1))
      | Some (o, w1) => Some (SStop o, (loc, w1))
      | None => None
      end
    | NReturn (Some e) => match ev e w with Some (o, w1) => Some (SStop o, (loc, w1)) | None => None end
    | NReturn None => Some (SStop (OVal VNull), st)
    | NBreak => Some (SBreak, st)
    | NContinue => Some (SContinue, st)
    | NIf c a rest =>
      match ev c w with
      | Some (OVal v, w1) => if truthy w1 v then uexec f a (loc, w1) else uexec f rest (loc, w1)
      | Some (o, w1) => Some (SStop o, (loc, w1))
      | None => None
      end
    | NElse b => uexec f b st
    | NWhile c b =>
      match ev c w with
      | Some (OVal v, w1) =>
        if truthy w1 v then
          match uexec f b (loc, w1) with
          | Some (SNormal, st2) | Some (SContinue, st2) => uexec f s st2
          | Some (SBreak, st2) => Some (SNormal, st2)
          | Some (SStop o, st2) => Some (SStop o, st2)
          | None => None
          end
        else Some (SNormal, (loc, w1))
      | Some (o, w1) => Some (SStop o, (loc, w1))
      | None => None
      end
    | NFor vals len idx x e body =>
      match eval f e loc false um w with
      | (OFuel, _) => None
      | (OVal (VArr l), w1) =>
        let st1 := assign' vals (VArr l) (loc, w1) in
        if is_libb ARRLEN st1 then
          match nth_error (w_arrs w1) l with
          | Some [] => Some (SNormal, assign' len (int_v 0) st1)
          | Some elems => uloop f vals len idx x body l (length elems) 0 (assign' idx (int_v 0) (assign' len (int_v (length elems)) st1))
          | None => None
          end
        else None
      | (OVal _, _) => None                  (* a non-array: no rule in UExec *)
      | (o, w1) => Some (SStop o, (loc, w1))
      end
    end
  end
with uloop (fuel : nat) (vals len idx x : str) (body : unistmt) (l m i : nat) (st : sstate) {struct fuel} : option (sout * sstate) :=
  match fuel with
  | O => None
  | S k =>
    if is_libb ARRGET st then
      match nth_error (w_arrs (snd st)) l with
      | Some elems =>
        match nth_error elems i with
        | Some v =>
          match uexec k body (assign' x v st) with
          | Some (SStop out, st_b) => Some (SStop out, st_b)
          | Some (SBreak, st_b) => Some (SNormal, st_b)
          | Some (_, st_b) =>
            if inv3b vals len idx l m i st_b then
              if S i <? m then uloop k vals len idx x body l m (S i) (assign' idx (int_v (S i)) st_b)
              else Some (SNormal, assign' idx (int_v (S i)) st_b)
            else None
          | None => None
          end
        | None => None
        end
      | None => None
      end
    else None
  end.

Theorem uexec_sound_both : forall fuel,
  (forall s st o st', uexec fuel s st = Some (o, st') -> UExec s st o st') /\
  (forall vals len idx x body l m i st o st', uloop fuel vals len idx x body l m i st = Some (o, st') -> ULoop vals len idx x body l m i st o st').
Proof.
  induction fuel as [|f [IH IHl]]; [split; intros; discriminate|]. split.
  - intros s [loc w] o st' H. cbn [uexec] in H.
    destruct s as [ |a b|x e|e|[e|]| | |c a rest|b|c b|vals len idx x e body].
    + injection H as <- <-. constructor.
    + destruct (uexec f a (loc, w)) as [[oa st1]|] eqn:Ea; [|discriminate].
      destruct oa; try (injection H as <- <-; apply X_SeqA; [apply IH; exact Ea|discriminate]).
      eapply X_SeqN; [apply IH; exact Ea|apply IH; exact H].
    + destruct (match eval f e loc false um w with (OFuel, _) => None | r => Some r end) as [[oe w1]|] eqn:Ee; [|discriminate].
      apply ev_sound in Ee. destruct oe; injection H as <- <-; try (apply X_AssignStop; [exact Ee|reflexivity]). apply X_Assign. exact Ee.
    + destruct (match eval f e loc false um w with (OFuel, _) => None | r => Some r end) as [[oe w1]|] eqn:Ee; [|discriminate].
      apply ev_sound in Ee. destruct oe; injection H as <- <-; try (apply X_ExprStop; [exact Ee|reflexivity]). eapply X_Expr. exact Ee.
    + destruct (match eval f e loc false um w with (OFuel, _) => None | r => Some r end) as [[oe w1]|] eqn:Ee; [|discriminate].
      apply ev_sound in Ee. injection H as <- <-. apply X_Return. exact Ee.
    + injection H as <- <-. constructor.
    + injection H as <- <-. constructor.
    + injection H as <- <-. constructor.
    + destruct (match eval f c loc false um w with (OFuel, _) => None | r => Some r end) as [[oe w1]|] eqn:Ee; [|discriminate].
      apply ev_sound in Ee. destruct oe; try (injection H as <- <-; apply X_IfStop; [exact Ee|reflexivity]).
      destruct (truthy w1 v) eqn:Et; [eapply X_IfT|eapply X_IfF]; eauto.
    + apply X_Else. apply IH. exact H.
    + destruct (match eval f c loc false um w with (OFuel, _) => None | r => Some r end) as [[oe w1]|] eqn:Ee; [|discriminate].
      apply ev_sound in Ee. destruct oe; try (injection H as <- <-; apply X_WhileStop; [exact Ee|reflexivity]).
      destruct (truthy w1 v) eqn:Et; [|injection H as <- <-; eapply X_WhileF; eauto].
      destruct (uexec f b (loc, w1)) as [[ob st2]|] eqn:Eb; [|discriminate]. apply IH in Eb.
      destruct ob.
      * eapply X_WhileT; [exact Ee|exact Et|exact Eb|left; reflexivity|apply IH; exact H].
      * injection H as <- <-. eapply X_WhileB; eauto.
      * eapply X_WhileT; [exact Ee|exact Et|exact Eb|right; reflexivity|apply IH; exact H].
      * injection H as <- <-. eapply X_WhileS; eauto.
    + destruct (eval f e loc false um w) as [oe w1] eqn:Ee.
      assert (HE : oe <> OFuel -> Ev e loc w oe w1) by (intros Hn; exists f; split; [exact Ee|exact Hn]).
      destruct oe as [v| | | | |]; try discriminate;
        try (injection H as <- <-; apply X_ForStop; [apply HE; discriminate|reflexivity]).
      destruct v; try discriminate.
      destruct (is_libb ARRLEN (assign' vals (VArr l) (loc, w1))) eqn:Efn; [|discriminate]. apply is_libb_sound in Efn.
      destruct (nth_error (w_arrs w1) l) as [elems|] eqn:Ea; [|discriminate].
      destruct elems as [|e0 et].
      * injection H as <- <-. apply X_ForEmpty; [apply HE; discriminate|exact Ea|exact Efn].
      * apply IHl in H. eapply X_ForLoop; [apply HE; discriminate|exact Ea|discriminate|exact Efn|exact H].
  - intros vals len idx x body l m i st o st' H. cbn [uloop] in H.
    destruct (is_libb ARRGET st) eqn:Efn; [|discriminate]. apply is_libb_sound in Efn.
    destruct (nth_error (w_arrs (snd st)) l) as [elems|] eqn:Ea; [|discriminate].
    destruct (nth_error elems i) as [v|] eqn:Ev'; [|discriminate].
    destruct (uexec f body (assign' x v st)) as [[ob st_b]|] eqn:Eb; [|discriminate].
    apply IH in Eb.
    assert (Hit : IterPre l i st v) by (exists elems; auto).
    destruct ob.
    + destruct (inv3b vals len idx l m i st_b) eqn:EI; [|discriminate]. apply inv3b_sound in EI.
      destruct (S i <? m) eqn:El.
      * apply Nat.ltb_lt in El. eapply XL_next; [exact Hit|exact Eb|left; reflexivity|exact EI|exact El|apply IHl; exact H].
      * apply Nat.ltb_ge in El. injection H as <- <-. eapply XL_last; [exact Hit|exact Eb|left; reflexivity|exact EI|exact El].
    + injection H as <- <-. eapply XL_break; [exact Hit|exact Eb].
    + destruct (inv3b vals len idx l m i st_b) eqn:EI; [|discriminate]. apply inv3b_sound in EI.
      destruct (S i <? m) eqn:El.
      * apply Nat.ltb_lt in El. eapply XL_next; [exact Hit|exact Eb|right; reflexivity|exact EI|exact El|apply IHl; exact H].
      * apply Nat.ltb_ge in El. injection H as <- <-. eapply XL_last; [exact Hit|exact Eb|right; reflexivity|exact EI|exact El].
    + injection H as <- <-. eapply XL_stop; [exact Hit|exact Eb].
Qed.

Theorem uexec_sound : forall fuel s st o st', uexec fuel s st = Some (o, st') -> UExec s st o st'.
Proof. intros fuel. exact (proj1 (uexec_sound_both fuel)). Qed.


(* the reading of Proofs/C01.v is the restriction of UExec to the for-free trees *)
Lemma SExec_UExec s st o st' : SExec cfg lib url_rel lint_lines um s st o st' -> UExec (of_sstmt s) st o st'.
Proof.
  induction 1; cbn [of_sstmt];
    [apply X_Skip|eapply X_SeqN; eauto|eapply X_SeqA; eauto|eapply X_Assign; eauto|eapply X_AssignStop; eauto|eapply X_Expr; eauto
    |eapply X_ExprStop; eauto|eapply X_Return; eauto|apply X_ReturnNone|apply X_Break|apply X_Continue|eapply X_IfT; eauto|eapply X_IfF; eauto
    |eapply X_IfStop; eauto|eapply X_Else; eauto|eapply X_WhileF; eauto|eapply X_WhileStop; eauto|eapply X_WhileT; eauto|eapply X_WhileB; eauto
    |eapply X_WhileS; eauto].
Qed.

End Uni.
