(* Proofs/C11.v — value comparison is a total preorder and every consumer agrees with it.

   Layers:
   1. order laws bundled PER LEFT ELEMENT (record [Laws]) so that they lift through the lexicographic
      list comparison [lcmp] by induction on the left list only (this is what makes the nested,
      unbounded-depth induction over [cv] go through);
   2. the scalar orders: strings (code points), booleans, exact int/float comparison (dyadic values
      scaled to a common exponent), normalised dates; the type-name fallback, where the order of the
      REGENERATED names is reduced to a rank by computation;
   3. [compare] is put in specification form ([compare_spec]); the main induction [compare_laws];
   4. consumers: relational operators, stable sort (sortedness, permutation, stability, uniqueness),
      min/max, indexOf, the dataSort row comparator. *)
From Coq Require Import Lia ZifyBool SpecFloat Permutation Sorted.
From BS Require Import Model.Base Model.Num Model.Compare Gen.TypeNames Proofs.BaseFacts.
Local Open Scope Z_scope.

(* ================================================================== 1. laws, per left element *)
Record Laws {A} (D : A -> Prop) (c : A -> A -> comparison) (a : A) : Prop := {
  l_refl : c a a = Eq;
  l_anti : forall b, D b -> c b a = CompOpp (c a b);
  l_eq   : forall b d, D b -> D d -> c a b = Eq -> c b d = c a d;
  l_lt   : forall b d, D b -> D d -> c a b = Lt -> c b d = Lt -> c a d = Lt;
  l_lteq : forall b d, D b -> D d -> c a b = Lt -> c b d = Eq -> c a d = Lt }.
Arguments l_refl {A D c a}. Arguments l_anti {A D c a}. Arguments l_eq {A D c a}.
Arguments l_lt {A D c a}. Arguments l_lteq {A D c a}.

Lemma Laws_weaken {A} (D D' : A -> Prop) c a : (forall x, D' x -> D x) -> Laws D c a -> Laws D' c a.
Proof.
  intros W L. constructor.
  - apply (l_refl L).
  - intros; apply (l_anti L); auto.
  - intros; apply (l_eq L); auto.
  - intros b d; intros; apply (l_lt L b d); auto.
  - intros b d; intros; apply (l_lteq L b d); auto.
Qed.

Lemma lcmp_laws {A} (D : A -> Prop) (c : A -> A -> comparison) (x : list A) :
  Forall (Laws D c) x -> Laws (Forall D) (lcmp c) x.
Proof.
  induction 1 as [|a x La Lx IH]; constructor.
  - reflexivity.
  - intros [|b y] _; reflexivity.
  - intros [|b y] d _ _; cbn; [auto | discriminate].
  - intros [|b y] [|d z] _ _; cbn; auto; discriminate.
  - intros [|b y] [|d z] _ _; cbn; auto; discriminate.
  - cbn. rewrite (l_refl La). apply (l_refl IH).
  - intros [|b y] Db; cbn; [reflexivity|]. inversion Db; subst.
    rewrite (l_anti La b) by assumption. destruct (c a b); cbn; auto. apply (l_anti IH); assumption.
  - intros [|b y] d Db Dd; cbn; [discriminate|]. inversion Db; subst.
    destruct (c a b) eqn:E; try discriminate. intros H.
    destruct d as [|e z]; cbn; [reflexivity|]. inversion Dd; subst.
    rewrite (l_eq La b e) by assumption. destruct (c a e); auto. apply (l_eq IH); auto.
  - intros [|b y] [|e z] Db Dd; cbn; try discriminate. inversion Db; inversion Dd; subst.
    destruct (c a b) eqn:E; try discriminate.
    + intros H. rewrite (l_eq La b e) by assumption. destruct (c a e); auto. apply (l_lt IH); auto.
    + intros _. destruct (c b e) eqn:E2; try discriminate.
      * intros _. rewrite (l_lteq La b e) by assumption. reflexivity.
      * intros _. rewrite (l_lt La b e) by assumption. reflexivity.
  - intros [|b y] [|e z] Db Dd; cbn; try discriminate. inversion Db; inversion Dd; subst.
    destruct (c a b) eqn:E; try discriminate.
    + intros H. rewrite (l_eq La b e) by assumption. destruct (c a e); try discriminate; auto. apply (l_lteq IH); auto.
    + intros _. destruct (c b e) eqn:E2; try discriminate.
      intros _. rewrite (l_lteq La b e) by assumption. reflexivity.
Qed.

(* key first, then value: the lexicographic product of two orders *)
Lemma item_laws {K V} (ck : K -> K -> comparison) (D : V -> Prop) (c : V -> V -> comparison) (k : K) (v : V) :
  Laws (fun _ => True) ck k -> Laws D c v ->
  Laws (fun kv => D (snd kv)) (fun l r => match ck (fst l) (fst r) with Eq => c (snd l) (snd r) | x => x end) (k, v).
Proof.
  intros Lk Lv. constructor; cbn.
  - rewrite (l_refl Lk). apply (l_refl Lv).
  - intros [k2 v2] Db; cbn in *. rewrite (l_anti Lk k2 I). destruct (ck k k2); cbn; auto. apply (l_anti Lv); auto.
  - intros [k2 v2] [k3 v3] Db Dd; cbn in *. destruct (ck k k2) eqn:E; try discriminate. intros H.
    rewrite (l_eq Lk k2 k3 I I E). destruct (ck k k3); auto. apply (l_eq Lv); auto.
  - intros [k2 v2] [k3 v3] Db Dd; cbn in *. destruct (ck k k2) eqn:E; try discriminate.
    + intros H. rewrite (l_eq Lk k2 k3 I I E). destruct (ck k k3); auto. apply (l_lt Lv); auto.
    + intros _. destruct (ck k2 k3) eqn:E2; try discriminate.
      * intros _. rewrite (l_lteq Lk k2 k3 I I E E2). reflexivity.
      * intros _. rewrite (l_lt Lk k2 k3 I I E E2). reflexivity.
  - intros [k2 v2] [k3 v3] Db Dd; cbn in *. destruct (ck k k2) eqn:E; try discriminate.
    + intros H. rewrite (l_eq Lk k2 k3 I I E). destruct (ck k k3); try discriminate; auto. apply (l_lteq Lv); auto.
    + intros _. destruct (ck k2 k3) eqn:E2; try discriminate.
      intros _. rewrite (l_lteq Lk k2 k3 I I E E2). reflexivity.
Qed.

(* an order pulled back along any function *)
Lemma pullback_laws {A B} (f : A -> B) (D : B -> Prop) (c : B -> B -> comparison) (a : A) :
  Laws D c (f a) -> Laws (fun x => D (f x)) (fun x y => c (f x) (f y)) a.
Proof.
  intros L. constructor.
  - apply (l_refl L).
  - intros; apply (l_anti L); auto.
  - intros; apply (l_eq L); auto.
  - intros b d; intros; apply (l_lt L (f b) (f d)); auto.
  - intros b d; intros; apply (l_lteq L (f b) (f d)); auto.
Qed.

(* ================================================================== 2. scalar orders *)
Lemma Z_laws z : Laws (fun _ => True) Z.compare z.
Proof.
  constructor.
  - apply Z.compare_refl.
  - intros b _. rewrite Z.compare_antisym. reflexivity.
  - intros b d _ _ H. apply Z.compare_eq in H. subst. reflexivity.
  - intros b d _ _ H1 H2. rewrite Z.compare_lt_iff in *. lia.
  - intros b d _ _ H1 H2. apply Z.compare_eq in H2. subst. exact H1.
Qed.

Lemma N_laws n : Laws (fun _ => True) N.compare n.
Proof.
  constructor.
  - apply N.compare_refl.
  - intros b _. rewrite N.compare_antisym. reflexivity.
  - intros b d _ _ H. apply N.compare_eq in H. subst. reflexivity.
  - intros b d _ _ H1 H2. rewrite N.compare_lt_iff in *. lia.
  - intros b d _ _ H1 H2. apply N.compare_eq in H2. subst. exact H1.
Qed.

Lemma str_compare_lcmp a b : str_compare a b = lcmp N.compare a b.
Proof. revert b. induction a as [|x a IH]; intros [|y b]; cbn; auto; try (rewrite IH; reflexivity). Qed.

Lemma str_laws s : Laws (fun _ => True) str_compare s.
Proof.
  assert (L : Laws (Forall (fun _ : N => True)) (lcmp N.compare) s).
  { apply lcmp_laws. apply Forall_forall. intros; apply N_laws. }
  assert (T : forall x : str, Forall (fun _ : N => True) x) by (intros x; apply Forall_forall; auto).
  constructor; intros; rewrite ?str_compare_lcmp in *.
  - apply (l_refl L).
  - apply (l_anti L); auto.
  - apply (l_eq L); auto.
  - eapply (l_lt L); eauto.
  - eapply (l_lteq L); eauto.
Qed.

Lemma str_compare_eq a b : str_compare a b = Eq <-> a = b.
Proof.
  revert b. induction a as [|x a IH]; intros [|y b]; cbn; split; try discriminate; auto.
  - destruct (x ?= y)%N eqn:E; try discriminate. apply N.compare_eq in E. intros H. apply IH in H. subst; auto.
  - intros H. inversion H; subst. rewrite N.compare_refl. apply IH. reflexivity.
Qed.

Definition is_lt (c : comparison) : bool := match c with Lt => true | _ => false end.

Lemma sign3_str x y : sign3 (is_lt (str_compare x y)) (str_eqb x y) = str_compare x y.
Proof.
  destruct (str_compare x y) eqn:E; cbn; auto.
  - apply str_compare_eq in E. subst. rewrite str_eqb_refl. reflexivity.
  - destruct (str_eqb x y) eqn:Q; auto. apply str_eqb_eq in Q. subst.
    rewrite (proj2 (str_compare_eq y y) eq_refl) in E. discriminate.
Qed.

Lemma sign3_Z l r : sign3 (l <? r) (l =? r) = Z.compare l r.
Proof. unfold sign3. destruct (Z.compare_spec l r); destruct (l <? r) eqn:A; destruct (l =? r) eqn:B; auto; lia. Qed.

Definition bool_rank (b : bool) : Z := if b then 1 else 0.
Lemma bool_compare_rank a b : bool_compare a b = Z.compare (bool_rank a) (bool_rank b).
Proof. destruct a, b; reflexivity. Qed.

(* ---- exact comparison of dyadic values --------------------------------------------------- *)
Lemma fin_compare_scaled m1 e1 m2 e2 e0 : e0 <= e1 -> e0 <= e2 ->
  fin_compare m1 e1 m2 e2 = Z.compare (m1 * 2 ^ (e1 - e0)) (m2 * 2 ^ (e2 - e0)).
Proof.
  intros H1 H2. unfold fin_compare. set (e := Z.min e1 e2).
  assert (He : e0 <= e) by (unfold e; lia).
  assert (P : 0 < 2 ^ (e - e0)) by (apply Z.pow_pos_nonneg; lia).
  replace (e1 - e0) with ((e1 - e) + (e - e0)) by lia.
  replace (e2 - e0) with ((e2 - e) + (e - e0)) by lia.
  rewrite !Z.pow_add_r by (unfold e; lia).
  rewrite !Z.mul_assoc. rewrite <- Zmult_compare_compat_r by lia. reflexivity.
Qed.

Definition kcmp (a b : xkey) : comparison := match key_compare a b with Some c => c | None => Gt end.
Definition kok (k : xkey) : Prop := k <> KNaN.

Lemma key_laws k : kok k -> Laws kok kcmp k.
Proof.
  intros Hk. pose proof Z_laws as ZL. unfold kok in *.
  destruct k as [| |m e|]; try congruence; constructor; unfold kcmp.
  (* KNegInf *)
  - reflexivity.
  - intros [] ?; cbn; congruence.
  - intros [] [] ? ?; cbn; congruence.
  - intros [] [] ? ?; cbn; congruence.
  - intros [] [] ? ?; cbn; congruence.
  (* KFin *)
  - cbn. unfold fin_compare. apply Z.compare_refl.
  - intros [| |m2 e2|] ?; cbn; try congruence.
    unfold fin_compare. rewrite (Z.min_comm e2 e). rewrite Z.compare_antisym. reflexivity.
  - intros [| |m2 e2|] [| |m3 e3|] ? ?; cbn; try congruence.
    set (e0 := Z.min e (Z.min e2 e3)).
    rewrite (fin_compare_scaled m e m2 e2 e0), (fin_compare_scaled m2 e2 m3 e3 e0), (fin_compare_scaled m e m3 e3 e0) by (unfold e0; lia).
    intros E'. apply Z.compare_eq in E'. rewrite E'. reflexivity.
  - intros [| |m2 e2|] [| |m3 e3|] ? ?; cbn; try congruence.
    set (e0 := Z.min e (Z.min e2 e3)).
    rewrite (fin_compare_scaled m e m2 e2 e0), (fin_compare_scaled m2 e2 m3 e3 e0), (fin_compare_scaled m e m3 e3 e0) by (unfold e0; lia).
    intros E1' E2'.
    apply Z.compare_lt_iff in E1'. apply Z.compare_lt_iff in E2'. apply Z.compare_lt_iff. eapply Z.lt_trans; eassumption.
  - intros [| |m2 e2|] [| |m3 e3|] ? ?; cbn; try congruence.
    set (e0 := Z.min e (Z.min e2 e3)).
    rewrite (fin_compare_scaled m e m2 e2 e0), (fin_compare_scaled m2 e2 m3 e3 e0), (fin_compare_scaled m e m3 e3 e0) by (unfold e0; lia).
    intros E1' E2'. apply Z.compare_eq in E2'. rewrite <- E2'. exact E1'.
  (* KPosInf *)
  - reflexivity.
  - intros [] ?; cbn; congruence.
  - intros [] [] ? ?; cbn; congruence.
  - intros [] [] ? ?; cbn; congruence.
  - intros [] [] ? ?; cbn; congruence.
Qed.

Lemma num_compare_key a b : num_compare a b = kcmp (num_key a) (num_key b).
Proof. unfold num_compare, num_ltb, num_eqvb, kcmp. destruct (key_compare (num_key a) (num_key b)) as [[]|]; reflexivity. Qed.

Lemma num_key_ok n : num_is_nan n = false <-> kok (num_key n).
Proof. unfold kok. destruct n as [z|[s|s| |s m e]]; cbn; try destruct s; split; congruence. Qed.

Definition num_ok (n : num) : Prop := num_is_nan n = false.

Lemma num_laws n : num_ok n -> Laws num_ok num_compare n.
Proof.
  intros H. apply num_key_ok in H. pose proof (key_laws _ H) as L.
  assert (W : forall x, num_ok x -> kok (num_key x)) by (intros x; apply num_key_ok).
  constructor; intros; rewrite ?num_compare_key in *.
  - apply (l_refl L).
  - apply (l_anti L); auto.
  - apply (l_eq L); auto.
  - eapply (l_lt L); [| |eassumption|eassumption]; auto.
  - eapply (l_lteq L); [| |eassumption|eassumption]; auto.
Qed.

(* ================================================================== 3. compare in specification form *)
(* alphabetical rank of the nine type names; tied to the REGENERATED names by [type_name_order] below *)
Definition trank (v : cv) : Z :=
  match v with
  | CArr _ => 0 | CBool _ => 1 | CDate _ => 2 | CFun _ => 3 | CNull => 4 | CNum _ => 5 | CObj _ => 6 | CRegex _ => 7 | CStr _ => 8
  end.

Lemma type_name_order a b : str_compare (value_type a) (value_type b) = Z.compare (trank a) (trank b).
Proof. destruct a, b; vm_compute; reflexivity. Qed.

Lemma kinsert_map {V W} (g : V -> W) (kv : str * V) (l : list (str * V)) :
  kinsert (fst kv, g (snd kv)) (map (fun kv => (fst kv, g (snd kv))) l) = map (fun kv => (fst kv, g (snd kv))) (kinsert kv l).
Proof. induction l as [|h t IH]; cbn; auto. destruct (str_compare (fst kv) (fst h)); cbn; auto. rewrite IH. reflexivity. Qed.

Lemma ksort_map {V W} (g : V -> W) (l : list (str * V)) :
  ksort (map (fun kv => (fst kv, g (snd kv))) l) = map (fun kv => (fst kv, g (snd kv))) (ksort l).
Proof. induction l as [|h t IH]; cbn; auto. rewrite IH. apply (kinsert_map g h). Qed.

Lemma lcmp_apply (rec : cv -> cv -> comparison) (x y : list (str * cv)) :
  lcmp (item_cmp (fun (f : cv -> comparison) (v : cv) => f v)) (map (fun kv => (fst kv, rec (snd kv))) x) y
  = lcmp (item_cmp rec) x y.
Proof. revert y. induction x as [|a x IH]; intros [|b y]; cbn; auto. unfold item_cmp at 1 3. cbn. rewrite IH. reflexivity. Qed.

Definition spec_step (tz : Z -> Z) (rec : cv -> cv -> comparison) (a b : cv) : comparison :=
  match a, b with
  | CNull, CNull => Eq
  | CNull, _ => Lt
  | _, CNull => Gt
  | CStr x, CStr y => str_compare x y
  | CBool x, CBool y => Z.compare (bool_rank x) (bool_rank y)
  | CNum x, CNum y => num_compare x y
  | CDate x, CDate y => Z.compare (normalize tz x) (normalize tz y)
  | CArr x, CArr y => lcmp rec x y
  | CObj x, CObj y => lcmp (item_cmp rec) (ksort x) (ksort y)
  | _, _ => Z.compare (trank a) (trank b)
  end.

Lemma compare_spec tz a b : compare tz a b = spec_step tz (compare tz) a b.
Proof.
  destruct a, b; cbn [compare spec_step]; cbv zeta;
    rewrite ?sign3_Z, ?bool_compare_rank; try reflexivity;
    try (change (match str_compare ?x ?y with Lt => true | _ => false end) with (is_lt (str_compare x y)));
    try (rewrite sign3_str; try reflexivity; apply type_name_order).
  - (* object/object *) rewrite ksort_map. apply lcmp_apply.
Qed.

(* nested induction over values *)
Section CvInd.
  Variable P : cv -> Prop.
  Hypothesis Hnull : P CNull.
  Hypothesis Hbool : forall b, P (CBool b).
  Hypothesis Hnum : forall n, P (CNum n).
  Hypothesis Hstr : forall s, P (CStr s).
  Hypothesis Hdate : forall d, P (CDate d).
  Hypothesis Hfun : forall i, P (CFun i).
  Hypothesis Hregex : forall i, P (CRegex i).
  Hypothesis Harr : forall l, Forall P l -> P (CArr l).
  Hypothesis Hobj : forall l, Forall (fun kv => P (snd kv)) l -> P (CObj l).
  Fixpoint cv_ind' (a : cv) : P a :=
    match a with
    | CNull => Hnull | CBool b => Hbool b | CNum n => Hnum n | CStr s => Hstr s | CDate d => Hdate d
    | CFun i => Hfun i | CRegex i => Hregex i
    | CArr l => Harr l ((fix go (l : list cv) : Forall P l :=
                           match l with [] => Forall_nil _ | x :: r => Forall_cons _ (cv_ind' x) (go r) end) l)
    | CObj l => Hobj l ((fix go (l : list (str * cv)) : Forall (fun kv => P (snd kv)) l :=
                           match l with [] => Forall_nil _ | x :: r => Forall_cons _ (cv_ind' (snd x)) (go r) end) l)
    end.
End CvInd.

Definition ok (v : cv) : Prop := no_nan v = true.

Lemma ok_arr l : ok (CArr l) <-> Forall ok l.
Proof. unfold ok; cbn. rewrite forallb_forall, Forall_forall. reflexivity. Qed.
Lemma ok_obj l : ok (CObj l) <-> Forall (fun kv => ok (snd kv)) l.
Proof. unfold ok; cbn. rewrite forallb_forall, Forall_forall. reflexivity. Qed.
Lemma ok_num n : ok (CNum n) <-> num_ok n.
Proof. unfold ok, num_ok; cbn. destruct (num_is_nan n); cbn; split; congruence. Qed.

Lemma Forall_kinsert {V} (P : str * V -> Prop) kv l : P kv -> Forall P l -> Forall P (kinsert kv l).
Proof.
  intros Hk. induction 1 as [|h t Hh Ht IH]; cbn; [repeat constructor; auto|].
  destruct (str_compare (fst kv) (fst h)); repeat constructor; auto.
Qed.
Lemma Forall_ksort {V} (P : str * V -> Prop) l : Forall P l -> Forall P (ksort l).
Proof. induction 1; cbn; [constructor|]. apply Forall_kinsert; auto. Qed.

Section Main.
  Variable tz : Z -> Z.
  Notation cmp := (compare tz).

  Local Arguments num_compare : simpl never.
  Local Arguments normalize : simpl never.
  Local Arguments str_compare : simpl never.
  Local Arguments lcmp : simpl never.
  Local Arguments ksort : simpl never.
  Local Arguments bool_rank : simpl never.
  Local Arguments Z.compare : simpl nomatch.

  Ltac cs := rewrite ?compare_spec in *; cbn [spec_step trank] in *.
  Ltac crush := cs; cbn in *; try congruence; try discriminate; auto.

  (* scalar of one constructor: the order is [c] on the payload when both sides have that constructor, else by rank *)
  Theorem compare_laws : forall a, ok a -> Laws ok cmp a.
  Proof.
    induction a using cv_ind'; intros Ha.
    - (* null *) constructor.
      + reflexivity.
      + intros [] ?; reflexivity.
      + intros b d ? ? H; destruct b; crush.
      + intros b d ? ? H1 H2; destruct b, d; crush.
      + intros b d ? ? H1 H2; destruct b, d; crush.
    - (* bool *) pose proof (Z_laws (bool_rank b)) as L. constructor.
      + cs. apply (l_refl L).
      + intros [] ?; crush. apply (l_anti L); auto.
      + intros [] dd ? ?; crush. intros HE. destruct dd; crush. apply (l_eq L); auto.
      + intros [] [] ? ?; crush. apply (l_lt L); auto.
      + intros [] [] ? ?; crush. apply (l_lteq L); auto.
    - (* num *) apply ok_num in Ha. pose proof (num_laws n Ha) as L. constructor.
      + cs. apply (l_refl L).
      + intros [] Hb; crush. apply (l_anti L). apply ok_num; auto.
      + intros [] dd Hb Hd; crush. intros HE. destruct dd; crush. apply (l_eq L); auto; apply ok_num; auto.
      + intros [] [] Hb Hd; crush. apply (l_lt L); apply ok_num; auto.
      + intros [] [] Hb Hd; crush. apply (l_lteq L); apply ok_num; auto.
    - (* str *) pose proof (str_laws s) as L. constructor.
      + cs. apply (l_refl L).
      + intros [] ?; crush. apply (l_anti L); auto.
      + intros [] dd ? ?; crush. intros HE. destruct dd; crush. apply (l_eq L); auto.
      + intros [] [] ? ?; crush. apply (l_lt L); auto.
      + intros [] [] ? ?; crush. apply (l_lteq L); auto.
    - (* date *) pose proof (Z_laws (normalize tz d)) as L. constructor.
      + cs. apply (l_refl L).
      + intros [] ?; crush. apply (l_anti L); auto.
      + intros [] dd ? ?; crush. intros HE. destruct dd; crush. apply (l_eq L); auto.
      + intros [] [] ? ?; crush. apply (l_lt L); auto.
      + intros [] [] ? ?; crush. apply (l_lteq L); auto.
    - (* fun *) constructor.
      + reflexivity.
      + intros [] ?; reflexivity.
      + intros b d ? ? H; destruct b; crush; destruct d; crush.
      + intros b d ? ? H1 H2; destruct b, d; crush.
      + intros b d ? ? H1 H2; destruct b, d; crush.
    - (* regex *) constructor.
      + reflexivity.
      + intros [] ?; reflexivity.
      + intros b d ? ? H; destruct b; crush; destruct d; crush.
      + intros b d ? ? H1 H2; destruct b, d; crush.
      + intros b d ? ? H1 H2; destruct b, d; crush.
    - (* arr *)
      apply ok_arr in Ha.
      assert (F : Forall (Laws ok cmp) l).
      { rewrite Forall_forall in *. intros x Hx. apply H; auto. }
      pose proof (lcmp_laws ok cmp l F) as L. constructor.
      + cs. apply (l_refl L).
      + intros [] Hb; try (cs; reflexivity). cs. apply (l_anti L). apply ok_arr; auto.
      + intros [] dd Hb Hd; try (cs; discriminate). cs. intros E.
        destruct dd; try (cs; reflexivity). cs. apply (l_eq L); auto; apply ok_arr; auto.
      + intros [] [] Hb Hd; try (cs; cbn; congruence); try (cs; discriminate).
        cs. apply (l_lt L); apply ok_arr; auto.
      + intros [] [] Hb Hd; try (cs; cbn; congruence); try (cs; discriminate).
        cs. apply (l_lteq L); apply ok_arr; auto.
    - (* obj *)
      apply ok_obj in Ha.
      assert (F : Forall (Laws (fun kv => ok (snd kv)) (item_cmp cmp)) (ksort l)).
      { apply Forall_ksort. rewrite Forall_forall in *. intros [k v] Hx.
        apply (item_laws str_compare ok cmp k v (str_laws k)). apply (H (k, v)); auto. }
      pose proof (lcmp_laws _ _ _ F) as L.
      assert (S : forall y, ok (CObj y) -> Forall (fun kv => ok (snd kv)) (ksort y)).
      { intros y Hy. apply Forall_ksort. apply ok_obj; auto. }
      constructor.
      + cs. apply (l_refl L).
      + intros [] Hb; try (cs; reflexivity). cs. apply (l_anti L). auto.
      + intros [] dd Hb Hd; try (cs; discriminate). cs. intros E.
        destruct dd; try (cs; reflexivity). cs. apply (l_eq L); auto.
      + intros [] [] Hb Hd; try (cs; cbn; congruence); try (cs; discriminate).
        cs. apply (l_lt L); auto.
      + intros [] [] Hb Hd; try (cs; cbn; congruence); try (cs; discriminate).
        cs. apply (l_lteq L); auto.
  Qed.
End Main.

(* ================================================================== 3b. the laws in their usual form *)
(* global form: the order laws on a domain D *)
Definition GLaws {A} (D : A -> Prop) (c : A -> A -> comparison) : Prop := forall a, D a -> Laws D c a.

Section Global.
  Context {A : Type} (D : A -> Prop) (c : A -> A -> comparison) (G : GLaws D c).

  Lemma g_refl a : D a -> c a a = Eq.
  Proof. intros Ha. apply (l_refl (G a Ha)). Qed.
  Lemma g_anti a b : D a -> D b -> c b a = CompOpp (c a b).
  Proof. intros Ha Hb. apply (l_anti (G a Ha)); auto. Qed.
  Lemma g_eq_l a b d : D a -> D b -> D d -> c a b = Eq -> c a d = c b d.
  Proof. intros Ha Hb Hd E. symmetry. apply (l_eq (G a Ha)); auto. Qed.
  Lemma g_eq_r a b d : D a -> D b -> D d -> c a b = Eq -> c d a = c d b.
  Proof.
    intros Ha Hb Hd E. rewrite (g_anti a d), (g_anti b d) by auto. f_equal. apply g_eq_l; auto.
  Qed.
  Lemma g_le_trans a b d : D a -> D b -> D d -> c a b <> Gt -> c b d <> Gt -> c a d <> Gt.
  Proof.
    intros Ha Hb Hd H1 H2. pose proof (G a Ha) as L.
    destruct (c a b) eqn:E1; [| |congruence]; destruct (c b d) eqn:E2; try congruence.
    - rewrite <- (l_eq L b d Hb Hd E1). congruence.
    - rewrite <- (l_eq L b d Hb Hd E1). congruence.
    - rewrite (l_lteq L b d Hb Hd E1 E2). discriminate.
    - rewrite (l_lt L b d Hb Hd E1 E2). discriminate.
  Qed.
  Lemma g_eq_trans a b d : D a -> D b -> D d -> c a b = Eq -> c b d = Eq -> c a d = Eq.
  Proof. intros Ha Hb Hd E1 E2. rewrite (g_eq_l a b d); auto. Qed.
  Lemma g_lt_le_trans a b d : D a -> D b -> D d -> c a b = Lt -> c b d <> Gt -> c a d = Lt.
  Proof.
    intros Ha Hb Hd E1 H2. pose proof (G a Ha) as L. destruct (c b d) eqn:E2; try congruence.
    - apply (l_lteq L b d); auto.
    - apply (l_lt L b d); auto.
  Qed.
  Lemma g_le_lt_trans a b d : D a -> D b -> D d -> c a b <> Gt -> c b d = Lt -> c a d = Lt.
  Proof.
    intros Ha Hb Hd H1 E2. pose proof (G a Ha) as L. destruct (c a b) eqn:E1; try congruence.
    - rewrite <- (l_eq L b d Hb Hd E1). exact E2.
    - apply (l_lt L b d); auto.
  Qed.

  (* the reversed order (descending sorts) *)
  Lemma flip_laws : GLaws D (fun x y => c y x).
  Proof.
    intros a Ha. constructor.
    - apply g_refl; auto.
    - intros b Hb. apply g_anti; auto.
    - intros b d Hb Hd E. rewrite (g_anti a b) in E by auto.
      assert (E' : c a b = Eq) by (destruct (c a b); cbn in E; congruence).
      symmetry. apply g_eq_r; auto.
    - intros b d Hb Hd E1 E2. apply (g_lt_le_trans d b a); auto. congruence.
    - intros b d Hb Hd E1 E2. rewrite (g_eq_l d b a); auto.
  Qed.
End Global.

(* two comparators on the same carrier, the second breaking the ties of the first *)
Lemma tiebreak_laws {A} (D : A -> Prop) (c1 c2 : A -> A -> comparison) (a : A) :
  Laws D c1 a -> Laws D c2 a -> Laws D (fun x y => match c1 x y with Eq => c2 x y | r => r end) a.
Proof.
  intros L1 L2. constructor.
  - rewrite (l_refl L1). apply (l_refl L2).
  - intros b Db. rewrite (l_anti L1 b Db). destruct (c1 a b); cbn; auto. apply (l_anti L2); auto.
  - intros b d Db Dd. destruct (c1 a b) eqn:E; try discriminate. intros H.
    rewrite (l_eq L1 b d Db Dd E). destruct (c1 a d); auto. apply (l_eq L2); auto.
  - intros b d Db Dd. destruct (c1 a b) eqn:E; try discriminate.
    + intros H. rewrite (l_eq L1 b d Db Dd E). destruct (c1 a d); auto. apply (l_lt L2); auto.
    + intros _. destruct (c1 b d) eqn:E2; try discriminate.
      * intros _. rewrite (l_lteq L1 b d Db Dd E E2). reflexivity.
      * intros _. rewrite (l_lt L1 b d Db Dd E E2). reflexivity.
  - intros b d Db Dd. destruct (c1 a b) eqn:E; try discriminate.
    + intros H. rewrite (l_eq L1 b d Db Dd E). destruct (c1 a d); try discriminate; auto. apply (l_lteq L2); auto.
    + intros _. destruct (c1 b d) eqn:E2; try discriminate.
      intros _. rewrite (l_lteq L1 b d Db Dd E E2). reflexivity.
Qed.

Lemma compare_glaws tz : GLaws ok (compare tz).
Proof. intros a Ha. apply compare_laws; auto. Qed.

(* ================================================================== 4. consumers *)
(* ---- stable sorting under any order satisfying the laws ---------------------------------- *)
Section Sorting.
  Context {A : Type} (D : A -> Prop) (f : A -> A -> comparison) (G : GLaws D f).
  Definition le (a b : A) : Prop := f a b <> Gt.
  Definition eqvb (z y : A) : bool := match f z y with Eq => true | _ => false end.

  Lemma sinsert_perm x l : Permutation (x :: l) (sinsert f x l).
  Proof.
    induction l as [|h t IH]; cbn; auto. destruct (f h x); auto.
    eapply perm_trans; [apply perm_swap|]. apply perm_skip. exact IH.
  Qed.
  Lemma sort_by_perm l : Permutation l (sort_by f l).
  Proof. induction l as [|h t IH]; cbn; auto. eapply perm_trans; [|apply sinsert_perm]. apply perm_skip; auto. Qed.

  Lemma Forall_perm (P : A -> Prop) l l' : Permutation l l' -> Forall P l -> Forall P l'.
  Proof. intros Hp H. rewrite Forall_forall in *. intros x Hx. apply H. eapply Permutation_in; [apply Permutation_sym|]; eauto. Qed.

  Lemma sinsert_sorted x l : D x -> Forall D l -> StronglySorted le l -> StronglySorted le (sinsert f x l).
  Proof.
    intros Dx Dl S. induction S as [|h t St IH Hh]; cbn.
    - constructor; constructor.
    - inversion Dl as [|? ? Dh Dt]; subst. destruct (f h x) eqn:E.
      + (* h ~ x : x goes first *) constructor; [constructor; auto|].
        assert (Lxh : le x h) by (unfold le; rewrite (g_anti D f G h x), E by auto; discriminate).
        constructor; auto. rewrite Forall_forall in *. intros y Hy.
        apply (g_le_trans D f G x h y); auto; apply Hh; auto.
      + (* h < x : keep walking *) constructor; [apply IH; auto|].
        eapply Forall_perm; [apply sinsert_perm|]. constructor; auto. unfold le. congruence.
      + (* h > x *) constructor; [constructor; auto|].
        assert (Lxh : le x h) by (unfold le; rewrite (g_anti D f G h x), E by auto; discriminate).
        constructor; auto. rewrite Forall_forall in *. intros y Hy.
        apply (g_le_trans D f G x h y); auto; apply Hh; auto.
  Qed.

  Lemma sort_by_D l : Forall D l -> Forall D (sort_by f l).
  Proof. intros. eapply Forall_perm; [apply sort_by_perm|]; auto. Qed.

  Lemma sort_by_sorted l : Forall D l -> StronglySorted le (sort_by f l).
  Proof.
    induction l as [|h t IH]; cbn; intros Dl; [constructor|]. inversion Dl; subst.
    apply sinsert_sorted; auto. apply sort_by_D; auto.
  Qed.

  (* stability: elements that compare equal keep their relative order, i.e. for every z the sub-list of
     the elements equivalent to z is unchanged *)
  Lemma sinsert_stable z x l : D z -> D x -> Forall D l ->
    filter (eqvb z) (sinsert f x l) = filter (eqvb z) (x :: l).
  Proof.
    intros Dz Dx Dl. induction l as [|h t IH]; [reflexivity|]. inversion Dl as [|? ? Dh Dt]; subst.
    cbn [sinsert]. destruct (f h x) eqn:E; try reflexivity.
    cbn [filter]. rewrite IH by auto. cbn [filter].
    destruct (eqvb z h) eqn:Zh; destruct (eqvb z x) eqn:Zx; try reflexivity.
    exfalso. unfold eqvb in *. destruct (f z h) eqn:E1; try discriminate. destruct (f z x) eqn:E2; try discriminate.
    rewrite <- (g_eq_l D f G z h x) in E by auto. congruence.
  Qed.

  Lemma sort_by_stable z l : D z -> Forall D l -> filter (eqvb z) (sort_by f l) = filter (eqvb z) l.
  Proof.
    intros Dz. induction l as [|h t IH]; intros Dl; [reflexivity|]. inversion Dl; subst.
    cbn [sort_by]. rewrite sinsert_stable by (auto; apply sort_by_D; auto). cbn [filter]. rewrite IH by auto. reflexivity.
  Qed.

  Lemma eqvb_refl a : D a -> eqvb a a = true.
  Proof. intros Da. unfold eqvb. rewrite (g_refl D f G a Da). reflexivity. Qed.

  (* uniqueness: two sorted lists with the same equivalence-class sub-lists are the same list *)
  Lemma sorted_stable_unique l1 : forall l2, Forall D l1 -> Forall D l2 ->
    StronglySorted le l1 -> StronglySorted le l2 ->
    (forall z, D z -> filter (eqvb z) l1 = filter (eqvb z) l2) -> l1 = l2.
  Proof.
    induction l1 as [|a1 t1 IH]; intros l2 D1 D2 S1 S2 Hf.
    - destruct l2 as [|a2 t2]; auto. inversion D2; subst.
      specialize (Hf a2 ltac:(auto)). cbn [filter] in Hf. rewrite eqvb_refl in Hf by auto. discriminate.
    - inversion D1 as [|? ? Da1 Dt1]; subst.
      destruct l2 as [|a2 t2].
      { specialize (Hf a1 Da1). cbn [filter] in Hf. rewrite eqvb_refl in Hf by auto. discriminate. }
      inversion D2 as [|? ? Da2 Dt2]; subst. inversion S1 as [|? ? St1 Ht1]; subst. inversion S2 as [|? ? St2 Ht2]; subst.
      (* a member of the other list that is equivalent to a head *)
      assert (In2 : exists y, In y (a2 :: t2) /\ f a1 y = Eq).
      { pose proof (Hf a1 Da1) as H. cbn [filter] in H. rewrite eqvb_refl in H by auto.
        assert (I : In a1 (filter (eqvb a1) (a2 :: t2))) by (cbn [filter]; rewrite <- H; left; auto).
        apply filter_In in I. destruct I as [I _]. exists a1. split; auto. apply g_refl with (D := D); auto. }
      assert (In1 : exists y, In y (a1 :: t1) /\ f a2 y = Eq).
      { pose proof (Hf a2 Da2) as H. cbn [filter] in H. rewrite (eqvb_refl a2) in H by auto.
        assert (I : In a2 (filter (eqvb a2) (a1 :: t1))) by (cbn [filter]; rewrite H; left; auto).
        apply filter_In in I. destruct I as [I _]. exists a2. split; auto. apply g_refl with (D := D); auto. }
      assert (L12 : le a1 a2).
      { destruct In1 as [y [[<-|Hy] E]].
        - unfold le. rewrite (g_anti D f G a2 a1), E by auto. discriminate.
        - rewrite Forall_forall in Ht1, Dt1. unfold le. rewrite (g_eq_r D f G a2 y a1); auto. apply Ht1; auto. }
      assert (L21 : le a2 a1).
      { destruct In2 as [y [[<-|Hy] E]].
        - unfold le. rewrite (g_anti D f G a1 a2), E by auto. discriminate.
        - rewrite Forall_forall in Ht2, Dt2. unfold le. rewrite (g_eq_r D f G a1 y a2); auto. apply Ht2; auto. }
      assert (E12 : f a1 a2 = Eq).
      { unfold le in *. rewrite (g_anti D f G a1 a2) in L21 by auto. destruct (f a1 a2); cbn in *; congruence. }
      (* heads are the first element of the same class sub-list *)
      pose proof (Hf a1 Da1) as H. cbn [filter] in H. rewrite eqvb_refl in H by auto.
      assert (E12' : eqvb a1 a2 = true) by (unfold eqvb; rewrite E12; reflexivity). rewrite E12' in H.
      inversion H as [[Ha Ht]]. subst a2. f_equal.
      apply IH; auto. intros z Dz. specialize (Hf z Dz). cbn [filter] in Hf. destruct (eqvb z a1); congruence.
  Qed.

  (* hence: ANY stable sort (e.g. CPython's list.sort) returns exactly what the model's insertion sort returns *)
  Definition stable_sorted_perm (l l' : list A) : Prop :=
    Permutation l l' /\ StronglySorted le l' /\ forall z, D z -> filter (eqvb z) l' = filter (eqvb z) l.

  Lemma sort_by_is_stable_sorted_perm l : Forall D l -> stable_sorted_perm l (sort_by f l).
  Proof. intros Dl. split; [apply sort_by_perm|]. split; [apply sort_by_sorted; auto|]. intros; apply sort_by_stable; auto. Qed.

  Lemma stable_sort_unique l l1 l2 : Forall D l -> stable_sorted_perm l l1 -> stable_sorted_perm l l2 -> l1 = l2.
  Proof.
    intros Dl [P1 [S1 F1]] [P2 [S2 F2]]. apply sorted_stable_unique; auto.
    - eapply Forall_perm; eauto.
    - eapply Forall_perm; eauto.
    - intros z Dz. rewrite F1, F2; auto.
  Qed.
End Sorting.

(* ---- the consumers of value_compare ------------------------------------------------------- *)
Section Consumers.
  Variable tz : Z -> Z.
  Notation cmp := (compare tz).
  Let G := compare_glaws tz.

  (* relational operators = sign tests *)
  Lemma relop_sign op a b :
    eval_relop tz op a b =
    match op, cmp a b with
    | REq, Eq | RNe, Lt | RNe, Gt | RLe, Lt | RLe, Eq | RLt, Lt | RGe, Eq | RGe, Gt | RGt, Gt => true
    | _, _ => false
    end.
  Proof. unfold eval_relop, system_compare. destruct op, (cmp a b); reflexivity. Qed.

  Lemma system_compare_sign a b :
    system_compare tz a b = match cmp a b with Lt => -1 | Eq => 0 | Gt => 1 end.
  Proof. reflexivity. Qed.

  (* the operators are mutually consistent on the property's domain *)
  Lemma relop_dual a b : ok a -> ok b ->
    eval_relop tz RLt a b = eval_relop tz RGt b a /\
    eval_relop tz RLe a b = eval_relop tz RGe b a /\
    eval_relop tz REq a b = eval_relop tz REq b a /\
    eval_relop tz RNe a b = negb (eval_relop tz REq a b) /\
    eval_relop tz RLe a b = negb (eval_relop tz RGt a b) /\
    eval_relop tz RGe a b = negb (eval_relop tz RLt a b) /\
    eval_relop tz RLe a b = (eval_relop tz RLt a b || eval_relop tz REq a b)%bool.
  Proof.
    intros Ha Hb. rewrite !relop_sign. rewrite (g_anti ok cmp G a b Ha Hb).
    destruct (cmp a b); cbn; repeat split; reflexivity.
  Qed.

  (* == is an equivalence, < a strict order compatible with it *)
  Lemma relop_eq_equiv a b d : ok a -> ok b -> ok d ->
    eval_relop tz REq a a = true /\
    (eval_relop tz REq a b = true -> eval_relop tz REq b d = true -> eval_relop tz REq a d = true) /\
    (eval_relop tz RLt a b = true -> eval_relop tz RLt b d = true -> eval_relop tz RLt a d = true) /\
    (eval_relop tz RLe a b = true -> eval_relop tz RLe b d = true -> eval_relop tz RLe a d = true).
  Proof.
    intros Ha Hb Hd. rewrite !relop_sign. rewrite (g_refl ok cmp G a Ha). split; [reflexivity|]. repeat split.
    - destruct (cmp a b) eqn:E1; try discriminate. destruct (cmp b d) eqn:E2; try discriminate.
      rewrite (g_eq_trans ok cmp G a b d); auto.
    - destruct (cmp a b) eqn:E1; try discriminate. destruct (cmp b d) eqn:E2; try discriminate.
      rewrite (g_lt_le_trans ok cmp G a b d); auto. congruence.
    - intros H1 H2. assert (N : cmp a d <> Gt).
      { apply (g_le_trans ok cmp G a b d); auto; [destruct (cmp a b)|destruct (cmp b d)]; congruence. }
      destruct (cmp a d); congruence.
  Qed.

  (* null least *)
  Lemma null_least b : cmp CNull CNull = Eq /\ (b <> CNull -> cmp CNull b = Lt /\ cmp b CNull = Gt).
  Proof. split; [reflexivity|]. intros Hb. destruct b; try congruence; split; reflexivity. Qed.

  (* different types: by type name *)
  Definition is_null (v : cv) : bool := match v with CNull => true | _ => false end.
  Lemma cross_type a b : is_null a = false -> is_null b = false ->
    str_eqb (value_type a) (value_type b) = false ->
    cmp a b = str_compare (value_type a) (value_type b).
  Proof.
    intros Na Nb T. destruct a, b; try discriminate; try (vm_compute in T; discriminate);
      cbn [compare]; cbv zeta;
      change (match str_compare ?x ?y with Lt => true | _ => false end) with (is_lt (str_compare x y));
      apply sign3_str.
  Qed.
  (* functions (and regexes) are all equal to each other: the fallback compares the names of equal types *)
  Lemma opaque_same_type i j : cmp (CFun i) (CFun j) = Eq /\ cmp (CRegex i) (CRegex j) = Eq.
  Proof. split; reflexivity. Qed.

  (* element-wise *)
  Lemma arrays_elementwise x y : cmp (CArr x) (CArr y) = lcmp cmp x y.
  Proof. reflexivity. Qed.
  Lemma objects_by_sorted_items x y : cmp (CObj x) (CObj y) = lcmp (item_cmp cmp) (ksort x) (ksort y).
  Proof. rewrite compare_spec. reflexivity. Qed.

  (* what the element-wise walk means *)
  Lemma lcmp_cons {A} (c : A -> A -> comparison) a x b y :
    lcmp c (a :: x) (b :: y) = match c a b with Eq => lcmp c x y | r => r end.
  Proof. reflexivity. Qed.
  Lemma lcmp_prefix {A} (c : A -> A -> comparison) (D : A -> Prop) p x y :
    Forall D p -> (forall a, D a -> c a a = Eq) -> lcmp c (p ++ x) (p ++ y) = lcmp c x y.
  Proof. intros Dp R. induction Dp as [|a p Da Dp IH]; cbn; auto. rewrite R; auto. Qed.
  Lemma lcmp_shorter_is_less {A} (c : A -> A -> comparison) (D : A -> Prop) p b y :
    Forall D p -> (forall a, D a -> c a a = Eq) -> lcmp c p (p ++ b :: y) = Lt /\ lcmp c (p ++ b :: y) p = Gt.
  Proof. intros Dp R. induction Dp as [|a p Da Dp IH]; cbn; auto. rewrite R; auto. Qed.
  Lemma lcmp_first_difference {A} (c : A -> A -> comparison) (D : A -> Prop) p a x b y :
    Forall D p -> (forall a, D a -> c a a = Eq) -> c a b <> Eq -> lcmp c (p ++ a :: x) (p ++ b :: y) = c a b.
  Proof.
    intros Dp R N. rewrite (lcmp_prefix c D); auto. cbn. destruct (c a b); congruence.
  Qed.

  (* equal values are interchangeable everywhere (in particular the int and the float spelling of a number) *)
  Lemma eq_congruence a b x : ok a -> ok b -> ok x -> cmp a b = Eq -> cmp a x = cmp b x /\ cmp x a = cmp x b.
  Proof. intros Ha Hb Hx E. split; [apply (g_eq_l ok cmp G)|apply (g_eq_r ok cmp G)]; auto. Qed.

  (* min / max *)
  Lemma max_loop_spec vs : forall r, ok r -> Forall ok vs ->
    let m := max_loop tz r vs in
    In m (r :: vs) /\ ok m /\ cmp r m <> Gt /\ Forall (fun v => cmp v m <> Gt) vs.
  Proof.
    induction vs as [|v t IH]; intros r Hr Hv; cbn.
    - repeat split; auto. rewrite (g_refl ok cmp G r Hr). discriminate.
    - inversion Hv as [|? ? Ov Ot]; subst.
      assert (Keep : cmp v r <> Gt ->
                     let m := max_loop tz r t in
                     (r = m \/ v = m \/ In m t) /\ ok m /\ cmp r m <> Gt /\ Forall (fun v => cmp v m <> Gt) (v :: t)).
      { intros N. destruct (IH r Hr Ot) as [I [Om [Lr Lt]]]. split; [destruct I; auto|]. split; auto. split; auto.
        constructor; auto. apply (g_le_trans ok cmp G v r); auto. }
      destruct (cmp v r) eqn:E; try (apply Keep; congruence).
      destruct (IH v Ov Ot) as [I [Om [Lr Lt]]]. split; [destruct I; auto|]. split; auto. split; auto.
      apply (g_le_trans ok cmp G r v); auto. rewrite (g_anti ok cmp G v r), E; auto. discriminate.
  Qed.
  Lemma math_max_spec vs : vs <> [] -> Forall ok vs ->
    In (math_max tz vs) vs /\ Forall (fun v => cmp v (math_max tz vs) <> Gt) vs.
  Proof.
    destruct vs as [|v t]; [congruence|]. intros _ Hv. inversion Hv; subst. cbn [math_max].
    destruct (max_loop_spec t v) as [I [Om [Lr Lt]]]; auto.
  Qed.
  Lemma min_loop_spec vs : forall r, ok r -> Forall ok vs ->
    let m := min_loop tz r vs in
    In m (r :: vs) /\ ok m /\ cmp m r <> Gt /\ Forall (fun v => cmp m v <> Gt) vs.
  Proof.
    induction vs as [|v t IH]; intros r Hr Hv; cbn.
    - repeat split; auto. rewrite (g_refl ok cmp G r Hr). discriminate.
    - inversion Hv as [|? ? Ov Ot]; subst.
      assert (Keep : cmp v r <> Lt ->
                     let m := min_loop tz r t in
                     (r = m \/ v = m \/ In m t) /\ ok m /\ cmp m r <> Gt /\ Forall (fun v => cmp m v <> Gt) (v :: t)).
      { intros N. destruct (IH r Hr Ot) as [I [Om [Lr Lt]]]. split; [destruct I; auto|]. split; auto. split; auto.
        constructor; auto. apply (g_le_trans ok cmp G _ r v); auto.
        rewrite (g_anti ok cmp G v r) by auto. destruct (cmp v r); cbn; congruence. }
      destruct (cmp v r) eqn:E; try (apply Keep; congruence).
      destruct (IH v Ov Ot) as [I [Om [Lr Lt]]]. split; [destruct I; auto|]. split; auto. split; auto.
      apply (g_le_trans ok cmp G _ v r); auto. congruence.
  Qed.
  Lemma math_min_spec vs : vs <> [] -> Forall ok vs ->
    In (math_min tz vs) vs /\ Forall (fun v => cmp (math_min tz vs) v <> Gt) vs.
  Proof.
    destruct vs as [|v t]; [congruence|]. intros _ Hv. inversion Hv; subst. cbn [math_min].
    destruct (min_loop_spec t v) as [I [Om [Lr Lt]]]; auto.
  Qed.
  Lemma math_minmax_empty : math_max tz [] = CNull /\ math_min tz [] = CNull.
  Proof. split; reflexivity. Qed.

  (* arrayIndexOf: the least index >= start whose element compares equal, else -1 *)
  Lemma index_from_spec l v : forall ix, 0 <= ix ->
    let r := index_from tz l v ix in
    (r = -1 /\ Forall (fun h => cmp h v <> Eq) l) \/
    (exists n h, r = ix + Z.of_nat n /\ nth_error l n = Some h /\ cmp h v = Eq /\ Forall (fun h => cmp h v <> Eq) (firstn n l)).
  Proof.
    induction l as [|h t IH]; intros ix Hix; cbn.
    - left. split; auto.
    - destruct (cmp h v) eqn:E.
      + right. exists 0%nat, h. cbn. repeat split; auto. lia.
      + destruct (IH (ix + 1) ltac:(lia)) as [[R F]|[n [h' [R [N [Eh F]]]]]].
        * left. split; auto. constructor; auto. congruence.
        * right. exists (S n), h'. cbn. repeat split; auto; [lia|]. constructor; auto. congruence.
      + destruct (IH (ix + 1) ltac:(lia)) as [[R F]|[n [h' [R [N [Eh F]]]]]].
        * left. split; auto. constructor; auto. congruence.
        * right. exists (S n), h'. cbn. repeat split; auto; [lia|]. constructor; auto. congruence.
  Qed.

  Lemma nth_error_skipn' {A} (l : list A) : forall s n, nth_error (skipn s l) n = nth_error l (s + n).
  Proof. induction l as [|h t IH]; intros [|s] n; cbn; auto. destruct n; reflexivity. Qed.
  Lemma nth_error_firstn' {A} (l : list A) : forall k n, (n < k)%nat -> nth_error (firstn k l) n = nth_error l n.
  Proof. induction l as [|h t IH]; intros [|k] [|n] H; cbn; auto; try lia. apply IH. lia. Qed.

  Lemma array_index_of_spec array v start r : array_index_of tz array v start = Some r ->
    (r = -1 /\ forall i h, (start <= i)%nat -> nth_error array i = Some h -> cmp h v <> Eq) \/
    (exists i h, r = Z.of_nat i /\ (start <= i)%nat /\ nth_error array i = Some h /\ cmp h v = Eq /\
                 forall j h', (start <= j < i)%nat -> nth_error array j = Some h' -> cmp h' v <> Eq).
  Proof.
    intros H. assert (R : r = index_from tz (skipn start array) v (Z.of_nat start)) by (destruct v; cbn in H; congruence).
    clear H. destruct (index_from_spec (skipn start array) v (Z.of_nat start) ltac:(lia)) as [[E F]|[n [h [E [N [Eh F]]]]]].
    - left. split; [congruence|]. intros i h Hi Hn. rewrite Forall_forall in F. apply F.
      replace i with (start + (i - start))%nat in Hn by lia. rewrite <- nth_error_skipn' in Hn. eapply nth_error_In; eauto.
    - right. exists (start + n)%nat, h. rewrite <- nth_error_skipn'. repeat split; auto; try lia.
      intros j h' Hj Hn. rewrite Forall_forall in F. apply F.
      replace j with (start + (j - start))%nat in Hn by lia. rewrite <- nth_error_skipn' in Hn.
      apply nth_error_In with (n := (j - start)%nat). rewrite nth_error_firstn' by lia. exact Hn.
  Qed.

  (* dataSort row comparator *)
  Definition row_ok (r : list (str * cv)) : Prop := Forall (fun kv => ok (snd kv)) r.
  Lemma row_get_ok r f : row_ok r -> ok (row_get r f).
  Proof.
    unfold row_get. intros H. destruct (assoc f r) eqn:E; [|reflexivity].
    apply assoc_In in E. unfold row_ok in H. rewrite Forall_forall in H. apply (H (f, c)); auto.
  Qed.

  Lemma row_compare_glaws sorts : GLaws row_ok (row_compare tz sorts).
  Proof.
    induction sorts as [|[field desc] rest IH]; intros r Hr.
    - constructor; cbn; auto; intros; discriminate.
    - assert (F : Laws (fun x => ok (row_get x field)) (fun r1 r2 => if desc then cmp (row_get r2 field) (row_get r1 field)
                                            else cmp (row_get r1 field) (row_get r2 field)) r).
      { destruct desc.
        - apply (pullback_laws (fun r => row_get r field) ok (fun x y => cmp y x)).
          apply (flip_laws ok cmp G). apply row_get_ok; auto.
        - apply (pullback_laws (fun r => row_get r field) ok cmp). apply G. apply row_get_ok; auto. }
      apply (Laws_weaken _ row_ok) in F; [|intros x Hx; apply row_get_ok; auto].
      exact (tiebreak_laws row_ok _ _ r F (IH r Hr)).
  Qed.
End Consumers.

(* ---- int and float spellings of one number ------------------------------------------------- *)
(* the integer a float denotes, when it denotes one *)
Definition sf_exact_Z (f : flt) : option Z :=
  match f with
  | S754_zero _ => Some 0
  | S754_finite s m e =>
      let sm := if s then Zneg m else Zpos m in
      if 0 <=? e then Some (sm * 2 ^ e)
      else if sm mod 2 ^ (- e) =? 0 then Some (sm / 2 ^ (- e)) else None
  | _ => None
  end.

Lemma int_float_equal tz z f : sf_exact_Z f = Some z ->
  compare tz (CNum (NInt z)) (CNum (NFlt f)) = Eq /\ ok (CNum (NFlt f)).
Proof.
  intros H. cbn [compare]. rewrite num_compare_key. unfold kcmp.
  destruct f as [s|s| |s m e]; cbn in H; try discriminate.
  - inversion H; subst. split; reflexivity.
  - split; [|reflexivity]. cbn [num_key key_compare]. unfold fin_compare.
    set (sm := if s then Z.neg m else Z.pos m) in *.
    destruct (0 <=? e) eqn:E.
    + inversion H; subst. rewrite Z.min_l by lia. replace (0 - 0) with 0 by lia. rewrite Z.sub_0_r.
      rewrite Z.pow_0_r, Z.mul_1_r. apply Z.compare_refl.
    + destruct (sm mod 2 ^ (- e) =? 0) eqn:M; try discriminate. inversion H; subst.
      rewrite Z.min_r by lia. replace (e - e) with 0 by lia. rewrite Z.pow_0_r, Z.mul_1_r.
      replace (0 - e) with (- e) by lia.
      assert (P : 0 < 2 ^ (- e)) by (apply Z.pow_pos_nonneg; lia).
      rewrite Z.mul_comm. rewrite <- Z_div_exact_full_2 by lia. apply Z.compare_refl.
Qed.

Lemma spelling_blind tz z f x : sf_exact_Z f = Some z -> ok x ->
  compare tz (CNum (NInt z)) x = compare tz (CNum (NFlt f)) x /\
  compare tz x (CNum (NInt z)) = compare tz x (CNum (NFlt f)).
Proof.
  intros H Hx. destruct (int_float_equal tz z f H) as [E O].
  apply (eq_congruence tz); auto. reflexivity.
Qed.

(* the conversion the interpreter uses (Z_to_sf = float(int)) yields such a float: checked on the boundary values *)
Definition Z_to_sf_exact (z : Z) : bool :=
  match sf_exact_Z (Z_to_sf z) with Some z' => z =? z' | None => false end.
Example Z_to_sf_exact_samples :
  forallb Z_to_sf_exact [0; 1; -1; 2; 3; -7; 255; 1000000; 10 ^ 15; 10 ^ 15 + 1; 2 ^ 52 + 1; 2 ^ 53 - 1; 2 ^ 53; - (2 ^ 53); 1 - 2 ^ 53;
                         2 ^ 53 + 2; 2 ^ 60; 2 ^ 1023; 3 * 2 ^ 100] = true.
Proof. vm_compute. reflexivity. Qed.
(* and beyond 2^53 an odd integer has no float spelling: float(2^53+1) denotes 2^53 *)
Example Z_to_sf_inexact_sample : sf_exact_Z (Z_to_sf (2 ^ 53 + 1)) = Some (2 ^ 53).
Proof. vm_compute. reflexivity. Qed.

(* ---- instances for the modelled library functions ------------------------------------------ *)
Lemma array_sort_spec tz l : Forall ok l -> stable_sorted_perm ok (compare tz) l (array_sort tz l).
Proof. apply sort_by_is_stable_sorted_perm. apply compare_glaws. Qed.

Lemma data_sort_spec tz sorts data : Forall row_ok data ->
  stable_sorted_perm row_ok (row_compare tz sorts) data (data_sort tz data sorts).
Proof. apply sort_by_is_stable_sorted_perm. apply row_compare_glaws. Qed.

(* ---- non-vacuity ---------------------------------------------------------------------------- *)
Definition tz0 (t : Z) : Z := if t <? 1000 then -3600000000 else 19800000000.
Definition ex_a : cv := CObj [(U "k", CArr [CNum (NInt 1); CNull; CStr (U "x")]); (U "a", CBool true)].
Definition ex_b : cv := CObj [(U "a", CBool true); (U "k", CArr [CNum (NFlt (Z_to_sf 1)); CNull; CStr (U "x"); CFun 3])].
Definition ex_c : cv := CObj [(U "a", CBool true); (U "k", CArr [CNum (NFlt (Z_to_sf 2)); CDate (HAware 5)])].

Example nonvacuous_triple :
  no_nan ex_a = true /\ no_nan ex_b = true /\ no_nan ex_c = true /\
  compare tz0 ex_a ex_b = Lt /\ compare tz0 ex_b ex_c = Lt /\ compare tz0 ex_a ex_c = Lt /\ compare tz0 ex_c ex_a = Gt.
Proof. vm_compute. repeat split; reflexivity. Qed.

Example nonvacuous_dates :
  compare tz0 (CDate (HDate 2)) (CDate (HNaive (2 * 86400000000))) = Eq /\
  compare tz0 (CDate (HAware 5)) (CDate (HNaive (5 - 3600000000))) = Eq /\
  compare tz0 (CDate (HAware 5)) (CDate (HAware 2000)) = Lt.
Proof. vm_compute. repeat split; reflexivity. Qed.

Example nonvacuous_sort :
  array_sort tz0 [CStr (U "b"); CNum (NInt 2); CNull; CNum (NFlt (Z_to_sf 2)); CBool false; CArr []; CNum (NInt 1)]
  = [CNull; CArr []; CBool false; CNum (NInt 1); CNum (NInt 2); CNum (NFlt (Z_to_sf 2)); CStr (U "b")].
Proof. vm_compute. reflexivity. Qed.

(* NaN really is outside the laws (why the property excludes it): it is "greater" both ways *)
Example nan_breaks_antisymmetry :
  compare tz0 (CNum (NFlt S754_nan)) (CNum (NInt 0)) = Gt /\ compare tz0 (CNum (NInt 0)) (CNum (NFlt S754_nan)) = Gt.
Proof. vm_compute. split; reflexivity. Qed.

(* ---- min / max return the FIRST least / greatest argument (the code's strict test) ----------- *)
Section FirstExtremum.
  Variable tz : Z -> Z.
  Notation cmp := (compare tz).
  Let G := compare_glaws tz.

  Lemma max_loop_first vs : forall pre r post, ok r -> Forall ok pre -> Forall ok post -> Forall ok vs ->
    Forall (fun v => cmp v r = Lt) pre -> Forall (fun v => cmp v r <> Gt) post ->
    let m := max_loop tz r vs in
    exists l1 l2, pre ++ r :: post ++ vs = l1 ++ m :: l2 /\
                  Forall (fun v => cmp v m = Lt) l1 /\ Forall (fun v => cmp v m <> Gt) l2.
  Proof.
    induction vs as [|v t IH]; intros pre r post Or Opre Opost Ovs Hpre Hpost; cbn.
    - exists pre, post. rewrite app_nil_r. auto.
    - inversion Ovs as [|? ? Ov Ot]; subst. destruct (cmp v r) eqn:E.
      + destruct (IH pre r (post ++ [v]) Or Opre) as [l1 [l2 [Eq [H1 H2]]]]; auto.
        * apply Forall_app; split; auto.
        * apply Forall_app; split; auto. constructor; auto. congruence.
        * exists l1, l2. rewrite <- app_assoc in Eq. cbn in Eq. auto.
      + destruct (IH pre r (post ++ [v]) Or Opre) as [l1 [l2 [Eq [H1 H2]]]]; auto.
        * apply Forall_app; split; auto.
        * apply Forall_app; split; auto. constructor; auto. congruence.
        * exists l1, l2. rewrite <- app_assoc in Eq. cbn in Eq. auto.
      + assert (Rv : cmp r v = Lt) by (rewrite (g_anti ok cmp G v r), E; auto).
        destruct (IH (pre ++ r :: post) v [] Ov) as [l1 [l2 [Eq [H1 H2]]]]; auto.
        * apply Forall_app; split; auto.
        * apply Forall_app; split.
          -- rewrite Forall_forall in *. intros x Hx. apply (g_lt_le_trans ok cmp G x r v); auto. congruence.
          -- constructor; auto. rewrite Forall_forall in *. intros x Hx. apply (g_le_lt_trans ok cmp G x r v); auto.
        * exists l1, l2. rewrite <- app_assoc in Eq. cbn in Eq. auto.
  Qed.

  Lemma math_max_first vs : vs <> [] -> Forall ok vs ->
    exists l1 l2, vs = l1 ++ math_max tz vs :: l2 /\
                  Forall (fun v => cmp v (math_max tz vs) = Lt) l1 /\ Forall (fun v => cmp v (math_max tz vs) <> Gt) l2.
  Proof.
    destruct vs as [|r t]; [congruence|]. intros _ H. inversion H; subst. cbn [math_max].
    apply (max_loop_first t [] r []); auto.
  Qed.

  Lemma min_loop_first vs : forall pre r post, ok r -> Forall ok pre -> Forall ok post -> Forall ok vs ->
    Forall (fun v => cmp r v = Lt) pre -> Forall (fun v => cmp r v <> Gt) post ->
    let m := min_loop tz r vs in
    exists l1 l2, pre ++ r :: post ++ vs = l1 ++ m :: l2 /\
                  Forall (fun v => cmp m v = Lt) l1 /\ Forall (fun v => cmp m v <> Gt) l2.
  Proof.
    induction vs as [|v t IH]; intros pre r post Or Opre Opost Ovs Hpre Hpost; cbn.
    - exists pre, post. rewrite app_nil_r. auto.
    - inversion Ovs as [|? ? Ov Ot]; subst.
      assert (Keep : cmp v r <> Lt ->
        exists l1 l2, pre ++ r :: post ++ v :: t = l1 ++ min_loop tz r t :: l2 /\
                      Forall (fun x => cmp (min_loop tz r t) x = Lt) l1 /\ Forall (fun x => cmp (min_loop tz r t) x <> Gt) l2).
      { intros N. destruct (IH pre r (post ++ [v]) Or Opre) as [l1 [l2 [Eq [H1 H2]]]]; auto.
        - apply Forall_app; split; auto.
        - apply Forall_app; split; auto. constructor; auto. rewrite (g_anti ok cmp G v r) by auto. destruct (cmp v r); cbn; congruence.
        - exists l1, l2. rewrite <- app_assoc in Eq. cbn in Eq. auto. }
      destruct (cmp v r) eqn:E; try (apply Keep; congruence).
      assert (Rv : cmp r v = Gt) by (rewrite (g_anti ok cmp G v r), E; auto).
      destruct (IH (pre ++ r :: post) v [] Ov) as [l1 [l2 [Eq [H1 H2]]]]; auto.
      * apply Forall_app; split; auto.
      * apply Forall_app; split.
        -- rewrite Forall_forall in *. intros x Hx. apply (g_lt_le_trans ok cmp G v r x); auto. rewrite (Hpre x Hx). discriminate.
        -- constructor; auto. rewrite Forall_forall in *. intros x Hx. apply (g_lt_le_trans ok cmp G v r x); auto.
      * exists l1, l2. rewrite <- app_assoc in Eq. cbn in Eq. auto.
  Qed.

  Lemma math_min_first vs : vs <> [] -> Forall ok vs ->
    exists l1 l2, vs = l1 ++ math_min tz vs :: l2 /\
                  Forall (fun v => cmp (math_min tz vs) v = Lt) l1 /\ Forall (fun v => cmp (math_min tz vs) v <> Gt) l2.
  Proof.
    destruct vs as [|r t]; [congruence|]. intros _ H. inversion H; subst. cbn [math_min].
    apply (min_loop_first t [] r []); auto.
  Qed.
End FirstExtremum.
