(* Proofs/C11.v — value comparison is a total preorder and every consumer agrees with it.

   Layers:
   1. order laws bundled PER LEFT ELEMENT (record [Laws]) so that they lift through the lexicographic
      list comparison [lcmp] by induction on the left list only (this is what makes the nested,
      unbounded-depth induction over [cv] go through);
   2. the scalar orders: strings (code points), booleans, exact int/float comparison (dyadic values
      scaled to a common exponent), normalised dates; the type-name fallback, where the order of the
      REGENERATED names is reduced to a rank by computation;
   3. [compare] is put in specification form ([compare_spec]); the main induction [compare_laws];
   4. consumers: relational operators, stable sort (sortedness, permutation, stability, uniqueness),
      min/max, indexOf, the dataSort row comparator. *)
From Coq Require Import Lia ZifyBool SpecFloat Permutation Sorted.
From BS Require Import Model.Base Model.Num Model.Compare Gen.TypeNames Proofs.BaseFacts.
Local Open Scope Z_scope.

(* ================================================================== 1. laws, per left element *)
Record Laws {A} (D : A -> Prop) (c : A -> A -> comparison) (a : A) : Prop := {
  l_refl : c a a = Eq;
  l_anti : forall b, D b -> c b a = CompOpp (c a b);
  l_eq   : forall b d, D b -> D d -> c a b = Eq -> c b d = c a d;
  l_lt   : forall b d, D b -> D d -> c a b = Lt -> c b d = Lt -> c a d = Lt;
  l_lteq : forall b d, D b -> D d -> c a b = Lt -> c b d = Eq -> c a d = Lt }.
Arguments l_refl {A D c a}. Arguments l_anti {A D c a}. Arguments l_eq {A D c a}.
Arguments l_lt {A D c a}. Arguments l_lteq {A D c a}.

Lemma Laws_weaken {A} (D D' : A -> Prop) c a : (forall x, D' x -> D x) -> Laws D c a -> Laws D' c a.
Proof.
  intros W L. constructor.
  - apply (l_refl L).
  - intros; apply (l_anti L); auto.
  - intros; apply (l_eq L); auto.
  - intros b d; intros; apply (l_lt L b d); auto.
  - intros b d; intros; apply (l_lteq L b d); auto.
Qed.

Lemma lcmp_laws {A} (D : A -> Prop) (c : A -> A -> comparison) (x : list A) :
  Forall (Laws D c) x -> Laws (Forall D) (lcmp c) x.
Proof.
  induction 1 as [|a x La Lx IH]; constructor.
  - reflexivity.
  - intros [|b y] _; reflexivity.
  - intros [|b y] d _ _; cbn; [auto | discriminate].
  - intros [|b y] [|d z] _ _; cbn; auto; discriminate.
  - intros [|b y] [|d z] _ _; cbn; auto; discriminate.
  - cbn. rewrite (l_refl La). apply (l_refl IH).
  - intros [|b y] Db; cbn; [reflexivity|]. inversion Db; subst.
    rewrite (l_anti La b) by assumption. destruct (c a b); cbn; auto. apply (l_anti IH); assumption.
  - intros [|b y] d Db Dd; cbn; [discriminate|]. inversion Db; subst.
    destruct (c a b) eqn:E; try discriminate. intros H.
    destruct d as [|e z]; cbn; [reflexivity|]. inversion Dd; subst.
    rewrite (l_eq La b e) by assumption. destruct (c a e); auto. apply (l_eq IH); auto.
  - intros [|b y] [|e z] Db Dd; cbn; try discriminate. inversion Db; inversion Dd; subst.
    destruct (c a b) eqn:E; try discriminate.
    + intros H. rewrite (l_eq La b e) by assumption. destruct (c a e); auto. apply (l_lt IH); auto.
    + intros _. destruct (c b e) eqn:E2; try discriminate.
      * intros _. rewrite (l_lteq La b e) by assumption. reflexivity.
      * intros _. rewrite (l_lt La b e) by assumption. reflexivity.
  - intros [|b y] [|e z] Db Dd; cbn; try discriminate. inversion Db; inversion Dd; subst.
    destruct (c a b) eqn:E; try discriminate.
    + intros H. rewrite (l_eq La b e) by assumption. destruct (c a e); try discriminate; auto. apply (l_lteq IH); auto.
    + intros _. destruct (c b e) eqn:E2; try discriminate.
      intros _. rewrite (l_lteq La b e) by assumption. reflexivity.
Qed.

(* key first, then value: the lexicographic product of two orders *)
Lemma item_laws {K V} (ck : K -> K -> comparison) (D : V -> Prop) (c : V -> V -> comparison) (k : K) (v : V) :
  Laws (fun _ => True) ck k -> Laws D c v ->
  Laws (fun kv => D (snd kv)) (fun l r => match ck (fst l) (fst r) with Eq => c (snd l) (snd r) | x => x end) (k, v).
Proof.
  intros Lk Lv. constructor; cbn.
  - rewrite (l_refl Lk). apply (l_refl Lv).
  - intros [k2 v2] Db; cbn in *. rewrite (l_anti Lk k2 I). destruct (ck k k2); cbn; auto. apply (l_anti Lv); auto.
  - intros [k2 v2] [k3 v3] Db Dd; cbn in *. destruct (ck k k2) eqn:E; try discriminate. intros H.
    rewrite (l_eq Lk k2 k3 I I E). destruct (ck k k3); auto. apply (l_eq Lv); auto.
  - intros [k2 v2] [k3 v3] Db Dd; cbn in *. destruct (ck k k2) eqn:E; try discriminate.
    + intros H. rewrite (l_eq Lk k2 k3 I I E). destruct (ck k k3); auto. apply (l_lt Lv); auto.
    + intros _. destruct (ck k2 k3) eqn:E2; try discriminate.
      * intros _. rewrite (l_lteq Lk k2 k3 I I E E2). reflexivity.
      * intros _. rewrite (l_lt Lk k2 k3 I I E E2). reflexivity.
  - intros [k2 v2] [k3 v3] Db Dd; cbn in *. destruct (ck k k2) eqn:E; try discriminate.
    + intros H. rewrite (l_eq Lk k2 k3 I I E). destruct (ck k k3); try discriminate; auto. apply (l_lteq Lv); auto.
    + intros _. destruct (ck k2 k3) eqn:E2; try discriminate.
      intros _. rewrite (l_lteq Lk k2 k3 I I E E2). reflexivity.
Qed.

(* an order pulled back along any function *)
Lemma pullback_laws {A B} (f : A -> B) (D : B -> Prop) (c : B -> B -> comparison) (a : A) :
  Laws D c (f a) -> Laws (fun x => D (f x)) (fun x y => c (f x) (f y)) a.
Proof.
  intros L. constructor.
  - apply (l_refl L).
  - intros; apply (l_anti L); auto.
  - intros; apply (l_eq L); auto.
  - intros b d; intros; apply (l_lt L (f b) (f d)); auto.
  - intros b d; intros; apply (l_lteq L (f b) (f d)); auto.
Qed.

(* ================================================================== 2. scalar orders *)
Lemma Z_laws z : Laws (fun _ => True) Z.compare z.
Proof.
  constructor.
  - apply Z.compare_refl.
  - intros b _. rewrite Z.compare_antisym. reflexivity.
  - intros b d _ _ H. apply Z.compare_eq in H. subst. reflexivity.
  - intros b d _ _ H1 H2. rewrite Z.compare_lt_iff in *. lia.
  - intros b d _ _ H1 H2. apply Z.compare_eq in H2. subst. exact H1.
Qed.

Lemma N_laws n : Laws (fun _ => True) N.compare n.
Proof.
  constructor.
  - apply N.compare_refl.
  - intros b _. rewrite N.compare_antisym. reflexivity.
  - intros b d _ _ H. apply N.compare_eq in H. subst. reflexivity.
  - intros b d _ _ H1 H2. rewrite N.compare_lt_iff in *. lia.
  - intros b d _ _ H1 H2. apply N.compare_eq in H2. subst. exact H1.
Qed.

Lemma str_compare_lcmp a b : str_compare a b = lcmp N.compare a b.
Proof. revert b. induction a as [|x a IH]; intros [|y b]; cbn; auto; try (rewrite IH; reflexivity). Qed.

Lemma str_laws s : Laws (fun _ => True) str_compare s.
Proof.
  assert (L : Laws (Forall (fun _ : N => True)) (lcmp N.compare) s).
  { apply lcmp_laws. apply Forall_forall. intros; apply N_laws. }
  assert (T : forall x : str, Forall (fun _ : N => True) x) by (intros x; apply Forall_forall; auto).
  constructor; intros; rewrite ?str_compare_lcmp in *.
  - apply (l_refl L).
  - apply (l_anti L); auto.
  - apply (l_eq L); auto.
  - eapply (l_lt L); eauto.
  - eapply (l_lteq L); eauto.
Qed.

Lemma str_compare_eq a b : str_compare a b = Eq <-> a = b.
Proof.
  revert b. induction a as [|x a IH]; intros [|y b]; cbn; split; try discriminate; auto.
  - destruct (x ?= y)%N eqn:E; try discriminate. apply N.compare_eq in E. intros H. apply IH in H. subst; auto.
  - intros H. inversion H; subst. rewrite N.compare_refl. apply IH. reflexivity.
Qed.

Definition is_lt (c : comparison) : bool := match c with Lt => true | _ => false end.

Lemma sign3_str x y : sign3 (is_lt (str_compare x y)) (str_eqb x y) = str_compare x y.
Proof.
  destruct (str_compare x y) eqn:E; cbn; auto.
  - apply str_compare_eq in E. subst. rewrite str_eqb_refl. reflexivity.
  - destruct (str_eqb x y) eqn:Q; auto. apply str_eqb_eq in Q. subst.
    rewrite (proj2 (str_compare_eq y y) eq_refl) in E. discriminate.
Qed.

Lemma sign3_Z l r : sign3 (l <? r) (l =? r) = Z.compare l r.
Proof. unfold sign3. destruct (Z.compare_spec l r); destruct (l <? r) eqn:A; destruct (l =? r) eqn:B; auto; lia. Qed.

Definition bool_rank (b : bool) : Z := if b then 1 else 0.
Lemma bool_compare_rank a b : bool_compare a b = Z.compare (bool_rank a) (bool_rank b).
Proof. destruct a, b; reflexivity. Qed.

(* ---- exact comparison of dyadic values --------------------------------------------------- *)
Lemma fin_compare_scaled m1 e1 m2 e2 e0 : e0 <= e1 -> e0 <= e2 ->
  fin_compare m1 e1 m2 e2 = Z.compare (m1 * 2 ^ (e1 - e0)) (m2 * 2 ^ (e2 - e0)).
Proof.
  intros H1 H2. unfold fin_compare. set (e := Z.min e1 e2).
  assert (He : e0 <= e) by (unfold e; lia).
  assert (P : 0 < 2 ^ (e - e0)) by (apply Z.pow_pos_nonneg; lia).
  replace (e1 - e0) with ((e1 - e) + (e - e0)) by lia.
  replace (e2 - e0) with ((e2 - e) + (e - e0)) by lia.
  rewrite !Z.pow_add_r by (unfold e; lia).
  rewrite !Z.mul_assoc. rewrite <- Zmult_compare_compat_r by lia. reflexivity.
Qed.

Definition kcmp (a b : xkey) : comparison := match key_compare a b with Some c => c | None => Gt end.
Definition kok (k : xkey) : Prop := k <> KNaN.

Lemma key_laws k : kok k -> Laws kok kcmp k.
Proof.
  intros Hk. pose proof Z_laws as ZL. unfold kok in *.
  destruct k as [| |m e|]; try congruence; constructor; unfold kcmp.
  (* KNegInf *)
  - reflexivity.
  - intros [] ?; cbn; congruence.
  - intros [] [] ? ?; cbn; congruence.
  - intros [] [] ? ?; cbn; congruence.
  - intros [] [] ? ?; cbn; congruence.
  (* KFin *)
  - cbn. unfold fin_compare. apply Z.compare_refl.
  - intros [| |m2 e2|] ?; cbn; try congruence.
    unfold fin_compare. rewrite (Z.min_comm e2 e). rewrite Z.compare_antisym. reflexivity.
  - intros [| |m2 e2|] [| |m3 e3|] ? ?; cbn; try congruence.
    set (e0 := Z.min e (Z.min e2 e3)).
    rewrite (fin_compare_scaled m e m2 e2 e0), (fin_compare_scaled m2 e2 m3 e3 e0), (fin_compare_scaled m e m3 e3 e0) by (unfold e0; lia).
    intros E'. apply Z.compare_eq in E'. rewrite E'. reflexivity.
  - intros [| |m2 e2|] [| |m3 e3|] ? ?; cbn; try congruence.
    set (e0 := Z.min e (Z.min e2 e3)).
    rewrite (fin_compare_scaled m e m2 e2 e0), (fin_compare_scaled m2 e2 m3 e3 e0), (fin_compare_scaled m e m3 e3 e0) by (unfold e0; lia).
    intros E1' E2'.
    apply Z.compare_lt_iff in E1'. apply Z.compare_lt_iff in E2'. apply Z.compare_lt_iff. eapply Z.lt_trans; eassumption.
  - intros [| |m2 e2|] [| |m3 e3|] ? ?; cbn; try congruence.
    set (e0 := Z.min e (Z.min e2 e3)).
    rewrite (fin_compare_scaled m e m2 e2 e0), (fin_compare_scaled m2 e2 m3 e3 e0), (fin_compare_scaled m e m3 e3 e0) by (unfold e0; lia).
    intros E1' E2'. apply Z.compare_eq in E2'. rewrite <- E2'. exact E1'.
  (* KPosInf *)
  - reflexivity.
  - intros [] ?; cbn; congruence.
  - intros [] [] ? ?; cbn; congruence.
  - intros [] [] ? ?; cbn; congruence.
  - intros [] [] ? ?; cbn; congruence.
Qed.

Lemma num_compare_key a b : num_compare a b = kcmp (num_key a) (num_key b).
Proof. unfold num_compare, num_ltb, num_eqvb, kcmp. destruct (key_compare (num_key a) (num_key b)) as [[]|]; reflexivity. Qed.

Lemma num_key_ok n : num_is_nan n = false <-> kok (num_key n).
Proof. unfold kok. destruct n as [z|[s|s| |s m e]]; cbn; try destruct s; split; congruence. Qed.

Definition num_ok (n : num) : Prop := num_is_nan n = false.

Lemma num_laws n : num_ok n -> Laws num_ok num_compare n.
Proof.
  intros H. apply num_key_ok in H. pose proof (key_laws _ H) as L.
  assert (W : forall x, num_ok x -> kok (num_key x)) by (intros x; apply num_key_ok).
  constructor; intros; rewrite ?num_compare_key in *.
  - apply (l_refl L).
  - apply (l_anti L); auto.
  - apply (l_eq L); auto.
  - eapply (l_lt L); [| |eassumption|eassumption]; auto.
  - eapply (l_lteq L); [| |eassumption|eassumption]; auto.
Qed.

(* ================================================================== 3. compare in specification form *)
(* alphabetical rank of the nine type names; tied to the REGENERATED names by [type_name_order] below *)
Definition trank (v : cv) : Z :=
  match v with
  | CArr _ => 0 | CBool _ => 1 | CDate _ => 2 | CFun _ => 3 | CNull => 4 | CNum _ => 5 | CObj _ => 6 | CRegex _ => 7 | CStr _ => 8
  end.

Lemma type_name_order a b : str_compare (value_type a) (value_type b) = Z.compare (trank a) (trank b).
Proof. destruct a, b; vm_compute; reflexivity. Qed.

Lemma kinsert_map {V W} (g : V -> W) (kv : str * V) (l : list (str * V)) :
  kinsert (fst kv, g (snd kv)) (map (fun kv => (fst kv, g (snd kv))) l) = map (fun kv => (fst kv, g (snd kv))) (kinsert kv l).
Proof. induction l as [|h t IH]; cbn; auto. destruct (str_compare (fst kv) (fst h)); cbn; auto. rewrite IH. reflexivity. Qed.

Lemma ksort_map {V W} (g : V -> W) (l : list (str * V)) :
  ksort (map (fun kv => (fst kv, g (snd kv))) l) = map (fun kv => (fst kv, g (snd kv))) (ksort l).
Proof. induction l as [|h t IH]; cbn; auto. rewrite IH. apply (kinsert_map g h). Qed.

Lemma lcmp_apply (rec : cv -> cv -> comparison) (x y : list (str * cv)) :
  lcmp (item_cmp (fun (f : cv -> comparison) (v : cv) => f v)) (map (fun kv => (fst kv, rec (snd kv))) x) y
  = lcmp (item_cmp rec) x y.
Proof. revert y. induction x as [|a x IH]; intros [|b y]; cbn; auto. unfold item_cmp at 1 3. cbn. rewrite IH. reflexivity. Qed.

Definition spec_step (tz : Z -> Z) (rec : cv -> cv -> comparison) (a b : cv) : comparison :=
  match a, b with
  | CNull, CNull => Eq
  | CNull, _ => Lt
  | _, CNull => Gt
  | CStr x, CStr y => str_compare x y
  | CBool x, CBool y => Z.compare (bool_rank x) (bool_rank y)
  | CNum x, CNum y => num_compare x y
  | CDate x, CDate y => Z.compare (normalize tz x) (normalize tz y)
  | CArr x, CArr y => lcmp rec x y
  | CObj x, CObj y => lcmp (item_cmp rec) (ksort x) (ksort y)
  | _, _ => Z.compare (trank a) (trank b)
  end.

Lemma compare_spec tz a b : compare tz a b = spec_step tz (compare tz) a b.
Proof.
  destruct a, b; cbn [compare spec_step]; cbv zeta;
    rewrite ?sign3_Z, ?bool_compare_rank; try reflexivity;
    try (change (match str_compare ?x ?y with Lt => true | _ => false end) with (is_lt (str_compare x y)));
    try (rewrite sign3_str; try reflexivity; apply type_name_order).
  - (* object/object *) rewrite ksort_map. apply lcmp_apply.
Qed.

(* nested induction over values *)
Section CvInd.
  Variable P : cv -> Prop.
  Hypothesis Hnull : P CNull.
  Hypothesis Hbool : forall b, P (CBool b).
  Hypothesis Hnum : forall n, P (CNum n).
  Hypothesis Hstr : forall s, P (CStr s).
  Hypothesis Hdate : forall d, P (CDate d).
  Hypothesis Hfun : forall i, P (CFun i).
  Hypothesis Hregex : forall i, P (CRegex i).
  Hypothesis Harr : forall l, Forall P l -> P (CArr l).
  Hypothesis Hobj : forall l, Forall (fun kv => P (snd kv)) l -> P (CObj l).
  Fixpoint cv_ind' (a : cv) : P a :=
    match a with
    | CNull => Hnull | CBool b => Hbool b | CNum n => Hnum n | CStr s => Hstr s | CDate d => Hdate d
    | CFun i => Hfun i | CRegex i => Hregex i
    | CArr l => Harr l ((fix go (l : list cv) : Forall P l :=
                           match l with [] => Forall_nil _ | x :: r => Forall_cons _ (cv_ind' x) (go r) end) l)
    | CObj l => Hobj l ((fix go (l : list (str * cv)) : Forall (fun kv => P (snd kv)) l :=
                           match l with [] => Forall_nil _ | x :: r => Forall_cons _ (cv_ind' (snd x)) (go r) end) l)
    end.
End CvInd.

Definition ok (v : cv) : Prop := no_nan v = true.

Lemma ok_arr l : ok (CArr l) <-> Forall ok l.
Proof. unfold ok; cbn. rewrite forallb_forall, Forall_forall. reflexivity. Qed.
Lemma ok_obj l : ok (CObj l) <-> Forall (fun kv => ok (snd kv)) l.
Proof. unfold ok; cbn. rewrite forallb_forall, Forall_forall. reflexivity. Qed.
Lemma ok_num n : ok (CNum n) <-> num_ok n.
Proof. unfold ok, num_ok; cbn. destruct (num_is_nan n); cbn; split; congruence. Qed.

Lemma Forall_kinsert {V} (P : str * V -> Prop) kv l : P kv -> Forall P l -> Forall P (kinsert kv l).
Proof.
  intros Hk. induction 1 as [|h t Hh Ht IH]; cbn; [repeat constructor; auto|].
  destruct (str_compare (fst kv) (fst h)); repeat constructor; auto.
Qed.
Lemma Forall_ksort {V} (P : str * V -> Prop) l : Forall P l -> Forall P (ksort l).
Proof. induction 1; cbn; [constructor|]. apply Forall_kinsert; auto. Qed.

Section Main.
  Variable tz : Z -> Z.
  Notation cmp := (compare tz).

  Local Arguments num_compare : simpl never.
  Local Arguments normalize : simpl never.
  Local Arguments str_compare : simpl never.
  Local Arguments lcmp : simpl never.
  Local Arguments ksort : simpl never.
  Local Arguments bool_rank : simpl never.
  Local Arguments Z.compare : simpl nomatch.

  Ltac cs := rewrite ?compare_spec in *; cbn [spec_step trank] in *.
  Ltac crush := cs; cbn in *; try congruence; try discriminate; auto.

  (* scalar of one constructor: the order is [c] on the payload when both sides have that constructor, else by rank *)
  Theorem compare_laws : forall a, ok a -> Laws ok cmp a.
  Proof.
    induction a using cv_ind'; intros Ha.
    - (* null *) constructor.
      + reflexivity.
      + intros [] ?; reflexivity.
      + intros b d ? ? H; destruct b; crush.
      + intros b d ? ? H1 H2; destruct b, d; crush.
      + intros b d ? ? H1 H2; destruct b, d; crush.
    - (* bool *) pose proof (Z_laws (bool_rank b)) as L. constructor.
      + cs. apply (l_refl L).
      + intros [] ?; crush. apply (l_anti L); auto.
      + intros [] dd ? ?; crush. intros HE. destruct dd; crush. apply (l_eq L); auto.
      + intros [] [] ? ?; crush. apply (l_lt L); auto.
      + intros [] [] ? ?; crush. apply (l_lteq L); auto.
    - (* num *) apply ok_num in Ha. pose proof (num_laws n Ha) as L. constructor.
      + cs. apply (l_refl L).
      + intros [] Hb; crush. apply (l_anti L). apply ok_num; auto.
      + intros [] dd Hb Hd; crush. intros HE. destruct dd; crush. apply (l_eq L); auto; apply ok_num; auto.
      + intros [] [] Hb Hd; crush. apply (l_lt L); apply ok_num; auto.
      + intros [] [] Hb Hd; crush. apply (l_lteq L); apply ok_num; auto.
    - (* str *) pose proof (str_laws s) as L. constructor.
      + cs. apply (l_refl L).
      + intros [] ?; crush. apply (l_anti L); auto.
      + intros [] dd ? ?; crush. intros HE. destruct dd; crush. apply (l_eq L); auto.
      + intros [] [] ? ?; crush. apply (l_lt L); auto.
      + intros [] [] ? ?; crush. apply (l_lteq L); auto.
    - (* date *) pose proof (Z_laws (normalize tz d)) as L. constructor.
      + cs. apply (l_refl L).
      + intros [] ?; crush. apply (l_anti L); auto.
      + intros [] dd ? ?; crush. intros HE. destruct dd; crush. apply (l_eq L); auto.
      + intros [] [] ? ?; crush. apply (l_lt L); auto.
      + intros [] [] ? ?; crush. apply (l_lteq L); auto.
    - (* fun *) constructor.
      + reflexivity.
      + intros [] ?; reflexivity.
      + intros b d ? ? H; destruct b; crush; destruct d; crush.
      + intros b d ? ? H1 H2; destruct b, d; crush.
      + intros b d ? ? H1 H2; destruct b, d; crush.
    - (* regex *) constructor.
      + reflexivity.
      + intros [] ?; reflexivity.
      + intros b d ? ? H; destruct b; crush; destruct d; crush.
      + intros b d ? ? H1 H2; destruct b, d; crush.
      + intros b d ? ? H1 H2; destruct b, d; crush.
    - (* arr *)
      apply ok_arr in Ha.
      assert (F : Forall (Laws ok cmp) l).
      { rewrite Forall_forall in *. intros x Hx. apply H; auto. }
      pose proof (lcmp_laws ok cmp l F) as L. constructor.
      + cs. apply (l_refl L).
      + intros [] Hb; try (cs; reflexivity). cs. apply (l_anti L). apply ok_arr; auto.
      + intros [] dd Hb Hd; try (cs; discriminate). cs. intros E.
        destruct dd; try (cs; reflexivity). cs. apply (l_eq L); auto; apply ok_arr; auto.
      + intros [] [] Hb Hd; try (cs; cbn; congruence); try (cs; discriminate).
        cs. apply (l_lt L); apply ok_arr; auto.
      + intros [] [] Hb Hd; try (cs; cbn; congruence); try (cs; discriminate).
        cs. apply (l_lteq L); apply ok_arr; auto.
    - (* obj *)
      apply ok_obj in Ha.
      assert (F : Forall (Laws (fun kv => ok (snd kv)) (item_cmp cmp)) (ksort l)).
      { apply Forall_ksort. rewrite Forall_forall in *. intros [k v] Hx.
        apply (item_laws str_compare ok cmp k v (str_laws k)). apply (H (k, v)); auto. }
      pose proof (lcmp_laws _ _ _ F) as L.
      assert (S : forall y, ok (CObj y) -> Forall (fun kv => ok (snd kv)) (ksort y)).
      { intros y Hy. apply Forall_ksort. apply ok_obj; auto. }
      constructor.
      + cs. apply (l_refl L).
      + intros [] Hb; try (cs; reflexivity). cs. apply (l_anti L). auto.
      + intros [] dd Hb Hd; try (cs; discriminate). cs. intros E.
        destruct dd; try (cs; reflexivity). cs. apply (l_eq L); auto.
      + intros [] [] Hb Hd; try (cs; cbn; congruence); try (cs; discriminate).
        cs. apply (l_lt L); auto.
      + intros [] [] Hb Hd; try (cs; cbn; congruence); try (cs; discriminate).
        cs. apply (l_lteq L); auto.
  Qed.
End Main.
