(* Proofs/C10stmtGaps6.v — the relation between two layouts of the same statement, extended by label and for:
   stmt_spaced3 k l1 l2  (stmt_spaced2 plus  name :  /  for v in T :  /  for v , i in T :). *)
From Coq Require Import Lia.
From BS Require Import Model.Base Model.Regex Model.Num Model.NumText Model.ExprParser Model.Script Model.Lower Gen.Unicode Gen.Regexes
  Proofs.RegexFacts Proofs.RegexComplete Proofs.RegexShift Proofs.RegexEval Proofs.C02rx Proofs.C10ws Proofs.C10wsExpr
  Proofs.C10wsFull Proofs.C10wsIndent Proofs.C10wsIndent2 Proofs.C10tokSpaced Proofs.RegexTrail Proofs.C10tokTrail Proofs.RegexTrail2
  Proofs.RegexTrail3 Proofs.C10stmtTrail Proofs.C10parseNoeq Proofs.C10classifyTrail Proofs.C10stmtGaps Proofs.C10stmtGaps2
  Proofs.C10stmtGaps3 Proofs.C10stmtGaps4 Proofs.C10stmtGaps5.

Inductive stmt_spaced3 : line_kind -> str -> str -> Prop :=
| ss3_base k l1 l2 : stmt_spaced2 k l1 l2 -> stmt_spaced3 k l1 l2
| ss3_label w1 w2 w3 v1 v2 v3 name :
    white w1 -> white w2 -> white w3 -> white v1 -> white v2 -> white v3 -> ident name = true -> ~ In name label_keywords ->
    stmt_spaced3 (KLabel name) (w1 ++ name ++ w2 ++ 58%N :: w3) (v1 ++ name ++ v2 ++ 58%N :: v3)
| ss3_for w1 w2 w5 w6 w8 v1 v2 v5 v6 v8 var T1 T2 e :
    white w1 -> white w2 -> w2 <> [] -> white w5 -> w5 <> [] -> white w6 -> w6 <> [] -> white w8 ->
    white v1 -> white v2 -> v2 <> [] -> white v5 -> v5 <> [] -> white v6 -> v6 <> [] -> white v8 ->
    ident var = true -> nolf T1 -> nolf T2 -> hd_ok is_sp T1 -> hd_ok is_sp T2 -> spaced T1 T2 -> parse_expression T1 = EOk e ->
    stmt_spaced3 (KFor var [] e)
      (w1 ++ KW_FOR ++ w2 ++ var ++ w5 ++ KW_IN ++ w6 ++ T1 ++ 58%N :: w8)
      (v1 ++ KW_FOR ++ v2 ++ var ++ v5 ++ KW_IN ++ v6 ++ T2 ++ 58%N :: v8)
| ss3_for_index w1 w2 w3 w4 w5 w6 w8 v1 v2 v3 v4 v5 v6 v8 var ix T1 T2 e :
    white w1 -> white w2 -> w2 <> [] -> white w3 -> white w4 -> white w5 -> w5 <> [] -> white w6 -> w6 <> [] -> white w8 ->
    white v1 -> white v2 -> v2 <> [] -> white v3 -> white v4 -> white v5 -> v5 <> [] -> white v6 -> v6 <> [] -> white v8 ->
    ident var = true -> ident ix = true -> nolf T1 -> nolf T2 -> hd_ok is_sp T1 -> hd_ok is_sp T2 -> spaced T1 T2 ->
    parse_expression T1 = EOk e ->
    stmt_spaced3 (KFor var ix e)
      (w1 ++ KW_FOR ++ w2 ++ var ++ w3 ++ 44%N :: w4 ++ ix ++ w5 ++ KW_IN ++ w6 ++ T1 ++ 58%N :: w8)
      (v1 ++ KW_FOR ++ v2 ++ var ++ v3 ++ 44%N :: v4 ++ ix ++ v5 ++ KW_IN ++ v6 ++ T2 ++ 58%N :: v8).

Theorem stmt_spaced3_classify n k l1 l2 : stmt_spaced3 k l1 l2 -> classify n l1 = ROk k /\ classify n l2 = ROk k.
Proof.
  intros S. destruct S.
  - apply stmt_spaced2_classify. assumption.
  - split; apply classify_label_shape; assumption.
  - split; apply classify_for_shape; try assumption. eapply spaced_parse; eassumption.
  - split; apply classify_for_index_shape; try assumption. eapply spaced_parse; eassumption.
Qed.

Lemma stmt_spaced3_sym k l1 l2 : stmt_spaced3 k l1 l2 -> stmt_spaced3 k l2 l1.
Proof.
  intros S. destruct S.
  - apply ss3_base. apply stmt_spaced2_sym. assumption.
  - apply ss3_label; assumption.
  - apply ss3_for; try assumption; [apply sp_sym; assumption | eapply spaced_parse; eassumption].
  - apply ss3_for_index; try assumption; [apply sp_sym; assumption | eapply spaced_parse; eassumption].
Qed.

Lemma not_label_kw_top : ~ In (U "top") label_keywords.
Proof. intros I. vm_compute in I. repeat (destruct I as [I|I]; [discriminate I|]). contradiction. Qed.

Lemma stmt_spaced3_examples :
  exists e, parse_expression (U "a<1") = EOk e /\
    stmt_spaced3 (KLabel (U "top")) (U "top:") (U " top\000009 :  ") /\
    stmt_spaced3 (KFor (U "v") [] e) (U "for v in a<1:") (U "  for \000009v  in  a <  1 : ") /\
    stmt_spaced3 (KFor (U "v") (U "i1") e) (U "for v,i1 in a<1:") (U "for  v , \000009i1  in \000009a <  1 :  ").
Proof.
  pose proof (whiteb_white [] eq_refl) as W0. pose proof (whiteb_white (U " ") eq_refl) as W1.
  pose proof (whiteb_white (U "  ") eq_refl) as W2. pose proof (whiteb_white (U "\000009") eq_refl) as WT.
  pose proof (whiteb_white (U "\000009 ") eq_refl) as WT1. pose proof (whiteb_white (U " \000009") eq_refl) as W1T.
  assert (PE : exists e, parse_expression (U "a<1") = EOk e) by (eexists; vm_compute; reflexivity).
  destruct PE as (e & PE). exists e. split; [exact PE|].
  split; [|split].
  - change (U "top:") with ([] ++ U "top" ++ [] ++ 58%N :: []).
    change (U " top\000009 :  ") with (U " " ++ U "top" ++ U "\000009 " ++ 58%N :: U "  ").
    apply ss3_label; try assumption; [reflexivity | exact not_label_kw_top].
  - change (U "for v in a<1:") with ([] ++ KW_FOR ++ U " " ++ U "v" ++ U " " ++ KW_IN ++ U " " ++ U "a<1" ++ 58%N :: []).
    change (U "  for \000009v  in  a <  1 : ") with (U "  " ++ KW_FOR ++ U " \000009" ++ U "v" ++ U "  " ++ KW_IN ++ U "  " ++ U "a <  1 " ++ 58%N :: U " ").
    apply ss3_for; try assumption; try reflexivity; try discriminate. exact spaced_small.
  - change (U "for v,i1 in a<1:") with ([] ++ KW_FOR ++ U " " ++ U "v" ++ [] ++ 44%N :: [] ++ U "i1" ++ U " " ++ KW_IN ++ U " " ++ U "a<1" ++ 58%N :: []).
    change (U "for  v , \000009i1  in \000009a <  1 :  ")
      with ([] ++ KW_FOR ++ U "  " ++ U "v" ++ U " " ++ 44%N :: U " \000009" ++ U "i1" ++ U "  " ++ KW_IN ++ U " \000009" ++ U "a <  1 " ++ 58%N :: U "  ").
    apply ss3_for_index; try assumption; try reflexivity; try discriminate. exact spaced_small.
Qed.
