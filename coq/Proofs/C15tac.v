(* Proofs/C15tac.v — C15 history: tactics and number lemmas shared by the step lemmas of the string and search functions. *)
From Coq Require Import Lia ZifyBool SpecFloat.
From BS Require Import Model.Base Model.Num Model.LibVal Gen.ArgSpecs Model.LibSeq Proofs.BaseFacts Proofs.C15 Proofs.C15spec
  Proofs.C15hist Proofs.C15spec2.
Local Open Scope Z_scope.

Ltac go name k := lib_open name k; crunch.

(* a number that `arg_index` rejects: int() raises on inf / nan, anything else is a ValueArgsError *)
Lemma number_fails_bad : forall sp n, index_spec sp -> arg_index (VNum n) = None ->
  number_fails sp n = if nonfinite (VNum n) then None else Some true.
Proof.
  intros sp n I E. pose proof I as (I1 & _). unfold nonfinite. unfold arg_index, int_of_num in E.
  destruct (py_int n) as [w|] eqn:P.
  - destruct (num_eq (NInt w) n) eqn:Q.
    + rewrite (number_fails_index sp n w I (conj P Q)). destruct (w <? 0); [reflexivity|discriminate].
    + unfold number_fails. rewrite I1, P, Q. reflexivity.
  - unfold number_fails. rewrite I1, P. reflexivity.
Qed.
Lemma integral_finite : forall n z, integral n z -> nonfinite (VNum n) = false.
Proof. intros n z [P _]. unfold nonfinite. rewrite P. reflexivity. Qed.

Ltac num_cases2 :=
  match goal with
  | |- context [number_fails ?sp ?n] =>
      let Q := fresh "Q" in let E := fresh "E" in
      pose proof (number_fails_cases sp n ltac:(repeat split; reflexivity)) as Q;
      let z := fresh "z" in
      destruct (arg_index (VNum n)) as [z|] eqn:E;
      [ let Hi := fresh "Hi" in let Hz := fresh "Hz" in let Hf := fresh "Hf" in
        destruct Q as (Hi & Hz & Hf); rewrite Hf; clear Hf
      | clear Q; rewrite (number_fails_bad sp n ltac:(repeat split; reflexivity) E) ]
  end.

