(* Proofs/C15histm.v — C15 history: well-formed, fuel-safe histories of OPS_X (all 37 modelled functions) never get stuck:
   the model run completes, stays well-formed, and the relational abstract machine runs to the abstraction of the final state. *)
From Coq Require Import Lia.
From BS Require Import Model.Base Model.Num Model.LibVal Gen.ArgSpecs Model.LibSeq Proofs.BaseFacts Proofs.C15 Proofs.C15spec
  Proofs.C15hist Proofs.C15histd Proofs.C15histe Proofs.C15histf Proofs.C15spec2 Proofs.C15spec3 Proofs.C15histg Proofs.C15aeq Proofs.C15histh Proofs.C15histi
  Proofs.C15histj Proofs.C15histk Proofs.C15histl.
Local Open Scope Z_scope.

(* ---- on well-formed arguments with a non-function needle a search request is never stuck, and its outcome is a scalar in the
   unchanged state *)
Definition rq_good (rq : list value -> astate -> sreq) : Prop :=
  forall args m, forallb (aval_ok m) args = true -> needle_ok args = true ->
  forall out, search_out m (rq args m) out -> exists r, out = Some (r, m) /\ scalar_val (sres_value r) = true.

Ltac so_done := intros out H; inv H; unfold bad_index, ok, fail, failv;
  repeat match goal with |- context [if ?c then _ else _] => destruct c end; eexists; split; reflexivity.

Lemma rq_first_good : forall l v vi m, aval_ok m (VArr l) = true -> (forall id, v <> VFun id) ->
  forall out, search_out m (rq_first l v vi m) out -> exists r, out = Some (r, m) /\ scalar_val (sres_value r) = true.
Proof.
  intros l v vi m A N. unfold rq_first. destruct (arg_index vi); [|so_done].
  destruct (seq_ok _ _ A) as (xs & ->). destruct (len xs <=? z); [so_done|].
  rewrite (not_fun_match v) by exact N. so_done.
Qed.
Lemma rq_last_good : forall l v vi m, aval_ok m (VArr l) = true -> (forall id, v <> VFun id) ->
  forall out, search_out m (rq_last l v vi m) out -> exists r, out = Some (r, m) /\ scalar_val (sres_value r) = true.
Proof.
  intros l v vi m A N. unfold rq_last. destruct (opt_index vi); [|so_done].
  destruct (seq_ok _ _ A) as (xs & ->). cbv zeta. destruct (len xs <=? _); [so_done|].
  rewrite (not_fun_match v) by exact N. destruct (_ <? 0); so_done.
Qed.
Lemma needle_not_fun : forall a1 v rest, needle_ok (a1 :: v :: rest) = true -> forall id, v <> VFun id.
Proof. intros a1 v rest H id ->. discriminate. Qed.

Lemma rq_arrayIndexOf_good : rq_good rq_arrayIndexOf.
Proof.
  intros args m A N. destruct args as [|a1 [|a2 [|a3 [|a4 rest]]]]; cbn [forallb] in A;
    repeat (let V := fresh "V" in apply andb_true_iff in A; destruct A as [V A]).
  - unfold rq_arrayIndexOf. so_done.
  - destruct a1; try (unfold rq_arrayIndexOf; so_done). cbn [rq_arrayIndexOf]. apply rq_first_good; [assumption | discriminate].
  - destruct a1; try (unfold rq_arrayIndexOf; so_done). cbn [rq_arrayIndexOf]. apply rq_first_good; [assumption | eapply needle_not_fun; eauto].
  - destruct a1; try (unfold rq_arrayIndexOf; so_done). cbn [rq_arrayIndexOf]. apply rq_first_good; [assumption | eapply needle_not_fun; eauto].
  - destruct a1; unfold rq_arrayIndexOf; so_done.
Qed.
Lemma rq_arrayLastIndexOf_good : rq_good rq_arrayLastIndexOf.
Proof.
  intros args m A N. destruct args as [|a1 [|a2 [|a3 [|a4 rest]]]]; cbn [forallb] in A;
    repeat (let V := fresh "V" in apply andb_true_iff in A; destruct A as [V A]).
  - unfold rq_arrayLastIndexOf. so_done.
  - destruct a1; try (unfold rq_arrayLastIndexOf; so_done). cbn [rq_arrayLastIndexOf]. apply rq_last_good; [assumption | discriminate].
  - destruct a1; try (unfold rq_arrayLastIndexOf; so_done). cbn [rq_arrayLastIndexOf]. apply rq_last_good; [assumption | eapply needle_not_fun; eauto].
  - destruct a1; try (unfold rq_arrayLastIndexOf; so_done). cbn [rq_arrayLastIndexOf]. apply rq_last_good; [assumption | eapply needle_not_fun; eauto].
  - destruct a1; unfold rq_arrayLastIndexOf; so_done.
Qed.
Lemma search_rq_good : forall f rq, search_rq f = Some rq -> rq_good rq.
Proof. intros f rq R. destruct (is_search_cases f rq R) as [[_ ->]|[_ ->]]; [exact rq_arrayIndexOf_good | exact rq_arrayLastIndexOf_good]. Qed.

(* ---- one statement *)
Lemma run_op_wf_x : forall e h o, wf_state (e, h) = true -> wf_op_x (e, h) o = true -> op_fuel_safe (Some (e, h)) o = true ->
  exists v h', run_op (Some (e, h)) o = Some (e ++ [v], h') /\ wf_state (e ++ [v], h') = true /\ (length h <= length h')%nat.
Proof.
  intros e h o W O F. destruct o as [f l|n|v].
  2: { apply (run_op_wf_in spec_table_s spec_table_s_refined spec_table_s_good e h (OAlias n) W). exact O. }
  2: { apply (run_op_wf_in spec_table_s spec_table_s_refined spec_table_s_good e h (OLit v) W). exact O. }
  cbn [wf_op_x] in O. destruct (is_search f) eqn:S.
  2: { apply (run_op_wf_in spec_table_s spec_table_s_refined spec_table_s_good e h (OCall f l) W). exact O. }
  pose proof (op_fuel_safe_sound _ _ F) as NF. cbn [op_no_fuel] in NF.
  apply andb_true_iff in O. destruct O as [L Nd]. cbn [fst] in Nd.
  pose proof W as W0. apply wf_state_split in W. destruct W as [We Wh].
  destruct (eval_args_ok e h l We L) as (vs & Ev & Vs). rewrite Ev in NF, Nd.
  assert (A : forallb (aval_ok (abs h)) vs = true) by (rewrite (forallb_eq _ (val_ok h)); [exact Vs | intros; apply aval_ok_abs]).
  unfold is_search in S. destruct (search_rq f) as [rq|] eqn:R; [|discriminate].
  pose proof (search_rq_refines f rq R vs h NF) as So.
  destruct (search_rq_good f rq R vs (abs h) A Nd _ So) as (r & E & Sc).
  unfold abs_call in E. destruct (lib f vs h) as [r0 h'] eqn:Lib. cbn [fst snd] in E.
  destruct (res_abs r0) as [s|] eqn:Rs; [|discriminate]. inversion E as [[E1 E2]]. subst s. apply abs_inj in E2. subst h'.
  exists (sres_value r), h. cbn [run_op]. rewrite Ev, Lib, wrapper_res_abs, Rs. cbn [option_map]. split; [reflexivity|]. split; [|lia].
  apply wf_state_split. split; [|exact Wh]. rewrite forallb_app. cbn [forallb]. rewrite We, (scalar_val_ok h _ Sc). reflexivity.
Qed.

Lemma wf_op_x_in : forall st o, wf_op_x st o = true -> op_in_OPS_x o = true.
Proof.
  intros st o H. destruct o as [f l|n|v]; [|reflexivity|reflexivity]. cbn [wf_op_x op_in_OPS_x] in *. unfold in_OPS_x.
  destruct (is_search f); [apply orb_true_r|]. apply andb_true_iff in H. destruct H as [-> _]. reflexivity.
Qed.

Theorem history_results_x : forall ops e h, wf_state (e, h) = true -> wf_hist_x ops (e, h) = true ->
  fuel_safe ops (Some (e, h)) = true ->
  exists rs h', run_ops ops (e, h) = Some (e ++ rs, h') /\ runR (Some (e, abs h)) ops (Some (e ++ rs, abs h'))
                /\ length rs = length ops /\ wf_state (e ++ rs, h') = true /\ (length h <= length h')%nat.
Proof.
  intros ops e h W H F.
  assert (P : exists rs h', run_ops ops (e, h) = Some (e ++ rs, h') /\ length rs = length ops
                /\ wf_state (e ++ rs, h') = true /\ (length h <= length h')%nat /\ forallb op_in_OPS_x ops = true).
  { unfold run_ops. revert e h W H F. induction ops as [|o ops IH]; intros e h W H F.
    - exists [], h. rewrite app_nil_r. simpl. auto.
    - cbn [wf_hist_x] in H. apply andb_true_iff in H. destruct H as [O H].
      cbn [fuel_safe] in F. apply andb_true_iff in F. destruct F as [Fo F].
      destruct (run_op_wf_x e h o W O Fo) as (v & h1 & R & W1 & L1). rewrite R in H, F.
      destruct (IH _ _ W1 H F) as (rs & h' & R' & Lr & W' & L' & Os).
      exists (v :: rs), h'.
      change (fold_left run_op (o :: ops) (Some (e, h))) with (fold_left run_op ops (run_op (Some (e, h)) o)).
      rewrite <- !app_assoc in *. cbn [app length forallb] in *.
      rewrite (wf_op_x_in _ _ O), Os. split; [rewrite R; exact R'|]. repeat split; auto; lia. }
  destruct P as (rs & h' & R & L & W' & Gr & O). exists rs, h'. split; [exact R|]. split; [|auto].
  pose proof (history_search_checked ops (Some (e, h)) O F) as Q. unfold run_ops in R. rewrite R in Q. exact Q.
Qed.
