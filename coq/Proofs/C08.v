(* Proofs/C08.v — the statement loop of the interpreter model: label lookup, the per-invocation label cache. *)
From Coq Require Import Lia.
From BS Require Import Model.Base Model.Num Model.Arith Model.ExprParser Model.Script Model.Interp Proofs.InterpEq.

(* ---- find_label: the FIRST label of that name in the list ---- *)
Fixpoint find_from (name : str) (l : list stmt) (i : nat) : option nat :=
  match l with
  | [] => None
  | SLabel n :: t => if str_eqb n name then Some i else find_from name t (S i)
  | _ :: t => find_from name t (S i)
  end.

Lemma find_label_unfold name code : find_label name code = find_from name code 0.
Proof.
  unfold find_label. generalize 0. induction code as [|s l IH]; intros i; [reflexivity|].
  destruct s; cbn; try apply IH. destruct (str_eqb name0 name); [reflexivity|apply IH].
Qed.

Lemma str_eqb_refl s : str_eqb s s = true.
Proof. induction s as [|c s IH]; cbn; [reflexivity|]. rewrite N.eqb_refl. exact IH. Qed.

Lemma str_eqb_eq a b : str_eqb a b = true -> a = b.
Proof.
  revert b. induction a as [|x a IH]; intros [|y b]; cbn; try discriminate; [reflexivity|].
  destruct (N.eqb_spec x y); [|discriminate]. intros H. subst. f_equal. apply IH. exact H.
Qed.

Definition is_label (name : str) (s : stmt) : bool :=
  match s with SLabel n => str_eqb n name | _ => false end.

Lemma find_from_spec name l : forall i k,
  find_from name l i = Some k ->
  i <= k /\ (exists s, nth_error l (k - i) = Some s /\ is_label name s = true) /\
  (forall j s, j < k - i -> nth_error l j = Some s -> is_label name s = false).
Proof.
  induction l as [|s l IH]; intros i k H; cbn in H; [discriminate|].
  assert (Hstep : is_label name s = false -> find_from name l (S i) = Some k ->
                  i <= k /\ (exists s0, nth_error (s :: l) (k - i) = Some s0 /\ is_label name s0 = true) /\
                  (forall j s0, j < k - i -> nth_error (s :: l) j = Some s0 -> is_label name s0 = false)).
  { intros Hs Hf. destruct (IH _ _ Hf) as (Hle & (s0 & Hn & Hl) & Hmin).
    split; [lia|]. replace (k - i) with (S (k - S i)) by lia. split.
    - exists s0. cbn. auto.
    - intros j s1 Hj Hnj. destruct j as [|j]; cbn in Hnj.
      + injection Hnj as <-. exact Hs.
      + apply (Hmin j); [lia|exact Hnj]. }
  destruct s; try (apply Hstep; [reflexivity|exact H]).
  destruct (str_eqb name0 name) eqn:E.
  - injection H as <-. split; [lia|]. replace (i - i) with 0 by lia. split.
    + exists (SLabel name0). cbn. rewrite E. auto.
    + intros j s0 Hj. lia.
  - apply Hstep; [cbn; exact E|exact H].
Qed.

(* a taken jump continues after the first label of that name: index k holds the label and no earlier statement does *)
Theorem find_label_first name code k :
  find_label name code = Some k ->
  nth_error code k = Some (SLabel name) /\
  forall j, j < k -> nth_error code j <> Some (SLabel name).
Proof.
  rewrite find_label_unfold. intros H. destruct (find_from_spec _ _ _ _ H) as (_ & (s & Hn & Hl) & Hmin).
  replace (k - 0) with k in * by lia. split.
  - destruct s; cbn in Hl; try discriminate. apply str_eqb_eq in Hl. subst. exact Hn.
  - intros j Hj Hc. specialize (Hmin j _ Hj Hc). cbn in Hmin. rewrite str_eqb_refl in Hmin. discriminate.
Qed.

Lemma find_from_none name l : forall i, find_from name l i = None -> forall j s, nth_error l j = Some s -> is_label name s = false.
Proof.
  induction l as [|s l IH]; intros i H j s0 Hn; [destruct j; discriminate|].
  cbn in H. destruct j as [|j]; cbn in Hn.
  - injection Hn as <-. destruct s; try reflexivity. cbn. destruct (str_eqb name0 name); [discriminate|reflexivity].
  - destruct s; try (eapply IH; eassumption).
    destruct (str_eqb name0 name); [discriminate|]. eapply IH; eassumption.
Qed.

Theorem find_label_none name code :
  find_label name code = None -> forall j, nth_error code j <> Some (SLabel name).
Proof.
  rewrite find_label_unfold. intros H j Hc. pose proof (find_from_none _ _ _ H _ _ Hc) as E. cbn in E.
  rewrite str_eqb_refl in E. discriminate.
Qed.

(* ---- the label cache ---- *)
Section Cache.
Variable cfg : config.
Variable lib : caller -> str -> list value -> world -> lres * world.
Variable url_rel : str -> str -> str.
Variable lint_lines : script -> list str.

Notation exec := (exec cfg lib url_rel lint_lines).
Notation eval := (eval cfg lib url_rel lint_lines).

(* every cached entry is what the lookup would find *)
Definition cache_ok (code : list stmt) (cache : list (str * nat)) : Prop :=
  forall l i, assoc l cache = Some i -> find_label l code = Some i.

Lemma cache_ok_nil code : cache_ok code [].
Proof. intros l i H. discriminate. Qed.

Lemma cache_ok_cons code cache l i : cache_ok code cache -> find_label l code = Some i -> cache_ok code ((l, i) :: cache).
Proof.
  intros Hc Hf l' i' H. cbn in H. destruct (str_eqb l' l) eqn:E.
  - injection H as <-. apply str_eqb_eq in E. subst. exact Hf.
  - apply Hc. exact H.
Qed.

(* the cache never changes what a run does: with any sound cache the loop behaves as with an empty one,
   i.e. as the cache-free "search the list for the first label" semantics *)
Lemma exec_cache_irrelevant : forall fuel code pc cache loc um w,
  cache_ok code cache -> exec fuel code pc cache loc um w = exec fuel code pc [] loc um w.
Proof.
  induction fuel as [|f IH]; intros code pc cache loc um w Hc; [reflexivity|].
  rewrite !exec_S. unfold exec_body.
  destruct (nth_error code pc) as [st|]; [|reflexivity].
  match goal with |- context [if ?b then _ else _] => destruct b end; [reflexivity|].
  destruct st as [name e|label cond|re|lname|fname fargs fasync flast fbody|incs].
  - (* SExpr *)
    match goal with |- context [Interp.eval cfg lib url_rel lint_lines f e loc false um ?w'] =>
      destruct (Interp.eval cfg lib url_rel lint_lines f e loc false um w') as [o w1] end.
    destruct o; try reflexivity.
    destruct name as [x|]; [destruct loc as [l|]|]; apply IH; exact Hc.
  - (* SJump *)
    assert (Hjump : forall w1,
      match assoc label cache with
      | Some ix => exec f code (S ix) cache loc um w1
      | None => match find_label label code with
                | Some ix => exec f code (S ix) ((label, ix) :: cache) loc um w1
                | None => (ORt (msg_unknown_label label), loc, w1)
                end
      end =
      match assoc label [] with
      | Some ix => exec f code (S ix) [] loc um w1
      | None => match find_label label code with
                | Some ix => exec f code (S ix) ((label, ix) :: []) loc um w1
                | None => (ORt (msg_unknown_label label), loc, w1)
                end
      end).
    { intros w1. destruct (assoc label cache) as [ix|] eqn:Ea.
      + rewrite (Hc _ _ Ea). cbn [assoc].
        rewrite (IH code (S ix) cache loc um w1 Hc).
        symmetry. apply IH. apply cache_ok_cons; [apply cache_ok_nil|apply Hc; exact Ea].
      + cbn [assoc]. destruct (find_label label code) as [ix|] eqn:Ef; [|reflexivity].
        rewrite (IH code (S ix) ((label, ix) :: cache) loc um w1 (cache_ok_cons _ _ _ _ Hc Ef)).
        symmetry. apply IH. apply cache_ok_cons; [apply cache_ok_nil|exact Ef]. }
    destruct cond as [c|].
    + match goal with |- context [Interp.eval cfg lib url_rel lint_lines f c loc false um ?w'] =>
        destruct (Interp.eval cfg lib url_rel lint_lines f c loc false um w') as [o w1] end.
      destruct o; try reflexivity.
      destruct (truthy w1 v); [apply Hjump|apply IH; exact Hc].
    + apply Hjump.
  - (* SReturn *) reflexivity.
  - (* SLabel *) apply IH; exact Hc.
  - (* SFunction *) apply IH; exact Hc.
  - (* SInclude *)
    match goal with |- context [run_incs cfg url_rel lint_lines ?ex um incs ?w'] =>
      destruct (run_incs cfg url_rel lint_lines ex um incs w') as [[o|] w1] end; [reflexivity|].
    apply IH; exact Hc.
Qed.

(* a taken jump to a label that the list does not define is the "Unknown jump label" runtime error *)
Lemma exec_unknown_label : forall f code pc cache loc um w label,
  cache_ok code cache ->
  nth_error code pc = Some (SJump label None) ->
  find_label label code = None ->
  ((0 <? c_max cfg)%Z && (c_max cfg <? w_count w + 1)%Z) = false ->
  fst (fst (exec (S f) code pc cache loc um w)) = ORt (msg_unknown_label label).
Proof.
  intros f code pc cache loc um w label Hc Hn Hf Hb.
  rewrite exec_S. unfold exec_body. rewrite Hn. cbn [w_count upd_count]. rewrite Hb.
  destruct (assoc label cache) as [ix|] eqn:Ea.
  - rewrite (Hc _ _ Ea) in Hf. discriminate.
  - rewrite Hf. reflexivity.
Qed.

(* a taken unconditional jump continues right after the first label of that name *)
Lemma exec_jump_first_label : forall f code pc loc um w label k,
  nth_error code pc = Some (SJump label None) ->
  find_label label code = Some k ->
  ((0 <? c_max cfg)%Z && (c_max cfg <? w_count w + 1)%Z) = false ->
  exec (S f) code pc [] loc um w = exec f code (S k) [] loc um (upd_count w (w_count w + 1)).
Proof.
  intros f code pc loc um w label k Hn Hf Hb.
  rewrite exec_S. unfold exec_body. rewrite Hn. cbn [w_count upd_count]. rewrite Hb. cbn [assoc]. rewrite Hf.
  apply exec_cache_irrelevant. apply cache_ok_cons; [apply cache_ok_nil|exact Hf].
Qed.

(* running off the end of the list returns null *)
Lemma exec_end : forall f code pc cache loc um w, nth_error code pc = None -> exec (S f) code pc cache loc um w = (OVal VNull, loc, w).
Proof. intros. rewrite exec_S. unfold exec_body. rewrite H. reflexivity. Qed.

(* `return` ends the current list with its value (null without an expression), whatever follows it *)
Lemma exec_return_none : forall f code pc cache loc um w,
  nth_error code pc = Some (SReturn None) ->
  ((0 <? c_max cfg)%Z && (c_max cfg <? w_count w + 1)%Z) = false ->
  exec (S f) code pc cache loc um w = (OVal VNull, loc, upd_count w (w_count w + 1)).
Proof. intros. rewrite exec_S. unfold exec_body. rewrite H. cbn [w_count upd_count]. rewrite H0. reflexivity. Qed.

Lemma exec_return_some : forall f code pc cache loc um w e,
  nth_error code pc = Some (SReturn (Some e)) ->
  ((0 <? c_max cfg)%Z && (c_max cfg <? w_count w + 1)%Z) = false ->
  exec (S f) code pc cache loc um w =
  (let '(o, w1) := eval f e loc false um (upd_count w (w_count w + 1)) in (o, loc, w1)).
Proof. intros. rewrite exec_S. unfold exec_body. rewrite H. cbn [w_count upd_count]. rewrite H0. reflexivity. Qed.

(* a function statement binds a global function and goes on with the next statement *)
Lemma exec_function_binds : forall f code pc cache loc um w name args asy last body,
  nth_error code pc = Some (SFunction name args asy last body) ->
  ((0 <? c_max cfg)%Z && (c_max cfg <? w_count w + 1)%Z) = false ->
  exists w1, exec (S f) code pc cache loc um w = exec f code (S pc) cache loc um w1 /\
             env_get name (w_globals w1) = Some (VFun (FScript (length (w_funs w)))) /\
             nth_error (w_funs w1) (length (w_funs w)) = Some {| fd_name := name; fd_args := args; fd_last := last; fd_body := body |}.
Proof.
  intros. rewrite exec_S. unfold exec_body. rewrite H. cbn [w_count upd_count]. rewrite H0.
  eexists. split; [reflexivity|]. cbn [w_globals upd_globals upd_funs upd_count w_funs]. split.
  - unfold env_get. generalize (w_globals w). induction e as [|[k v] t IHt]; cbn.
    + rewrite str_eqb_refl. reflexivity.
    + destruct (str_eqb name k) eqn:E; cbn; rewrite ?str_eqb_refl, ?E; [reflexivity|exact IHt].
  - rewrite nth_error_app2 by apply le_n. rewrite PeanoNat.Nat.sub_diag. reflexivity.
Qed.

(* a script function's body is run as its own list from index 0 with an empty cache: jumps never cross scopes *)
Lemma call_scope_local : forall f id args um w fd,
  nth_error (w_funs w) id = Some fd ->
  exists locals w1,
    call cfg lib url_rel lint_lines (S f) (VFun (FScript id)) args um w =
    (let '(o, _, w2) := exec f (fd_body fd) 0 [] (Some locals) um w1 in (o, w2)).
Proof.
  intros f id args um w fd H. rewrite call_S. unfold call_body. rewrite H.
  destruct (fd_args fd) as [names|].
  - destruct (bind_args names (length names) 0 (fd_last fd) args w []) as [locals w1] eqn:E.
    exists locals, w1. reflexivity.
  - exists [], w. reflexivity.
Qed.

End Cache.
