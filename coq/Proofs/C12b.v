(* Proofs/C12b.v — part of the C12 proofs (split so that the case analyses build in parallel) *)
From Coq Require Import Lia ZifyBool SpecFloat.
From BS Require Import Model.Base Model.Num Model.LibVal Gen.ArgSpecs Model.LibSeq Proofs.BaseFacts Proofs.C15 Proofs.C12.
Local Open Scope Z_scope.

Theorem spell_arraySlice_end : forall h a s n1 n2 rest, nsim n1 n2 ->
  lib (U "arraySlice") (a :: s :: VNum n1 :: rest) h = lib (U "arraySlice") (a :: s :: VNum n2 :: rest) h.
Proof. intros h a s n1 n2 rest H. spell (U "arraySlice") k_arraySlice n1 n2 H. Qed.
