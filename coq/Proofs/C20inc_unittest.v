(* the MODEL parser (Model/Script.v over the regenerated regexes) accepts the shipped include unittest.bare as it is in the
   tree now (text regenerated into Gen/Includes.v on every run); one file per include so that make -j runs them in parallel *)
From BS Require Import Model.Base Model.Script Model.Includes Gen.Inc_unittest.
Lemma parses_unittest : include_parses inc_unittest = true.
Proof. vm_cast_no_check (eq_refl true). Qed.
