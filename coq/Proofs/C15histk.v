(* Proofs/C15histk.v — C15 history with strings: the abstract string operations are total and PURE on well-formed states;
   well-formed OPS_S histories never get stuck (progress + preservation + same results), as C15histe/f for OPS. *)
From Coq Require Import Lia.
From BS Require Import Model.Base Model.Num Model.LibVal Gen.ArgSpecs Model.LibSeq Proofs.BaseFacts Proofs.C15 Proofs.C15spec
  Proofs.C15hist Proofs.C15histd Proofs.C15histe Proofs.C15histf Proofs.C15spec2 Proofs.C15histg.
Local Open Scope Z_scope.

(* ---- every string operation, on ANY state: defined, and either the state is unchanged and the result is a scalar, or (stringSplit)
   one fresh sequence of strings is bound and returned *)
Definition sp_pure (g : spfun) : Prop := forall args m,
  exists r m', g args m = Some (r, m') /\
    ((m' = m /\ scalar_val (sres_value r) = true)
     \/ (exists ps : list str, m' = m ++ [(length m, ASeq (map VStr ps))] /\ r = SOk (VArr (length m)))).

Ltac pure_tac :=
  intros args m; cbv zeta;
  repeat match goal with |- context [match ?x with _ => _ end] => destruct x end;
  unfold bad_index, ok, fail, failv;
  repeat match goal with |- context [match ?x with _ => _ end] => destruct x end;
  try (do 2 eexists; split; [reflexivity | left; split; reflexivity]).

Lemma pure_stringLength : sp_pure sp_stringLength. Proof. unfold sp_stringLength. pure_tac. Qed.
Lemma pure_stringCharCodeAt : sp_pure sp_stringCharCodeAt. Proof. unfold sp_stringCharCodeAt. pure_tac. Qed.
Lemma pure_stringStartsWith : sp_pure sp_stringStartsWith. Proof. unfold sp_stringStartsWith. pure_tac. Qed.
Lemma pure_stringEndsWith : sp_pure sp_stringEndsWith. Proof. unfold sp_stringEndsWith. pure_tac. Qed.
Lemma pure_stringIndexOf : sp_pure sp_stringIndexOf. Proof. unfold sp_stringIndexOf, sp_indexOf_at. pure_tac. Qed.
Lemma pure_stringLastIndexOf : sp_pure sp_stringLastIndexOf. Proof. unfold sp_stringLastIndexOf, sp_lastIndexOf_at. pure_tac. Qed.
Lemma pure_stringRepeat : sp_pure sp_stringRepeat. Proof. unfold sp_stringRepeat. pure_tac. Qed.
Lemma pure_stringReplace : sp_pure sp_stringReplace. Proof. unfold sp_stringReplace. pure_tac. Qed.
Lemma pure_stringSlice : sp_pure sp_stringSlice. Proof. unfold sp_stringSlice. pure_tac. Qed.
Lemma pure_stringTrim : sp_pure sp_stringTrim. Proof. unfold sp_stringTrim. pure_tac. Qed.
Lemma pure_stringFromCharCode : sp_pure sp_stringFromCharCode. Proof. unfold sp_stringFromCharCode. pure_tac. Qed.
Lemma pure_regexEscape : sp_pure sp_regexEscape. Proof. unfold sp_regexEscape. pure_tac. Qed.
Lemma pure_urlEncode : sp_pure (sp_urlEncodeGen (U "urlEncode")).
Proof. unfold sp_urlEncodeGen. change (url_safe_of (U "urlEncode")) with (Some (U "':/&+")). pure_tac. Qed.
Lemma pure_urlEncodeComponent : sp_pure (sp_urlEncodeGen (U "urlEncodeComponent")).
Proof. unfold sp_urlEncodeGen. change (url_safe_of (U "urlEncodeComponent")) with (Some (U "'")). pure_tac. Qed.
Lemma pure_stringSplit : sp_pure sp_stringSplit.
Proof.
  unfold sp_stringSplit. pure_tac.
  unfold alloc_ret, aalloc. do 2 eexists. split; [reflexivity|]. right. eexists. split; reflexivity.
Qed.

Theorem string_table_pure : forall f, in_tbl string_table f = true -> sp_pure (call_in string_table f).
Proof.
  intros f. unfold in_tbl, call_in, string_table. cbn [assoc].
  repeat match goal with
  | |- context [str_eqb f ?s] =>
      let E := fresh "E" in
      destruct (str_eqb f s) eqn:E;
      [ intros _;
        first [ exact pure_stringCharCodeAt | exact pure_stringEndsWith | exact pure_stringStartsWith | exact pure_stringFromCharCode
              | exact pure_stringIndexOf | exact pure_stringLastIndexOf | exact pure_stringLength | exact pure_stringRepeat
              | exact pure_stringReplace | exact pure_stringSlice | exact pure_stringSplit | exact pure_stringTrim
              | exact pure_regexEscape | exact pure_urlEncode | exact pure_urlEncodeComponent ]
      | clear E ]
  end.
  discriminate.
Qed.

(* ---- hence one of the three outcomes of C15histe *)
Lemma scalar_aval_ok : forall m v, scalar_val v = true -> aval_ok m v = true.
Proof. intros m v H. destruct v; simpl in *; auto; discriminate. Qed.
Lemma strs_ok : forall m ps, forallb (aval_ok m) (map VStr ps) = true.
Proof. induction ps; simpl; auto. Qed.
Lemma pure_good : forall g, sp_pure g -> sp_good g.
Proof.
  intros g P args m W A. destruct (P args m) as (r & m' & E & [[Em S]|(ps & Em & Er)]); exists r, m'; (split; [exact E|]); subst.
  - apply O_same; [reflexivity | apply scalar_aval_ok; exact S].
  - eapply (O_new _ _ _ (ASeq (map VStr ps))); [reflexivity | apply strs_ok | reflexivity].
Qed.

Definition tbl_good (tbl : list (str * spfun)) : Prop := forall f, in_tbl tbl f = true -> sp_good (call_in tbl f).
Theorem spec_table_s_good : tbl_good spec_table_s.
Proof.
  intros f. unfold in_tbl, call_in, spec_table_s. rewrite assoc_app. intros I.
  destruct (assoc f spec_table) as [g|] eqn:E.
  - pose proof (spec_call_good f) as G. unfold in_OPS, spec_call in G. rewrite E in G. apply G. reflexivity.
  - apply pure_good. pose proof (string_table_pure f) as P. unfold in_tbl, call_in in P. apply P. exact I.
Qed.

(* ---- progress / preservation over any refined, good table *)
Lemma run_op_wf_in : forall tbl, tbl_refined tbl -> tbl_good tbl ->
  forall e h o, wf_state (e, h) = true -> wf_op_in tbl (e, h) o = true ->
  exists v h', run_op (Some (e, h)) o = Some (e ++ [v], h') /\ wf_state (e ++ [v], h') = true /\ (length h <= length h')%nat.
Proof.
  intros tbl T G e h o W O. apply wf_state_split in W. destruct W as [We Wh]. destruct o as [f l|n|v]; simpl in O.
  - apply andb_true_iff in O. destruct O as [F L].
    destruct (eval_args_ok e h l We L) as (vs & Ev & Vs).
    assert (A : forallb (aval_ok (abs h)) vs = true) by (rewrite (forallb_eq _ (val_ok h)); [exact Vs | intros; apply aval_ok_abs]).
    destruct (G f F vs (abs h) Wh A) as (r & m' & S & Out).
    destruct (outcome_sound _ _ _ Wh Out) as (W' & X & V' & Len).
    pose proof (T f F vs h) as R. rewrite S in R. unfold abs_call in R.
    destruct (lib f vs h) as [r0 h'] eqn:Lib. simpl in R. destruct (res_abs r0) as [s|] eqn:Rs; [|discriminate].
    inversion R; subst s m'. clear R.
    exists (sres_value r), h'. simpl. rewrite Ev, Lib, wrapper_res_abs, Rs. simpl. split; [reflexivity|].
    rewrite !abs_length in Len. split; [|exact Len].
    apply wf_state_split. split; [|exact W'].
    rewrite forallb_app. simpl. rewrite <- aval_ok_abs, V'. rewrite andb_true_r.
    apply forallb_forall. intros x I. rewrite forallb_forall in We. eapply val_ok_grows; eauto.
  - apply Nat.ltb_lt in O. destruct (nth_error e n) as [v|] eqn:N; [|apply nth_error_None in N; lia].
    exists v, h. simpl. rewrite N. split; [reflexivity|]. split; [|lia]. apply wf_state_split. split; [|exact Wh].
    rewrite forallb_app. simpl. rewrite We. rewrite forallb_forall in We. rewrite (We v (nth_error_In _ _ N)). reflexivity.
  - exists v, h. simpl. split; [reflexivity|]. split; [|lia]. apply wf_state_split. split; [|exact Wh].
    rewrite forallb_app. simpl. rewrite We, O. reflexivity.
Qed.

Lemma wf_op_in_tbl : forall tbl st o, wf_op_in tbl st o = true -> op_in_tbl tbl o = true.
Proof. intros tbl st o H. destruct o; simpl in *; auto. apply andb_true_iff in H. tauto. Qed.

Theorem history_results_in : forall tbl, tbl_refined tbl -> tbl_good tbl ->
  forall ops e h, wf_state (e, h) = true -> wf_hist_in tbl ops (e, h) = true ->
  exists rs h', run_ops ops (e, h) = Some (e ++ rs, h')
                /\ fold_left (step_in tbl) ops (Some (e, abs h)) = Some (e ++ rs, abs h')
                /\ length rs = length ops /\ wf_state (e ++ rs, h') = true /\ (length h <= length h')%nat.
Proof.
  intros tbl T G ops e h W H.
  assert (P : exists rs h', run_ops ops (e, h) = Some (e ++ rs, h') /\ length rs = length ops
                /\ wf_state (e ++ rs, h') = true /\ (length h <= length h')%nat /\ forallb (op_in_tbl tbl) ops = true).
  { unfold run_ops. revert e h W H. induction ops as [|o ops IH]; intros e h W H.
    - exists [], h. rewrite app_nil_r. simpl. auto.
    - cbn [wf_hist_in] in H. apply andb_true_iff in H. destruct H as [O H].
      destruct (run_op_wf_in tbl T G e h o W O) as (v & h1 & R & W1 & L1). rewrite R in H.
      destruct (IH _ _ W1 H) as (rs & h' & R' & Lr & W' & L' & Os).
      exists (v :: rs), h'.
      change (fold_left run_op (o :: ops) (Some (e, h))) with (fold_left run_op ops (run_op (Some (e, h)) o)).
      rewrite <- !app_assoc in *. cbn [app length forallb] in *.
      rewrite (wf_op_in_tbl _ _ _ O), Os. split; [rewrite R; exact R'|]. repeat split; auto; lia. }
  destruct P as (rs & h' & R & L & W' & Gr & O). exists rs, h'. split; [exact R|]. split; [|auto].
  pose proof (history_refines_in tbl T ops (Some (e, h)) O) as Q. unfold run_ops in R. rewrite R in Q. simpl in Q. symmetry. exact Q.
Qed.

Theorem history_results_s : forall ops e h, wf_state (e, h) = true -> wf_hist_s ops (e, h) = true ->
  exists rs h', run_ops ops (e, h) = Some (e ++ rs, h') /\ spec_run_s ops (e, abs h) = Some (e ++ rs, abs h')
                /\ length rs = length ops /\ wf_state (e ++ rs, h') = true /\ (length h <= length h')%nat.
Proof. exact (history_results_in spec_table_s spec_table_s_refined spec_table_s_good). Qed.
