(* Proofs/C18.v — lint (Model/Lint.v): totality, label / redefinition exactness, the tie to the runtime's label lookup. *)
From Coq Require Import Lia.
From BS Require Import Model.Base Model.Num Model.Arith Model.ExprParser Model.Script Model.Interp Model.Lint Proofs.InterpEq Proofs.C08.

Example lint_demo :
  map render (lint [SLabel (U "a"); SJump (U "b") None; SLabel (U "a"); SExpr None (EVar (U "x"))]) =
  [U "Redefinition of global label ""a"" (index 2)"; U "Pointless global statement (index 3)";
   U "Unused global label ""a"" (index 0)"; U "Unknown global label ""b"" (index 1)"].
Proof. vm_compute. reflexivity. Qed.

(* ================= dicts ================= *)
Lemma str_eqb_sym a b : str_eqb a b = str_eqb b a.
Proof.
  destruct (str_eqb a b) eqn:E.
  - apply str_eqb_eq in E. subst. symmetry. apply str_eqb_refl.
  - destruct (str_eqb b a) eqn:E2; [|reflexivity]. apply str_eqb_eq in E2. subst. rewrite str_eqb_refl in E. discriminate.
Qed.

Lemma str_eqb_neq a b : str_eqb a b = false -> a <> b.
Proof. intros H ->. rewrite str_eqb_refl in H. discriminate. Qed.

Lemma assoc_app {A} k (d1 d2 : list (str * A)) :
  assoc k (d1 ++ d2) = match assoc k d1 with Some v => Some v | None => assoc k d2 end.
Proof. induction d1 as [|[k' v'] t IH]; cbn; [reflexivity|]. destruct (str_eqb k k'); [reflexivity|exact IH]. Qed.

Lemma assoc_d_set k lb ix d : assoc k (d_set lb ix d) = if str_eqb k lb then Some ix else assoc k d.
Proof.
  induction d as [|[k' v'] t IH]; cbn.
  - destruct (str_eqb k lb); reflexivity.
  - destruct (str_eqb lb k') eqn:E; cbn.
    + apply str_eqb_eq in E. subst k'. destruct (str_eqb k lb); reflexivity.
    + destruct (str_eqb k k') eqn:E2.
      * apply str_eqb_eq in E2. subst k'. rewrite str_eqb_sym, E. reflexivity.
      * exact IH.
Qed.

Lemma assoc_in_keys k (d : dict) : In k (map fst d) -> exists v, assoc k d = Some v.
Proof.
  induction d as [|[k' v'] t IH]; cbn; [tauto|]. intros [<-|H].
  - rewrite str_eqb_refl. eauto.
  - destruct (str_eqb k k'); eauto.
Qed.

Lemma assoc_some_in_keys k (d : dict) v : assoc k d = Some v -> In k (map fst d).
Proof.
  induction d as [|[k' v'] t IH]; cbn; [discriminate|]. destruct (str_eqb k k') eqn:E.
  - apply str_eqb_eq in E. auto.
  - auto.
Qed.

Lemma in_ins_key x k l : In x (ins_key k l) <-> x = k \/ In x l.
Proof.
  induction l as [|h t IH]; cbn; [intuition congruence|]. destruct (str_compare k h); cbn; rewrite ?IH; intuition congruence.
Qed.

Lemma in_sorted_keys x d : In x (sorted_keys d) <-> In x (map fst d).
Proof.
  unfold sorted_keys. induction (map fst d) as [|k t IH]; cbn; [tauto|]. rewrite in_ins_key, IH. intuition congruence.
Qed.

Lemma d_has_true k d : d_has k d = true <-> exists v, assoc k d = Some v.
Proof. unfold d_has. destruct (assoc k d); split; intros H; eauto; try discriminate. destruct H; discriminate. Qed.
Lemma d_has_false k d : d_has k d = false <-> assoc k d = None.
Proof. unfold d_has. destruct (assoc k d); split; intros H; auto; discriminate. Qed.

(* ================= for_keys and the two dict-driven warning loops ================= *)
Lemma for_keys_total keys body : (forall k, In k keys -> body k <> None) -> for_keys keys body <> None.
Proof.
  induction keys as [|k t IH]; intros H; cbn; [discriminate|].
  destruct (body k) eqn:E; [|exfalso; apply (H k); cbn; auto].
  cbn. destruct (for_keys t body) eqn:E2; [discriminate|]. exfalso. apply IH; [|reflexivity]. intros k' Hk. apply H. cbn; auto.
Qed.

Lemma for_keys_in keys body ws w : for_keys keys body = Some ws ->
  (In w ws <-> exists k w1, In k keys /\ body k = Some w1 /\ In w w1).
Proof.
  revert ws. induction keys as [|k t IH]; intros ws H; cbn in H.
  - injection H as <-. split; [intros []|intros (k & w1 & [] & _)].
  - destruct (body k) as [w1|] eqn:E; [|discriminate]. cbn in H.
    destruct (for_keys t body) as [w2|] eqn:E2; [|discriminate]. injection H as <-.
    rewrite in_app_iff, (IH w2 eq_refl). split.
    + intros [Hw|(k' & w1' & Hk & Hb & Hw)]; [exists k, w1; cbn; auto|exists k', w1'; cbn; auto].
    + intros (k' & w1' & [<-|Hk] & Hb & Hw); [left; congruence|right; eauto].
Qed.

Lemma used_before_total asg uses skip mk : used_before asg uses skip mk <> None.
Proof.
  apply for_keys_total. intros v Hv. apply in_sorted_keys in Hv. destruct (assoc_in_keys _ _ Hv) as [a Ha].
  destruct (match skip with Some a0 => str_mem v a0 | None => false end); [discriminate|].
  destruct (d_has v uses) eqn:E; [|discriminate]. apply d_has_true in E. destruct E as [u Hu]. rewrite Hu, Ha. discriminate.
Qed.

Lemma used_before_form asg uses skip mk ws w : used_before asg uses skip mk = Some ws -> In w ws -> exists v u a, w = mk v u a.
Proof.
  intros H Hw. apply (for_keys_in _ _ _ w H) in Hw. destruct Hw as (k & w1 & _ & Hb & Hw).
  destruct (match skip with Some a0 => str_mem k a0 | None => false end); [injection Hb as <-; destruct Hw|].
  destruct (d_has k uses); [|injection Hb as <-; destruct Hw].
  destruct (assoc k uses) as [u|]; [|discriminate]. destruct (assoc k asg) as [a|]; [|discriminate].
  injection Hb as <-. destruct (Nat.leb u a); [|destruct Hw]. destruct Hw as [<-|[]]. eauto.
Qed.

Lemma keys_not_in_total d other mk : keys_not_in d other mk <> None.
Proof.
  apply for_keys_total. intros k Hk. apply in_sorted_keys in Hk. destruct (assoc_in_keys _ _ Hk) as [v Hv].
  destruct (d_has k other); [discriminate|]. rewrite Hv. discriminate.
Qed.

Lemma keys_not_in_in d other mk ws w : keys_not_in d other mk = Some ws ->
  (In w ws <-> exists k v, assoc k d = Some v /\ assoc k other = None /\ w = mk k v).
Proof.
  intros H. rewrite (for_keys_in _ _ _ w H). split.
  - intros (k & w1 & Hk & Hb & Hw). destruct (d_has k other) eqn:E; [injection Hb as <-; destruct Hw|].
    destruct (assoc k d) as [v|] eqn:Ev; [|discriminate]. injection Hb as <-. destruct Hw as [<-|[]].
    exists k, v. apply d_has_false in E. auto.
  - intros (k & v & Hd & Ho & ->). exists k, [mk k v]. split; [|split].
    + apply in_sorted_keys. eapply assoc_some_in_keys; eassumption.
    + apply d_has_false in Ho. rewrite Ho, Hd. reflexivity.
    + cbn; auto.
Qed.

(* ================= the label bookkeeping of a statement loop ================= *)
(* index of the LAST jump to [name] at or after position i *)
Fixpoint last_jump_from (name : str) (l : list stmt) (i : nat) : option nat :=
  match l with
  | [] => None
  | s :: t => match last_jump_from name t (S i) with
              | Some k => Some k
              | None => match s with SJump n _ => if str_eqb n name then Some i else None | _ => None end
              end
  end.
Definition last_jump (name : str) (code : list stmt) : option nat := last_jump_from name code 0.

(* label [lb] is already defined when the loop reaches index j of l: it was in the incoming dict or an earlier statement defines it *)
Definition seen_label (lb : str) (ldef : dict) (l : list stmt) (j : nat) : Prop :=
  assoc lb ldef <> None \/ exists j', j' < j /\ nth_error l j' = Some (SLabel lb).

Lemma seen_shift lb (ldef ldef' : dict) st t j :
  (assoc lb ldef' <> None <-> assoc lb ldef <> None \/ st = SLabel lb) ->
  (seen_label lb ldef' t j <-> seen_label lb ldef (st :: t) (S j)).
Proof.
  intros H. unfold seen_label. split.
  - intros [Ha|(j' & Hj & Hn)].
    + apply H in Ha. destruct Ha as [Ha| ->]; [left; exact Ha|right; exists 0; split; [lia|reflexivity]].
    + right. exists (S j'). split; [lia|exact Hn].
  - intros [Ha|(j' & Hj & Hn)].
    + left. apply H. left; exact Ha.
    + destruct j' as [|j']; cbn in Hn.
      * injection Hn as ->. left. apply H. right; reflexivity.
      * right. exists j'. split; [lia|exact Hn].
Qed.

Lemma seen_after_label lb lb0 (ldef : dict) ix :
  assoc lb (ldef ++ [(lb0, ix)]) <> None <-> assoc lb ldef <> None \/ SLabel lb0 = SLabel lb.
Proof.
  rewrite assoc_app. cbn. destruct (assoc lb ldef) as [v|]; [split; [left|]; discriminate|].
  destruct (str_eqb lb lb0) eqn:E.
  - apply str_eqb_eq in E. subst. split; [right; reflexivity|discriminate].
  - split; [intros H; exfalso; apply H; reflexivity|]. intros [H|H]; [exact H|]. injection H as ->. rewrite str_eqb_refl in E. discriminate.
Qed.

Lemma seen_same lb (ldef : dict) st : (forall lb0, st = SLabel lb0 -> assoc lb0 ldef <> None) ->
  (assoc lb ldef <> None <-> assoc lb ldef <> None \/ st = SLabel lb).
Proof. intros H. split; [left; assumption|]. intros [H1|H1]; [exact H1|]. apply (H lb H1). Qed.

(* dict state after a loop over l from index ix: first definition kept, last jump kept *)
Definition ldef_after (ldef : dict) (l : list stmt) (ix : nat) (ld : dict) : Prop :=
  forall k, assoc k ld = match assoc k ldef with Some i => Some i | None => find_from k l ix end.
Definition lused_after (lused : dict) (l : list stmt) (ix : nat) (lu : dict) : Prop :=
  forall k, assoc k lu = match last_jump_from k l ix with Some i => Some i | None => assoc k lused end.

Lemma ldef_after_label ldef lb t ix ld :
  ldef_after (if d_has lb ldef then ldef else ldef ++ [(lb, ix)]) t (S ix) ld -> ldef_after ldef (SLabel lb :: t) ix ld.
Proof.
  intros H k. rewrite (H k). cbn [find_from]. destruct (d_has lb ldef) eqn:E.
  - destruct (assoc k ldef) eqn:Ek; [reflexivity|]. destruct (str_eqb lb k) eqn:E2; [|reflexivity].
    apply str_eqb_eq in E2. subst. apply d_has_true in E. destruct E as [v Hv]. congruence.
  - rewrite assoc_app. cbn. destruct (assoc k ldef) eqn:Ek; [reflexivity|]. rewrite (str_eqb_sym k lb).
    destruct (str_eqb lb k); reflexivity.
Qed.

Lemma ldef_after_other ldef st t ix ld :
  (forall lb, st <> SLabel lb) -> ldef_after ldef t (S ix) ld -> ldef_after ldef (st :: t) ix ld.
Proof. intros Hs H k. rewrite (H k). destruct st; try reflexivity. exfalso. eapply Hs. reflexivity. Qed.

Lemma lused_after_jump lused lb c t ix lu :
  lused_after (d_set lb ix lused) t (S ix) lu -> lused_after lused (SJump lb c :: t) ix lu.
Proof.
  intros H k. rewrite (H k). cbn [last_jump_from]. destruct (last_jump_from k t (S ix)); [reflexivity|].
  rewrite assoc_d_set, (str_eqb_sym k lb). destruct (str_eqb lb k); reflexivity.
Qed.

Lemma lused_after_other lused st t ix lu :
  (forall lb c, st <> SJump lb c) -> lused_after lused t (S ix) lu -> lused_after lused (st :: t) ix lu.
Proof.
  intros Hs H k. rewrite (H k). cbn [last_jump_from]. destruct (last_jump_from k t (S ix)); [reflexivity|].
  destruct st; try reflexivity. exfalso. eapply Hs. reflexivity.
Qed.

(* ================= the function-body loop ================= *)
Definition fwarn (f : str) (ldef : dict) (l : list stmt) (ix : nat) (w : warning) : Prop :=
  exists j st, nth_error l j = Some st /\
    match st with
    | SExpr None e => pointless e = true /\ w = WFnPointless f (ix + j)
    | SLabel lb => w = WFnLabelRedef lb f (ix + j) /\ seen_label lb ldef l j
    | _ => False
    end.

Lemma floop_spec f : forall l ix ldef lused ws ld lu,
  floop f l ix ldef lused = (ws, ld, lu) ->
  ldef_after ldef l ix ld /\ lused_after lused l ix lu /\ (forall w, In w ws <-> fwarn f ldef l ix w).
Proof.
  induction l as [|st t IH]; intros ix ldef lused ws ld lu H.
  - cbn in H. injection H as <- <- <-. repeat split.
    + intros k. cbn. destruct (assoc k ldef); reflexivity.
    + intros []. + intros (j & st & Hn & _). destruct j; discriminate.
  - cbn [floop] in H.
    set (step := match st with
      | SExpr None e => (if pointless e then [WFnPointless f ix] else [], ldef, lused)
      | SLabel lb => if d_has lb ldef then ([WFnLabelRedef lb f ix], ldef, lused) else ([], ldef ++ [(lb, ix)], lused)
      | SJump lb _ => ([], ldef, d_set lb ix lused)
      | _ => ([], ldef, lused) end) in H.
    destruct step as [[ws0 ldef'] lused'] eqn:Estep.
    destruct (floop f t (S ix) ldef' lused') as [[rest d] u] eqn:E. injection H as <- <- <-.
    destruct (IH _ _ _ _ _ _ E) as (Hd & Hu & Hw).
    (* the warnings of st :: t = those of the head or those of the tail *)
    assert (Hcons : forall (P0 : Prop) w,
      (In w ws0 <-> P0) ->
      (P0 <-> match st with
              | SExpr None e => pointless e = true /\ w = WFnPointless f (ix + 0)
              | SLabel lb => w = WFnLabelRedef lb f (ix + 0) /\ seen_label lb ldef (st :: t) 0
              | _ => False end) ->
      (forall lb, assoc lb ldef' <> None <-> assoc lb ldef <> None \/ st = SLabel lb) ->
      (In w (ws0 ++ rest) <-> fwarn f ldef (st :: t) ix w)).
    { intros P0 w H0 H1 H2. rewrite in_app_iff, H0, H1, (Hw w). unfold fwarn. split.
      - intros [Hh|(j & st' & Hn & Hm)].
        + exists 0, st. split; [reflexivity|exact Hh].
        + exists (S j), st'. split; [exact Hn|]. replace (ix + S j) with (S ix + j) by lia.
          destruct st'; try exact Hm. destruct Hm as [-> Hs]. split; [reflexivity|]. apply (seen_shift _ _ _ _ _ _ (H2 name)). exact Hs.
      - intros (j & st' & Hn & Hm). destruct j as [|j]; cbn in Hn.
        + injection Hn as <-. left. exact Hm.
        + right. exists j, st'. split; [exact Hn|]. replace (S ix + j) with (ix + S j) by lia.
          destruct st'; try exact Hm. destruct Hm as [-> Hs]. split; [reflexivity|]. apply (seen_shift _ _ _ _ _ _ (H2 name)). exact Hs. }
    destruct st as [name e|label cond|re|lname|fname fargs fasync flast fbody|incs].
    + (* SExpr *)
      destruct name as [x|]; injection Estep as <- <- <-.
      * split; [apply ldef_after_other; [discriminate|exact Hd]|]. split; [apply lused_after_other; [discriminate|exact Hu]|].
        intros w. apply (Hcons False); [cbn; tauto|tauto|]. intros lb. apply seen_same. discriminate.
      * split; [apply ldef_after_other; [discriminate|exact Hd]|]. split; [apply lused_after_other; [discriminate|exact Hu]|].
        intros w. apply (Hcons (pointless e = true /\ w = WFnPointless f (ix + 0))); [|tauto|intros lb; apply seen_same; discriminate].
        rewrite Nat.add_0_r. destruct (pointless e); cbn; intuition congruence.
    + injection Estep as <- <- <-.
      split; [apply ldef_after_other; [discriminate|exact Hd]|]. split; [apply lused_after_jump; exact Hu|].
      intros w. apply (Hcons False); [cbn; tauto|tauto|]. intros lb. apply seen_same. discriminate.
    + injection Estep as <- <- <-.
      split; [apply ldef_after_other; [discriminate|exact Hd]|]. split; [apply lused_after_other; [discriminate|exact Hu]|].
      intros w. apply (Hcons False); [cbn; tauto|tauto|]. intros lb. apply seen_same. discriminate.
    + (* SLabel *)
      destruct (d_has lname ldef) eqn:Eh; injection Estep as <- <- <-.
      * split; [apply ldef_after_label; rewrite Eh; exact Hd|]. split; [apply lused_after_other; [discriminate|exact Hu]|].
        intros w. apply (Hcons (w = WFnLabelRedef lname f (ix + 0) /\ seen_label lname ldef (SLabel lname :: t) 0)).
        -- rewrite Nat.add_0_r. cbn. split; [intros [<-|[]]; split; [reflexivity|]|intros [-> _]; auto].
           left. apply d_has_true in Eh. destruct Eh as [v ->]. discriminate.
        -- tauto.
        -- intros lb. apply seen_same. intros lb0 Hl. injection Hl as <-. apply d_has_true in Eh. destruct Eh as [v ->]. discriminate.
      * split; [apply ldef_after_label; rewrite Eh; exact Hd|]. split; [apply lused_after_other; [discriminate|exact Hu]|].
        intros w. apply (Hcons False); [cbn; tauto| |intros lb; apply seen_after_label].
        split; [tauto|]. intros [_ [Hs|(j' & Hj & _)]]; [|lia]. apply d_has_false in Eh. congruence.
    + injection Estep as <- <- <-.
      split; [apply ldef_after_other; [discriminate|exact Hd]|]. split; [apply lused_after_other; [discriminate|exact Hu]|].
      intros w. apply (Hcons False); [cbn; tauto|tauto|]. intros lb. apply seen_same. discriminate.
    + injection Estep as <- <- <-.
      split; [apply ldef_after_other; [discriminate|exact Hd]|]. split; [apply lused_after_other; [discriminate|exact Hu]|].
      intros w. apply (Hcons False); [cbn; tauto|tauto|]. intros lb. apply seen_same. discriminate.
Qed.

(* ================= one function statement ================= *)
Lemma lint_function_some name args body ix :
  exists asg uses w1 w2 w4 ld lu w5 w6,
    collect body 0 [] [] = (asg, uses) /\
    used_before asg uses args (fun v u a => WVarUsedBefore v name u a) = Some w1 /\
    keys_not_in asg uses (fun v a => WUnusedVar v name a) = Some w2 /\
    floop name body 0 [] [] = (w4, ld, lu) /\
    keys_not_in ld lu (fun l i => WFnUnusedLabel l name i) = Some w5 /\
    keys_not_in lu ld (fun l i => WFnUnknownLabel l name i) = Some w6 /\
    lint_function name args body ix =
      Some (w1 ++ w2 ++ (match args with Some a => lint_args name ix a [] uses | None => [] end) ++ w4 ++ w5 ++ w6).
Proof.
  unfold lint_function. destruct (collect body 0 [] []) as [asg uses].
  destruct (used_before asg uses args (fun v u a => WVarUsedBefore v name u a)) as [w1|] eqn:E1; [|exfalso; eapply used_before_total; eassumption].
  destruct (keys_not_in asg uses (fun v a => WUnusedVar v name a)) as [w2|] eqn:E2; [|exfalso; eapply keys_not_in_total; eassumption].
  destruct (floop name body 0 [] []) as [[w4 ld] lu] eqn:E4.
  destruct (keys_not_in ld lu (fun l i => WFnUnusedLabel l name i)) as [w5|] eqn:E5; [|exfalso; eapply keys_not_in_total; eassumption].
  destruct (keys_not_in lu ld (fun l i => WFnUnknownLabel l name i)) as [w6|] eqn:E6; [|exfalso; eapply keys_not_in_total; eassumption].
  exists asg, uses, w1, w2, w4, ld, lu, w5, w6. cbn. repeat split; try assumption; reflexivity.
Qed.

Lemma lint_function_total name args body ix : lint_function name args body ix <> None.
Proof. destruct (lint_function_some name args body ix) as (? & ? & ? & ? & ? & ? & ? & ? & ? & _ & _ & _ & _ & _ & _ & ->). discriminate. Qed.

(* ================= the global loop ================= *)
Lemma str_mem_in x l : str_mem x l = true <-> In x l.
Proof.
  induction l as [|y t IH]; cbn; [split; [discriminate|tauto]|]. destruct (str_eqb x y) eqn:E; cbn.
  - apply str_eqb_eq in E. subst. tauto.
  - rewrite IH. split; [tauto|]. intros [->|H]; [rewrite str_eqb_refl in E; discriminate|exact H].
Qed.

Definition is_fn (name : str) (st : stmt) : Prop := exists a b c d, st = SFunction name a b c d.

Definition seen_fn (name : str) (fdef : list str) (l : list stmt) (j : nat) : Prop :=
  In name fdef \/ exists j' st, j' < j /\ nth_error l j' = Some st /\ is_fn name st.

Lemma seen_fn_shift name fdef fdef' st t j :
  (In name fdef' <-> In name fdef \/ is_fn name st) ->
  (seen_fn name fdef' t j <-> seen_fn name fdef (st :: t) (S j)).
Proof.
  intros H. unfold seen_fn. split.
  - intros [Ha|(j' & st' & Hj & Hn & Hf)].
    + apply H in Ha. destruct Ha as [Ha|Ha]; [left; exact Ha|right; exists 0, st; split; [lia|split; [reflexivity|exact Ha]]].
    + right. exists (S j'), st'. split; [lia|split; assumption].
  - intros [Ha|(j' & st' & Hj & Hn & Hf)].
    + left. apply H. left; exact Ha.
    + destruct j' as [|j']; cbn in Hn.
      * injection Hn as ->. left. apply H. right; exact Hf.
      * right. exists j', st'. split; [lia|split; assumption].
Qed.

Definition gwarn (fdef : list str) (ldef : dict) (l : list stmt) (ix : nat) (w : warning) : Prop :=
  exists j st, nth_error l j = Some st /\
    match st with
    | SFunction name args _ _ body =>
      (w = WFnRedef name (ix + j) /\ seen_fn name fdef l j) \/
      (exists wf, lint_function name args body (ix + j) = Some wf /\ In w wf)
    | SExpr None e => pointless e = true /\ w = WPointless (ix + j)
    | SLabel lb => w = WLabelRedef lb (ix + j) /\ seen_label lb ldef l j
    | _ => False
    end.

Lemma gloop_spec : forall l ix fdef ldef lused,
  exists ws ld lu, gloop l ix fdef ldef lused = Some (ws, ld, lu) /\
  ldef_after ldef l ix ld /\ lused_after lused l ix lu /\ (forall w, In w ws <-> gwarn fdef ldef l ix w).
Proof.
  induction l as [|st t IH]; intros ix fdef ldef lused.
  - exists [], ldef, lused. split; [reflexivity|]. repeat split.
    + intros k. cbn. destruct (assoc k ldef); reflexivity.
    + intros []. + intros (j & st & Hn & _). destruct j; discriminate.
  - cbn [gloop].
    assert (Hcons : forall ws0 fdef' ldef' (lused' : dict) rest (P0 : Prop) w,
      (forall w, In w rest <-> gwarn fdef' ldef' t (S ix) w) ->
      (In w ws0 <-> P0) ->
      (P0 <-> match st with
              | SFunction name args _ _ body =>
                (w = WFnRedef name (ix + 0) /\ seen_fn name fdef (st :: t) 0) \/
                (exists wf, lint_function name args body (ix + 0) = Some wf /\ In w wf)
              | SExpr None e => pointless e = true /\ w = WPointless (ix + 0)
              | SLabel lb => w = WLabelRedef lb (ix + 0) /\ seen_label lb ldef (st :: t) 0
              | _ => False end) ->
      (forall lb, assoc lb ldef' <> None <-> assoc lb ldef <> None \/ st = SLabel lb) ->
      (forall name, In name fdef' <-> In name fdef \/ is_fn name st) ->
      (In w (ws0 ++ rest) <-> gwarn fdef ldef (st :: t) ix w)).
    { intros ws0 fdef' ldef' lused' rest P0 w Hw H0 H1 H2 H3. rewrite in_app_iff, H0, H1, (Hw w). unfold gwarn. split.
      - intros [Hh|(j & st' & Hn & Hm)].
        + exists 0, st. split; [reflexivity|exact Hh].
        + exists (S j), st'. split; [exact Hn|]. replace (ix + S j) with (S ix + j) by lia.
          destruct st'; try exact Hm.
          * destruct Hm as [-> Hs]. split; [reflexivity|]. apply (seen_shift _ _ _ _ _ _ (H2 name)). exact Hs.
          * destruct Hm as [[-> Hs]|Hm]; [left; split; [reflexivity|]|right; exact Hm]. apply (seen_fn_shift _ _ _ _ _ _ (H3 name)). exact Hs.
      - intros (j & st' & Hn & Hm). destruct j as [|j]; cbn in Hn.
        + injection Hn as <-. left. exact Hm.
        + right. exists j, st'. split; [exact Hn|]. replace (S ix + j) with (ix + S j) by lia.
          destruct st'; try exact Hm.
          * destruct Hm as [-> Hs]. split; [reflexivity|]. apply (seen_shift _ _ _ _ _ _ (H2 name)). exact Hs.
          * destruct Hm as [[-> Hs]|Hm]; [left; split; [reflexivity|]|right; exact Hm]. apply (seen_fn_shift _ _ _ _ _ _ (H3 name)). exact Hs. }
    assert (Hnofn : forall name, (forall a b c d, st <> SFunction name a b c d) -> In name fdef <-> In name fdef \/ is_fn name st).
    { intros name Hs. split; [tauto|]. intros [H|(a & b & c & d & H)]; [exact H|]. exfalso. eapply Hs. exact H. }
    destruct st as [name e|label cond|re|lname|fname fargs fasync flast fbody|incs].
    + (* SExpr *)
      destruct name as [x|].
      * destruct (IH (S ix) fdef ldef lused) as (rest & d & u & -> & Hd & Hu & Hw). eexists _, d, u. split; [reflexivity|].
        split; [apply ldef_after_other; [discriminate|exact Hd]|]. split; [apply lused_after_other; [discriminate|exact Hu]|].
        intros w. apply (Hcons [] fdef ldef lused rest False w Hw); [cbn; tauto|tauto|intros lb; apply seen_same; discriminate|].
        intros nm. apply Hnofn. discriminate.
      * destruct (IH (S ix) fdef ldef lused) as (rest & d & u & -> & Hd & Hu & Hw). eexists _, d, u. split; [reflexivity|].
        split; [apply ldef_after_other; [discriminate|exact Hd]|]. split; [apply lused_after_other; [discriminate|exact Hu]|].
        intros w. apply (Hcons _ fdef ldef lused rest (pointless e = true /\ w = WPointless (ix + 0)) w Hw);
          [|tauto|intros lb; apply seen_same; discriminate|intros nm; apply Hnofn; discriminate].
        rewrite Nat.add_0_r. destruct (pointless e); cbn; intuition congruence.
    + destruct (IH (S ix) fdef ldef (d_set label ix lused)) as (rest & d & u & -> & Hd & Hu & Hw). eexists _, d, u. split; [reflexivity|].
      split; [apply ldef_after_other; [discriminate|exact Hd]|]. split; [apply lused_after_jump; exact Hu|].
      intros w. apply (Hcons [] fdef ldef lused rest False w Hw); [cbn; tauto|tauto|intros lb; apply seen_same; discriminate|].
      intros nm. apply Hnofn. discriminate.
    + destruct (IH (S ix) fdef ldef lused) as (rest & d & u & -> & Hd & Hu & Hw). eexists _, d, u. split; [reflexivity|].
      split; [apply ldef_after_other; [discriminate|exact Hd]|]. split; [apply lused_after_other; [discriminate|exact Hu]|].
      intros w. apply (Hcons [] fdef ldef lused rest False w Hw); [cbn; tauto|tauto|intros lb; apply seen_same; discriminate|].
      intros nm. apply Hnofn. discriminate.
    + (* SLabel *)
      destruct (d_has lname ldef) eqn:Eh.
      * destruct (IH (S ix) fdef ldef lused) as (rest & d & u & -> & Hd & Hu & Hw). eexists _, d, u. split; [reflexivity|].
        split; [apply ldef_after_label; rewrite Eh; exact Hd|]. split; [apply lused_after_other; [discriminate|exact Hu]|].
        intros w. apply (Hcons _ fdef ldef lused rest (w = WLabelRedef lname (ix + 0) /\ seen_label lname ldef (SLabel lname :: t) 0) w Hw).
        -- rewrite Nat.add_0_r. cbn. split; [intros [<-|[]]; split; [reflexivity|]|intros [-> _]; auto].
           left. apply d_has_true in Eh. destruct Eh as [v ->]. discriminate.
        -- tauto.
        -- intros lb. apply seen_same. intros lb0 Hl. injection Hl as <-. apply d_has_true in Eh. destruct Eh as [v ->]. discriminate.
        -- intros nm. apply Hnofn. discriminate.
      * destruct (IH (S ix) fdef (ldef ++ [(lname, ix)]) lused) as (rest & d & u & -> & Hd & Hu & Hw). eexists _, d, u. split; [reflexivity|].
        split; [apply ldef_after_label; rewrite Eh; exact Hd|]. split; [apply lused_after_other; [discriminate|exact Hu]|].
        intros w. apply (Hcons [] fdef _ lused rest False w Hw); [cbn; tauto| |intros lb; apply seen_after_label|intros nm; apply Hnofn; discriminate].
        split; [tauto|]. intros [_ [Hs|(j' & Hj & _)]]; [|lia]. apply d_has_false in Eh. congruence.
    + (* SFunction *)
      destruct (lint_function fname fargs fbody ix) as [wf|] eqn:Ef; [|exfalso; eapply lint_function_total; eassumption].
      destruct (str_mem fname fdef) eqn:Em.
      * destruct (IH (S ix) fdef ldef lused) as (rest & d & u & -> & Hd & Hu & Hw). eexists _, d, u. split; [reflexivity|].
        split; [apply ldef_after_other; [discriminate|exact Hd]|]. split; [apply lused_after_other; [discriminate|exact Hu]|].
        intros w. apply str_mem_in in Em.
        apply (Hcons (WFnRedef fname ix :: wf) fdef ldef lused rest (w = WFnRedef fname ix \/ In w wf) w Hw).
        -- cbn. intuition congruence.
        -- rewrite Nat.add_0_r, Ef. split.
           ++ intros [->|H]; [left; split; [reflexivity|left; exact Em]|right; exists wf; auto].
           ++ intros [[-> _]|(wf' & Hq & H)]; [left; reflexivity|right; congruence].
        -- intros lb. apply seen_same. discriminate.
        -- intros nm. split; [tauto|]. intros [H|(a & b & c & d0 & H)]; [exact H|]. injection H as <- _ _ _ _. exact Em.
      * destruct (IH (S ix) (fdef ++ [fname]) ldef lused) as (rest & d & u & -> & Hd & Hu & Hw). eexists _, d, u. split; [reflexivity|].
        split; [apply ldef_after_other; [discriminate|exact Hd]|]. split; [apply lused_after_other; [discriminate|exact Hu]|].
        intros w.
        apply (Hcons wf (fdef ++ [fname]) ldef lused rest (In w wf) w Hw).
        -- tauto.
        -- rewrite Nat.add_0_r, Ef. split.
           ++ intros H. right. exists wf. auto.
           ++ intros [[-> [Hs|(j' & ? & Hj & _)]]|(wf' & Hq & H)]; [|lia|congruence].
              apply str_mem_in in Hs. congruence.
        -- intros lb. apply seen_same. discriminate.
        -- intros nm. rewrite in_app_iff. cbn. split.
           ++ intros [H|[<-|[]]]; [left; exact H|right; repeat eexists].
           ++ intros [H|(a & b & c & d0 & H)]; [left; exact H|]. injection H as <- _ _ _ _. right; left; reflexivity.
    + destruct (IH (S ix) fdef ldef lused) as (rest & d & u & -> & Hd & Hu & Hw). eexists _, d, u. split; [reflexivity|].
      split; [apply ldef_after_other; [discriminate|exact Hd]|]. split; [apply lused_after_other; [discriminate|exact Hu]|].
      intros w. apply (Hcons [] fdef ldef lused rest False w Hw); [cbn; tauto|tauto|intros lb; apply seen_same; discriminate|].
      intros nm. apply Hnofn. discriminate.
Qed.

(* ================= the whole lint ================= *)
Lemma lint_parts s :
  exists asg uses w1 w2 ld lu w3 w4,
    collect s 0 [] [] = (asg, uses) /\
    used_before asg uses None WGlobalUsedBefore = Some w1 /\
    ldef_after [] s 0 ld /\ lused_after [] s 0 lu /\ (forall w, In w w2 <-> gwarn [] [] s 0 w) /\
    keys_not_in ld lu WUnusedLabel = Some w3 /\
    keys_not_in lu ld WUnknownLabel = Some w4 /\
    lint_raw s = Some ((match s with [] => [WEmpty] | _ => [] end) ++ w1 ++ w2 ++ w3 ++ w4).
Proof.
  unfold lint_raw. destruct (collect s 0 [] []) as [asg uses].
  destruct (used_before asg uses None WGlobalUsedBefore) as [w1|] eqn:E1; [|exfalso; eapply used_before_total; eassumption].
  destruct (gloop_spec s 0 [] [] []) as (w2 & ld & lu & -> & Hd & Hu & Hw).
  destruct (keys_not_in ld lu WUnusedLabel) as [w3|] eqn:E3; [|exfalso; eapply keys_not_in_total; eassumption].
  destruct (keys_not_in lu ld WUnknownLabel) as [w4|] eqn:E4; [|exfalso; eapply keys_not_in_total; eassumption].
  exists asg, uses, w1, w2, ld, lu, w3, w4. cbn. repeat split; try assumption; try reflexivity; apply Hw.
Qed.

(* TOTALITY: no dict access of lint_script can raise on a (typed = schema-shaped) model *)
Theorem lint_total : forall s, exists ws, lint_raw s = Some ws /\ lint s = ws.
Proof.
  intros s. destruct (lint_parts s) as (? & ? & ? & ? & ? & ? & ? & ? & _ & _ & _ & _ & _ & _ & _ & H).
  eexists. split; [exact H|]. unfold lint. rewrite H. reflexivity.
Qed.

(* the function a warning is about (None: a warning about the global scope) *)
Definition wscope (w : warning) : option str :=
  match w with
  | WVarUsedBefore _ f _ _ | WUnusedVar _ f _ | WDupArg _ f _ | WUnusedArg _ f _ | WFnPointless f _
  | WFnLabelRedef _ f _ | WFnUnusedLabel _ f _ | WFnUnknownLabel _ f _ => Some f
  | _ => None
  end.

Lemma lint_args_scope f ix : forall args seen uses w, In w (lint_args f ix args seen uses) -> wscope w = Some f.
Proof.
  induction args as [|a t IH]; intros seen uses w H; cbn in H; [destruct H|].
  destruct (str_mem a seen).
  - destruct H as [<-|H]; [reflexivity|eapply IH; exact H].
  - apply in_app_iff in H. destruct H as [H|H]; [|eapply IH; exact H].
    destruct (d_has a uses); [destruct H|destruct H as [<-|[]]; reflexivity].
Qed.

Lemma lint_args_form f ix : forall args seen uses w, In w (lint_args f ix args seen uses) -> exists a, w = WDupArg a f ix \/ w = WUnusedArg a f ix.
Proof.
  induction args as [|a t IH]; intros seen uses w H; cbn in H; [destruct H|].
  destruct (str_mem a seen).
  - destruct H as [<-|H]; [eauto|eapply IH; exact H].
  - apply in_app_iff in H. destruct H as [H|H]; [|eapply IH; exact H].
    destruct (d_has a uses); [destruct H|destruct H as [<-|[]]; eauto].
Qed.

Lemma find_label_from0 l code : find_from l code 0 = find_label l code.
Proof. symmetry. apply find_label_unfold. Qed.

(* what the parts of one function's lint contain *)
Lemma lint_function_in name args body ix wf w : lint_function name args body ix = Some wf -> In w wf ->
  wscope w = Some name /\
  (forall l i, w = WFnUnknownLabel l name i -> last_jump l body = Some i /\ find_label l body = None) /\
  (forall l i, w = WFnUnusedLabel l name i -> find_label l body = Some i /\ last_jump l body = None) /\
  (forall l i, w = WFnLabelRedef l name i -> nth_error body i = Some (SLabel l) /\ exists j, j < i /\ nth_error body j = Some (SLabel l)) /\
  (forall i, w = WFnPointless name i -> exists e, nth_error body i = Some (SExpr None e) /\ pointless e = true).
Proof.
  intros H Hw. destruct (lint_function_some name args body ix) as (asg & uses & w1 & w2 & w4 & ld & lu & w5 & w6 & _ & E1 & E2 & E4 & E5 & E6 & Hq).
  rewrite Hq in H. injection H as <-. destruct (floop_spec _ _ _ _ _ _ _ _ E4) as (Hd & Hu & Hf).
  assert (Hld : forall k, assoc k ld = find_label k body). { intros k. rewrite (Hd k). cbn. apply find_label_from0. }
  assert (Hlu : forall k, assoc k lu = last_jump k body). { intros k. rewrite (Hu k). unfold last_jump. destruct (last_jump_from k body 0); reflexivity. }
  rewrite !in_app_iff in Hw. destruct Hw as [Hw|[Hw|[Hw|[Hw|[Hw|Hw]]]]].
  - destruct (used_before_form _ _ _ _ _ _ E1 Hw) as (v & u & a & ->). repeat split; intros; discriminate.
  - apply (keys_not_in_in _ _ _ _ w E2) in Hw. destruct Hw as (k & v & _ & _ & ->). repeat split; intros; discriminate.
  - destruct args as [a|]; [|destruct Hw]. pose proof (lint_args_scope _ _ _ _ _ _ Hw) as Hs.
    destruct (lint_args_form _ _ _ _ _ _ Hw) as (x & [-> | ->]); (split; [exact Hs|]); repeat split; intros; discriminate.
  - apply Hf in Hw. destruct Hw as (j & st & Hn & Hm). cbn [Nat.add] in Hm. destruct st as [[x|] e| | |lb| |]; try (destruct Hm; fail).
    + destruct Hm as [Hp ->]. split; [reflexivity|]. repeat split; try (intros; discriminate).
      intros i Hi. injection Hi as <-. eauto.
    + destruct Hm as [-> H0]. split; [reflexivity|]. repeat split; try (intros; discriminate).
      * injection H as <- <-. exact Hn.
      * injection H as <- <-. destruct H0 as [Hs|Hs]; [exfalso; apply Hs; reflexivity|exact Hs].
  - apply (keys_not_in_in _ _ _ _ w E5) in Hw. destruct Hw as (k & v & Hk & Ho & ->). split; [reflexivity|].
    repeat split; try (intros; discriminate); injection H as <- <-; rewrite <- ?Hld, <- ?Hlu; assumption.
  - apply (keys_not_in_in _ _ _ _ w E6) in Hw. destruct Hw as (k & v & Hk & Ho & ->). split; [reflexivity|].
    repeat split; try (intros; discriminate); injection H as <- <-; rewrite <- ?Hld, <- ?Hlu; assumption.
Qed.

Lemma lint_function_rev name args body ix wf : lint_function name args body ix = Some wf ->
  (forall l i, last_jump l body = Some i -> find_label l body = None -> In (WFnUnknownLabel l name i) wf) /\
  (forall l i, find_label l body = Some i -> last_jump l body = None -> In (WFnUnusedLabel l name i) wf) /\
  (forall l i j, nth_error body i = Some (SLabel l) -> j < i -> nth_error body j = Some (SLabel l) -> In (WFnLabelRedef l name i) wf) /\
  (forall i e, nth_error body i = Some (SExpr None e) -> pointless e = true -> In (WFnPointless name i) wf).
Proof.
  intros H. destruct (lint_function_some name args body ix) as (asg & uses & w1 & w2 & w4 & ld & lu & w5 & w6 & _ & E1 & E2 & E4 & E5 & E6 & Hq).
  rewrite Hq in H. injection H as <-. destruct (floop_spec _ _ _ _ _ _ _ _ E4) as (Hd & Hu & Hf).
  assert (Hld : forall k, assoc k ld = find_label k body). { intros k. rewrite (Hd k). cbn. apply find_label_from0. }
  assert (Hlu : forall k, assoc k lu = last_jump k body). { intros k. rewrite (Hu k). unfold last_jump. destruct (last_jump_from k body 0); reflexivity. }
  repeat split.
  - intros l i H1 H2. rewrite !in_app_iff. do 5 right. apply (keys_not_in_in _ _ _ _ _ E6). exists l, i. rewrite Hld, Hlu. auto.
  - intros l i H1 H2. rewrite !in_app_iff. do 4 right. left. apply (keys_not_in_in _ _ _ _ _ E5). exists l, i. rewrite Hld, Hlu. auto.
  - intros l i j H1 H2 H3. rewrite !in_app_iff. do 3 right. left. apply Hf. exists i, (SLabel l). split; [exact H1|].
    split; [reflexivity|]. right. exists j. auto.
  - intros i e H1 H2. rewrite !in_app_iff. do 3 right. left. apply Hf. exists i, (SExpr None e). split; [exact H1|]. auto.
Qed.

(* membership in the whole lint, by scope *)
Lemma lint_in_global s w : wscope w = None ->
  (In w (lint s) <->
   (s = [] /\ w = WEmpty) \/
   (exists v u a, w = WGlobalUsedBefore v u a /\ In w (lint s)) \/
   (exists j st, nth_error s j = Some st /\
      match st with
      | SFunction name _ _ _ _ => w = WFnRedef name j /\ exists j' st', j' < j /\ nth_error s j' = Some st' /\ is_fn name st'
      | SExpr None e => pointless e = true /\ w = WPointless j
      | SLabel lb => w = WLabelRedef lb j /\ exists j', j' < j /\ nth_error s j' = Some (SLabel lb)
      | _ => False
      end) \/
   (exists l i, w = WUnusedLabel l i /\ find_label l s = Some i /\ last_jump l s = None) \/
   (exists l i, w = WUnknownLabel l i /\ last_jump l s = Some i /\ find_label l s = None)).
Proof.
  intros Hsc. destruct (lint_parts s) as (asg & uses & w1 & w2 & ld & lu & w3 & w4 & _ & E1 & Hd & Hu & Hw & E3 & E4 & Hq).
  unfold lint at 1. rewrite Hq.
  assert (Hld : forall k, assoc k ld = find_label k s). { intros k. rewrite (Hd k). cbn. apply find_label_from0. }
  assert (Hlu : forall k, assoc k lu = last_jump k s). { intros k. rewrite (Hu k). unfold last_jump. destruct (last_jump_from k s 0); reflexivity. }
  rewrite !in_app_iff. split.
  - intros [H|[H|[H|[H|H]]]].
    + left. destruct s; [destruct H as [<-|[]]; auto|destruct H].
    + right; left. destruct (used_before_form _ _ _ _ _ _ E1 H) as (v & u & a & ->). exists v, u, a. split; [reflexivity|].
      unfold lint. rewrite Hq, !in_app_iff. auto.
    + right; right; left. apply Hw in H. destruct H as (j & st & Hn & Hm). exists j, st. split; [exact Hn|]. cbn [Nat.add] in Hm.
      destruct st as [[x|] e| | |lb|name args b c body|]; try exact Hm.
      * destruct Hm as [-> [Hs|Hs]]; [exfalso; apply Hs; reflexivity|]. auto.
      * destruct Hm as [[-> [[]|Hs]]|(wf & Hf & Hi)]; [auto|].
        destruct (lint_function_in _ _ _ _ _ _ Hf Hi) as (Hs & _). congruence.
    + do 3 right; left. apply (keys_not_in_in _ _ _ _ w E3) in H. destruct H as (k & v & Hk & Ho & ->). exists k, v. rewrite <- Hld, <- Hlu. auto.
    + do 4 right. apply (keys_not_in_in _ _ _ _ w E4) in H. destruct H as (k & v & Hk & Ho & ->). exists k, v. rewrite <- Hld, <- Hlu. auto.
  - intros [[-> ->]|[(v & u & a & -> & H)|[(j & st & Hn & Hm)|[(l & i & -> & H1 & H2)|(l & i & -> & H1 & H2)]]]].
    + left. cbn; auto.
    + unfold lint in H. rewrite Hq, !in_app_iff in H. exact H.
    + do 2 right; left. apply Hw. exists j, st. split; [exact Hn|]. cbn [Nat.add].
      destruct st as [[x|] e| | |lb|name args b c body|]; try exact Hm.
      * destruct Hm as [-> Hs]. split; [reflexivity|]. right. exact Hs.
      * destruct Hm as [-> Hs]. left. split; [reflexivity|]. right. exact Hs.
    + do 3 right; left. apply (keys_not_in_in _ _ _ _ _ E3). exists l, i. rewrite Hld, Hlu. auto.
    + do 4 right. apply (keys_not_in_in _ _ _ _ _ E4). exists l, i. rewrite Hld, Hlu. auto.
Qed.

Lemma lint_in_function s w f : wscope w = Some f ->
  (In w (lint s) <-> exists k args a b body wf, nth_error s k = Some (SFunction f args a b body) /\
                                           lint_function f args body k = Some wf /\ In w wf).
Proof.
  intros Hsc. destruct (lint_parts s) as (asg & uses & w1 & w2 & ld & lu & w3 & w4 & _ & E1 & Hd & Hu & Hw & E3 & E4 & Hq).
  unfold lint. rewrite Hq, !in_app_iff. split.
  - intros [H|[H|[H|[H|H]]]].
    + destruct s; [destruct H as [<-|[]]; discriminate|destruct H].
    + destruct (used_before_form _ _ _ _ _ _ E1 H) as (v & u & a & ->). discriminate.
    + apply Hw in H. destruct H as (j & st & Hn & Hm). cbn [Nat.add] in Hm.
      destruct st as [[x|] e| | |lb|name args b c body|]; try (destruct Hm; fail).
      * destruct Hm as [_ ->]. discriminate.
      * destruct Hm as [-> _]. discriminate.
      * destruct Hm as [[-> _]|(wf & Hf & Hi)]; [discriminate|].
        destruct (lint_function_in _ _ _ _ _ _ Hf Hi) as (Hs & _). assert (name = f) by congruence. subst name.
        exists j, args, b, c, body, wf. auto.
    + apply (keys_not_in_in _ _ _ _ w E3) in H. destruct H as (k & v & _ & _ & ->). discriminate.
    + apply (keys_not_in_in _ _ _ _ w E4) in H. destruct H as (k & v & _ & _ & ->). discriminate.
  - intros (k & args & a & b & body & wf & Hn & Hf & Hi). do 2 right; left. apply Hw. exists k, (SFunction f args a b body).
    split; [exact Hn|]. right. exists wf. auto.
Qed.

(* ================= plain readings of last_jump / find_label ================= *)
Lemma last_jump_from_spec l : forall code ix,
  match last_jump_from l code ix with
  | Some i => ix <= i /\ (exists c, nth_error code (i - ix) = Some (SJump l c)) /\
              forall j c, i - ix < j -> nth_error code j <> Some (SJump l c)
  | None => forall j c, nth_error code j <> Some (SJump l c)
  end.
Proof.
  induction code as [|st t IH]; intros ix; cbn [last_jump_from].
  - intros j c. destruct j; discriminate.
  - specialize (IH (S ix)). destruct (last_jump_from l t (S ix)) as [i|].
    + destruct IH as (Hle & (c & Hc) & Hlast). split; [lia|]. replace (i - ix) with (S (i - S ix)) by lia. split.
      * exists c. exact Hc.
      * intros j c' Hj. destruct j as [|j]; [lia|]. cbn. apply Hlast. lia.
    + assert (Hno : (forall c, st <> SJump l c) -> forall j c, nth_error (st :: t) j <> Some (SJump l c)).
      { intros Hs j c. destruct j as [|j]; cbn; [intros H; injection H as ->; eapply Hs; reflexivity|apply IH]. }
      destruct st as [ | n c0 | | | | ]; try (apply Hno; discriminate).
      destruct (str_eqb n l) eqn:E.
      * apply str_eqb_eq in E. subst n. split; [lia|]. replace (ix - ix) with 0 by lia. split; [exists c0; reflexivity|].
        intros j c Hj. destruct j as [|j]; [lia|]. cbn. apply IH.
      * apply Hno. intros c H. injection H as -> _. rewrite str_eqb_refl in E. discriminate.
Qed.

Lemma last_jump_some l code i : last_jump l code = Some i ->
  (exists c, nth_error code i = Some (SJump l c)) /\ forall j c, i < j -> nth_error code j <> Some (SJump l c).
Proof.
  unfold last_jump. intros H. pose proof (last_jump_from_spec l code 0) as S. rewrite H in S. destruct S as (_ & Hc & Hl).
  replace (i - 0) with i in * by lia. auto.
Qed.

Lemma last_jump_none l code : last_jump l code = None <-> forall j c, nth_error code j <> Some (SJump l c).
Proof.
  unfold last_jump. pose proof (last_jump_from_spec l code 0) as S. destruct (last_jump_from l code 0) as [i|]; split; intros H; try discriminate; auto.
  destruct S as (_ & (c & Hc) & _). exfalso. eapply H. exact Hc.
Qed.

Lemma some_jump_last l code : (exists j c, nth_error code j = Some (SJump l c)) <-> exists i, last_jump l code = Some i.
Proof.
  split.
  - intros (j & c & H). destruct (last_jump l code) as [i|] eqn:E; [eauto|]. exfalso. eapply (proj1 (last_jump_none l code) E). exact H.
  - intros (i & H). destruct (last_jump_some _ _ _ H) as ((c & Hc) & _). eauto.
Qed.

Lemma find_label_none_iff l code : find_label l code = None <-> forall j, nth_error code j <> Some (SLabel l).
Proof.
  split; [apply find_label_none|]. intros H. destruct (find_label l code) as [k|] eqn:E; [|reflexivity].
  exfalso. eapply H. apply (find_label_first _ _ _ E).
Qed.

(* ================= (2) unknown-label exactness ================= *)
Theorem unknown_global_iff s l i :
  In (WUnknownLabel l i) (lint s) <-> last_jump l s = Some i /\ find_label l s = None.
Proof.
  rewrite (lint_in_global s (WUnknownLabel l i) eq_refl). split.
  - intros [[_ H]|[(v & u & a & H & _)|[(j & st & _ & Hm)|[(l' & i' & H & _)|(l' & i' & H & H1 & H2)]]]]; try discriminate.
    + destruct st as [[x|] e| | |lb|name args b c body|]; try (destruct Hm; fail); destruct Hm as [? ?]; try discriminate.
    + injection H as <- <-. auto.
  - intros [H1 H2]. do 4 right. exists l, i. auto.
Qed.

(* the warning is issued for exactly the labels that some jump of the global list targets and no statement of it defines;
   it names the LAST such jump *)
Theorem unknown_global_exact s l :
  (exists i, In (WUnknownLabel l i) (lint s)) <->
  (exists j c, nth_error s j = Some (SJump l c)) /\ (forall j, nth_error s j <> Some (SLabel l)).
Proof.
  rewrite some_jump_last, <- find_label_none_iff. split.
  - intros (i & H). apply unknown_global_iff in H. destruct H; eauto.
  - intros ((i & H1) & H2). exists i. apply unknown_global_iff. auto.
Qed.

Theorem unknown_fn_iff s l f i :
  In (WFnUnknownLabel l f i) (lint s) <->
  exists k args a b body, nth_error s k = Some (SFunction f args a b body) /\ last_jump l body = Some i /\ find_label l body = None.
Proof.
  rewrite (lint_in_function s (WFnUnknownLabel l f i) f eq_refl). split.
  - intros (k & args & a & b & body & wf & Hn & Hf & Hi). exists k, args, a, b, body. split; [exact Hn|].
    destruct (lint_function_in _ _ _ _ _ _ Hf Hi) as (_ & H & _). apply H. reflexivity.
  - intros (k & args & a & b & body & Hn & H1 & H2).
    destruct (lint_function f args body k) as [wf|] eqn:Ef; [|exfalso; eapply lint_function_total; eassumption].
    exists k, args, a, b, body, wf. split; [exact Hn|]. split; [exact Ef|]. apply (lint_function_rev _ _ _ _ _ Ef); assumption.
Qed.

Theorem unknown_fn_exact s l f :
  (exists i, In (WFnUnknownLabel l f i) (lint s)) <->
  exists k args a b body, nth_error s k = Some (SFunction f args a b body) /\
    (exists j c, nth_error body j = Some (SJump l c)) /\ (forall j, nth_error body j <> Some (SLabel l)).
Proof.
  split.
  - intros (i & H). apply unknown_fn_iff in H. destruct H as (k & args & a & b & body & Hn & H1 & H2).
    exists k, args, a, b, body. split; [exact Hn|]. rewrite some_jump_last, <- find_label_none_iff. eauto.
  - intros (k & args & a & b & body & Hn & H1 & H2). rewrite some_jump_last in H1. destruct H1 as (i & H1).
    exists i. apply unknown_fn_iff. exists k, args, a, b, body. rewrite find_label_none_iff. auto.
Qed.

(* ================= (3) redefinition exactness ================= *)
Theorem label_redef_global_iff s l i :
  In (WLabelRedef l i) (lint s) <-> nth_error s i = Some (SLabel l) /\ exists j, j < i /\ nth_error s j = Some (SLabel l).
Proof.
  rewrite (lint_in_global s (WLabelRedef l i) eq_refl). split.
  - intros [[_ H]|[(v & u & a & H & _)|[(j & st & Hn & Hm)|[(l' & i' & H & _)|(l' & i' & H & _)]]]]; try discriminate.
    destruct st as [[x|] e| | |lb|name args b c body|]; try (destruct Hm; fail); destruct Hm as [H1 H2]; try discriminate.
    injection H1 as <- <-. auto.
  - intros [H1 H2]. do 2 right; left. exists i, (SLabel l). auto.
Qed.

Theorem fn_redef_iff s f i :
  In (WFnRedef f i) (lint s) <->
  (exists st, nth_error s i = Some st /\ is_fn f st) /\ exists j st', j < i /\ nth_error s j = Some st' /\ is_fn f st'.
Proof.
  rewrite (lint_in_global s (WFnRedef f i) eq_refl). split.
  - intros [[_ H]|[(v & u & a & H & _)|[(j & st & Hn & Hm)|[(l' & i' & H & _)|(l' & i' & H & _)]]]]; try discriminate.
    destruct st as [[x|] e| | |lb|name args b c body|]; try (destruct Hm; fail); destruct Hm as [H1 H2]; try discriminate.
    injection H1 as <- <-. split; [|exact H2]. eexists. split; [exact Hn|]. repeat eexists.
  - intros [(st & Hn & (a & b & c & d & ->)) H2]. do 2 right; left. exists i, (SFunction f a b c d). auto.
Qed.

Theorem label_redef_fn_iff s l f i :
  In (WFnLabelRedef l f i) (lint s) <->
  exists k args a b body, nth_error s k = Some (SFunction f args a b body) /\
    nth_error body i = Some (SLabel l) /\ exists j, j < i /\ nth_error body j = Some (SLabel l).
Proof.
  rewrite (lint_in_function s (WFnLabelRedef l f i) f eq_refl). split.
  - intros (k & args & a & b & body & wf & Hn & Hf & Hi). exists k, args, a, b, body. split; [exact Hn|].
    destruct (lint_function_in _ _ _ _ _ _ Hf Hi) as (_ & _ & _ & H & _). apply H. reflexivity.
  - intros (k & args & a & b & body & Hn & H1 & (j & Hj & H2)).
    destruct (lint_function f args body k) as [wf|] eqn:Ef; [|exfalso; eapply lint_function_total; eassumption].
    exists k, args, a, b, body, wf. split; [exact Hn|]. split; [exact Ef|]. eapply (lint_function_rev _ _ _ _ _ Ef); eassumption.
Qed.

(* duplicate arguments: reported at every occurrence of the name after its first one, with the index of the function statement *)
Definition occurs_before {A} (a : A) (l : list A) (j : nat) : Prop := exists i, i < j /\ nth_error l i = Some a.

Lemma lint_args_dup f ix a : forall args seen uses,
  In (WDupArg a f ix) (lint_args f ix args seen uses) <->
  exists j, nth_error args j = Some a /\ (In a seen \/ occurs_before a args j).
Proof.
  induction args as [|x t IH]; intros seen uses; cbn [lint_args].
  - split; [intros []|intros (j & H & _); destruct j; discriminate].
  - assert (Hshift : forall seen', (In a seen' <-> In a seen \/ x = a) ->
      ((exists j, nth_error t j = Some a /\ (In a seen' \/ occurs_before a t j)) <->
       (exists j, nth_error (x :: t) (S j) = Some a /\ (In a seen \/ occurs_before a (x :: t) (S j))))).
    { intros seen' Hs. split; intros (j & Hn & Ho); exists j; (split; [exact Hn|]).
      - destruct Ho as [Ho|(i & Hi & Hni)].
        + apply Hs in Ho. destruct Ho as [Ho| ->]; [left; exact Ho|right; exists 0; split; [lia|reflexivity]].
        + right. exists (S i). split; [lia|exact Hni].
      - destruct Ho as [Ho|(i & Hi & Hni)]; [left; apply Hs; left; exact Ho|].
        destruct i as [|i]; cbn in Hni; [injection Hni as ->; left; apply Hs; right; reflexivity|right; exists i; split; [lia|exact Hni]]. }
    destruct (str_mem x seen) eqn:Em.
    + apply str_mem_in in Em. cbn [In]. rewrite IH, (Hshift seen). 2:{ split; [tauto|]. intros [H| <-]; assumption. }
      split.
      * intros [H|(j & H)]; [injection H as <-; exists 0; split; [reflexivity|left; exact Em]|exists (S j); exact H].
      * intros (j & Hn & Ho). destruct j as [|j]; [cbn in Hn; injection Hn as ->; left; reflexivity|right; exists j; auto].
    + rewrite in_app_iff, IH, (Hshift (seen ++ [x])). 2:{ rewrite in_app_iff. cbn. tauto. }
      split.
      * intros [H|(j & H)]; [destruct (d_has x uses); [destruct H|destruct H as [H|[]]; discriminate]|exists (S j); exact H].
      * intros (j & Hn & Ho). destruct j as [|j]; [|right; exists j; auto]. cbn in Hn. injection Hn as ->. exfalso.
        destruct Ho as [Ho|(i & Hi & _)]; [|lia]. apply str_mem_in in Ho. congruence.
Qed.

Theorem dup_arg_iff s a f k :
  In (WDupArg a f k) (lint s) <->
  exists args b c body, nth_error s k = Some (SFunction f (Some args) b c body) /\
    exists j, nth_error args j = Some a /\ occurs_before a args j.
Proof.
  rewrite (lint_in_function s (WDupArg a f k) f eq_refl). split.
  - intros (k' & args & b & c & body & wf & Hn & Hf & Hi).
    destruct (lint_function_some f args body k') as (asg & uses & w1 & w2 & w4 & ld & lu & w5 & w6 & _ & E1 & E2 & E4 & E5 & E6 & Hq).
    rewrite Hq in Hf. injection Hf as <-. destruct (floop_spec _ _ _ _ _ _ _ _ E4) as (_ & _ & Hfw).
    rewrite !in_app_iff in Hi. destruct Hi as [Hi|[Hi|[Hi|[Hi|[Hi|Hi]]]]].
    + destruct (used_before_form _ _ _ _ _ _ E1 Hi) as (? & ? & ? & ?). discriminate.
    + apply (keys_not_in_in _ _ _ _ _ E2) in Hi. destruct Hi as (? & ? & _ & _ & ?). discriminate.
    + destruct args as [args|]; [|destruct Hi]. destruct (lint_args_form _ _ _ _ _ _ Hi) as (x & [H|H]); [|discriminate].
      injection H as _ <-. apply lint_args_dup in Hi. destruct Hi as (j & Hj & [[]|Ho]). exists args, b, c, body. eauto.
    + apply Hfw in Hi. destruct Hi as (j & st & _ & Hm). destruct st as [[x|] e| | |lb| |]; try (destruct Hm; fail); destruct Hm as [? ?]; discriminate.
    + apply (keys_not_in_in _ _ _ _ _ E5) in Hi. destruct Hi as (? & ? & _ & _ & ?). discriminate.
    + apply (keys_not_in_in _ _ _ _ _ E6) in Hi. destruct Hi as (? & ? & _ & _ & ?). discriminate.
  - intros (args & b & c & body & Hn & j & Hj & Ho).
    destruct (lint_function_some f (Some args) body k) as (asg & uses & w1 & w2 & w4 & ld & lu & w5 & w6 & _ & _ & _ & _ & _ & _ & Hq).
    eexists k, (Some args), b, c, body, _. split; [exact Hn|]. split; [exact Hq|]. rewrite !in_app_iff. do 2 right; left.
    apply lint_args_dup. exists j. auto.
Qed.

(* ================= what the "unused label" and "pointless statement" warnings say ================= *)
Theorem unused_label_global_iff s l i :
  In (WUnusedLabel l i) (lint s) <-> find_label l s = Some i /\ last_jump l s = None.
Proof.
  rewrite (lint_in_global s (WUnusedLabel l i) eq_refl). split.
  - intros [[_ H]|[(v & u & a & H & _)|[(j & st & _ & Hm)|[(l' & i' & H & H1 & H2)|(l' & i' & H & _)]]]]; try discriminate.
    + destruct st as [[x|] e| | |lb|name args b c body|]; try (destruct Hm; fail); destruct Hm as [? ?]; try discriminate.
    + injection H as <- <-. auto.
  - intros [H1 H2]. do 3 right; left. exists l, i. auto.
Qed.

Theorem unused_label_fn_iff s l f i :
  In (WFnUnusedLabel l f i) (lint s) <->
  exists k args a b body, nth_error s k = Some (SFunction f args a b body) /\ find_label l body = Some i /\ last_jump l body = None.
Proof.
  rewrite (lint_in_function s (WFnUnusedLabel l f i) f eq_refl). split.
  - intros (k & args & a & b & body & wf & Hn & Hf & Hi). exists k, args, a, b, body. split; [exact Hn|].
    destruct (lint_function_in _ _ _ _ _ _ Hf Hi) as (_ & _ & H & _). apply H. reflexivity.
  - intros (k & args & a & b & body & Hn & H1 & H2).
    destruct (lint_function f args body k) as [wf|] eqn:Ef; [|exfalso; eapply lint_function_total; eassumption].
    exists k, args, a, b, body, wf. split; [exact Hn|]. split; [exact Ef|]. apply (lint_function_rev _ _ _ _ _ Ef); assumption.
Qed.

Theorem pointless_global_iff s i :
  In (WPointless i) (lint s) <-> exists e, nth_error s i = Some (SExpr None e) /\ pointless e = true.
Proof.
  rewrite (lint_in_global s (WPointless i) eq_refl). split.
  - intros [[_ H]|[(v & u & a & H & _)|[(j & st & Hn & Hm)|[(l' & i' & H & _)|(l' & i' & H & _)]]]]; try discriminate.
    destruct st as [[x|] e| | |lb|name args b c body|]; try (destruct Hm; fail); destruct Hm as [H1 H2]; try discriminate.
    injection H2 as <-. eauto.
  - intros (e & H1 & H2). do 2 right; left. exists i, (SExpr None e). auto.
Qed.

Theorem pointless_fn_iff s f i :
  In (WFnPointless f i) (lint s) <->
  exists k args a b body e, nth_error s k = Some (SFunction f args a b body) /\ nth_error body i = Some (SExpr None e) /\ pointless e = true.
Proof.
  rewrite (lint_in_function s (WFnPointless f i) f eq_refl). split.
  - intros (k & args & a & b & body & wf & Hn & Hf & Hi).
    destruct (lint_function_in _ _ _ _ _ _ Hf Hi) as (_ & _ & _ & _ & H). destruct (H i eq_refl) as (e & He). exists k, args, a, b, body, e. tauto.
  - intros (k & args & a & b & body & e & Hn & H1 & H2).
    destruct (lint_function f args body k) as [wf|] eqn:Ef; [|exfalso; eapply lint_function_total; eassumption].
    exists k, args, a, b, body, wf. split; [exact Hn|]. split; [exact Ef|]. eapply (lint_function_rev _ _ _ _ _ Ef); eassumption.
Qed.

(* ================= the tie to the runtime's label lookup ================= *)
Section Runtime.
Variable cfg : config.
Variable lib : caller -> str -> list value -> world -> lres * world.
Variable url_rel : str -> str -> str.
Variable lint_lines : script -> list str.
Notation exec := (exec cfg lib url_rel lint_lines).
Notation eval := (eval cfg lib url_rel lint_lines).

(* the jump at [pc] is taken: it has no condition, or its condition evaluates to a true value *)
Definition jump_taken (f : nat) (cond : option expr) (loc : option env) (um : umode) (w : world) : Prop :=
  match cond with
  | None => True
  | Some c => exists v w1, eval f c loc false um (upd_count w (w_count w + 1)) = (OVal v, w1) /\ truthy w1 v = true
  end.

Definition within_budget (w : world) : Prop := ((0 <? c_max cfg)%Z && (c_max cfg <? w_count w + 1)%Z)%bool = false.

(* a taken jump (conditional or not) whose label the list does not define raises "Unknown jump label" *)
Lemma taken_jump_unknown : forall f code pc cache loc um w label cond,
  cache_ok code cache -> nth_error code pc = Some (SJump label cond) -> find_label label code = None ->
  within_budget w -> jump_taken f cond loc um w ->
  fst (fst (exec (S f) code pc cache loc um w)) = ORt (msg_unknown_label label).
Proof.
  intros f code pc cache loc um w label cond Hc Hn Hf Hb Ht.
  rewrite exec_S. unfold exec_body. rewrite Hn. cbn [w_count upd_count]. unfold within_budget in Hb. rewrite Hb.
  assert (Ha : assoc label cache = None).
  { destruct (assoc label cache) as [ix|] eqn:Ea; [|reflexivity]. rewrite (Hc _ _ Ea) in Hf. discriminate. }
  destruct cond as [c|]; cbn in Ht.
  - destruct Ht as (v & w1 & -> & ->). rewrite Ha, Hf. reflexivity.
  - rewrite Ha, Hf. reflexivity.
Qed.

(* a taken jump whose label the list defines does not raise: it goes on after the first such label *)
Lemma taken_jump_known : forall f code pc loc um w label cond k,
  nth_error code pc = Some (SJump label cond) -> find_label label code = Some k ->
  within_budget w -> jump_taken f cond loc um w ->
  exists w1, exec (S f) code pc [] loc um w = exec f code (S k) [] loc um w1.
Proof.
  intros f code pc loc um w label cond k Hn Hf Hb Ht.
  rewrite exec_S. unfold exec_body. rewrite Hn. cbn [w_count upd_count]. unfold within_budget in Hb. rewrite Hb. cbn [assoc].
  destruct cond as [c|]; cbn in Ht.
  - destruct Ht as (v & w1 & -> & ->). rewrite Hf. exists w1. apply exec_cache_irrelevant. apply cache_ok_cons; [apply cache_ok_nil|exact Hf].
  - rewrite Hf. eexists. apply exec_cache_irrelevant. apply cache_ok_cons; [apply cache_ok_nil|exact Hf].
Qed.

(* the warning is issued for exactly the labels whose jumps CAN raise the runtime error: every jump of the global list to a
   reported label raises it when taken; a jump to a label that is not reported never does (it continues after the label) *)
Theorem unknown_warning_predicts_runtime_error : forall s l i f pc cache loc um w cond,
  In (WUnknownLabel l i) (lint s) ->
  nth_error s pc = Some (SJump l cond) -> cache_ok s cache -> within_budget w -> jump_taken f cond loc um w ->
  fst (fst (exec (S f) s pc cache loc um w)) = ORt (msg_unknown_label l).
Proof.
  intros s l i f pc cache loc um w cond Hw Hn Hc Hb Ht. apply unknown_global_iff in Hw. destruct Hw as [_ Hf].
  eapply taken_jump_unknown; eassumption.
Qed.

Theorem no_unknown_warning_no_runtime_error : forall s l f pc loc um w cond,
  (forall i, ~ In (WUnknownLabel l i) (lint s)) ->
  nth_error s pc = Some (SJump l cond) -> within_budget w -> jump_taken f cond loc um w ->
  exists k w1, find_label l s = Some k /\ exec (S f) s pc [] loc um w = exec f s (S k) [] loc um w1.
Proof.
  intros s l f pc loc um w cond Hw Hn Hb Ht.
  destruct (find_label l s) as [k|] eqn:Ef.
  - destruct (taken_jump_known f s pc loc um w l cond k Hn Ef Hb Ht) as (w1 & H). eauto.
  - exfalso. destruct (proj1 (some_jump_last l s)) as (i & Hi); [eauto|]. apply (Hw i). apply unknown_global_iff. auto.
Qed.

(* the same for a function body: it is run as its own list (C08 call_scope_local), so the scope of the warning is the scope of the lookup *)
Theorem fn_unknown_warning_predicts_runtime_error : forall s l fn i f pc cache loc um w cond,
  In (WFnUnknownLabel l fn i) (lint s) ->
  exists k args a b body, nth_error s k = Some (SFunction fn args a b body) /\
    (nth_error body pc = Some (SJump l cond) -> cache_ok body cache -> within_budget w -> jump_taken f cond loc um w ->
     fst (fst (exec (S f) body pc cache loc um w)) = ORt (msg_unknown_label l)).
Proof.
  intros s l fn i f pc cache loc um w cond Hw. apply unknown_fn_iff in Hw. destruct Hw as (k & args & a & b & body & Hn & _ & Hf).
  exists k, args, a, b, body. split; [exact Hn|]. intros. eapply taken_jump_unknown; eassumption.
Qed.

End Runtime.

(* ---- non-vacuity ---- *)
Example unknown_demo :
  In (WUnknownLabel (U "b") 1) (lint [SLabel (U "a"); SJump (U "b") None; SJump (U "a") None]) /\
  forall i, ~ In (WUnknownLabel (U "a") i) (lint [SLabel (U "a"); SJump (U "b") None; SJump (U "a") None]).
Proof.
  split; [vm_compute; tauto|]. intros i H. apply unknown_global_iff in H. destruct H as [_ H]. vm_compute in H. discriminate.
Qed.

Example redef_demo :
  let s := [SFunction (U "ff") (Some [U "p"; U "q"; U "p"]) false false [SLabel (U "L"); SLabel (U "L")];
            SFunction (U "ff") None false false []] in
  In (WFnRedef (U "ff") 1) (lint s) /\ In (WDupArg (U "p") (U "ff") 0) (lint s) /\ In (WFnLabelRedef (U "L") (U "ff") 1) (lint s).
Proof. vm_compute. tauto. Qed.

(* F26 (known finding): lint does not visit a function statement nested in a function body; the theorems above are about the scopes
   lint visits (the global list and the body of each global function statement).  The property clause fails for the nested scope: *)
Example nested_scope_refuted :
  let inner := [SJump (U "zz") None] in
  let s := [SFunction (U "out") (Some [U "a"]) false false
              [SFunction (U "inner") (Some [U "b"]) false false inner; SReturn (Some (ECall (U "inner") []))];
            SExpr None (ECall (U "out") [])] in
  find_label (U "zz") inner = None /\                                   (* the jump of `inner` raises when taken *)
  lint s = [WUnusedArg (U "a") (U "out") 0].                           (* ... and lint says nothing about it *)
Proof. vm_compute. split; reflexivity. Qed.
