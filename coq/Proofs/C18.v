(* Proofs/C18.v — lint (Model/Lint.v): totality, label / redefinition exactness, soundness of acting on a warning. *)
From Coq Require Import Lia.
From BS Require Import Model.Base Model.Num Model.ExprParser Model.Script Model.Lint.

Example lint_demo :
  map render (lint [SLabel (U "a"); SJump (U "b") None; SLabel (U "a"); SExpr None (EVar (U "x"))]) =
  [U "Redefinition of global label ""a"" (index 2)"; U "Pointless global statement (index 3)";
   U "Unused global label ""a"" (index 0)"; U "Unknown global label ""b"" (index 1)"].
Proof. vm_compute. reflexivity. Qed.
