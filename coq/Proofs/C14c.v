(* Proofs/C14c.v — C14, reader layer: the RFC 8259 reader maps the laid-out text of a
   well-formed value (any indent, any nesting) back to that value. *)
From Coq Require Import Lia ZifyBool.
From BS Require Import Model.Base Model.Json Proofs.C14a Proofs.C14b.
Local Open Scope N_scope.

(* recursion fuel the reader needs for a value (one unit per value, element and member) *)
Fixpoint cost (v : jvalue) : nat :=
  match v with
  | JArr l => S (fold_right (fun x a => S (cost x + a)%nat) 0%nat l)
  | JObj m => S (fold_right (fun kv a => S (cost (snd kv) + a)%nat) 0%nat m)
  | _ => 1%nat
  end.

(* what may follow a number token: nothing, or a character that cannot continue it *)
Definition num_end (s : str) : bool :=
  match s with [] => true | c :: _ => negb (is_dig c) && negb (c =? 46) && negb (c =? 101) && negb (c =? 69) end.
Definition nd (s : str) : bool := match s with [] => true | c :: _ => negb (is_dig c) end.

(* ---------------------------------------------------------------- numbers *)
Lemma span_dig_app ds r : digits ds = true -> nd r = true -> span_dig (ds ++ r) = (ds, r).
Proof.
  induction ds as [|c ds IH]; intros Hd Hr.
  - destruct r as [|c r]; [reflexivity|]. simpl in *. destruct (is_dig c); [discriminate|reflexivity].
  - simpl in Hd. apply andb_prop in Hd. destruct Hd as [Hc Hd]. simpl. rewrite Hc. rewrite IH by assumption. reflexivity.
Qed.

Lemma parse_int_app ip r : int_ok ip = true -> nd r = true -> parse_int_part (ip ++ r) = Some (ip, r).
Proof.
  destruct ip as [|c t]; [discriminate|]. simpl. destruct (c =? 48) eqn:E.
  - destruct t; [|discriminate]. intros _ _. assert (c = 48) by lia. subst. reflexivity.
  - intros H Hr. apply andb_prop in H. destruct H as [Hc Ht]. rewrite Hc. rewrite span_dig_app by assumption. reflexivity.
Qed.

Lemma parse_frac_some f r : digits1 f = true -> nd r = true -> parse_frac (46 :: f ++ r) = (Some f, r).
Proof.
  destruct f as [|d ds]; [discriminate|]. simpl. intros H Hr. apply andb_prop in H. destruct H as [Hd Hds].
  rewrite Hd. rewrite span_dig_app by assumption. reflexivity.
Qed.
Lemma parse_frac_none r : match r with c :: _ => negb (c =? 46) | [] => true end = true -> parse_frac r = (None, r).
Proof.
  destruct r as [|c [|d t]]; try reflexivity; simpl; intros H; destruct (c =? 46); try discriminate; reflexivity.
Qed.

Lemma parse_exp_some sg e r : digits1 e = true -> nd r = true ->
  parse_exp (101 :: esign_text sg ++ e ++ r) = (Some (sg, e), r).
Proof.
  destruct e as [|d ds]; [discriminate|]. simpl. intros H Hr. apply andb_prop in H. destruct H as [Hd Hds].
  destruct sg; cbn [esign_text app parse_exp].
  - replace ((101 =? 101) || (101 =? 69)) with true by reflexivity. cbv iota. rewrite Hd. rewrite span_dig_app by assumption. reflexivity.
  - replace ((101 =? 101) || (101 =? 69)) with true by reflexivity. cbv iota.
    replace (is_dig 43) with false by reflexivity. cbv iota.
    replace ((43 =? 43) || (43 =? 45)) with true by reflexivity. cbv iota. rewrite Hd. rewrite span_dig_app by assumption. reflexivity.
  - replace ((101 =? 101) || (101 =? 69)) with true by reflexivity. cbv iota.
    replace (is_dig 45) with false by reflexivity. cbv iota.
    replace ((45 =? 43) || (45 =? 45)) with true by reflexivity. cbv iota. rewrite Hd. rewrite span_dig_app by assumption. reflexivity.
Qed.
Lemma parse_exp_none r : match r with c :: _ => negb (c =? 101) && negb (c =? 69) | [] => true end = true -> parse_exp r = (None, r).
Proof.
  destruct r as [|c [|d t]]; try reflexivity. simpl. intros H.
  replace ((c =? 101) || (c =? 69)) with false by lia. reflexivity.
Qed.

Lemma int_ok_head ip : int_ok ip = true -> exists c t, ip = c :: t /\ is_dig c = true.
Proof.
  destruct ip as [|c t]; [discriminate|]. simpl. intros H. exists c, t. split; [reflexivity|].
  destruct (c =? 48) eqn:E. - clear H. unfold is_dig. lia. - apply andb_prop in H. tauto.
Qed.

Lemma num_end_nd rest : num_end rest = true -> nd rest = true.
Proof. destruct rest as [|c r]; [reflexivity|]. unfold num_end, nd. destruct (is_dig c); [discriminate|reflexivity]. Qed.
Lemma num_end_no46 rest : num_end rest = true -> match rest with c :: _ => negb (c =? 46) | [] => true end = true.
Proof. destruct rest as [|c r]; [reflexivity|]. unfold num_end. destruct (is_dig c), (c =? 46); try discriminate; reflexivity. Qed.
Lemma num_end_noe rest : num_end rest = true -> match rest with c :: _ => negb (c =? 101) && negb (c =? 69) | [] => true end = true.
Proof.
  destruct rest as [|c r]; [reflexivity|]. unfold num_end.
  destruct (is_dig c), (c =? 46), (c =? 101), (c =? 69); try discriminate; reflexivity.
Qed.

(* the number reader returns exactly the token that was written *)
Lemma parse_number_text n rest : num_ok n = true -> num_end rest = true ->
  parse_number (num_text n ++ rest) = Some (n, rest).
Proof.
  destruct n as [neg ip fr ex]. unfold num_ok, num_text. cbn [n_neg n_int n_frac n_exp].
  intros H Hr. apply andb_prop in H. destruct H as [H Hex]. apply andb_prop in H. destruct H as [Hip Hfr].
  pose proof (num_end_nd rest Hr) as Hnd.
  assert (Hexp : parse_exp (exp_text ex ++ rest) = (ex, rest)).
  { destruct ex as [[sg e]|].
    - unfold exp_text. cbn [app]. rewrite <- app_assoc. apply parse_exp_some; assumption.
    - apply parse_exp_none. apply num_end_noe. exact Hr. }
  assert (Hnd2 : nd (exp_text ex ++ rest) = true).
  { destruct ex as [[sg e]|]; [reflexivity|exact Hnd]. }
  assert (Hfrac : parse_frac (frac_text fr ++ exp_text ex ++ rest) = (fr, exp_text ex ++ rest)).
  { destruct fr as [f|].
    - unfold frac_text. cbn [app]. apply parse_frac_some; assumption.
    - apply parse_frac_none. destruct ex as [[sg e]|]; [reflexivity|]. cbn [exp_text app].
      apply num_end_no46. exact Hr. }
  assert (Hnd3 : nd (frac_text fr ++ exp_text ex ++ rest) = true).
  { destruct fr as [f|]; [reflexivity|exact Hnd2]. }
  assert (Hint : parse_int_part (ip ++ frac_text fr ++ exp_text ex ++ rest) = Some (ip, frac_text fr ++ exp_text ex ++ rest)).
  { apply parse_int_app; assumption. }
  unfold parse_number. rewrite <- !app_assoc.
  destruct neg.
  - cbn [app]. replace (45 =? 45) with true by reflexivity. rewrite Hint, Hfrac, Hexp. reflexivity.
  - cbn [app]. destruct (int_ok_head ip Hip) as [c [t [E Hc]]]. rewrite E in *. cbn [app].
    replace (c =? 45) with false by (unfold is_dig in Hc; lia).
    change (c :: t ++ frac_text fr ++ exp_text ex ++ rest) with ((c :: t) ++ frac_text fr ++ exp_text ex ++ rest).
    rewrite Hint, Hfrac, Hexp. reflexivity.
Qed.

Lemma str_prefix_head_ne p0 p c t : p0 <> c -> str_prefix (p0 :: p) (c :: t) = false.
Proof. intros H. cbn [str_prefix]. replace (p0 =? c) with false by lia. reflexivity. Qed.

Lemma pv_number f c t : (c = 45 \/ is_dig c = true) ->
  parse_value (S f) (c :: t) = match parse_number (c :: t) with Some (n, r) => DOk (JNum n) r | None => DErr end.
Proof.
  intros H. unfold is_dig in H. cbn [parse_value].
  replace (c =? 34) with false by lia. replace (c =? 123) with false by lia. replace (c =? 91) with false by lia.
  unfold lit_null, lit_true, lit_false. rewrite !str_prefix_head_ne by lia.
  reflexivity.
Qed.

(* ---------------------------------------------------------------- whitespace and first characters *)
Definition starts_ok (s : str) : bool :=
  match s with c :: _ => negb (is_ws c) && negb (c =? 93) && negb (c =? 125) | [] => false end.
Lemma skip_ws_start s : starts_ok s = true -> skip_ws s = s.
Proof. destruct s as [|c t]; [discriminate|]. simpl. intros H. destruct (is_ws c); [discriminate|reflexivity]. Qed.
Lemma skip_ws_nl ind lvl x : skip_ws (nl ind lvl ++ x) = skip_ws x.
Proof.
  unfold nl. destruct ind as [n|]; [|reflexivity]. cbn [app skip_ws]. replace (is_ws 10) with true by reflexivity.
  induction (n * lvl)%nat; [reflexivity|]. simpl. exact IHn0.
Qed.

Lemma render_starts ind lvl v r : wf v = true -> starts_ok (render ind lvl v ++ r) = true.
Proof.
  destruct v as [| b | n | s | l | m]; intros H; try reflexivity.
  - destruct b; reflexivity.
  - simpl in H. destruct n as [neg ip fr ex]. unfold num_ok in H. cbn [n_int] in H.
    apply andb_prop in H. destruct H as [H _]. apply andb_prop in H. destruct H as [H _].
    destruct (int_ok_head ip H) as [c [t [E Hc]]]. subst.
    simpl. unfold num_text. cbn [n_neg n_int]. destruct neg; [reflexivity|]. cbn [app starts_ok].
    unfold is_dig in Hc. unfold is_ws. lia.
  - destruct l; reflexivity.
  - destruct m; reflexivity.
Qed.

Lemma num_end_nl ind lvl c r : num_end [c] = true -> num_end (nl ind lvl ++ c :: r) = true.
Proof. intros H. destruct ind; [reflexivity|exact H]. Qed.

(* ---------------------------------------------------------------- the reader on a laid-out value *)
Definition reads_back (ind : option nat) (v : jvalue) : Prop :=
  wf v = true -> forall lvl rest fuel, num_end rest = true -> (cost v <= fuel)%nat ->
  parse_value fuel (render ind lvl v ++ rest) = DOk v rest.

Lemma elems_back ind lvl rest : forall t x fuel,
  reads_back ind x -> Forall (reads_back ind) t -> wf x = true -> forallb wf t = true -> num_end rest = true ->
  (fold_right (fun x a => S (cost x + a)%nat) 0%nat (x :: t) <= fuel)%nat ->
  parse_elems fuel (render ind (S lvl) x ++ flat_map (fun y => 44 :: nl ind (S lvl) ++ render ind (S lvl) y) t
                    ++ nl ind lvl ++ 93 :: rest) = DOk (x :: t) rest.
Proof.
  induction t as [|y t IH]; intros x fuel Hx Ht Wx Wt Hr Hf.
  - cbn [flat_map app fold_right] in *. destruct fuel as [|f]; [lia|]. simpl.
    rewrite (Hx Wx) by (try apply num_end_nl; try reflexivity; lia).
    rewrite skip_ws_nl. simpl. reflexivity.
  - inversion Ht as [|? ? Hy Ht']; subst. simpl in Wt. apply andb_prop in Wt. destruct Wt as [Wy Wt].
    cbn [fold_right] in Hf. destruct fuel as [|f]; [lia|].
    cbn [flat_map]. rewrite <- !app_assoc. cbn [app]. simpl parse_elems.
    rewrite (Hx Wx) by (try reflexivity; lia).
    cbn [skip_ws]. replace (is_ws 44) with false by reflexivity. cbv iota.
    replace (44 =? 93) with false by reflexivity. replace (44 =? 44) with true by reflexivity. cbv iota.
    rewrite <- ?app_assoc. rewrite skip_ws_nl. rewrite skip_ws_start by (apply render_starts; exact Wy).
    rewrite (IH y f Hy Ht' Wy Wt Hr) by (cbn [fold_right]; lia).
    reflexivity.
Qed.

Lemma skip_colon ind x : exists r2, colon ind ++ x = 58 :: r2 /\ skip_ws r2 = skip_ws x.
Proof. destruct ind; simpl; eexists; split; reflexivity. Qed.

Lemma pm_unfold f k R : scalar_str k = true ->
  parse_members (S f) (esc_string k ++ R) =
  match skip_ws R with
  | [] => DErr
  | c :: r2 =>
    if c =? 58 then
      match parse_value f (skip_ws r2) with
      | DOk v r3 =>
        match skip_ws r3 with
        | [] => DErr
        | d :: r4 =>
          if d =? 125 then DOk [(k, v)] r4
          else if d =? 44 then
            match parse_members f (skip_ws r4) with
            | DOk m r5 => DOk ((k, v) :: m) r5
            | DErr => DErr
            | DFuel => DFuel
            end
          else DErr
        end
      | DErr => DErr
      | DFuel => DFuel
      end
    else DErr
  end.
Proof.
  intros Wk. unfold esc_string. cbn [app]. rewrite <- app_assoc. cbn [app]. simpl parse_members.
  rewrite parse_esc_body by exact Wk. reflexivity.
Qed.

Lemma members_back ind lvl rest : forall t kx fuel,
  reads_back ind (snd kx) -> Forall (fun kv => reads_back ind (snd kv)) t ->
  scalar_str (fst kx) && wf (snd kx) = true -> forallb (fun kv => scalar_str (fst kv) && wf (snd kv)) t = true ->
  num_end rest = true ->
  (fold_right (fun kv a => S (cost (snd kv) + a)%nat) 0%nat (kx :: t) <= fuel)%nat ->
  parse_members fuel (esc_string (fst kx) ++ colon ind ++ render ind (S lvl) (snd kx)
                      ++ flat_map (fun ky => 44 :: nl ind (S lvl) ++ esc_string (fst ky) ++ colon ind ++ render ind (S lvl) (snd ky)) t
                      ++ nl ind lvl ++ 125 :: rest) = DOk (kx :: t) rest.
Proof.
  induction t as [|ky t IH]; intros [k x] fuel Hx Ht Wx Wt Hr Hf; cbn [fst snd] in *;
    apply andb_prop in Wx; destruct Wx as [Wk Wx].
  - cbn [flat_map app fold_right fst snd] in *. destruct fuel as [|f]; [lia|].
    rewrite <- ?app_assoc. rewrite pm_unfold by exact Wk.
    destruct (skip_colon ind (render ind (S lvl) x ++ nl ind lvl ++ 125 :: rest)) as [r2 [E1 E2]].
    rewrite E1. cbn [skip_ws]. replace (is_ws 58) with false by reflexivity. cbv iota.
    replace (58 =? 58) with true by reflexivity. cbv iota. rewrite E2.
    rewrite skip_ws_start by (apply render_starts; exact Wx).
    rewrite (Hx Wx) by (try apply num_end_nl; try reflexivity; lia).
    rewrite skip_ws_nl. simpl. reflexivity.
  - inversion Ht as [|? ? Hy Ht']; subst. simpl in Wt. apply andb_prop in Wt. destruct Wt as [Wy Wt].
    cbn [fold_right fst snd] in Hf. destruct fuel as [|f]; [lia|].
    cbn [flat_map]. rewrite <- ?app_assoc. rewrite pm_unfold by exact Wk.
    match goal with |- context [skip_ws (colon ind ++ ?X)] => destruct (skip_colon ind X) as [r2 [E1 E2]] end.
    rewrite E1. cbn [skip_ws]. replace (is_ws 58) with false by reflexivity. cbv iota.
    replace (58 =? 58) with true by reflexivity. cbv iota. rewrite E2.
    rewrite skip_ws_start by (apply render_starts; exact Wx).
    rewrite (Hx Wx) by (try reflexivity; lia).
    cbn [app]. rewrite <- ?app_assoc. cbn [app].
    cbn [skip_ws]. replace (is_ws 44) with false by reflexivity. cbv iota.
    replace (44 =? 125) with false by reflexivity. replace (44 =? 44) with true by reflexivity. cbv iota.
    rewrite <- ?app_assoc. rewrite skip_ws_nl.
    assert (Hs : starts_ok (esc_string (fst ky) ++ colon ind ++ render ind (S lvl) (snd ky)
                 ++ flat_map (fun ky0 => 44 :: nl ind (S lvl) ++ esc_string (fst ky0) ++ colon ind ++ render ind (S lvl) (snd ky0)) t
                 ++ nl ind lvl ++ 125 :: rest) = true) by reflexivity.
    rewrite skip_ws_start by exact Hs.
    rewrite (IH ky f Hy Ht' Wy Wt Hr) by (cbn [fold_right]; lia).
    reflexivity.
Qed.

Lemma pv_arr f t : parse_value (S f) (91 :: t) =
  match skip_ws t with
  | [] => DErr
  | c2 :: t2 => if c2 =? 93 then DOk (JArr []) t2
                else match parse_elems f (c2 :: t2) with DOk l r => DOk (JArr l) r | DErr => DErr | DFuel => DFuel end
  end.
Proof. reflexivity. Qed.
Lemma pv_obj f t : parse_value (S f) (123 :: t) =
  match skip_ws t with
  | [] => DErr
  | c2 :: t2 => if c2 =? 125 then DOk (JObj []) t2
                else match parse_members f (c2 :: t2) with DOk m r => DOk (JObj m) r | DErr => DErr | DFuel => DFuel end
  end.
Proof. reflexivity. Qed.

Lemma render_reads_back ind v : reads_back ind v.
Proof.
  induction v as [| b | n | s | l IH | m IH] using jvalue_ind'; intros Hwf lvl rest fuel Hr Hf;
    (destruct fuel as [|f]; [simpl in Hf; lia|]).
  - reflexivity.
  - destruct b; reflexivity.
  - simpl in Hwf. cbn [render].
    assert (Hh : exists c t, num_text n ++ rest = c :: t /\ (c = 45 \/ is_dig c = true)).
    { destruct n as [neg ip fr ex]. unfold num_ok in Hwf. cbn [n_int] in Hwf.
      apply andb_prop in Hwf. destruct Hwf as [H _]. apply andb_prop in H. destruct H as [H _].
      destruct (int_ok_head ip H) as [c [t [E Hc]]]. subst. unfold num_text. cbn [n_neg n_int].
      destruct neg; cbn [app]; eauto. }
    destruct Hh as [c [t [E Hc]]]. rewrite E. rewrite pv_number by exact Hc. rewrite <- E.
    rewrite parse_number_text by assumption. reflexivity.
  - simpl in Hwf. cbn [render]. unfold esc_string. cbn [app]. rewrite <- app_assoc. cbn [app]. simpl.
    rewrite parse_esc_body by exact Hwf. reflexivity.
  - destruct l as [|x t]; [reflexivity|].
    rewrite render_arr_cons. cbn [app]. rewrite <- !app_assoc. cbn [app]. rewrite pv_arr.
    rewrite skip_ws_nl.
    simpl in Hwf. apply andb_prop in Hwf. destruct Hwf as [Wx Wt]. inversion IH as [|? ? Hx Ht]; subst.
    pose proof (render_starts ind (S lvl) x
      (flat_map (fun y => 44 :: nl ind (S lvl) ++ render ind (S lvl) y) t ++ nl ind lvl ++ 93 :: rest) Wx) as Hs.
    rewrite (skip_ws_start _ Hs).
    destruct (render ind (S lvl) x ++ flat_map (fun y => 44 :: nl ind (S lvl) ++ render ind (S lvl) y) t ++ nl ind lvl ++ 93 :: rest)
      as [|c2 t2] eqn:E; [discriminate|].
    simpl in Hs. replace (c2 =? 93) with false by lia. rewrite <- E.
    rewrite (elems_back ind lvl rest t x f Hx Ht Wx Wt Hr) by (simpl in Hf; simpl; lia).
    reflexivity.
  - destruct m as [|kx t]; [reflexivity|].
    rewrite render_obj_cons. cbn [app]. rewrite <- !app_assoc. cbn [app]. rewrite pv_obj.
    rewrite skip_ws_nl.
    simpl in Hwf. apply andb_prop in Hwf. destruct Hwf as [Wx Wt]. inversion IH as [|? ? Hx Ht]; subst.
    assert (Hs : starts_ok (esc_string (fst kx) ++ colon ind ++ render ind (S lvl) (snd kx)
                 ++ flat_map (fun ky => 44 :: nl ind (S lvl) ++ esc_string (fst ky) ++ colon ind ++ render ind (S lvl) (snd ky)) t
                 ++ nl ind lvl ++ 125 :: rest) = true) by reflexivity.
    rewrite (skip_ws_start _ Hs).
    match type of Hs with starts_ok ?X = true => destruct X as [|c2 t2] eqn:E; [discriminate|] end.
    simpl in Hs. replace (c2 =? 125) with false by lia. rewrite <- E.
    rewrite (members_back ind lvl rest t kx f Hx Ht Wx Wt Hr) by (simpl in Hf; simpl; lia).
    reflexivity.
Qed.
