(* BaseFacts.v — elementary facts about Model/Base.v used everywhere *)
From Coq Require Import Lia.
From BS Require Import Model.Base.

Lemma str_eqb_refl (a : str) : str_eqb a a = true.
Proof. induction a as [|x a IH]; cbn; [reflexivity|]. rewrite N.eqb_refl, IH. reflexivity. Qed.

Lemma str_eqb_eq (a b : str) : str_eqb a b = true <-> a = b.
Proof.
  split.
  - revert b. induction a as [|x a IH]; intros [|y b] H; cbn in H; try discriminate; [reflexivity|].
    apply andb_true_iff in H. destruct H as [Hx Hr]. apply N.eqb_eq in Hx. subst. f_equal. apply IH, Hr.
  - intros ->. apply str_eqb_refl.
Qed.

Lemma str_eqb_neq (a b : str) : str_eqb a b = false <-> a <> b.
Proof.
  split.
  - intros H E. apply str_eqb_eq in E. congruence.
  - intros H. destruct (str_eqb a b) eqn:E; [apply str_eqb_eq in E; contradiction | reflexivity].
Qed.

Lemma str_mem_In (x : str) (l : list str) : str_mem x l = true <-> In x l.
Proof.
  induction l as [|y l IH]; cbn; [split; [discriminate | intros []]|].
  rewrite orb_true_iff, IH, str_eqb_eq. split; intros [H|H]; auto.
Qed.

Lemma assoc_In {A} (k : str) (l : list (str * A)) (v : A) : assoc k l = Some v -> In (k, v) l.
Proof.
  induction l as [|[k' v'] l IH]; cbn; [discriminate|].
  destruct (str_eqb k k') eqn:E.
  - apply str_eqb_eq in E. intros H. inversion H. subst. left. reflexivity.
  - intros H. right. apply IH, H.
Qed.

Lemma assoc_In_fst {A} (k : str) (l : list (str * A)) (v : A) : assoc k l = Some v -> In k (map fst l).
Proof. intros H. apply assoc_In in H. apply (in_map fst) in H. exact H. Qed.
