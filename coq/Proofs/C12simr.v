(* Proofs/C12simr.v — property C12, what is NOT invariant under respelling: the functions that PRINT a number.
   None of them is in Model/LibSeq.v (stringNew is in Model/LibCore.v over Model/Arith.v's value_string; arrayJoin and
   jsonStringify are not modelled), so the simulation theorem of Proofs/C12siml.v is unaffected; this file records the
   witness found by evaluation:   -0.0 is an integral float (int(-0.0) == 0 and -0.0 == 0 in Python, `nsim 0 -0.0` here,
   and the differential oracle's respelling `int(x) if x == int(x)` maps it to 0), but value_string prints it "-0"
   while the int 0 prints "0".  Everywhere else below 1e16 the two spellings print alike (num_to_str_integral). *)
From Coq Require Import Lia ZifyBool SpecFloat.
From BS Require Import Model.Base Model.Num Proofs.BaseFacts.
From BS Require Model.Arith Model.Interp Model.LibCore.
From BS Require Import Model.LibVal Model.LibSeq Proofs.C15 Proofs.C12.
Local Open Scope Z_scope.

Module A := BS.Model.Arith.
Module IT := BS.Model.Interp.
Module LC := BS.Model.LibCore.

Definition neg_zero : num := NFlt (S754_zero true).
Lemma neg_zero_is_a_spelling_of_zero : nsim (NInt 0) neg_zero.
Proof. apply nsim_int_float. split; reflexivity. Qed.

(* value_string *)
Example value_string_neg_zero_refuted :
  nsim (NInt 0) neg_zero /\ A.num_to_str (NInt 0) = A.ARes (U "0") /\ A.num_to_str neg_zero = A.ARes (U "-0").
Proof. split; [exact neg_zero_is_a_spelling_of_zero | split; vm_compute; reflexivity]. Qed.

(* the exact calls: stringNew(0) = "0", stringNew(-0.0) = "-0", for every configuration, callback and world *)
Example stringNew_neg_zero_refuted : forall cfg cb w,
  fst (LC.libcore cfg cb (U "stringNew") [IT.VNum (NInt 0)] w) = IT.LVal (IT.VStr (U "0")) /\
  fst (LC.libcore cfg cb (U "stringNew") [IT.VNum neg_zero] w) = IT.LVal (IT.VStr (U "-0")).
Proof. intros. split; vm_compute; reflexivity. Qed.

(* ... and it is the only one below 1e16: every other integral float prints exactly as its int *)
Lemma integral_sf_integral : forall s m e z, integral (NFlt (S754_finite s m e)) z -> A.sf_integral (S754_finite s m e) = Some z.
Proof.
  intros s m e z [P E]. unfold py_int in P. unfold A.sf_integral.
  destruct (Z.leb_spec 0 e) as [L|L].
  - apply Some_inj in P. subst z. destruct s; f_equal; try reflexivity. rewrite <- Pos2Z.opp_pos. ring.
  - assert (D : 0 < 2 ^ (- e)) by (apply Z.pow_pos_nonneg; lia).
    unfold num_eq, num_cmp, num_x, xcmp in E. replace (Z.min 0 e) with e in E by lia.
    replace (e - e) with 0 in E by lia. replace (0 - e) with (- e) in E by lia. change (2 ^ 0) with 1 in E. rewrite Z.mul_1_r in E.
    destruct (Z.compare_spec (z * 2 ^ (- e)) (if s then Z.neg m else Z.pos m)) as [Q| |]; try discriminate.
    assert (M : Z.pos m mod 2 ^ (- e) = 0).
    { destruct s.
      - replace (Z.pos m) with ((- z) * 2 ^ (- e)) by lia. apply Z_mod_mult.
      - rewrite <- Q. apply Z_mod_mult. }
    rewrite M. cbn [Z.eqb]. apply Some_inj in P. subst z. f_equal. destruct s; lia.
Qed.
Theorem num_to_str_integral : forall s m e z, integral (NFlt (S754_finite s m e)) z -> Z.abs z < 10 ^ 16 ->
  A.num_to_str (NFlt (S754_finite s m e)) = A.ARes (Z_to_str z).
Proof.
  intros s m e z H B. unfold A.num_to_str. rewrite (integral_sf_integral s m e z H).
  destruct (Z.ltb_spec (Z.abs z) (10 ^ 16)); [reflexivity | lia].
Qed.
Theorem num_to_str_pos_zero : A.num_to_str (NFlt (S754_zero false)) = A.ARes (Z_to_str 0).
Proof. reflexivity. Qed.
