(* Proofs/C09termClosure.v — closures and the termination clause: what the missing invariant buys.

   Proofs/C09termFullG.v shows that over arbitrary worlds the clause is false for libfull2 (a hidden array that holds its
   own closure).  Here the shape systemPartial gives a hidden array is made a GUARD of the closure call:
       [closure_ok w l]: the hidden array l has a head and at least one bound argument, and if the head is itself a
                         closure, it is one with a SMALLER location (allocated earlier).
   [libfull2g] is libfull2 except that calling a closure whose hidden array fails the guard is declined (LOracle); on
   every call where the guard holds the two libraries are the same function (libfull2g_same).  Every hidden array that
   lib_partial_new allocates satisfies the guard when the bound function was a closure that existed before (its location is
   smaller than the fresh one) - that the guard holds at every closure call of a run from a closure-free world is the
   reachability invariant that is NOT proved.

   For libfull2g the weaker termination premise (Proofs/C09termG.v) holds in EVERY world, so the clause holds for it with
   no premise on the library.  The measure [mu2]:
     * a closure called with >= 2 arguments: 1 + its location (the chain below it only meets older closures, leaves, and
       arraySort with >= 3 arguments, which fails on its arguments);
     * arraySort(X, closure q): 2 + q (every comparator call hands q two arguments);
     * arraySort(X, arraySort): 1 + the measure of its one comparator call, X emptied (as in mu_sort);
     * a closure called with <= 1 arguments: 1 + the measure of the call it makes, in the same world (recursion on the location). *)
From Coq Require Import List Lia ZArith Bool.
From BS Require Import Model.Base Model.Num Model.Arith Model.ExprParser Model.Script Model.Interp Model.LibCore Model.LibCall
                       Model.LibMore Model.LibAll Model.LibPartial Model.Run
                       Proofs.BaseFacts Proofs.InterpEq Proofs.C09 Proofs.C09term Proofs.LibCall Proofs.LibAll Proofs.LibPartial
                       Proofs.C09termFull Proofs.C09termG Proofs.C09termFullG.
Local Open Scope Z_scope.

Definition closure_ok (w : world) (l : nat) : bool :=
  match get_arr w l with
  | f :: _ :: _ =>
    match f with
    | VFun (FLib nm) => match partial_loc nm with Some l' => Nat.ltb l' l | None => true end
    | _ => true
    end
  | _ => false
  end.

Definition libfull2g (cfg : config) (callback : caller) (name : str) (args : list value) (w : world) : lres * world :=
  if op_is name "systemPartial" then lib_partial_new args w
  else match partial_loc name with
       | Some l => if closure_ok w l then lib_partial_call callback l args w else (LOracle, w)
       | None => libfull cfg callback name args w
       end.

Lemma libfull2g_same cfg cb name args w :
  (forall l, partial_loc name = Some l -> closure_ok w l = true) -> libfull2g cfg cb name args w = libfull2 cfg cb name args w.
Proof.
  intros H. unfold libfull2g, libfull2. destruct (op_is name "systemPartial"); [reflexivity|].
  destruct (partial_loc name) as [l|]; [|reflexivity]. rewrite (H l eq_refl). reflexivity.
Qed.

(* ---- the measure ---- *)
Fixpoint ms2 (fuel : nat) (args : list value) (w : world) : nat :=
  match fuel with
  | O => O
  | S k =>
    match args with
    | [VArr l; VFun (FLib nm)] =>
      if op_is nm "arraySort" then
        match get_arr w l with
        | x0 :: x1 :: _ => S (ms2 k [x1; x0] (set_arr w l []))
        | _ => 1%nat
        end
      else match partial_loc nm with Some q => S (S q) | None => 1%nat end
    | _ => 1%nat
    end
  end.

Definition mu_nc (name : str) (args : list value) (w : world) : nat :=
  if op_is name "arraySort" then (if Nat.leb 3 (length args) then O else ms2 (S (nbig w)) args w) else O.

Fixpoint mcl (fuel l : nat) (args : list value) (w : world) : nat :=
  match fuel with
  | O => O
  | S k =>
    if Nat.leb 2 (length args) then S l
    else match get_arr w l with
         | VFun (FLib nm) :: bound =>
           match partial_loc nm with
           | Some l' => if Nat.ltb l' l then S (mcl k l' (bound ++ args) w) else O
           | None => S (mu_nc nm (bound ++ args) w)
           end
         | _ => O
         end
  end.

Definition mu2 (name : str) (args : list value) (w : world) : nat :=
  match partial_loc name with Some l => mcl (S l) l args w | None => mu_nc name args w end.

Lemma mcl_stable : forall k1 k2 l args w, (S l <= k1)%nat -> (S l <= k2)%nat -> mcl k1 l args w = mcl k2 l args w.
Proof.
  induction k1 as [|k1 IH]; intros k2 l args w H1 H2; [lia|]. destruct k2 as [|k2]; [lia|]. cbn [mcl].
  destruct (Nat.leb 2 (length args)); [reflexivity|].
  destruct (get_arr w l) as [|f bound]; [reflexivity|]. destruct f; try reflexivity. destruct f as [nm|id]; [|reflexivity].
  destruct (partial_loc nm) as [l'|]; [|reflexivity]. destruct (Nat.ltb l' l) eqn:E; [|reflexivity].
  apply Nat.ltb_lt in E. rewrite (IH k2 l' (bound ++ args) w) by lia. reflexivity.
Qed.

Lemma sort_not_closure name : op_is name "arraySort" = true -> op_is name "systemPartial" = false /\ partial_loc name = None.
Proof. intros H. unfold op_is in H. apply str_eqb_eq in H. subst name. split; reflexivity. Qed.

Lemma closure_not_sort name l : partial_loc name = Some l -> op_is name "arraySort" = false.
Proof.
  intros H. destruct (op_is name "arraySort") eqn:E; [|reflexivity].
  destruct (sort_not_closure name E) as [_ H2]. rewrite H2 in H. discriminate H.
Qed.

Theorem libfull2g_post cfg : lib_post (libfull2g cfg) post_sort.
Proof.
  intros cb name args w Hs. unfold libfull2g. destruct (sort_not_closure name Hs) as [-> ->].
  apply (libfull_post cfg cb name args w Hs).
Qed.

Theorem libfull2g_wf cfg : lib_wf (libfull2g cfg) mu2 post_sort.
Proof.
  intros J c cb name args w Hc Hnon Hlow. unfold libfull2g.
  destruct (op_is name "systemPartial"); [apply T_const; rewrite partial_new_count; lia|].
  destruct (partial_loc name) as [l|] eqn:Epl.
  - (* a closure call *)
    destruct (closure_ok w l) eqn:Eok; [|apply T_const; cbn; lia].
    apply partial_call_T_at. intros fv bound Eg.
    destruct fv as [ |b|n|s|us|l1|l1|fr|id]; try (apply Hnon; [exact Hc|intros nm; discriminate]).
    destruct fr as [nm|id]; [|apply Hnon; [exact Hc|intros nm; discriminate]].
    eapply TP_T. apply Hlow; [exact Hc|].
    unfold closure_ok in Eok. rewrite Eg in Eok. destruct bound as [|b0 bound]; [discriminate Eok|].
    unfold mu2 at 2. rewrite Epl. cbn [mcl]. rewrite Eg.
    assert (Hlen : (length ((b0 :: bound) ++ args) = S (length bound + length args))%nat) by (cbn; rewrite app_length; reflexivity).
    unfold mu2. destruct (partial_loc nm) as [l'|] eqn:Enm.
    + apply Nat.ltb_lt in Eok.
      destruct (Nat.leb 2 (length args)) eqn:E2.
      * apply Nat.leb_le in E2. cbn [mcl]. replace (Nat.leb 2 (length ((b0 :: bound) ++ args))) with true by (symmetry; apply Nat.leb_le; lia). lia.
      * assert (El : Nat.ltb l' l = true) by (apply Nat.ltb_lt; exact Eok). rewrite El.
        rewrite (mcl_stable (S l') l l' ((b0 :: bound) ++ args) w) by lia. lia.
    + destruct (Nat.leb 2 (length args)) eqn:E2; [|lia].
      apply Nat.leb_le in E2. unfold mu_nc. destruct (op_is nm "arraySort"); [|lia].
      replace (Nat.leb 3 (length ((b0 :: bound) ++ args))) with true by (symmetry; apply Nat.leb_le; lia). lia.
  - (* a function of libfull *)
    destruct (op_is name "arraySort") eqn:Hs; [|apply libfull_nocb_T; exact Hs].
    apply (T_ext _ _ _ (fun j f => lib_sort cfg (cb j f) args w)); [intros; apply libfull_sort; exact Hs|].
    destruct (lib_sort_shape cfg args w) as [(l & fv & -> & Hn)|Hsame].
    2:{ apply (T_ext _ _ _ (fun _ _ => lib_sort cfg (fun _ _ w' => (OFuel, w')) args w)); [intros; apply Hsame|].
        apply T_const. apply lib_sort_monotone. intros; cbn; lia. }
    assert (Hmu : forall nm, mu2 name [VArr l; VFun (FLib nm)] w =
                   if op_is nm "arraySort" then match get_arr w l with x0 :: x1 :: _ => S (ms2 (nbig w) [x1; x0] (set_arr w l [])) | _ => 1%nat end
                   else match partial_loc nm with Some q => S (S q) | None => 1%nat end).
    { intros nm. unfold mu2. rewrite Epl. unfold mu_nc. rewrite Hs. reflexivity. }
    assert (Hother : (forall x y w', c <= w_count w' -> T (w_count w') (fun j f => cb j f fv [x; y] w')) ->
                     T (w_count w) (fun j f => lib_sort cfg (cb j f) [VArr l; fv] w)).
    { intros H. apply (lib_sort_T_at cfg J c cb); [exact Hc|]. intros fv' x y w' E Hc'. cbn in E. injection E as <-. apply H. exact Hc'. }
    destruct fv as [ |b|n|s|us|l1|l1|fr|id]; try (apply Hother; intros; apply Hnon; [assumption|intros nm; discriminate]).
    destruct fr as [nm|id]; [|apply Hother; intros; apply Hnon; [assumption|intros nm; discriminate]].
    destruct (op_is nm "arraySort") eqn:Hnm.
    2:{ apply Hother. intros x y w' Hc'. eapply TP_T. apply Hlow; [exact Hc'|].
        rewrite Hmu, Hnm. unfold mu2. destruct (partial_loc nm) as [q|]; [cbn [mcl length Nat.leb]; lia|].
        unfold mu_nc. rewrite Hnm. lia. }
    destruct (get_arr w l) as [|x0 [|x1 rest]] eqn:Eg.
    + apply (T_ext _ _ _ (fun _ _ => lib_sort cfg (fun _ _ w' => (OFuel, w')) [VArr l; VFun (FLib nm)] w)).
      { intros. apply lib_sort_short. rewrite Eg. cbn. lia. }
      apply T_const. apply lib_sort_monotone. intros; cbn; lia.
    + apply (T_ext _ _ _ (fun _ _ => lib_sort cfg (fun _ _ w' => (OFuel, w')) [VArr l; VFun (FLib nm)] w)).
      { intros. apply lib_sort_short. rewrite Eg. cbn. lia. }
      apply T_const. apply lib_sort_monotone. intros; cbn; lia.
    + assert (Hlt : (mu2 nm [x1; x0] (set_arr w l []) < mu2 name [VArr l; VFun (FLib nm)] w)%nat).
      { rewrite Hmu, Hnm. unfold mu2 at 1. destruct (sort_not_closure nm Hnm) as [_ ->]. unfold mu_nc. rewrite Hnm.
        cbn [length Nat.leb]. rewrite (nbig_set_empty w l x0 x1 rest Eg). lia. }
      destruct (Hlow nm [x1; x0] (set_arr w l []) Hc Hlt) as (r & (f0 & S0) & M0 & Q0).
      assert (Hno : no_order r) by (intros v Ev; exact (Q0 Hnm v Ev)).
      exists (lib_sort cfg (fun _ _ _ => r) [VArr l; VFun (FLib nm)] w). split.
      * exists f0. intros j f Hf. apply (lib_sort_first cfg (cb j f) l (FLib nm) x0 x1 rest w r Eg (S0 j f Hf) Hno).
      * apply (lib_sort_first cfg (fun _ _ _ => r) l (FLib nm) x0 x1 rest w r Eg eq_refl Hno). exact M0.
Qed.

(* THE CLAUSE for the guarded library: every world, no premise on the library *)
Theorem libfull2g_run_terminates cfg cfg' url_rel lint_lines : 0 < c_max cfg ->
  forall sc w, exists fuel r, forall bot fuel', (fuel <= fuel')%nat ->
    execute_script_bot cfg (libfull2g cfg') url_rel lint_lines bot fuel' sc w = r.
Proof.
  intros Hpos. apply (terminatesG cfg (libfull2g cfg') url_rel lint_lines mu2 post_sort Hpos (libfull2g_post cfg') (libfull2g_wf cfg')).
Qed.

(* the hidden array systemPartial allocates passes the guard whenever the bound function is not a closure that does not exist yet *)
Lemma partial_new_guard args w v w1 l : lib_partial_new args w = (LVal v, w1) -> v = VFun (FLib (partial_name l)) ->
  (forall nm l', nth_error args 0 = Some (VFun (FLib nm)) -> partial_loc nm = Some l' -> (l' < length (w_arrs w))%nat) ->
  closure_ok w1 l = true.
Proof.
  unfold lib_partial_new, alloc_arr. intros H Hv Hold.
  destruct (validate w [A TFunction; ALast] args) as [va| |] eqn:Ev; try (cbn in H; discriminate H).
  destruct va as [|[f|] va]; try discriminate H. destruct va as [|[|rest] va]; try discriminate H.
  destruct va; try discriminate H. destruct rest as [|b0 rest]; [discriminate H|].
  injection H as Hv1 Hw1. subst w1. rewrite Hv in Hv1. injection Hv1 as Hl.
  assert (El : l = length (w_arrs w)).
  { apply Nnat.Nat2N.inj in Hl. symmetry. exact Hl. }
  subst l. unfold closure_ok, get_arr. cbn [w_arrs upd_arrs]. rewrite nth_error_app2 by lia. rewrite Nat.sub_diag. cbn [nth_error].
  destruct f; try reflexivity. destruct f as [nm|id]; [|reflexivity]. destruct (partial_loc nm) as [l'|] eqn:Enm; [|reflexivity].
  apply Nat.ltb_lt. apply (Hold nm l'); [|exact Enm].
  destruct args as [|a0 args']; [discriminate Ev|]. cbn in Ev. destruct a0; try discriminate Ev. cbn [nth_error].
  destruct args'; cbn in Ev; injection Ev as E1 _; rewrite E1; reflexivity.
Qed.
