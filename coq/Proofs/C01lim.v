(* C01lim.v — the C01 simulation under a POSITIVE statement limit: composition of the simulation proved for the
   unlimited interpreter (Proofs/C01b.v scope_sim) with the lock step of limited and unlimited runs (Proofs/C09.v).
   Under a limit the lowered code gives the structured result, or it is cut short by exactly the budget error. *)
From Coq Require Import List ZArith Lia.
From BS Require Import Model.Base Model.Num Model.Arith Model.ExprParser Model.Script Model.Interp
                       Proofs.InterpEq Proofs.Fuel Proofs.C01 Proofs.C01b Proofs.Blind Proofs.C09.
Local Open Scope Z_scope.

Section Lim.
Variable cfg : config.
Hypothesis Hpos : 0 < c_max cfg.
Variable lib : caller -> str -> list value -> world -> lres * world.
Variable url_rel : str -> str -> str.
Variable lint_lines : script -> list str.
Hypothesis Hfuel : lib_fuel_monotone lib.
Hypothesis Hblind : lib_count_blind lib.
Hypothesis Hmono : lib_monotone lib.
Hypothesis Hlock : lib_lockstep lib cfg.
Variable um : umode.
Variable lab : lkind -> nat -> str.
Hypothesis lab_inj : forall k n k' n', lab k n = lab k' n' -> k = k' /\ n = n'.

Let cfg0 := unlimited cfg.

Lemma unlimited_is_unlimited : c_max cfg0 = 0.
Proof. reflexivity. Qed.

Theorem scope_sim_limited : forall s loc w o loc' w',
  SExec cfg0 lib url_rel lint_lines um s (loc, w) o (loc', w') ->
  wf false s = true -> guard s = true ->
  forall n wm, weq w wm ->
  exists out wm' fuel, scope_result o = Some out /\ weq w' wm' /\ out <> OFuel /\
    let r := exec cfg lib url_rel lint_lines fuel (fst (compile lab None n s)) 0%nat [] loc um wm in
    r = (out, loc', wm') \/ (fst (fst r) = ORt (msg_exceeded (c_max cfg)) /\ c_max cfg < w_count wm').
Proof.
  intros s loc w o loc' w' H Hwf Hg n wm Hw.
  destruct (scope_sim cfg0 unlimited_is_unlimited lib url_rel lint_lines Hfuel um lab lab_inj
              (Ev_blind_holds cfg0 unlimited_is_unlimited lib url_rel lint_lines Hblind um)
              s loc w o loc' w' H Hwf Hg n wm Hw) as (out & wm' & Hout & Hw' & (fuel & Hrun & Hnf)).
  exists out, wm', fuel. split; [exact Hout|]. split; [exact Hw'|]. split; [exact Hnf|].
  destruct (lockstep lib url_rel lint_lines Hmono cfg Hpos Hlock fuel) as (_ & _ & Hx).
  specialize (Hx (fst (compile lab None n s)) 0%nat [] loc um wm).
  fold cfg0 in Hx. rewrite Hrun in Hx. exact Hx.
Qed.

End Lim.
