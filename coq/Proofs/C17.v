(* Proofs/C17.v — url_file_relative (Model/Url.v) and the include statement over a virtual file system. *)
From Coq Require Import Lia ZifyBool.
From BS Require Import Model.Base Model.Regex Model.Url Proofs.BaseFacts Gen.Unicode Gen.Regexes.

(* ================================================================== A. the URL test: `^[a-z]+:` for ALL strings *)
Definition lower (c : N) : bool := ((97 <=? c) && (c <=? 122))%N.
(* one or more lower-case ASCII letters, then a colon *)
Fixpoint url_scan (seen : bool) (s : str) : bool :=
  match s with
  | c :: t => if lower c then url_scan true t else seen && (c =? 58)%N
  | [] => false
  end.
Definition is_url_spec (s : str) : bool := url_scan false s.

Definition LCLS : regex := RIn false [CRange 97 122].
Definition K0 : nat -> str -> caps -> mres := fun p _ c => MYes p c.

(* what the greedy repeat followed by `:` returns (the end position included) *)
Fixpoint rep_res (mn pos : nat) (rest : str) : mres :=
  match rest with
  | c :: t =>
    if lower c then rep_res (pred mn) (S pos) t
    else match mn with O => if (c =? 58)%N then MYes (S pos) [] else MNo | _ => MNo end
  | [] => MNo
  end.

Lemma class_lower c : class_match UC false [CRange 97 122] c = lower c.
Proof. unfold class_match, lower. cbn. rewrite orb_false_r. destruct ((97 <=? c)%N && (c <=? 122)%N); reflexivity. Qed.

Lemma rep_res_not_fuel mn pos rest : rep_res mn pos rest <> MFuel.
Proof.
  revert mn pos. induction rest as [|c t IH]; intros mn pos; cbn; [discriminate|].
  destruct (lower c); [apply IH|]. destruct mn; [destruct (c =? 58)%N|]; discriminate.
Qed.

Lemma m_rep_step f mn cls pos rest c k :
  m UC (S f) (RRep mn None cls) pos rest c k =
  let more := m UC f cls pos rest c (fun p r' c' => if Nat.eqb p pos then MNo else m UC f (RRep (pred mn) None cls) p r' c' k) in
  match more with
  | MNo => match mn with O => k pos rest c | _ => MNo end
  | _ => more
  end.
Proof. reflexivity. Qed.
Lemma m_in_step f neg items pos rest c k :
  m UC (S f) (RIn neg items) pos rest c k =
  match rest with y :: t => if class_match UC neg items y then k (S pos) t c else MNo | [] => MNo end.
Proof. reflexivity. Qed.
Lemma m_lit_step f x pos rest c k :
  m UC (S f) (RLit x) pos rest c k =
  match rest with y :: t => if (y =? x)%N then k (S pos) t c else MNo | [] => MNo end.
Proof. reflexivity. Qed.

Lemma m_rep (g : nat) : forall rest f mn pos, length rest + 2 <= f ->
  m UC f (RRep mn None LCLS) pos rest [] (fun p r c => m UC (S g) (RLit 58) p r c K0) = rep_res mn pos rest.
Proof.
  unfold LCLS.
  induction rest as [|c t IH]; intros f mn pos Hf.
  - destruct f as [|f]; [cbn in Hf; lia|]. destruct f as [|f]; [cbn in Hf; lia|].
    rewrite m_rep_step. cbv zeta. rewrite m_in_step. destruct mn; [rewrite m_lit_step|]; reflexivity.
  - destruct f as [|f]; [cbn in Hf; lia|]. destruct f as [|f]; [cbn in Hf; lia|].
    cbn [length] in Hf.
    rewrite m_rep_step. cbv zeta. rewrite m_in_step. rewrite class_lower. cbn [rep_res].
    destruct (lower c) eqn:Lc.
    + replace (Nat.eqb (S pos) pos) with false by (symmetry; apply Nat.eqb_neq; lia).
      rewrite (IH (S f) (pred mn) (S pos)) by lia.
      destruct (rep_res (pred mn) (S pos) t) eqn:E; try reflexivity.
      (* the repeat failed after taking c: fall back to `:` at c, which is a letter *)
      destruct mn; [|reflexivity]. rewrite m_lit_step.
      assert (H58 : (c =? 58)%N = false) by (unfold lower in Lc; lia).
      rewrite H58. reflexivity.
    + destruct mn; [|reflexivity]. rewrite m_lit_step. unfold K0. destruct (c =? 58)%N; reflexivity.
Qed.

Lemma rep_res_scan : forall rest mn pos, mn <= 1 ->
  match rep_res mn pos rest with MYes _ _ => true | _ => false end = url_scan (Nat.eqb mn 0) rest.
Proof.
  induction rest as [|c t IH]; intros mn pos Hmn; cbn; [reflexivity|].
  destruct (lower c).
  - rewrite IH by lia. replace (Nat.eqb (pred mn) 0) with true by (symmetry; apply Nat.eqb_eq; lia). reflexivity.
  - destruct mn; [destruct (c =? 58)%N; reflexivity | reflexivity].
Qed.

Lemma m_cat_step f a b pos rest c k :
  m UC (S f) (RCat a b) pos rest c k = m UC f a pos rest c (fun p r' c' => m UC f b p r' c' k).
Proof. reflexivity. Qed.
Lemma m_bol_step f pos rest c k :
  m UC (S f) RBol pos rest c k = if Nat.eqb pos 0 then k pos rest c else MNo.
Proof. reflexivity. Qed.

Lemma is_url_is_spec s : is_url s = Some (is_url_spec s).
Proof.
  unfold is_url, re_match.
  assert (HF : fuel_for R_URL s = S (S (S (length s + 1 + (7 * length s + 12))))) by (unfold fuel_for, R_URL; cbn [rsize]; lia).
  rewrite HF. set (G := length s + 1 + (7 * length s + 12)).
  unfold R_URL. rewrite m_cat_step, m_bol_step. cbn [Nat.eqb]. rewrite m_cat_step.
  pose proof (m_rep G s (S G) 1 0) as HR. unfold K0, LCLS in HR. rewrite HR by (unfold G; lia). clear HR.
  pose proof (rep_res_scan s 1 0 (le_n 1)) as H. cbn [Nat.eqb] in H. unfold is_url_spec. rewrite <- H.
  destruct (rep_res 1 0 s) eqn:E; try reflexivity. exfalso. eapply rep_res_not_fuel. exact E.
Qed.

(* ================================================================== B. resolution *)
Definition resolve_spec (base u : str) : str :=
  if is_url_spec u then u
  else if starts_with_slash u then path_str u
  else if is_url_spec base then dir_prefix base ++ u
  else path_join (dirname base) (path_str u).

Theorem ufr_resolution base u : url_file_relative base u = Some (resolve_spec base u).
Proof.
  unfold url_file_relative, resolve_spec. rewrite !is_url_is_spec.
  destruct (is_url_spec u); [reflexivity|]. destruct (starts_with_slash u); [reflexivity|].
  destruct (is_url_spec base); reflexivity.
Qed.

Corollary ufr_total base u : url_file_relative base u <> None.
Proof. rewrite ufr_resolution. discriminate. Qed.

(* absolute references do not depend on the includer *)
Theorem ufr_absolute_any_base b1 b2 u : is_url_spec u || starts_with_slash u = true ->
  url_file_relative b1 u = url_file_relative b2 u.
Proof.
  rewrite !ufr_resolution. unfold resolve_spec. intros H.
  destruct (is_url_spec u); [reflexivity|]. cbn in H. rewrite H. reflexivity.
Qed.

(* ---- dir_prefix facts ---- *)
Lemma drop_to_slash_app_in r1 r2 : existsb (fun c => (c =? SL)%N) r1 = true -> drop_to_slash (r1 ++ r2) = drop_to_slash r1 ++ r2.
Proof.
  induction r1 as [|c r1 IH]; cbn; [discriminate|]. destruct (c =? SL)%N; [reflexivity|]. cbn. exact IH.
Qed.
Lemma drop_to_slash_app_out r1 r2 : existsb (fun c => (c =? SL)%N) r1 = false -> drop_to_slash (r1 ++ r2) = drop_to_slash r2.
Proof.
  induction r1 as [|c r1 IH]; cbn; [reflexivity|]. destruct (c =? SL)%N; [discriminate|]. cbn. exact IH.
Qed.
Lemma existsb_rev {A} (f : A -> bool) l : existsb f (rev l) = existsb f l.
Proof.
  induction l as [|x l IH]; [reflexivity|]. cbn. rewrite existsb_app, IH. cbn. rewrite orb_false_r. apply orb_comm.
Qed.
Definition has_slash (s : str) : bool := existsb (fun c => (c =? SL)%N) s.

Lemma dir_prefix_app a b :
  dir_prefix (a ++ b) = if has_slash b then a ++ dir_prefix b else dir_prefix a.
Proof.
  unfold dir_prefix, has_slash. rewrite rev_app_distr. destruct (existsb _ b) eqn:E.
  - rewrite drop_to_slash_app_in by (rewrite existsb_rev; exact E). rewrite rev_app_distr, rev_involutive. reflexivity.
  - rewrite drop_to_slash_app_out by (rewrite existsb_rev; exact E). reflexivity.
Qed.

Lemma drop_to_slash_fix r : drop_to_slash (drop_to_slash r) = drop_to_slash r.
Proof.
  induction r as [|c r IH]; [reflexivity|]. cbn. destruct (c =? SL)%N eqn:E; [cbn; rewrite E; reflexivity | exact IH].
Qed.
Lemma dir_prefix_idem s : dir_prefix (dir_prefix s) = dir_prefix s.
Proof. unfold dir_prefix. rewrite rev_involutive, drop_to_slash_fix. reflexivity. Qed.

Lemma dir_prefix_no_slash s : has_slash s = false -> dir_prefix s = [].
Proof.
  unfold dir_prefix, has_slash. intros H. rewrite <- existsb_rev in H.
  induction (rev s) as [|c r IH]; [reflexivity|]. cbn in *. destruct (c =? SL)%N; [discriminate|]. apply IH, H.
Qed.

(* URL base: a relative reference stays inside the directory of the includer, at every level of the tree:
   the directory of the resolved location is the includer's directory followed by the reference's own directory *)
Theorem url_base_compositional base u :
  dir_prefix (dir_prefix base ++ u) = dir_prefix base ++ dir_prefix u.
Proof.
  rewrite dir_prefix_app. destruct (has_slash u) eqn:E; [reflexivity|].
  rewrite dir_prefix_idem, (dir_prefix_no_slash u E), app_nil_r. reflexivity.
Qed.

Lemma str_prefix_app a b : str_prefix a (a ++ b) = true.
Proof. induction a as [|x a IH]; [reflexivity|]. cbn. rewrite N.eqb_refl, IH. reflexivity. Qed.

Theorem ufr_relative_url_base base u : is_url_spec u = false -> starts_with_slash u = false -> is_url_spec base = true ->
  url_file_relative base u = Some (dir_prefix base ++ u) /\ str_prefix (dir_prefix base) (dir_prefix base ++ u) = true.
Proof.
  intros H1 H2 H3. rewrite ufr_resolution. unfold resolve_spec. rewrite H1, H2, H3. split; [reflexivity | apply str_prefix_app].
Qed.

Lemma path_join_prefix d x : starts_with_slash x = false -> str_prefix d (path_join d x) = true.
Proof.
  intros H. unfold path_join. rewrite H. destruct d as [|c d]; [reflexivity|].
  destruct (last (c :: d) 0%N =? SL)%N; apply str_prefix_app.
Qed.

(* str(Path(u)) of a relative reference is relative *)
Lemma splitroot_relative u : starts_with_slash u = false -> splitroot u = ([], u).
Proof. destruct u as [|c t]; [reflexivity|]. cbn. intros ->. reflexivity. Qed.

Lemma split_slash_no_slash s : forall cur, Forall (fun p => has_slash p = false) (split_slash s cur) \/ has_slash (rev cur) = true.
Proof.
  induction s as [|c t IH]; intros cur; cbn.
  - destruct (has_slash (rev cur)) eqn:E; [right; reflexivity | left; constructor; [exact E | constructor]].
  - destruct (c =? SL)%N eqn:E.
    + destruct (has_slash (rev cur)) eqn:E2; [right; reflexivity|]. left. constructor; [exact E2|].
      destruct (IH []) as [H|H]; [exact H | cbn in H; discriminate].
    + destruct (IH (c :: cur)) as [H|H]; [left; exact H|]. right.
      cbn [rev] in H. unfold has_slash in *. rewrite existsb_app in H. cbn in H. rewrite E in H. cbn in H.
      rewrite orb_false_r in H. exact H.
Qed.

Lemma join_parts_relative parts : Forall (fun p => keep_part p = true) parts ->
  starts_with_slash (join_with [SL] parts) = false \/ exists p t, parts = p :: t /\ starts_with_slash p = true.
Proof.
  intros H. destruct parts as [|p t]; [left; reflexivity|].
  destruct (starts_with_slash p) eqn:E; [right; eauto|]. left.
  inversion H; subst. destruct p as [|c p]; [discriminate|]. cbn in E. destruct t; cbn; rewrite E; reflexivity.
Qed.

Lemma path_str_relative u : starts_with_slash u = false -> starts_with_slash (path_str u) = false.
Proof.
  intros H. unfold path_str. rewrite (splitroot_relative u H). cbn [app].
  assert (Hk : Forall (fun p => keep_part p = true) (path_parts u)).
  { unfold path_parts. apply Forall_forall. intros p Hp. apply filter_In in Hp. tauto. }
  assert (Hs : Forall (fun p => has_slash p = false) (path_parts u)).
  { unfold path_parts. destruct (split_slash_no_slash u []) as [Hs|Hs]; [|cbn in Hs; discriminate].
    apply Forall_forall. intros p Hp. apply filter_In in Hp. rewrite Forall_forall in Hs. apply Hs. tauto. }
  destruct (join_parts_relative (path_parts u) Hk) as [E|[p [t [E1 E2]]]].
  - destruct (join_with [SL] (path_parts u)); [reflexivity | exact E].
  - rewrite E1 in Hs. inversion Hs; subst. destruct p as [|c p]; [discriminate|]. cbn in E2. cbn in H2.
    unfold has_slash in H2. cbn in H2. rewrite E2 in H2. discriminate.
Qed.

(* ---- pathlib normalisation is idempotent ---- *)
Lemma split_slash_clean x : forall cur, has_slash x = false -> split_slash x cur = [rev cur ++ x].
Proof.
  induction x as [|c x IH]; intros cur H; cbn.
  - rewrite app_nil_r. reflexivity.
  - unfold has_slash in H. cbn in H. destruct (c =? SL)%N eqn:E; [discriminate|]. cbn in H.
    rewrite IH by exact H. cbn. rewrite <- app_assoc. reflexivity.
Qed.

Lemma split_slash_clean_then x rest : forall cur, has_slash x = false ->
  split_slash (x ++ SL :: rest) cur = (rev cur ++ x) :: split_slash rest [].
Proof.
  induction x as [|c x IH]; intros cur H; cbn.
  - rewrite app_nil_r. reflexivity.
  - unfold has_slash in H. cbn in H. destruct (c =? SL)%N eqn:E; [discriminate|]. cbn in H.
    rewrite IH by exact H. cbn. rewrite <- app_assoc. reflexivity.
Qed.

Lemma split_slash_join parts : parts <> [] -> Forall (fun p => has_slash p = false) parts ->
  split_slash (join_with [SL] parts) [] = parts.
Proof.
  induction parts as [|q t IH]; intros Hne H; [contradiction|].
  inversion H as [|? ? Hq Ht]; subst. destruct t as [|q2 t'].
  - cbn. apply split_slash_clean. exact Hq.
  - change (join_with [SL] (q :: q2 :: t')) with (q ++ [SL] ++ join_with [SL] (q2 :: t')). cbn [app].
    rewrite split_slash_clean_then by exact Hq. cbn [rev app]. f_equal. apply IH; [discriminate | exact Ht].
Qed.

Lemma path_parts_keep rel : Forall (fun p => keep_part p = true) (path_parts rel).
Proof. unfold path_parts. apply Forall_forall. intros p Hp. apply filter_In in Hp. tauto. Qed.

Lemma path_parts_clean rel : Forall (fun p => has_slash p = false) (path_parts rel).
Proof.
  unfold path_parts. destruct (split_slash_no_slash rel []) as [Hs|Hs]; [|cbn in Hs; discriminate].
  apply Forall_forall. intros p Hp. apply filter_In in Hp. rewrite Forall_forall in Hs. apply Hs. tauto.
Qed.

Lemma filter_all {A} (f : A -> bool) l : Forall (fun x => f x = true) l -> filter f l = l.
Proof. induction 1 as [|x l Hx Hl IH]; [reflexivity|]. cbn. rewrite Hx, IH. reflexivity. Qed.

Lemma path_parts_join parts : parts <> [] -> Forall (fun p => has_slash p = false) parts ->
  Forall (fun p => keep_part p = true) parts -> path_parts (join_with [SL] parts) = parts.
Proof.
  intros Hne Hc Hk. unfold path_parts. rewrite split_slash_join by assumption. apply filter_all, Hk.
Qed.

Lemma splitroot_shape p : fst (splitroot p) = [] \/ fst (splitroot p) = [SL] \/ fst (splitroot p) = [SL; SL].
Proof.
  destruct p as [|c1 [|c2 [|c3 t]]]; cbn; auto.
  - destruct (c1 =? SL)%N; cbn; auto.
  - destruct (c1 =? SL)%N; cbn; auto. destruct (c2 =? SL)%N; cbn; auto.
  - destruct (c1 =? SL)%N; cbn; auto. destruct (c2 =? SL)%N; cbn; auto. destruct (c3 =? SL)%N; cbn; auto.
Qed.

Lemma splitroot_rebuild root c x : (c =? SL)%N = false -> root = [] \/ root = [SL] \/ root = [SL; SL] ->
  splitroot (root ++ c :: x) = (root, c :: x).
Proof.
  intros Hc [-> | [-> | ->]]; cbn; rewrite ?Hc; try reflexivity.
Qed.

Lemma join_head parts : parts <> [] -> Forall (fun p => has_slash p = false) parts -> Forall (fun p => keep_part p = true) parts ->
  exists c x, join_with [SL] parts = c :: x /\ (c =? SL)%N = false.
Proof.
  intros Hne Hc Hk. destruct parts as [|q t]; [contradiction|].
  inversion Hc; subst. inversion Hk; subst. destruct q as [|c q]; [discriminate|].
  assert (E : (c =? SL)%N = false).
  { unfold has_slash in H1. cbn in H1. destruct (c =? SL)%N; [discriminate | reflexivity]. }
  destruct t; cbn; eauto.
Qed.

(* str(Path(str(Path(p)))) = str(Path(p)) : the normalisation is idempotent, so a resolved location that is resolved
   again (absolute path handed down the include tree) does not change *)
Theorem path_str_idempotent p : path_str (path_str p) = path_str p.
Proof.
  unfold path_str at 2 3. destruct (splitroot p) as [root rel] eqn:E.
  pose proof (splitroot_shape p) as Hshape. rewrite E in Hshape. cbn [fst] in Hshape.
  pose proof (path_parts_keep rel) as Hk. pose proof (path_parts_clean rel) as Hc.
  destruct (path_parts rel) as [|q t] eqn:Ep.
  - cbn [join_with]. rewrite app_nil_r. destruct Hshape as [-> | [-> | ->]]; reflexivity.
  - assert (Hne : q :: t <> []) by discriminate.
    destruct (join_head (q :: t) Hne Hc Hk) as [c [x [Ej Hcs]]].
    rewrite Ej.
    assert (Es : root ++ c :: x <> []) by (destruct root; discriminate).
    destruct (root ++ c :: x) as [|s0 s] eqn:Ers; [contradiction|]. rewrite <- Ers. clear Es.
    unfold path_str. rewrite splitroot_rebuild by assumption.
    rewrite <- Ej, path_parts_join by assumption. rewrite Ej, Ers. reflexivity.
Qed.

Lemma is_url_spec_slash u : starts_with_slash u = true -> is_url_spec u = false.
Proof.
  destruct u as [|c t]; [discriminate|]. cbn. intros H. apply N.eqb_eq in H. subst c. reflexivity.
Qed.

Lemma path_str_absolute u : starts_with_slash u = true -> starts_with_slash (path_str u) = true.
Proof.
  intros H. unfold path_str. destruct (splitroot u) as [root rel] eqn:E.
  assert (Hr : root = [SL] \/ root = [SL; SL]).
  { destruct u as [|c1 t1]; [discriminate|]. cbn in H. cbn in E. rewrite H in E.
    destruct t1 as [|c2 t2]; [inversion E; auto|]. destruct (c2 =? SL)%N; [|inversion E; auto].
    destruct t2 as [|c3 t3]; [inversion E; auto|]. destruct (c3 =? SL)%N; inversion E; auto. }
  destruct Hr as [-> | ->]; reflexivity.
Qed.

(* an absolute path that was resolved once is a fixed point of resolution, from every includer: handing a resolved
   location down the include tree does not change it *)
Theorem ufr_absolute_path_fixed b1 b2 u : starts_with_slash u = true ->
  exists r, url_file_relative b1 u = Some r /\ url_file_relative b2 r = Some r /\ starts_with_slash r = true.
Proof.
  intros H. exists (path_str u). rewrite !ufr_resolution. unfold resolve_spec.
  rewrite (is_url_spec_slash u H), H.
  rewrite (is_url_spec_slash _ (path_str_absolute u H)), (path_str_absolute u H), path_str_idempotent. auto.
Qed.

Theorem ufr_absolute_url_fixed b1 b2 u : is_url_spec u = true ->
  url_file_relative b1 u = Some u /\ url_file_relative b2 u = Some u.
Proof. intros H. rewrite !ufr_resolution. unfold resolve_spec. rewrite H. auto. Qed.

Theorem ufr_relative_path_base base u : is_url_spec u = false -> starts_with_slash u = false -> is_url_spec base = false ->
  url_file_relative base u = Some (path_join (dirname base) (path_str u)) /\
  str_prefix (dirname base) (path_join (dirname base) (path_str u)) = true.
Proof.
  intros H1 H2 H3. rewrite ufr_resolution. unfold resolve_spec. rewrite H1, H2, H3. split; [reflexivity|].
  apply path_join_prefix, path_str_relative, H2.
Qed.

(* a URL base with a directory part stays a URL all the way down the tree *)
Lemma url_scan_true_app p rest : url_scan true (p ++ rest) = if forallb lower p then url_scan true rest else url_scan true p.
Proof.
  induction p as [|c p IH]; [reflexivity|]. cbn. destruct (lower c); [exact IH | reflexivity].
Qed.

Lemma url_scan_split seen s : url_scan seen s = true ->
  exists p rest, s = p ++ 58%N :: rest /\ forallb lower p = true /\ (seen = true \/ p <> []).
Proof.
  revert seen. induction s as [|c t IH]; intros seen H; cbn in H; [discriminate|].
  destruct (lower c) eqn:L.
  - destruct (IH true H) as [p [rest [E [Hp _]]]]. exists (c :: p), rest. subst t. cbn. rewrite L, Hp.
    split; [reflexivity|]. split; [reflexivity|]. right. discriminate.
  - apply andb_true_iff in H. destruct H as [Hs Hc]. apply N.eqb_eq in Hc. subst c. exists [], t. cbn.
    split; [reflexivity|]. split; [reflexivity|]. left. exact Hs.
Qed.

Lemma url_scan_build seen p rest : forallb lower p = true -> (seen = true \/ p <> []) -> url_scan seen (p ++ 58%N :: rest) = true.
Proof.
  revert seen. induction p as [|c p IH]; intros seen Hp Hs; cbn.
  - destruct Hs as [->|Hs]; [reflexivity | contradiction].
  - cbn in Hp. apply andb_true_iff in Hp. destruct Hp as [Hc Hp]. rewrite Hc. apply IH; [exact Hp | left; reflexivity].
Qed.

Lemma lower_no_slash p : forallb lower p = true -> has_slash p = false.
Proof.
  unfold has_slash. induction p as [|c p IH]; [reflexivity|]. cbn. intros H. apply andb_true_iff in H. destruct H as [Hc Hp].
  rewrite (IH Hp). unfold lower, SL in *. destruct (c =? 47)%N eqn:E; [lia | reflexivity].
Qed.

Theorem url_base_stays_url base u : is_url_spec base = true -> has_slash base = true ->
  is_url_spec (dir_prefix base ++ u) = true.
Proof.
  unfold is_url_spec. intros H Hs. destruct (url_scan_split false base H) as [p [rest [E [Hp Hne]]]]. subst base.
  assert (Hrest : has_slash (58%N :: rest) = true).
  { unfold has_slash in *. rewrite existsb_app in Hs. fold (has_slash p) in Hs. rewrite (lower_no_slash p Hp) in Hs. exact Hs. }
  rewrite dir_prefix_app, Hrest.
  change (58%N :: rest) with ([58%N] ++ rest). rewrite dir_prefix_app.
  assert (Hr : has_slash rest = true) by (unfold has_slash in *; cbn in Hrest; exact Hrest).
  rewrite Hr. rewrite <- !app_assoc. cbn [app]. apply url_scan_build; assumption.
Qed.

(* ================================================================== C. the include statement *)
Section Tree.
Variable fs : vfs.

Definition node_of (f : nat) (o : iopts) (inc : str * bool) : list rtree :=
  match resolve_include o inc with
  | None => []
  | Some url =>
    match vfetch fs url with
    | FText sub => [RNode url (forest f fs (child_opts o url) sub)]
    | _ => [RNode url []]
    end
  end.

Definition pre (f : nat) (o : iopts) (incs : list (str * bool)) : list str :=
  flat_map preorder (flat_map (node_of f o) incs).

Lemma pre_app f o a b : pre f o (a ++ b) = pre f o a ++ pre f o b.
Proof. unfold pre. rewrite !flat_map_app. reflexivity. Qed.

Lemma forest_S f o body : flat_map preorder (forest (S f) fs o body) = pre f o (reachable_incs body).
Proof. reflexivity. Qed.

Lemma fetches_app a b : fetches (a ++ b) = fetches a ++ fetches b.
Proof. unfold fetches. apply flat_map_app. Qed.

(* the specification of a run against the pre-order [l] of the tree it walks:
   - the fetches are a prefix of the pre-order, all of it when the run completes;
   - a failure names the location fetched last, and that location is really missing / broken in the file system *)
Definition Spec (l : list str) (r : list event * ioutcome) : Prop :=
  (exists rest, l = fetches (fst r) ++ rest /\ (snd r = IDone -> rest = [])) /\
  (forall u, snd r = IFailed u -> (exists ev', fst r = ev' ++ [EFetch u]) /\ vfetch fs u = FMissing) /\
  (forall u, snd r = IParseError u -> (exists ev', fst r = ev' ++ [EFetch u]) /\ vfetch fs u = FBroken).

Lemma Spec_done_nil : Spec [] ([], IDone).
Proof. split; [exists []; auto | split; intros u H; discriminate]. Qed.

(* sequencing: r1 completed, r2 follows *)
Lemma Spec_seq l1 l2 ev1 ev2 out2 : Spec l1 (ev1, IDone) -> Spec l2 (ev2, out2) -> Spec (l1 ++ l2) (ev1 ++ ev2, out2).
Proof.
  intros [[r1 [E1 D1]] _] [[r2 [E2 D2]] [F2 P2]]. cbn in *. rewrite (D1 eq_refl), app_nil_r in E1. subst l1 l2.
  split; [|split].
  - exists r2. cbn. rewrite fetches_app, app_assoc. auto.
  - intros u H. destruct (F2 u H) as [[ev' ->] Hm]. split; [exists (ev1 ++ ev'); rewrite app_assoc; reflexivity | exact Hm].
  - intros u H. destruct (P2 u H) as [[ev' ->] Hm]. split; [exists (ev1 ++ ev'); rewrite app_assoc; reflexivity | exact Hm].
Qed.

(* r1 stopped (not IDone): whatever would follow is not walked *)
Lemma Spec_stop l1 l2 ev1 out1 : out1 <> IDone -> Spec l1 (ev1, out1) -> Spec (l1 ++ l2) (ev1, out1).
Proof.
  intros Hn [[r1 [E1 D1]] [F1 P1]]. cbn in *. subst l1. split; [|split; assumption].
  exists (r1 ++ l2). cbn. rewrite app_assoc. split; [reflexivity | intros H; contradiction].
Qed.

Section Level.
Variable f : nat.
Variable rec : iopts -> list istmt -> list event * ioutcome.
Hypothesis Hrec : forall o body, Spec (flat_map preorder (forest f fs o body)) (rec o body).

Lemma run_incs_spec o : forall incs, Spec (pre f o incs) (run_incs fs rec o incs).
Proof.
  induction incs as [|inc more IH]; [apply Spec_done_nil|].
  change (inc :: more) with ([inc] ++ more). rewrite pre_app. cbn [app run_incs].
  unfold pre at 1. cbn [flat_map]. rewrite app_nil_r. unfold node_of.
  destruct (resolve_include o inc) as [url|] eqn:R.
  2:{ cbn. split; [|split; intros u H; discriminate]. eexists. cbn. split; [reflexivity | discriminate]. }
  destruct (vfetch fs url) as [sub| |] eqn:V.
  - (* fetched and parsed: run it with the re-based options, then go on with the includer's own options *)
    specialize (Hrec (child_opts o url) sub). destruct (rec (child_opts o url) sub) as [ev out] eqn:Er.
    assert (Hnode : forall out', out' = out -> Spec (flat_map preorder [RNode url (forest f fs (child_opts o url) sub)]) (EFetch url :: ev, out')).
    { intros out' ->. cbn [flat_map preorder]. rewrite app_nil_r.
      destruct Hrec as [[r [E D]] [F P]]. cbn in *. split; [|split].
      - exists r. cbn. rewrite E. auto.
      - intros u H. destruct (F u H) as [[ev' ->] Hm]. split; [exists (EFetch url :: ev'); reflexivity | exact Hm].
      - intros u H. destruct (P u H) as [[ev' ->] Hm]. split; [exists (EFetch url :: ev'); reflexivity | exact Hm]. }
    destruct out.
    + destruct (run_incs fs rec o more) as [ev' out'] eqn:Em.
      change (EFetch url :: ev ++ ev') with ((EFetch url :: ev) ++ ev').
      apply Spec_seq; [apply Hnode; reflexivity | exact IH].
    + apply Spec_stop; [discriminate | apply Hnode; reflexivity].
    + apply Spec_stop; [discriminate | apply Hnode; reflexivity].
    + apply Spec_stop; [discriminate | apply Hnode; reflexivity].
    + apply Spec_stop; [discriminate | apply Hnode; reflexivity].
  - (* the text does not parse *)
    apply Spec_stop; [discriminate|]. cbn. split; [|split].
    + exists []. cbn. split; [reflexivity | discriminate].
    + intros u H. discriminate.
    + intros u H. inversion H. subst u. split; [exists []; reflexivity | exact V].
  - (* not fetched *)
    apply Spec_stop; [discriminate|]. cbn. split; [|split].
    + exists []. cbn. split; [reflexivity | discriminate].
    + intros u H. inversion H. subst u. split; [exists []; reflexivity | exact V].
    + intros u H. discriminate.
Qed.

(* the inlined loops of the ICall case are the generic ones *)
Lemma run_stmt_call o fb :
  run_stmt fs rec o (ICall fb) = (seq_with (fun x => run_stmt fs rec o x) fb, false).
Proof.
  cbn [run_stmt]. f_equal. induction fb as [|x t IH]; [reflexivity|]. cbn [seq_with]. rewrite <- IH. reflexivity.
Qed.
Lemma stmt_incs_call fb : stmt_incs (ICall fb) = (reach_with stmt_incs fb, false).
Proof.
  cbn [stmt_incs]. f_equal. induction fb as [|x t IH]; [reflexivity|]. cbn [reach_with]. rewrite <- IH. reflexivity.
Qed.

Definition StmtSpec (o : iopts) (s : istmt) : Prop :=
  Spec (pre f o (fst (stmt_incs s))) (fst (run_stmt fs rec o s)) /\ snd (run_stmt fs rec o s) = snd (stmt_incs s).

Lemma seq_spec o body : Forall (StmtSpec o) body ->
  Spec (pre f o (reach_with stmt_incs body)) (seq_with (fun x => run_stmt fs rec o x) body).
Proof.
  induction 1 as [|x t [Hx Hret] Ht IH]; [apply Spec_done_nil|].
  cbn [seq_with reach_with]. destruct (run_stmt fs rec o x) as [[ev1 out1] ret] eqn:E1.
  destruct (stmt_incs x) as [i ret'] eqn:E2. cbn in Hx, Hret. subst ret'.
  destruct out1.
  - destruct ret.
    + exact Hx.
    + destruct (seq_with (fun x0 => run_stmt fs rec o x0) t) as [ev2 out2]. rewrite pre_app. apply Spec_seq; assumption.
  - destruct ret; [exact Hx | rewrite pre_app; apply Spec_stop; [discriminate | exact Hx]].
  - destruct ret; [exact Hx | rewrite pre_app; apply Spec_stop; [discriminate | exact Hx]].
  - destruct ret; [exact Hx | rewrite pre_app; apply Spec_stop; [discriminate | exact Hx]].
  - destruct ret; [exact Hx | rewrite pre_app; apply Spec_stop; [discriminate | exact Hx]].
Qed.

Fixpoint stmt_spec o (s : istmt) {struct s} : StmtSpec o s.
Proof.
  destruct s as [incs|t| |fb].
  - split; [apply run_incs_spec | reflexivity].
  - split; [|reflexivity]. cbn. split; [|split; intros u H; discriminate]. exists []. cbn. auto.
  - split; [apply Spec_done_nil | reflexivity].
  - unfold StmtSpec. rewrite run_stmt_call, stmt_incs_call. cbn [fst snd]. split; [|reflexivity].
    apply seq_spec. induction fb as [|x t IH]; constructor; [apply stmt_spec | exact IH].
Qed.

Lemma run_stmts_spec o body : Spec (pre f o (reachable_incs body)) (run_stmts fs rec o body).
Proof.
  unfold run_stmts, reachable_incs. apply seq_spec. apply Forall_forall. intros x _. apply stmt_spec.
Qed.
End Level.

Theorem run_spec : forall fuel o body, Spec (flat_map preorder (forest fuel fs o body)) (run fuel fs o body).
Proof.
  induction fuel as [|f IH]; intros o body.
  - cbn. split; [|split; intros u H; discriminate]. exists []. cbn. split; [reflexivity | discriminate].
  - rewrite forest_S. cbn [run]. apply run_stmts_spec. exact IH.
Qed.

(* ---- statements after a `return` are dead; the includer goes on (return is local to the included script) ---- *)
Lemma seq_with_return (g : istmt -> list event * ioutcome * bool) pre_ post :
  g IRet = ([], IDone, true) -> seq_with g (pre_ ++ IRet :: post) = seq_with g pre_.
Proof.
  intros Hg. induction pre_ as [|x t IH]; cbn [app seq_with].
  - rewrite Hg. reflexivity.
  - destruct (g x) as [[ev1 out1] ret]. destruct out1; try reflexivity. destruct ret; [reflexivity|]. rewrite IH. reflexivity.
Qed.

Theorem return_is_local rec o pre_ post : run_stmts fs rec o (pre_ ++ IRet :: post) = run_stmts fs rec o pre_.
Proof. unfold run_stmts. apply seq_with_return. reflexivity. Qed.

(* the include loop: after a completed include, the next entry is resolved with the includer's OWN options
   (definitional in this functional model: [o] is an argument, the included script received a copy) *)
Theorem base_restored rec o inc more url sub ev :
  resolve_include o inc = Some url -> vfetch fs url = FText sub -> rec (child_opts o url) sub = (ev, IDone) ->
  run_incs fs rec o (inc :: more) =
  (EFetch url :: ev ++ fst (run_incs fs rec o more), snd (run_incs fs rec o more)).
Proof.
  intros R V E. cbn [run_incs]. rewrite R, V, E. destruct (run_incs fs rec o more). reflexivity.
Qed.
End Tree.

(* the included script's own includes are resolved against the RESOLVED url of the include statement *)
Lemma child_opts_base o url : o_url_base (child_opts o url) = Some url /\ o_sys_prefix (child_opts o url) = o_sys_prefix o.
Proof. split; reflexivity. Qed.

(* ---- what resolve_include does, by cases ---- *)
Theorem resolve_include_cases o url system :
  resolve_include o (url, system) =
  match (if system then o_sys_prefix o else None), o_url_base o with
  | Some prefix, _ => Some (resolve_spec prefix url)
  | None, Some base => Some (resolve_spec base url)
  | None, None => Some url
  end.
Proof.
  unfold resolve_include. destruct (if system then o_sys_prefix o else None); [apply ufr_resolution|].
  destruct (o_url_base o); [apply ufr_resolution | reflexivity].
Qed.

(* ---- non-vacuity: a tree with nested directories, a sibling after a sub-directory include, a system include from a
   nested file with a relative prefix, a return in an included script, an include inside a function body ---- *)
Definition ex_fs : vfs :=
  [ (U "lib/a.bare", FText [IEmit (U "a"); IInc [(U "util.bare", true)]; ICall [IInc [(U "sub/c.bare", false)]; IRet]; IEmit (U "a.end")]);
    (U "system/util.bare", FText [IEmit (U "u"); IInc [(U "helper.bare", false)]; IRet; IInc [(U "never.bare", false)]]);
    (U "system/helper.bare", FText [IEmit (U "h")]);
    (U "lib/sub/c.bare", FText [IEmit (U "c")]);
    (U "b.bare", FText [IEmit (U "b")]) ].
Definition ex_opts : iopts := {| o_url_base := Some (U "main.bare"); o_sys_prefix := Some (U "system/") |}.
Definition ex_body : list istmt := [IInc [(U "lib/a.bare", false); (U "./b.bare", false)]; IEmit (U "end")].

Example ex_run :
  run 5 ex_fs ex_opts ex_body =
  ([EFetch (U "lib/a.bare"); EEmit (U "a"); EFetch (U "system/util.bare"); EEmit (U "u"); EFetch (U "system/helper.bare"); EEmit (U "h");
    EFetch (U "lib/sub/c.bare"); EEmit (U "c"); EEmit (U "a.end"); EFetch (U "b.bare"); EEmit (U "b"); EEmit (U "end")], IDone).
Proof. vm_compute. reflexivity. Qed.

Example ex_missing :
  run 5 ex_fs ex_opts [IInc [(U "lib/a.bare", false)]; ICall [IInc [(U "lib/../gone.bare", false)]]; IEmit (U "unreached")] =
  ([EFetch (U "lib/a.bare"); EEmit (U "a"); EFetch (U "system/util.bare"); EEmit (U "u"); EFetch (U "system/helper.bare"); EEmit (U "h");
    EFetch (U "lib/sub/c.bare"); EEmit (U "c"); EEmit (U "a.end"); EFetch (U "lib/../gone.bare")], IFailed (U "lib/../gone.bare")).
Proof. vm_compute. reflexivity. Qed.

Example ex_resolution :
  url_file_relative (U "http://h.local/pkg/main.bare") (U "sub/./x.bare") = Some (U "http://h.local/pkg/sub/./x.bare") /\
  url_file_relative (U "app/main.bare") (U "sub/.//x.bare") = Some (U "app/sub/x.bare") /\
  url_file_relative (U "app/main.bare") (U "/abs//x.bare") = Some (U "/abs/x.bare") /\
  url_file_relative (U "app/main.bare") (U "https://o.org/x.bare") = Some (U "https://o.org/x.bare") /\
  url_file_relative (U ":bare-include:/") (U "diff.bare") = Some (U ":bare-include:/diff.bare").
Proof. vm_compute. repeat split. Qed.
