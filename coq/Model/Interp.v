(* Interp.v — transliteration of runtime.py: execute_script, _execute_script_helper (statement loop, label
   cache, statement budget, include), _script_function (parameter binding), evaluate_expression (lookup
   chains, if(), call wrapper, short-circuit and arithmetic operators), and of value.py: value_boolean,
   value_type, value_compare, value_string (non-container part).  The library is a parameter.
   No proofs here. *)
From Coq Require Import SpecFloat.
From BS Require Import Model.Base Model.Num Model.Arith Model.ExprParser Model.Script Gen.Library.
Local Open Scope Z_scope.

(* ---- values, heap, world ---- *)
Inductive fnref := FLib (name : str) | FScript (id : nat).

Inductive value :=
| VNull | VBool (b : bool) | VNum (n : num) | VStr (s : str) | VDate (us : Z)   (* naive local microseconds since 0001-01-01 *)
| VArr (l : nat) | VObj (l : nat)                                               (* heap locations: aliasing is observable *)
| VFun (f : fnref) | VRegex (id : N).

Definition env := list (str * value).

Record fundef := { fd_name : str; fd_args : option (list str); fd_last : bool; fd_body : list stmt }.

Record world := {
  w_globals : env;                        (* options['globals'] *)
  w_arrs : list (list value);             (* location = index *)
  w_objs : list (list (str * value));     (* insertion-ordered, keys unique *)
  w_funs : list fundef;                   (* script functions bound so far: FScript id *)
  w_log : list str;                       (* logFn calls, most recent first *)
  w_count : Z;                            (* options['statementCount'] *)
  w_fetched : list str                    (* URLs handed to fetchFn, most recent first *)
}.

Definition upd_globals (w : world) (g : env) : world :=
  {| w_globals := g; w_arrs := w_arrs w; w_objs := w_objs w; w_funs := w_funs w; w_log := w_log w; w_count := w_count w; w_fetched := w_fetched w |}.
Definition upd_arrs (w : world) (a : list (list value)) : world :=
  {| w_globals := w_globals w; w_arrs := a; w_objs := w_objs w; w_funs := w_funs w; w_log := w_log w; w_count := w_count w; w_fetched := w_fetched w |}.
Definition upd_objs (w : world) (o : list (list (str * value))) : world :=
  {| w_globals := w_globals w; w_arrs := w_arrs w; w_objs := o; w_funs := w_funs w; w_log := w_log w; w_count := w_count w; w_fetched := w_fetched w |}.
Definition upd_funs (w : world) (f : list fundef) : world :=
  {| w_globals := w_globals w; w_arrs := w_arrs w; w_objs := w_objs w; w_funs := f; w_log := w_log w; w_count := w_count w; w_fetched := w_fetched w |}.
Definition add_log (w : world) (s : str) : world :=
  {| w_globals := w_globals w; w_arrs := w_arrs w; w_objs := w_objs w; w_funs := w_funs w; w_log := s :: w_log w; w_count := w_count w; w_fetched := w_fetched w |}.
Definition upd_count (w : world) (c : Z) : world :=
  {| w_globals := w_globals w; w_arrs := w_arrs w; w_objs := w_objs w; w_funs := w_funs w; w_log := w_log w; w_count := c; w_fetched := w_fetched w |}.
Definition add_fetched (w : world) (u : str) : world :=
  {| w_globals := w_globals w; w_arrs := w_arrs w; w_objs := w_objs w; w_funs := w_funs w; w_log := w_log w; w_count := w_count w; w_fetched := u :: w_fetched w |}.

(* dict[k] = v : replace in place, else append *)
Fixpoint env_set {A} (k : str) (v : A) (e : list (str * A)) : list (str * A) :=
  match e with
  | [] => [(k, v)]
  | (k', v') :: t => if str_eqb k k' then (k, v) :: t else (k', v') :: env_set k v t
  end.
Definition env_get {A} (k : str) (e : list (str * A)) : option A := assoc k e.
Definition env_has {A} (k : str) (e : list (str * A)) : bool := match assoc k e with Some _ => true | None => false end.

Definition alloc_arr (w : world) (l : list value) : value * world := (VArr (length (w_arrs w)), upd_arrs w (w_arrs w ++ [l])).
Definition alloc_obj (w : world) (l : list (str * value)) : value * world := (VObj (length (w_objs w)), upd_objs w (w_objs w ++ [l])).
Fixpoint set_nth {A} (l : list A) (n : nat) (x : A) : list A :=
  match l, n with
  | _ :: t, O => x :: t
  | y :: t, S p => y :: set_nth t p x
  | [], _ => []
  end.

(* ---- value.py ---- *)
Definition truthy (w : world) (v : value) : bool :=            (* value_boolean *)
  match v with
  | VNull => false
  | VStr s => negb (match s with [] => true | _ => false end)
  | VBool b => b
  | VNum n => negb (num_is_zero n)
  | VDate _ => true
  | VArr l => match nth_error (w_arrs w) l with Some [] => false | _ => true end
  | _ => true
  end.

Definition type_name (v : value) : str :=                       (* value_type *)
  match v with
  | VNull => U "null" | VStr _ => U "string" | VBool _ => U "boolean" | VNum _ => U "number" | VDate _ => U "datetime"
  | VObj _ => U "object" | VArr _ => U "array" | VFun _ => U "function" | VRegex _ => U "regex"
  end.

Definition comparison_of_num (a b : num) : comparison :=
  (* -1 if left < right else (0 if left == right else 1): with a NaN both tests are false *)
  match num_compare a b with Some c => c | None => Gt end.

(* insertion sort of (key, value) pairs by key: sorted(dict.items()) (keys are unique) *)
Fixpoint ins_kv {A} (kv : str * A) (l : list (str * A)) : list (str * A) :=
  match l with
  | [] => [kv]
  | h :: t => match str_compare (fst kv) (fst h) with Gt => h :: ins_kv kv t | _ => kv :: l end
  end.
Definition sort_kv {A} (l : list (str * A)) : list (str * A) := fold_right ins_kv [] l.

Fixpoint vcompare (fuel : nat) (w : world) (a b : value) : option comparison :=     (* value_compare; None = out of fuel *)
  match fuel with
  | O => None
  | S f =>
    match a, b with
    | VNull, VNull => Some Eq
    | VNull, _ => Some Lt
    | _, VNull => Some Gt
    | VStr x, VStr y => Some (str_compare x y)
    | VBool x, VBool y => Some (Bool.compare x y)
    | VNum x, VNum y => Some (comparison_of_num x y)
    | VDate x, VDate y => Some (x ?= y)
    | VArr x, VArr y =>
      match nth_error (w_arrs w) x, nth_error (w_arrs w) y with
      | Some lx, Some ly =>
        (fix go (lx ly : list value) : option comparison :=
           match lx, ly with
           | [], [] => Some Eq
           | [], _ :: _ => Some Lt
           | _ :: _, [] => Some Gt
           | p :: lx', q :: ly' => match vcompare f w p q with Some Eq => go lx' ly' | r => r end
           end) lx ly
      | _, _ => None
      end
    | VObj x, VObj y =>
      match nth_error (w_objs w) x, nth_error (w_objs w) y with
      | Some lx, Some ly =>
        (fix go (lx ly : list (str * value)) : option comparison :=
           match lx, ly with
           | [], [] => Some Eq
           | [], _ :: _ => Some Lt
           | _ :: _, [] => Some Gt
           | (k1, p) :: lx', (k2, q) :: ly' =>
             match str_compare k1 k2 with
             | Eq => match vcompare f w p q with Some Eq => go lx' ly' | r => r end
             | c => Some c
             end
           end) (sort_kv lx) (sort_kv ly)
      | _, _ => None
      end
    | _, _ => Some (str_compare (type_name a) (type_name b))
    end
  end.

(* value_string for the types whose text does not need the JSON / ISO printers *)
Definition vstring (v : value) : ares str :=
  match v with
  | VNull => ARes (U "null")
  | VStr s => ARes s
  | VBool b => ARes (if b then U "true" else U "false")
  | VNum n => num_to_str n
  | VFun _ => ARes (U "<function>")
  | VRegex _ => ARes (U "<regex>")
  | VDate _ | VArr _ | VObj _ => AOracle
  end.

(* ---- outcomes ---- *)
Inductive outcome :=
| OVal (v : value)
| ORt (msg : str)                      (* BareScriptRuntimeError *)
| OParse (e : perr) (url : str)        (* BareScriptParserError from an include *)
| OExc (ret : value) (msg : str)       (* any other Python exception in flight; ret = what the call wrapper would return for it *)
| OFuel
| OOracle.                             (* the model declines: a payload it does not reproduce *)

Definition as_num (v : value) : option num := match v with VNum n => Some n | _ => None end.   (* _is_number: bool excluded *)

Definition of_ares (r : ares num) : outcome :=
  match r with ARes n => OVal (VNum n) | AErr => OVal VNull | AOracle => OOracle end.

Definition date_max_us : Z := 3652059 * 86400 * 1000000.

(* datetime + timedelta(milliseconds = n): exact for integral n; OverflowError (an ArithmeticError) outside the range *)
Definition date_add_ms (us : Z) (n : num) : outcome :=
  let oz := match n with NInt z => Some z | NFlt f => sf_integral f end in
  match oz with
  | Some z =>
    if (1000000000 * 86400000 <=? Z.abs z) then OVal VNull
    else let r := us + z * 1000 in if (0 <=? r) && (r <? date_max_us) then OVal (VDate r) else OVal VNull
  | None => match n with NFlt f => if sf_is_finite f then OOracle else OVal VNull | _ => OOracle end
  end.

(* int(x) for a finite float: truncation toward zero *)
Definition sf_trunc (f : flt) : option Z :=
  match f with
  | S754_zero _ => Some 0
  | S754_finite s m e =>
    let q := if 0 <=? e then Zpos m * 2 ^ e else Zpos m / 2 ^ (- e) in Some (if s then - q else q)
  | _ => None
  end.

Definition sf_of_pos_Z (z : Z) : flt := Z_to_sf z.
Definition sf_half (neg : bool) : flt := S754_finite neg 4503599627370496 (-53).
Definition sf_1000 : flt := Z_to_sf 1000.

(* value_round_number((left - right).total_seconds() * 1000, 0) *)
Definition date_sub (a b : Z) : outcome :=
  let d := a - b in
  let secs := ratio_to_sf (d <? 0) (Z.abs d) 1000000 in        (* int / int true division *)
  let ms := SFmul prec emax secs sf_1000 in
  let ms1 := SFmul prec emax ms (Z_to_sf 1) in
  let neg := match SFcompare ms (S754_zero false) with Some Lt => true | _ => false end in
  match sf_trunc (SFadd prec emax ms1 (sf_half neg)) with
  | Some z => OVal (VNum (NFlt (Z_to_sf z)))                    (* int / 1 *)
  | None => OVal VNull
  end.

Definition op_is (op : str) (s : String.string) : bool := str_eqb op (U s).
Arguments op_is op s%string_scope.

Section Interp.

(* ---- static part of the options ---- *)
Record config := {
  c_max : Z;                              (* options.get('maxStatements', DEFAULT_MAX_STATEMENTS) *)
  c_debug : bool;
  c_haslog : bool;                        (* a logFn is given *)
  c_sysprefix : option str;
  c_fetch : option (str -> option str);   (* fetchFn; result None = returned None or raised *)
  c_urlfn : option (str -> str)           (* the host's urlFn *)
}.

Inductive lres := LVal (v : value) | LArgs (ret : value) (msg : str) | LRaise (msg : str) | LRt (msg : str) | LFuel | LOracle.

(* how a library function calls a function VALUE (callbacks): no wrapper around it *)
Definition caller := value -> list value -> world -> outcome * world.

Variable cfg : config.
Variable lib : caller -> str -> list value -> world -> lres * world.
Variable url_rel : str -> str -> str.                 (* options.url_file_relative *)
Variable lint_lines : script -> list str.             (* the warnings lint_script gives, rendered *)

(* the urlFn in force: the host's, or url_file_relative(<resolved url of the including file>, .) *)
Inductive umode := UHost | UBase (base : str).
Definition apply_urlfn (um : umode) (u : str) : str :=
  match um with
  | UBase b => url_rel b u
  | UHost => match c_urlfn cfg with Some f => f u | None => u end
  end.
Definition has_urlfn (um : umode) : bool := match um with UBase _ => true | UHost => match c_urlfn cfg with Some _ => true | None => false end end.

Definition log_if (b : bool) (w : world) (s : str) : world := if b && c_haslog cfg then add_log w s else w.

Definition lookup_var (x : str) (loc : option env) (w : world) : value :=
  if op_is x "null" then VNull else if op_is x "false" then VBool false else if op_is x "true" then VBool true
  else
    match match loc with Some l => env_get x l | None => None end with
    | Some v => v
    | None => match env_get x (w_globals w) with Some v => v | None => VNull end
    end.

(* the function VALUE a call resolves to: locals, globals, then (expression mode only) the built-in aliases *)
Definition lookup_fn (name : str) (loc : option env) (bi : bool) (w : world) : option value :=
  match match loc with Some l => env_get name l | None => None end with
  | Some v => Some v
  | None =>
    match env_get name (w_globals w) with
    | Some v => Some v
    | None => if bi then match assoc name gen_expr_alias with Some target => Some (VFun (FLib target)) | None => None end else None
    end
  end.

Definition unop (op : str) (w : world) (v : value) : value :=
  if op_is op "!" then VBool (negb (truthy w v))
  else if op_is op "-" then match as_num v with Some n => VNum (num_neg n) | None => VNull end
  else VNull.

Definition cmp_fuel (w : world) : nat := S (length (w_arrs w) + length (w_objs w)).

Definition relop (w : world) (a b : value) (test : comparison -> bool) : outcome :=
  match vcompare (cmp_fuel w) w a b with
  | Some c => OVal (VBool (test c))
  | None => OVal VNull          (* a value that contains itself: RecursionError, contained by the operator handler (F29) *)
  end.

Definition concat_str (l : str) (r : ares str) (left_first : bool) : outcome :=
  match r with
  | ARes s => OVal (VStr (if left_first then l ++ s else s ++ l))
  | AErr => OVal VNull
  | AOracle => OOracle
  end.

(* the non-short-circuit binary operators (inside `try: ... except (ArithmeticError, ValueError): pass`) *)
Definition binop (op : str) (w : world) (a b : value) : outcome :=
  if op_is op "+" then
    match as_num a, as_num b with
    | Some x, Some y => of_ares (num_add x y)
    | _, _ =>
      match a, b with
      | VStr x, VStr y => OVal (VStr (x ++ y))
      | VStr x, _ => concat_str x (vstring b) true
      | _, VStr y => concat_str y (vstring a) false
      | VDate d, VNum n => date_add_ms d n
      | VNum n, VDate d => date_add_ms d n
      | _, _ => OVal VNull
      end
    end
  else if op_is op "-" then
    match a, b with
    | VNum x, VNum y => of_ares (num_sub x y)
    | VDate x, VDate y => date_sub x y
    | _, _ => OVal VNull
    end
  else if op_is op "*" then
    match a, b with VNum x, VNum y => of_ares (num_mul x y) | _, _ => OVal VNull end
  else if op_is op "/" then
    match a, b with VNum x, VNum y => of_ares (num_div x y) | _, _ => OVal VNull end
  else if op_is op "==" then relop w a b (fun c => match c with Eq => true | _ => false end)
  else if op_is op "!=" then relop w a b (fun c => match c with Eq => false | _ => true end)
  else if op_is op "<=" then relop w a b (fun c => match c with Gt => false | _ => true end)
  else if op_is op "<" then relop w a b (fun c => match c with Lt => true | _ => false end)
  else if op_is op ">=" then relop w a b (fun c => match c with Lt => false | _ => true end)
  else if op_is op ">" then relop w a b (fun c => match c with Gt => true | _ => false end)
  else if op_is op "%" then
    match a, b with VNum x, VNum y => of_ares (num_mod x y) | _, _ => OVal VNull end
  else (* '**' *)
    match a, b with VNum x, VNum y => of_ares (num_pow x y) | _, _ => OVal VNull end.

(* _script_function: positional binding, missing -> null, surplus ignored, lastArgArray collects the rest *)
Fixpoint bind_args (names : list str) (n_names : nat) (ix : nat) (last : bool) (args : list value) (w : world) (acc : env) : env * world :=
  match names with
  | [] => (acc, w)
  | name :: rest =>
    let is_last := last && Nat.eqb ix (n_names - 1) in
    if Nat.ltb ix (length args) then
      if is_last then
        let '(v, w1) := alloc_arr w (skipn ix args) in bind_args rest n_names (S ix) last args w1 (env_set name v acc)
      else bind_args rest n_names (S ix) last args w (env_set name (nth ix args VNull) acc)
    else
      if is_last then
        let '(v, w1) := alloc_arr w [] in bind_args rest n_names (S ix) last args w1 (env_set name v acc)
      else bind_args rest n_names (S ix) last args w (env_set name VNull acc)
  end.

Definition find_label (name : str) (code : list stmt) : option nat :=
  (fix go (l : list stmt) (i : nat) : option nat :=
     match l with
     | [] => None
     | SLabel n :: t => if str_eqb n name then Some i else go t (S i)
     | _ :: t => go t (S i)
     end) code O.

Definition msg_unknown_label (l : str) : str := U "Unknown jump label """ ++ l ++ U """".
Definition msg_undefined_fn (n : str) : str := U "Undefined function """ ++ n ++ U """".
Definition msg_exceeded (mx : Z) : str := U "Exceeded maximum script statements (" ++ Z_to_str mx ++ U ")".
Definition msg_include_failed (u : str) : str := U "Include of """ ++ u ++ U """ failed".
Definition msg_fn_failed (n m : str) : str := U "BareScript: Function """ ++ n ++ U """ failed with error: " ++ m.

(* the result of exec: the outcome, the (possibly updated) locals, the world *)
Definition xres := (outcome * option env * world)%type.

(* call arguments, left to right, threading the world; stops at the first non-value outcome *)
Fixpoint eval_args (ev : expr -> option env -> bool -> umode -> world -> outcome * world) (loc : option env) (bi : bool) (um : umode)
         (l : list expr) (w0 : world) (acc : list value) : (outcome + list value) * world :=
  match l with
  | [] => (inr (rev acc), w0)
  | a :: t =>
    match ev a loc bi um w0 with
    | (OVal v, w1) => eval_args ev loc bi um t w1 (v :: acc)
    | (o, w1) => (inl o, w1)
    end
  end.

(* The three mutually recursive functions are written as NON-recursive bodies over their recursive calls,
   so that each has a one-step unfolding equation that holds by reflexivity (Proofs/Interp.v). *)
Definition evalT := expr -> option env -> bool -> umode -> world -> outcome * world.
Definition callT := value -> list value -> umode -> world -> outcome * world.
Definition execT := list stmt -> nat -> list (str * nat) -> option env -> umode -> world -> xres.

Definition eval_body (ev : evalT) (cl : callT) (e : expr) (loc : option env) (bi : bool) (um : umode) (w : world) : outcome * world :=
    match e with
    | ENum n => (OVal (VNum n), w)
    | EStr s => (OVal (VStr s), w)
    | EVar x => (OVal (lookup_var x loc w), w)
    | EGroup e1 => ev e1 loc bi um w
    | EUn op e1 =>
      match ev e1 loc bi um w with
      | (OVal v, w1) => (OVal (unop op w1 v), w1)
      | other => other
      end
    | EBin op l r =>
      match ev l loc bi um w with
      | (OVal lv, w1) =>
        if op_is op "&&" then (if truthy w1 lv then ev r loc bi um w1 else (OVal lv, w1))
        else if op_is op "||" then (if truthy w1 lv then (OVal lv, w1) else ev r loc bi um w1)
        else
          match ev r loc bi um w1 with
          | (OVal rv, w2) => (binop op w2 lv rv, w2)
          | other => other
          end
      | other => other
      end
    | ECall name args =>
      if op_is name "if" then
        let value_expr := nth_error args 0 in
        let true_expr := nth_error args 1 in
        let false_expr := nth_error args 2 in
        match (match value_expr with Some ve => ev ve loc bi um w | None => (OVal (VBool false), w) end) with
        | (OVal v, w1) =>
          match (if truthy w1 v then true_expr else false_expr) with
          | Some re => ev re loc bi um w1
          | None => (OVal VNull, w1)
          end
        | other => other
        end
      else
        (* arguments, left to right *)
        match eval_args ev loc bi um args w [] with
        | (inl o, w1) => (o, w1)
        | (inr vs, w1) =>
          match lookup_fn name loc bi w1 with
          | None | Some VNull => (ORt (msg_undefined_fn name), w1)
          | Some fv =>
            (* try: return func_value(func_args, options)  except (BareScriptRuntimeError, BareScriptParserError): raise
               except Exception: log; null / return_value *)
            match cl fv vs um w1 with
            | (OExc ret msg, w2) => (OVal ret, log_if (c_debug cfg) w2 (msg_fn_failed name msg))
            | other => other
            end
          end
        end
    end.

(* func_value(args, options): a raw call, no handler *)
Definition call_body (cl : callT) (ex : execT) (fv : value) (args : list value) (um : umode) (w : world) : outcome * world :=
    match fv with
    | VFun (FScript id) =>
      match nth_error (w_funs w) id with
      | Some fd =>
        let '(locals, w1) :=
          match fd_args fd with
          | Some names => bind_args names (length names) 0 (fd_last fd) args w []
          | None => ([], w)
          end in
        match ex (fd_body fd) 0%nat [] (Some locals) um w1 with
        | (o, _, w2) => (o, w2)
        end
      | None => (OExc VNull (U "model: unbound script function"), w)
      end
    | VFun (FLib name) =>
      match lib (fun fv' args' w' => cl fv' args' um w') name args w with
      | (LVal v, w1) => (OVal v, w1)
      | (LArgs ret msg, w1) => (OExc ret msg, w1)
      | (LRaise msg, w1) => (OExc VNull msg, w1)
      | (LRt msg, w1) => (ORt msg, w1)
      | (LFuel, w1) => (OFuel, w1)
      | (LOracle, w1) => (OOracle, w1)
      end
    | _ => (OExc VNull (U "object is not callable"), w)        (* TypeError *)
    end.

(* the include statement: for each include, resolve, fetch, parse, (debug) lint, run in global scope under a re-based urlFn *)
Fixpoint run_incs (ex : execT) (um : umode) (l : list (str * bool)) (w0 : world) : option outcome * world :=
            match l with
            | [] => (None, w0)
            | (u, sys) :: t =>
              let url :=
                match sys, c_sysprefix cfg with
                | true, Some p => url_rel p u
                | _, _ => if has_urlfn um then apply_urlfn um u else u
                end in
              let '(text, w1) :=
                match c_fetch cfg with
                | Some fetch => (fetch url, add_fetched w0 url)
                | None => (None, w0)
                end in
              match text with
              | None => (Some (ORt (msg_include_failed url)), w1)
              | Some txt =>
                match parse_script [txt] 1 with
                | ROk sc =>
                  let w2 :=
                    if c_debug cfg && c_haslog cfg then
                      match lint_lines sc with
                      | [] => w1
                      | ws =>
                        let n := length ws in
                        let w' := add_log w1 (U "BareScript: Include """ ++ url ++ U """ static analysis... " ++ nat_to_str n ++
                                              U " warning" ++ (if Nat.ltb 1 n then U "s" else []) ++ U ":") in
                        fold_left (fun acc s => add_log acc (U "BareScript:     " ++ s)) ws w'
                      end
                    else w1 in
                  match ex sc 0%nat [] None (UBase url) w2 with
                  | (OVal _, _, w3) => run_incs ex um t w3
                  | (o, _, w3) => (Some o, w3)
                  end
                | RErr pe => (Some (OParse pe url), w1)
                | RHost what => (Some (OExc VNull what), w1)
                | RFuel => (Some OFuel, w1)
                end
              end
            end.

(* one iteration of the statement loop of _execute_script_helper at statement index pc, with the label cache *)
Definition exec_body (ev : evalT) (ex : execT) (code : list stmt) (pc : nat) (cache : list (str * nat)) (loc : option env)
           (um : umode) (w : world) : xres :=
    match nth_error code pc with
    | None => (OVal VNull, loc, w)                             (* ran off the end: return None *)
    | Some st =>
      let w := upd_count w (w_count w + 1) in
      if (0 <? c_max cfg) && (c_max cfg <? w_count w) then (ORt (msg_exceeded (c_max cfg)), loc, w)
      else
        match st with
        | SExpr name e =>
          match ev e loc false um w with
          | (OVal v, w1) =>
            match name with
            | None => ex code (S pc) cache loc um w1
            | Some x =>
              match loc with
              | Some l => ex code (S pc) cache (Some (env_set x v l)) um w1
              | None => ex code (S pc) cache None um (upd_globals w1 (env_set x v (w_globals w1)))
              end
            end
          | (o, w1) => (o, loc, w1)
          end
        | SJump label cond =>
          let taken :=
            match cond with
            | None => (inr true, w)
            | Some c => match ev c loc false um w with (OVal v, w1) => (inr (truthy w1 v), w1) | (o, w1) => (inl o, w1) end
            end in
          match taken with
          | (inl o, w1) => (o, loc, w1)
          | (inr false, w1) => ex code (S pc) cache loc um w1
          | (inr true, w1) =>
            match assoc label cache with
            | Some ix => ex code (S ix) cache loc um w1
            | None =>
              match find_label label code with
              | Some ix => ex code (S ix) ((label, ix) :: cache) loc um w1
              | None => (ORt (msg_unknown_label label), loc, w1)
              end
            end
          end
        | SReturn None => (OVal VNull, loc, w)
        | SReturn (Some e) => match ev e loc false um w with (o, w1) => (o, loc, w1) end
        | SLabel _ => ex code (S pc) cache loc um w
        | SFunction name args _ lastarg body =>
          let id := length (w_funs w) in
          let w1 := upd_funs w (w_funs w ++ [{| fd_name := name; fd_args := args; fd_last := lastarg; fd_body := body |}]) in
          ex code (S pc) cache loc um (upd_globals w1 (env_set name (VFun (FScript id)) (w_globals w1)))
        | SInclude incs =>
          match run_incs ex um incs w with
          | (None, w1) => ex code (S pc) cache loc um w1
          | (Some o, w1) => (o, loc, w1)
          end
        end
    end.

(* (the recursive calls are eta-expanded so that call-by-value evaluation does not build the whole tower of closures) *)
Fixpoint eval (fuel : nat) : evalT :=
  match fuel with
  | O => fun _ _ _ _ w => (OFuel, w)
  | S f => fun e loc bi um w =>
    eval_body (fun e' loc' bi' um' w' => eval f e' loc' bi' um' w') (fun fv' a' um' w' => call f fv' a' um' w') e loc bi um w
  end
with call (fuel : nat) : callT :=
  match fuel with
  | O => fun _ _ _ w => (OFuel, w)
  | S f => fun fv args um w =>
    call_body (fun fv' a' um' w' => call f fv' a' um' w') (fun c' p' k' l' um' w' => exec f c' p' k' l' um' w') fv args um w
  end
with exec (fuel : nat) : execT :=
  match fuel with
  | O => fun _ _ _ loc _ w => (OFuel, loc, w)
  | S f => fun code pc cache loc um w =>
    exec_body (fun e' loc' bi' um' w' => eval f e' loc' bi' um' w') (fun c' p' k' l' um' w' => exec f c' p' k' l' um' w') code pc cache loc um w
  end.

End Interp.

(* execute_script: library injection that skips caller-supplied names, counter reset, run *)
Definition inject_library (g : env) : env :=
  fold_left (fun acc name => if env_has name acc then acc else acc ++ [(name, VFun (FLib name))]) gen_script_functions g.

Definition world0 (g : env) : world :=
  {| w_globals := g; w_arrs := []; w_objs := []; w_funs := []; w_log := []; w_count := 0; w_fetched := [] |}.

Definition execute_script cfg lib url_rel lint_lines (fuel : nat) (sc : script) (w : world) : outcome * world :=
  let w1 := upd_count (upd_globals w (inject_library (w_globals w))) 0 in
  match exec cfg lib url_rel lint_lines fuel sc 0%nat [] None UHost w1 with
  | (o, _, w2) => (o, w2)
  end.
