(* ScriptX.v — parse_script's line step split in two: [classify] (what kind of statement a
   logical line is: a function of the LINE TEXT only, by the regenerated regexes, in the code's
   order) and [apply_kind] (the effect on the parser state: no regex in it).  Proofs/ScriptFacts.v
   proves  pstep = classify ; apply_kind  and  ploop = llines ; pfold, so the shared model
   Model/Script.v stays the reference and these are only views of it.  No proofs here. *)
From BS Require Import Model.Base Model.Regex Model.Num Model.ExprParser Model.Script Gen.Unicode Gen.Regexes.

(* an expression group: the result of parse_expression on the group text and the offset the
   code adds to the expression-relative column (errors are raised LATER, after the state checks,
   exactly where pstep calls stmt_expr) *)
Inductive lkind :=
| KAssign (name : str) (pe : eres) (off : nat)
| KFnBegin (name : str) (args : option (option (list str))) (async lastarg : bool)   (* args = None: the split ran out of fuel *)
| KFnEnd
| KIf (pe : eres) (off : nat)
| KElif (pe : eres) (off : nat)
| KElse
| KEndIf
| KWhile (pe : eres) (off : nat)
| KEndWhile
| KFor (value index : str) (pe : eres) (off : nat)      (* index = [] when the group is absent/empty *)
| KEndFor
| KBreak
| KContinue
| KLabel (name : str)
| KJump (name : str) (pe : option eres) (off : nat)
| KReturn (pe : option eres) (off : nat)
| KInclude (url : str) (system : bool)
| KExpr (pe : eres).

Definition classify (line : str) : sres lkind :=
  match rxm R_SCRIPT_ASSIGNMENT line with
  | MFuel => RFuel
  | MYes _ c =>
    let ex := gtext line c R_SCRIPT_ASSIGNMENT__expr in
    ROk (KAssign (gtext line c R_SCRIPT_ASSIGNMENT__name) (parse_expression ex) (length line - length ex))
  | MNo =>
  match rxm R_SCRIPT_FUNCTION_BEGIN line with
  | MFuel => RFuel
  | MYes _ c =>
    ROk (KFnBegin (gtext line c R_SCRIPT_FUNCTION_BEGIN__name)
           (if ghas c R_SCRIPT_FUNCTION_BEGIN__args
            then match re_split UC R_SCRIPT_FUNCTION_ARG_SPLIT (gtext line c R_SCRIPT_FUNCTION_BEGIN__args) with
                 | Some l => Some (Some l) | None => None end
            else Some None)
           (ghas c R_SCRIPT_FUNCTION_BEGIN__async) (ghas c R_SCRIPT_FUNCTION_BEGIN__lastArgArray))
  | MNo =>
  match rxm R_SCRIPT_FUNCTION_END line with
  | MFuel => RFuel
  | MYes _ _ => ROk KFnEnd
  | MNo =>
  match rxm R_SCRIPT_IF_BEGIN line with
  | MFuel => RFuel
  | MYes _ c => ROk (KIf (parse_expression (gtext line c R_SCRIPT_IF_BEGIN__expr)) (gstart c R_SCRIPT_IF_BEGIN__expr))
  | MNo =>
  match rxm R_SCRIPT_IF_ELSE_IF line with
  | MFuel => RFuel
  | MYes _ c => ROk (KElif (parse_expression (gtext line c R_SCRIPT_IF_ELSE_IF__expr)) (gstart c R_SCRIPT_IF_ELSE_IF__expr))
  | MNo =>
  match rxm R_SCRIPT_IF_ELSE line with
  | MFuel => RFuel
  | MYes _ _ => ROk KElse
  | MNo =>
  match rxm R_SCRIPT_IF_END line with
  | MFuel => RFuel
  | MYes _ _ => ROk KEndIf
  | MNo =>
  match rxm R_SCRIPT_WHILE_BEGIN line with
  | MFuel => RFuel
  | MYes _ c => ROk (KWhile (parse_expression (gtext line c R_SCRIPT_WHILE_BEGIN__expr)) (gstart c R_SCRIPT_WHILE_BEGIN__expr))
  | MNo =>
  match rxm R_SCRIPT_WHILE_END line with
  | MFuel => RFuel
  | MYes _ _ => ROk KEndWhile
  | MNo =>
  match rxm R_SCRIPT_FOR_BEGIN line with
  | MFuel => RFuel
  | MYes _ c =>
    ROk (KFor (gtext line c R_SCRIPT_FOR_BEGIN__value) (gtext line c R_SCRIPT_FOR_BEGIN__index)
              (parse_expression (gtext line c R_SCRIPT_FOR_BEGIN__values)) (gstart c R_SCRIPT_FOR_BEGIN__values))
  | MNo =>
  match rxm R_SCRIPT_FOR_END line with
  | MFuel => RFuel
  | MYes _ _ => ROk KEndFor
  | MNo =>
  match rxm R_SCRIPT_BREAK line with
  | MFuel => RFuel
  | MYes _ _ => ROk KBreak
  | MNo =>
  match rxm R_SCRIPT_CONTINUE line with
  | MFuel => RFuel
  | MYes _ _ => ROk KContinue
  | MNo =>
  match rxm R_SCRIPT_LABEL line with
  | MFuel => RFuel
  | MYes _ c => ROk (KLabel (gtext line c R_SCRIPT_LABEL__name))
  | MNo =>
  match rxm R_SCRIPT_JUMP line with
  | MFuel => RFuel
  | MYes _ c =>
    let ex := gtext line c R_SCRIPT_JUMP__expr in
    ROk (KJump (gtext line c R_SCRIPT_JUMP__name)
               (match ex with [] => None | _ => Some (parse_expression ex) end)
               (length (gtext line c R_SCRIPT_JUMP__jump) - length ex - 1))
  | MNo =>
  match rxm R_SCRIPT_RETURN line with
  | MFuel => RFuel
  | MYes _ c =>
    let ex := gtext line c R_SCRIPT_RETURN__expr in
    ROk (KReturn (match ex with [] => None | _ => Some (parse_expression ex) end)
                 (length (gtext line c R_SCRIPT_RETURN__return) - length ex))
  | MNo =>
  match rxm R_SCRIPT_INCLUDE line with
  | MFuel => RFuel
  | MYes _ c =>
    match unesc R_EXPR_STRING_ESCAPE (gtext line c R_SCRIPT_INCLUDE__url) with
    | ROk u => ROk (KInclude u false) | RErr e => RErr e | RHost w => RHost w | RFuel => RFuel
    end
  | MNo =>
  match rxm R_SCRIPT_INCLUDE_SYSTEM line with
  | MFuel => RFuel
  | MYes _ c => ROk (KInclude (gtext line c R_SCRIPT_INCLUDE_SYSTEM__url) true)
  | MNo => ROk (KExpr (parse_expression line))
  end end end end end end end end end end end end end end end end end end.

(* the re-raise of a BareScriptParserError of the expression parser at (line, off + column, lineno) *)
Definition lift (pe : eres) (line : str) (off lineno : nat) : sres expr :=
  match pe with
  | EOk e => ROk e
  | EErr msg col => RErr (err msg line (off + col) lineno)
  | EHost w => RHost w
  | EFuel => RFuel
  end.

Definition apply_kind (ps : pstate) (lineno : nat) (line : str) (k : lkind) : sres pstate :=
  let E (msg : str) := RErr (err msg line 1 lineno) in
  match k with
  | KAssign name pe off =>
    match lift pe line off lineno with
    | ROk e => ROk (emit ps [SExpr (Some name) e])
    | RErr e => RErr e | RHost w => RHost w | RFuel => RFuel
    end
  | KFnBegin name args async lastarg =>
    match ps_fn ps with
    | Some _ => E (U "Nested function definition")
    | None =>
      match args with
      | Some a =>
        ROk {| ps_global := ps_global ps;
               ps_fn := Some {| fo_name := name; fo_args := a; fo_async := async; fo_lastarg := lastarg;
                                fo_body := []; fo_line := line; fo_lineno := lineno |};
               ps_fn_depth := length (ps_frames ps); ps_frames := ps_frames ps; ps_index := ps_index ps |}
      | None => RFuel
      end
    end
  | KFnEnd =>
    match ps_fn ps with
    | None => E (U "No matching function definition")
    | Some fo =>
      if Nat.ltb (ps_fn_depth ps) (length (ps_frames ps)) then
        match ps_frames ps with
        | f :: _ => RErr (err (U "Missing end" ++ frame_key f ++ U " statement") (frame_line f) 1 (frame_lineno f))
        | [] => RHost (U "IndexError")
        end
      else
        ROk {| ps_global := ps_global ps ++ [SFunction (fo_name fo) (fo_args fo) (fo_async fo) (fo_lastarg fo) (fo_body fo)];
               ps_fn := None; ps_fn_depth := 0; ps_frames := ps_frames ps; ps_index := ps_index ps |}
    end
  | KIf pe off =>
    match lift pe line off lineno with
    | ROk e =>
      let n := ps_index ps in
      let pos := length (cur_stmts ps) in
      let ps1 := emit ps [SJump (lbl L_If n) (Some (e_not e))] in
      ROk (bump (set_frames ps1 (FIf pos (lbl L_If n) (lbl L_Done n) false line lineno :: ps_frames ps)))
    | RErr e => RErr e | RHost w => RHost w | RFuel => RFuel
    end
  | KElif pe off =>
    match (if Nat.ltb (depth_floor ps) (length (ps_frames ps)) then ps_frames ps else []) with
    | FIf _ jl done has_else fl fn :: rest =>
      if has_else then E (U "Elif statement following else statement")
      else
        match lift pe line off lineno with
        | ROk e =>
          let n := ps_index ps in
          let pos := length (cur_stmts ps) + 2 in
          let ps1 := emit ps [SJump done None; SLabel jl; SJump (lbl L_If n) (Some (e_not e))] in
          ROk (bump (set_frames ps1 (FIf pos (lbl L_If n) done false fl fn :: rest)))
        | RErr e => RErr e | RHost w => RHost w | RFuel => RFuel
        end
    | _ => E (U "No matching if statement")
    end
  | KElse =>
    match (if Nat.ltb (depth_floor ps) (length (ps_frames ps)) then ps_frames ps else []) with
    | FIf pos jl done has_else fl fn :: rest =>
      if has_else then E (U "Multiple else statements")
      else ROk (set_frames (emit ps [SJump done None; SLabel jl]) (FIf pos jl done true fl fn :: rest))
    | _ => E (U "No matching if statement")
    end
  | KEndIf =>
    match (if Nat.ltb (depth_floor ps) (length (ps_frames ps)) then ps_frames ps else []) with
    | FIf pos jl done has_else _ _ :: rest =>
      let stmts :=
        if has_else then Some (cur_stmts ps) else retarget pos done (cur_stmts ps) in
      match stmts with
      | Some l => ROk (set_frames (set_stmts ps (l ++ [SLabel done])) rest)
      | None => RHost (U "model: pending jump not found")
      end
    | _ => E (U "No matching if statement")
    end
  | KWhile pe off =>
    match lift pe line off lineno with
    | ROk e =>
      let n := ps_index ps in
      let ps1 := emit ps [SJump (lbl L_Done n) (Some (e_not e)); SLabel (lbl L_Loop n)] in
      ROk (bump (set_frames ps1 (FWhile (lbl L_Loop n) (lbl L_Loop n) (lbl L_Done n) e false line lineno :: ps_frames ps)))
    | RErr e => RErr e | RHost w => RHost w | RFuel => RFuel
    end
  | KEndWhile =>
    if Nat.leb (length (ps_frames ps)) (depth_floor ps) then E (U "No matching while statement")
    else match ps_frames ps with
         | FWhile loop _ done e _ _ _ :: rest =>
           ROk (set_frames (emit ps [SJump loop (Some e); SLabel done]) rest)
         | _ => E (U "No matching while statement")
         end
  | KFor value index0 pe off =>
    match lift pe line off lineno with
    | ROk e =>
      let n := ps_index ps in
      let index := match index0 with [] => lbl L_Index n | s => s end in
      let values := lbl L_Values n in
      let len := lbl L_Length n in
      let ps1 := emit ps
        [SExpr (Some values) e;
         SExpr (Some len) (ECall (U "arrayLength") [EVar values]);
         SJump (lbl L_Done n) (Some (e_not (EVar len)));
         SExpr (Some index) (ENum (NInt 0));
         SLabel (lbl L_Loop n);
         SExpr (Some value) (ECall (U "arrayGet") [EVar values; EVar index])] in
      ROk (bump (set_frames ps1 (FFor (lbl L_Loop n) (lbl L_Continue n) (lbl L_Done n) index values len value false line lineno
                                   :: ps_frames ps)))
    | RErr e => RErr e | RHost w => RHost w | RFuel => RFuel
    end
  | KEndFor =>
    if Nat.leb (length (ps_frames ps)) (depth_floor ps) then E (U "No matching for statement")
    else match ps_frames ps with
         | FFor loop cont done index _ len _ has_cont _ _ :: rest =>
           ROk (set_frames (emit ps ((if has_cont then [SLabel cont] else []) ++
                  [SExpr (Some index) (EBin (U "+") (EVar index) (ENum (NInt 1)));
                   SJump loop (Some (EBin (U "<") (EVar index) (EVar len)));
                   SLabel done])) rest)
         | _ => E (U "No matching for statement")
         end
  | KBreak =>
    match find_loop (ps_frames ps) 0 with
    | Some (k, f) =>
      if Nat.ltb (length (ps_frames ps) - 1 - k) (depth_floor ps) then E (U "Break statement outside of loop")
      else ROk (emit ps [SJump (frame_done f) None])
    | None => E (U "Break statement outside of loop")
    end
  | KContinue =>
    match find_loop (ps_frames ps) 0 with
    | Some (k, f) =>
      if Nat.ltb (length (ps_frames ps) - 1 - k) (depth_floor ps) then E (U "Continue statement outside of loop")
      else ROk (emit (set_frames ps (set_nth_frame (ps_frames ps) k (mark_continue f))) [SJump (frame_continue f) None])
    | None => E (U "Continue statement outside of loop")
    end
  | KLabel name => ROk (emit ps [SLabel name])
  | KJump name None _ => ROk (emit ps [SJump name None])
  | KJump name (Some pe) off =>
    match lift pe line off lineno with
    | ROk e => ROk (emit ps [SJump name (Some e)])
    | RErr e => RErr e | RHost w => RHost w | RFuel => RFuel
    end
  | KReturn None _ => ROk (emit ps [SReturn None])
  | KReturn (Some pe) off =>
    match lift pe line off lineno with
    | ROk e => ROk (emit ps [SReturn (Some e)])
    | RErr e => RErr e | RHost w => RHost w | RFuel => RFuel
    end
  | KInclude url system =>
    match last_is_include (cur_stmts ps) with
    | Some (front, incs) => ROk (set_stmts ps (front ++ [SInclude (incs ++ [(url, system)])]))
    | None => ROk (emit ps [SInclude [(url, system)]])
    end
  | KExpr pe =>
    match lift pe line 0 lineno with
    | ROk e => ROk (emit ps [SExpr None e])
    | RErr e => RErr e | RHost w => RHost w | RFuel => RFuel
    end
  end.

Definition pstep2 (ps : pstate) (lineno : nat) (line : str) : sres pstate :=
  match classify line with
  | ROk k => apply_kind ps lineno line k
  | RErr e => RErr e | RHost w => RHost w | RFuel => RFuel
  end.

(* ---- the line loop split in two: the logical lines (front end), then the fold of pstep ---- *)
Inductive ltail := LDone (ls : lstate) | LFail (r : sres unit).

(* logical lines as (index of the first physical line, text), up to the first front-end failure *)
Fixpoint llines (lines : list str) (ix_part : nat) (ls : lstate) : list (nat * str) * ltail :=
  match lines with
  | [] => ([], LDone ls)
  | part :: rest =>
    match lstep ls ix_part part with
    | LSkip ls' => llines rest (S ix_part) ls'
    | LLine ls' ix line => let '(l, t) := llines rest (S ix_part) ls' in ((ix, line) :: l, t)
    | LBad r => ([], LFail r)
    end
  end.

Fixpoint pfold (lls : list (nat * str)) (ps : pstate) (start : nat) : sres pstate :=
  match lls with
  | [] => ROk ps
  | (ix, line) :: t =>
    match pstep ps (start + ix) line with
    | ROk ps' => pfold t ps' start
    | RErr e => RErr e | RHost w => RHost w | RFuel => RFuel
    end
  end.

Definition ploop2 (lines : list str) (ix_part : nat) (ls : lstate) (ps : pstate) (start : nat) : sres (lstate * pstate) :=
  let '(lls, t) := llines lines ix_part ls in
  match pfold lls ps start with
  | ROk ps' =>
    match t with
    | LDone ls' => ROk (ls', ps')
    | LFail (RErr e) => RErr e
    | LFail (RHost w) => RHost w
    | LFail _ => RFuel
    end
  | RErr e => RErr e | RHost w => RHost w | RFuel => RFuel
  end.

(* the line loop with a counter of pstep applications *)
Fixpoint ploop_count (lines : list str) (ix_part : nat) (ls : lstate) (ps : pstate) (start n : nat) : sres (lstate * pstate) * nat :=
  match lines with
  | [] => (ROk (ls, ps), n)
  | part :: rest =>
    match lstep ls ix_part part with
    | LSkip ls' => ploop_count rest (S ix_part) ls' ps start n
    | LLine ls' ix line =>
      match pstep ps (start + ix) line with
      | ROk ps' => ploop_count rest (S ix_part) ls' ps' start (S n)
      | RErr e => (RErr e, S n) | RHost w => (RHost w, S n) | RFuel => (RFuel, S n)
      end
    | LBad (RErr e) => (RErr e, n)
    | LBad (RHost w) => (RHost w, n)
    | LBad _ => (RFuel, n)
    end
  end.

(* parse_script after line splitting *)
Definition ls_init : lstate := {| l_cont := []; l_ix := 0 |}.
Definition parse_lines (lines : list str) (start : nat) : sres script :=
  match ploop lines 0 ls_init ps_init start with
  | ROk (ls, ps) => pfinish ls ps start
  | RErr e => RErr e | RHost w => RHost w | RFuel => RFuel
  end.

(* ---- statement weight: what a successful step adds to the model ---- *)
Fixpoint stmt_weight (s : stmt) : nat :=
  match s with
  | SFunction _ _ _ _ body => S (list_sum (map stmt_weight body))
  | SInclude incs => length incs
  | _ => 1
  end.
Definition stmts_weight (l : list stmt) : nat := list_sum (map stmt_weight l).
Definition ps_weight (ps : pstate) : nat :=
  stmts_weight (ps_global ps) + match ps_fn ps with Some fo => S (stmts_weight (fo_body fo)) | None => 0 end.

(* ---- a direct line splitter (C10): split at \n, dropping one \r before it ---- *)
Fixpoint split_direct_aux (text cur : str) : list str :=
  match text with
  | [] => [rev cur]
  | 10%N :: t => rev (match cur with 13%N :: cur' => cur' | _ => cur end) :: split_direct_aux t []
  | c :: t => split_direct_aux t (c :: cur)
  end.
Definition split_direct (text : str) : list str := split_direct_aux text [].
