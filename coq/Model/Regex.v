(* Regex.v — a backtracking regular-expression matcher with CPython `re` semantics
   (leftmost, ordered alternation, greedy repeats, capture groups, positive look-ahead).
   The regex VALUES are not written by hand: tools/translate.py regenerates them from the
   `re.compile(...)` calls in /repo on every run (coq/Gen/Regexes.v).  No proofs here. *)
From BS Require Import Model.Base.

Inductive ccat := CatSpace | CatDigit | CatWord | CatNotSpace | CatNotDigit | CatNotWord.
Inductive citem := CLit (c : N) | CRange (a b : N) | CCat (k : ccat).

Inductive regex :=
| REps
| RLit (c : N)
| RNotLit (c : N)
| RAny                                   (* `.` without DOTALL: anything but \n *)
| RIn (neg : bool) (items : list citem)
| RBol                                   (* ^  (no MULTILINE) *)
| REol                                   (* $  (no MULTILINE): at end, or before a final \n *)
| RCat (a b : regex)
| RAlt (a b : regex)
| RRep (mn : nat) (mx : option nat) (a : regex)   (* greedy {mn,mx}; mx = None is unbounded *)
| RGroup (n : nat) (a : regex)            (* capturing group number n >= 1 *)
| RLook (a : regex).                      (* (?=a) *)

(* Character classes.  ASCII is modelled exactly; for code points >= 128 the three Unicode
   predicates are tables dumped from the running interpreter (Gen/Unicode.v) and passed in. *)
Record uclass := { u_space : N -> bool; u_digit : N -> bool; u_word : N -> bool }.

Section Engine.
Variable U : uclass.

Definition is_space (c : N) : bool :=
  if (c <? 128)%N then ((9 <=? c) && (c <=? 13) || (28 <=? c) && (c <=? 32))%N else u_space U c.
Definition is_digit (c : N) : bool :=
  if (c <? 128)%N then ((48 <=? c) && (c <=? 57))%N else u_digit U c.
Definition is_word (c : N) : bool :=
  if (c <? 128)%N then ((48 <=? c) && (c <=? 57) || (65 <=? c) && (c <=? 90) || (97 <=? c) && (c <=? 122) || (c =? 95))%N
  else u_word U c.

Definition cat_match (k : ccat) (c : N) : bool :=
  match k with
  | CatSpace => is_space c | CatDigit => is_digit c | CatWord => is_word c
  | CatNotSpace => negb (is_space c) | CatNotDigit => negb (is_digit c) | CatNotWord => negb (is_word c)
  end.
Definition item_match (i : citem) (c : N) : bool :=
  match i with
  | CLit x => (c =? x)%N
  | CRange a b => ((a <=? c) && (c <=? b))%N
  | CCat k => cat_match k c
  end.
Definition class_match (neg : bool) (items : list citem) (c : N) : bool :=
  xorb neg (existsb (fun i => item_match i c) items).

(* capture table: group number -> (start, end) positions in the subject *)
Definition caps := list (nat * (nat * nat)).
Fixpoint cap_get (n : nat) (c : caps) : option (nat * nat) :=
  match c with
  | [] => None
  | (k, se) :: t => if Nat.eqb k n then Some se else cap_get n t
  end.
Definition cap_set (n : nat) (se : nat * nat) (c : caps) : caps := (n, se) :: c.

Inductive mres := MNo | MYes (endpos : nat) (c : caps) | MFuel.

(* m fuel r pos rest caps k : match r at position pos (rest = the subject from pos on) and
   continue with k; fuel bounds the recursion DEPTH only. *)
Fixpoint m (fuel : nat) (r : regex) (pos : nat) (rest : str) (c : caps)
           (k : nat -> str -> caps -> mres) : mres :=
  match fuel with
  | O => MFuel
  | S f =>
    match r with
    | REps => k pos rest c
    | RLit x => match rest with y :: t => if (y =? x)%N then k (S pos) t c else MNo | [] => MNo end
    | RNotLit x => match rest with y :: t => if (y =? x)%N then MNo else k (S pos) t c | [] => MNo end
    | RAny => match rest with y :: t => if (y =? 10)%N then MNo else k (S pos) t c | [] => MNo end
    | RIn neg items => match rest with y :: t => if class_match neg items y then k (S pos) t c else MNo | [] => MNo end
    | RBol => if Nat.eqb pos 0 then k pos rest c else MNo
    | REol => match rest with [] => k pos rest c | [y] => if (y =? 10)%N then k pos rest c else MNo | _ => MNo end
    | RCat a b => m f a pos rest c (fun p r' c' => m f b p r' c' k)
    | RAlt a b => match m f a pos rest c k with MNo => m f b pos rest c k | res => res end
    | RRep mn mx a =>
      let more :=
        match mx with
        | Some O => MNo
        | _ => m f a pos rest c (fun p r' c' =>
                 if Nat.eqb p pos then MNo
                 else m f (RRep (pred mn) (option_map pred mx) a) p r' c' k)
        end in
      match more with
      | MNo => match mn with O => k pos rest c | _ => MNo end
      | res => res
      end
    | RGroup n a => m f a pos rest c (fun p r' c' => k p r' (cap_set n (pos, p) c'))
    | RLook a => match m f a pos rest c (fun p _ c' => MYes p c') with
                 | MYes _ c' => k pos rest c'
                 | MNo => MNo
                 | MFuel => MFuel
                 end
    end
  end.

Fixpoint rsize (r : regex) : nat :=
  match r with
  | RCat a b | RAlt a b => S (rsize a + rsize b)
  | RRep _ _ a | RGroup _ a | RLook a => S (rsize a)
  | _ => 1
  end.

Definition fuel_for (r : regex) (s : str) : nat := (rsize r + 2) * (length s + 2).

(* re.match(r, s): anchored at position 0 *)
Definition re_match (r : regex) (s : str) : mres :=
  m (fuel_for r s) r 0 s [] (fun p _ c => MYes p c).

(* match starting exactly at [pos] of the whole subject [s] (rest = skipn pos s) *)
Definition re_match_at (r : regex) (s : str) (pos : nat) : mres :=
  m (fuel_for r s) r pos (skipn pos s) [] (fun p _ c => MYes p c).

(* re.search: first position with a match *)
Fixpoint re_search_from (r : regex) (whole : str) (fuel pos : nat) (rest : str) : mres :=
  match m (fuel_for r whole) r pos rest [] (fun p _ c => MYes p c) with
  | MYes p c => MYes p (cap_set 0 (pos, p) c)
  | MFuel => MFuel
  | MNo => match fuel, rest with
           | S f, _ :: t => re_search_from r whole f (S pos) t
           | _, _ => MNo
           end
  end.
Definition re_search (r : regex) (s : str) : mres := re_search_from r s (S (length s)) 0 s.

Definition group_text (s : str) (c : caps) (n : nat) : option str :=
  match cap_get n c with
  | Some (a, b) => Some (sub_list s a (b - a))
  | None => None
  end.
Definition group_start (c : caps) (n : nat) : option nat := option_map fst (cap_get n c).

(* re.sub / re.split for patterns that cannot match the empty string (the translator
   refuses to emit a nullable pattern for these uses; an empty match here copies one
   character so that the functions stay total).  [repl] receives the capture texts. *)
Fixpoint re_sub_from (r : regex) (repl : caps -> str) (whole : str) (fuel pos : nat) (rest : str) : option str :=
  match fuel with
  | O => Some rest
  | S f =>
    match m (fuel_for r whole) r pos rest [] (fun p _ c => MYes p c) with
    | MFuel => None
    | MYes p c =>
      if Nat.ltb pos p then
        option_map (fun t => repl (cap_set 0 (pos, p) c) ++ t) (re_sub_from r repl whole f p (skipn (p - pos) rest))
      else match rest with
           | [] => Some []
           | y :: t => option_map (cons y) (re_sub_from r repl whole f (S pos) t)
           end
    | MNo => match rest with
             | [] => Some []
             | y :: t => option_map (cons y) (re_sub_from r repl whole f (S pos) t)
             end
    end
  end.
Definition re_sub (r : regex) (repl : str -> caps -> str) (s : str) : option str :=
  re_sub_from r (repl s) s (S (length s)) 0 s.

Fixpoint re_split_from (r : regex) (whole : str) (fuel pos : nat) (rest cur : str) : option (list str) :=
  match fuel with
  | O => Some [rev cur ++ rest]
  | S f =>
    match rest with
    | [] => Some [rev cur]
    | y :: t =>
      match m (fuel_for r whole) r pos rest [] (fun p _ c => MYes p c) with
      | MFuel => None
      | MYes p _ =>
        if Nat.ltb pos p then
          option_map (cons (rev cur)) (re_split_from r whole f p (skipn (p - pos) rest) [])
        else re_split_from r whole f (S pos) t (y :: cur)
      | MNo => re_split_from r whole f (S pos) t (y :: cur)
      end
    end
  end.
Definition re_split (r : regex) (s : str) : option (list str) :=
  re_split_from r s (S (length s)) 0 s [].

End Engine.
