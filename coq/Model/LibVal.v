(* LibVal.v — values with a heap, and the shape of the generated argument-validation table
   (Gen/ArgSpecs.v is generated against these types).  No proofs here. *)
From Coq Require Import SpecFloat.
From BS Require Import Model.Base Model.Num.
Local Open Scope Z_scope.

(* ---- values ------------------------------------------------------------------------------
   arrays and objects are mutable and aliased in Python: a value holds a LOCATION, the contents
   live in the heap.  Functions and regexes are opaque tags (their identity is never inspected by
   the functions modelled here). *)
Definition loc := nat.
Inductive value :=
| VNull | VBool (b : bool) | VNum (n : num) | VStr (s : str) | VDate (us : Z)
| VArr (l : loc) | VObj (l : loc) | VFun (id : N) | VRegex (id : N).

(* a heap cell: a Python list, or a Python dict (insertion-ordered association list, keys distinct) *)
Inductive cell := CArr (l : list value) | CObj (kv : list (str * value)).
(* the heap: location = position; allocation appends, nothing is ever freed *)
Definition heap := list cell.

(* ---- the generated table's types ------------------------------------------------------------ *)
Inductive atype := TNumber | TString | TArray | TObject | TBoolean | TDatetime | TRegex | TFunction.
Inductive lit := LInt (z : Z) | LFlt (f : flt) | LBool (b : bool) | LStr (s : str).
Record argspec := mk_argspec {
  as_name : str; as_type : option atype; as_nullable : bool; as_default : option lit;
  as_last : bool; as_integer : bool;
  as_lt : option lit; as_lte : option lit; as_gt : option lit; as_gte : option lit }.
(* third argument of value_args_validate: None | a constant | `args[k] if len(args) >= k+1 else None` *)
Inductive failv := FNull | FLit (l : lit) | FArgOrNull (k : nat).

Definition lit_value (l : lit) : value :=
  match l with LInt z => VNum (NInt z) | LFlt f => VNum (NFlt f) | LBool b => VBool b | LStr s => VStr s end.
