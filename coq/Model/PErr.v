(* PErr.v — transliteration of BareScriptParserError.__init__ (parser.py): long-line elision to
   line_length_max characters with the prefix/suffix markers, caret column, message text.
   The three constants are REGENERATED from parser.py (Gen/PErrConst.v).  Python ints are Z here
   (line_left can be negative).  No proofs here. *)
From BS Require Import Model.Base Model.ExprParser Model.Script Gen.PErrConst.
Local Open Scope Z_scope.

(* line[-mx:]  (mx >= 0; note line[-0:] is the whole line) *)
Definition py_last (mx : nat) (line : str) : str :=
  match mx with O => line | _ => skipn (length line - mx) line end.

(* line[a:b] for 0 <= a, 0 <= b *)
Definition py_slice (line : str) (a b : Z) : str :=
  firstn (Z.to_nat b - Z.to_nat a) (skipn (Z.to_nat a) line).

(* (line_error, line_column) *)
Definition elide_with (mx : nat) (prefix suffix line : str) (col : Z) : str * Z :=
  let n := Z.of_nat (length line) in
  let m := Z.of_nat mx in
  if n >? m then
    let line_left := col - 1 - m / 2 in
    let line_right := line_left + m in
    if line_left <? 0 then (firstn mx line ++ suffix, col)
    else if line_right >? n then
      (prefix ++ py_last mx line, col - (line_left - Z.of_nat (length prefix) - (line_right - n)))
    else (prefix ++ py_slice line line_left line_right ++ suffix, col - (line_left - Z.of_nat (length prefix)))
  else (line, col).

Definition elide : str -> Z -> str * Z := elide_with gen_line_length_max gen_line_prefix gen_line_suffix.

(* ' ' * k  ('' for k <= 0) *)
Definition spaces (k : Z) : str := repeat 32%N (Z.to_nat k).

(* str(exc) for BareScriptParserError(error, line, column_number, line_number) (prefix=None) *)
Definition perr_message (msg line : str) (col : Z) (lineno : option Z) : str :=
  let '(shown, c) := elide line col in
  msg ++ (match lineno with Some n => gen_perr_line_number_text ++ Z_to_str n | None => [] end) ++ [58%N; 10%N] ++
  shown ++ [10%N] ++
  spaces (c - 1) ++ [94%N; 10%N].

Definition format_perr (e : perr) : str :=
  perr_message (e_msg e) (e_line e) (Z.of_nat (e_col e)) (option_map Z.of_nat (e_lineno e)).
