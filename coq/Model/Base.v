(* Base.v — shared data representation of the executable model (no proofs here).
   str = list of Unicode code points (the implementation's `str`). *)
From Coq Require Export List ZArith NArith Bool.
From Coq Require Import Ascii.
From Coq Require String.
Export String.StringSyntax.
Import String.
Export ListNotations.

Definition str := list N.

(* ---- strings written by the harness -------------------------------------------------
   The harness writes every string as an ASCII Coq string literal in which a backslash is
   followed by exactly six hexadecimal digits giving one code point; every other character
   stands for itself.  [U] decodes such a literal into a [str]. *)
Definition hexval (a : ascii) : N :=
  let n := N_of_ascii a in
  if (48 <=? n)%N && (n <=? 57)%N then n - 48
  else if (97 <=? n)%N && (n <=? 102)%N then n - 87
  else if (65 <=? n)%N && (n <=? 70)%N then n - 55
  else 0.

Fixpoint U_aux (s : string) (pending : nat) (acc : N) : str :=
  match s with
  | EmptyString => []
  | String a t =>
    match pending with
    | O => if (N_of_ascii a =? 92)%N then U_aux t 6 0%N else N_of_ascii a :: U_aux t O 0%N
    | 1%nat => (acc * 16 + hexval a)%N :: U_aux t O 0%N
    | S p => U_aux t p (acc * 16 + hexval a)%N
    end
  end.
Definition U (s : string) : str := U_aux s O 0%N.
Arguments U s%string_scope.

(* ---- list / string helpers ---------------------------------------------------------- *)
Fixpoint str_eqb (a b : str) : bool :=
  match a, b with
  | [], [] => true
  | x :: a', y :: b' => (x =? y)%N && str_eqb a' b'
  | _, _ => false
  end.

Fixpoint str_compare (a b : str) : comparison :=
  match a, b with
  | [], [] => Eq
  | [], _ :: _ => Lt
  | _ :: _, [] => Gt
  | x :: a', y :: b' => match (x ?= y)%N with Eq => str_compare a' b' | c => c end
  end.

Fixpoint list_eqb {A} (eqb : A -> A -> bool) (a b : list A) : bool :=
  match a, b with
  | [], [] => true
  | x :: a', y :: b' => eqb x y && list_eqb eqb a' b'
  | _, _ => false
  end.

Definition option_eqb {A} (eqb : A -> A -> bool) (a b : option A) : bool :=
  match a, b with
  | None, None => true
  | Some x, Some y => eqb x y
  | _, _ => false
  end.

Fixpoint str_mem (x : str) (l : list str) : bool :=
  match l with [] => false | y :: t => str_eqb x y || str_mem x t end.

Definition sub_list {A} (l : list A) (start len : nat) : list A := firstn len (skipn start l).

Fixpoint str_prefix (p s : str) : bool :=
  match p, s with
  | [], _ => true
  | x :: p', y :: s' => (x =? y)%N && str_prefix p' s'
  | _ :: _, [] => false
  end.

Fixpoint join_with (sep : str) (parts : list str) : str :=
  match parts with
  | [] => []
  | [p] => p
  | p :: t => p ++ sep ++ join_with sep t
  end.

Fixpoint assoc {A} (k : str) (l : list (str * A)) : option A :=
  match l with
  | [] => None
  | (k', v) :: t => if str_eqb k k' then Some v else assoc k t
  end.

(* decimal text of a natural / integer *)
Fixpoint pos_digits_fuel (fuel : nat) (n : N) (acc : str) : str :=
  match fuel with
  | O => acc
  | S f =>
    let d := (n mod 10)%N in
    let q := (n / 10)%N in
    if (q =? 0)%N then (48 + d)%N :: acc else pos_digits_fuel f q ((48 + d)%N :: acc)
  end.
Definition N_to_str (n : N) : str := pos_digits_fuel (S (N.to_nat (N.log2 n))) n [].
Definition Z_to_str (z : Z) : str :=
  match z with
  | Z0 => [48%N]
  | Zpos p => N_to_str (Npos p)
  | Zneg p => 45%N :: N_to_str (Npos p)
  end.
Definition nat_to_str (n : nat) : str := N_to_str (N.of_nat n).

(* indices of [false] entries, as N: what every generated case file prints *)
Fixpoint bad_indices_aux (l : list bool) (i : N) : list N :=
  match l with
  | [] => []
  | true :: t => bad_indices_aux t (i + 1)%N
  | false :: t => i :: bad_indices_aux t (i + 1)%N
  end.
Definition bad_indices (l : list bool) : list N := bad_indices_aux l 0%N.
